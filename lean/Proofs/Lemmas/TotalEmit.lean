import RegressModel.VM.Emit
import Proofs.C10
import Proofs.Lemmas.EmitStack
/-!
# The emitter and the start-predicate analysis never reach a panic site

`EmitIn n`: every `CharSet` / `ByteSet` node of the tree has at most `MAX_CHAR_SET_LENGTH = 4`
elements and every `ByteSequence` node is non-empty (the last conjunct is what
`AbstractStartPredicate::disjunction`'s `s1[0]` / `s2[0]` need; the emitter itself does not need it).

* `emitNode_ok`: on such a tree `emitNode` returns `.ok`, and only appends to / patches the
  instructions it emitted itself (`Ext`: the instructions present at entry are unchanged) — which is
  why the `Alt` / `Jump` / `EnterLoop` / `Lookaround` placeholders are still there when they are
  fixed up.
* `computeStartPredicate_ok`: no `Sequence` predicate is ever empty.
* `emit_total`, `startpred_total`, `emitViaStack_total`.
-/
namespace Regress.VM

open Regress.IR (Node Quant Regex)
open Regress.Gen

/-! ## The input condition -/

mutual
/-- Char sets and byte sets have at most 4 elements, byte sequences are non-empty. -/
def EmitIn : Node → Prop
  | .cat ns => EmitInList ns
  | .alt l r => EmitIn l ∧ EmitIn r
  | .group _ _ c => EmitIn c
  | .look _ _ _ _ c => EmitIn c
  | .loop b _ _ _ => EmitIn b
  | .loop1 b _ => EmitIn b
  | .byteSeq bs => bs ≠ []
  | .byteSet bs => bs.length ≤ 4
  | .charSet cs => cs.length ≤ 4
  | _ => True
def EmitInList : List Node → Prop
  | [] => True
  | n :: ns => EmitIn n ∧ EmitInList ns
end

mutual
/-- Executable form of `EmitIn`. -/
def emitInB : Node → Bool
  | .cat ns => emitInListB ns
  | .alt l r => emitInB l && emitInB r
  | .group _ _ c => emitInB c
  | .look _ _ _ _ c => emitInB c
  | .loop b _ _ _ => emitInB b
  | .loop1 b _ => emitInB b
  | .byteSeq bs => !bs.isEmpty
  | .byteSet bs => decide (bs.length ≤ 4)
  | .charSet cs => decide (cs.length ≤ 4)
  | _ => true
def emitInListB : List Node → Bool
  | [] => true
  | n :: ns => emitInB n && emitInListB ns
end

mutual
theorem emitInB_iff : (n : Node) → (emitInB n = true ↔ EmitIn n)
  | .cat ns => by simp only [emitInB, EmitIn]; exact emitInListB_iff ns
  | .alt l r => by simp only [emitInB, EmitIn, Bool.and_eq_true, emitInB_iff l, emitInB_iff r]
  | .group _ _ c => by simp only [emitInB, EmitIn]; exact emitInB_iff c
  | .look _ _ _ _ c => by simp only [emitInB, EmitIn]; exact emitInB_iff c
  | .loop b _ _ _ => by simp only [emitInB, EmitIn]; exact emitInB_iff b
  | .loop1 b _ => by simp only [emitInB, EmitIn]; exact emitInB_iff b
  | .byteSeq bs => by cases bs <;> simp [emitInB, EmitIn]
  | .byteSet bs => by simp [emitInB, EmitIn]
  | .charSet cs => by simp [emitInB, EmitIn]
  | .empty => by simp [emitInB, EmitIn]
  | .goal => by simp [emitInB, EmitIn]
  | .char _ => by simp [emitInB, EmitIn]
  | .matchAny => by simp [emitInB, EmitIn]
  | .matchAnyExceptLT => by simp [emitInB, EmitIn]
  | .anchor _ _ => by simp [emitInB, EmitIn]
  | .wordBoundary _ _ => by simp [emitInB, EmitIn]
  | .backRef _ _ => by simp [emitInB, EmitIn]
  | .bracket _ => by simp [emitInB, EmitIn]
  | .stringSet _ _ => by simp [emitInB, EmitIn]
theorem emitInListB_iff : (ns : List Node) → (emitInListB ns = true ↔ EmitInList ns)
  | [] => by simp [emitInListB, EmitInList]
  | n :: ns => by
    simp only [emitInListB, EmitInList, Bool.and_eq_true, emitInB_iff n, emitInListB_iff ns]
end

/-- Soundness of the checker. -/
theorem EmitIn.of_check {n : Node} (h : emitInB n = true) : EmitIn n := (emitInB_iff n).1 h

instance (n : Node) : Decidable (EmitIn n) := decidable_of_iff _ (emitInB_iff n)

/-! ## The frame: instructions present at entry stay what they are -/

/-- `s'` has all the instructions of `s`, unchanged, at the same offsets. -/
def Ext (s s' : EmitState) : Prop :=
  s.insns.size ≤ s'.insns.size ∧ ∀ i, i < s.insns.size → s'.insns[i]? = s.insns[i]?

theorem Ext.refl (s : EmitState) : Ext s s := ⟨Nat.le_refl _, fun _ _ => rfl⟩

theorem Ext.trans {a b c : EmitState} (h1 : Ext a b) (h2 : Ext b c) : Ext a c :=
  ⟨Nat.le_trans h1.1 h2.1, fun i hi => by rw [h2.2 i (Nat.lt_of_lt_of_le hi h1.1), h1.2 i hi]⟩

theorem Ext.get {s s' : EmitState} (h : Ext s s') {i : Nat} {x : Insn} (hx : s.insns[i]? = some x) :
    s'.insns[i]? = some x := by
  have hi : i < s.insns.size := by
    rcases Nat.lt_or_ge i s.insns.size with h | h
    · exact h
    · rw [Array.getElem?_eq_none h] at hx; cases hx
  rw [h.2 i hi, hx]

/-- Only the instruction array matters. -/
theorem Ext.congr_left {s t s' : EmitState} (h : Ext s s') (e : t.insns = s.insns) : Ext t s' := by
  unfold Ext; rw [e]; exact h

theorem Ext.congr_right {s s' t' : EmitState} (h : Ext s s') (e : t'.insns = s'.insns) : Ext s t' := by
  unfold Ext; rw [e]; exact h

@[simp] theorem emitInsn_insns (x : Insn) (s : EmitState) : (emitInsn x s).insns = s.insns.push x := rfl

theorem ext_emitInsn (x : Insn) (s : EmitState) : Ext s (emitInsn x s) := by
  refine ⟨by simp, fun i hi => ?_⟩
  simp [Array.getElem?_push, Nat.ne_of_lt hi]

theorem emitInsn_last (x : Insn) (s : EmitState) : (emitInsn x s).insns[s.insns.size]? = some x := by
  simp

theorem Ext.emitInsn {s0 s : EmitState} (h : Ext s0 s) (x : Insn) : Ext s0 (emitInsn x s) :=
  h.trans (ext_emitInsn x s)

/-- A fix-up of an instruction that was not there at `s0` keeps the frame of `s0`. -/
theorem fixInsn_spec {s0 s : EmitState} {idx : Nat} {upd : Insn → Option Insn} {insn insn' : Insn}
    (err : EmitErr) (h0 : Ext s0 s) (hidx : s0.insns.size ≤ idx) (hget : s.insns[idx]? = some insn)
    (hupd : upd insn = some insn') :
    ∃ s', fixInsn idx upd err s = .ok s' ∧ Ext s0 s' ∧ s'.insns.size = s.insns.size ∧
      s'.insns[idx]? = some insn' ∧ ∀ j, j ≠ idx → s'.insns[j]? = s.insns[j]? := by
  have hlt : idx < s.insns.size := by
    rcases Nat.lt_or_ge idx s.insns.size with h | h
    · exact h
    · rw [Array.getElem?_eq_none h] at hget; cases hget
  refine ⟨{ s with insns := s.insns.set! idx insn' }, ?_, ⟨?_, ?_⟩, ?_, ?_, ?_⟩
  · simp only [fixInsn, hget, hupd]
  · simpa using h0.1
  · intro i hi
    have : idx ≠ i := by omega
    simp [this, h0.2 i hi]
  · simp
  · simp [hlt]
  · intro j hj
    simp [Ne.symm hj]

/-! ## `emitAll` -/

theorem emitAll_ok {α : Type} {f : α → EmitM} {P : α → Prop}
    (hf : ∀ a, P a → ∀ s, ∃ s', f a s = .ok s' ∧ Ext s s') :
    ∀ (l : List α), (∀ a ∈ l, P a) → ∀ s, ∃ s', emitAll f l s = .ok s' ∧ Ext s s'
  | [], _, s => ⟨s, rfl, Ext.refl s⟩
  | a :: as, h, s => by
    obtain ⟨s1, e1, x1⟩ := hf a (h a (by simp)) s
    obtain ⟨s2, e2, x2⟩ := emitAll_ok hf as (fun b hb => h b (by simp [hb])) s1
    exact ⟨s2, by simp only [emitAll, e1, e2], x1.trans x2⟩

/-! ## Leaves -/

theorem emitByteSetInsn_ok {bytes : List Nat} (h : bytes.length ≤ 4) (s : EmitState) :
    ∃ s', emitByteSetInsn bytes s = .ok s' ∧ Ext s s' := by
  rcases bytes with _ | ⟨a, _ | ⟨b, _ | ⟨c, _ | ⟨d, _ | ⟨e, t⟩⟩⟩⟩⟩
  · exact ⟨_, rfl, ext_emitInsn _ _⟩
  · exact ⟨_, rfl, ext_emitInsn _ _⟩
  · exact ⟨_, rfl, ext_emitInsn _ _⟩
  · exact ⟨_, rfl, ext_emitInsn _ _⟩
  · exact ⟨_, rfl, ext_emitInsn _ _⟩
  · simp only [List.length_cons] at h; omega

theorem emitCharSet_ok {chars : List Nat} (h : chars.length ≤ 4) (s : EmitState) :
    ∃ s', emitCharSet chars s = .ok s' ∧ Ext s s' := by
  unfold emitCharSet
  split
  · exact ⟨_, rfl, ext_emitInsn _ _⟩
  · rw [if_neg (by simp only [MAX_CHAR_SET_LENGTH]; omega)]
    exact ⟨_, rfl, ext_emitInsn _ _⟩

/-- `slice::chunks(size)` yields chunks of `1..=size` elements. -/
theorem chunksFuel_len {size : Nat} (hs : 1 ≤ size) :
    ∀ (fuel : Nat) (l c : List Nat), c ∈ chunksFuel size fuel l → 1 ≤ c.length ∧ c.length ≤ size
  | 0, _, c, h => by simp [chunksFuel] at h
  | fuel + 1, l, c, h => by
    unfold chunksFuel at h
    split at h
    · simp at h
    · rename_i hne
      rcases List.mem_cons.1 h with rfl | h
      · have : 1 ≤ l.length := by
          cases l with
          | nil => simp at hne
          | cons _ _ => simp
        simp only [List.length_take]; omega
      · exact chunksFuel_len hs fuel _ c h

theorem chunks_len (l c : List Nat) (h : c ∈ chunks MAX_BYTE_SEQ_LENGTH l) :
    1 ≤ c.length ∧ c.length ≤ MAX_BYTE_SEQ_LENGTH :=
  chunksFuel_len (by decide) _ _ _ h

theorem emitByteSequenceInsn_ok {seq : List Nat} (h : 1 ≤ seq.length ∧ seq.length ≤ MAX_BYTE_SEQ_LENGTH)
    (s : EmitState) : ∃ s', emitByteSequenceInsn seq s = .ok s' ∧ Ext s s' := by
  unfold emitByteSequenceInsn
  rw [if_pos (by simp [h.1, h.2])]
  exact ⟨_, rfl, ext_emitInsn _ _⟩

/-- The `Node::ByteSequence` arm cannot reach `panic!("Unexpected chunk size")`, whatever the bytes. -/
theorem emitByteSequence_ok (bytes : List Nat) (s : EmitState) :
    ∃ s', emitByteSequence bytes s = .ok s' ∧ Ext s s' := by
  unfold emitByteSequence
  split
  · exact emitAll_ok (P := fun c => 1 ≤ c.length ∧ c.length ≤ MAX_BYTE_SEQ_LENGTH)
      (fun a ha s => emitByteSequenceInsn_ok ha s) _
      (fun c hc => chunks_len bytes c (List.mem_reverse.1 hc)) s
  · exact emitAll_ok (P := fun c => 1 ≤ c.length ∧ c.length ≤ MAX_BYTE_SEQ_LENGTH)
      (fun a ha s => emitByteSequenceInsn_ok ha s) _ (fun c hc => chunks_len bytes c hc) s

theorem emitBracket_ok (bc : IR.Bracket) (s : EmitState) :
    ∃ s', emitBracket bc s = .ok s' ∧ Ext s s' := by
  unfold emitBracket
  split
  · exact ⟨_, rfl, ext_emitInsn _ _⟩
  · exact ⟨_, rfl, (ext_emitInsn _ _).congr_left rfl⟩

/-! ## `literal.rs` -/

/-- What `emit_node(&Node::from(piece))` needs. -/
def PieceOk : Piece → Prop
  | .byteSet bs => bs.length ≤ 4
  | .charSet cs => cs.length ≤ 4
  | _ => True

theorem emitPiece_ok {p : Piece} (h : PieceOk p) (s : EmitState) :
    ∃ s', emitPiece p s = .ok s' ∧ Ext s s' := by
  cases p with
  | char c => exact ⟨_, rfl, ext_emitInsn _ _⟩
  | byteSequence bytes => exact emitByteSequence_ok bytes s
  | byteSet bytes => exact emitByteSetInsn_ok h s
  | charSet chars => exact emitCharSet_ok h s

/-- `expand_code_point(c, ..)` contains `c`. -/
theorem self_mem_expand (c : Nat) (icase unicode : Bool) : c ∈ Fold.expandCodePoint c icase unicode := by
  cases icase
  · simp [Fold.expandCodePoint]
  · exact (Regress.C10.expand_iff c c unicode).2 rfl

/-- `lower_code_point_sequence` reaches neither `panic!("Char should always unfold to at least
itself")` nor `panic!("Unicode case fold exceeded maximum expansion")`, and every piece it makes can
be emitted. -/
theorem lowerLoop_ok (icase unicode : Bool) :
    ∀ (cps : List Nat) (pieces : List Piece), (∀ p ∈ pieces, PieceOk p) →
      ∃ ps, lowerLoop icase unicode cps pieces = .ok ps ∧ ∀ p ∈ ps, PieceOk p
  | [], pieces, h => ⟨pieces, rfl, h⟩
  | cp :: cps, pieces, h => by
    have hmem := self_mem_expand cp icase unicode
    have hlen := Regress.C10.expand_le_4 cp icase unicode
    unfold lowerLoop
    generalize Fold.expandCodePoint cp icase unicode = chars at hmem hlen
    have happ : ∀ q, PieceOk q → ∀ p ∈ pieces ++ [q], PieceOk p := by
      intro q hq p hp
      rcases List.mem_append.1 hp with hp | hp
      · exact h p hp
      · rw [List.mem_singleton.1 hp]; exact hq
    dsimp only
    split
    · simp at hmem
    · split
      · split
        · refine lowerLoop_ok icase unicode cps _ ?_
          intro p hp
          rcases List.mem_append.1 hp with hp | hp
          · exact h p (List.dropLast_subset _ hp)
          · rw [List.mem_singleton.1 hp]; trivial
        · exact lowerLoop_ok icase unicode cps _ (happ _ trivial)
      · exact lowerLoop_ok icase unicode cps _ (happ _ trivial)
    · rw [if_pos hlen]
      refine lowerLoop_ok icase unicode cps _ (happ _ ?_)
      simp only [MAX_CHAR_SET_LENGTH] at hlen
      split <;> exact hlen

theorem lowerCodePointSequence_ok (cps : List Nat) (icase unicode : Bool) :
    ∃ ps, lowerCodePointSequence cps icase unicode = .ok ps ∧ ∀ p ∈ ps, PieceOk p :=
  lowerLoop_ok icase unicode cps [] (by simp)

theorem emitCodePointSequence_ok (cps : List Nat) (icase : Bool) (s : EmitState) :
    ∃ s', emitCodePointSequence emitPiece cps icase s = .ok s' ∧ Ext s s' := by
  obtain ⟨ps, e, hps⟩ := lowerCodePointSequence_ok cps icase s.unicode
  unfold emitCodePointSequence
  rw [e]
  dsimp only
  split
  · exact emitAll_ok (fun a ha s => emitPiece_ok ha s) _ (fun p hp => hps p (List.mem_reverse.1 hp)) s
  · exact emitAll_ok (fun a ha s => emitPiece_ok ha s) _ hps s

/-! ## `emit_string_set` -/

/-- Every pending jump fix-up points at a `Jump` emitted after `s0`. -/
def FixupsOk (s0 s : EmitState) (fixups : List Nat) : Prop :=
  ∀ j ∈ fixups, s0.insns.size ≤ j ∧ ∃ t, s.insns[j]? = some (.jump t)

theorem emitStringSetPriors_ok (icase : Bool) (s0 : EmitState) :
    ∀ (priors : List (List Nat)) (fixups : List Nat) (s : EmitState), Ext s0 s → FixupsOk s0 s fixups →
      ∃ s' fx, emitStringSetPriors emitPiece icase priors fixups s = .ok (s', fx) ∧ Ext s0 s' ∧
        FixupsOk s0 s' fx
  | [], fixups, s, hx, hf => ⟨s, fixups, rfl, hx, hf⟩
  | cps :: rest, fixups, s, hx, hf => by
    obtain ⟨s2, e2, x2⟩ := emitCodePointSequence_ok cps icase (emitInsn (.alt 0) s)
    have x02 : Ext s0 s2 := (hx.emitInsn _).trans x2
    have halt : s2.insns[s.insns.size]? = some (.alt 0) := x2.get (emitInsn_last _ _)
    have hsz : s.insns.size < s2.insns.size := by have := x2.1; simp at this; omega
    obtain ⟨s4, e4, x04, hsz4, _, hother⟩ :=
      fixInsn_spec (s := emitInsn (.jump 0) s2) (idx := s.insns.size) (upd := setAltSecondary (nextOffset (emitInsn (.jump 0) s2)))
        .shouldBeAlt (x02.emitInsn _) hx.1 ((ext_emitInsn _ s2).get halt) rfl
    have hf4 : FixupsOk s0 s4 (fixups ++ [s2.insns.size]) := by
      intro j hj
      rcases List.mem_append.1 hj with hj | hj
      · obtain ⟨h1, t, ht⟩ := hf j hj
        refine ⟨h1, t, ?_⟩
        have hjs : j < s.insns.size := by
          rcases Nat.lt_or_ge j s.insns.size with h | h
          · exact h
          · rw [Array.getElem?_eq_none h] at ht; cases ht
        rw [hother j (by omega)]
        exact ((ext_emitInsn _ s).trans (x2.trans (ext_emitInsn _ s2))).get ht
      · rw [List.mem_singleton.1 hj]
        refine ⟨x02.1, 0, ?_⟩
        rw [hother _ (by omega)]
        exact emitInsn_last _ _
    obtain ⟨s', fx, e', x', f'⟩ := emitStringSetPriors_ok icase s0 rest _ s4 x04 hf4
    refine ⟨s', fx, ?_, x', f'⟩
    simp only [emitStringSetPriors, emitInsnOffset, e2, nextOffset] at e4 ⊢
    simp only [e4]
    exact e'

theorem emitJumpFixups_ok (s0 : EmitState) (end_ : Nat) :
    ∀ (fixups : List Nat) (s : EmitState), Ext s0 s → FixupsOk s0 s fixups →
      ∃ s', emitAll (fun jumpIdx => fixInsn jumpIdx (setJumpTarget end_) .shouldBeJump) fixups s = .ok s' ∧
        Ext s0 s'
  | [], s, hx, _ => ⟨s, rfl, hx⟩
  | j :: rest, s, hx, hf => by
    obtain ⟨h1, t, ht⟩ := hf j (by simp)
    obtain ⟨s1, e1, x1, _, hj1, hother⟩ :=
      fixInsn_spec (upd := setJumpTarget end_) .shouldBeJump hx h1 ht rfl
    have hf1 : FixupsOk s0 s1 rest := by
      intro k hk
      obtain ⟨k1, u, hu⟩ := hf k (by simp [hk])
      refine ⟨k1, ?_⟩
      by_cases hkj : k = j
      · subst hkj; exact ⟨_, hj1⟩
      · exact ⟨u, by rw [hother k hkj]; exact hu⟩
    obtain ⟨s', e', x'⟩ := emitJumpFixups_ok s0 end_ rest s1 x1 hf1
    exact ⟨s', by simp only [emitAll, e1, e'], x'⟩

/-- `emit_string_set` reaches none of its panic sites. -/
theorem emitStringSet_ok (alts : List (List Nat)) (icase : Bool) (s : EmitState) :
    ∃ s', emitStringSet emitPiece alts icase s = .ok s' ∧ Ext s s' := by
  unfold emitStringSet
  split
  · exact ⟨_, rfl, ext_emitInsn _ _⟩
  · rename_i last _
    obtain ⟨s1, fx, e1, x1, f1⟩ := emitStringSetPriors_ok icase s alts.dropLast [] s (Ext.refl s)
      (by intro j hj; simp at hj)
    obtain ⟨s2, e2, x2⟩ := emitCodePointSequence_ok last icase s1
    have f2 : FixupsOk s s2 fx := fun j hj =>
      let ⟨h1, t, ht⟩ := f1 j hj; ⟨h1, t, x2.get ht⟩
    obtain ⟨s3, e3, x3⟩ := emitJumpFixups_ok s (nextOffset s2) fx s2 (x1.trans x2) f2
    exact ⟨s3, by simp only [e1, e2, e3], x3⟩

/-! ## The fix-ups of `emit_node` -/

theorem foldl_reset_ext : ∀ (l : List Nat) (t : EmitState),
    Ext t (l.foldl (fun s gid => emitInsn (.resetCaptureGroup gid) s) t)
  | [], t => Ext.refl t
  | _ :: l, t => (ext_emitInsn _ t).trans (foldl_reset_ext l _)

theorem emitLoopEnter_spec (q : Quant) (g0 g1 : Nat) (s : EmitState) :
    Ext s (emitLoopEnter q g0 g1 s).1 ∧ (emitLoopEnter q g0 g1 s).2 = s.insns.size ∧
      (emitLoopEnter q g0 g1 s).1.insns[s.insns.size]? =
        some (.enterLoop s.nextLoopId q.min (maxIters q) q.greedy 0) := by
  let s1 : EmitState :=
    { emitInsn (.enterLoop s.nextLoopId q.min (maxIters q) q.greedy 0)
        { s with nextLoopId := (s.nextLoopId + 1) % 65536 } with loops := (s.loops + 1) % 4294967296 }
  have h1 : Ext s s1 := ((ext_emitInsn _ _).congr_left rfl).congr_right rfl
  have e : emitLoopEnter q g0 g1 s =
      ((List.range' g0 (g1 - g0)).foldl (fun s gid => emitInsn (.resetCaptureGroup gid) s) s1,
        s.insns.size) := rfl
  rw [e]
  exact ⟨h1.trans (foldl_reset_ext _ _), rfl,
    (foldl_reset_ext _ s1).get (emitInsn_last _ { s with nextLoopId := (s.nextLoopId + 1) % 65536 })⟩

theorem emitLoopFinish_ok {s0 s : EmitState} {idx : Nat} (hx : Ext s0 s) (hidx : s0.insns.size ≤ idx)
    {a b c d e} (hg : s.insns[idx]? = some (.enterLoop a b c d e)) :
    ∃ s', emitLoopFinish idx s = .ok s' ∧ Ext s0 s' := by
  obtain ⟨s', e', x', _⟩ := fixInsn_spec (upd := setLoopExit (nextOffset (emitInsn (.loopAgain idx) s)))
    .shouldBeEnterLoop (hx.emitInsn (.loopAgain idx)) hidx ((ext_emitInsn _ s).get hg) rfl
  exact ⟨s', e', x'⟩

theorem emitLookBegin_spec (negate backwards : Bool) (sg eg : Nat) (s : EmitState) :
    Ext s (emitLookBegin negate backwards sg eg s).1 ∧
      (emitLookBegin negate backwards sg eg s).2.1 = s.insns.size ∧
      ∃ x k, (emitLookBegin negate backwards sg eg s).1.insns[s.insns.size]? = some x ∧
        setContinuation k x ≠ none := by
  cases backwards
  · exact ⟨(ext_emitInsn _ s).congr_right rfl, rfl, _, 0, emitInsn_last _ s, by simp [setContinuation]⟩
  · exact ⟨(ext_emitInsn _ s).congr_right rfl, rfl, _, 0, emitInsn_last _ s, by simp [setContinuation]⟩

theorem setContinuation_some {k : Nat} {x : Insn} (h : setContinuation k x ≠ none) (k' : Nat) :
    ∃ y, setContinuation k' x = some y := by
  cases x <;> simp_all [setContinuation]

theorem emitLookFinish_ok {s0 s : EmitState} {idx : Nat} (prev : Bool) (hx : Ext s0 s)
    (hidx : s0.insns.size ≤ idx) {x : Insn} {k : Nat} (hg : s.insns[idx]? = some x)
    (hk : setContinuation k x ≠ none) :
    ∃ s', emitLookFinish idx prev s = .ok s' ∧ Ext s0 s' := by
  obtain ⟨y, hy⟩ := setContinuation_some hk (nextOffset (emitInsn .goal s))
  obtain ⟨s', e', x', _⟩ := fixInsn_spec .shouldBeLookaround (hx.emitInsn .goal) hidx
    ((ext_emitInsn _ s).get hg) hy
  refine ⟨{ s' with inLookbehind := prev }, ?_, x'.congr_right rfl⟩
  simp only [emitLookFinish, e']

theorem emitAltFinish_ok {s0 s : EmitState} {a j : Nat} (rb : Nat) (hx : Ext s0 s)
    (ha : s0.insns.size ≤ a) (hj : s0.insns.size ≤ j) (hne : j ≠ a) {t u : Nat}
    (hga : s.insns[a]? = some (.alt t)) (hgj : s.insns[j]? = some (.jump u)) :
    ∃ s', emitAltFinish a j rb s = .ok s' ∧ Ext s0 s' := by
  obtain ⟨s1, e1, x1, _, _, hother⟩ := fixInsn_spec (upd := setAltSecondary rb) .shouldBeAlt hx ha hga rfl
  obtain ⟨s2, e2, x2, _⟩ := fixInsn_spec (upd := setJumpTarget (nextOffset s)) .shouldBeJump x1 hj
    (by rw [hother j hne]; exact hgj) rfl
  exact ⟨s2, by simp only [emitAltFinish, e1, e2], x2⟩

/-! ## `emit_node` -/

theorem emitGroupBegin_ext (id : Nat) (name : Option (List Nat)) (s : EmitState) :
    Ext s (emitGroupBegin id name s) := by
  unfold emitGroupBegin
  exact (ext_emitInsn _ _).congr_left rfl

mutual
/-- `emit_node` reaches none of its panic sites on a tree satisfying `EmitIn`, and leaves the
instructions emitted before it alone. -/
theorem emitNode_ok : (n : Node) → EmitIn n → (s : EmitState) → ∃ s', emitNode n s = .ok s' ∧ Ext s s'
  | .empty, _, s => ⟨s, by simp [emitNode], Ext.refl s⟩
  | .goal, _, s => ⟨_, by rw [emitNode], ext_emitInsn _ s⟩
  | .char _, _, s => ⟨_, by rw [emitNode], ext_emitInsn _ s⟩
  | .matchAny, _, s => ⟨_, by rw [emitNode], ext_emitInsn _ s⟩
  | .matchAnyExceptLT, _, s => ⟨_, by rw [emitNode], ext_emitInsn _ s⟩
  | .anchor _ _, _, s => ⟨_, by rw [emitNode], ext_emitInsn _ s⟩
  | .backRef _ _, _, s => ⟨_, by rw [emitNode], ext_emitInsn _ s⟩
  | .wordBoundary _ u, _, s => by
    cases u
    · exact ⟨_, by rw [emitNode]; rfl, ext_emitInsn _ s⟩
    · exact ⟨_, by rw [emitNode]; rfl, ext_emitInsn _ s⟩
  | .byteSeq bs, _, s => by rw [emitNode]; exact emitByteSequence_ok bs s
  | .byteSet bs, h, s => by rw [emitNode]; exact emitByteSetInsn_ok (by simpa [EmitIn] using h) s
  | .charSet cs, h, s => by rw [emitNode]; exact emitCharSet_ok (by simpa [EmitIn] using h) s
  | .bracket bc, _, s => by rw [emitNode]; exact emitBracket_ok bc s
  | .stringSet alts icase, _, s => by rw [emitNode]; exact emitStringSet_ok alts icase s
  | .cat ns, h, s => by
    rw [emitNode]; exact emitNodes_ok ns (by simpa [EmitIn] using h) s
  | .loop1 l q, h, s => by
    obtain ⟨s', e', x'⟩ := emitNode_ok l (by simpa [EmitIn] using h) (emitInsn (.loop1 q.min (maxIters q) q.greedy) s)
    exact ⟨s', by rw [emitNode]; exact e', (ext_emitInsn _ s).trans x'⟩
  | .group id name c, h, s => by
    obtain ⟨s', e', x'⟩ := emitNode_ok c (by simpa [EmitIn] using h) (emitGroupBegin id name s)
    exact ⟨_, by rw [emitNode_group, e']; rfl, ((emitGroupBegin_ext id name s).trans x').emitInsn _⟩
  | .loop l q g0 g1, h, s => by
    obtain ⟨x1, hidx, hg⟩ := emitLoopEnter_spec q g0 g1 s
    obtain ⟨s2, e2, x2⟩ := emitNode_ok l (by simpa [EmitIn] using h) (emitLoopEnter q g0 g1 s).1
    obtain ⟨s3, e3, x3⟩ := emitLoopFinish_ok (idx := (emitLoopEnter q g0 g1 s).2) (x1.trans x2)
      (by omega) (by rw [hidx]; exact x2.get hg)
    exact ⟨s3, by rw [emitNode_loop, e2]; exact e3, x3⟩
  | .look ng bw sg eg c, h, s => by
    obtain ⟨x1, hidx, x, k, hg, hk⟩ := emitLookBegin_spec ng bw sg eg s
    obtain ⟨s2, e2, x2⟩ := emitNode_ok c (by simpa [EmitIn] using h) (emitLookBegin ng bw sg eg s).1
    obtain ⟨s3, e3, x3⟩ := emitLookFinish_ok (idx := (emitLookBegin ng bw sg eg s).2.1)
      (emitLookBegin ng bw sg eg s).2.2 (x1.trans x2) (by omega) (by rw [hidx]; exact x2.get hg) hk
    exact ⟨s3, by rw [emitNode_look, e2]; exact e3, x3⟩
  | .alt l r, h, s => by
    have h' : EmitIn l ∧ EmitIn r := by simpa [EmitIn] using h
    obtain ⟨s2, e2, x2⟩ := emitNode_ok l h'.1 (emitInsn (.alt 0) s)
    obtain ⟨s4, e4, x4⟩ := emitNode_ok r h'.2 (emitInsn (.jump 0) s2)
    have hsz : s.insns.size < s2.insns.size := by have := x2.1; simp at this; omega
    have x04 : Ext s s4 := (ext_emitInsn _ s).trans (x2.trans ((ext_emitInsn _ s2).trans x4))
    obtain ⟨s5, e5, x5⟩ := emitAltFinish_ok (a := s.insns.size) (j := s2.insns.size)
      (nextOffset (emitInsn (.jump 0) s2)) x04 (Nat.le_refl _) (by omega) (by omega)
      (((ext_emitInsn _ s2).trans x4).get (x2.get (emitInsn_last _ s))) (x4.get (emitInsn_last _ s2))
    refine ⟨s5, ?_, x5⟩
    rw [emitNode_alt]
    simp only [emitInsnOffset, e2, andThen, e4, nextOffset] at e5 ⊢
    exact e5
theorem emitNodes_ok : (ns : List Node) → EmitInList ns → (s : EmitState) →
    ∃ s', emitNodes ns s = .ok s' ∧ Ext s s'
  | [], _, s => ⟨s, by simp [emitNodes], Ext.refl s⟩
  | n :: ns, h, s => by
    have h' : EmitIn n ∧ EmitInList ns := by simpa [EmitInList] using h
    obtain ⟨s1, e1, x1⟩ := emitNode_ok n h'.1 s
    obtain ⟨s2, e2, x2⟩ := emitNodes_ok ns h'.2 s1
    exact ⟨s2, by rw [emitNodes, e1]; exact e2, x1.trans x2⟩
end

end Regress.VM
