import RegressModel.VM.Emit
import Proofs.C10
import Proofs.Lemmas.EmitStack
/-!
# The emitter and the start-predicate analysis never reach a panic site

* `SetsLe4 n`: every `CharSet` / `ByteSet` node of the tree has at most `MAX_CHAR_SET_LENGTH = 4`
  elements. This is all `Emitter::emit_node` needs.
* `NoEmptySeq n`: every `ByteSequence` node is non-empty. This is what
  `AbstractStartPredicate::disjunction`'s `s1[0]` / `s2[0]` need (`startpred_needs_nonempty` shows the
  panic otherwise).
* `EmitIn n := SetsLe4 n ∧ NoEmptySeq n`, with Boolean checkers and `Decidable` instances.

* `emitNode_ok`: on a `SetsLe4` tree `emitNode` returns `.ok`, and only appends to / patches the
  instructions it emitted itself (`Ext`: the instructions present at entry are unchanged) — which is
  why the `Alt` / `Jump` / `EnterLoop` / `Lookaround` placeholders are still there when they are
  fixed up, and why `get_insn` never indexes out of bounds.
* `lowerLoop_ok`: `lower_code_point_sequence` never fails (`expand_code_point` yields 1..4 code
  points, `C10.expand_le_4`); `chunks_len`: `chunks(16)` yields chunks of 1..16 bytes.
* `computeStartPredicate_ok`: no `Sequence` predicate is ever empty.
* `C07.emit_total`, `C07.startpred_total`, `C07.emitNode_total`, `C07.emitViaStack_total`.
-/
namespace Regress.VM

open Regress.IR (Node Quant Regex)
open Regress.Gen

/-! ## The input conditions -/

mutual
/-- Every `ByteSet` and `CharSet` node has at most `MAX_CHAR_SET_LENGTH = 4` elements (what the emitter
needs). -/
def SetsLe4 : Node → Prop
  | .cat ns => SetsLe4List ns
  | .alt l r => SetsLe4 l ∧ SetsLe4 r
  | .group _ _ c => SetsLe4 c
  | .look _ _ _ _ c => SetsLe4 c
  | .loop b _ _ _ => SetsLe4 b
  | .loop1 b _ => SetsLe4 b
  | .byteSet bs => bs.length ≤ 4
  | .charSet cs => cs.length ≤ 4
  | _ => True
def SetsLe4List : List Node → Prop
  | [] => True
  | n :: ns => SetsLe4 n ∧ SetsLe4List ns
end

mutual
/-- Executable form of `SetsLe4`. -/
def setsLe4B : Node → Bool
  | .cat ns => setsLe4ListB ns
  | .alt l r => setsLe4B l && setsLe4B r
  | .group _ _ c => setsLe4B c
  | .look _ _ _ _ c => setsLe4B c
  | .loop b _ _ _ => setsLe4B b
  | .loop1 b _ => setsLe4B b
  | .byteSet bs => decide (bs.length ≤ 4)
  | .charSet cs => decide (cs.length ≤ 4)
  | _ => true
def setsLe4ListB : List Node → Bool
  | [] => true
  | n :: ns => setsLe4B n && setsLe4ListB ns
end

mutual
theorem setsLe4B_iff : (n : Node) → (setsLe4B n = true ↔ SetsLe4 n)
  | .cat ns => by simp only [setsLe4B, SetsLe4]; exact setsLe4ListB_iff ns
  | .alt l r => by simp only [setsLe4B, SetsLe4, Bool.and_eq_true, setsLe4B_iff l, setsLe4B_iff r]
  | .group _ _ c => by simp only [setsLe4B, SetsLe4]; exact setsLe4B_iff c
  | .look _ _ _ _ c => by simp only [setsLe4B, SetsLe4]; exact setsLe4B_iff c
  | .loop b _ _ _ => by simp only [setsLe4B, SetsLe4]; exact setsLe4B_iff b
  | .loop1 b _ => by simp only [setsLe4B, SetsLe4]; exact setsLe4B_iff b
  | .byteSeq bs => by cases bs <;> simp [setsLe4B, SetsLe4]
  | .byteSet bs => by simp [setsLe4B, SetsLe4]
  | .charSet cs => by simp [setsLe4B, SetsLe4]
  | .empty => by simp [setsLe4B, SetsLe4]
  | .goal => by simp [setsLe4B, SetsLe4]
  | .char _ => by simp [setsLe4B, SetsLe4]
  | .matchAny => by simp [setsLe4B, SetsLe4]
  | .matchAnyExceptLT => by simp [setsLe4B, SetsLe4]
  | .anchor _ _ => by simp [setsLe4B, SetsLe4]
  | .wordBoundary _ _ => by simp [setsLe4B, SetsLe4]
  | .backRef _ _ => by simp [setsLe4B, SetsLe4]
  | .bracket _ => by simp [setsLe4B, SetsLe4]
  | .stringSet _ _ => by simp [setsLe4B, SetsLe4]
theorem setsLe4ListB_iff : (ns : List Node) → (setsLe4ListB ns = true ↔ SetsLe4List ns)
  | [] => by simp [setsLe4ListB, SetsLe4List]
  | n :: ns => by
    simp only [setsLe4ListB, SetsLe4List, Bool.and_eq_true, setsLe4B_iff n, setsLe4ListB_iff ns]
end

theorem SetsLe4List_iff : (ns : List Node) → (SetsLe4List ns ↔ ∀ n ∈ ns, SetsLe4 n)
  | [] => by simp [SetsLe4List]
  | n :: ns => by simp [SetsLe4List, SetsLe4List_iff ns]

/-! Unfolding lemmas (the predicate is compositional and does not look at quantifiers or groups). -/
theorem SetsLe4_cat (ns : List Node) : SetsLe4 (.cat ns) ↔ ∀ n ∈ ns, SetsLe4 n := by
  rw [SetsLe4]; exact SetsLe4List_iff ns
theorem SetsLe4_alt (l r : Node) : SetsLe4 (.alt l r) ↔ SetsLe4 l ∧ SetsLe4 r := by rw [SetsLe4]
theorem SetsLe4_group (i : Nat) (nm : Option (List Nat)) (c : Node) : SetsLe4 (.group i nm c) ↔ SetsLe4 c := by
  rw [SetsLe4]
theorem SetsLe4_look (ng bw : Bool) (sg eg : Nat) (c : Node) : SetsLe4 (.look ng bw sg eg c) ↔ SetsLe4 c := by
  rw [SetsLe4]
theorem SetsLe4_loop (b : Node) (q : Quant) (g0 g1 : Nat) : SetsLe4 (.loop b q g0 g1) ↔ SetsLe4 b := by rw [SetsLe4]
theorem SetsLe4_loop1 (b : Node) (q : Quant) : SetsLe4 (.loop1 b q) ↔ SetsLe4 b := by rw [SetsLe4]

theorem SetsLe4_byteSet (bs : List Nat) : SetsLe4 (.byteSet bs) ↔ bs.length ≤ 4 := by rw [SetsLe4]
theorem SetsLe4_charSet (cs : List Nat) : SetsLe4 (.charSet cs) ↔ cs.length ≤ 4 := by rw [SetsLe4]

mutual
/-- No `ByteSequence` node is empty (what `startpredicate::disjunction` needs for `s1[0]` / `s2[0]`).
Not an invariant of every single pass: `form_literal_bytes` leaves emptied sequences behind, which
`remove_empties` deletes later in the same round of `optimize`. -/
def NoEmptySeq : Node → Prop
  | .cat ns => NoEmptySeqList ns
  | .alt l r => NoEmptySeq l ∧ NoEmptySeq r
  | .group _ _ c => NoEmptySeq c
  | .look _ _ _ _ c => NoEmptySeq c
  | .loop b _ _ _ => NoEmptySeq b
  | .loop1 b _ => NoEmptySeq b
  | .byteSeq bs => bs ≠ []
  | _ => True
def NoEmptySeqList : List Node → Prop
  | [] => True
  | n :: ns => NoEmptySeq n ∧ NoEmptySeqList ns
end

mutual
/-- Executable form of `NoEmptySeq`. -/
def noEmptySeqB : Node → Bool
  | .cat ns => noEmptySeqListB ns
  | .alt l r => noEmptySeqB l && noEmptySeqB r
  | .group _ _ c => noEmptySeqB c
  | .look _ _ _ _ c => noEmptySeqB c
  | .loop b _ _ _ => noEmptySeqB b
  | .loop1 b _ => noEmptySeqB b
  | .byteSeq bs => !bs.isEmpty
  | _ => true
def noEmptySeqListB : List Node → Bool
  | [] => true
  | n :: ns => noEmptySeqB n && noEmptySeqListB ns
end

mutual
theorem noEmptySeqB_iff : (n : Node) → (noEmptySeqB n = true ↔ NoEmptySeq n)
  | .cat ns => by simp only [noEmptySeqB, NoEmptySeq]; exact noEmptySeqListB_iff ns
  | .alt l r => by simp only [noEmptySeqB, NoEmptySeq, Bool.and_eq_true, noEmptySeqB_iff l, noEmptySeqB_iff r]
  | .group _ _ c => by simp only [noEmptySeqB, NoEmptySeq]; exact noEmptySeqB_iff c
  | .look _ _ _ _ c => by simp only [noEmptySeqB, NoEmptySeq]; exact noEmptySeqB_iff c
  | .loop b _ _ _ => by simp only [noEmptySeqB, NoEmptySeq]; exact noEmptySeqB_iff b
  | .loop1 b _ => by simp only [noEmptySeqB, NoEmptySeq]; exact noEmptySeqB_iff b
  | .byteSeq bs => by cases bs <;> simp [noEmptySeqB, NoEmptySeq]
  | .byteSet bs => by simp [noEmptySeqB, NoEmptySeq]
  | .charSet cs => by simp [noEmptySeqB, NoEmptySeq]
  | .empty => by simp [noEmptySeqB, NoEmptySeq]
  | .goal => by simp [noEmptySeqB, NoEmptySeq]
  | .char _ => by simp [noEmptySeqB, NoEmptySeq]
  | .matchAny => by simp [noEmptySeqB, NoEmptySeq]
  | .matchAnyExceptLT => by simp [noEmptySeqB, NoEmptySeq]
  | .anchor _ _ => by simp [noEmptySeqB, NoEmptySeq]
  | .wordBoundary _ _ => by simp [noEmptySeqB, NoEmptySeq]
  | .backRef _ _ => by simp [noEmptySeqB, NoEmptySeq]
  | .bracket _ => by simp [noEmptySeqB, NoEmptySeq]
  | .stringSet _ _ => by simp [noEmptySeqB, NoEmptySeq]
theorem noEmptySeqListB_iff : (ns : List Node) → (noEmptySeqListB ns = true ↔ NoEmptySeqList ns)
  | [] => by simp [noEmptySeqListB, NoEmptySeqList]
  | n :: ns => by
    simp only [noEmptySeqListB, NoEmptySeqList, Bool.and_eq_true, noEmptySeqB_iff n, noEmptySeqListB_iff ns]
end

theorem NoEmptySeqList_iff : (ns : List Node) → (NoEmptySeqList ns ↔ ∀ n ∈ ns, NoEmptySeq n)
  | [] => by simp [NoEmptySeqList]
  | n :: ns => by simp [NoEmptySeqList, NoEmptySeqList_iff ns]

/-! Unfolding lemmas (the predicate is compositional and does not look at quantifiers or groups). -/
theorem NoEmptySeq_cat (ns : List Node) : NoEmptySeq (.cat ns) ↔ ∀ n ∈ ns, NoEmptySeq n := by
  rw [NoEmptySeq]; exact NoEmptySeqList_iff ns
theorem NoEmptySeq_alt (l r : Node) : NoEmptySeq (.alt l r) ↔ NoEmptySeq l ∧ NoEmptySeq r := by rw [NoEmptySeq]
theorem NoEmptySeq_group (i : Nat) (nm : Option (List Nat)) (c : Node) : NoEmptySeq (.group i nm c) ↔ NoEmptySeq c := by
  rw [NoEmptySeq]
theorem NoEmptySeq_look (ng bw : Bool) (sg eg : Nat) (c : Node) : NoEmptySeq (.look ng bw sg eg c) ↔ NoEmptySeq c := by
  rw [NoEmptySeq]
theorem NoEmptySeq_loop (b : Node) (q : Quant) (g0 g1 : Nat) : NoEmptySeq (.loop b q g0 g1) ↔ NoEmptySeq b := by rw [NoEmptySeq]
theorem NoEmptySeq_loop1 (b : Node) (q : Quant) : NoEmptySeq (.loop1 b q) ↔ NoEmptySeq b := by rw [NoEmptySeq]

theorem NoEmptySeq_byteSeq (bs : List Nat) : NoEmptySeq (.byteSeq bs) ↔ bs ≠ [] := by rw [NoEmptySeq]

/-- The input condition of `emit`: `SetsLe4` for `emit_node`, `NoEmptySeq` for `predicate_for_re`. -/
def EmitIn (n : Node) : Prop := SetsLe4 n ∧ NoEmptySeq n

/-- Executable form of `EmitIn`. -/
def emitInB (n : Node) : Bool := setsLe4B n && noEmptySeqB n

theorem emitInB_iff (n : Node) : emitInB n = true ↔ EmitIn n := by
  simp only [emitInB, EmitIn, Bool.and_eq_true, setsLe4B_iff, noEmptySeqB_iff]

/-- Soundness of the checker. -/
theorem EmitIn.of_check {n : Node} (h : emitInB n = true) : EmitIn n := (emitInB_iff n).1 h

instance (n : Node) : Decidable (SetsLe4 n) := decidable_of_iff _ (setsLe4B_iff n)
instance (n : Node) : Decidable (NoEmptySeq n) := decidable_of_iff _ (noEmptySeqB_iff n)
instance (n : Node) : Decidable (EmitIn n) := decidable_of_iff _ (emitInB_iff n)

/-! ## The frame: instructions present at entry stay what they are -/

/-- `s'` has all the instructions of `s`, unchanged, at the same offsets. -/
def Ext (s s' : EmitState) : Prop :=
  s.insns.size ≤ s'.insns.size ∧ ∀ i, i < s.insns.size → s'.insns[i]? = s.insns[i]?

theorem Ext.refl (s : EmitState) : Ext s s := ⟨Nat.le_refl _, fun _ _ => rfl⟩

theorem Ext.trans {a b c : EmitState} (h1 : Ext a b) (h2 : Ext b c) : Ext a c :=
  ⟨Nat.le_trans h1.1 h2.1, fun i hi => by rw [h2.2 i (Nat.lt_of_lt_of_le hi h1.1), h1.2 i hi]⟩

theorem Ext.get {s s' : EmitState} (h : Ext s s') {i : Nat} {x : Insn} (hx : s.insns[i]? = some x) :
    s'.insns[i]? = some x := by
  have hi : i < s.insns.size := by
    rcases Nat.lt_or_ge i s.insns.size with h | h
    · exact h
    · rw [Array.getElem?_eq_none h] at hx; cases hx
  rw [h.2 i hi, hx]

/-- Only the instruction array matters. -/
theorem Ext.congr_left {s t s' : EmitState} (h : Ext s s') (e : t.insns = s.insns) : Ext t s' := by
  unfold Ext; rw [e]; exact h

theorem Ext.congr_right {s s' t' : EmitState} (h : Ext s s') (e : t'.insns = s'.insns) : Ext s t' := by
  unfold Ext; rw [e]; exact h

@[simp] theorem emitInsn_insns (x : Insn) (s : EmitState) : (emitInsn x s).insns = s.insns.push x := rfl

theorem ext_emitInsn (x : Insn) (s : EmitState) : Ext s (emitInsn x s) := by
  refine ⟨by simp, fun i hi => ?_⟩
  simp [Array.getElem?_push, Nat.ne_of_lt hi]

theorem emitInsn_last (x : Insn) (s : EmitState) : (emitInsn x s).insns[s.insns.size]? = some x := by
  simp

theorem Ext.emitInsn {s0 s : EmitState} (h : Ext s0 s) (x : Insn) : Ext s0 (emitInsn x s) :=
  h.trans (ext_emitInsn x s)

/-- A fix-up of an instruction that was not there at `s0` keeps the frame of `s0`. -/
theorem fixInsn_spec {s0 s : EmitState} {idx : Nat} {upd : Insn → Option Insn} {insn insn' : Insn}
    (err : EmitErr) (h0 : Ext s0 s) (hidx : s0.insns.size ≤ idx) (hget : s.insns[idx]? = some insn)
    (hupd : upd insn = some insn') :
    ∃ s', fixInsn idx upd err s = .ok s' ∧ Ext s0 s' ∧ s'.insns.size = s.insns.size ∧
      s'.insns[idx]? = some insn' ∧ ∀ j, j ≠ idx → s'.insns[j]? = s.insns[j]? := by
  have hlt : idx < s.insns.size := by
    rcases Nat.lt_or_ge idx s.insns.size with h | h
    · exact h
    · rw [Array.getElem?_eq_none h] at hget; cases hget
  refine ⟨{ s with insns := s.insns.set! idx insn' }, ?_, ⟨?_, ?_⟩, ?_, ?_, ?_⟩
  · simp only [fixInsn, hget, hupd]
  · simpa using h0.1
  · intro i hi
    have : idx ≠ i := by omega
    simp [this, h0.2 i hi]
  · simp
  · simp [hlt]
  · intro j hj
    simp [Ne.symm hj]

/-! ## `emitAll` -/

theorem emitAll_ok {α : Type} {f : α → EmitM} {P : α → Prop}
    (hf : ∀ a, P a → ∀ s, ∃ s', f a s = .ok s' ∧ Ext s s') :
    ∀ (l : List α), (∀ a ∈ l, P a) → ∀ s, ∃ s', emitAll f l s = .ok s' ∧ Ext s s'
  | [], _, s => ⟨s, rfl, Ext.refl s⟩
  | a :: as, h, s => by
    obtain ⟨s1, e1, x1⟩ := hf a (h a (by simp)) s
    obtain ⟨s2, e2, x2⟩ := emitAll_ok hf as (fun b hb => h b (by simp [hb])) s1
    exact ⟨s2, by simp only [emitAll, e1, e2], x1.trans x2⟩

/-! ## Leaves -/

theorem emitByteSetInsn_ok {bytes : List Nat} (h : bytes.length ≤ 4) (s : EmitState) :
    ∃ s', emitByteSetInsn bytes s = .ok s' ∧ Ext s s' := by
  rcases bytes with _ | ⟨a, _ | ⟨b, _ | ⟨c, _ | ⟨d, _ | ⟨e, t⟩⟩⟩⟩⟩
  · exact ⟨_, rfl, ext_emitInsn _ _⟩
  · exact ⟨_, rfl, ext_emitInsn _ _⟩
  · exact ⟨_, rfl, ext_emitInsn _ _⟩
  · exact ⟨_, rfl, ext_emitInsn _ _⟩
  · exact ⟨_, rfl, ext_emitInsn _ _⟩
  · simp only [List.length_cons] at h; omega

theorem emitCharSet_ok {chars : List Nat} (h : chars.length ≤ 4) (s : EmitState) :
    ∃ s', emitCharSet chars s = .ok s' ∧ Ext s s' := by
  unfold emitCharSet
  split
  · exact ⟨_, rfl, ext_emitInsn _ _⟩
  · rw [if_neg (by simp only [MAX_CHAR_SET_LENGTH]; omega)]
    exact ⟨_, rfl, ext_emitInsn _ _⟩

/-- `slice::chunks(size)` yields chunks of `1..=size` elements. -/
theorem chunksFuel_len {size : Nat} (hs : 1 ≤ size) :
    ∀ (fuel : Nat) (l c : List Nat), c ∈ chunksFuel size fuel l → 1 ≤ c.length ∧ c.length ≤ size
  | 0, _, c, h => by simp [chunksFuel] at h
  | fuel + 1, l, c, h => by
    unfold chunksFuel at h
    split at h
    · simp at h
    · rename_i hne
      rcases List.mem_cons.1 h with rfl | h
      · have : 1 ≤ l.length := by
          cases l with
          | nil => simp at hne
          | cons _ _ => simp
        simp only [List.length_take]; omega
      · exact chunksFuel_len hs fuel _ c h

theorem chunks_len (l c : List Nat) (h : c ∈ chunks MAX_BYTE_SEQ_LENGTH l) :
    1 ≤ c.length ∧ c.length ≤ MAX_BYTE_SEQ_LENGTH :=
  chunksFuel_len (by decide) _ _ _ h

theorem emitByteSequenceInsn_ok {seq : List Nat} (h : 1 ≤ seq.length ∧ seq.length ≤ MAX_BYTE_SEQ_LENGTH)
    (s : EmitState) : ∃ s', emitByteSequenceInsn seq s = .ok s' ∧ Ext s s' := by
  unfold emitByteSequenceInsn
  rw [if_pos (by simp [h.1, h.2])]
  exact ⟨_, rfl, ext_emitInsn _ _⟩

/-- The `Node::ByteSequence` arm cannot reach `panic!("Unexpected chunk size")`, whatever the bytes. -/
theorem emitByteSequence_ok (bytes : List Nat) (s : EmitState) :
    ∃ s', emitByteSequence bytes s = .ok s' ∧ Ext s s' := by
  unfold emitByteSequence
  split
  · exact emitAll_ok (P := fun c => 1 ≤ c.length ∧ c.length ≤ MAX_BYTE_SEQ_LENGTH)
      (fun a ha s => emitByteSequenceInsn_ok ha s) _
      (fun c hc => chunks_len bytes c (List.mem_reverse.1 hc)) s
  · exact emitAll_ok (P := fun c => 1 ≤ c.length ∧ c.length ≤ MAX_BYTE_SEQ_LENGTH)
      (fun a ha s => emitByteSequenceInsn_ok ha s) _ (fun c hc => chunks_len bytes c hc) s

theorem emitBracket_ok (bc : IR.Bracket) (s : EmitState) :
    ∃ s', emitBracket bc s = .ok s' ∧ Ext s s' := by
  unfold emitBracket
  split
  · exact ⟨_, rfl, ext_emitInsn _ _⟩
  · exact ⟨_, rfl, (ext_emitInsn _ _).congr_left rfl⟩

/-! ## `literal.rs` -/

/-- What `emit_node(&Node::from(piece))` needs. -/
def PieceOk : Piece → Prop
  | .byteSet bs => bs.length ≤ 4
  | .charSet cs => cs.length ≤ 4
  | _ => True

theorem emitPiece_ok {p : Piece} (h : PieceOk p) (s : EmitState) :
    ∃ s', emitPiece p s = .ok s' ∧ Ext s s' := by
  cases p with
  | char c => exact ⟨_, rfl, ext_emitInsn _ _⟩
  | byteSequence bytes => exact emitByteSequence_ok bytes s
  | byteSet bytes => exact emitByteSetInsn_ok h s
  | charSet chars => exact emitCharSet_ok h s

/-- `expand_code_point(c, ..)` contains `c`. -/
theorem self_mem_expand (c : Nat) (icase unicode : Bool) : c ∈ Fold.expandCodePoint c icase unicode := by
  cases icase
  · simp [Fold.expandCodePoint]
  · exact (Regress.C10.expand_iff c c unicode).2 rfl

/-- `lower_code_point_sequence` reaches neither `panic!("Char should always unfold to at least
itself")` nor `panic!("Unicode case fold exceeded maximum expansion")`, and every piece it makes can
be emitted. -/
theorem lowerLoop_ok (icase unicode : Bool) :
    ∀ (cps : List Nat) (pieces : List Piece), (∀ p ∈ pieces, PieceOk p) →
      ∃ ps, lowerLoop icase unicode cps pieces = .ok ps ∧ ∀ p ∈ ps, PieceOk p
  | [], pieces, h => ⟨pieces, rfl, h⟩
  | cp :: cps, pieces, h => by
    have hmem := self_mem_expand cp icase unicode
    have hlen := Regress.C10.expand_le_4 cp icase unicode
    unfold lowerLoop
    generalize Fold.expandCodePoint cp icase unicode = chars at hmem hlen
    have happ : ∀ q, PieceOk q → ∀ p ∈ pieces ++ [q], PieceOk p := by
      intro q hq p hp
      rcases List.mem_append.1 hp with hp | hp
      · exact h p hp
      · rw [List.mem_singleton.1 hp]; exact hq
    dsimp only
    split
    · simp at hmem
    · split
      · split
        · refine lowerLoop_ok icase unicode cps _ ?_
          intro p hp
          rcases List.mem_append.1 hp with hp | hp
          · exact h p (List.dropLast_subset _ hp)
          · rw [List.mem_singleton.1 hp]; trivial
        · exact lowerLoop_ok icase unicode cps _ (happ _ trivial)
      · exact lowerLoop_ok icase unicode cps _ (happ _ trivial)
    · rw [if_pos hlen]
      refine lowerLoop_ok icase unicode cps _ (happ _ ?_)
      simp only [MAX_CHAR_SET_LENGTH] at hlen
      split <;> exact hlen

theorem lowerCodePointSequence_ok (cps : List Nat) (icase unicode : Bool) :
    ∃ ps, lowerCodePointSequence cps icase unicode = .ok ps ∧ ∀ p ∈ ps, PieceOk p :=
  lowerLoop_ok icase unicode cps [] (by simp)

theorem emitCodePointSequence_ok (cps : List Nat) (icase : Bool) (s : EmitState) :
    ∃ s', emitCodePointSequence emitPiece cps icase s = .ok s' ∧ Ext s s' := by
  obtain ⟨ps, e, hps⟩ := lowerCodePointSequence_ok cps icase s.unicode
  unfold emitCodePointSequence
  rw [e]
  dsimp only
  split
  · exact emitAll_ok (fun a ha s => emitPiece_ok ha s) _ (fun p hp => hps p (List.mem_reverse.1 hp)) s
  · exact emitAll_ok (fun a ha s => emitPiece_ok ha s) _ hps s

/-! ## `emit_string_set` -/

/-- Every pending jump fix-up points at a `Jump` emitted after `s0`. -/
def FixupsOk (s0 s : EmitState) (fixups : List Nat) : Prop :=
  ∀ j ∈ fixups, s0.insns.size ≤ j ∧ ∃ t, s.insns[j]? = some (.jump t)

theorem emitStringSetPriors_ok (icase : Bool) (s0 : EmitState) :
    ∀ (priors : List (List Nat)) (fixups : List Nat) (s : EmitState), Ext s0 s → FixupsOk s0 s fixups →
      ∃ s' fx, emitStringSetPriors emitPiece icase priors fixups s = .ok (s', fx) ∧ Ext s0 s' ∧
        FixupsOk s0 s' fx
  | [], fixups, s, hx, hf => ⟨s, fixups, rfl, hx, hf⟩
  | cps :: rest, fixups, s, hx, hf => by
    obtain ⟨s2, e2, x2⟩ := emitCodePointSequence_ok cps icase (emitInsn (.alt 0) s)
    have x02 : Ext s0 s2 := (hx.emitInsn _).trans x2
    have halt : s2.insns[s.insns.size]? = some (.alt 0) := x2.get (emitInsn_last _ _)
    have hsz : s.insns.size < s2.insns.size := by have := x2.1; simp at this; omega
    obtain ⟨s4, e4, x04, hsz4, _, hother⟩ :=
      fixInsn_spec (s := emitInsn (.jump 0) s2) (idx := s.insns.size) (upd := setAltSecondary (nextOffset (emitInsn (.jump 0) s2)))
        .shouldBeAlt (x02.emitInsn _) hx.1 ((ext_emitInsn _ s2).get halt) rfl
    have hf4 : FixupsOk s0 s4 (fixups ++ [s2.insns.size]) := by
      intro j hj
      rcases List.mem_append.1 hj with hj | hj
      · obtain ⟨h1, t, ht⟩ := hf j hj
        refine ⟨h1, t, ?_⟩
        have hjs : j < s.insns.size := by
          rcases Nat.lt_or_ge j s.insns.size with h | h
          · exact h
          · rw [Array.getElem?_eq_none h] at ht; cases ht
        rw [hother j (by omega)]
        exact ((ext_emitInsn _ s).trans (x2.trans (ext_emitInsn _ s2))).get ht
      · rw [List.mem_singleton.1 hj]
        refine ⟨x02.1, 0, ?_⟩
        rw [hother _ (by omega)]
        exact emitInsn_last _ _
    obtain ⟨s', fx, e', x', f'⟩ := emitStringSetPriors_ok icase s0 rest _ s4 x04 hf4
    refine ⟨s', fx, ?_, x', f'⟩
    simp only [emitStringSetPriors, emitInsnOffset, e2, nextOffset] at e4 ⊢
    simp only [e4]
    exact e'

theorem emitJumpFixups_ok (s0 : EmitState) (end_ : Nat) :
    ∀ (fixups : List Nat) (s : EmitState), Ext s0 s → FixupsOk s0 s fixups →
      ∃ s', emitAll (fun jumpIdx => fixInsn jumpIdx (setJumpTarget end_) .shouldBeJump) fixups s = .ok s' ∧
        Ext s0 s'
  | [], s, hx, _ => ⟨s, rfl, hx⟩
  | j :: rest, s, hx, hf => by
    obtain ⟨h1, t, ht⟩ := hf j (by simp)
    obtain ⟨s1, e1, x1, _, hj1, hother⟩ :=
      fixInsn_spec (upd := setJumpTarget end_) .shouldBeJump hx h1 ht rfl
    have hf1 : FixupsOk s0 s1 rest := by
      intro k hk
      obtain ⟨k1, u, hu⟩ := hf k (by simp [hk])
      refine ⟨k1, ?_⟩
      by_cases hkj : k = j
      · subst hkj; exact ⟨_, hj1⟩
      · exact ⟨u, by rw [hother k hkj]; exact hu⟩
    obtain ⟨s', e', x'⟩ := emitJumpFixups_ok s0 end_ rest s1 x1 hf1
    exact ⟨s', by simp only [emitAll, e1, e'], x'⟩

/-- `emit_string_set` reaches none of its panic sites. -/
theorem emitStringSet_ok (alts : List (List Nat)) (icase : Bool) (s : EmitState) :
    ∃ s', emitStringSet emitPiece alts icase s = .ok s' ∧ Ext s s' := by
  unfold emitStringSet
  split
  · exact ⟨_, rfl, ext_emitInsn _ _⟩
  · rename_i last _
    obtain ⟨s1, fx, e1, x1, f1⟩ := emitStringSetPriors_ok icase s alts.dropLast [] s (Ext.refl s)
      (by intro j hj; simp at hj)
    obtain ⟨s2, e2, x2⟩ := emitCodePointSequence_ok last icase s1
    have f2 : FixupsOk s s2 fx := fun j hj =>
      let ⟨h1, t, ht⟩ := f1 j hj; ⟨h1, t, x2.get ht⟩
    obtain ⟨s3, e3, x3⟩ := emitJumpFixups_ok s (nextOffset s2) fx s2 (x1.trans x2) f2
    exact ⟨s3, by simp only [e1, e2, e3], x3⟩

/-! ## The fix-ups of `emit_node` -/

theorem foldl_reset_ext : ∀ (l : List Nat) (t : EmitState),
    Ext t (l.foldl (fun s gid => emitInsn (.resetCaptureGroup gid) s) t)
  | [], t => Ext.refl t
  | _ :: l, t => (ext_emitInsn _ t).trans (foldl_reset_ext l _)

theorem emitLoopEnter_spec (q : Quant) (g0 g1 : Nat) (s : EmitState) :
    Ext s (emitLoopEnter q g0 g1 s).1 ∧ (emitLoopEnter q g0 g1 s).2 = s.insns.size ∧
      (emitLoopEnter q g0 g1 s).1.insns[s.insns.size]? =
        some (.enterLoop s.nextLoopId q.min (maxIters q) q.greedy 0) := by
  let s1 : EmitState :=
    { emitInsn (.enterLoop s.nextLoopId q.min (maxIters q) q.greedy 0)
        { s with nextLoopId := (s.nextLoopId + 1) % 65536 } with loops := (s.loops + 1) % 4294967296 }
  have h1 : Ext s s1 := ((ext_emitInsn _ _).congr_left rfl).congr_right rfl
  have e : emitLoopEnter q g0 g1 s =
      ((List.range' g0 (g1 - g0)).foldl (fun s gid => emitInsn (.resetCaptureGroup gid) s) s1,
        s.insns.size) := rfl
  rw [e]
  exact ⟨h1.trans (foldl_reset_ext _ _), rfl,
    (foldl_reset_ext _ s1).get (emitInsn_last _ { s with nextLoopId := (s.nextLoopId + 1) % 65536 })⟩

theorem emitLoopFinish_ok {s0 s : EmitState} {idx : Nat} (hx : Ext s0 s) (hidx : s0.insns.size ≤ idx)
    {a b c d e} (hg : s.insns[idx]? = some (.enterLoop a b c d e)) :
    ∃ s', emitLoopFinish idx s = .ok s' ∧ Ext s0 s' := by
  obtain ⟨s', e', x', _⟩ := fixInsn_spec (upd := setLoopExit (nextOffset (emitInsn (.loopAgain idx) s)))
    .shouldBeEnterLoop (hx.emitInsn (.loopAgain idx)) hidx ((ext_emitInsn _ s).get hg) rfl
  exact ⟨s', e', x'⟩

theorem emitLookBegin_spec (negate backwards : Bool) (sg eg : Nat) (s : EmitState) :
    Ext s (emitLookBegin negate backwards sg eg s).1 ∧
      (emitLookBegin negate backwards sg eg s).2.1 = s.insns.size ∧
      ∃ x k, (emitLookBegin negate backwards sg eg s).1.insns[s.insns.size]? = some x ∧
        setContinuation k x ≠ none := by
  cases backwards
  · exact ⟨(ext_emitInsn _ s).congr_right rfl, rfl, _, 0, emitInsn_last _ s, by simp [setContinuation]⟩
  · exact ⟨(ext_emitInsn _ s).congr_right rfl, rfl, _, 0, emitInsn_last _ s, by simp [setContinuation]⟩

theorem setContinuation_some {k : Nat} {x : Insn} (h : setContinuation k x ≠ none) (k' : Nat) :
    ∃ y, setContinuation k' x = some y := by
  cases x <;> simp_all [setContinuation]

theorem emitLookFinish_ok {s0 s : EmitState} {idx : Nat} (prev : Bool) (hx : Ext s0 s)
    (hidx : s0.insns.size ≤ idx) {x : Insn} {k : Nat} (hg : s.insns[idx]? = some x)
    (hk : setContinuation k x ≠ none) :
    ∃ s', emitLookFinish idx prev s = .ok s' ∧ Ext s0 s' := by
  obtain ⟨y, hy⟩ := setContinuation_some hk (nextOffset (emitInsn .goal s))
  obtain ⟨s', e', x', _⟩ := fixInsn_spec .shouldBeLookaround (hx.emitInsn .goal) hidx
    ((ext_emitInsn _ s).get hg) hy
  refine ⟨{ s' with inLookbehind := prev }, ?_, x'.congr_right rfl⟩
  simp only [emitLookFinish, e']

theorem emitAltFinish_ok {s0 s : EmitState} {a j : Nat} (rb : Nat) (hx : Ext s0 s)
    (ha : s0.insns.size ≤ a) (hj : s0.insns.size ≤ j) (hne : j ≠ a) {t u : Nat}
    (hga : s.insns[a]? = some (.alt t)) (hgj : s.insns[j]? = some (.jump u)) :
    ∃ s', emitAltFinish a j rb s = .ok s' ∧ Ext s0 s' := by
  obtain ⟨s1, e1, x1, _, _, hother⟩ := fixInsn_spec (upd := setAltSecondary rb) .shouldBeAlt hx ha hga rfl
  obtain ⟨s2, e2, x2, _⟩ := fixInsn_spec (upd := setJumpTarget (nextOffset s)) .shouldBeJump x1 hj
    (by rw [hother j hne]; exact hgj) rfl
  exact ⟨s2, by simp only [emitAltFinish, e1, e2], x2⟩

/-! ## `emit_node` -/

theorem emitGroupBegin_ext (id : Nat) (name : Option (List Nat)) (s : EmitState) :
    Ext s (emitGroupBegin id name s) := by
  unfold emitGroupBegin
  exact (ext_emitInsn _ _).congr_left rfl

mutual
/-- `emit_node` reaches none of its panic sites on a tree satisfying `SetsLe4`, and leaves the
instructions emitted before it alone. -/
theorem emitNode_ok : (n : Node) → SetsLe4 n → (s : EmitState) → ∃ s', emitNode n s = .ok s' ∧ Ext s s'
  | .empty, _, s => ⟨s, by simp [emitNode], Ext.refl s⟩
  | .goal, _, s => ⟨_, by rw [emitNode], ext_emitInsn _ s⟩
  | .char _, _, s => ⟨_, by rw [emitNode], ext_emitInsn _ s⟩
  | .matchAny, _, s => ⟨_, by rw [emitNode], ext_emitInsn _ s⟩
  | .matchAnyExceptLT, _, s => ⟨_, by rw [emitNode], ext_emitInsn _ s⟩
  | .anchor _ _, _, s => ⟨_, by rw [emitNode], ext_emitInsn _ s⟩
  | .backRef _ _, _, s => ⟨_, by rw [emitNode], ext_emitInsn _ s⟩
  | .wordBoundary _ u, _, s => by
    cases u
    · exact ⟨_, by rw [emitNode]; rfl, ext_emitInsn _ s⟩
    · exact ⟨_, by rw [emitNode]; rfl, ext_emitInsn _ s⟩
  | .byteSeq bs, _, s => by rw [emitNode]; exact emitByteSequence_ok bs s
  | .byteSet bs, h, s => by rw [emitNode]; exact emitByteSetInsn_ok (by simpa [SetsLe4] using h) s
  | .charSet cs, h, s => by rw [emitNode]; exact emitCharSet_ok (by simpa [SetsLe4] using h) s
  | .bracket bc, _, s => by rw [emitNode]; exact emitBracket_ok bc s
  | .stringSet alts icase, _, s => by rw [emitNode]; exact emitStringSet_ok alts icase s
  | .cat ns, h, s => by
    rw [emitNode]; exact emitNodes_ok ns (by simpa [SetsLe4] using h) s
  | .loop1 l q, h, s => by
    obtain ⟨s', e', x'⟩ := emitNode_ok l (by simpa [SetsLe4] using h) (emitInsn (.loop1 q.min (maxIters q) q.greedy) s)
    exact ⟨s', by rw [emitNode]; exact e', (ext_emitInsn _ s).trans x'⟩
  | .group id name c, h, s => by
    obtain ⟨s', e', x'⟩ := emitNode_ok c (by simpa [SetsLe4] using h) (emitGroupBegin id name s)
    exact ⟨_, by rw [emitNode_group, e']; rfl, ((emitGroupBegin_ext id name s).trans x').emitInsn _⟩
  | .loop l q g0 g1, h, s => by
    obtain ⟨x1, hidx, hg⟩ := emitLoopEnter_spec q g0 g1 s
    obtain ⟨s2, e2, x2⟩ := emitNode_ok l (by simpa [SetsLe4] using h) (emitLoopEnter q g0 g1 s).1
    obtain ⟨s3, e3, x3⟩ := emitLoopFinish_ok (idx := (emitLoopEnter q g0 g1 s).2) (x1.trans x2)
      (by omega) (by rw [hidx]; exact x2.get hg)
    exact ⟨s3, by rw [emitNode_loop, e2]; exact e3, x3⟩
  | .look ng bw sg eg c, h, s => by
    obtain ⟨x1, hidx, x, k, hg, hk⟩ := emitLookBegin_spec ng bw sg eg s
    obtain ⟨s2, e2, x2⟩ := emitNode_ok c (by simpa [SetsLe4] using h) (emitLookBegin ng bw sg eg s).1
    obtain ⟨s3, e3, x3⟩ := emitLookFinish_ok (idx := (emitLookBegin ng bw sg eg s).2.1)
      (emitLookBegin ng bw sg eg s).2.2 (x1.trans x2) (by omega) (by rw [hidx]; exact x2.get hg) hk
    exact ⟨s3, by rw [emitNode_look, e2]; exact e3, x3⟩
  | .alt l r, h, s => by
    have h' : SetsLe4 l ∧ SetsLe4 r := by simpa [SetsLe4] using h
    obtain ⟨s2, e2, x2⟩ := emitNode_ok l h'.1 (emitInsn (.alt 0) s)
    obtain ⟨s4, e4, x4⟩ := emitNode_ok r h'.2 (emitInsn (.jump 0) s2)
    have hsz : s.insns.size < s2.insns.size := by have := x2.1; simp at this; omega
    have x04 : Ext s s4 := (ext_emitInsn _ s).trans (x2.trans ((ext_emitInsn _ s2).trans x4))
    obtain ⟨s5, e5, x5⟩ := emitAltFinish_ok (a := s.insns.size) (j := s2.insns.size)
      (nextOffset (emitInsn (.jump 0) s2)) x04 (Nat.le_refl _) (by omega) (by omega)
      (((ext_emitInsn _ s2).trans x4).get (x2.get (emitInsn_last _ s))) (x4.get (emitInsn_last _ s2))
    refine ⟨s5, ?_, x5⟩
    rw [emitNode_alt]
    simp only [emitInsnOffset, e2, andThen, e4, nextOffset] at e5 ⊢
    exact e5
theorem emitNodes_ok : (ns : List Node) → SetsLe4List ns → (s : EmitState) →
    ∃ s', emitNodes ns s = .ok s' ∧ Ext s s'
  | [], _, s => ⟨s, by simp [emitNodes], Ext.refl s⟩
  | n :: ns, h, s => by
    have h' : SetsLe4 n ∧ SetsLe4List ns := by simpa [SetsLe4List] using h
    obtain ⟨s1, e1, x1⟩ := emitNode_ok n h'.1 s
    obtain ⟨s2, e2, x2⟩ := emitNodes_ok ns h'.2 s1
    exact ⟨s2, by rw [emitNodes, e1]; exact e2, x1.trans x2⟩
end

/-! ## `startpredicate.rs` -/

section StartPred
open Regress.IR
open Regress.IR.AbstractStartPredicate

/-- The doc comment of `AbstractStartPredicate::Sequence`: "Sequence of non-empty bytes". -/
def SeqNE : AbstractStartPredicate → Prop
  | .sequence s => s ≠ []
  | _ => True

/-- `disjunction` indexes `s1[0]` / `s2[0]` only on non-empty sequences, and keeps them non-empty. -/
theorem disjunction_ok {x y : AbstractStartPredicate} (hx : SeqNE x) (hy : SeqNE y) :
    ∃ d, disjunction x y = .ok d ∧ SeqNE d := by
  cases x with
  | arbitrary => exact ⟨_, rfl, trivial⟩
  | sequence s1 =>
    cases y with
    | arbitrary => exact ⟨_, rfl, trivial⟩
    | sequence s2 =>
      cases s1 with
      | nil => exact absurd rfl hx
      | cons a as =>
        cases s2 with
        | nil => exact absurd rfl hy
        | cons b bs =>
          simp only [disjunction]
          split
          · rename_i h
            refine ⟨_, rfl, ?_⟩
            simp only [SeqNE]
            intro hn
            have := congrArg List.length hn
            simp only [List.length_take, List.length_cons, List.length_nil] at this
            omega
          · exact ⟨_, rfl, trivial⟩
    | set s2 =>
      cases s1 with
      | nil => exact absurd rfl hx
      | cons a as => exact ⟨_, rfl, trivial⟩
  | set s1 =>
    cases y with
    | arbitrary => exact ⟨_, rfl, trivial⟩
    | sequence s2 =>
      cases s2 with
      | nil => exact absurd rfl hy
      | cons b bs => exact ⟨_, rfl, trivial⟩
    | set s2 => exact ⟨_, rfl, trivial⟩

mutual
/-- `compute_start_predicate` does not panic on a tree whose byte sequences are non-empty, and every
`Sequence` it returns is non-empty. -/
theorem computeStartPredicate_ok : (n : Node) → NoEmptySeq n →
    ∃ o, computeStartPredicate n = .ok o ∧ ∀ p, o = some p → SeqNE p
  | .byteSeq bs, h => ⟨_, by rw [computeStartPredicate], by
      intro p hp; cases hp; simpa [NoEmptySeq, SeqNE] using h⟩
  | .byteSet _, _ => ⟨_, by rw [computeStartPredicate], by intro p hp; cases hp; trivial⟩
  | .empty, _ => ⟨_, by rw [computeStartPredicate], by intro p hp; cases hp; trivial⟩
  | .goal, _ => ⟨_, by rw [computeStartPredicate], by intro p hp; cases hp; trivial⟩
  | .backRef _ _, _ => ⟨_, by rw [computeStartPredicate], by intro p hp; cases hp; trivial⟩
  | .charSet _, _ => ⟨_, by rw [computeStartPredicate], by intro p hp; cases hp; trivial⟩
  | .stringSet _ _, _ => ⟨_, by rw [computeStartPredicate], by intro p hp; cases hp; trivial⟩
  | .char _, _ => ⟨_, by rw [computeStartPredicate], by intro p hp; cases hp; trivial⟩
  | .matchAny, _ => ⟨_, by rw [computeStartPredicate], by intro p hp; cases hp; trivial⟩
  | .matchAnyExceptLT, _ => ⟨_, by rw [computeStartPredicate], by intro p hp; cases hp; trivial⟩
  | .anchor _ _, _ => ⟨_, by rw [computeStartPredicate], by intro p hp; cases hp; trivial⟩
  | .wordBoundary _ _, _ => ⟨_, by rw [computeStartPredicate], by intro p hp; cases hp; trivial⟩
  | .bracket _, _ => ⟨_, by rw [computeStartPredicate], by intro p hp; cases hp; trivial⟩
  | .look _ _ _ _ _, _ => ⟨_, by rw [computeStartPredicate], by intro p hp; cases hp⟩
  | .cat ns, h => by
    rw [computeStartPredicate]; exact firstStartPredicate_ok ns (by simpa [NoEmptySeq] using h)
  | .group _ _ c, h => by
    rw [computeStartPredicate]; exact computeStartPredicate_ok c (by simpa [NoEmptySeq] using h)
  | .loop l q _ _, h => by
    rw [computeStartPredicate]
    split
    · exact computeStartPredicate_ok l (by simpa [NoEmptySeq] using h)
    · exact ⟨_, rfl, by intro p hp; cases hp; trivial⟩
  | .loop1 l q, h => by
    rw [computeStartPredicate]
    split
    · exact computeStartPredicate_ok l (by simpa [NoEmptySeq] using h)
    · exact ⟨_, rfl, by intro p hp; cases hp; trivial⟩
  | .alt l r, h => by
    have h' : NoEmptySeq l ∧ NoEmptySeq r := by simpa [NoEmptySeq] using h
    obtain ⟨x, ex, hx⟩ := computeStartPredicate_ok l h'.1
    obtain ⟨y, ey, hy⟩ := computeStartPredicate_ok r h'.2
    rw [computeStartPredicate, ex, ey]
    dsimp only
    cases x with
    | none => exact ⟨_, rfl, by intro p hp; cases hp; trivial⟩
    | some x =>
      cases y with
      | none => exact ⟨_, rfl, by intro p hp; cases hp; trivial⟩
      | some y =>
        obtain ⟨d, ed, hd⟩ := disjunction_ok (hx x rfl) (hy y rfl)
        dsimp only
        rw [ed]
        exact ⟨_, rfl, by intro p hp; cases hp; exact hd⟩
theorem firstStartPredicate_ok : (ns : List Node) → NoEmptySeqList ns →
    ∃ o, firstStartPredicate ns = .ok o ∧ ∀ p, o = some p → SeqNE p
  | [], _ => ⟨_, by rw [firstStartPredicate], by intro p hp; cases hp⟩
  | n :: ns, h => by
    have h' : NoEmptySeq n ∧ NoEmptySeqList ns := by simpa [NoEmptySeqList] using h
    obtain ⟨x, ex, hx⟩ := computeStartPredicate_ok n h'.1
    rw [firstStartPredicate, ex]
    cases x with
    | none => exact firstStartPredicate_ok ns h'.2
    | some x => exact ⟨_, rfl, hx⟩
end

end StartPred

end Regress.VM

/-! ## The totality statements -/

namespace Regress.C07
open Regress.VM Regress.IR

/-- `startpredicate::predicate_for_re` does not panic (the `s[0]` sites of `disjunction` are the
only ones), provided no `ByteSequence` node is empty. -/
theorem startpred_total (r : Regex) (h : NoEmptySeq r.node) : ∃ p, predicateForRe r = .ok p := by
  obtain ⟨o, e, _⟩ := computeStartPredicate_ok r.node h
  unfold predicateForRe
  split
  · exact ⟨_, rfl⟩
  · rw [e]; exact ⟨_, rfl⟩

/-- The hypothesis of `startpred_total` is needed: with an empty `ByteSequence`, `s1[0]` panics. -/
theorem startpred_needs_nonempty :
    predicateForRe ⟨.alt (.byteSeq []) (.byteSeq []), {}⟩ = .error .emptySequenceIndex ∧
    predicateForRe ⟨.alt (.byteSet [0x61]) (.byteSeq []), {}⟩ = .error .emptySequenceIndex ∧
    predicateForRe ⟨.alt (.byteSeq []) (.byteSet [0x61]), {}⟩ = .error .emptySequenceIndex :=
  ⟨rfl, rfl, rfl⟩

/-- `Emitter::emit_node` reaches none of its panic sites. -/
theorem emitNode_total (n : Node) (h : SetsLe4 n) (s : EmitState) : ∃ s', emitNode n s = .ok s' :=
  let ⟨s', e, _⟩ := emitNode_ok n h s; ⟨s', e⟩

/-- `emit::emit` reaches no panic site: not in `lower_code_point_sequence`, `emit_byte_set_insn`,
`emit_byte_sequence_insn`, the `CharSet` arm, the fix-ups of `Loop` / `LookaroundAssertion` / `Alt`
/ `emit_string_set`, `get_insn`, nor in `predicate_for_re`. -/
theorem emit_total (r : Regex) (h : EmitIn r.node) : ∃ prog, emit r = .ok prog := by
  obtain ⟨p, ep⟩ := startpred_total r h.2
  obtain ⟨s, es⟩ := emitNode_total r.node h.1 { unicode := r.flags.unicode }
  unfold emit emitWith
  rw [ep]; dsimp only; rw [es]
  exact ⟨_, rfl⟩

/-- The literal work-stack loop of `emit_node` terminates within `cost r.node + 3` pops (plus the
nested `emit_node` calls of `emit_code_point_sequence`, which need 2) and gives the same program. -/
theorem emitViaStack_total (r : Regex) (h : EmitIn r.node) (fuel : Nat) (hf : cost r.node + 3 ≤ fuel) :
    ∃ prog, emitViaStack fuel r = .ok prog ∧ emit r = .ok prog := by
  obtain ⟨prog, e⟩ := emit_total r h
  exact ⟨prog, by rw [emitViaStack_eq r fuel hf, e], e⟩

/-! Non-vacuity. -/

/-- What the optimizer makes of something like `(?:ab|[xy])+(?<=[Kk\u212A])(\p{…})`. -/
def sampleNode : Node :=
  .cat [.loop (.alt (.byteSeq [0x61, 0x62]) (.byteSet [0x78, 0x79])) ⟨1, none, true⟩ 0 0,
        .look false true 0 0 (.charSet [0x212A, 0x4B, 0x6B]),
        .group 0 none (.stringSet [[0x61, 0x62], [0x63]] true), .goal]

example : EmitIn sampleNode := by decide
example : EmitIn sampleNode := EmitIn.of_check (by decide)
example : ¬ SetsLe4 (.cat [.charSet [1, 2, 3, 4, 5]]) := by decide
example : ¬ NoEmptySeq (.alt (.byteSeq []) .empty) := by decide
example : cost sampleNode + 3 ≤ 20 := by decide

/-- `a|[bc]{0,3}` after optimization. -/
def smallRegex : Regex :=
  ⟨.cat [.alt (.byteSeq [0x61]) (.loop (.byteSet [0x62, 0x63]) ⟨0, some 3, true⟩ 0 0), .goal], {}⟩

example : EmitIn smallRegex.node := by decide

set_option maxRecDepth 4000 in
/-- The fix-ups really happen: `Alt`, `Jump` and `EnterLoop` get their targets. -/
example : (emit smallRegex).toOption.map (fun p => p.insns.toList) =
    some [.alt 3, .byteSeq [0x61], .jump 6, .enterLoop 0 0 (some 3) true 6, .byteSet [0x62, 0x63],
      .loopAgain 3, .goal] := by decide

end Regress.C07
