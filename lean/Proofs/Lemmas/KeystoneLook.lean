import Proofs.Lemmas.KeystoneFrag
/-!
# Keystone, part 5b: look-around assertions (a nested run)
-/
namespace Regress.Keystone

open Regress.VM Regress.VM.Pk Regress.IR
open Regress.VM.Bt (LoopData GroupData)

section
variable {prog : Prog} {inp : Input} {limit : Nat} {cs : List Nat}

/-- A run that starts with the single state `s1` at the code of `c`, which is followed by `Goal`:
it fails iff `c` has no success; otherwise it completes in a state representing the first success. -/
theorem nested_run {c : Node} {dir : Bool} {b j l : Nat}
    (hc : Frag prog inp limit cs c dir b j l) (hgoal : At prog.insns j .goal)
    {s1 : State} {σ : St} (hrel : Rel σ s1) (hgood : Good cs σ) (hip : s1.ip = b)
    {sf steps peak : Nat} (hf : Fine (runStates prog inp limit sf #[s1] dir steps peak)) :
    match sem inp c dir σ with
    | [] => ∃ steps' peak', runStates prog inp limit sf #[s1] dir steps peak = .failed steps' peak'
    | r :: _ => ∃ t steps' peak', runStates prog inp limit sf #[s1] dir steps peak =
        .matched t.pos t steps' peak' ∧ Rel r t ∧ LoopsFrame l (numLoops c) s1 t := by
  have e : (#[s1] : Array State) = (#[] : Array State).push s1 := rfl
  rw [e] at hf ⊢
  have := hc s1 σ hrel hgood hip #[] sf steps peak hf
  cases hsem : sem inp c dir σ with
  | nil =>
    rw [hsem] at this
    obtain ⟨sf', steps', peak', ho⟩ := this
    rw [ho] at hf ⊢
    exact ⟨steps', peak', fine_empty prog inp limit hf⟩
  | cons r rs =>
    rw [hsem] at this
    obtain ⟨pend, sf', steps', peak', t, ⟨hrt, hipt, hfr⟩, ho, _⟩ := this
    rw [ho] at hf ⊢
    obtain ⟨sf'', rfl, hstep⟩ := fine_step prog inp limit hf
    rw [hstep]
    unfold tryMatchState
    unfold At at hgoal
    rw [hipt, hgoal]
    exact ⟨t, _, _, rfl, hrt, hfr⟩

/-- `LookaroundAssertion`. -/
theorem frag_look {neg bw : Bool} {sg eg : Nat} {c : Node} {fwd : Bool} {b j l : Nat}
    (h1 : At prog.insns b (if bw then .lookbehind neg sg eg (j + 1) else .lookahead neg sg eg (j + 1)))
    (hgoal : At prog.insns j .goal)
    (hc : Frag prog inp limit cs c (!bw) (b + 1) j l) :
    Frag prog inp limit cs (.look neg bw sg eg c) fwd b (j + 1) l := by
  intro s σ hrel hgood hip rest sf steps peak hf
  simp only [sem]
  obtain ⟨sf1, rfl, hstep⟩ := fine_step prog inp limit hf
  rw [hstep] at hf ⊢
  have htms : ∀ look d steps peak, tryMatchState prog inp look (d + 1) s fwd steps peak =
      lookArm look (!bw) neg (j + 1) s steps peak := by
    intro look d steps peak
    unfold tryMatchState
    rw [show prog.insns[s.ip]? = some (if bw then .lookbehind neg sg eg (j + 1) else .lookahead neg sg eg (j + 1))
      by rw [hip]; exact h1]
    cases bw <;> rfl
  rw [htms] at hf ⊢
  unfold lookArm at hf ⊢
  unfold lookOf at hf ⊢
  dsimp only at hf ⊢
  have hrel1 : Rel σ { s with ip := s.ip + 1 } := ⟨hrel.pos, hrel.caps, hrel.l1⟩
  generalize hpk : (if peak < rest.size + 1 then rest.size + 1 else peak) = pk at hf ⊢
  cases hn : runStates prog inp limit sf1 #[{ s with ip := s.ip + 1 }] (!bw) (steps + 1) pk with
  | error e => rw [hn] at hf; exact hf.elim
  | outOfFuel => rw [hn] at hf; exact hf.elim
  | matched p' s' steps' peak' =>
    have hfn : Fine (runStates prog inp limit sf1 #[{ s with ip := s.ip + 1 }] (!bw) (steps + 1) pk) := by
      rw [hn]; trivial
    have hnest := nested_run hc hgoal hrel1 hgood (by simp [hip]) hfn
    cases hsem : sem inp c (!bw) σ with
    | nil =>
      rw [hsem] at hnest
      obtain ⟨_, _, hh⟩ := hnest
      rw [hn] at hh; cases hh
    | cons r rs =>
      rw [hsem] at hnest
      obtain ⟨t, steps'', peak'', hh, hrt, hfr⟩ := hnest
      rw [hn] at hh
      have hts : t = s' := (Outcome.matched.inj hh).2.1.symm
      subst hts
      cases neg
      · -- positive look-around, body matched
        simp only [Bool.true_eq_false, bne_iff_ne, ne_eq, not_false_eq_true, if_true, Bool.false_eq_true,
          if_false, dispatch]
        refine Tries.single (t := { t with ip := j + 1, pos := s.pos }) ⟨⟨?_, hrt.caps, hrt.l1⟩, rfl, ?_⟩ rfl
        · exact hrel.pos
        · exact fun k hk => hfr k (fun ⟨z, hz⟩ => hk ⟨z, hz.1, by simpa [numLoops] using hz.2.1, hz.2.2⟩)
      · -- negative look-around, body matched
        simp only [bne_self_eq_false, Bool.false_eq_true, if_false, if_true, dispatch]
        exact Tries.nil_of_eq rfl
  | failed steps' peak' =>
    have hfn : Fine (runStates prog inp limit sf1 #[{ s with ip := s.ip + 1 }] (!bw) (steps + 1) pk) := by
      rw [hn]; trivial
    have hnest := nested_run hc hgoal hrel1 hgood (by simp [hip]) hfn
    cases hsem : sem inp c (!bw) σ with
    | cons r rs =>
      rw [hsem] at hnest
      obtain ⟨t, _, _, hh, _⟩ := hnest
      rw [hn] at hh; cases hh
    | nil =>
      cases neg
      · simp only [bne_self_eq_false, Bool.false_eq_true, if_false, dispatch]
        exact Tries.nil_of_eq rfl
      · simp only [Bool.false_eq_true, bne_iff_ne, ne_eq, not_false_eq_true, if_true, dispatch]
        refine Tries.single (t := { s with ip := j + 1, pos := s.pos }) ⟨⟨hrel.pos, hrel.caps, hrel.l1⟩, rfl, ?_⟩ rfl
        exact LoopsFrame.of_eq rfl

end

end Regress.Keystone
