import Proofs.Lemmas.KeystoneFrag
import Proofs.Lemmas.KeystoneLook
import Proofs.Lemmas.KeystoneLoop
import Proofs.Lemmas.KeystoneSS
/-!
# Keystone, part 7: the combinators and the induction over the node
-/
namespace Regress.Keystone

open Regress.VM Regress.VM.Pk Regress.IR Regress.Gen
open Regress.VM.Bt (LoopData GroupData)

section
variable {prog : Prog} {inp : Input} {limit : Nat} {cs : List Nat}

/-! ## `Empty` -/

theorem frag_empty (fwd : Bool) (b l : Nat) : Frag prog inp limit cs .empty fwd b b l := by
  intro s σ hrel _ hip rest sf steps peak _
  simp only [sem]
  exact Tries.single ⟨hrel, hip, LoopsFrame.refl _ _ _⟩ rfl

theorem fragList_nil (fwd : Bool) (b l : Nat) : FragList prog inp limit cs [] fwd b b l := by
  intro s σ hrel _ hip rest sf steps peak _
  simp only [semCat]
  exact Tries.single ⟨hrel, hip, LoopsFrame.refl _ _ _⟩ rfl

/-! ## `Cat` -/

theorem fragList_cons (ht : Utf8Text inp cs) {n : Node} {ns : List Node} {fwd : Bool} {b m e l : Nat}
    (hw : WF n) (h1 : Frag prog inp limit cs n fwd b m l)
    (h2 : FragList prog inp limit cs ns fwd m e (l + numLoops n)) :
    FragList prog inp limit cs (n :: ns) fwd b e l := by
  intro s σ hrel hgood hip rest sf steps peak hf
  simp only [semCat]
  have t1 := Tries.and_mem (G := Good cs) (fun r hr => sem_good ht n fwd σ r hw hgood hr)
    (h1 s σ hrel hgood hip rest sf steps peak hf)
  refine Tries.bind (fun r t hp rest' sf' steps' peak' hf' => ?_) hf t1
  obtain ⟨⟨hr, hip', hfr⟩, hg⟩ := hp
  refine Tries.mono (fun r' t' hp' => ?_) (h2 t r hr hg hip' rest' sf' steps' peak' hf')
  exact ⟨hp'.1, hp'.2.1, by simpa [numLoopsList] using hfr.trans hp'.2.2⟩

/-! ## `Alt` -/

theorem frag_alt {x y : Node} {fwd : Bool} {b j e l : Nat}
    (h1 : At prog.insns b (.alt (j + 1))) (h2 : At prog.insns j (.jump e))
    (hx : Frag prog inp limit cs x fwd (b + 1) j l)
    (hy : Frag prog inp limit cs y fwd (j + 1) e (l + numLoops x)) :
    Frag prog inp limit cs (.alt x y) fwd b e l := by
  intro s σ hrel hgood hip rest sf steps peak hf
  simp only [sem]
  obtain ⟨sf1, steps1, peak1, he⟩ := run_alt (by rw [hip]; exact h1) hf
  rw [he] at hf ⊢
  -- the left arm, on top of the pending right arm
  have tl := hx { s with ip := s.ip + 1 } σ ⟨hrel.pos, hrel.caps, hrel.l1⟩ hgood (by simp [hip])
    (rest.push { s with ip := j + 1 }) sf1 steps1 peak1 hf
  -- through the `Jump`
  have tl' : Tries prog inp limit fwd (Out e l (numLoops (.alt x y)) s) (rest.push { s with ip := j + 1 })
      (sem inp x fwd σ) (runStates prog inp limit sf1
        ((rest.push { s with ip := j + 1 }).push { s with ip := s.ip + 1 }) fwd steps1 peak1) := by
    have := Tries.map (Q := Out e l (numLoops (.alt x y)) s) (g := id)
      (fun r t hp rest' sf' steps' peak' hf' => by
        obtain ⟨hr, hip', hfr⟩ := hp
        obtain ⟨sf2, steps2, peak2, he2⟩ := run_jump (by rw [hip']; exact h2) hf'
        refine ⟨{ t with ip := e }, sf2, steps2, peak2, ⟨⟨hr.pos, hr.caps, hr.l1⟩, rfl, ?_⟩, he2⟩
        exact fun k hk => hfr k (fun ⟨z, hz⟩ => hk ⟨z, hz.1, by simp [numLoops]; omega, hz.2.2⟩)) hf tl
    simpa using this
  have e : rest.push { s with ip := j + 1 } = rest ++ #[{ s with ip := j + 1 }] := Array.push_eq_append
  rw [e] at tl' hf ⊢
  refine Tries.append (fun sf' steps' peak' hf' => ?_) hf tl'
  rw [← e] at hf' ⊢
  refine Tries.mono (fun r t hp => ?_)
    (hy { s with ip := j + 1 } σ ⟨hrel.pos, hrel.caps, hrel.l1⟩ hgood rfl rest sf' steps' peak' hf')
  exact ⟨hp.1, hp.2.1, fun k hk => hp.2.2 k (fun ⟨z, hz⟩ => hk ⟨z, by omega, by simp [numLoops]; omega, hz.2.2⟩)⟩

/-! ## `CaptureGroup` -/

theorem frag_group {id : Nat} {name : Option (List Nat)} {c : Node} {fwd : Bool} {b j l : Nat}
    (h1 : At prog.insns b (.beginCaptureGroup id)) (h2 : At prog.insns j (.endCaptureGroup id))
    (hc : Frag prog inp limit cs c fwd (b + 1) j l) :
    Frag prog inp limit cs (.group id name c) fwd b (j + 1) l := by
  intro s σ hrel hgood hip rest sf steps peak hf
  simp only [sem]
  obtain ⟨cg, sf1, steps1, peak1, hg, he⟩ := run_groupArm (s := s)
    (fun look d steps peak => by
      unfold tryMatchState
      rw [show prog.insns[s.ip]? = some (.beginCaptureGroup id) by rw [hip]; exact h1]) hf
  rw [he] at hf ⊢
  have hrel1 : Rel (if fwd then σ.setStart id σ.pos else σ.setEnd id σ.pos)
      { s with groups := (s.groups.setIfInBounds id (if fwd then { cg with start := some s.pos } else { cg with end_ := some s.pos })), ip := s.ip + 1 } := by
    cases fwd
    · exact rel_setEnd hrel hg _
    · exact rel_setStart hrel hg _
  have hgood1 : Good cs (if fwd then σ.setStart id σ.pos else σ.setEnd id σ.pos) := by
    cases fwd
    · exact (utf8Inv cs).setEnd σ id hgood
    · exact (utf8Inv cs).setStart σ id hgood
  have t1 := hc _ _ hrel1 hgood1 (by simp [hip]) rest sf1 steps1 peak1 hf
  refine Tries.map (fun r t hp rest' sf' steps' peak' hf' => ?_) hf t1
  obtain ⟨hr, hip', hfr⟩ := hp
  obtain ⟨cg', sf2, steps2, peak2, hg', he'⟩ := run_groupArm (s := t)
    (fun look d steps peak => by
      unfold tryMatchState
      rw [show prog.insns[t.ip]? = some (.endCaptureGroup id) by rw [hip']; exact h2]) hf'
  refine ⟨_, sf2, steps2, peak2, ⟨?_, ?_, ?_⟩, he'⟩
  · cases fwd
    · exact rel_setStart hr hg' _
    · exact rel_setEnd hr hg' _
  · simp [hip']
  · exact fun k hk => hfr k (fun ⟨z, hz⟩ => hk ⟨z, hz.1, by simpa [numLoops] using hz.2.1, hz.2.2⟩)

/-! ## `ByteSequence` -/

theorem frag_byteSeq {bs : List Nat} {fwd : Bool} {b e l : Nat}
    (hc : InsnsAt prog.insns b ((bytesChunks (!fwd) bs).map Insn.byteSeq))
    (he : e = b + (bytesChunks (!fwd) bs).length) :
    Frag prog inp limit cs (.byteSeq bs) fwd b e l := by
  intro s σ hrel hgood hip rest sf steps peak hf
  simp only [sem]
  have hsimple : ∀ i ∈ (bytesChunks (!fwd) bs).map Insn.byteSeq, IsSimple prog inp fwd i := by
    intro i hi
    obtain ⟨c, _, rfl⟩ := List.mem_map.1 hi
    intro caps pos
    exact ⟨_, rfl⟩
  have hr := run_seq _ s b hsimple hc hip rest sf steps peak hf
  have hval : seqOpt prog inp fwd (capsOfState s) ((bytesChunks (!fwd) bs).map Insn.byteSeq) s.pos =
      inp.matchBytes fwd σ.pos bs := by
    rw [hrel.pos]
    cases fwd
    · simp only [bytesChunks, Bool.not_false, if_true]
      rw [seqOpt_bytes_bwd, chunks_flatten]
    · simp only [bytesChunks, Bool.not_true, Bool.false_eq_true, if_false]
      rw [seqOpt_bytes_fwd, chunks_flatten]
  rw [hval] at hr
  cases hm : inp.matchBytes fwd σ.pos bs with
  | none =>
    rw [hm] at hr
    obtain ⟨sf', steps', peak', he'⟩ := hr
    exact Tries.nil_of_eq he'
  | some p =>
    rw [hm] at hr
    obtain ⟨sf', steps', peak', he'⟩ := hr
    refine Tries.single
      (t := { s with pos := p, ip := b + (List.map Insn.byteSeq (bytesChunks (!fwd) bs)).length })
      ⟨⟨rfl, hrel.caps, hrel.l1⟩, ?_, LoopsFrame.of_eq rfl⟩ he'
    simp [he]

/-! ## The induction over the node -/

/-- A `Loop1CharBody` body that is emitted as exactly one simple instruction. -/
def oneInsnBody : Node → Bool
  | .char _ => true
  | .charSet _ => true
  | .byteSet _ => true
  | .bracket _ => true
  | .matchAny => true
  | .matchAnyExceptLT => true
  | .byteSeq bs => decide (1 ≤ bs.length) && decide (bs.length ≤ 16)
  | _ => false

/-- `max` is not the literal `usize::MAX` (which the engine reads as "unbounded"). -/
def quantBounded (q : Quant) : Bool :=
  match q.max with
  | none => true
  | some m => decide (m < USIZE_MAX)

mutual
/-- The side conditions of the keystone lemma on the IR (all guaranteed by the parser and the
optimizer): no `Goal` inside, back-references name a group `≥ 1`, a loop maximum is not the
literal `usize::MAX`, the body of a `Loop1CharBody` is a single-instruction matcher. -/
def kok : Node → Bool
  | .goal => false
  | .cat ns => kokList ns
  | .alt l r => kok l && kok r
  | .group _ _ c => kok c
  | .look _ _ _ _ c => kok c
  | .loop b q _ _ => kok b && quantBounded q
  | .loop1 b q => oneInsnBody b && quantBounded q
  | .backRef g _ => g != 0
  | _ => true
def kokList : List Node → Bool
  | [] => true
  | n :: ns => kok n && kokList ns
end

theorem sem_guard_anchor (inp : Input) (sol ml fwd : Bool) (σ : St) :
    sem inp (.anchor sol ml) fwd σ =
      optSt σ (stepTest (if sol then startOfLine inp ml σ.pos else endOfLine inp ml σ.pos) σ.pos) := by
  simp only [sem]; exact guardSt_eq _ _

theorem quantBounded_iff (q : Quant) : quantBounded q = true → quantBoundedQ q := by
  unfold quantBounded quantBoundedQ
  cases q.max with
  | none => intro _; trivial
  | some m => intro h; simpa using h

theorem chunks_short {bs : List Nat} (h1 : 1 ≤ bs.length) (h2 : bs.length ≤ 16) :
    chunks MAX_BYTE_SEQ_LENGTH bs = [bs] := by
  unfold chunks
  obtain ⟨n, hn⟩ : ∃ n, bs.length = n + 1 := ⟨bs.length - 1, by omega⟩
  rw [hn]
  have hne : bs.isEmpty = false := by
    cases bs with
    | nil => simp at h1
    | cons a t => rfl
  have hd : bs.drop MAX_BYTE_SEQ_LENGTH = [] := List.drop_eq_nil_of_le (by simpa [MAX_BYTE_SEQ_LENGTH] using h2)
  have ht : bs.take MAX_BYTE_SEQ_LENGTH = bs := List.take_of_length_le (by simpa [MAX_BYTE_SEQ_LENGTH] using h2)
  simp only [chunksFuel, hne, Bool.false_eq_true, if_false, hd, ht]
  cases n <;> simp [chunksFuel]

theorem matchBytes_ne {inp : Input} {fwd : Bool} {pos p : Nat} {lit : List Nat} (hl : 1 ≤ lit.length)
    (h : inp.matchBytes fwd pos lit = some p) : p ≠ pos := by
  unfold Input.matchBytes Utf8.matchBytes at h
  cases fwd
  · simp only [Bool.false_eq_true, if_false, Utf8.tryMoveLeft] at h
    split at h
    · cases h
    · rename_i s hs
      split at hs
      · cases hs
      · cases hs
        split at h
        · cases h; omega
        · cases h
  · simp only [if_true, Utf8.tryMoveRight] at h
    split at h
    · cases h
    · rename_i e hs
      split at hs
      · cases hs
      · cases hs
        split at h
        · cases h; omega
        · cases h

/-- A single-instruction matcher: its instruction, and what it computes. -/
theorem leaf_spec (ht : Utf8Text inp cs) (uni : Bool) :
    ∀ (n : Node) (fwd : Bool) (b e l : Nat), oneInsnBody n = true →
      Code prog.insns prog.brackets uni n (!fwd) b e l →
      ∃ i, At prog.insns b i ∧ e = b + 1 ∧
        (∀ σ, Good cs σ → ∃ o, insnOpt prog inp fwd σ.caps σ.pos i = some o ∧ sem inp n fwd σ = optSt σ o) ∧
        (∀ σ r, r ∈ sem inp n fwd σ → Adv inp fwd σ.pos r.pos) := by
  intro n fwd b e l h1 hc
  cases n with
  | char c =>
    simp only [Code] at hc; obtain ⟨hat, rfl⟩ := hc
    exact ⟨_, hat, rfl, fun σ _ => ⟨_, rfl, by simp only [sem]⟩, fun σ r hr => by
      simp only [sem] at hr; obtain ⟨p, hp, rfl⟩ := mem_optSt hr; exact charStep_adv hp⟩
  | matchAny =>
    simp only [Code] at hc; obtain ⟨hat, rfl⟩ := hc
    exact ⟨_, hat, rfl, fun σ _ => ⟨_, rfl, by simp only [sem]⟩, fun σ r hr => by
      simp only [sem] at hr; obtain ⟨p, hp, rfl⟩ := mem_optSt hr; exact charStep_adv hp⟩
  | matchAnyExceptLT =>
    simp only [Code] at hc; obtain ⟨hat, rfl⟩ := hc
    exact ⟨_, hat, rfl, fun σ _ => ⟨_, rfl, by simp only [sem]⟩, fun σ r hr => by
      simp only [sem] at hr; obtain ⟨p, hp, rfl⟩ := mem_optSt hr; exact charStep_adv hp⟩
  | charSet chars =>
    simp only [Code] at hc; obtain ⟨i, hi, hat, rfl⟩ := hc
    exact ⟨_, hat, rfl, fun σ _ => ⟨_, leaf_charSet prog inp fwd _ _ hi, by simp only [sem]⟩, fun σ r hr => by
      simp only [sem] at hr; obtain ⟨p, hp, rfl⟩ := mem_optSt hr; exact charStep_adv hp⟩
  | byteSet bs =>
    simp only [Code] at hc; obtain ⟨i, hi, hat, rfl⟩ := hc
    exact ⟨_, hat, rfl, fun σ _ => ⟨_, leaf_byteSet prog inp fwd _ _ hi, by simp only [sem]⟩, fun σ r hr => by
      simp only [sem] at hr; obtain ⟨p, hp, rfl⟩ := mem_optSt hr; exact byteStep_adv hp⟩
  | bracket bc =>
    simp only [Code] at hc; obtain ⟨h2, rfl⟩ := hc
    have hadv : ∀ σ r, r ∈ sem inp (.bracket bc) fwd σ → Adv inp fwd σ.pos r.pos := fun σ r hr => by
      simp only [sem] at hr; obtain ⟨p, hp, rfl⟩ := mem_optSt hr; exact charStep_adv hp
    rcases h2 with ⟨bm, hbm, hat⟩ | ⟨_, idx, hat, hB⟩
    · exact ⟨_, hat, rfl, fun σ hg => ⟨_, leaf_asciiBracket prog ht fwd _ hg.1 hbm, by simp only [sem]⟩, hadv⟩
    · exact ⟨_, hat, rfl, fun σ _ =>
        ⟨charStep inp fwd σ.pos (bracketTest { invert := bc.invert, ivs := bc.ivs }),
          by simp only [insnOpt, hB], by simp only [sem]⟩, hadv⟩
  | byteSeq bs =>
    simp only [oneInsnBody, Bool.and_eq_true, decide_eq_true_eq] at h1
    simp only [Code] at hc
    have hch : bytesChunks (!fwd) bs = [bs] := by
      unfold bytesChunks; rw [chunks_short h1.1 h1.2]; cases fwd <;> rfl
    rw [hch] at hc
    obtain ⟨hat, rfl⟩ := hc
    refine ⟨.byteSeq bs, by simpa using hat 0 (by simp), rfl, fun σ _ => ⟨_, rfl, by simp only [sem]⟩, ?_⟩
    intro σ r hr
    simp only [sem] at hr; obtain ⟨p, hp, rfl⟩ := mem_optSt hr
    exact (matchBytes_adv hp).adv_of_ne (matchBytes_ne h1.1 hp)
  | _ => simp [oneInsnBody] at h1

mutual
theorem frag_node (ht : Utf8Text inp cs) (uni : Bool) (huni : uni = inp.unicode) :
    ∀ (n : Node) (fwd : Bool) (b e l : Nat), kok n = true → WF n → numLoops n ≤ 65536 →
      Code prog.insns prog.brackets uni n (!fwd) b e l → Frag prog inp limit cs n fwd b e l
  | .empty, fwd, b, e, l, _, _, _, hc => by
    simp only [Code] at hc; subst hc; exact frag_empty fwd _ l
  | .goal, _, _, _, _, hk, _, _, _ => by simp [kok] at hk
  | .char c, fwd, b, e, l, _, _, _, hc => by
    simp only [Code] at hc; obtain ⟨hat, rfl⟩ := hc
    exact frag_simple hat (fun σ _ => ⟨_, rfl, by simp only [sem]⟩)
  | .matchAny, fwd, b, e, l, _, _, _, hc => by
    simp only [Code] at hc; obtain ⟨hat, rfl⟩ := hc
    exact frag_simple hat (fun σ _ => ⟨_, rfl, by simp only [sem]⟩)
  | .matchAnyExceptLT, fwd, b, e, l, _, _, _, hc => by
    simp only [Code] at hc; obtain ⟨hat, rfl⟩ := hc
    exact frag_simple hat (fun σ _ => ⟨_, rfl, by simp only [sem]⟩)
  | .charSet chars, fwd, b, e, l, _, _, _, hc => by
    simp only [Code] at hc; obtain ⟨i, hi, hat, rfl⟩ := hc
    exact frag_simple hat (fun σ _ => ⟨_, leaf_charSet prog inp fwd _ _ hi, by simp only [sem]⟩)
  | .byteSet bs, fwd, b, e, l, _, _, _, hc => by
    simp only [Code] at hc; obtain ⟨i, hi, hat, rfl⟩ := hc
    exact frag_simple hat (fun σ _ => ⟨_, leaf_byteSet prog inp fwd _ _ hi, by simp only [sem]⟩)
  | .bracket bc, fwd, b, e, l, _, _, _, hc => by
    simp only [Code] at hc; obtain ⟨h1, rfl⟩ := hc
    rcases h1 with ⟨bm, hbm, hat⟩ | ⟨_, idx, hat, hB⟩
    · exact frag_simple hat (fun σ hg => ⟨_, leaf_asciiBracket prog ht fwd _ hg.1 hbm, by simp only [sem]⟩)
    · exact frag_simple hat (fun σ _ =>
        ⟨charStep inp fwd σ.pos (bracketTest { invert := bc.invert, ivs := bc.ivs }),
          by simp only [insnOpt, hB], by simp only [sem]⟩)
  | .anchor sol ml, fwd, b, e, l, _, _, _, hc => by
    simp only [Code] at hc; obtain ⟨hat, rfl⟩ := hc
    cases sol
    · exact frag_simple hat (fun σ _ => ⟨_, rfl, by rw [sem_guard_anchor]; rfl⟩)
    · exact frag_simple hat (fun σ _ => ⟨_, rfl, by rw [sem_guard_anchor]; rfl⟩)
  | .wordBoundary inv ui, fwd, b, e, l, _, _, _, hc => by
    simp only [Code] at hc; obtain ⟨hat, rfl⟩ := hc
    cases ui
    · exact frag_simple hat (fun σ _ => ⟨_, rfl, by simp only [sem]; exact guardSt_eq _ _⟩)
    · exact frag_simple hat (fun σ _ => ⟨_, rfl, by simp only [sem]; exact guardSt_eq _ _⟩)
  | .backRef g icase, fwd, b, e, l, hk, _, _, hc => by
    simp only [Code] at hc; obtain ⟨hat, rfl⟩ := hc
    have hg : g ≠ 0 := by simpa [kok] using hk
    have hi : backRefInsn g icase = .backRef (g - 1) icase := by simp [backRefInsn, hg]
    rw [hi] at hat
    refine frag_simple hat (fun σ _ => ?_)
    simp only [insnOpt, sem, show (g == 0) = false by simpa using hg, Bool.false_eq_true, if_false]
    cases σ.caps[g - 1]? with
    | none => exact ⟨none, rfl, rfl⟩
    | some c =>
      obtain ⟨a, b'⟩ := c
      cases a <;> cases b' <;> exact ⟨_, rfl, rfl⟩
  | .byteSeq bs, fwd, b, e, l, _, _, _, hc => by
    simp only [Code] at hc
    exact frag_byteSeq hc.1 hc.2
  | .cat ns, fwd, b, e, l, hk, hw, hn, hc => by
    simp only [Code] at hc; simp only [kok] at hk; simp only [WF] at hw; simp only [numLoops] at hn
    have := frag_list ht uni huni ns fwd b e l hk hw hn hc
    intro s σ hrel hgood hip rest sf steps peak hf
    simp only [sem]
    exact Tries.mono (fun r t hp => by simpa [numLoops] using hp) (this s σ hrel hgood hip rest sf steps peak hf)
  | .alt x y, fwd, b, e, l, hk, hw, hn, hc => by
    simp only [Code] at hc; simp only [kok, Bool.and_eq_true] at hk; simp only [WF] at hw
    simp only [numLoops] at hn
    obtain ⟨j, h1, hx, h2, hy⟩ := hc
    exact frag_alt h1 h2 (frag_node ht uni huni x fwd _ _ _ hk.1 hw.1 (by omega) hx)
      (frag_node ht uni huni y fwd _ _ _ hk.2 hw.2 (by omega) hy)
  | .group id name c, fwd, b, e, l, hk, hw, hn, hc => by
    simp only [Code] at hc; simp only [kok] at hk; simp only [WF] at hw; simp only [numLoops] at hn
    obtain ⟨j, h1, hcc, h2, rfl⟩ := hc
    exact frag_group h1 h2 (frag_node ht uni huni c fwd _ _ _ hk hw hn hcc)
  | .look neg bw sg eg c, fwd, b, e, l, hk, hw, hn, hc => by
    simp only [Code] at hc; simp only [kok] at hk; simp only [WF] at hw; simp only [numLoops] at hn
    obtain ⟨j, h1, hcc, h2, rfl⟩ := hc
    refine frag_look h1 h2 (frag_node ht uni huni c (!bw) _ _ _ hk hw hn ?_)
    rw [Bool.not_not]; exact hcc
  | .loop body q g0 g1, fwd, b, e, l, hk, hw, hn, hc => by
    simp only [Code] at hc; simp only [kok, Bool.and_eq_true] at hk; simp only [WF] at hw
    simp only [numLoops] at hn
    obtain ⟨j, h1, h2, hb, h3, rfl⟩ := hc
    exact frag_loop ht hw.1 (quantBounded_iff q hk.2) (by omega) h2
      (frag_node ht uni huni body fwd _ _ _ hk.1 hw.1 (by omega) hb) h3 h1
  | .loop1 body q, fwd, b, e, l, hk, hw, _, hc => by
    simp only [Code] at hc; simp only [kok, Bool.and_eq_true] at hk; simp only [WF] at hw
    obtain ⟨h1, hb⟩ := hc
    obtain ⟨i, hi, rfl, hspec, hadv⟩ := leaf_spec (prog := prog) ht uni body fwd (b + 1) e l hk.1 hb
    have hq := quantBounded_iff q hk.2
    intro s σ hrel hgood hip rest sf steps peak hf
    simp only [sem, loopBudget]
    have := loop1_run (limit := limit) hq h1 hi hspec
      (fun σ r hg hr => ⟨hadv σ r hr, sem_good ht body fwd σ r hw.1 hg hr⟩)
      (q.min + mu inp fwd σ.pos + 2) 0 σ s hrel.pos hrel.caps hrel.l1 hgood hip (by omega)
      rest sf steps peak hf
    exact Tries.mono (fun r t hp => ⟨hp.1, hp.2.1, LoopsFrame.of_eq hp.2.2⟩) this
  | .stringSet alts icase, fwd, b, e, l, _, _, _, hc => by
    subst huni
    exact frag_stringSet hc
theorem frag_list (ht : Utf8Text inp cs) (uni : Bool) (huni : uni = inp.unicode) :
    ∀ (ns : List Node) (fwd : Bool) (b e l : Nat), kokList ns = true → WFList ns → numLoopsList ns ≤ 65536 →
      CodeList prog.insns prog.brackets uni ns (!fwd) b e l → FragList prog inp limit cs ns fwd b e l
  | [], fwd, b, e, l, _, _, _, hc => by
    simp only [CodeList] at hc; subst hc; exact fragList_nil fwd _ l
  | n :: ns, fwd, b, e, l, hk, hw, hnl, hc => by
    simp only [CodeList] at hc; simp only [kokList, Bool.and_eq_true] at hk; simp only [WFList] at hw
    simp only [numLoopsList] at hnl
    obtain ⟨m, hn, hns⟩ := hc
    exact fragList_cons ht hw.1 (frag_node ht uni huni n fwd _ _ _ hk.1 hw.1 (by omega) hn)
      (frag_list ht uni huni ns fwd _ _ _ hk.2 hw.2 (by omega) hns)
end

end

end Regress.Keystone
