import Proofs.Lemmas.ClosureEnv
import Proofs.C02
import Proofs.Lemmas.Termination
/-!
# Closure, part 3: the state-threading search `VM.findIter` is the pure iterator `collectK`

`VM.findIter .bt` models what `backends::find::<BacktrackExecutor>` really does: ONE matcher whose
`State` is threaded through all attempts (a failed attempt leaves it as it is, `successful_match`
clears the groups only), one global tick budget. `Api.collectK (searchEnvBt …)` is the pure iteration
protocol with a fresh matcher per attempt. They agree:

* `run_shift` — the tick counters are only an offset: a run started with `steps + d` ticks on the
  clock and budget `limit + d` does what the run started at `steps` with budget `limit` does.
* `btAttempt_env` — one attempt on the threaded state with the global counters is the environment's
  attempt (C02 `reused_matcher_attempt` + C06 error freedom + fuel monotonicity).
* `findIter_eq_collect`.
-/
namespace Regress.Closure
open Regress.Api Regress.VM Regress.VM.Safety Regress.C06

/-! ## Shifting the tick counters -/

namespace Shift
open Regress.VM.Bt

/-- `o'` is `o` with `d` more ticks on the clock (the peak is not compared). -/
def Shifted (d : Nat) : Outcome → Outcome → Prop
  | .matched e st s _, .matched e' st' s' _ => e' = e ∧ st' = st ∧ s' = s + d
  | .failed st s _, .failed st' s' _ => st' = st ∧ s' = s + d
  | .outOfFuel, .outOfFuel => True
  | .error a, .error b => b = a
  | _, _ => False

/-- Induction hypothesis of `run_shift` at structural fuel `sf`. -/
def ShiftAt (prog : Prog) (inp : Input) (limit d sf : Nat) : Prop :=
  ∀ (ip pos : Nat) (fwd : Bool) (st : State) (bts : Array BtInsn) (steps peak peak' : Nat),
    Shifted d (run prog inp limit sf ip pos fwd st bts steps peak)
      (run prog inp (limit + d) sf ip pos fwd st bts (steps + d) peak')

theorem backtrackThen_shift {prog : Prog} {inp : Input} {limit d sf : Nat}
    (ih : ShiftAt prog inp limit d sf) (fwd : Bool) (st : State) (bts : Array BtInsn)
    (steps peak peak' : Nat) :
    Shifted d (backtrackThen prog inp limit sf fwd st bts steps peak)
      (backtrackThen prog inp (limit + d) sf fwd st bts (steps + d) peak') := by
  unfold backtrackThen
  cases tryBacktrack prog inp fwd st bts with
  | err e => simp [Shifted]
  | exhausted st' _ => simp [Shifted]
  | resumed ip pos st' bts' => exact ih _ _ _ _ _ _ _ _

theorem afterLook_shift {prog : Prog} {inp : Input} {limit d sf : Nat}
    (ih : ShiftAt prog inp limit d sf) (pos : Nat) (fwd negate : Bool) (sg k : Nat)
    (saved : List GroupData) (bts : Array BtInsn) {o o' : Outcome} (h : Shifted d o o') :
    Shifted d (afterLook prog inp limit sf pos fwd negate sg k saved bts o)
      (afterLook prog inp (limit + d) sf pos fwd negate sg k saved bts o') := by
  cases o with
  | matched e st s p =>
    cases o' with
    | matched e' st' s' p' =>
      simp only [Shifted] at h
      obtain ⟨rfl, rfl, rfl⟩ := h
      simp only [afterLook]
      split
      · exact ih _ _ _ _ _ _ _ _
      · exact backtrackThen_shift ih _ _ _ _ _ _
    | failed _ _ _ => simp [Shifted] at h
    | outOfFuel => simp [Shifted] at h
    | error _ => simp [Shifted] at h
  | failed st s p =>
    cases o' with
    | failed st' s' p' =>
      simp only [Shifted] at h
      obtain ⟨rfl, rfl⟩ := h
      simp only [afterLook]
      split
      · exact ih _ _ _ _ _ _ _ _
      · exact backtrackThen_shift ih _ _ _ _ _ _
    | matched _ _ _ _ => simp [Shifted] at h
    | outOfFuel => simp [Shifted] at h
    | error _ => simp [Shifted] at h
  | outOfFuel =>
    cases o' with
    | outOfFuel => simp [afterLook, Shifted]
    | matched _ _ _ _ => simp [Shifted] at h
    | failed _ _ _ => simp [Shifted] at h
    | error _ => simp [Shifted] at h
  | error a =>
    cases o' with
    | error b => simp only [Shifted] at h; subst h; simp [afterLook, Shifted]
    | matched _ _ _ _ => simp [Shifted] at h
    | failed _ _ _ => simp [Shifted] at h
    | outOfFuel => simp [Shifted] at h

/-- **The tick counters are only an offset.** -/
theorem run_shift (prog : Prog) (inp : Input) (limit d : Nat) : ∀ sf, ShiftAt prog inp limit d sf := by
  intro sf
  induction sf with
  | zero => intro ip pos fwd st bts steps peak peak'; simp [run_zero, Shifted]
  | succ sf ih =>
    intro ip pos fwd st bts steps peak peak'
    rw [run_succ, run_succ]
    by_cases hlim : steps ≥ limit
    · have : steps + d ≥ limit + d := by omega
      simp [hlim, this, Shifted]
    · have hlim' : ¬ steps + d ≥ limit + d := by omega
      simp only [hlim, hlim', if_false]
      have hst : steps + d + 1 = steps + 1 + d := by omega
      rw [hst]
      cases step prog inp ip pos fwd st bts with
      | err e => simp [Shifted]
      | goal p s => simp [Shifted]
      | cont ip2 pos2 st2 bts2 => exact ih _ _ _ _ _ _ _ _
      | back st2 bts2 => exact backtrackThen_shift ih _ _ _ _ _ _
      | look dirFwd negate sg eg k st0 bts0 =>
        simp only []
        split
        · simp [Shifted]
        · exact afterLook_shift ih _ _ _ _ _ _ _ (ih _ _ _ _ _ _ _ _)

/-- One attempt of the search loop (global counters, threaded state) is the attempt with the
remaining budget on the same state, `acc.steps` ticks later. -/
theorem btAttempt_shift (prog : Prog) (inp : Input) (L pos : Nat) (acc : Acc) (h : acc.steps ≤ L) :
    Shifted acc.steps (Bt.attemptWith prog inp (L - acc.steps) pos acc.st)
      (btAttempt prog inp L pos acc) := by
  have := run_shift prog inp (L - acc.steps) acc.steps (L - acc.steps) 0 pos true acc.st
    #[.exhausted] 0 0 acc.peak
  rwa [Nat.sub_add_cancel h, Nat.zero_add] at this

end Shift

open Shift

/-! ## The threaded matcher state -/

/-- Invariant of the matcher state between two attempts: right shape, valid positions, all groups
unset (`successful_match` clears them, a failed attempt restores them). The loop slots are
arbitrary. -/
structure MInv (prog : Prog) (inp : Input) (st : Bt.State) : Prop where
  ok : Bt.StateOK prog (VUtf8 inp) st
  clean : st.groups = (Bt.freshState prog 0).groups

theorem minv_fresh (prog : Prog) (inp : Input) : MInv prog inp (Bt.freshState prog 0) :=
  ⟨freshState_ok prog _ 0, rfl⟩

theorem minv_clear {prog : Prog} {inp : Input} {st : Bt.State}
    (h : Bt.StateOK prog (VUtf8 inp) st) : MInv prog inp (Bt.clearGroups st) := by
  have hg : (Bt.clearGroups st).groups = (Bt.freshState prog 0).groups := by
    apply Array.ext
    · simp [Bt.clearGroups, Bt.freshState, h.groups]
    · intro i h1 h2
      simp [Bt.clearGroups, Bt.freshState]
  refine ⟨⟨by simpa [Bt.clearGroups] using h.loops, by simp [Bt.clearGroups, h.groups], ?_⟩, hg⟩
  intro g gd hgd
  rw [hg] at hgd
  have := freshState_clean prog 0 g gd hgd
  subst this
  exact ⟨fun s h => (by cases h), fun s h => (by cases h)⟩

theorem minv_clean {prog : Prog} {inp : Input} {st : Bt.State} (h : MInv prog inp st) :
    ∀ (g : Nat) (gd : Bt.GroupData), st.groups[g]? = some gd → gd = ⟨none, none⟩ := by
  intro g gd hg
  rw [h.clean] at hg
  exact freshState_clean prog 0 g gd hg

/-- The hypotheses under which the threaded search is compared with the pure iterator. -/
structure FindHyp (prog : Prog) (inp : Input) (cs : List Nat) : Prop where
  wf : wfProgFull prog = true
  leads : IR.LeadsSP prog.startPred
  /-- C02's fragment: structured loops and look-arounds, no `Loop1CharBody`. -/
  loops : Sim.loopsStructured prog = true
  looks : Sim.looksStructured prog = true
  simple : Sim.simpleProg prog = true
  text : Utf8Text inp cs

theorem FindHyp.inpOK {prog : Prog} {inp : Input} {cs : List Nat} (H : FindHyp prog inp cs) :
    Sim.inpOK inp = true := by
  simp [Sim.inpOK, H.text.kind]

/-- **One attempt of the running search is the environment's attempt.** On the threaded state
(invariant `MInv`), at a char boundary, with the global tick counters:
* a match `e` with final state `st` means the fresh-matcher attempt with budget `L` matches with the
  same end and the same captures; `st` has the right shape;
* a failure means the fresh-matcher attempt fails, and the state keeps the invariant;
* there is no `.error`. -/
theorem btAttempt_env {prog : Prog} {inp : Input} {cs : List Nat} (H : FindHyp prog inp cs) (L : Nat)
    {pos : Nat} (hp : VUtf8 inp pos) {acc : Acc} (hinv : MInv prog inp acc.st) :
    match btAttempt prog inp L pos acc with
    | .matched e st _ _ =>
      (searchEnvBt prog inp L).attempt pos = some (e, Bt.capsOf st) ∧ Bt.StateOK prog (VUtf8 inp) st
    | .failed st _ _ => (searchEnvBt prog inp L).attempt pos = none ∧ MInv prog inp st
    | .outOfFuel => True
    | .error _ => False := by
  obtain ⟨h1, h2, h3, h4⟩ := wfFull_parts H.wf
  rcases Nat.lt_or_ge L acc.steps with hgt | hle
  · have h0 : L - acc.steps = 0 := by omega
    unfold btAttempt
    rw [h0]
    simp [Bt.run_zero]
  have hsh := btAttempt_shift prog inp L pos acc hle
  -- safety of the attempt on the threaded state and on a fresh state, with budget `L`
  have hsafe := bt_safe_utf8_full h1 h2 h4 h3 H.text hp hinv.ok (minv_clean hinv) L L
  have hsafeF := bt_safe_utf8_full h1 h2 h4 h3 H.text hp (freshState_ok prog (VUtf8 inp) 0)
    (freshState_clean prog 0) L L
  have hpk := pk_safe_utf8_full h1 h2 h4 h3 H.text hp pos L
  have hP : ∀ e, Pk.attempt prog inp L pos ≠ .error e := by
    intro e he
    have he' : Pk.attemptAt prog inp L pos pos = .error e := he
    rw [he'] at hpk; exact hpk
  have hB1 : ∀ e, Bt.attemptWith prog inp L pos acc.st ≠ .error e := by
    intro e he
    have he' : Bt.run prog inp L L 0 pos true acc.st #[.exhausted] 0 0 = .error e := he
    rw [he'] at hsafe; exact hsafe
  have hB2 : ∀ e, Bt.attemptFresh prog inp L pos ≠ .error e := by
    intro e he
    have he' : Bt.run prog inp L L 0 pos true (Bt.freshState prog 0) #[.exhausted] 0 0 = .error e := he
    rw [he'] at hsafeF; exact hsafeF
  have hre := C02.reused_matcher_attempt prog H.loops H.looks H.simple inp H.inpOK L pos acc.st
    hinv.clean hinv.ok.loops hP hB1 hB2
  -- the attempt with the remaining budget extends to the budget `L`
  have hmono : Bt.attemptWith prog inp (L - acc.steps) pos acc.st ≠ .outOfFuel →
      Bt.attemptWith prog inp L pos acc.st = Bt.attemptWith prog inp (L - acc.steps) pos acc.st :=
    fun hne => Bt.tryAtPos_fuel_mono prog inp (Nat.sub_le _ _) 0 pos true acc.st hne
  have henv : (searchEnvBt prog inp L).attempt pos =
      match Bt.attemptFresh prog inp L pos with
      | .matched e st _ _ => some (e, Bt.capsOf st)
      | _ => none := rfl
  cases hb : btAttempt prog inp L pos acc with
  | matched e st s k =>
    rw [hb] at hsh
    cases ho : Bt.attemptWith prog inp (L - acc.steps) pos acc.st with
    | matched e1 st1 s1 k1 =>
      rw [ho] at hsh
      simp only [Shifted] at hsh
      obtain ⟨rfl, rfl, _⟩ := hsh
      have hfull := hmono (by rw [ho]; intro hc; cases hc)
      rw [ho] at hfull
      have hfull' : Bt.run prog inp L L 0 pos true acc.st #[.exhausted] 0 0 = .matched e st s1 k1 :=
        hfull
      rw [hfull'] at hsafe
      rw [hfull] at hre
      refine ⟨?_, hsafe.2.2.1⟩
      rw [henv]
      cases hf : Bt.attemptFresh prog inp L pos with
      | matched e2 st2 s2 k2 =>
        rw [hf] at hre
        simp only [C02.btKey, Option.some.injEq, Prod.mk.injEq] at hre
        obtain ⟨⟨rfl, hc⟩, _⟩ := hre
        simp only [hc]
      | failed _ _ _ => rw [hf] at hre; simp [C02.btKey] at hre
      | outOfFuel => rw [hf] at hre; simp [C02.btKey] at hre
      | error _ => rw [hf] at hre; simp [C02.btKey] at hre
    | failed _ _ _ => rw [ho] at hsh; simp [Shifted] at hsh
    | outOfFuel => rw [ho] at hsh; simp [Shifted] at hsh
    | error _ => rw [ho] at hsh; simp [Shifted] at hsh
  | failed st s k =>
    rw [hb] at hsh
    cases ho : Bt.attemptWith prog inp (L - acc.steps) pos acc.st with
    | failed st1 s1 k1 =>
      rw [ho] at hsh
      simp only [Shifted] at hsh
      obtain ⟨rfl, _⟩ := hsh
      have hfull := hmono (by rw [ho]; intro hc; cases hc)
      rw [ho] at hfull
      have hfull' : Bt.run prog inp L L 0 pos true acc.st #[.exhausted] 0 0 = .failed st s1 k1 :=
        hfull
      rw [hfull'] at hsafe
      rw [hfull] at hre
      refine ⟨?_, ⟨hsafe.1, by rw [hsafe.2]; exact hinv.clean⟩⟩
      rw [henv]
      cases hf : Bt.attemptFresh prog inp L pos with
      | matched e2 st2 s2 k2 => rw [hf] at hre; simp [C02.btKey] at hre
      | failed _ _ _ => rfl
      | outOfFuel => rfl
      | error _ => rfl
    | matched _ _ _ _ => rw [ho] at hsh; simp [Shifted] at hsh
    | outOfFuel => rw [ho] at hsh; simp [Shifted] at hsh
    | error _ => rw [ho] at hsh; simp [Shifted] at hsh
  | outOfFuel => trivial
  | error a =>
    rw [hb] at hsh
    cases ho : Bt.attemptWith prog inp (L - acc.steps) pos acc.st with
    | error b =>
      have hfull := hmono (by rw [ho]; intro hc; cases hc)
      rw [ho] at hfull
      exact hB1 b hfull
    | matched _ _ _ _ => rw [ho] at hsh; simp [Shifted] at hsh
    | outOfFuel => rw [ho] at hsh; simp [Shifted] at hsh
    | failed _ _ _ => rw [ho] at hsh; simp [Shifted] at hsh

/-! ## One `next_match` -/

theorem nextStart_ok {inp : Input} {pos e : Nat} {ns : Option Nat}
    (h : VM.nextStart inp pos e = .ok ns) (prog : Prog) (L : Nat) :
    ns = (searchEnvBt prog inp L).nextStart pos e := by
  unfold VM.nextStart at h
  unfold SearchEnv.nextStart
  by_cases hne : e = pos
  · subst hne
    simp only [bne_self_eq_false, Bool.false_eq_true, if_false] at h
    simp only [ne_eq, not_true_eq_false, if_false]
    show ns = nextRightPosOpt inp e
    unfold nextRightPosOpt
    cases hr : inp.nextRightPos e with
    | ok r => rw [hr] at h; simp at h; exact h.symm
    | error _ => rw [hr] at h; cases h
  · have : (e != pos) = true := by simpa using hne
    simp only [this, if_true] at h
    simp only [ne_eq, hne, not_false_eq_true, if_true]
    cases h; rfl

theorem btSuccess_ok {prog : Prog} {inp : Input} {pos e : Nat} {st : Bt.State} {steps peak : Nat}
    {r : Option (MatchR × Option Nat)} {acc' : Acc} (L : Nat)
    (h : btSuccess prog inp pos e st steps peak = .ok (r, acc')) :
    r = some ((searchEnvBt prog inp L).successfulMatch pos e (Bt.capsOf st),
          (searchEnvBt prog inp L).nextStart pos e) ∧ acc'.st = Bt.clearGroups st := by
  unfold btSuccess at h
  cases hn : VM.nextStart inp pos e with
  | error _ => rw [hn] at h; cases h
  | ok ns =>
    rw [hn] at h
    simp only [Except.ok.injEq, Prod.mk.injEq] at h
    obtain ⟨rfl, rfl⟩ := h
    rw [nextStart_ok hn prog L]
    exact ⟨rfl, rfl⟩

theorem btNextMatchAnchored_ok {prog : Prog} {inp : Input} {cs : List Nat} (H : FindHyp prog inp cs)
    (L : Nat) {pos : Nat} (hp : VUtf8 inp pos) {acc acc' : Acc} (hinv : MInv prog inp acc.st)
    {r : Option (MatchR × Option Nat)}
    (h : btNextMatchAnchored prog inp L pos acc = .ok (r, acc')) :
    r = nextMatchAnchored (searchEnvBt prog inp L) pos ∧ MInv prog inp acc'.st := by
  have hatt := btAttempt_env H L hp hinv
  unfold btNextMatchAnchored at h
  unfold nextMatchAnchored
  cases hb : btAttempt prog inp L pos acc with
  | error _ => rw [hb] at h; cases h
  | outOfFuel => rw [hb] at h; cases h
  | matched e st s k =>
    rw [hb] at h hatt
    simp only at h hatt
    obtain ⟨h1, h2⟩ := btSuccess_ok L h
    rw [hatt.1]
    exact ⟨h1, by rw [h2]; exact minv_clear hatt.2⟩
  | failed st s k =>
    rw [hb] at h hatt
    simp only [Except.ok.injEq, Prod.mk.injEq] at h hatt
    obtain ⟨rfl, rfl⟩ := h
    rw [hatt.1]
    exact ⟨rfl, hatt.2⟩

theorem btNextMatchPrefix_ok {prog : Prog} {inp : Input} {cs : List Nat} (H : FindHyp prog inp cs)
    (L : Nat) : ∀ (n : Nat) {pos : Nat}, VUtf8 inp pos → ∀ {acc acc' : Acc}, MInv prog inp acc.st →
    ∀ {r : Option (MatchR × Option Nat)},
    btNextMatchPrefix prog inp L n pos acc = .ok (r, acc') →
    r = nextMatchPrefixFuel (searchEnvBt prog inp L) n pos ∧ MInv prog inp acc'.st := by
  intro n
  induction n with
  | zero => intro pos _ acc acc' _ r h; simp [btNextMatchPrefix] at h
  | succ n ih =>
    intro pos hp acc acc' hinv r h
    simp only [btNextMatchPrefix] at h
    simp only [nextMatchPrefixFuel]
    split at h
    · cases h
    · have hfb : (searchEnvBt prog inp L).findBytes pos = findBytesPred prog.startPred inp.bytes pos := rfl
      rw [hfb]
      cases hq : findBytesPred prog.startPred inp.bytes pos with
      | none =>
        rw [hq] at h
        simp only [Except.ok.injEq, Prod.mk.injEq] at h
        obtain ⟨rfl, rfl⟩ := h
        exact ⟨rfl, hinv⟩
      | some q =>
        rw [hq] at h
        simp only at h ⊢
        have hvq := (findBytesPred_boundary H.leads inp hp hq).2
        have hatt := btAttempt_env H L hvq hinv
        cases hb : btAttempt prog inp L q acc with
        | error _ => rw [hb] at h; cases h
        | outOfFuel => rw [hb] at h; cases h
        | matched e st s k =>
          rw [hb] at h hatt
          simp only at h hatt
          obtain ⟨h1, h2⟩ := btSuccess_ok L h
          rw [hatt.1]
          exact ⟨h1, by rw [h2]; exact minv_clear hatt.2⟩
        | failed st s k =>
          rw [hb] at h hatt
          simp only at h hatt
          rw [hatt.1]
          simp only
          have hnr : (searchEnvBt prog inp L).nextRightPos q = nextRightPosOpt inp q := rfl
          rw [hnr]
          unfold nextRightPosOpt
          cases hr : inp.nextRightPos q with
          | error _ => rw [hr] at h; cases h
          | ok o =>
            rw [hr] at h
            cases o with
            | none =>
              simp only [Except.ok.injEq, Prod.mk.injEq] at h
              obtain ⟨rfl, rfl⟩ := h
              exact ⟨rfl, hatt.2⟩
            | some q' =>
              simp only at h ⊢
              have hq' : nextRightPosOpt inp q = some q' := by simp [nextRightPosOpt, hr]
              exact ih (nextRightPosOpt_utf8 H.text hvq hq').2 (acc := ⟨st, s, k⟩) hatt.2 h

/-- **One `next_match` of the running `BacktrackExecutor` is one `next_match` of the pure protocol.** -/
theorem nextMatchX_bt_ok {prog : Prog} {inp : Input} {cs : List Nat} (H : FindHyp prog inp cs)
    (L : Nat) {pos : Nat} (hp : VUtf8 inp pos) {acc acc' : Acc} (hinv : MInv prog inp acc.st)
    {r : Option (MatchR × Option Nat)} (h : nextMatchX .bt prog inp L pos acc = .ok (r, acc')) :
    r = nextMatch (searchEnvBt prog inp L) (kindOf prog .bt) pos ∧ MInv prog inp acc'.st := by
  simp only [nextMatchX] at h
  simp only [kindOf]
  split at h
  · next ha => simp only [ha, if_true]; exact btNextMatchAnchored_ok H L hp hinv h
  · next ha =>
    simp only [ha, Bool.false_eq_true, if_false]
    exact btNextMatchPrefix_ok H L _ hp hinv h

/-! ## Draining -/

theorem drain_bt_ok {prog : Prog} {inp : Input} {cs : List Nat} (H : FindHyp prog inp cs) (L : Nat) :
    ∀ (n : Nat) (position : Option Nat), (∀ c, position = some c → VUtf8 inp c) →
    ∀ (acc : Acc), MInv prog inp acc.st → ∀ (out ms : List MatchR) (acc' : Acc),
    drain .bt prog inp L n position acc out = .ok (ms, acc') →
    ms = out.reverse ++
      Matches.collectFuel (searchEnvBt prog inp L) (kindOf prog .bt) n ⟨position⟩ := by
  intro n
  induction n with
  | zero => intro position _ acc _ out ms acc' h; simp [drain] at h
  | succ n ih =>
    intro position hpos acc hinv out ms acc' h
    cases position with
    | none =>
      simp only [drain, Except.ok.injEq, Prod.mk.injEq] at h
      rw [C09.collectFuel_none]
      simp [h.1]
    | some pos =>
      simp only [drain] at h
      have hv := hpos pos rfl
      rw [C09.collectFuel_succ_some]
      cases hx : nextMatchX .bt prog inp L pos acc with
      | error _ => rw [hx] at h; cases h
      | ok ra =>
        obtain ⟨r, acc1⟩ := ra
        rw [hx] at h
        obtain ⟨hr, hinv1⟩ := nextMatchX_bt_ok H L hv hinv hx
        rw [← hr]
        cases r with
        | none =>
          simp only [Except.ok.injEq, Prod.mk.injEq] at h
          simp [h.1]
        | some mn =>
          obtain ⟨m, ns⟩ := mn
          simp only at h ⊢
          have hclosed : ∀ c, ns = some c → VUtf8 inp c := by
            intro c hc
            have := (nextMatch_closed (envOKOn_bt H.wf H.leads H.text L) (kindOf prog .bt)
              (vb_iff.mpr hv) hr.symm).2.2.2.2.2.2.2 c hc
            exact vb_iff.mp this
          have := ih ns hclosed acc1 hinv1 (m :: out) ms acc' h
          rw [this]
          simp

/-- **`findIter_eq_collect`.** If the state-threading search of the backtracking executor (one
matcher reused across all attempts, one global tick budget `fuel`) returns a list of matches — i.e.
no panic site is hit (impossible anyway, C06) and the budget suffices — then that list is the drained
pure iterator over the fresh-matcher environment with per-attempt budget `fuel`. `start` is a char
boundary or lies beyond the end of the haystack. -/
theorem findIter_eq_collect {prog : Prog} {inp : Input} {cs : List Nat} (H : FindHyp prog inp cs)
    (fuel : Nat) {start : Nat} (hs : VUtf8 inp start ∨ inp.len < start) {ms : List MatchR}
    (h : findIter .bt prog inp start fuel = .ok ms) :
    ms = collectK (searchEnvBt prog inp fuel) (kindOf prog .bt) start := by
  unfold findIter findIterStats at h
  simp only at h
  cases hd : drain .bt prog inp fuel (inp.len + 3) (inp.tryMoveRight 0 start)
      { st := Bt.freshState prog 0, steps := 0, peak := 0 } [] with
  | error _ => rw [hd] at h; cases h
  | ok r =>
    obtain ⟨ms', acc'⟩ := r
    rw [hd] at h
    simp only [Except.ok.injEq] at h
    subst h
    have hOn := envOKOn_bt H.wf H.leads H.text fuel
    have hpos : inp.tryMoveRight 0 start = if start ≤ inp.len then some start else none := by
      simp only [Input.tryMoveRight, Utf8.tryMoveRight, Input.len]
      by_cases hle : start ≤ inp.bytes.size
      · simp [hle]
      · simp [hle]
    have hvalid : ∀ c, inp.tryMoveRight 0 start = some c → VUtf8 inp c := by
      intro c hc
      rw [hpos] at hc
      split at hc
      · cases hc
        rcases hs with hs | hs
        · exact hs
        · omega
      · cases hc
    have := drain_bt_ok H fuel (inp.len + 3) _ hvalid _ (minv_fresh prog inp) [] ms' acc' hd
    rw [this]
    simp only [List.reverse_nil, List.nil_append]
    unfold collectK Matches.collect Matches.new
    rw [C09.initialPosition_eq, hpos]
    show Matches.collectFuel _ _ (inp.len + 3) ⟨if start ≤ inp.len then some start else none⟩ =
      Matches.collectFuel _ _ (inp.len + 2) ⟨if start ≤ inp.len then some start else none⟩
    split
    · next hle =>
      have hvs : vb inp start = true := by
        rcases hs with hs | hs
        · exact vb_iff.mpr hs
        · omega
      rw [← restrict_collectFuel hOn _ _ _ hvs, ← restrict_collectFuel hOn _ _ _ hvs]
      have hlen : (restrictEnv (vb inp) (searchEnvBt prog inp fuel)).len = inp.len := rfl
      rw [C09.collect_fuel_suffices (restrict_ok hOn) _ (c := start) (by rw [hlen]; exact hle)
        (by rw [hlen]; omega)]
      rfl
    · rw [C09.collectFuel_none, C09.collectFuel_none]

end Regress.Closure
