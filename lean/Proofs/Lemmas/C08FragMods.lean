import Proofs.Lemmas.C08FragNamed
/-!
# C08 on a fragment: modifier groups `(?ims-ims:…)`

The crate's `modifierScan` (the loop of `try_consume_modifier_group`: one pass, an `Option` per flag,
`seen_hyphen`, `saw_flag`) against the grammar's `modifiers` (two maximal runs of `i m s` around an
optional `-`, then the early errors "no flag twice" and "not both empty").
-/
namespace Regress.C08Frag
open Regress Regress.IR Regress.Parse Regress.ESG

theorem nodup_iff (l : List Nat) : ESG.nodup l = true ↔ l.Nodup := by
  induction l with
  | nil => simp [ESG.nodup]
  | cons x r ih =>
    simp only [ESG.nodup, Bool.and_eq_true, Bool.not_eq_true', List.nodup_cons, ih]
    constructor
    · rintro ⟨h1, h2⟩; exact ⟨by simpa using h1, h2⟩
    · rintro ⟨h1, h2⟩; exact ⟨by simpa using h1, h2⟩

theorem ms_cons (ch : Nat) (rest : List Nat) (m : Mods) : modifierScan (ch :: rest) m =
    if ch == 0x69 then
      if m.icase.isSome then synErr "Invalid group modifier"
      else modifierScan rest { m with icase := some (!m.seenHyphen), sawFlag := true }
    else if ch == 0x6D then
      if m.multiline.isSome then synErr "Invalid group modifier"
      else modifierScan rest { m with multiline := some (!m.seenHyphen), sawFlag := true }
    else if ch == 0x73 then
      if m.dotAll.isSome then synErr "Invalid group modifier"
      else modifierScan rest { m with dotAll := some (!m.seenHyphen), sawFlag := true }
    else if ch == 0x2D then
      if m.seenHyphen then synErr "Invalid group modifier"
      else modifierScan rest { m with seenHyphen := true }
    else if ch == 0x3A then
      if !m.sawFlag then synErr "Invalid group modifier" else .ok (m, rest)
    else synErr "Invalid group modifier" := by
  rw [modifierScan]

/-- A modifier flag character. -/
def IsFlag (x : Nat) : Prop := x = 0x69 ∨ x = 0x6D ∨ x = 0x73

/-- `takeMods`: the maximal run of flag characters, reversed onto the accumulator. -/
theorem takeMods_spec : ∀ (s acc : List Nat), ∃ pre rest, s = pre ++ rest ∧ (∀ x ∈ pre, IsFlag x) ∧
    (∀ x r, rest = x :: r → ¬ IsFlag x) ∧ takeMods s acc = (pre.reverse ++ acc, rest) := by
  intro s
  induction s with
  | nil => intro acc; exact ⟨[], [], rfl, by simp, by simp, rfl⟩
  | cons x r ih =>
    intro acc
    by_cases hx : IsFlag x
    · obtain ⟨pre, rest, h1, h2, h3, h4⟩ := ih (x :: acc)
      refine ⟨x :: pre, rest, by rw [h1]; rfl, ?_, h3, ?_⟩
      · intro y hy
        rcases List.mem_cons.1 hy with rfl | hy
        · exact hx
        · exact h2 y hy
      · have : (x == 0x69 || x == 0x6D || x == 0x73) = true := by
          rcases hx with h | h | h <;> simp [h]
        rw [takeMods, if_pos this, h4]
        simp
    · refine ⟨[], x :: r, rfl, by simp, ?_, ?_⟩
      · intro y r' h; cases h; exact hx
      · have : (x == 0x69 || x == 0x6D || x == 0x73) = false := by
          simp only [IsFlag, not_or] at hx
          simp [hx.1, hx.2.1, hx.2.2]
        rw [takeMods, if_neg (by rw [this]; simp)]
        rfl

/-- The scan state `m` has seen exactly the flags `S` (and the hyphen iff `hy`). -/
structure MRel (S : List Nat) (m : Mods) (hy : Bool) : Prop where
  hy : m.seenHyphen = hy
  fi : m.icase.isSome = S.contains 0x69
  fm : m.multiline.isSome = S.contains 0x6D
  fs : m.dotAll.isSome = S.contains 0x73
  saw : m.sawFlag = !S.isEmpty

/-- A run of flag characters: the scan fails at the first repeated flag, which is when the run
(with the flags seen before) has a duplicate. -/
theorem flagRun : ∀ (pre rest S : List Nat) (m : Mods) (hy : Bool), (∀ x ∈ pre, IsFlag x) → MRel S m hy →
    S.Nodup →
    ((pre.reverse ++ S).Nodup → ∃ m', MRel (pre.reverse ++ S) m' hy ∧
      modifierScan (pre ++ rest) m = modifierScan rest m') ∧
    (¬ (pre.reverse ++ S).Nodup → IsSyn (modifierScan (pre ++ rest) m)) := by
  intro pre
  induction pre with
  | nil =>
    intro rest S m hy _ hr hS
    exact ⟨fun _ => ⟨m, hr, rfl⟩, fun h => absurd hS h⟩
  | cons x pre ih =>
    intro rest S m hy hp hr hS
    have hx := hp x (by simp)
    have hp' : ∀ y ∈ pre, IsFlag y := fun y h => hp y (by simp [h])
    have e : (x :: pre).reverse ++ S = pre.reverse ++ (x :: S) := by simp
    rw [e]
    by_cases hmem : x ∈ S
    · -- repeated flag
      have hnd : ¬ (pre.reverse ++ (x :: S)).Nodup := by
        intro h
        have := (List.nodup_append.1 h).2.1
        exact (List.nodup_cons.1 this).1 hmem
      refine ⟨fun h => absurd h hnd, fun _ => ?_⟩
      rw [List.cons_append, ms_cons]
      rcases hx with rfl | rfl | rfl
      · have : m.icase.isSome = true := by rw [hr.fi]; simpa using hmem
        simp only [beq_self_eq_true, if_true, this]
        exact isSyn_synErr _
      · have : m.multiline.isSome = true := by rw [hr.fm]; simpa using hmem
        simp only [Nat.reduceBEq, Bool.false_eq_true, if_false, beq_self_eq_true, if_true, this]
        exact isSyn_synErr _
      · have : m.dotAll.isSome = true := by rw [hr.fs]; simpa using hmem
        simp only [Nat.reduceBEq, Bool.false_eq_true, if_false, beq_self_eq_true, if_true, this]
        exact isSyn_synErr _
    · have hS' : (x :: S).Nodup := List.nodup_cons.2 ⟨hmem, hS⟩
      have step : ∃ m1, MRel (x :: S) m1 hy ∧ modifierScan (x :: (pre ++ rest)) m = modifierScan (pre ++ rest) m1 := by
        rw [ms_cons]
        rcases hx with rfl | rfl | rfl
        · have h0 : m.icase.isSome = false := by rw [hr.fi]; simpa using hmem
          refine ⟨{ m with icase := some (!m.seenHyphen), sawFlag := true }, ⟨hr.hy, ?_, ?_, ?_, ?_⟩, ?_⟩
          · simp
          · simp only [List.contains_cons]; rw [hr.fm]; simp
          · simp only [List.contains_cons]; rw [hr.fs]; simp
          · simp
          · simp only [beq_self_eq_true, if_true, h0, Bool.false_eq_true, if_false]
        · have h0 : m.multiline.isSome = false := by rw [hr.fm]; simpa using hmem
          refine ⟨{ m with multiline := some (!m.seenHyphen), sawFlag := true }, ⟨hr.hy, ?_, ?_, ?_, ?_⟩, ?_⟩
          · simp only [List.contains_cons]; rw [hr.fi]; simp
          · simp
          · simp only [List.contains_cons]; rw [hr.fs]; simp
          · simp
          · simp only [Nat.reduceBEq, beq_self_eq_true, if_true, h0, Bool.false_eq_true, if_false]
        · have h0 : m.dotAll.isSome = false := by rw [hr.fs]; simpa using hmem
          refine ⟨{ m with dotAll := some (!m.seenHyphen), sawFlag := true }, ⟨hr.hy, ?_, ?_, ?_, ?_⟩, ?_⟩
          · simp only [List.contains_cons]; rw [hr.fi]; simp
          · simp only [List.contains_cons]; rw [hr.fm]; simp
          · simp
          · simp
          · simp only [Nat.reduceBEq, beq_self_eq_true, if_true, h0, Bool.false_eq_true, if_false]
      obtain ⟨m1, hr1, hm1⟩ := step
      have := ih rest (x :: S) m1 hy hp' hr1 hS'
      rw [List.cons_append, hm1]
      exact this

/-! ### `modifiers`, by the shape of what follows the flag runs -/

theorem mod_colon {c : Cfg} {s a r : List Nat} (h : takeMods s [] = (a, 0x3A :: r)) :
    modifiers c s = if a.isEmpty || (c.feat25 && ESG.nodup a) then some r else none := by
  unfold modifiers; rw [h]; rfl

theorem mod_hyphen_colon {c : Cfg} {s a r1 b r : List Nat} (h : takeMods s [] = (a, 0x2D :: r1))
    (h2 : takeMods r1 [] = (b, 0x3A :: r)) :
    modifiers c s = if c.feat25 && ESG.nodup (a ++ b) && !(a.isEmpty && b.isEmpty) then some r else none := by
  unfold modifiers; rw [h]; simp only; rw [h2]; rfl

theorem mod_hyphen_other {c : Cfg} {s a r1 b rest2 : List Nat} (h : takeMods s [] = (a, 0x2D :: r1))
    (h2 : takeMods r1 [] = (b, rest2)) (hr : ∀ r, rest2 ≠ 0x3A :: r) : modifiers c s = none := by
  unfold modifiers; rw [h]; simp only; rw [h2]
  split
  · rename_i heq; simp only [Prod.mk.injEq] at heq; exact absurd heq.2 (hr _)
  · rfl

theorem mod_other {c : Cfg} {s a rest : List Nat} (h : takeMods s [] = (a, rest))
    (h1 : ∀ r, rest ≠ 0x3A :: r) (h2 : ∀ r, rest ≠ 0x2D :: r) : modifiers c s = none := by
  unfold modifiers; rw [h]
  split
  · rename_i heq; simp only [Prod.mk.injEq] at heq; exact absurd heq.2 (h1 _)
  · rename_i heq; simp only [Prod.mk.injEq] at heq; exact absurd heq.2 (h2 _)
  · rfl

/-- The characters of a modifier prefix `ims-ims:`. -/
def ModCh (c : Nat) : Prop := c = 0x69 ∨ c = 0x6D ∨ c = 0x73 ∨ c = 0x2D ∨ c = 0x3A

theorem IsFlag.modCh {x : Nat} (h : IsFlag x) : ModCh x := by
  rcases h with h | h | h
  · exact .inl h
  · exact .inr (.inl h)
  · exact .inr (.inr (.inl h))

/-- What ends a scan: not a flag, not `-`, not `:` — or the end of the pattern. -/
theorem ms_stop {rest : List Nat} (m : Mods) (h0 : ∀ x r, rest = x :: r → ¬ IsFlag x)
    (h1 : ∀ r, rest ≠ 0x3A :: r) (h2 : (∀ r, rest ≠ 0x2D :: r) ∨ m.seenHyphen = true) :
    IsSyn (modifierScan rest m) := by
  rcases rest with _ | ⟨x, r⟩
  · rw [modifierScan]; exact isSyn_synErr _
  · have hf := h0 x r rfl
    simp only [IsFlag, not_or] at hf
    have hc : x ≠ 0x3A := fun e => h1 r (by rw [e])
    rw [ms_cons]
    simp only [beq_iff_eq, hf.1, hf.2.1, hf.2.2, hc, if_false]
    split
    · rename_i hh
      rcases h2 with h2 | h2
      · exact absurd (by rw [hh]) (h2 r)
      · rw [h2]; exact isSyn_synErr _
    · exact isSyn_synErr _

/-- **Modifier prefixes**: after `(?` (not followed by `:`), the grammar's `modifiers` and the
crate's scan accept the same prefixes, and leave the same rest. -/
theorem modifiers_sim (c : Cfg) (h25 : c.feat25 = true) (s : List Nat) (hs : ∀ r, s ≠ 0x3A :: r) :
    (∀ r1, modifiers c s = some r1 → (∃ m, modifierScan s {} = .ok (m, r1)) ∧
      ∃ p, p ≠ [] ∧ s = p ++ r1 ∧ ∀ x ∈ p, ModCh x) ∧
    (modifiers c s = none → IsSyn (modifierScan s {})) := by
  obtain ⟨pre, rest, h1, h2, h3, h4⟩ := takeMods_spec s []
  rw [List.append_nil] at h4
  have R0 : MRel [] {} false := ⟨rfl, rfl, rfl, rfl, rfl⟩
  obtain ⟨fa, fb⟩ := flagRun pre rest [] {} false h2 R0 List.nodup_nil
  rw [List.append_nil, ← h1] at fa fb
  by_cases hndN : ¬ (pre.reverse.Nodup)
  · have hnd := hndN
    -- a flag twice in the first run
    have hsyn := fb hnd
    have hnone : modifiers c s = none := by
      have hnd' : ESG.nodup pre.reverse = false := by
        cases h : ESG.nodup pre.reverse with
        | false => rfl
        | true => exact absurd ((nodup_iff _).1 h) hnd
      have hne : pre.reverse.isEmpty = false := by
        cases h : pre.reverse with
        | nil => rw [h] at hnd; exact absurd List.nodup_nil hnd
        | cons => rfl
      by_cases hc : ∃ r, rest = 0x3A :: r
      · obtain ⟨r, rfl⟩ := hc
        rw [mod_colon h4, hnd', hne]; simp
      by_cases hh : ∃ r, rest = 0x2D :: r
      · obtain ⟨r1, rfl⟩ := hh
        obtain ⟨pre2, rest2, g1, g2, g3, g4⟩ := takeMods_spec r1 []
        rw [List.append_nil] at g4
        by_cases hc2 : ∃ r, rest2 = 0x3A :: r
        · obtain ⟨r, rfl⟩ := hc2
          rw [mod_hyphen_colon h4 g4]
          have : ESG.nodup (pre.reverse ++ pre2.reverse) = false := by
            cases h : ESG.nodup (pre.reverse ++ pre2.reverse) with
            | false => rfl
            | true => exact absurd (List.nodup_append.1 ((nodup_iff _).1 h)).1 hnd
          rw [this]; simp
        · exact mod_hyphen_other h4 g4 (fun r e => hc2 ⟨r, e⟩)
      · exact mod_other h4 (fun r e => hc ⟨r, e⟩) (fun r e => hh ⟨r, e⟩)
    exact ⟨fun r1 h => (by rw [hnone] at h; cases h), fun _ => hsyn⟩
  have hnd := Classical.not_not.1 hndN
  obtain ⟨m1, hr1, hm1⟩ := fa hnd
  have hnd1 : ESG.nodup pre.reverse = true := (nodup_iff _).2 hnd
  by_cases hc : ∃ r, rest = 0x3A :: r
  · -- `flags :`
    obtain ⟨r, rfl⟩ := hc
    have hpne : pre ≠ [] := by
      intro e; rw [e] at h1; exact hs r h1
    have hne : pre.reverse.isEmpty = false := by
      cases h : pre.reverse with
      | nil => exact absurd (List.reverse_eq_nil_iff.1 h) hpne
      | cons => rfl
    rw [mod_colon h4, hnd1, h25, hne]
    simp only [Bool.and_self, Bool.or_true, if_true, Option.some.injEq]
    refine ⟨?_, fun h => by cases h⟩
    rintro r1 rfl
    refine ⟨⟨m1, ?_⟩, pre ++ [0x3A], by simp, by rw [h1]; simp, ?_⟩
    · rw [hm1, ms_cons]
      simp only [Nat.reduceBEq, Bool.false_eq_true, if_false, beq_self_eq_true, if_true, hr1.saw, hne,
        Bool.not_false, Bool.not_true]
    · intro x hx
      rcases List.mem_append.1 hx with hx | hx
      · exact (h2 x hx).modCh
      · simp only [List.mem_singleton] at hx; exact .inr (.inr (.inr (.inr hx)))
  by_cases hhN : ¬ (∃ r, rest = 0x2D :: r)
  · have hh := hhN
    rw [mod_other h4 (fun r e => hc ⟨r, e⟩) (fun r e => hh ⟨r, e⟩)]
    refine ⟨fun r1 h => (by cases h), fun _ => ?_⟩
    rw [hm1]
    exact ms_stop m1 h3 (fun r e => hc ⟨r, e⟩) (.inl (fun r e => hh ⟨r, e⟩))
  have hh := Classical.not_not.1 hhN
  -- `flags - flags`
  obtain ⟨r1, rfl⟩ := hh
  obtain ⟨pre2, rest2, g1, g2, g3, g4⟩ := takeMods_spec r1 []
  rw [List.append_nil] at g4
  have hstep : modifierScan (0x2D :: r1) m1 = modifierScan r1 { m1 with seenHyphen := true } := by
    rw [ms_cons]
    simp only [Nat.reduceBEq, Bool.false_eq_true, if_false, beq_self_eq_true, if_true, hr1.hy]
  have R1 : MRel pre.reverse { m1 with seenHyphen := true } true := ⟨rfl, hr1.fi, hr1.fm, hr1.fs, hr1.saw⟩
  obtain ⟨ga, gb⟩ := flagRun pre2 rest2 pre.reverse _ true g2 R1 hnd
  rw [← g1] at ga gb
  have hcomm' : ∀ (a b : List Nat), (a ++ b).Nodup → (b ++ a).Nodup := fun a b h => by
    obtain ⟨x, y, z⟩ := List.nodup_append.1 h
    exact List.nodup_append.2 ⟨y, x, fun p hp q hq e => z q hq p hp e.symm⟩
  have hcomm : (pre.reverse ++ pre2.reverse).Nodup ↔ (pre2.reverse ++ pre.reverse).Nodup :=
    ⟨hcomm' _ _, hcomm' _ _⟩
  by_cases hnd2N : ¬ ((pre2.reverse ++ pre.reverse).Nodup)
  · have hnd2 := hnd2N
    have hsyn := gb hnd2
    have hnone : modifiers c s = none := by
      by_cases hc2 : ∃ r, rest2 = 0x3A :: r
      · obtain ⟨r, rfl⟩ := hc2
        rw [mod_hyphen_colon h4 g4]
        have : ESG.nodup (pre.reverse ++ pre2.reverse) = false := by
          cases h : ESG.nodup (pre.reverse ++ pre2.reverse) with
          | false => rfl
          | true => exact absurd (hcomm.1 ((nodup_iff _).1 h)) hnd2
        rw [this]; simp
      · exact mod_hyphen_other h4 g4 (fun r e => hc2 ⟨r, e⟩)
    refine ⟨fun r1 h => (by rw [hnone] at h; cases h), fun _ => ?_⟩
    rw [hm1, hstep]; exact hsyn
  have hnd2 := Classical.not_not.1 hnd2N
  obtain ⟨m2, hr2, hm2⟩ := ga hnd2
  have hnd2' : ESG.nodup (pre.reverse ++ pre2.reverse) = true := (nodup_iff _).2 (hcomm.2 hnd2)
  by_cases hc2N : ¬ (∃ r, rest2 = 0x3A :: r)
  · have hc2 := hc2N
    rw [mod_hyphen_other h4 g4 (fun r e => hc2 ⟨r, e⟩)]
    refine ⟨fun r1 h => (by cases h), fun _ => ?_⟩
    rw [hm1, hstep, hm2]
    exact ms_stop m2 g3 (fun r e => hc2 ⟨r, e⟩) (.inr hr2.hy)
  have hc2 := Classical.not_not.1 hc2N
  obtain ⟨r, rfl⟩ := hc2
  rw [mod_hyphen_colon h4 g4, hnd2', h25]
  have hfin : modifierScan (0x3A :: r) m2 =
      if (pre.reverse.isEmpty && pre2.reverse.isEmpty) then synErr "Invalid group modifier" else .ok (m2, r) := by
    rw [ms_cons]
    have hie : ∀ a b : List Nat, (b ++ a).isEmpty = (a.isEmpty && b.isEmpty) := by
      intro a b; cases a <;> cases b <;> rfl
    simp only [Nat.reduceBEq, Bool.false_eq_true, if_false, beq_self_eq_true, if_true, hr2.saw,
      Bool.not_not, hie]
  cases hemp : (pre.reverse.isEmpty && pre2.reverse.isEmpty) with
  | true =>
    simp only [Bool.and_self, Bool.not_true, Bool.and_false, Bool.false_eq_true, if_false]
    refine ⟨fun r1 h => (by cases h), fun _ => ?_⟩
    rw [hm1, hstep, hm2, hfin, hemp]
    exact isSyn_synErr _
  | false =>
    simp only [Bool.and_self, Bool.not_false, if_true, Option.some.injEq]
    refine ⟨?_, fun h => by cases h⟩
    rintro r1 rfl
    refine ⟨⟨m2, ?_⟩, pre ++ 0x2D :: (pre2 ++ [0x3A]), by simp, by rw [h1, g1]; simp, ?_⟩
    · rw [hm1, hstep, hm2, hfin, hemp]; rfl
    · intro x hx
      simp only [List.mem_append, List.mem_cons, List.mem_singleton, List.not_mem_nil, or_false] at hx
      rcases hx with hx | rfl | hx | rfl
      · exact (h2 x hx).modCh
      · exact .inr (.inr (.inr (.inl rfl)))
      · exact (g2 x hx).modCh
      · exact .inr (.inr (.inr (.inr rfl)))

theorem ModCh.plain {x : Nat} (h : ModCh x) : Plain x := by
  rcases h with rfl | rfl | rfl | rfl | rfl <;> (refine ⟨?_, ?_, ?_, ?_, ?_, ?_⟩ <;> decide)

theorem applyMods_uni (fl : Flags) (m : Mods) :
    (applyMods fl m).unicode = fl.unicode ∧ (applyMods fl m).unicodeSets = fl.unicodeSets := by
  unfold applyMods
  cases m.icase <;> cases m.multiline <;> cases m.dotAll <;> exact ⟨rfl, rfl⟩

/-- The invariant looks only at the flags `u` and `v`. -/
theorem PInv.setFlags {F : Feat} {u : Bool} {Γ : Glob} {st : PState} (h : PInv F u Γ st) (fl : Flags)
    (h1 : fl.unicode = u) (h2 : F.k = true → fl.unicodeSets = false) (h3 : fl.unicodeSets = Γ.V) :
    PInv F u Γ { st with flags := fl } :=
  ⟨h1, h2, h.frag, h.chars, h.depth, h.groups, h.loops, h.gmax, h.cap, h.named, h.nok, h3⟩

end Regress.C08Frag
