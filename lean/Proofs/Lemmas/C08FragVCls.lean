import Proofs.Lemmas.C08FragLeg
/-!
# C08 on a fragment: class sets (flag `v`)

The crate's `consume_class_set_expression` / `…_operand` (with the loops for union, `&&`, `--`, the
`\q{…}` strings, nested classes and the `may_contain_strings` flag) against the grammar's
`vClass` / `vContents` / `vUnion` / `vInter` / `vSub` / `vOperand` / `vItem` / `qGo` (ES2024
`ClassSetExpression` with the static MayContainStrings).
-/
namespace Regress.C08Frag
open Regress Regress.IR Regress.Parse Regress.ESG

/-! ## ClassSetCharacter -/

theorem reservedPunct_eq (c : Nat) : isClassSetReservedPunctuator c = isClassSetReservedPunct c := rfl

theorem doublePunct_eq (c : Nat) : isClassSetReservedDoublePunctuator c = isDoublePunctChar c := rfl

theorem head?_eq (r : List Nat) (x : Nat) :
    (match r with | n :: _ => n == x | [] => false) = (r.head? == some x) := by
  cases r with
  | nil => rfl
  | cons n r2 => simp [List.head?]

theorem classSetChar_esc (y : Nat) (r' : List Nat) : classSetChar (0x5C :: y :: r') =
    if y == 0x62 then some (8, r')
    else if isClassSetReservedPunct y then some (y, r')
    else charEscapeU y r' := by
  unfold classSetChar; rfl

theorem classSetChar_plain {x : Nat} (r : List Nat) (hbs : x ≠ 0x5C) : classSetChar (x :: r) =
    if isClassSetSyntaxChar x then none
    else if isDoublePunctChar x && r.head? == some x then none
    else some (x, r) := by
  unfold classSetChar
  split
  · rename_i heq; cases heq
  · rename_i heq; cases heq; exact absurd rfl hbs
  · rename_i heq; cases heq; exact absurd rfl hbs
  · rename_i heq; cases heq; rfl

/-- `ClassSetCharacter`: the two readers agree, values included. -/
theorem classSetChar_sim (hn : Bool) (s : List Nat) (h : AllChar s) :
    match classSetChar s with
    | some (v, r') => classSetCharacter true hn s = .ok (v, r')
    | none => IsSyn (classSetCharacter true hn s) := by
  rcases s with _ | ⟨x, r⟩
  · exact isSyn_synErr _
  by_cases hbs : x = 0x5C
  · subst hbs
    rcases r with _ | ⟨y, r'⟩
    · exact isSyn_synErr _
    · have e2 : classSetCharacter true hn (0x5C :: y :: r') =
          if y == 0x62 then .ok (0x08, r')
          else if isClassSetReservedPunctuator y then .ok (y, r')
          else characterEscape true hn (y :: r') := by
        unfold classSetCharacter; simp
      rw [classSetChar_esc, e2, reservedPunct_eq]
      cases hb : (y == 0x62) with
      | true => simp only [if_true]
      | false =>
        simp only [Bool.false_eq_true, if_false]
        cases hp : isClassSetReservedPunct y with
        | true => simp only [if_true]
        | false =>
          simp only [Bool.false_eq_true, if_false]
          exact charEsc_sim hn y r' h.tail.tail
  · have hx5 : (x == 0x5C) = false := by simp [hbs]
    have hsx : (x == 0x28 || x == 0x29 || x == 0x5B || x == 0x5D || x == 0x7B || x == 0x7D
        || x == 0x2F || x == 0x2D || x == 0x7C) = isClassSetSyntaxChar x := by
      simp only [isClassSetSyntaxChar, hx5, Bool.or_false]
    rw [classSetChar_plain r hbs]
    cases h1 : isClassSetSyntaxChar x with
    | true =>
      simp only [if_true]
      unfold classSetCharacter
      simp only [hx5, Bool.false_eq_true, if_false, hsx, h1, if_true]
      exact isSyn_synErr _
    | false =>
      simp only [Bool.false_eq_true, if_false]
      rcases r with _ | ⟨n, r2⟩
      · unfold classSetCharacter
        simp [hx5, hsx, h1]
      · unfold classSetCharacter
        simp only [hx5, Bool.false_eq_true, if_false, hsx, h1, doublePunct_eq, List.head?]
        have hb : (some n == some x) = (n == x) := by
          by_cases hnx : n = x
          · subst hnx; simp
          · simp [hnx]
        simp only [hb]
        by_cases h2 : (isDoublePunctChar x && n == x) = true
        · simp only [h2, if_true]; exact isSyn_synErr _
        · have h2' : (isDoublePunctChar x && n == x) = false := by simpa using h2
          simp only [h2', Bool.false_eq_true, if_false]

/-- What a class-set character consumes is neutral at every depth. -/
theorem classSetChar_neutral (F : Feat) {s r' : List Nat} {v : Nat} (h : classSetChar s = some (v, r')) :
    ∃ t, s = t ++ r' ∧ t ≠ [] ∧ ∀ m, NeutralM F m t := by
  rcases s with _ | ⟨x, r⟩
  · simp [classSetChar] at h
  by_cases hbs : x = 0x5C
  · subst hbs
    rcases r with _ | ⟨y, r2⟩
    · simp [classSetChar] at h
    · rw [classSetChar_esc] at h
      cases hb : (y == 0x62) with
      | true =>
        simp only [hb, if_true, Option.some.injEq, Prod.mk.injEq] at h
        obtain ⟨_, rfl⟩ := h
        exact ⟨[0x5C, y], rfl, by simp, fun m => neutralM_esc F m y⟩
      | false =>
        simp only [hb, Bool.false_eq_true, if_false] at h
        cases hp : isClassSetReservedPunct y with
        | true =>
          simp only [hp, if_true, Option.some.injEq, Prod.mk.injEq] at h
          obtain ⟨_, rfl⟩ := h
          exact ⟨[0x5C, y], rfl, by simp, fun m => neutralM_esc F m y⟩
        | false =>
          simp only [hp, Bool.false_eq_true, if_false] at h
          have hall : ∀ m, ∃ t, r2 = t ++ r' ∧ NeutralM F m t := fun m => charEscapeU_neutral F m h
          obtain ⟨t, ht, _⟩ := hall 0
          refine ⟨[0x5C, y] ++ t, by rw [ht]; simp, by simp, fun m => ?_⟩
          obtain ⟨t', ht', hn'⟩ := hall m
          have : t' = t := by
            have := ht.symm.trans ht'
            exact (List.append_cancel_right this).symm
          subst this
          exact neutralM_append (neutralM_esc F m y) hn'
  · rw [classSetChar_plain r hbs] at h
    cases hs : isClassSetSyntaxChar x with
    | true => simp [hs] at h
    | false =>
      simp only [hs, Bool.false_eq_true, if_false] at h
      cases h2 : (isDoublePunctChar x && r.head? == some x) with
      | true => simp [h2] at h
      | false =>
        simp only [h2, Bool.false_eq_true, if_false, Option.some.injEq, Prod.mk.injEq] at h
        obtain ⟨_, rfl⟩ := h
        refine ⟨[x], rfl, by simp, fun m => neutralM_plain F m ?_⟩
        simp only [isClassSetSyntaxChar, Bool.or_eq_false_iff, beq_eq_false_iff_ne] at hs
        obtain ⟨⟨⟨⟨⟨⟨⟨⟨⟨a1, a2⟩, a3⟩, a4⟩, a5⟩, a6⟩, a7⟩, a8⟩, a9⟩, a10⟩ := hs
        exact ⟨a1, a2, a9, a3, a4, a10⟩

/-! ## `\\q{…}` -/

theorem classStringSet_ms : ∀ (alts : List (List Nat)) (set : ClassSet),
    (classStringSet alts set).mayContainStrings = (set.mayContainStrings || alts.any (fun a => a.length != 1)) := by
  intro alts
  induction alts with
  | nil => intro set; simp [classStringSet]
  | cons a rest ih =>
    intro set
    rcases a with _ | ⟨c, _ | ⟨c2, a3⟩⟩
    · rw [classStringSet]
      · simp only
        split <;> (rw [ih]; simp)
      · intro c h; cases h
    · rw [classStringSet, ih]; simp
    · rw [classStringSet]
      · simp only
        split <;> (rw [ih]; simp)
      · intro c h; cases h

theorem qGo_succ (fuel : Nat) (s : List Nat) (len : Nat) (ms : Bool) :
    qGo (fuel + 1) s len ms =
      match s with
      | 0x7D :: r => .ok (r, ms || len != 1)
      | 0x7C :: r => qGo fuel r 0 (ms || len != 1)
      | _ =>
        match classSetChar s with
        | none => .bad
        | some (_, r) => qGo fuel r (len + 1) ms := by
  conv => lhs; unfold qGo
  rfl

theorem csl_succ (hn : Bool) (fuel : Nat) (inp : List Nat) (alts : List (List Nat)) (alt : List Nat) :
    classStringLoop true hn (fuel + 1) inp alts alt =
      match inp with
      | [] => synErr "Unbalanced class set string disjunction"
      | c :: rest =>
        if c == 0x7D then .ok (alts ++ [alt], rest)
        else if c == 0x7C then classStringLoop true hn fuel rest (alts ++ [alt]) []
        else
          match classSetCharacter true hn inp with
          | .error e => .error e
          | .ok (ch, rest') => classStringLoop true hn fuel rest' alts (alt ++ [ch]) := by
  conv => lhs; unfold classStringLoop
  rfl

/-- The contents of `\\q{…}` up to and including the `}`: the two readers agree, and the grammar's
MayContainStrings is "some alternative is not a single character". -/
theorem qGo_sim (F : Feat) (hn : Bool) : ∀ (fuel : Nat) (s : List Nat) (len : Nat) (ms : Bool),
    s.length + 1 ≤ fuel → AllChar s → ∀ (f : Nat) (alts : List (List Nat)) (alt : List Nat), s.length + 1 ≤ f →
    alt.length = len → alts.any (fun a => a.length != 1) = ms →
    match qGo fuel s len ms with
    | .ok (r', ms') => (∃ alts', classStringLoop true hn f s alts alt = .ok (alts', r') ∧
          alts'.any (fun a => a.length != 1) = ms') ∧ ∃ t, s = t ++ r' ∧ ∀ m, NeutralM F (m + 1) t
    | .bad => IsSyn (classStringLoop true hn f s alts alt)
    | .fuel => False := by
  intro fuel
  induction fuel with
  | zero => intro s len ms h; omega
  | succ fuel ih =>
    intro s len ms hfu hch f alts alt hf hlen hms
    obtain ⟨f', rfl⟩ : ∃ f', f = f' + 1 := ⟨f - 1, by omega⟩
    rw [qGo_succ, csl_succ]
    have hfin : (alts ++ [alt]).any (fun a => a.length != 1) = (ms || len != 1) := by
      simp [List.any_append, hms, hlen]
    rcases s with _ | ⟨c, rest⟩
    · simp only [classSetChar]; exact isSyn_synErr _
    simp only [List.length_cons] at hfu hf
    by_cases hc1 : c = 0x7D
    · subst hc1
      simp only [beq_self_eq_true, if_true]
      exact ⟨⟨_, rfl, hfin⟩, [0x7D], rfl, fun m => neutralM_plain F (m + 1) (by refine ⟨?_, ?_, ?_, ?_, ?_, ?_⟩ <;> decide)⟩
    by_cases hc2 : c = 0x7C
    · subst hc2
      simp only [Nat.reduceBEq, Bool.false_eq_true, if_false, beq_self_eq_true, if_true]
      have := ih rest 0 (ms || len != 1) (by omega) hch.tail f' (alts ++ [alt]) [] (by omega) rfl hfin
      cases hq : qGo fuel rest 0 (ms || len != 1) with
      | fuel => rw [hq] at this; exact this
      | bad => rw [hq] at this; exact this
      | ok p =>
        obtain ⟨r', ms'⟩ := p
        rw [hq] at this
        obtain ⟨h1, t, ht, hnt⟩ := this
        refine ⟨h1, 0x7C :: t, by rw [ht]; rfl, fun m => ?_⟩
        exact neutralM_append (p := [0x7C])
          (neutralM_in F m (by decide) (by decide) (.inr (by decide))) (hnt m)
    have e1 : (c == 0x7D) = false := by simp [hc1]
    have e2 : (c == 0x7C) = false := by simp [hc2]
    have hm : (match c :: rest with
        | 0x7D :: r => R.ok (r, ms || len != 1)
        | 0x7C :: r => qGo fuel r 0 (ms || len != 1)
        | _ =>
          match classSetChar (c :: rest) with
          | none => .bad
          | some (_, r) => qGo fuel r (len + 1) ms) =
        match classSetChar (c :: rest) with
        | none => .bad
        | some (_, r) => qGo fuel r (len + 1) ms := by
      split
      · rename_i heq; cases heq; exact absurd rfl hc1
      · rename_i heq; cases heq; exact absurd rfl hc2
      · rfl
    rw [hm]
    simp only [e1, e2, Bool.false_eq_true, if_false]
    have hsim := classSetChar_sim hn (c :: rest) hch
    cases hcs : classSetChar (c :: rest) with
    | none =>
      rw [hcs] at hsim
      obtain ⟨msg, hm2⟩ := hsim
      simp only
      rw [hm2]; exact ⟨msg, rfl⟩
    | some p =>
      obtain ⟨v, r1⟩ := p
      rw [hcs] at hsim
      simp only at hsim ⊢
      rw [hsim]
      simp only
      obtain ⟨t1, ht1, hne, hnt1⟩ := classSetChar_neutral F hcs
      have hl1 : r1.length < (c :: rest).length := by
        have := congrArg List.length ht1
        rw [List.length_append] at this
        have : 0 < t1.length := List.length_pos_iff.2 hne
        omega
      simp only [List.length_cons] at hl1
      have hch1 : AllChar r1 := by rw [ht1] at hch; exact hch.append_right
      have := ih r1 (len + 1) ms (by omega) hch1 f' alts (alt ++ [v]) (by omega) (by simp [hlen]) hms
      cases hq : qGo fuel r1 (len + 1) ms with
      | fuel => rw [hq] at this; exact this
      | bad => rw [hq] at this; exact this
      | ok p =>
        obtain ⟨r', ms'⟩ := p
        rw [hq] at this
        obtain ⟨h1, t, ht, hnt⟩ := this
        exact ⟨h1, t1 ++ t, by rw [ht1, ht]; simp, fun m => neutralM_append (hnt1 (m + 1)) (hnt m)⟩


/-! ### `may_contain_strings` through the set operations -/

theorem close_mcs (ic : Bool) (op : Operand) : (closeClassSetOperand ic op).mayContainStrings = op.mayContainStrings := by
  unfold closeClassSetOperand
  cases ic with
  | false => rfl
  | true => cases op <;> rfl

theorem union_mcs (cs : ClassSet) (op : Operand) :
    (cs.unionOperand op).mayContainStrings = (cs.mayContainStrings || op.mayContainStrings) := by
  cases op <;> simp [ClassSet.unionOperand, Operand.mayContainStrings]

theorem inter_mcs (cs : ClassSet) (op : Operand) :
    (cs.intersectOperand op).mayContainStrings = (cs.mayContainStrings && op.mayContainStrings) := by
  cases op <;> simp [ClassSet.intersectOperand, Operand.mayContainStrings]

theorem sub_mcs (cs : ClassSet) (op : Operand) :
    (cs.subtractOperand op).mayContainStrings = cs.mayContainStrings := by
  cases op <;> simp [ClassSet.subtractOperand]

/-! ### Unfolding the grammar's recognizers -/

theorem vOperand_nested (c : Cfg) (k : Nat) (r : List Nat) : vOperand c (k + 1) (0x5B :: r) =
    match vClass c k r with
    | .ok (r', ms) => .ok (r', ms, none)
    | .bad => .bad
    | .fuel => .fuel := by
  conv => lhs; unfold vOperand
  rfl

theorem vOperand_q (c : Cfg) (k : Nat) (r : List Nat) : vOperand c (k + 1) (0x5C :: 0x71 :: 0x7B :: r) =
    match qGo (r.length + 1) r 0 false with
    | .ok (r', ms) => .ok (r', ms, none)
    | .bad => .bad
    | .fuel => .fuel := by
  conv => lhs; unfold vOperand
  rfl

theorem vOperand_esc (c : Cfg) (k : Nat) {x : Nat} (r : List Nat) (hq : ∀ r', ¬ (x = 0x71 ∧ r = 0x7B :: r')) :
    vOperand c (k + 1) (0x5C :: x :: r) =
      if isClassEscLetter x then .ok (r, false, none)
      else if x == 0x70 || x == 0x50 then
        match propEscape c (x == 0x50) r with
        | .ok (r', ms) => .ok (r', ms, none)
        | .bad => .bad
        | .fuel => .fuel
      else
        match classSetChar (0x5C :: x :: r) with
        | some (v, r') => .ok (r', false, some v)
        | none => .bad := by
  conv => lhs; unfold vOperand
  split
  · rename_i heq; cases heq
  · rename_i r' heq; cases heq; exact absurd ⟨rfl, rfl⟩ (hq r')
  · rename_i heq; cases heq; rfl
  · rename_i h1 h2 h3; exact absurd rfl (h3 _ _)

theorem vOperand_plain (c : Cfg) (k : Nat) {s : List Nat} (h1 : ∀ r, s ≠ 0x5B :: r) (h2 : ∀ x r, s ≠ 0x5C :: x :: r) :
    vOperand c (k + 1) s =
      match classSetChar s with
      | some (v, r') => .ok (r', false, some v)
      | none => .bad := by
  conv => lhs; unfold vOperand
  split
  · rename_i heq; exact absurd rfl (h1 _)
  · rename_i heq; exact absurd rfl (h2 _ _)
  · rename_i heq; exact absurd rfl (h2 _ _)
  · rfl



/-! ### Unfolding the crate's functions -/

/-- The result of a nested class, given the result of its contents. -/
def nestedResult (fl : Flags) (neg : Bool) (result : ClassSet) : ClassSet :=
  if neg then
    let result := result.absorbSingleCharacters
    let cps := if fl.icase then Fold.addIcaseCodePoints result.cps else result.cps
    { result with cps := CPS.inverted cps }
  else result

theorem nestedResult_mcs (fl : Flags) (neg : Bool) (result : ClassSet) :
    (nestedResult fl neg result).mayContainStrings = result.mayContainStrings := by
  unfold nestedResult
  cases neg <;> simp [ClassSet.absorbSingleCharacters]

theorem cso_nested (fl : Flags) (hn : Bool) (f : Nat) (cst : CSt) {rest : List Nat} (neg : Bool) (body : List Nat)
    (hin : cst.inp = 0x5B :: rest) (hd : cst.depth + 1 ≤ Gen.MAX_NESTING_DEPTH)
    (hb : (neg = true ∧ rest = 0x5E :: body) ∨ (neg = false ∧ rest = body ∧ ∀ r, rest ≠ 0x5E :: r)) :
    classSetOperand fl hn (f + 1) cst =
      match classSetExpression fl hn f { inp := body, depth := cst.depth + 1 } with
      | .error e => .error e
      | .ok (result, st) =>
        if neg && result.mayContainStrings then synErr "Negated class may not contain strings"
        else .ok (.cls (nestedResult fl neg result), { st with depth := st.depth - 1 }) := by
  conv => lhs; unfold classSetOperand
  simp only [hin, beq_self_eq_true, if_true]
  have : ¬ (cst.depth + 1 > Gen.MAX_NESTING_DEPTH) := by omega
  simp only [this, if_false]
  rcases hb with ⟨hneg, hrb⟩ | ⟨hneg, hrb, hnc⟩
  · subst hneg; subst hrb
    simp only [nestedResult]; rfl
  · subst hneg; subst hrb
    simp [hnc, nestedResult]
    rfl


/-- One union item on the crate's side: an operand, and — if a `-` follows — the upper end of a range
(the inline code shared by `consume_class_set_expression` and its `Union` loop). -/
def itemU (fl : Flags) (hn : Bool) (f : Nat) (cst : CSt) (result : ClassSet) : Res (ClassSet × CSt) :=
  match classSetOperand fl hn f cst with
  | .error e => .error e
  | .ok (operand, st) =>
    match st.inp with
    | 0x2D :: rest1 =>
      match operand with
      | .char lo =>
        match classSetOperand fl hn f { st with inp := rest1 } with
        | .error e => .error e
        | .ok (.char hi, st) =>
          if lo > hi then synErr "Invalid class set range"
          else .ok ({ result with cps := CPS.add result.cps { first := lo, last := hi } }, st)
        | .ok (_, _) => synErr "Invalid class set range"
      | _ => synErr "Invalid class set range"
    | _ => .ok (result.unionOperand operand, st)

theorem csu_succ (fl : Flags) (hn : Bool) (f : Nat) (cst : CSt) (result : ClassSet) :
    classSetUnion fl hn (f + 1) cst result =
      match cst.inp with
      | [] => synErr "Unbalanced class set bracket"
      | c :: rest =>
        if c == 0x5D then .ok (result, { cst with inp := rest })
        else
          match itemU fl hn f cst result with
          | .error e => .error e
          | .ok (result', st') => classSetUnion fl hn f st' result' := by
  conv => lhs; unfold classSetUnion
  unfold itemU
  cases cst.inp with
  | nil => rfl
  | cons c rest =>
    simp only
    split
    · rfl
    · cases h1 : classSetOperand fl hn f cst with
      | error e => rfl
      | ok p =>
        obtain ⟨operand, st⟩ := p
        simp only
        rcases hi : st.inp with _ | ⟨d, rest1⟩
        · rfl
        · by_cases hd : d = 0x2D
          · subst hd
            simp only
            cases operand with
            | char lo =>
              simp only
              cases h2 : classSetOperand fl hn f { st with inp := rest1 } with
              | error e => rfl
              | ok p2 =>
                obtain ⟨op2, st2⟩ := p2
                cases op2 with
                | char hi =>
                  simp only
                  split <;> rfl
                | esc _ => rfl
                | cls _ => rfl
                | strs _ => rfl
            | esc _ => rfl
            | cls _ => rfl
            | strs _ => rfl
          · simp [hd]


theorem cse_nil (fl : Flags) (hn : Bool) (f : Nat) (cst : CSt) (hin : cst.inp = []) :
    classSetExpression fl hn (f + 1) cst = synErr "Unbalanced class set bracket" := by
  conv => lhs; unfold classSetExpression
  simp only [hin]

theorem cse_close (fl : Flags) (hn : Bool) (f : Nat) (cst : CSt) {rest0 : List Nat} (hin : cst.inp = 0x5D :: rest0) :
    classSetExpression fl hn (f + 1) cst = .ok ({}, { cst with inp := rest0 }) := by
  conv => lhs; unfold classSetExpression
  simp only [hin, beq_self_eq_true, if_true]

theorem cse_err (fl : Flags) (hn : Bool) (f : Nat) (cst : CSt) {c0 : Nat} {rest0 : List Nat}
    (hin : cst.inp = c0 :: rest0) (hc : c0 ≠ 0x5D) {e : ParseError} (h : classSetOperand fl hn f cst = .error e) :
    classSetExpression fl hn (f + 1) cst = .error e := by
  conv => lhs; unfold classSetExpression
  have : (c0 == 0x5D) = false := by simp [hc]
  simp only [hin, this, Bool.false_eq_true, if_false, h]

/-- After the first operand. -/
theorem cse_first (fl : Flags) (hn : Bool) (f : Nat) (cst : CSt) {c0 : Nat} {rest0 : List Nat}
    (hin : cst.inp = c0 :: rest0) (hc : c0 ≠ 0x5D) {first : Operand} {st : CSt}
    (h : classSetOperand fl hn f cst = .ok (first, st)) :
    (st.inp = [] → classSetExpression fl hn (f + 1) cst = synErr "Unbalanced class set bracket") ∧
    (∀ rest1, st.inp = 0x5D :: rest1 →
      classSetExpression fl hn (f + 1) cst = .ok (({} : ClassSet).unionOperand first, { st with inp := rest1 })) ∧
    (∀ rest2, st.inp = 0x26 :: 0x26 :: rest2 →
      classSetExpression fl hn (f + 1) cst = classSetIntersection fl hn f { st with inp := rest2 }
        (({} : ClassSet).unionOperand (closeClassSetOperand fl.icase first))) ∧
    (∀ rest2, st.inp = 0x2D :: 0x2D :: rest2 →
      classSetExpression fl hn (f + 1) cst = classSetSubtraction fl hn f { st with inp := rest2 }
        (({} : ClassSet).unionOperand (closeClassSetOperand fl.icase first))) ∧
    (∀ c1 rest1, st.inp = c1 :: rest1 → c1 ≠ 0x5D → (∀ r, st.inp ≠ 0x26 :: 0x26 :: r) →
      (∀ r, st.inp ≠ 0x2D :: 0x2D :: r) →
      classSetExpression fl hn (f + 1) cst =
        match itemU fl hn f cst {} with
        | .error e => .error e
        | .ok (res', st') => classSetUnion fl hn f st' res') := by
  have hc' : (c0 == 0x5D) = false := by simp [hc]
  have e0 : classSetExpression fl hn (f + 1) cst =
      match st.inp with
      | [] => synErr "Unbalanced class set bracket"
      | c1 :: rest1 =>
        if c1 == 0x5D then .ok (({} : ClassSet).unionOperand first, { st with inp := rest1 })
        else if c1 == 0x26 then
          match rest1 with
          | 0x26 :: rest2 =>
            classSetIntersection fl hn f { st with inp := rest2 }
              (({} : ClassSet).unionOperand (closeClassSetOperand fl.icase first))
          | _ => classSetUnion fl hn f st (({} : ClassSet).unionOperand first)
        else if c1 == 0x2D then
          match rest1 with
          | 0x2D :: rest2 =>
            classSetSubtraction fl hn f { st with inp := rest2 }
              (({} : ClassSet).unionOperand (closeClassSetOperand fl.icase first))
          | _ =>
            match (generalizing := false) first with
            | .char lo =>
              match classSetOperand fl hn f { st with inp := rest1 } with
              | .error e => .error e
              | .ok (.char hi, st) =>
                if lo > hi then synErr "Invalid class set range"
                else
                  classSetUnion fl hn f st
                    { ({} : ClassSet) with cps := CPS.add ({} : ClassSet).cps { first := lo, last := hi } }
              | .ok (_, _) => synErr "Invalid class set range"
            | _ => synErr "Invalid class set range"
        else classSetUnion fl hn f st (({} : ClassSet).unionOperand first) := by
    conv => lhs; unfold classSetExpression
    simp only [hin, hc', Bool.false_eq_true, if_false, h]
    rfl
  refine ⟨fun h0 => ?_, fun rest1 h0 => ?_, fun rest2 h0 => ?_, fun rest2 h0 => ?_, fun c1 rest1 h0 hc1 hna hns => ?_⟩
  · rw [e0, h0]
  · rw [e0, h0]; simp
  · rw [e0, h0]; simp
  · rw [e0, h0]; simp
  · rw [e0, h0]
    have hc1' : (c1 == 0x5D) = false := by simp [hc1]
    simp only [hc1', Bool.false_eq_true, if_false]
    unfold itemU
    rw [h]
    simp only [h0]
    by_cases ha : c1 = 0x26
    · subst ha
      have : ∀ r, rest1 ≠ 0x26 :: r := fun r e => hna r (by rw [h0, e])
      simp [this]
    · have ha' : (c1 == 0x26) = false := by simp [ha]
      simp only [ha', Bool.false_eq_true, if_false]
      by_cases hd : c1 = 0x2D
      · subst hd
        have : ∀ r, rest1 ≠ 0x2D :: r := fun r e => hns r (by rw [h0, e])
        simp only [beq_self_eq_true, if_true]
        cases first with
        | char lo =>
          simp only
          cases h2 : classSetOperand fl hn f { st with inp := rest1 } with
          | error e => rfl
          | ok p2 =>
            obtain ⟨op2, st2⟩ := p2
            cases op2 with
            | char hi =>
              simp only
              split <;> rfl
            | esc _ => rfl
            | cls _ => rfl
            | strs _ => rfl
        | esc _ => rfl
        | cls _ => rfl
        | strs _ => rfl
      · have hd' : (c1 == 0x2D) = false := by simp [hd]
        simp [hd', hd]

theorem csi_succ (fl : Flags) (hn : Bool) (f : Nat) (cst : CSt) (result : ClassSet) :
    classSetIntersection fl hn (f + 1) cst result =
      if (match cst.inp with | c :: _ => c == 0x26 | [] => false) then
        synErr "Unexpected character in class set intersection"
      else
      match classSetOperand fl hn f cst with
      | .error e => .error e
      | .ok (operand, st) =>
        let result := result.intersectOperand (closeClassSetOperand fl.icase operand)
        match st.inp with
        | [] => synErr "Unbalanced class set bracket"
        | c :: rest =>
          if c == 0x5D then .ok (result, { st with inp := rest })
          else if c == 0x26 then
            match rest with
            | 0x26 :: rest2 => classSetIntersection fl hn f { st with inp := rest2 } result
            | _ => synErr "Unbalanced class set bracket"
          else synErr "Unexpected character in class set intersection" := by
  conv => lhs; unfold classSetIntersection
  rfl

theorem css_succ (fl : Flags) (hn : Bool) (f : Nat) (cst : CSt) (result : ClassSet) :
    classSetSubtraction fl hn (f + 1) cst result =
      match classSetOperand fl hn f cst with
      | .error e => .error e
      | .ok (operand, st) =>
        let result := result.subtractOperand (closeClassSetOperand fl.icase operand)
        match st.inp with
        | [] => synErr "Unbalanced class set bracket"
        | c :: rest =>
          if c == 0x5D then .ok (result, { st with inp := rest })
          else if c == 0x2D then
            match rest with
            | 0x2D :: rest2 => classSetSubtraction fl hn f { st with inp := rest2 } result
            | _ => synErr "Unbalanced class set bracket"
          else synErr "Unexpected character in class set subtraction" := by
  conv => lhs; unfold classSetSubtraction
  rfl


/-! ### More unfoldings of `consume_class_set_operand` -/

theorem cso_nil (fl : Flags) (hn : Bool) (f : Nat) (cst : CSt) (hin : cst.inp = []) :
    classSetOperand fl hn (f + 1) cst = synErr "Empty class set operand" := by
  conv => lhs; unfold classSetOperand
  simp only [hin]

theorem cso_bs_end (fl : Flags) (hn : Bool) (f : Nat) (cst : CSt) (hin : cst.inp = [0x5C]) :
    classSetOperand fl hn (f + 1) cst = synErr "Incomplete class set escape" := by
  conv => lhs; unfold classSetOperand
  simp [hin]

/-- Operands that are single characters (possibly escaped). -/
theorem cso_char (fl : Flags) (hn : Bool) (f : Nat) (cst : CSt) {s : List Nat} (hin : cst.inp = s)
    (h1 : ∀ r, s ≠ 0x5B :: r)
    (h2 : ∀ x r, s = 0x5C :: x :: r → x ≠ 0x71 ∧ ESG.isClassEscLetter x = false ∧ x ≠ 0x70 ∧ x ≠ 0x50)
    (hne : s ≠ []) (hbe : s ≠ [0x5C]) :
    classSetOperand fl hn (f + 1) cst =
      match classSetCharacter fl.unicode hn s with
      | .error e => .error e
      | .ok (c, rest1) => .ok (.char c, { cst with inp := rest1 }) := by
  conv => lhs; unfold classSetOperand
  rcases s with _ | ⟨cp, rest⟩
  · exact absurd rfl hne
  · simp only [hin]
    by_cases hb : cp = 0x5B
    · subst hb; exact absurd rfl (h1 rest)
    · have e1 : (cp == 0x5B) = false := by simp [hb]
      simp only [e1, Bool.false_eq_true, if_false]
      by_cases hbs : cp = 0x5C
      · subst hbs
        rcases rest with _ | ⟨e, rest1⟩
        · exact absurd rfl hbe
        · obtain ⟨a1, a2, a3, a4⟩ := h2 e rest1 rfl
          simp only [ESG.isClassEscLetter, Bool.or_eq_false_iff, beq_eq_false_iff_ne] at a2
          obtain ⟨⟨⟨⟨⟨c1, c2⟩, c3⟩, c4⟩, c5⟩, c6⟩ := a2
          simp only [beq_self_eq_true, if_true]
          have d : (e == 0x71) = false ∧ (e == 0x64) = false ∧ (e == 0x44) = false ∧ (e == 0x73) = false ∧
              (e == 0x53) = false ∧ (e == 0x77) = false ∧ (e == 0x57) = false ∧ (e == 0x70) = false ∧
              (e == 0x50) = false := by simp [a1, c1, c2, c3, c4, c5, c6, a3, a4]
          simp only [d.1, d.2.1, d.2.2.1, d.2.2.2.1, d.2.2.2.2.1, d.2.2.2.2.2.1, d.2.2.2.2.2.2.1, d.2.2.2.2.2.2.2.1,
            d.2.2.2.2.2.2.2.2, Bool.false_eq_true, if_false]
          unfold classSetCharacter
          simp only [beq_self_eq_true, if_true]
          cases hb2 : (e == 0x62) with
          | true => simp only [if_true]
          | false =>
            simp only [Bool.false_eq_true, if_false]
            cases hp : isClassSetReservedPunctuator e with
            | true => simp only [if_true]
            | false =>
              simp only [Bool.false_eq_true, if_false]
              cases characterEscape fl.unicode hn (e :: rest1) with
              | error e => rfl
              | ok p => rfl
      · have e2 : (cp == 0x5C) = false := by simp [hbs]
        simp only [e2, Bool.false_eq_true, if_false]
        rfl

theorem cso_clsesc (fl : Flags) (hn : Bool) (f : Nat) (cst : CSt) {x : Nat} {r : List Nat}
    (hin : cst.inp = 0x5C :: x :: r) (hx : ESG.isClassEscLetter x = true) :
    ∃ cps, classSetOperand fl hn (f + 1) cst = .ok (.esc cps, { cst with inp := r }) := by
  conv => enter [1, cps, 1]; unfold classSetOperand
  simp only [ESG.isClassEscLetter, Bool.or_eq_true, beq_iff_eq] at hx
  rcases hx with ((((h | h) | h) | h) | h) | h <;> subst h <;> simp [hin]

theorem cso_q (fl : Flags) (hn : Bool) (f : Nat) (cst : CSt) {r2 : List Nat}
    (hin : cst.inp = 0x5C :: 0x71 :: 0x7B :: r2) :
    classSetOperand fl hn (f + 1) cst =
      match classStringLoop fl.unicode hn (r2.length + 1) r2 [] [] with
      | .error e => .error e
      | .ok (alts, rest3) => .ok (.cls (classStringSet alts {}), { cst with inp := rest3 }) := by
  conv => lhs; unfold classSetOperand
  simp [hin]
  rfl

theorem cso_q_bad (fl : Flags) (hn : Bool) (f : Nat) (cst : CSt) {r : List Nat}
    (hin : cst.inp = 0x5C :: 0x71 :: r) (hr : ∀ r2, r ≠ 0x7B :: r2) :
    IsSyn (classSetOperand fl hn (f + 1) cst) := by
  unfold classSetOperand
  simp only [hin, Nat.reduceBEq, Bool.false_eq_true, if_false, beq_self_eq_true, if_true]
  exact isSyn_synErr _

theorem cso_prop (fl : Flags) (hn : Bool) (f : Nat) (cst : CSt) {x : Nat} {r : List Nat}
    (hin : cst.inp = 0x5C :: x :: r) (hx : x = 0x70 ∨ x = 0x50) :
    classSetOperand fl hn (f + 1) cst =
      match propertyEscape fl.unicodeSets r with
      | .error e => .error e
      | .ok (.charClass ivs, rest2) =>
        .ok (.esc (if x == 0x50 then CPS.inverted (if fl.icase then Fold.addIcaseCodePoints ivs else ivs) else ivs),
          { cst with inp := rest2 })
      | .ok (.stringSet strs, rest2) =>
        if x == 0x50 then synErr "Invalid character escape" else .ok (.strs strs, { cst with inp := rest2 }) := by
  conv => lhs; unfold classSetOperand
  rcases hx with rfl | rfl
  · simp [hin]
    rfl
  · simp [hin]
    rfl



/-! ## The simulation -/

/-- The setting: class sets admitted, the flag `v`, the grammar's tables are the crate's. -/
structure VCtx (F : Feat) (c : Cfg) (fl : Flags) : Prop where
  vk : F.vk = true
  ct : c.t = tabs
  cv : c.v = true
  fu : fl.unicode = true
  fv : fl.unicodeSets = true

/-- The crate's operand against the grammar's: same MayContainStrings, and a ClassSetCharacter on one
side iff on the other, with the same value. -/
structure OpRel (ms : Bool) (ov : Option Nat) (op : Operand) : Prop where
  ms : op.mayContainStrings = ms
  ch : ∀ v, ov = some v → op = .char v
  nch : ov = none → ∀ v, op ≠ .char v

/-- Neutral at every bracket depth ≥ 1. -/
def NeutIn (F : Feat) (t : List Nat) : Prop := ∀ d, NeutralM F (d + 1) t

theorem neutIn_append {F : Feat} {p q : List Nat} (hp : NeutIn F p) (hq : NeutIn F q) : NeutIn F (p ++ q) :=
  fun d => neutralM_append (hp d) (hq d)

theorem neutIn_plain (F : Feat) {x : Nat} (h : Plain x) : NeutIn F [x] := fun d => neutralM_plain F (d + 1) h

theorem neutIn_of_all {F : Feat} {t : List Nat} (h : ∀ m, NeutralM F m t) : NeutIn F t := fun d => h (d + 1)

section
variable (F : Feat) (c : Cfg) (fl : Flags) (hn : Bool)

def SVO (n : Nat) : Prop :=
  ∀ s, 4 * s.length + 1 ≤ n → AllChar s → ∀ (f : Nat) (cst : CSt), 2 * s.length + 1 ≤ f → cst.inp = s →
    cst.depth + brk s ≤ 256 →
    match vOperand c n s with
    | .ok (r', ms, ov) =>
      (∃ op cst', classSetOperand fl hn f cst = .ok (op, cst') ∧ cst'.inp = r' ∧ cst'.depth = cst.depth ∧
        OpRel ms ov op) ∧ ∃ t, s = t ++ r' ∧ t ≠ [] ∧ NeutIn F t
    | .bad => IsSyn (classSetOperand fl hn f cst)
    | .fuel => False

/-- `vClass` (after the `[`, with the optional `^`) against `consume_class_set_expression` on the
contents. -/
def SVK (n : Nat) : Prop :=
  ∀ s, 4 * s.length + 4 ≤ n → AllChar s → ∀ (neg : Bool) (body : List Nat),
    ((neg = true ∧ s = 0x5E :: body) ∨ (neg = false ∧ s = body ∧ ∀ r, s ≠ 0x5E :: r)) →
    ∀ (f : Nat) (cst : CSt), 2 * body.length + 2 ≤ f → cst.inp = body → cst.depth + brk body ≤ 256 →
    match vClass c n s with
    | .ok (r', ms) =>
      (∃ cs cst', classSetExpression fl hn f cst = .ok (cs, cst') ∧ cst'.inp = r' ∧ cst'.depth = cst.depth ∧
        cs.mayContainStrings = ms ∧ (neg = true → ms = false)) ∧ ∃ t, s = t ++ 0x5D :: r' ∧ NeutIn F t
    | .bad => IsSyn (classSetExpression fl hn f cst) ∨
        (neg = true ∧ ∃ cs cst', classSetExpression fl hn f cst = .ok (cs, cst') ∧ cs.mayContainStrings = true)
    | .fuel => False

def SVC (n : Nat) : Prop :=
  ∀ s, 4 * s.length + 3 ≤ n → AllChar s → ∀ (f : Nat) (cst : CSt), 2 * s.length + 2 ≤ f → cst.inp = s →
    cst.depth + brk s ≤ 256 →
    match vContents c n s with
    | .ok (r', ms) =>
      (∃ cs cst', classSetExpression fl hn f cst = .ok (cs, cst') ∧ cst'.inp = r' ∧ cst'.depth = cst.depth ∧
        cs.mayContainStrings = ms) ∧ ∃ t, s = t ++ 0x5D :: r' ∧ NeutIn F t
    | .bad => IsSyn (classSetExpression fl hn f cst)
    | .fuel => False

def SVU (n : Nat) : Prop :=
  ∀ s ms, 4 * s.length + 3 ≤ n → AllChar s → ∀ (f : Nat) (cst : CSt) (result : ClassSet), 2 * s.length + 2 ≤ f →
    cst.inp = s → cst.depth + brk s ≤ 256 → result.mayContainStrings = ms →
    match vUnion c n s ms with
    | .ok (r', ms') =>
      (∃ cs cst', classSetUnion fl hn f cst result = .ok (cs, cst') ∧ cst'.inp = r' ∧ cst'.depth = cst.depth ∧
        cs.mayContainStrings = ms') ∧ ∃ t, s = t ++ 0x5D :: r' ∧ NeutIn F t
    | .bad => IsSyn (classSetUnion fl hn f cst result)
    | .fuel => False

/-- `vInter` on `&& rest` against the crate's loop on `rest` (the crate consumes the `&&` before it
enters / re-enters its loop). -/
def SVI (n : Nat) : Prop :=
  ∀ r ms, 4 * (r.length + 2) + 3 ≤ n → AllChar r → ∀ (f : Nat) (cst : CSt) (result : ClassSet), 2 * r.length + 2 ≤ f →
    cst.inp = r → cst.depth + brk r ≤ 256 → result.mayContainStrings = ms →
    match vInter c n (0x26 :: 0x26 :: r) ms with
    | .ok (r', ms') =>
      (∃ cs cst', classSetIntersection fl hn f cst result = .ok (cs, cst') ∧ cst'.inp = r' ∧
        cst'.depth = cst.depth ∧ cs.mayContainStrings = ms') ∧ ∃ t, r = t ++ 0x5D :: r' ∧ NeutIn F t
    | .bad => IsSyn (classSetIntersection fl hn f cst result)
    | .fuel => False

def SVS (n : Nat) : Prop :=
  ∀ r ms, 4 * (r.length + 2) + 3 ≤ n → AllChar r → ∀ (f : Nat) (cst : CSt) (result : ClassSet), 2 * r.length + 2 ≤ f →
    cst.inp = r → cst.depth + brk r ≤ 256 → result.mayContainStrings = ms →
    match vSub c n (0x2D :: 0x2D :: r) ms with
    | .ok (r', ms') =>
      (∃ cs cst', classSetSubtraction fl hn f cst result = .ok (cs, cst') ∧ cst'.inp = r' ∧
        cst'.depth = cst.depth ∧ cs.mayContainStrings = ms') ∧ ∃ t, r = t ++ 0x5D :: r' ∧ NeutIn F t
    | .bad => IsSyn (classSetSubtraction fl hn f cst result)
    | .fuel => False

end



theorem brk_cons_br (r : List Nat) : brk (0x5B :: r) = brk r + 1 := by simp [brk]
theorem brk_cons_ne {c : Nat} (r : List Nat) (h : c ≠ 0x5B) : brk (c :: r) = brk r := by simp [brk, h]

theorem plain_caret : Plain 0x5E := by refine ⟨?_, ?_, ?_, ?_, ?_, ?_⟩ <;> decide

/-- The operand, from the nested class one level down. -/
theorem svo_step {F : Feat} {c : Cfg} {fl : Flags} (X : VCtx F c fl) (hn : Bool) {n : Nat}
    (hK : SVK F c fl hn n) : SVO F c fl hn (n + 1) := by
  intro s hb hch f cst hf hin hdep
  obtain ⟨f', rfl⟩ : ∃ f', f = f' + 1 := ⟨f - 1, by omega⟩
  rcases s with _ | ⟨x, rest⟩
  · -- nothing
    rw [vOperand_plain c n (by intro r h; cases h) (by intro x r h; cases h)]
    simp only [classSetChar]
    rw [cso_nil fl hn f' cst hin]; exact isSyn_synErr _
  by_cases hx : x = 0x5B
  · -- a nested class
    subst hx
    rw [vOperand_nested]
    simp only [List.length_cons] at hb hf
    rw [brk_cons_br] at hdep
    have hd : cst.depth + 1 ≤ Gen.MAX_NESTING_DEPTH := by simp only [Gen.MAX_NESTING_DEPTH]; omega
    have hchr : AllChar rest := hch.tail
    -- the optional `^`
    obtain ⟨neg, body, hnb⟩ : ∃ neg body, (neg = true ∧ rest = 0x5E :: body) ∨
        (neg = false ∧ rest = body ∧ ∀ r, rest ≠ 0x5E :: r) := by
      by_cases hc : ∃ b, rest = 0x5E :: b
      · obtain ⟨b, hb'⟩ := hc; exact ⟨true, b, .inl ⟨rfl, hb'⟩⟩
      · exact ⟨false, rest, .inr ⟨rfl, rfl, fun r e => hc ⟨r, e⟩⟩⟩
    have hbl : body.length ≤ rest.length := by
      rcases hnb with ⟨_, h⟩ | ⟨_, h, _⟩ <;> (rw [h]; simp)
    have hbb : brk body ≤ brk rest := by
      rcases hnb with ⟨_, h⟩ | ⟨_, h, _⟩
      · rw [h, brk_cons_ne _ (by decide)]; exact Nat.le_refl _
      · rw [h]; exact Nat.le_refl _
    have hk := hK rest (by omega) hchr neg body hnb f' { inp := body, depth := cst.depth + 1 } (by omega) rfl
      (by simp only; omega)
    rw [cso_nested fl hn f' cst neg body hin hd hnb]
    cases hv : vClass c n rest with
    | fuel => rw [hv] at hk; exact hk
    | bad =>
      rw [hv] at hk
      rcases hk with ⟨msg, hm⟩ | ⟨hneg, cs, cst', hm, hms⟩
      · simp only; rw [hm]; exact ⟨msg, rfl⟩
      · simp only; rw [hm]; simp only [hneg, hms, Bool.and_self, if_true]; exact isSyn_synErr _
    | ok p =>
      obtain ⟨r', ms⟩ := p
      rw [hv] at hk
      obtain ⟨⟨cs, cst', hm, h1, h2, h3, h4⟩, t, ht, hnt⟩ := hk
      simp only at h2 ⊢
      rw [hm]
      have hng : (neg && cs.mayContainStrings) = false := by
        cases neg with
        | false => rfl
        | true => rw [h3, h4 rfl]; rfl
      simp only [hng, Bool.false_eq_true, if_false]
      refine ⟨⟨_, _, rfl, h1, by simp only; omega, ⟨by simp only [Operand.mayContainStrings]; rw [nestedResult_mcs, h3],
        (fun v h => by cases h), (fun _ v h => by cases h)⟩⟩, 0x5B :: (t ++ [0x5D]), by rw [ht]; simp, by simp, ?_⟩
      intro d
      exact neutral_nested X.vk (hnt (d + 1))
  by_cases hbs : x = 0x5C
  · subst hbs
    rcases rest with _ | ⟨y, r⟩
    · -- a lone backslash
      rw [vOperand_plain c n (by intro r h; cases h) (by intro x r h; cases h)]
      simp only [classSetChar]
      rw [cso_bs_end fl hn f' cst hin]; exact isSyn_synErr _
    simp only [List.length_cons] at hb hf
    have hchr : AllChar r := hch.tail.tail
    have hpfx : ∀ {q r' : List Nat}, r = q ++ r' → (∀ z ∈ q, Plain z) →
        ∃ t, 0x5C :: y :: r = t ++ r' ∧ t ≠ [] ∧ NeutIn F t := by
      intro q r' hq hqp
      refine ⟨[0x5C, y] ++ q, by rw [hq]; simp, by simp, fun d => ?_⟩
      exact neutralM_append (neutralM_esc F (d + 1) y) (neutralM_plains F (d + 1) hqp)
    by_cases hq : y = 0x71
    · subst hq
      by_cases hbr : ∃ r2, r = 0x7B :: r2
      · -- `\\q{…}`
        obtain ⟨r2, rfl⟩ := hbr
        rw [vOperand_q, cso_q fl hn f' cst hin, X.fu]
        have := qGo_sim F hn (r2.length + 1) r2 0 false (Nat.le_refl _) hchr.tail (r2.length + 1) [] []
          (Nat.le_refl _) rfl rfl
        cases hqg : qGo (r2.length + 1) r2 0 false with
        | fuel => rw [hqg] at this; exact this
        | bad =>
          rw [hqg] at this
          obtain ⟨msg, hm⟩ := this
          simp only; rw [hm]; exact ⟨msg, rfl⟩
        | ok p =>
          obtain ⟨r', ms⟩ := p
          rw [hqg] at this
          obtain ⟨⟨alts', hm, hms⟩, t, ht, hnt⟩ := this
          simp only; rw [hm]
          refine ⟨⟨_, _, rfl, rfl, rfl, ⟨?_, (fun v h => by cases h), (fun _ v h => by cases h)⟩⟩,
            [0x5C, 0x71, 0x7B] ++ t, by rw [ht]; simp, by simp, fun d => ?_⟩
          · simp only [Operand.mayContainStrings]
            rw [classStringSet_ms, hms]; rfl
          · refine neutralM_append (p := [0x5C, 0x71]) (neutralM_esc F (d + 1) 0x71)
              (neutralM_append (p := [0x7B]) (neutralM_plain F (d + 1) (by refine ⟨?_, ?_, ?_, ?_, ?_, ?_⟩ <;> decide))
                (hnt d))
      · -- `\\q` without `{`
        have hnb : ∀ r2, r ≠ 0x7B :: r2 := fun r2 e => hbr ⟨r2, e⟩
        rw [vOperand_esc c n r (fun r' h => hnb r' h.2)]
        have : classSetChar (0x5C :: 0x71 :: r) = none := by
          rw [classSetChar_esc]
          simp [isClassSetReservedPunct, charEscapeU, controlEscape, ESG.isSyntaxChar]
        simp only [ESG.isClassEscLetter, Nat.reduceBEq, Bool.or_self, Bool.false_eq_true, if_false, this]
        exact cso_q_bad fl hn f' cst hin hnb
    rw [vOperand_esc c n r (fun r' h => hq h.1)]
    by_cases hcl : ESG.isClassEscLetter y = true
    · -- a class escape
      rw [if_pos hcl]
      obtain ⟨cps, hm⟩ := cso_clsesc fl hn f' cst hin hcl
      exact ⟨⟨_, _, hm, rfl, rfl, ⟨rfl, (fun v h => by cases h), (fun _ v h => by cases h)⟩⟩,
        hpfx (q := []) (r' := r) rfl (by simp)⟩
    rw [if_neg hcl]
    have hcl' : ESG.isClassEscLetter y = false := by simpa using hcl
    by_cases hp : y = 0x70 ∨ y = 0x50
    · -- a property escape
      have hp' : (y == 0x70 || y == 0x50) = true := by rcases hp with h | h <;> simp [h]
      rw [if_pos hp', cso_prop fl hn f' cst hin hp, X.fv]
      have hs := prop_sim c X.ct (y == 0x50) r
      rw [X.cv] at hs
      cases hpe : propEscape c (y == 0x50) r with
      | fuel => rw [hpe] at hs; exact hs
      | bad =>
        rw [hpe] at hs
        simp only
        rcases hs with ⟨msg, hm⟩ | ⟨hneg, _, strs, r', hm⟩
        · rw [hm]; exact ⟨msg, rfl⟩
        · rw [hm]; simp only [hneg, if_true]; exact isSyn_synErr _
      | ok p =>
        obtain ⟨r', ms⟩ := p
        rw [hpe] at hs
        obtain ⟨⟨q, hq', hqp⟩, hs⟩ := hs
        simp only
        cases ms with
        | true =>
          simp only [if_true] at hs
          obtain ⟨hneg, _, strs, hm⟩ := hs
          rw [hm]
          simp only [hneg, Bool.false_eq_true, if_false]
          exact ⟨⟨_, _, rfl, rfl, rfl, ⟨rfl, (fun v h => by cases h), (fun _ v h => by cases h)⟩⟩, hpfx hq' hqp⟩
        | false =>
          simp only [Bool.false_eq_true, if_false] at hs
          obtain ⟨ivs, hm⟩ := hs
          rw [hm]
          exact ⟨⟨_, _, rfl, rfl, rfl, ⟨rfl, (fun v h => by cases h), (fun _ v h => by cases h)⟩⟩, hpfx hq' hqp⟩
    · -- an escaped character
      have hp' : (y == 0x70 || y == 0x50) = false := by
        simp only [not_or] at hp; simp [hp.1, hp.2]
      rw [if_neg (by rw [hp']; simp)]
      simp only [not_or] at hp
      rw [cso_char fl hn f' cst hin (by intro r h; cases h)
        (by intro x' r' h; cases h; exact ⟨hq, hcl', hp.1, hp.2⟩) (by simp) (by simp), X.fu]
      have hs := classSetChar_sim hn (0x5C :: y :: r) hch
      cases hcs : classSetChar (0x5C :: y :: r) with
      | none =>
        rw [hcs] at hs
        obtain ⟨msg, hm⟩ := hs
        simp only; rw [hm]; exact ⟨msg, rfl⟩
      | some p =>
        obtain ⟨v, r'⟩ := p
        rw [hcs] at hs
        simp only at hs ⊢
        rw [hs]
        obtain ⟨t, ht, hne, hnt⟩ := classSetChar_neutral F hcs
        exact ⟨⟨_, _, rfl, rfl, rfl, ⟨rfl, (fun v' h => by cases h; rfl), (fun h => by cases h)⟩⟩, t, ht, hne,
          neutIn_of_all hnt⟩
  · -- an ordinary character
    rw [vOperand_plain c n (by intro r h; cases h; exact hx rfl) (by intro x' r h; cases h; exact hbs rfl)]
    rw [cso_char fl hn f' cst hin (by intro r h; cases h; exact hx rfl)
      (by intro x' r' h; cases h; exact absurd rfl hbs) (by simp) (by intro h; cases h; exact hbs rfl), X.fu]
    have hs := classSetChar_sim hn (x :: rest) hch
    cases hcs : classSetChar (x :: rest) with
    | none =>
      rw [hcs] at hs
      obtain ⟨msg, hm⟩ := hs
      simp only; rw [hm]; exact ⟨msg, rfl⟩
    | some p =>
      obtain ⟨v, r'⟩ := p
      rw [hcs] at hs
      simp only at hs ⊢
      rw [hs]
      obtain ⟨t, ht, hne, hnt⟩ := classSetChar_neutral F hcs
      exact ⟨⟨_, _, rfl, rfl, rfl, ⟨rfl, (fun v' h => by cases h; rfl), (fun h => by cases h)⟩⟩, t, ht, hne,
        neutIn_of_all hnt⟩



/-! ### A ClassSetCharacter as an operand -/

theorem charEscapeU_none_of {x : Nat} (r : List Nat)
    (h : x = 0x71 ∨ ESG.isClassEscLetter x = true ∨ x = 0x70 ∨ x = 0x50) : charEscapeU x r = none := by
  rcases h with rfl | h | rfl | rfl
  · simp [charEscapeU, controlEscape, ESG.isSyntaxChar]
  · simp only [ESG.isClassEscLetter, Bool.or_eq_true, beq_iff_eq] at h
    rcases h with ((((h | h) | h) | h) | h) | h <;> subst h <;> simp [charEscapeU, controlEscape, ESG.isSyntaxChar]
  · simp [charEscapeU, controlEscape, ESG.isSyntaxChar]
  · simp [charEscapeU, controlEscape, ESG.isSyntaxChar]

theorem classSetChar_special_none {x : Nat} (r : List Nat)
    (h : x = 0x71 ∨ ESG.isClassEscLetter x = true ∨ x = 0x70 ∨ x = 0x50) : classSetChar (0x5C :: x :: r) = none := by
  rw [classSetChar_esc, charEscapeU_none_of r h]
  rcases h with rfl | h | rfl | rfl
  · simp [isClassSetReservedPunct]
  · simp only [ESG.isClassEscLetter, Bool.or_eq_true, beq_iff_eq] at h
    rcases h with ((((h | h) | h) | h) | h) | h <;> subst h <;> simp [isClassSetReservedPunct]
  · simp [isClassSetReservedPunct]
  · simp [isClassSetReservedPunct]

/-- The operand is a ClassSetCharacter exactly when `classSetChar` reads one. -/
theorem vOperand_char_iff (c : Cfg) (k : Nat) (s r : List Nat) (b : Nat) (m : Bool) :
    vOperand c (k + 1) s = .ok (r, m, some b) ↔ (classSetChar s = some (b, r) ∧ m = false) := by
  rcases s with _ | ⟨x, rest⟩
  · rw [vOperand_plain c k (by intro r h; cases h) (by intro x r h; cases h)]
    simp [classSetChar]
  by_cases hx : x = 0x5B
  · subst hx
    rw [vOperand_nested]
    have : classSetChar (0x5B :: rest) = none := by
      rw [classSetChar_plain rest (by decide)]; simp [isClassSetSyntaxChar]
    rw [this]
    constructor
    · intro h; split at h <;> cases h
    · rintro ⟨h, _⟩; cases h
  by_cases hbs : x = 0x5C
  · subst hbs
    rcases rest with _ | ⟨y, r2⟩
    · rw [vOperand_plain c k (by intro r h; cases h) (by intro x r h; cases h)]
      simp [classSetChar]
    by_cases hq : ∃ r3, y = 0x71 ∧ r2 = 0x7B :: r3
    · obtain ⟨r3, rfl, rfl⟩ := hq
      rw [vOperand_q, classSetChar_special_none _ (.inl rfl)]
      constructor
      · intro h; split at h <;> cases h
      · rintro ⟨h, _⟩; cases h
    rw [vOperand_esc c k r2 (fun r' h => hq ⟨r', h⟩)]
    by_cases hcl : ESG.isClassEscLetter y = true
    · rw [if_pos hcl, classSetChar_special_none _ (.inr (.inl hcl))]
      constructor
      · intro h; cases h
      · rintro ⟨h, _⟩; cases h
    rw [if_neg hcl]
    by_cases hp : (y == 0x70 || y == 0x50) = true
    · rw [if_pos hp]
      have hp' : y = 0x70 ∨ y = 0x50 := by simpa using hp
      rw [classSetChar_special_none _ (.inr (.inr hp'))]
      constructor
      · intro h; split at h <;> cases h
      · rintro ⟨h, _⟩; cases h
    rw [if_neg hp]
    cases hcs : classSetChar (0x5C :: y :: r2) with
    | none => simp
    | some p =>
      obtain ⟨v, r'⟩ := p
      simp only [R.ok.injEq, Prod.mk.injEq, Option.some.injEq]
      constructor
      · rintro ⟨rfl, rfl, rfl⟩; exact ⟨⟨rfl, rfl⟩, rfl⟩
      · rintro ⟨⟨rfl, rfl⟩, rfl⟩; exact ⟨rfl, rfl, rfl⟩
  · rw [vOperand_plain c k (by intro r h; cases h; exact hx rfl) (by intro x' r h; cases h; exact hbs rfl)]
    cases hcs : classSetChar (x :: rest) with
    | none => simp
    | some p =>
      obtain ⟨v, r'⟩ := p
      simp only [R.ok.injEq, Prod.mk.injEq, Option.some.injEq]
      constructor
      · rintro ⟨rfl, rfl, rfl⟩; exact ⟨⟨rfl, rfl⟩, rfl⟩
      · rintro ⟨⟨rfl, rfl⟩, rfl⟩; exact ⟨rfl, rfl, rfl⟩

theorem vItem_succ (c : Cfg) (j : Nat) (s : List Nat) : vItem c (j + 1) s =
    match vOperand c j s with
    | .bad => .bad
    | .fuel => .fuel
    | .ok (r, ms, none) => .ok (r, false, ms)
    | .ok (r, ms, some a) =>
      match r with
      | 0x2D :: 0x2D :: _ => .ok (r, false, ms)
      | 0x2D :: r1 =>
        match classSetChar r1 with
        | some (b, r2) => if a ≤ b then .ok (r2, true, false) else .bad
        | none => .bad
      | _ => .ok (r, false, ms) := by
  conv => lhs; unfold vItem
  rfl



theorem plain_dash : Plain 0x2D := by refine ⟨?_, ?_, ?_, ?_, ?_, ?_⟩ <;> decide

/-! ### `itemU` and `vItem` by cases -/

section
variable (fl : Flags) (hn : Bool) (f : Nat) (cst : CSt) (result : ClassSet)

theorem itemU_err {e : ParseError} (h : classSetOperand fl hn f cst = .error e) :
    itemU fl hn f cst result = .error e := by
  unfold itemU; rw [h]

theorem itemU_nodash {op : Operand} {st : CSt} (h : classSetOperand fl hn f cst = .ok (op, st))
    (hnd : ∀ r, st.inp ≠ 0x2D :: r) : itemU fl hn f cst result = .ok (result.unionOperand op, st) := by
  unfold itemU; rw [h]
  simp only

theorem itemU_dash_nochar {op : Operand} {st : CSt} {rest1 : List Nat}
    (h : classSetOperand fl hn f cst = .ok (op, st)) (hi : st.inp = 0x2D :: rest1) (hop : ∀ v, op ≠ .char v) :
    itemU fl hn f cst result = synErr "Invalid class set range" := by
  unfold itemU; rw [h]
  cases op with
  | char v => exact absurd rfl (hop v)
  | esc _ => simp only [hi]
  | cls _ => simp only [hi]
  | strs _ => simp only [hi]

theorem itemU_dash_err {lo : Nat} {st : CSt} {rest1 : List Nat} {e : ParseError}
    (h : classSetOperand fl hn f cst = .ok (.char lo, st)) (hi : st.inp = 0x2D :: rest1)
    (h2 : classSetOperand fl hn f { st with inp := rest1 } = .error e) :
    itemU fl hn f cst result = .error e := by
  unfold itemU; rw [h]
  simp only [hi, h2]

theorem itemU_dash_char {lo hi' : Nat} {st st2 : CSt} {rest1 : List Nat}
    (h : classSetOperand fl hn f cst = .ok (.char lo, st)) (hi : st.inp = 0x2D :: rest1)
    (h2 : classSetOperand fl hn f { st with inp := rest1 } = .ok (.char hi', st2)) :
    itemU fl hn f cst result =
      if lo > hi' then synErr "Invalid class set range"
      else .ok ({ result with cps := CPS.add result.cps { first := lo, last := hi' } }, st2) := by
  unfold itemU; rw [h]
  simp only [hi, h2]

theorem itemU_dash_nochar2 {lo : Nat} {st st2 : CSt} {rest1 : List Nat} {op2 : Operand}
    (h : classSetOperand fl hn f cst = .ok (.char lo, st)) (hi : st.inp = 0x2D :: rest1)
    (h2 : classSetOperand fl hn f { st with inp := rest1 } = .ok (op2, st2)) (hop : ∀ v, op2 ≠ .char v) :
    itemU fl hn f cst result = synErr "Invalid class set range" := by
  unfold itemU; rw [h]
  cases op2 with
  | char v => exact absurd rfl (hop v)
  | esc _ => simp only [hi, h2]
  | cls _ => simp only [hi, h2]
  | strs _ => simp only [hi, h2]
end

section
variable (c : Cfg) (j : Nat) (s : List Nat)

theorem vItem_bad (h : vOperand c j s = .bad) : vItem c (j + 1) s = .bad := by rw [vItem_succ, h]
theorem vItem_fuel (h : vOperand c j s = .fuel) : vItem c (j + 1) s = .fuel := by rw [vItem_succ, h]

theorem vItem_none {r1 : List Nat} {ms : Bool} (h : vOperand c j s = .ok (r1, ms, none)) :
    vItem c (j + 1) s = .ok (r1, false, ms) := by rw [vItem_succ, h]

theorem vItem_nodash {r1 : List Nat} {ms : Bool} {a : Nat} (h : vOperand c j s = .ok (r1, ms, some a))
    (hnd : ∀ r, r1 ≠ 0x2D :: r) : vItem c (j + 1) s = .ok (r1, false, ms) := by
  rw [vItem_succ, h]
  simp only
  rcases r1 with _ | ⟨d, r1'⟩
  · rfl
  · have hd : d ≠ 0x2D := fun e => hnd r1' (by rw [e])
    simp [hd]

theorem vItem_dd {r1 r2 : List Nat} {ms : Bool} {a : Nat} (h : vOperand c j s = .ok (r1, ms, some a))
    (hr : r1 = 0x2D :: 0x2D :: r2) : vItem c (j + 1) s = .ok (r1, false, ms) := by
  rw [vItem_succ, h, hr]
  rfl

theorem vItem_range {r1 rest1 : List Nat} {ms : Bool} {a : Nat} (h : vOperand c j s = .ok (r1, ms, some a))
    (hr : r1 = 0x2D :: rest1) (hnd : ∀ r, rest1 ≠ 0x2D :: r) :
    vItem c (j + 1) s =
      match classSetChar rest1 with
      | some (b, r2) => if a ≤ b then .ok (r2, true, false) else .bad
      | none => .bad := by
  rw [vItem_succ, h, hr]
  simp only
end

/-- One union item (an operand, or a range of two ClassSetCharacters).  Either the two sides agree, or
the crate has already failed on a `-` that the grammar will fail on at its next step. -/
theorem item_sim {F : Feat} {c : Cfg} {fl : Flags} (hn : Bool) {j : Nat} (hO : SVO F c fl hn j) :
    ∀ s, 4 * s.length + 2 ≤ j + 1 → AllChar s → ∀ (f : Nat) (cst : CSt) (result : ClassSet) (ms0 : Bool),
    2 * s.length + 1 ≤ f → cst.inp = s → cst.depth + brk s ≤ 256 → result.mayContainStrings = ms0 →
    match vItem c (j + 1) s with
    | .ok (r', _, m2) =>
      ((∃ res' cst', itemU fl hn f cst result = .ok (res', cst') ∧ cst'.inp = r' ∧ cst'.depth = cst.depth ∧
          res'.mayContainStrings = (ms0 || m2)) ∧ ∃ t, s = t ++ r' ∧ t ≠ [] ∧ NeutIn F t) ∨
      (IsSyn (itemU fl hn f cst result) ∧ ∃ r2, r' = 0x2D :: r2)
    | .bad => IsSyn (itemU fl hn f cst result)
    | .fuel => False := by
  intro s hb hch f cst result ms0 hf hin hdep hres
  have h1 := hO s (by omega) hch f cst hf hin hdep
  cases hvo : vOperand c j s with
  | fuel => rw [hvo] at h1; exact h1.elim
  | bad =>
    rw [hvo] at h1
    obtain ⟨msg, hm⟩ := h1
    rw [vItem_bad c j s hvo, itemU_err fl hn f cst result hm]; exact ⟨msg, rfl⟩
  | ok p =>
    obtain ⟨r1, ms, ov⟩ := p
    rw [hvo] at h1
    obtain ⟨⟨op, cst1, hm, hi1, hd1, hrel⟩, t, ht, hne, hnt⟩ := h1
    have hl1 : r1.length < s.length := by
      have := congrArg List.length ht
      rw [List.length_append] at this
      have : 0 < t.length := List.length_pos_iff.2 hne
      omega
    have hch1 : AllChar r1 := by rw [ht] at hch; exact hch.append_right
    have hb1 : brk r1 ≤ brk s := by rw [ht]; exact brk_append_le t r1
    by_cases hdash : ∃ rest1, r1 = 0x2D :: rest1
    rotate_left
    · -- no `-` follows: the operand is the item
      have hnd : ∀ rest1, r1 ≠ 0x2D :: rest1 := fun rest1 e => hdash ⟨rest1, e⟩
      have hv : vItem c (j + 1) s = .ok (r1, false, ms) := by
        cases ov with
        | none => exact vItem_none c j s hvo
        | some a => exact vItem_nodash c j s hvo hnd
      rw [hv, itemU_nodash fl hn f cst result hm (by rw [hi1]; exact hnd)]
      exact .inl ⟨⟨_, _, rfl, hi1, hd1, by rw [union_mcs, hres, hrel.ms]⟩, t, ht, hne, hnt⟩
    obtain ⟨rest1, rfl⟩ := hdash
    have hi1' : cst1.inp = 0x2D :: rest1 := hi1
    cases ov with
    | none =>
      -- a class before `-`: the crate fails at once, the grammar at the next operand
      rw [vItem_none c j s hvo, itemU_dash_nochar fl hn f cst result hm hi1' (hrel.nch rfl)]
      exact .inr ⟨isSyn_synErr _, rest1, rfl⟩
    | some a =>
      have hopa : op = .char a := hrel.ch a rfl
      subst hopa
      simp only [List.length_cons] at hl1
      have hch2 : AllChar rest1 := hch1.tail
      have hb2 : brk rest1 ≤ brk s := by
        have : brk (0x2D :: rest1) = brk rest1 := brk_cons_ne _ (by decide)
        omega
      -- the second operand, on the crate's side
      have h2 := hO rest1 (by omega) hch2 f { cst1 with inp := rest1 } (by omega) rfl (by simp only; omega)
      by_cases hdd : ∃ r3, rest1 = 0x2D :: r3
      · -- `--`: no range
        obtain ⟨r3, rfl⟩ := hdd
        rw [vItem_dd c j s hvo rfl]
        obtain ⟨k, rfl⟩ : ∃ k, j = k + 1 := ⟨j - 1, by omega⟩
        have hbad : vOperand c (k + 1) (0x2D :: r3) = .bad := by
          rw [vOperand_plain c k (by intro r h; cases h) (by intro x r h; cases h),
            classSetChar_plain r3 (by decide)]
          simp [isClassSetSyntaxChar]
        rw [hbad] at h2
        obtain ⟨msg, hm2⟩ := h2
        rw [itemU_dash_err fl hn f cst result hm hi1' hm2]
        exact .inr ⟨⟨msg, rfl⟩, _, rfl⟩
      · have hnd : ∀ r, rest1 ≠ 0x2D :: r := fun r e => hdd ⟨r, e⟩
        rw [vItem_range c j s hvo rfl hnd]
        obtain ⟨k, rfl⟩ : ∃ k, j = k + 1 := ⟨j - 1, by omega⟩
        cases hcs : classSetChar rest1 with
        | none =>
          simp only
          cases hv2 : vOperand c (k + 1) rest1 with
          | fuel => rw [hv2] at h2; exact h2.elim
          | bad =>
            rw [hv2] at h2
            obtain ⟨msg, hm2⟩ := h2
            rw [itemU_dash_err fl hn f cst result hm hi1' hm2]; exact ⟨msg, rfl⟩
          | ok p2 =>
            obtain ⟨r2, m2, ov2⟩ := p2
            rw [hv2] at h2
            obtain ⟨⟨op2, cst2, hm2, _, _, hrel2⟩, _⟩ := h2
            cases ov2 with
            | some b =>
              have := (vOperand_char_iff c k rest1 r2 b m2).1 hv2
              rw [hcs] at this; cases this.1
            | none =>
              rw [itemU_dash_nochar2 fl hn f cst result hm hi1' hm2 (hrel2.nch rfl)]
              exact isSyn_synErr _
        | some p2 =>
          obtain ⟨b, r2⟩ := p2
          have hv2 := (vOperand_char_iff c k rest1 r2 b false).2 ⟨hcs, rfl⟩
          rw [hv2] at h2
          obtain ⟨⟨op2, cst2, hm2, hi2, hd2, hrel2⟩, t2, ht2, hne2, hnt2⟩ := h2
          have hopb : op2 = .char b := hrel2.ch b rfl
          subst hopb
          rw [itemU_dash_char fl hn f cst result hm hi1' hm2]
          simp only
          by_cases hab : a ≤ b
          · rw [if_pos hab, if_neg (by omega)]
            refine .inl ⟨⟨_, _, rfl, hi2, by rw [hd2]; exact hd1, by simp [hres]⟩,
              t ++ ([0x2D] ++ t2), by rw [ht, ht2]; simp, by simp [hne], ?_⟩
            exact neutIn_append hnt (neutIn_append (neutIn_plain F plain_dash) hnt2)
          · rw [if_neg hab, if_pos (by omega)]
            exact isSyn_synErr _



/-! ### An item and then the rest of the union -/

/-- grammar: an item, then the rest of the union -/
def esIU (c : Cfg) (n : Nat) (s : List Nat) (ms0 : Bool) : R (List Nat × Bool) :=
  match vItem c n s with
  | .bad => .bad
  | .fuel => .fuel
  | .ok (r, _, m2) => vUnion c n r (ms0 || m2)

/-- crate: an item, then the rest of the union -/
def crIU (fl : Flags) (hn : Bool) (f : Nat) (cst : CSt) (result : ClassSet) : Res (ClassSet × CSt) :=
  match itemU fl hn f cst result with
  | .error e => .error e
  | .ok (result', st') => classSetUnion fl hn f st' result'

theorem vUnion_nil (c : Cfg) (n : Nat) (ms : Bool) : vUnion c (n + 1) [] ms = .bad := by
  conv => lhs; unfold vUnion

theorem vUnion_close (c : Cfg) (n : Nat) (r : List Nat) (ms : Bool) :
    vUnion c (n + 1) (0x5D :: r) ms = .ok (r, ms) := by
  conv => lhs; unfold vUnion
  rfl

theorem vUnion_item (c : Cfg) (n : Nat) {x : Nat} (rest : List Nat) (ms : Bool) (hx : x ≠ 0x5D) :
    vUnion c (n + 1) (x :: rest) ms = esIU c n (x :: rest) ms := by
  conv => lhs; unfold vUnion
  unfold esIU
  split
  · rename_i heq; cases heq
  · rename_i heq; cases heq; exact absurd rfl hx
  · rfl

/-- After a `-` that is not part of a range the grammar fails at the next operand. -/
theorem vUnion_dash_bad (c : Cfg) (k : Nat) (r : List Nat) (ms : Bool) :
    vUnion c (k + 3) (0x2D :: r) ms = .bad := by
  rw [vUnion_item c (k + 2) r ms (by decide)]
  unfold esIU
  have : vOperand c (k + 1) (0x2D :: r) = .bad := by
    rw [vOperand_plain c k (by intro r h; cases h) (by intro x r h; cases h), classSetChar_plain r (by decide)]
    simp [isClassSetSyntaxChar]
  rw [vItem_bad c (k + 1) _ this]

theorem csu_nil (fl : Flags) (hn : Bool) (f : Nat) (cst : CSt) (result : ClassSet) (hin : cst.inp = []) :
    classSetUnion fl hn (f + 1) cst result = synErr "Unbalanced class set bracket" := by
  rw [csu_succ, hin]

theorem csu_close (fl : Flags) (hn : Bool) (f : Nat) (cst : CSt) (result : ClassSet) {r : List Nat}
    (hin : cst.inp = 0x5D :: r) : classSetUnion fl hn (f + 1) cst result = .ok (result, { cst with inp := r }) := by
  rw [csu_succ, hin]; simp

theorem csu_item (fl : Flags) (hn : Bool) (f : Nat) (cst : CSt) (result : ClassSet) {x : Nat} {rest : List Nat}
    (hin : cst.inp = x :: rest) (hx : x ≠ 0x5D) :
    classSetUnion fl hn (f + 1) cst result = crIU fl hn f cst result := by
  rw [csu_succ, hin]
  have : (x == 0x5D) = false := by simp [hx]
  simp only [this, Bool.false_eq_true, if_false]
  rfl

section
variable (F : Feat) (c : Cfg) (fl : Flags) (hn : Bool)

/-- An item and the rest of the union, from the operand two levels down and the union one level down. -/
theorem iu_sim {j : Nat} (hO : SVO F c fl hn j) (hU : SVU F c fl hn (j + 1)) :
    ∀ s, s ≠ [] → 4 * s.length + 3 ≤ j + 2 → AllChar s → ∀ (f : Nat) (cst : CSt) (result : ClassSet) (ms0 : Bool),
    2 * s.length + 1 ≤ f → cst.inp = s → cst.depth + brk s ≤ 256 → result.mayContainStrings = ms0 →
    match esIU c (j + 1) s ms0 with
    | .ok (r', ms') =>
      (∃ cs cst', crIU fl hn f cst result = .ok (cs, cst') ∧ cst'.inp = r' ∧ cst'.depth = cst.depth ∧
        cs.mayContainStrings = ms') ∧ ∃ t, s = t ++ 0x5D :: r' ∧ NeutIn F t
    | .bad => IsSyn (crIU fl hn f cst result)
    | .fuel => False := by
  intro s hsne hb hch f cst result ms0 hf hin hdep hres
  have hit := item_sim hn hO s (by omega) hch f cst result ms0 hf hin hdep hres
  unfold esIU crIU
  cases hv : vItem c (j + 1) s with
  | fuel => rw [hv] at hit; exact hit
  | bad =>
    rw [hv] at hit
    obtain ⟨msg, hm⟩ := hit
    simp only; rw [hm]; exact ⟨msg, rfl⟩
  | ok p =>
    obtain ⟨r1, isR, m2⟩ := p
    rw [hv] at hit
    simp only
    rcases hit with ⟨⟨res', cst1, hm, hi1, hd1, hms1⟩, t, ht, hne, hnt⟩ | ⟨⟨msg, hm⟩, r2, rfl⟩
    · rw [hm]
      simp only
      have hl1 : r1.length < s.length := by
        have := congrArg List.length ht
        rw [List.length_append] at this
        have : 0 < t.length := List.length_pos_iff.2 hne
        omega
      have hch1 : AllChar r1 := by rw [ht] at hch; exact hch.append_right
      have hb1 : brk r1 ≤ brk s := by rw [ht]; exact brk_append_le t r1
      have := hU r1 (ms0 || m2) (by omega) hch1 f cst1 res' (by omega) hi1 (by omega) hms1
      cases hvu : vUnion c (j + 1) r1 (ms0 || m2) with
      | fuel => rw [hvu] at this; exact this
      | bad => rw [hvu] at this; exact this
      | ok p2 =>
        obtain ⟨r', ms'⟩ := p2
        rw [hvu] at this
        obtain ⟨⟨cs, cst', h1, h2, h3, h4⟩, t2, ht2, hnt2⟩ := this
        exact ⟨⟨cs, cst', h1, h2, by rw [h3]; exact hd1, h4⟩, t ++ t2, by rw [ht, ht2]; simp,
          neutIn_append hnt hnt2⟩
    · rw [hm]
      obtain ⟨k, rfl⟩ : ∃ k, j = k + 2 := ⟨j - 2, by
        have : 0 < s.length := List.length_pos_iff.2 hsne
        omega⟩
      rw [vUnion_dash_bad]
      exact ⟨msg, rfl⟩

/-- The rest of a union. -/
theorem svu_step {j : Nat} (hO : SVO F c fl hn j) (hU : SVU F c fl hn (j + 1)) : SVU F c fl hn (j + 2) := by
  intro s ms hb hch f cst result hf hin hdep hres
  obtain ⟨f', rfl⟩ : ∃ f', f = f' + 1 := ⟨f - 1, by omega⟩
  rcases s with _ | ⟨x, rest⟩
  · rw [vUnion_nil, csu_nil fl hn f' cst result hin]; exact isSyn_synErr _
  by_cases hx : x = 0x5D
  · subst hx
    rw [vUnion_close, csu_close fl hn f' cst result hin]
    exact ⟨⟨_, _, rfl, rfl, rfl, hres⟩, [], rfl, fun d => neutralM_nil F (d + 1)⟩
  · rw [vUnion_item c (j + 1) rest ms hx, csu_item fl hn f' cst result hin hx]
    exact iu_sim F c fl hn hO hU (x :: rest) (by simp) (by omega) hch f' cst result ms (by omega) hin hdep hres

end



/-! ### Intersection and subtraction -/

theorem vInter_amp (c : Cfg) (n : Nat) (r : List Nat) (ms : Bool) :
    vInter c (n + 1) (0x26 :: 0x26 :: r) ms =
      if r.head? == some 0x26 then .bad
      else
        match vOperand c n r with
        | .bad => .bad
        | .fuel => .fuel
        | .ok (r', m2, _) => vInter c n r' (ms && m2) := by
  conv => lhs; unfold vInter
  rfl

theorem vInter_close (c : Cfg) (n : Nat) (r : List Nat) (ms : Bool) :
    vInter c (n + 1) (0x5D :: r) ms = .ok (r, ms) := by
  conv => lhs; unfold vInter
  rfl

theorem vInter_other (c : Cfg) (n : Nat) {s : List Nat} (ms : Bool) (h1 : ∀ r, s ≠ 0x5D :: r)
    (h2 : ∀ r, s ≠ 0x26 :: 0x26 :: r) : vInter c (n + 1) s ms = .bad := by
  conv => lhs; unfold vInter
  split
  · rename_i heq; exact absurd rfl (h1 _)
  · rename_i heq; exact absurd rfl (h2 _)
  · rfl

theorem vSub_dd (c : Cfg) (n : Nat) (r : List Nat) (ms : Bool) :
    vSub c (n + 1) (0x2D :: 0x2D :: r) ms =
      match vOperand c n r with
      | .bad => .bad
      | .fuel => .fuel
      | .ok (r', _, _) => vSub c n r' ms := by
  conv => lhs; unfold vSub
  rfl

theorem vSub_close (c : Cfg) (n : Nat) (r : List Nat) (ms : Bool) :
    vSub c (n + 1) (0x5D :: r) ms = .ok (r, ms) := by
  conv => lhs; unfold vSub
  rfl

theorem vSub_other (c : Cfg) (n : Nat) {s : List Nat} (ms : Bool) (h1 : ∀ r, s ≠ 0x5D :: r)
    (h2 : ∀ r, s ≠ 0x2D :: 0x2D :: r) : vSub c (n + 1) s ms = .bad := by
  conv => lhs; unfold vSub
  split
  · rename_i heq; exact absurd rfl (h1 _)
  · rename_i heq; exact absurd rfl (h2 _)
  · rfl

theorem csi_amp (fl : Flags) (hn : Bool) (f : Nat) (cst : CSt) (result : ClassSet) {r0 : List Nat}
    (hin : cst.inp = 0x26 :: r0) : IsSyn (classSetIntersection fl hn (f + 1) cst result) := by
  rw [csi_succ, hin]
  simp only [beq_self_eq_true, if_true]
  exact isSyn_synErr _

theorem csi_go (fl : Flags) (hn : Bool) (f : Nat) (cst : CSt) (result : ClassSet)
    (h : ∀ r0, cst.inp ≠ 0x26 :: r0) :
    classSetIntersection fl hn (f + 1) cst result =
      match classSetOperand fl hn f cst with
      | .error e => .error e
      | .ok (operand, st) =>
        match st.inp with
        | [] => synErr "Unbalanced class set bracket"
        | c :: rest =>
          if c == 0x5D then
            .ok (result.intersectOperand (closeClassSetOperand fl.icase operand), { st with inp := rest })
          else if c == 0x26 then
            match rest with
            | 0x26 :: rest2 =>
              classSetIntersection fl hn f { st with inp := rest2 }
                (result.intersectOperand (closeClassSetOperand fl.icase operand))
            | _ => synErr "Unbalanced class set bracket"
          else synErr "Unexpected character in class set intersection" := by
  rw [csi_succ]
  rcases hi : cst.inp with _ | ⟨x, r0⟩
  · simp only [Bool.false_eq_true, if_false]
    all_goals rfl
  · have hx : x ≠ 0x26 := fun e => h r0 (by rw [hi, e])
    have : (x == 0x26) = false := by simp [hx]
    simp only [this, Bool.false_eq_true, if_false]
    all_goals rfl

section
variable (F : Feat) (c : Cfg) (fl : Flags) (hn : Bool)

/-- The loop of `&&`. -/
theorem svi_step {n : Nat} (hO : SVO F c fl hn n) (hI : SVI F c fl hn n) : SVI F c fl hn (n + 1) := by
  intro r ms hb hch f cst result hf hin hdep hres
  obtain ⟨f', rfl⟩ : ∃ f', f = f' + 1 := ⟨f - 1, by omega⟩
  rw [vInter_amp]
  by_cases h3 : ∃ r0, r = 0x26 :: r0
  · -- `&&&`
    obtain ⟨r0, rfl⟩ := h3
    simp only [List.head?, beq_self_eq_true, if_true]
    exact csi_amp fl hn f' cst result hin
  have h3' : (r.head? == some 0x26) = false := by
    rcases r with _ | ⟨x, r0⟩
    · rfl
    · have hx : x ≠ 0x26 := fun e => h3 ⟨r0, by rw [e]⟩
      simp [List.head?, hx]
  rw [if_neg (by rw [h3']; simp), csi_go fl hn f' cst result (fun r0 e => h3 ⟨r0, by rw [← hin, e]⟩)]
  have h1 := hO r (by omega) hch f' cst (by omega) hin hdep
  cases hvo : vOperand c n r with
  | fuel => rw [hvo] at h1; exact h1
  | bad =>
    rw [hvo] at h1
    obtain ⟨msg, hm⟩ := h1
    simp only; rw [hm]; exact ⟨msg, rfl⟩
  | ok p =>
    obtain ⟨r1, m2, ov⟩ := p
    rw [hvo] at h1
    obtain ⟨⟨op, cst1, hm, hi1, hd1, hrel⟩, t, ht, hne, hnt⟩ := h1
    simp only
    rw [hm]
    simp only
    have hl1 : r1.length < r.length := by
      have := congrArg List.length ht
      rw [List.length_append] at this
      have : 0 < t.length := List.length_pos_iff.2 hne
      omega
    have hch1 : AllChar r1 := by rw [ht] at hch; exact hch.append_right
    have hb1 : brk r1 ≤ brk r := by rw [ht]; exact brk_append_le t r1
    have hmcs : (result.intersectOperand (closeClassSetOperand fl.icase op)).mayContainStrings = (ms && m2) := by
      rw [inter_mcs, close_mcs, hres, hrel.ms]
    obtain ⟨n', rfl⟩ : ∃ n', n = n' + 1 := ⟨n - 1, by omega⟩
    rcases r1 with _ | ⟨x, r2⟩
    · rw [vInter_other c n' _ (by intro r h; cases h) (by intro r h; cases h)]
      simp only [hi1]; exact isSyn_synErr _
    by_cases hx : x = 0x5D
    · subst hx
      rw [vInter_close]
      simp only [hi1, beq_self_eq_true, if_true]
      exact ⟨⟨_, _, rfl, rfl, hd1, hmcs⟩, t, ht, hnt⟩
    have e1 : (x == 0x5D) = false := by simp [hx]
    by_cases ha : x = 0x26
    · subst ha
      by_cases ha2 : ∃ r3, r2 = 0x26 :: r3
      · obtain ⟨r3, rfl⟩ := ha2
        simp only [List.length_cons] at hl1
        have := hI r3 (ms && m2) (by omega) hch1.tail.tail f' { cst1 with inp := r3 }
          (result.intersectOperand (closeClassSetOperand fl.icase op)) (by omega) rfl
          (by
            have : brk (0x26 :: 0x26 :: r3) = brk r3 := by
              rw [brk_cons_ne _ (by decide), brk_cons_ne _ (by decide)]
            simp only; omega) hmcs
        simp only [hi1, Nat.reduceBEq, Bool.false_eq_true, if_false, beq_self_eq_true, if_true]
        cases hvi : vInter c (n' + 1) (0x26 :: 0x26 :: r3) (ms && m2) with
        | fuel => rw [hvi] at this; exact this
        | bad => rw [hvi] at this; exact this
        | ok p2 =>
          obtain ⟨r', ms'⟩ := p2
          rw [hvi] at this
          obtain ⟨⟨cs, cst', g1, g2, g3, g4⟩, t2, ht2, hnt2⟩ := this
          refine ⟨⟨cs, cst', g1, g2, by rw [g3]; exact hd1, g4⟩, t ++ ([0x26, 0x26] ++ t2), by rw [ht, ht2]; simp, ?_⟩
          refine neutIn_append hnt (neutIn_append ?_ hnt2)
          intro d
          exact neutralM_plains F (d + 1) (by
            intro z hz
            simp only [List.mem_cons, List.not_mem_nil, or_false] at hz
            rcases hz with rfl | rfl <;> (refine ⟨?_, ?_, ?_, ?_, ?_, ?_⟩ <;> decide))
      · have hn2 : ∀ r3, r2 ≠ 0x26 :: r3 := fun r3 e => ha2 ⟨r3, e⟩
        rw [vInter_other c n' _ (by intro r h; cases h) (by intro r h; cases h; exact hn2 _ rfl)]
        simp only [hi1, Nat.reduceBEq, Bool.false_eq_true, if_false, beq_self_eq_true, if_true]
        exact isSyn_synErr _
    · have e2 : (x == 0x26) = false := by simp [ha]
      rw [vInter_other c n' _ (by intro r h; cases h; exact hx rfl) (by intro r h; cases h; exact ha rfl)]
      simp only [hi1, e1, e2, Bool.false_eq_true, if_false]
      exact isSyn_synErr _

end



section
variable (F : Feat) (c : Cfg) (fl : Flags) (hn : Bool)

/-- The loop of `--`. -/
theorem svs_step {n : Nat} (hO : SVO F c fl hn n) (hS : SVS F c fl hn n) : SVS F c fl hn (n + 1) := by
  intro r ms hb hch f cst result hf hin hdep hres
  obtain ⟨f', rfl⟩ : ∃ f', f = f' + 1 := ⟨f - 1, by omega⟩
  rw [vSub_dd, css_succ]
  have h1 := hO r (by omega) hch f' cst (by omega) hin hdep
  cases hvo : vOperand c n r with
  | fuel => rw [hvo] at h1; exact h1
  | bad =>
    rw [hvo] at h1
    obtain ⟨msg, hm⟩ := h1
    simp only; rw [hm]; exact ⟨msg, rfl⟩
  | ok p =>
    obtain ⟨r1, m2, ov⟩ := p
    rw [hvo] at h1
    obtain ⟨⟨op, cst1, hm, hi1, hd1, hrel⟩, t, ht, hne, hnt⟩ := h1
    simp only
    rw [hm]
    simp only
    have hl1 : r1.length < r.length := by
      have := congrArg List.length ht
      rw [List.length_append] at this
      have : 0 < t.length := List.length_pos_iff.2 hne
      omega
    have hch1 : AllChar r1 := by rw [ht] at hch; exact hch.append_right
    have hb1 : brk r1 ≤ brk r := by rw [ht]; exact brk_append_le t r1
    have hmcs : (result.subtractOperand (closeClassSetOperand fl.icase op)).mayContainStrings = ms := by
      rw [sub_mcs, hres]
    obtain ⟨n', rfl⟩ : ∃ n', n = n' + 1 := ⟨n - 1, by omega⟩
    rcases r1 with _ | ⟨x, r2⟩
    · rw [vSub_other c n' _ (by intro r h; cases h) (by intro r h; cases h)]
      simp only [hi1]; exact isSyn_synErr _
    by_cases hx : x = 0x5D
    · subst hx
      rw [vSub_close]
      simp only [hi1, beq_self_eq_true, if_true]
      exact ⟨⟨_, _, rfl, rfl, hd1, hmcs⟩, t, ht, hnt⟩
    have e1 : (x == 0x5D) = false := by simp [hx]
    by_cases ha : x = 0x2D
    · subst ha
      by_cases ha2 : ∃ r3, r2 = 0x2D :: r3
      · obtain ⟨r3, rfl⟩ := ha2
        simp only [List.length_cons] at hl1
        have := hS r3 ms (by omega) hch1.tail.tail f' { cst1 with inp := r3 }
          (result.subtractOperand (closeClassSetOperand fl.icase op)) (by omega) rfl
          (by
            have : brk (0x2D :: 0x2D :: r3) = brk r3 := by
              rw [brk_cons_ne _ (by decide), brk_cons_ne _ (by decide)]
            simp only; omega) hmcs
        simp only [hi1, Nat.reduceBEq, Bool.false_eq_true, if_false, beq_self_eq_true, if_true]
        cases hvi : vSub c (n' + 1) (0x2D :: 0x2D :: r3) ms with
        | fuel => rw [hvi] at this; exact this
        | bad => rw [hvi] at this; exact this
        | ok p2 =>
          obtain ⟨r', ms'⟩ := p2
          rw [hvi] at this
          obtain ⟨⟨cs, cst', g1, g2, g3, g4⟩, t2, ht2, hnt2⟩ := this
          refine ⟨⟨cs, cst', g1, g2, by rw [g3]; exact hd1, g4⟩, t ++ ([0x2D, 0x2D] ++ t2), by rw [ht, ht2]; simp, ?_⟩
          refine neutIn_append hnt (neutIn_append ?_ hnt2)
          intro d
          exact neutralM_plains F (d + 1) (by
            intro z hz
            simp only [List.mem_cons, List.not_mem_nil, or_false] at hz
            rcases hz with rfl | rfl <;> (refine ⟨?_, ?_, ?_, ?_, ?_, ?_⟩ <;> decide))
      · have hn2 : ∀ r3, r2 ≠ 0x2D :: r3 := fun r3 e => ha2 ⟨r3, e⟩
        rw [vSub_other c n' _ (by intro r h; cases h) (by intro r h; cases h; exact hn2 _ rfl)]
        simp only [hi1, Nat.reduceBEq, Bool.false_eq_true, if_false, beq_self_eq_true, if_true]
        exact isSyn_synErr _
    · have e2 : (x == 0x2D) = false := by simp [ha]
      rw [vSub_other c n' _ (by intro r h; cases h; exact hx rfl) (by intro r h; cases h; exact ha rfl)]
      simp only [hi1, e1, e2, Bool.false_eq_true, if_false]
      exact isSyn_synErr _

end



/-! ### The class contents and the class -/

theorem vClass_caret (c : Cfg) (n : Nat) (r : List Nat) : vClass c (n + 1) (0x5E :: r) =
    match vContents c n r with
    | .ok (r', ms) => if ms then .bad else .ok (r', false)
    | e => e := by
  conv => lhs; unfold vClass
  rfl

theorem vClass_plain (c : Cfg) (n : Nat) {s : List Nat} (h : ∀ r, s ≠ 0x5E :: r) :
    vClass c (n + 1) s = vContents c n s := by
  conv => lhs; unfold vClass
  split
  · rename_i heq; exact absurd rfl (h _)
  · rfl

theorem vContents_close (c : Cfg) (n : Nat) (r : List Nat) : vContents c (n + 1) (0x5D :: r) = .ok (r, false) := by
  conv => lhs; unfold vContents
  rfl

theorem vContents_go (c : Cfg) (n : Nat) {s : List Nat} (h : ∀ r, s ≠ 0x5D :: r) :
    vContents c (n + 1) s =
      match vItem c n s with
      | .bad => .bad
      | .fuel => .fuel
      | .ok (r, isRange, ms) =>
        if isRange then vUnion c n r ms
        else
          match r with
          | 0x26 :: 0x26 :: _ => vInter c n r ms
          | 0x2D :: 0x2D :: _ => vSub c n r ms
          | _ => vUnion c n r ms := by
  conv => lhs; unfold vContents
  split
  · rename_i heq; exact absurd rfl (h _)
  · rfl

section
variable (c : Cfg) (j : Nat) {s : List Nat} (hs : ∀ r, s ≠ 0x5D :: r)
include hs

theorem vContents_bad (h : vOperand c j s = .bad) : vContents c (j + 2) s = .bad := by
  rw [vContents_go c (j + 1) hs, vItem_bad c j s h]

theorem vContents_amp {r1 r2 : List Nat} {ms1 : Bool} {ov : Option Nat} (h : vOperand c j s = .ok (r1, ms1, ov))
    (hr : r1 = 0x26 :: 0x26 :: r2) : vContents c (j + 2) s = vInter c (j + 1) r1 ms1 := by
  have hv : vItem c (j + 1) s = .ok (r1, false, ms1) := by
    cases ov with
    | none => exact vItem_none c j s h
    | some a => exact vItem_nodash c j s h (by intro r e; rw [hr] at e; cases e)
  rw [vContents_go c (j + 1) hs, hv, hr]
  rfl

theorem vContents_dd {r1 r2 : List Nat} {ms1 : Bool} {ov : Option Nat} (h : vOperand c j s = .ok (r1, ms1, ov))
    (hr : r1 = 0x2D :: 0x2D :: r2) : vContents c (j + 2) s = vSub c (j + 1) r1 ms1 := by
  have hv : vItem c (j + 1) s = .ok (r1, false, ms1) := by
    cases ov with
    | none => exact vItem_none c j s h
    | some a => exact vItem_dd c j s h hr
  rw [vContents_go c (j + 1) hs, hv, hr]
  rfl

theorem vContents_union {r1 : List Nat} {ms1 : Bool} {ov : Option Nat} (h : vOperand c j s = .ok (r1, ms1, ov))
    (h1 : ∀ r, r1 ≠ 0x26 :: 0x26 :: r) (h2 : ∀ r, r1 ≠ 0x2D :: 0x2D :: r) :
    vContents c (j + 2) s = esIU c (j + 1) s false := by
  rw [vContents_go c (j + 1) hs]
  unfold esIU
  have hnr : vItem c (j + 1) s = .ok (r1, false, ms1) → (match vItem c (j + 1) s with
      | .bad => (.bad : R (List Nat × Bool))
      | .fuel => .fuel
      | .ok (r, isRange, ms) =>
        if isRange then vUnion c (j + 1) r ms
        else
          match r with
          | 0x26 :: 0x26 :: _ => vInter c (j + 1) r ms
          | 0x2D :: 0x2D :: _ => vSub c (j + 1) r ms
          | _ => vUnion c (j + 1) r ms) =
      match vItem c (j + 1) s with
      | .bad => .bad
      | .fuel => .fuel
      | .ok (r, _, m2) => vUnion c (j + 1) r (false || m2) := by
    intro hv
    rw [hv]
    simp only [Bool.false_eq_true, if_false, Bool.false_or]
  cases ov with
  | none => exact hnr (vItem_none c j s h)
  | some a =>
    by_cases hd : ∃ rest1, r1 = 0x2D :: rest1
    · obtain ⟨rest1, rfl⟩ := hd
      have hnd : ∀ r, rest1 ≠ 0x2D :: r := fun r e => h2 r (by rw [e])
      rw [vItem_range c j s h rfl hnd]
      cases classSetChar rest1 with
      | none => rfl
      | some p =>
        obtain ⟨b, r2⟩ := p
        simp only
        by_cases hab : a ≤ b
        · simp only [hab, if_true, Bool.false_or]
        · simp only [hab, if_false]
    · exact hnr (vItem_nodash c j s h (fun r e => hd ⟨r, e⟩))
end



section
variable (F : Feat) (c : Cfg) (fl : Flags) (hn : Bool)

/-- The class contents. -/
theorem svc_step {j : Nat} (hO : SVO F c fl hn j) (hU : SVU F c fl hn (j + 1)) (hI : SVI F c fl hn (j + 1))
    (hS : SVS F c fl hn (j + 1)) : SVC F c fl hn (j + 2) := by
  intro s hb hch f cst hf hin hdep
  obtain ⟨f', rfl⟩ : ∃ f', f = f' + 1 := ⟨f - 1, by omega⟩
  rcases s with _ | ⟨x, rest⟩
  · -- end of input
    have hv : vOperand c j [] = .bad := by
      obtain ⟨k, rfl⟩ : ∃ k, j = k + 1 := ⟨j - 1, by simp at hb; omega⟩
      rw [vOperand_plain c k (by intro r h; cases h) (by intro x r h; cases h)]; rfl
    rw [vContents_bad c j (by intro r h; cases h) hv, cse_nil fl hn f' cst hin]
    exact isSyn_synErr _
  by_cases hx : x = 0x5D
  · subst hx
    rw [vContents_close, cse_close fl hn f' cst hin]
    exact ⟨⟨_, _, rfl, rfl, rfl, rfl⟩, [], rfl, fun d => neutralM_nil F (d + 1)⟩
  have hs : ∀ r, x :: rest ≠ 0x5D :: r := fun r e => hx (by cases e; rfl)
  have h1 := hO (x :: rest) (by omega) hch f' cst (by omega) hin hdep
  cases hvo : vOperand c j (x :: rest) with
  | fuel => rw [hvo] at h1; exact h1.elim
  | bad =>
    rw [hvo] at h1
    obtain ⟨msg, hm⟩ := h1
    rw [vContents_bad c j hs hvo, cse_err fl hn f' cst hin hx hm]; exact ⟨msg, rfl⟩
  | ok p =>
    obtain ⟨r1, ms1, ov⟩ := p
    rw [hvo] at h1
    obtain ⟨⟨op, cst1, hm, hi1, hd1, hrel⟩, t, ht, hne, hnt⟩ := h1
    obtain ⟨c1, c2, c3, c4, c5⟩ := cse_first fl hn f' cst hin hx hm
    have hl1 : r1.length < (x :: rest).length := by
      have := congrArg List.length ht
      rw [List.length_append] at this
      have : 0 < t.length := List.length_pos_iff.2 hne
      omega
    have hch1 : AllChar r1 := by rw [ht] at hch; exact hch.append_right
    have hb1 : brk r1 ≤ brk (x :: rest) := by rw [ht]; exact brk_append_le t r1
    have hmc : (({} : ClassSet).unionOperand (closeClassSetOperand fl.icase op)).mayContainStrings = ms1 := by
      rw [union_mcs, close_mcs, hrel.ms]; rfl
    by_cases ha : ∃ r2, r1 = 0x26 :: 0x26 :: r2
    · -- `&&`
      obtain ⟨r2, rfl⟩ := ha
      simp only [List.length_cons] at hl1 hb hf
      rw [vContents_amp c j hs hvo rfl, c3 r2 hi1]
      have := hI r2 ms1 (by omega) hch1.tail.tail f' { cst1 with inp := r2 } _ (by omega) rfl
        (by
          have : brk (0x26 :: 0x26 :: r2) = brk r2 := by
            rw [brk_cons_ne _ (by decide), brk_cons_ne _ (by decide)]
          simp only; omega) hmc
      cases hvi : vInter c (j + 1) (0x26 :: 0x26 :: r2) ms1 with
      | fuel => rw [hvi] at this; exact this
      | bad => rw [hvi] at this; exact this
      | ok p2 =>
        obtain ⟨r', ms'⟩ := p2
        rw [hvi] at this
        obtain ⟨⟨cs, cst', g1, g2, g3, g4⟩, t2, ht2, hnt2⟩ := this
        refine ⟨⟨cs, cst', g1, g2, by rw [g3]; exact hd1, g4⟩, t ++ ([0x26, 0x26] ++ t2), by rw [ht, ht2]; simp, ?_⟩
        refine neutIn_append hnt (neutIn_append ?_ hnt2)
        intro d
        exact neutralM_plains F (d + 1) (by
          intro z hz
          simp only [List.mem_cons, List.not_mem_nil, or_false] at hz
          rcases hz with rfl | rfl <;> (refine ⟨?_, ?_, ?_, ?_, ?_, ?_⟩ <;> decide))
    by_cases hd : ∃ r2, r1 = 0x2D :: 0x2D :: r2
    · -- `--`
      obtain ⟨r2, rfl⟩ := hd
      simp only [List.length_cons] at hl1 hb hf
      rw [vContents_dd c j hs hvo rfl, c4 r2 hi1]
      have := hS r2 ms1 (by omega) hch1.tail.tail f' { cst1 with inp := r2 } _ (by omega) rfl
        (by
          have : brk (0x2D :: 0x2D :: r2) = brk r2 := by
            rw [brk_cons_ne _ (by decide), brk_cons_ne _ (by decide)]
          simp only; omega) hmc
      cases hvi : vSub c (j + 1) (0x2D :: 0x2D :: r2) ms1 with
      | fuel => rw [hvi] at this; exact this
      | bad => rw [hvi] at this; exact this
      | ok p2 =>
        obtain ⟨r', ms'⟩ := p2
        rw [hvi] at this
        obtain ⟨⟨cs, cst', g1, g2, g3, g4⟩, t2, ht2, hnt2⟩ := this
        refine ⟨⟨cs, cst', g1, g2, by rw [g3]; exact hd1, g4⟩, t ++ ([0x2D, 0x2D] ++ t2), by rw [ht, ht2]; simp, ?_⟩
        refine neutIn_append hnt (neutIn_append ?_ hnt2)
        intro d
        exact neutralM_plains F (d + 1) (by
          intro z hz
          simp only [List.mem_cons, List.not_mem_nil, or_false] at hz
          rcases hz with rfl | rfl <;> (refine ⟨?_, ?_, ?_, ?_, ?_, ?_⟩ <;> decide))
    -- a union
    have hna : ∀ r, r1 ≠ 0x26 :: 0x26 :: r := fun r e => ha ⟨r, e⟩
    have hnd : ∀ r, r1 ≠ 0x2D :: 0x2D :: r := fun r e => hd ⟨r, e⟩
    rw [vContents_union c j hs hvo hna hnd]
    have hiu := iu_sim F c fl hn hO hU (x :: rest) (by simp) (by omega) hch f' cst {} false (by omega) hin hdep rfl
    have hcr : classSetExpression fl hn (f' + 1) cst = crIU fl hn f' cst {} := by
      obtain ⟨f'', rfl⟩ : ∃ f'', f' = f'' + 1 := ⟨f' - 1, by simp only [List.length_cons] at hf; omega⟩
      rcases r1 with _ | ⟨y, r2⟩
      · -- the end of the input: both report the missing `]`
        rw [c1 hi1]
        unfold crIU
        rw [itemU_nodash fl hn (f'' + 1) cst {} hm (by rw [hi1]; intro r h; cases h)]
        simp only
        rw [csu_nil fl hn f'' cst1 _ hi1]
      · by_cases hy : y = 0x5D
        · subst hy
          rw [c2 r2 hi1]
          unfold crIU
          rw [itemU_nodash fl hn (f'' + 1) cst {} hm (by rw [hi1]; intro r h; cases h)]
          simp only
          rw [csu_close fl hn f'' cst1 _ hi1]
        · exact c5 y r2 hi1 hy (by rw [hi1]; exact hna) (by rw [hi1]; exact hnd)
    rw [hcr]
    exact hiu

end



section
variable (F : Feat) (c : Cfg) (fl : Flags) (hn : Bool)

/-- The class after its `[`: the optional `^` and the MayContainStrings early error. -/
theorem svk_step {n : Nat} (hC : SVC F c fl hn n) : SVK F c fl hn (n + 1) := by
  intro s hb hch neg body hnb f cst hf hin hdep
  rcases hnb with ⟨rfl, rfl⟩ | ⟨rfl, rfl, hnc⟩
  · -- negated
    simp only [List.length_cons] at hb
    rw [vClass_caret]
    have := hC body (by omega) hch.tail f cst hf hin hdep
    cases hv : vContents c n body with
    | fuel => rw [hv] at this; exact this
    | bad => rw [hv] at this; exact .inl this
    | ok p =>
      obtain ⟨r', ms⟩ := p
      rw [hv] at this
      obtain ⟨⟨cs, cst', g1, g2, g3, g4⟩, t, ht, hnt⟩ := this
      simp only
      cases ms with
      | true =>
        simp only [if_true]
        exact .inr ⟨trivial, cs, cst', g1, g4⟩
      | false =>
        simp only [Bool.false_eq_true, if_false]
        exact ⟨⟨cs, cst', g1, g2, g3, g4, fun _ => trivial⟩, 0x5E :: t, by rw [ht]; rfl,
          neutIn_append (p := [0x5E]) (neutIn_plain F plain_caret) hnt⟩
  · rw [vClass_plain c n hnc]
    have := hC s (by omega) hch f cst hf hin hdep
    cases hv : vContents c n s with
    | fuel => rw [hv] at this; exact this
    | bad => rw [hv] at this; exact .inl this
    | ok p =>
      obtain ⟨r', ms⟩ := p
      rw [hv] at this
      obtain ⟨⟨cs, cst', g1, g2, g3, g4⟩, t, ht, hnt⟩ := this
      exact ⟨⟨cs, cst', g1, g2, g3, g4, fun h => by cases h⟩, t, ht, hnt⟩

/-- All levels of the class-set simulation. -/
theorem v_all {F : Feat} {c : Cfg} {fl : Flags} (X : VCtx F c fl) (hn : Bool) : ∀ n,
    (SVO F c fl hn n ∧ SVK F c fl hn n ∧ SVC F c fl hn n ∧ SVU F c fl hn n ∧ SVI F c fl hn n ∧ SVS F c fl hn n) ∧
    (SVO F c fl hn (n + 1) ∧ SVK F c fl hn (n + 1) ∧ SVC F c fl hn (n + 1) ∧ SVU F c fl hn (n + 1) ∧
      SVI F c fl hn (n + 1) ∧ SVS F c fl hn (n + 1)) := by
  have z0 : SVO F c fl hn 0 ∧ SVK F c fl hn 0 ∧ SVC F c fl hn 0 ∧ SVU F c fl hn 0 ∧ SVI F c fl hn 0 ∧
      SVS F c fl hn 0 := by
    refine ⟨?_, ?_, ?_, ?_, ?_, ?_⟩
    · intro s h; omega
    · intro s h; omega
    · intro s h; omega
    · intro s ms h; omega
    · intro r ms h; omega
    · intro r ms h; omega
  intro n
  induction n with
  | zero =>
    obtain ⟨o0, k0, c0, u0, i0, s0⟩ := z0
    refine ⟨⟨o0, k0, c0, u0, i0, s0⟩, svo_step X hn k0, svk_step F c fl hn c0, ?_, ?_, svi_step F c fl hn o0 i0,
      svs_step F c fl hn o0 s0⟩
    · intro s h; omega
    · intro s ms h; omega
  | succ n ih =>
    obtain ⟨⟨o0, k0, c0, u0, i0, s0⟩, o1, k1, c1, u1, i1, s1⟩ := ih
    exact ⟨⟨o1, k1, c1, u1, i1, s1⟩, svo_step X hn k1, svk_step F c fl hn c1,
      svc_step F c fl hn o0 u1 i1 s1, svu_step F c fl hn o0 u1, svi_step F c fl hn o1 i1, svs_step F c fl hn o1 s1⟩

end


theorem atom_vclass (c : Cfg) (hcv : c.v = true) (n : Nat) (r0 : List Nat) (est : ESG.St) :
    atom c (n + 1) (0x5B :: r0) est =
      match vClass c n r0 with
      | .ok (r', _) => .ok (r', est)
      | .bad => .bad
      | .fuel => .fuel := by
  conv => lhs; unfold atom
  simp only [hcv, if_true]
  rfl

/-- The crate's `[` arm under the flag `v`. -/
theorem cAtom_vclass {cd : PState → Res (Node × PState)} {st : PState} {acc : List Node} {r0 : List Nat}
    (hv : st.flags.unicodeSets = true) (hin : st.input = 0x5B :: r0) (neg : Bool) (body : List Nat)
    (hb : (neg = true ∧ r0 = 0x5E :: body) ∨ (neg = false ∧ r0 = body ∧ ∀ r, r0 ≠ 0x5E :: r)) :
    consumeAtomA cd st acc 0x5B =
      match classSetExpression st.flags (!st.named.isEmpty) (2 * body.length + 4) { inp := body, depth := st.depth } with
      | .error e => .error e
      | .ok (cs, cst) =>
        if neg && cs.mayContainStrings then synErr "Negated class may not contain strings"
        else .ok ⟨acc ++ [cs.node st.flags.icase neg], { st with input := cst.inp, depth := cst.depth },
          acc.length, true⟩ := by
  unfold consumeAtomA
  simp only [Nat.reduceBEq, Bool.false_eq_true, if_false, beq_self_eq_true, hv, Bool.and_self, if_true]
  unfold atomClassSetA
  rw [consume_eq hin]
  rcases hb with ⟨rfl, rfl⟩ | ⟨rfl, rfl, hnc⟩
  · simp [tryConsume]
    rfl
  · have : tryConsume 0x5E { st with input := r0 } = (false, { st with input := r0 }) := by
      unfold tryConsume
      rcases r0 with _ | ⟨y, r1⟩
      · rfl
      · have hy : y ≠ 0x5E := fun e => hnc r1 (by rw [e])
        simp [hy]
    simp only [this]
    simp
    rfl



/-- A class set as an atom (flag `v`): the crate's `[` arm against the grammar's. -/
theorem vclass_sim (F : Feat) (c : Cfg) {cd : PState → Res (Node × PState)} (st : PState)
    (X : VCtx F c st.flags) (acc : List Node) {r0 : List Nat} (hin : st.input = 0x5B :: r0)
    (hch : AllChar r0) (hdep : st.depth + brk r0 ≤ 256) (n : Nat) (hn : 4 * r0.length + 4 ≤ n) (est : ESG.St) :
    match atom c (n + 1) (0x5B :: r0) est with
    | .ok (r', est') => est' = est ∧
        (∃ nd, consumeAtomA cd st acc 0x5B = .ok ⟨acc ++ [nd], { st with input := r' }, acc.length, true⟩) ∧
        ∃ p, 0x5B :: r0 = p ++ r' ∧ Neutral F p
    | .bad => IsSyn (consumeAtomA cd st acc 0x5B)
    | .fuel => False := by
  rw [atom_vclass c X.cv]
  obtain ⟨neg, body, hnb⟩ : ∃ neg body, (neg = true ∧ r0 = 0x5E :: body) ∨
      (neg = false ∧ r0 = body ∧ ∀ r, r0 ≠ 0x5E :: r) := by
    by_cases hc : ∃ b, r0 = 0x5E :: b
    · obtain ⟨b, hb'⟩ := hc; exact ⟨true, b, .inl ⟨rfl, hb'⟩⟩
    · exact ⟨false, r0, .inr ⟨rfl, rfl, fun r e => hc ⟨r, e⟩⟩⟩
  have hbl : body.length ≤ r0.length := by
    rcases hnb with ⟨_, h⟩ | ⟨_, h, _⟩ <;> (rw [h]; simp)
  have hbb : brk body ≤ brk r0 := by
    rcases hnb with ⟨_, h⟩ | ⟨_, h, _⟩
    · rw [h, brk_cons_ne _ (by decide)]; exact Nat.le_refl _
    · rw [h]; exact Nat.le_refl _
  have hK := ((v_all X (!st.named.isEmpty) n).1).2.1
  have hk := hK r0 hn hch neg body hnb (2 * body.length + 4) { inp := body, depth := st.depth } (by omega) rfl
    (by simp only; omega)
  rw [cAtom_vclass (cd := cd) (acc := acc) X.fv hin neg body hnb]
  cases hv : vClass c n r0 with
  | fuel => rw [hv] at hk; exact hk
  | bad =>
    rw [hv] at hk
    rcases hk with ⟨msg, hm⟩ | ⟨hneg, cs, cst', hm, hms⟩
    · simp only; rw [hm]; exact ⟨msg, rfl⟩
    · simp only; rw [hm]; simp only [hneg, hms, Bool.and_self, if_true]; exact isSyn_synErr _
  | ok p =>
    obtain ⟨r', ms⟩ := p
    rw [hv] at hk
    obtain ⟨⟨cs, cst', hm, h1, h2, h3, h4⟩, t, ht, hnt⟩ := hk
    simp only at h2 ⊢
    rw [hm]
    have hng : (neg && cs.mayContainStrings) = false := by
      cases neg with
      | false => rfl
      | true => rw [h3, h4 rfl]; rfl
    simp only [hng, Bool.false_eq_true, if_false]
    refine ⟨trivial, ⟨cs.node st.flags.icase neg, ?_⟩, 0x5B :: (t ++ [0x5D]), by rw [ht]; simp,
      neutral_class (hnt 0)⟩
    rw [h1, h2]


end Regress.C08Frag
