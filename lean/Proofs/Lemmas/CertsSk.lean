import Proofs.Lemmas.KeystoneCode
import Proofs.Lemmas.SafetyCommon
/-!
# Certificates, part 1: structured code

`Sk` is the skeleton of the code `emit` produces: plain instructions, sequencing, `Alt`/`Jump`
diamonds, general loops (`EnterLoop; ResetCaptureGroup*; body; LoopAgain`), `Loop1CharBody` with its
one-instruction body, capture groups (`Begin; body; End`) and look-arounds (`Look; body; Goal`).
`Lay I sk b`: the instruction array `I` contains the code of `sk` at `[b, b + sk.size)`, all jump
targets resolved.  All addresses are functions of `b` and the sizes of the parts, so the constructs of a
laid-out skeleton (its loops, look-arounds, …) are computable lists.

`Proofs/Lemmas/CertsCode.lean` shows that every `Keystone.Code` block is the layout of a skeleton whose
static properties (`Sk.ok`, `Sk.gsc`, `Sk.phase`, …) follow from the IR-level side conditions;
`Proofs/Lemmas/Certs*.lean` derive each program certificate from the layout of the root skeleton.
-/
namespace Regress.Certs

open Regress.VM Regress.Keystone Regress.VM.Safety

/-- The skeleton of structured code. -/
inductive Sk where
  | nil
  /-- one plain instruction (`plain i`) -/
  | one (i : Insn)
  | seq (a c : Sk)
  /-- `Alt; a; Jump; c` -/
  | alt (a c : Sk)
  /-- `EnterLoop id; ResetCaptureGroup g0 .. g0+cnt-1; body; LoopAgain` -/
  | loop (id mn : Nat) (mx : Option Nat) (gr : Bool) (g0 cnt : Nat) (body : Sk)
  /-- `Loop1CharBody; body` -/
  | loop1 (mn : Nat) (mx : Option Nat) (gr : Bool) (body : Insn)
  /-- `BeginCaptureGroup g; body; EndCaptureGroup g` -/
  | group (g : Nat) (body : Sk)
  /-- `Lookahead/Lookbehind; body; Goal` -/
  | look (neg bw : Bool) (sg eg : Nat) (body : Sk)
deriving Repr, Inhabited

/-- The instructions a `Sk.one` may hold: everything that is not control flow or a group write. -/
def plain : Insn → Bool
  | .goal | .justFail | .char _ | .startOfLine _ | .endOfLine _ | .matchAny
  | .matchAnyExceptLineTerminator | .backRef _ _ | .bracket _ | .asciiBracket _ | .wordBoundary _
  | .wordBoundaryUnicodeICase _ | .charSet _ | .byteSet _ | .byteSeq _ => true
  | _ => false

/-- The look-around instruction. -/
def lookI (neg bw : Bool) (sg eg k : Nat) : Insn :=
  if bw then .lookbehind neg sg eg k else .lookahead neg sg eg k

namespace Sk

/-- Number of instructions. -/
def size : Sk → Nat
  | .nil => 0
  | .one _ => 1
  | .seq a c => a.size + c.size
  | .alt a c => a.size + c.size + 2
  | .loop _ _ _ _ _ cnt body => body.size + cnt + 2
  | .loop1 _ _ _ _ => 2
  | .group _ body => body.size + 2
  | .look _ _ _ _ body => body.size + 2

end Sk

/-- The layout of a skeleton at address `b` (see the header). -/
def Lay (I : Array Insn) : Sk → Nat → Prop
  | .nil, _ => True
  | .one i, b => At I b i
  | .seq a c, b => Lay I a b ∧ Lay I c (b + a.size)
  | .alt a c, b => At I b (.alt (b + a.size + 2)) ∧ Lay I a (b + 1) ∧
      At I (b + a.size + 1) (.jump (b + a.size + c.size + 2)) ∧ Lay I c (b + a.size + 2)
  | .loop id mn mx gr g0 cnt body, b =>
      At I b (.enterLoop id mn mx gr (b + cnt + body.size + 2)) ∧
      (∀ i, i < cnt → At I (b + 1 + i) (.resetCaptureGroup (g0 + i))) ∧
      Lay I body (b + 1 + cnt) ∧ At I (b + 1 + cnt + body.size) (.loopAgain b)
  | .loop1 mn mx gr body, b => At I b (.loop1 mn mx gr) ∧ At I (b + 1) body
  | .group g body, b => At I b (.beginCaptureGroup g) ∧ Lay I body (b + 1) ∧
      At I (b + 1 + body.size) (.endCaptureGroup g)
  | .look neg bw sg eg body, b => At I b (lookI neg bw sg eg (b + body.size + 2)) ∧ Lay I body (b + 1) ∧
      At I (b + 1 + body.size) .goal

namespace Sk

/-! ## Static properties -/

/-- The payload clauses of `wfInsn` for a plain instruction (`G` = number of groups, `nb` = number of
brackets). -/
def leafWf (G nb : Nat) : Insn → Bool
  | .char c => c < 4294967296
  | .backRef g _ => g < G
  | .bracket idx => idx < nb
  | .asciiBracket bs => bs.all (· < 128)
  | .charSet cs => cs.length == 4 && cs.all (· < 4294967296)
  | .byteSet bs => 2 ≤ bs.length && bs.length ≤ 4 && bs.all (· < 128)
  | .byteSeq bs => 1 ≤ bs.length && bs.length ≤ 16 && bs.all (· < 256)
  | _ => true

/-- Local well-formedness (`G` groups, `nb` brackets, `L` loops). -/
def ok (G nb L : Nat) : Sk → Bool
  | .nil => true
  | .one i => plain i && leafWf G nb i
  | .seq a c => a.ok G nb L && c.ok G nb L
  | .alt a c => a.ok G nb L && c.ok G nb L
  | .loop id mn mx _ g0 cnt body =>
    decide (id < L) && leMax mn mx && (decide (cnt = 0) || decide (g0 + cnt ≤ G)) && body.ok G nb L
  | .loop1 mn mx _ body =>
    leMax mn mx && plain body && leafWf G nb body && scmAccepted body && loop1BodyOneChar body
  | .group g body => decide (g < G) && body.ok G nb L
  | .look _ _ sg eg body => decide (sg ≤ eg) && decide (eg ≤ G) && body.ok G nb L

/-- The groups of the `BeginCaptureGroup`s, in address order. -/
def begins : Sk → List Nat
  | .seq a c => a.begins ++ c.begins
  | .alt a c => a.begins ++ c.begins
  | .loop _ _ _ _ _ _ body => body.begins
  | .group g body => g :: body.begins
  | .look _ _ _ _ body => body.begins
  | _ => []

/-- The loop ids of the `EnterLoop`s, in address order. -/
def lids : Sk → List Nat
  | .seq a c => a.lids ++ c.lids
  | .alt a c => a.lids ++ c.lids
  | .loop id _ _ _ _ _ body => id :: body.lids
  | .group _ body => body.lids
  | .look _ _ _ _ body => body.lids
  | _ => []

/-- Group scoping: every group written inside (by `Begin`/`End`/`Reset`) and every look-around range is
within `[lo, hi)`; a look-around body is scoped by the look-around's own range; the resets of a loop
cover the `Begin`s of its body. -/
def gsc : Nat → Nat → Sk → Bool
  | lo, hi, .seq a c => gsc lo hi a && gsc lo hi c
  | lo, hi, .alt a c => gsc lo hi a && gsc lo hi c
  | lo, hi, .loop _ _ _ _ g0 cnt body =>
    (decide (cnt = 0) || (decide (lo ≤ g0) && decide (g0 + cnt ≤ hi))) && gsc lo hi body &&
      body.begins.all (fun g => decide (g0 ≤ g) && decide (g < g0 + cnt))
  | lo, hi, .group g body => decide (lo ≤ g) && decide (g < hi) && gsc lo hi body
  | lo, hi, .look _ _ sg eg body => decide (lo ≤ sg) && decide (sg ≤ eg) && decide (eg ≤ hi) && gsc sg eg body
  | _, _, _ => true

/-- The group ranges are exact: every group of the reset range of a loop, and of the range of a
look-around, has its `Begin` inside. -/
def rex : Sk → Bool
  | .seq a c => rex a && rex c
  | .alt a c => rex a && rex c
  | .loop _ _ _ _ g0 cnt body => (List.range' g0 cnt).all (fun g => body.begins.contains g) && rex body
  | .group _ body => rex body
  | .look _ _ sg eg body => (List.range' sg (eg - sg)).all (fun g => body.begins.contains g) && rex body
  | _ => true

/-- The phase transfer of a skeleton executed in direction `fwd`, entered at phase `k` (`none`: the
phase discipline is violated): `byteSeq` chunks thread the phase, everything else is entered and left
on a char boundary. -/
def phase : Bool → Sk → Nat → Option Nat
  | _, .nil, k => some k
  | fwd, .one (.byteSeq bs), k => if fwd then transF k bs else transB k bs
  | _, .one _, k => if k = 0 then some 0 else none
  | fwd, .seq a c, k =>
    match phase fwd a k with
    | some k' => phase fwd c k'
    | none => none
  | fwd, .alt a c, k =>
    if k = 0 ∧ phase fwd a 0 = some 0 ∧ phase fwd c 0 = some 0 then some 0 else none
  | fwd, .loop _ _ _ _ _ _ body, k => if k = 0 ∧ phase fwd body 0 = some 0 then some 0 else none
  | fwd, .loop1 _ _ _ body, k => if k = 0 ∧ phase fwd (.one body) 0 = some 0 then some 0 else none
  | fwd, .group _ body, k => if k = 0 ∧ phase fwd body 0 = some 0 then some 0 else none
  | _, .look _ bw _ _ body, k => if k = 0 ∧ phase (!bw) body 0 = some 0 then some 0 else none

/-- The last instruction is a plain `Goal` or `JustFail`. -/
def endsPlain : Sk → Bool
  | .one .goal => true
  | .one .justFail => true
  | .seq a c => if c.size = 0 then a.endsPlain else c.endsPlain
  | _ => false

/-! ## The constructs of a laid-out skeleton -/

/-- The general loops `(id, e, l)`: `EnterLoop id` at `e`, its `LoopAgain` at `l`. -/
def loops : Sk → Nat → List (Nat × Nat × Nat)
  | .seq a c, b => a.loops b ++ c.loops (b + a.size)
  | .alt a c, b => a.loops (b + 1) ++ c.loops (b + a.size + 2)
  | .loop id _ _ _ _ cnt body, b => (id, b, b + 1 + cnt + body.size) :: body.loops (b + 1 + cnt)
  | .group _ body, b => body.loops (b + 1)
  | .look _ _ _ _ body, b => body.loops (b + 1)
  | _, _ => []

/-- The look-arounds `(ip, k, sg, eg)`: the instruction at `ip`, continuation `k` (body `(ip, k)`). -/
def looks : Sk → Nat → List (Nat × Nat × Nat × Nat)
  | .seq a c, b => a.looks b ++ c.looks (b + a.size)
  | .alt a c, b => a.looks (b + 1) ++ c.looks (b + a.size + 2)
  | .loop _ _ _ _ _ cnt body, b => body.looks (b + 1 + cnt)
  | .group _ body, b => body.looks (b + 1)
  | .look _ _ sg eg body, b => (b, b + body.size + 2, sg, eg) :: body.looks (b + 1)
  | _, _ => []

end Sk

/-! ## Basic facts -/

theorem Lay.get {I : Array Insn} : ∀ {sk : Sk} {b : Nat}, Lay I sk b → ∀ x, b ≤ x → x < b + sk.size →
    ∃ i, I[x]? = some i
  | .nil, b, _, x, h1, h2 => by simp [Sk.size] at h2; omega
  | .one i, b, h, x, h1, h2 => by
    simp only [Sk.size] at h2
    have : x = b := by omega
    subst this; exact ⟨i, h⟩
  | .seq a c, b, h, x, h1, h2 => by
    simp only [Sk.size] at h2
    simp only [Lay] at h
    by_cases hx : x < b + a.size
    · exact Lay.get h.1 x h1 hx
    · exact Lay.get h.2 x (by omega) (by omega)
  | .alt a c, b, h, x, h1, h2 => by
    simp only [Sk.size] at h2
    simp only [Lay] at h
    obtain ⟨h0, ha, hj, hc⟩ := h
    by_cases hx0 : x = b
    · subst hx0; exact ⟨_, h0⟩
    · by_cases hx1 : x < b + 1 + a.size
      · exact Lay.get ha x (by omega) hx1
      · by_cases hx2 : x = b + a.size + 1
        · subst hx2; exact ⟨_, hj⟩
        · exact Lay.get hc x (by omega) (by omega)
  | .loop id mn mx gr g0 cnt body, b, h, x, h1, h2 => by
    simp only [Sk.size] at h2
    simp only [Lay] at h
    obtain ⟨h0, hr, hb, hl⟩ := h
    by_cases hx0 : x = b
    · subst hx0; exact ⟨_, h0⟩
    · by_cases hx1 : x < b + 1 + cnt
      · have := hr (x - (b + 1)) (by omega)
        rw [show b + 1 + (x - (b + 1)) = x by omega] at this
        exact ⟨_, this⟩
      · by_cases hx2 : x < b + 1 + cnt + body.size
        · exact Lay.get hb x (by omega) hx2
        · have : x = b + 1 + cnt + body.size := by omega
          subst this; exact ⟨_, hl⟩
  | .loop1 mn mx gr body, b, h, x, h1, h2 => by
    simp only [Sk.size] at h2
    simp only [Lay] at h
    by_cases hx0 : x = b
    · subst hx0; exact ⟨_, h.1⟩
    · have : x = b + 1 := by omega
      subst this; exact ⟨_, h.2⟩
  | .group g body, b, h, x, h1, h2 => by
    simp only [Sk.size] at h2
    simp only [Lay] at h
    obtain ⟨h0, hb, hl⟩ := h
    by_cases hx0 : x = b
    · subst hx0; exact ⟨_, h0⟩
    · by_cases hx2 : x < b + 1 + body.size
      · exact Lay.get hb x (by omega) hx2
      · have : x = b + 1 + body.size := by omega
        subst this; exact ⟨_, hl⟩
  | .look neg bw sg eg body, b, h, x, h1, h2 => by
    simp only [Sk.size] at h2
    simp only [Lay] at h
    obtain ⟨h0, hb, hl⟩ := h
    by_cases hx0 : x = b
    · subst hx0; exact ⟨_, h0⟩
    · by_cases hx2 : x < b + 1 + body.size
      · exact Lay.get hb x (by omega) hx2
      · have : x = b + 1 + body.size := by omega
        subst this; exact ⟨_, hl⟩

theorem at_inj {I : Array Insn} {x : Nat} {i j : Insn} (h1 : At I x i) (h2 : At I x j) : i = j := by
  unfold At at h1 h2; rw [h1] at h2; cases h2; rfl

theorem At.lt {I : Array Insn} {x : Nat} {i : Insn} (h : At I x i) : x < I.size :=
  lt_of_getElem?_eq_some h

theorem Lay.size_le {I : Array Insn} {sk : Sk} {b : Nat} (h : Lay I sk b) : b + sk.size ≤ I.size ∨ sk.size = 0 := by
  by_cases hz : sk.size = 0
  · exact Or.inr hz
  · left
    obtain ⟨i, hi⟩ := h.get (b + sk.size - 1) (by omega) (by omega)
    have := lt_of_getElem?_eq_some hi
    omega

end Regress.Certs
