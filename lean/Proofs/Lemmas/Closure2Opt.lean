import Proofs.Lemmas.Closure2Groups
import Proofs.Lemmas.E2EOpt
/-!
# Closure 2, part 2 (C16, optimizer side): `optimize` keeps the list of capture groups

Every pass of `optimizer::optimize` leaves `Closure.groupList` — the capture groups `(id, name)` of
the tree in emission (pre-)order — **unchanged** (not merely permuted): nodes are only removed,
replaced or duplicated when they contain no capture group (`remove_empties` needs `WF`'s
"`g0..g1` empty ↔ no group in the loop body"; `propagate_early_fails` checks
`contains_capture_groups`, which does not look into `Loop1CharBody`, whose body has no group by `WF`;
`unroll_loops` duplicates only loops with an empty group range), `decat` / `form_literal_bytes` keep
the order of the children.  The node-local facts are lifted by `E2E.optimize_rel`.
-/
namespace Regress.Closure2

open Regress Regress.IR Regress.Closure Regress.E2E Regress.Gen

/-- The relation lifted through the walks: same capture groups, in the same order. -/
def GR (n m : Node) : Prop := groupList m = groupList n

theorem relList_groups {ns ns' : List Node} (h : RelList GR ns ns') : groupLists ns' = groupLists ns := by
  induction ns generalizing ns' with
  | nil => cases ns' <;> simp [RelList] at h ⊢
  | cons a t ih =>
    cases ns' with
    | nil => simp [RelList] at h
    | cons b t' =>
      simp only [RelList] at h
      simp only [groupLists, ih h.2]
      rw [h.1]

theorem GR_congr : RelCongr GR where
  refl _ := rfl
  trans h1 h2 := h2.trans h1
  cat h := by simpa only [GR, groupList] using relList_groups h
  alt h1 h2 := by simp only [GR, groupList]; rw [h1, h2]
  group h := by simp only [GR, groupList]; rw [h]
  look h := by simpa only [GR, groupList] using h
  loop h := by simpa only [GR, groupList] using h
  loop1 h := by simpa only [GR, groupList] using h

/-! ## Nodes without groups -/

theorem groupList_of_isEmpty {n : Node} (h : n.isEmpty = true) : groupList n = [] := by
  cases n <;> simp [Node.isEmpty] at h <;> rfl

theorem groupLists_filter_nonempty (ns : List Node) :
    groupLists (ns.filter (fun nn => !nn.isEmpty)) = groupLists ns := by
  induction ns with
  | nil => rfl
  | cons a t ih =>
    rw [List.filter_cons]
    split
    · simp only [groupLists, ih]
    · rename_i h
      simp only [groupLists, ih]
      rw [groupList_of_isEmpty (by simpa using h)]
      rfl

theorem groupLists_replicate (k : Nat) (b : Node) (h : groupList b = []) :
    groupLists (List.replicate k b) = [] := by
  induction k with
  | zero => rfl
  | succ k ih => simp [List.replicate_succ, groupLists, h, ih]

mutual
/-- `contains_capture_groups` is complete on well-formed trees (it does not look into a
`Loop1CharBody`, whose body has no group by `WF`). -/
theorem groupList_of_not_contains : ∀ (n : Node), WF n → containsCaptureGroups n = false → groupList n = []
  | .group _ _ _, _, h => by simp [containsCaptureGroups] at h
  | .cat ns, hw, h => by
    simp only [containsCaptureGroups] at h
    simp only [groupList]
    exact groupLists_of_not_contains ns hw h
  | .alt l r, hw, h => by
    simp only [containsCaptureGroups, Bool.or_eq_false_iff] at h
    simp only [groupList, groupList_of_not_contains l hw.1 h.1, groupList_of_not_contains r hw.2 h.2,
      List.append_nil]
  | .loop b _ _ _, hw, h => by
    simp only [containsCaptureGroups] at h
    simp only [groupList]
    exact groupList_of_not_contains b hw.1 h
  | .look _ _ _ _ c, hw, h => by
    simp only [containsCaptureGroups] at h
    simp only [groupList]
    exact groupList_of_not_contains c hw h
  | .loop1 b _, hw, _ => by
    simp only [groupList]
    exact groupList_nil_of_numGroups hw.2.2
  | .empty, _, _ => rfl
  | .goal, _, _ => rfl
  | .char _, _, _ => rfl
  | .byteSeq _, _, _ => rfl
  | .byteSet _, _, _ => rfl
  | .charSet _, _, _ => rfl
  | .matchAny, _, _ => rfl
  | .matchAnyExceptLT, _, _ => rfl
  | .anchor _ _, _, _ => rfl
  | .wordBoundary _ _, _, _ => rfl
  | .backRef _ _, _, _ => rfl
  | .bracket _, _, _ => rfl
  | .stringSet _ _, _, _ => rfl
theorem groupLists_of_not_contains : ∀ (ns : List Node), WFList ns → anyContainsCaptureGroups ns = false →
    groupLists ns = []
  | [], _, _ => rfl
  | n :: ns, hw, h => by
    simp only [anyContainsCaptureGroups, Bool.or_eq_false_iff] at h
    simp only [groupLists, groupList_of_not_contains n hw.1 h.1, groupLists_of_not_contains ns hw.2 h.2,
      List.append_nil]
end

/-! ## The passes -/

theorem decatLoop_groups (rest : List Node) :
    ∀ acc, groupLists (decatLoop rest acc) = groupLists acc ++ groupLists rest := by
  induction rest with
  | nil => intro acc; simp [decatLoop, groupLists]
  | cons x rest ih =>
    intro acc
    have hgen : groupLists (decatLoop rest (acc ++ [x])) = groupLists acc ++ groupLists (x :: rest) := by
      rw [ih, groupLists_append]; simp [groupLists, List.append_assoc]
    cases x <;> try (simpa [decatLoop] using hgen)
    case cat nn =>
      simp only [decatLoop]
      rw [ih, groupLists_append]; simp [groupLists, groupList, List.append_assoc]

theorem decat_stepG : PassStep OptIn decat GR := by
  intro m w a hm h
  unfold decat at h
  split at h
  · rename_i nodes
    split at h
    · cases h; rfl
    · rename_i x
      cases h
      simp [GR, PassAction.result, groupList, groupLists]
    · split at h
      · cases h
        simp only [GR, PassAction.result, groupList, decatLoop_groups]
        simp [groupLists]
      · cases h; exact GR_congr.refl _
  · cases h; exact GR_congr.refl _

theorem removeEmpties_stepG : PassStep OptIn removeEmpties GR := by
  intro m w a hm h
  unfold removeEmpties at h
  split at h
  all_goals try (cases h; exact GR_congr.refl _)
  · split at h
    · cases h; rfl
    · cases h; exact GR_congr.refl _
  · rename_i nodes
    dsimp only at h
    have hf := groupLists_filter_nonempty nodes
    split at h
    · cases h; exact GR_congr.refl _
    · split at h
      · rename_i heq
        cases h
        rw [heq] at hf
        simp only [GR, PassAction.result, groupList]
        exact hf
      · rename_i x heq
        cases h
        rw [heq] at hf
        simp only [GR, PassAction.result, groupList]
        rw [← hf]; simp [groupLists]
      · cases h
        simp only [GR, PassAction.result, groupList]
        exact hf
  · rename_i left right
    split at h
    · rename_i he
      cases h
      simp only [Bool.and_eq_true] at he
      simp only [GR, PassAction.result, groupList, groupList_of_isEmpty he.1, groupList_of_isEmpty he.2,
        List.append_nil]
    · cases h; exact GR_congr.refl _
  · rename_i loopee quant g0 g1
    split at h
    · rename_i he
      cases h
      simp only [GR, PassAction.result, groupList]
      simp only [Bool.or_eq_true, Bool.and_eq_true, beq_iff_eq] at he
      rcases he with he | he
      · exact (groupList_of_isEmpty he).symm
      · have hw : WF (.loop loopee quant g0 g1) := hm.1
        exact (groupList_nil_of_numGroups (hw.2.2.mpr (by omega))).symm
    · cases h; exact GR_congr.refl _
  · rename_i negate _ _ _ contents
    split at h
    · rename_i he
      cases h
      simp only [Bool.and_eq_true] at he
      simp only [GR, PassAction.result, groupList]
      exact (groupList_of_isEmpty he.2).symm
    · cases h; exact GR_congr.refl _

theorem propagateEarlyFails_stepG : PassStep OptIn propagateEarlyFails GR := by
  intro m w a hm h
  unfold propagateEarlyFails at h
  split at h
  · cases h; exact GR_congr.refl _
  · rename_i hcc
    have hnil : groupList m = [] := groupList_of_not_contains m hm.1 (by simpa using hcc)
    split at h
    · split at h
      · cases h; simp only [GR, PassAction.result]; rw [hnil]; rfl
      · cases h; exact GR_congr.refl _
    · rename_i left right
      dsimp only at h
      simp only [groupList, List.append_eq_nil_iff] at hnil
      split at h
      · cases h; simp only [GR, PassAction.result, groupList, hnil.1, hnil.2]; rfl
      · cases h; exact GR_congr.refl _
      · cases h; simp only [GR, PassAction.result, groupList, hnil.1, hnil.2]; rfl
      · cases h; simp only [GR, PassAction.result, groupList, hnil.1, hnil.2]; rfl
    · split at h
      · cases h; exact GR_congr.refl _
      · split at h
        · cases h; simp only [GR, PassAction.result]; rw [hnil]; rfl
        · cases h; exact GR_congr.refl _
    · cases h; exact GR_congr.refl _

theorem promote1CharLoops_stepG : PassStep OptIn promote1CharLoops GR := by
  intro m w a hm h
  unfold promote1CharLoops at h
  split at h
  · split at h
    · cases h; exact GR_congr.refl _
    · split at h
      · cases h
      · cases h; simp only [GR, PassAction.result, groupList]
  · cases h; exact GR_congr.refl _

theorem unrollLoops_stepG : PassStep OptIn unrollLoops GR := by
  intro m w a hm h
  unfold unrollLoops at h
  split at h
  · rename_i loopee quant g0 g1
    split at h
    · cases h; exact GR_congr.refl _
    · rename_i hg
      split at h
      · cases h; exact GR_congr.refl _
      · split at h
        · cases h; exact GR_congr.refl _
        · split at h
          · cases h
          · cases h; exact GR_congr.refl _
          · rename_i unrolled hdup
            cases h
            have hu := unrollDup_eq loopee quant.min [] unrolled hdup
            have hul : unrolled = List.replicate quant.min loopee := by simpa using hu.1
            subst hul
            have hw : WF (.loop loopee quant g0 g1) := hm.1
            have hnil : groupList loopee = [] := groupList_nil_of_numGroups (hw.2.2.mpr (by omega))
            simp only [GR, PassAction.result, groupList, hnil]
            split
            · rw [groupLists_append, groupLists_replicate _ _ hnil]
              simp [groupLists, groupList, hnil]
            · exact groupLists_replicate _ _ hnil
  · cases h; exact GR_congr.refl _

theorem mergeLiteralBytes_groups (lb : Bool) :
    ∀ (rest : List Node) (prev : Node),
      groupLists (mergeLiteralBytes lb prev rest).1 = groupLists (prev :: rest) := by
  intro rest
  induction rest with
  | nil => intro prev; simp [mergeLiteralBytes]
  | cons curr rest ih =>
    intro prev
    unfold mergeLiteralBytes
    split
    · split
      · simp only [groupLists, ih, groupList]
      · simp only [groupLists, ih]
    · simp only [groupLists, ih]

theorem formLiteralBytes_stepG : PassStep OptIn formLiteralBytes GR := by
  intro m w a hm h
  unfold formLiteralBytes at h
  split at h
  · split at h
    · cases h; rfl
    · cases h; exact GR_congr.refl _
  · split at h
    · cases h; rfl
    · cases h; exact GR_congr.refl _
  · split at h
    · cases h; exact GR_congr.refl _
    · rename_i first rest
      dsimp only at h
      split at h
      · cases h
        simp only [GR, PassAction.result, groupList, mergeLiteralBytes_groups]
      · cases h; exact GR_congr.refl _
  · cases h; exact GR_congr.refl _

theorem simplifyBrackets_stepG : PassStep OptIn simplifyBrackets GR := by
  intro m w a hm h
  unfold simplifyBrackets at h
  split at h
  · rename_i bc
    split at h
    · rename_i newNode hred
      cases h
      obtain ⟨cs, rfl, _⟩ := tryReduceBracket_some hred
      rfl
    · dsimp only at h
      split at h
      · cases h; rfl
      · cases h; exact GR_congr.refl _
  · cases h; exact GR_congr.refl _

theorem GR_passes : PassesStep GR where
  simplifyBrackets := simplifyBrackets_stepG
  decat := decat_stepG
  unrollLoops := unrollLoops_stepG
  promote1CharLoops := promote1CharLoops_stepG
  formLiteralBytes := formLiteralBytes_stepG
  removeEmpties := removeEmpties_stepG
  propagateEarlyFails := propagateEarlyFails_stepG

/-- **`optimize` keeps the capture groups**: on a tree satisfying C07's `OptIn` (parser output does),
the list of capture groups `(id, name)` in emission order is the same before and after. -/
theorem optimize_groupList {fuel : Nat} {r r' : Regex} (hr : OptIn r.node) (h : optimize fuel r = .ok r') :
    groupList r'.node = groupList r.node :=
  (optimize_rel GR_congr GR_passes hr h).1

theorem optimize_groupIdsDense {fuel : Nat} {r r' : Regex} (hr : OptIn r.node)
    (h : optimize fuel r = .ok r') (hd : groupIdsDense r.node = true) : groupIdsDense r'.node = true := by
  unfold groupIdsDense groupIds at hd ⊢
  rw [optimize_groupList hr h]
  exact hd

end Regress.Closure2
