import Proofs.Lemmas.Utf16
/-!
# UTF-16 is prefix-free and suffix-free; comparing code units at char boundaries

The UTF-16 counterparts of `encodeAll_prefix_iff`, `matchBytes_iff_chars`,
`matchBytes_back_iff_chars` of `Proofs/Lemmas/Utf8.lean`: on well-formed text, `subrange_eq`
(a comparison of raw code units) from a char boundary succeeds iff the *scalars* agree, and then ends
on the char boundary that many scalars further.
-/
namespace Regress.Utf16
open Regress.Utf8 (AllScalar)

theorem slice_eq (units : Array Nat) (s e : Nat) :
    slice units s e = (units.toList.drop s).take (e - s) := by
  simp [slice, List.extract_eq_take_drop]

theorem drop_off16 (cs : List Nat) (k : Nat) :
    (encodeAll16 cs).drop (off16 cs k) = encodeAll16 (cs.drop k) := by
  rw [← encodeAll16_take_drop cs k]; simp [off16]

theorem take_off16 (cs : List Nat) (k : Nat) :
    (encodeAll16 cs).take (off16 cs k) = encodeAll16 (cs.take k) := by
  rw [← encodeAll16_take_drop cs k]; simp [off16]

theorem isScalar_cases {c : Nat} (h : isScalar c = true) : c < 0xD800 ∨ (0xDFFF < c ∧ c ≤ 0x10FFFF) := by
  simpa [isScalar] using h

/-- UTF-16 is prefix-free on scalar values. -/
theorem encode16_prefix_inj {d e : Nat} {X Y : List Nat} (hd : isScalar d = true) (he : isScalar e = true)
    (h : encode16 d ++ X <+: encode16 e ++ Y) : d = e := by
  have hd' := isScalar_cases hd
  have he' := isScalar_cases he
  unfold encode16 at h
  (repeat' split at h) <;> simp [List.cons_prefix_cons] at h <;> omega

/-- UTF-16 is suffix-free on scalar values. -/
theorem encode16_suffix_inj {d e : Nat} {X Y : List Nat} (hd : isScalar d = true) (he : isScalar e = true)
    (h : (encode16 d).reverse ++ X <+: (encode16 e).reverse ++ Y) : d = e := by
  have hd' := isScalar_cases hd
  have he' := isScalar_cases he
  unfold encode16 at h
  (repeat' split at h) <;> simp [List.cons_prefix_cons] at h <;> omega

theorem encodeAll16_prefix_iff {ds es : List Nat} (hd : AllScalar ds) (he : AllScalar es) :
    encodeAll16 ds <+: encodeAll16 es ↔ ds <+: es := by
  constructor
  · intro h
    induction ds generalizing es with
    | nil => exact List.nil_prefix
    | cons d ds ih =>
      cases es with
      | nil =>
        exfalso
        have h1 := h.length_le
        have := encode16_length_pos d
        simp only [encodeAll16_cons, encodeAll16_nil, List.length_append, List.length_nil] at h1; omega
      | cons e es =>
        simp only [encodeAll16_cons] at h
        have hde : d = e := encode16_prefix_inj (hd d (by simp)) (he e (by simp)) h
        subst hde
        rw [List.prefix_append_right_inj] at h
        rw [List.cons_prefix_cons]
        exact ⟨rfl, ih (fun c hc => hd c (by simp [hc])) (fun c hc => he c (by simp [hc])) h⟩
  · rintro ⟨t, rfl⟩
    rw [encodeAll16_append]; exact List.prefix_append _ _

/-- Reversed encoding of the reversed list (a `cons`-recursive function). -/
private def rencodeAll16 (ds : List Nat) : List Nat := (encodeAll16 ds.reverse).reverse

private theorem rencodeAll16_cons (d : Nat) (ds : List Nat) :
    rencodeAll16 (d :: ds) = (encode16 d).reverse ++ rencodeAll16 ds := by
  simp [rencodeAll16]

private theorem rencodeAll16_prefix {ds es : List Nat} (hd : AllScalar ds) (he : AllScalar es)
    (h : rencodeAll16 ds <+: rencodeAll16 es) : ds <+: es := by
  induction ds generalizing es with
  | nil => exact List.nil_prefix
  | cons d ds ih =>
    cases es with
    | nil =>
      exfalso
      have h1 := h.length_le
      have := encode16_length_pos d
      have h0 : rencodeAll16 [] = [] := by simp [rencodeAll16]
      rw [h0] at h1
      simp only [rencodeAll16_cons, List.length_append, List.length_reverse, List.length_nil] at h1
      omega
    | cons e es =>
      simp only [rencodeAll16_cons] at h
      have hde : d = e := encode16_suffix_inj (hd d (by simp)) (he e (by simp)) h
      subst hde
      rw [List.prefix_append_right_inj] at h
      rw [List.cons_prefix_cons]
      exact ⟨rfl, ih (fun c hc => hd c (by simp [hc])) (fun c hc => he c (by simp [hc])) h⟩

theorem encodeAll16_suffix_iff {ds es : List Nat} (hd : AllScalar ds) (he : AllScalar es) :
    encodeAll16 ds <:+ encodeAll16 es ↔ ds <:+ es := by
  constructor
  · intro h
    rw [← List.reverse_prefix] at h ⊢
    apply rencodeAll16_prefix (fun c hc => hd c (by simpa using hc)) (fun c hc => he c (by simpa using hc))
    simpa [rencodeAll16] using h
  · rintro ⟨t, rfl⟩
    rw [encodeAll16_append]; exact List.suffix_append _ _

theorem off16_add_of_prefix {cs ds : List Nat} {k : Nat} (h : ds <+: cs.drop k) :
    off16 cs (k + ds.length) = off16 cs k + (encodeAll16 ds).length := by
  unfold off16
  rw [List.take_add, encodeAll16_append, List.length_append, ← List.prefix_iff_eq_take.mp h]

theorem off16_sub_of_suffix {cs ds : List Nat} {k : Nat} (hk : k ≤ cs.length)
    (h : ds <:+ cs.take k) : off16 cs (k - ds.length) + (encodeAll16 ds).length = off16 cs k := by
  obtain ⟨t, ht⟩ := h
  have hlen : t.length + ds.length = k := by
    have := congrArg List.length ht
    simp only [List.length_append, List.length_take] at this; omega
  have ht' : cs.take (k - ds.length) = t := by
    have : cs.take (k - ds.length) = (cs.take k).take (k - ds.length) := by
      rw [List.take_take]; congr 1; omega
    rw [this, ← ht, show k - ds.length = t.length by omega, List.take_left]
  unfold off16
  rw [ht', ← ht, encodeAll16_append, List.length_append]

/-- The units between two boundaries are the encoding of the scalars between them. -/
theorem slice16_between (cs : List Nat) {i j : Nat} (hij : i ≤ j) :
    slice (text16 cs) (off16 cs i) (off16 cs j) = encodeAll16 ((cs.drop i).take (j - i)) := by
  rw [slice_eq]
  simp only [text16, List.toList_toArray, drop_off16]
  have hadd : off16 cs j = off16 cs i + off16 (cs.drop i) (j - i) := by
    simp only [off16]
    rw [show j = i + (j - i) by omega, List.take_add, encodeAll16_append, List.length_append]
    simp
  rw [hadd, Nat.add_sub_cancel_left, take_off16]

/-- `subrange_eq` with the compared units given as a list (`lit.length` units from `pos`). -/
def matchUnits (units : Array Nat) (fwd : Bool) (pos : Nat) (lit : List Nat) : Option Nat :=
  if fwd then
    match tryMoveRight units pos lit.length with
    | none => none
    | some e => if slice units pos e == lit then some e else none
  else
    match tryMoveLeft pos lit.length with
    | none => none
    | some s => if slice units s pos == lit then some s else none

theorem slice_length {units : Array Nat} {s e : Nat} (h1 : s ≤ e) (h2 : e ≤ units.size) :
    (slice units s e).length = e - s := by
  simp [slice]; omega

theorem subrangeEq_eq_matchUnits {units : Array Nat} (fwd : Bool) (pos : Nat) {rs re : Nat}
    (h1 : rs ≤ re) (h2 : re ≤ units.size) :
    subrangeEq units fwd pos rs re = matchUnits units fwd pos (slice units rs re) := by
  simp only [subrangeEq, matchUnits, slice_length h1 h2]
  cases fwd
  · simp only [Bool.false_eq_true, if_false]
    cases tryMoveLeft pos (re - rs) <;> rfl
  · simp only [if_true]
    cases tryMoveRight units pos (re - rs) <;> rfl

/-- Forward comparison with the encoding of `ds` at the `k`-th boundary. -/
theorem matchUnits_iff_chars {cs ds : List Nat} (hcs : AllScalar cs) (hds : AllScalar ds) (k e : Nat) :
    matchUnits (text16 cs) true (off16 cs k) (encodeAll16 ds) = some e ↔
      (ds <+: cs.drop k ∧ e = off16 cs (k + ds.length)) := by
  have hsz : (text16 cs).size - off16 cs k = (encodeAll16 (cs.drop k)).length := by
    rw [← drop_off16]; simp
  have hsl : slice (text16 cs) (off16 cs k) (off16 cs k + (encodeAll16 ds).length) =
      (encodeAll16 (cs.drop k)).take (encodeAll16 ds).length := by
    rw [slice_eq]; simp only [text16, Nat.add_sub_cancel_left]; rw [drop_off16]
  unfold matchUnits tryMoveRight
  simp only [if_true, hsz]
  by_cases hlen : (encodeAll16 (cs.drop k)).length < (encodeAll16 ds).length
  · simp only [hlen, if_true]
    constructor
    · intro h; cases h
    · rintro ⟨hp, rfl⟩
      have := ((encodeAll16_prefix_iff hds (hcs.drop k)).mpr hp).length_le; omega
  · simp only [hlen, if_false, hsl]
    constructor
    · intro h
      split at h
      · rename_i heq
        have hp : encodeAll16 ds <+: encodeAll16 (cs.drop k) := by
          rw [List.prefix_iff_eq_take]; exact (eq_of_beq heq).symm
        have hp' := (encodeAll16_prefix_iff hds (hcs.drop k)).mp hp
        simp only [Option.some.injEq] at h
        exact ⟨hp', by rw [off16_add_of_prefix hp']; exact h.symm⟩
      · cases h
    · rintro ⟨hp, rfl⟩
      have hp' := (encodeAll16_prefix_iff hds (hcs.drop k)).mpr hp
      rw [← List.prefix_iff_eq_take.mp hp']
      simp [off16_add_of_prefix hp]

/-- Backward comparison with the encoding of `ds` ending at the `k`-th boundary. -/
theorem matchUnits_back_iff_chars {cs ds : List Nat} (hcs : AllScalar cs) (hds : AllScalar ds)
    {k : Nat} (hk : k ≤ cs.length) (s : Nat) :
    matchUnits (text16 cs) false (off16 cs k) (encodeAll16 ds) = some s ↔
      (ds <:+ cs.take k ∧ s = off16 cs (k - ds.length)) := by
  have hsl : (encodeAll16 ds).length ≤ off16 cs k →
      slice (text16 cs) (off16 cs k - (encodeAll16 ds).length) (off16 cs k) =
        (encodeAll16 (cs.take k)).drop ((encodeAll16 (cs.take k)).length - (encodeAll16 ds).length) := by
    intro hle
    rw [slice_eq, ← List.drop_take]
    simp only [text16]
    rw [take_off16]; rfl
  unfold matchUnits tryMoveLeft
  simp only [Bool.false_eq_true, if_false]
  by_cases hlen : off16 cs k < (encodeAll16 ds).length
  · simp only [hlen, if_true]
    constructor
    · intro h; cases h
    · rintro ⟨hp, rfl⟩
      have := off16_sub_of_suffix hk hp; omega
  · simp only [hlen, if_false, hsl (by omega)]
    constructor
    · intro h
      split at h
      · rename_i heq
        have hp : encodeAll16 ds <:+ encodeAll16 (cs.take k) := by
          rw [List.suffix_iff_eq_drop]; exact (eq_of_beq heq).symm
        have hp' := (encodeAll16_suffix_iff hds (hcs.take k)).mp hp
        simp only [Option.some.injEq] at h
        have := off16_sub_of_suffix hk hp'
        exact ⟨hp', by omega⟩
      · cases h
    · rintro ⟨hp, rfl⟩
      have hp' := (encodeAll16_suffix_iff hds (hcs.take k)).mpr hp
      rw [← List.suffix_iff_eq_drop.mp hp']
      have := off16_sub_of_suffix hk hp
      simp; omega

example : matchUnits (text16 [0x61, 0x1F600, 0x20AC, 0x1F600]) true 1 (encodeAll16 [0x1F600, 0x20AC]) = some 4 := by
  decide
example : matchUnits (text16 [0x61, 0x1F600, 0x20AC, 0x1F600]) false 4 (encodeAll16 [0x1F600, 0x20AC]) = some 1 := by
  decide

end Regress.Utf16
