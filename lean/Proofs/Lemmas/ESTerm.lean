import RegressModel.Spec.ESMatch
import Proofs.Lemmas.ESLaws
/-!
# Fuel adequacy of the ECMAScript specification model (`RegressModel/Spec/ESMatch.lean`)

The only place where the model consumes fuel is `repeatMatcher`: the continuation `d` of one
iteration calls `repeatMatcher` with one unit less.  Every other Matcher passes the fuel it was
given, unchanged, to its sub-Matchers (the fuel is captured lexically by the closures), so the fuel
that is available at a point of the run is the initial fuel minus the iterations performed so far by
the quantifiers that *enclose* that point in the AST.  One quantifier `x{min,max}` entered at end
index `e` performs at most `min + dist(e)` iterations before `RepeatMatcher` step 2.a (the empty
check) or the end of the input stops it, where `dist(e) = n - e` in a forward context and `e` in a
look-behind; so `fuelNeed` below (sum, along the deepest nesting path of quantifiers, of
`min + n + 1`, or of `max` when that is smaller) is enough.

The statement proved by induction on the AST is `Matcher.Term`: *for every continuation that does
not run out of fuel on the states reachable in direction `d` from `x`, the Matcher does not run out
of fuel with fuel `≥ N`.*  It composes for sequence (both directions), alternation, groups,
quantifiers and look-arounds (which run their body against the continuation `y ↦ y`).

No well-formedness of the AST is needed (`validate` plays no role): back-references to groups that
do not exist, quantifiers with `max < min`, … all terminate.
-/
namespace Regress.ES

/-! ## The fuel bound -/

/-- Iterations one quantifier `{min,max}` can chain on an input of `n` characters, plus the final
call that stops (`max = 0`, the empty check, or the body failing at the end of the input). -/
def quantFuel (n mn : Nat) : Option Nat → Nat
  | none => mn + n + 1
  | some mx => min mx (mn + n + 1)

mutual
/-- Fuel that suffices for the Matcher of a node on any input of `n` characters: the quantifiers
on one root-to-leaf path add up, siblings (sequence, alternation) take the maximum. -/
def fuelNeed (n : Nat) : Node → Nat
  | .cat ns => fuelNeedList n ns
  | .alt ns => fuelNeedList n ns
  | .group _ _ a => fuelNeed n a
  | .nc a => fuelNeed n a
  | .mod _ _ a => fuelNeed n a
  | .look _ _ a => fuelNeed n a
  | .quant min max _ a => quantFuel n min max + fuelNeed n a
  | _ => 0
def fuelNeedList (n : Nat) : List Node → Nat
  | [] => 0
  | a :: as => max (fuelNeed n a) (fuelNeedList n as)
end

/-- **The explicit fuel bound**: for pattern `a` on an input of `n` code points. Linear in `n`:
`esFuelBound a n ≤ quantDepth a * (n + 1) + quantMinSum a` (`fuelNeed_le` below). -/
def esFuelBound (a : Node) (n : Nat) : Nat := fuelNeed n a

/-! ## Direction-relative order -/

/-- `b` is reachable from `a` moving in direction `d` -/
def dirLe (d : Direction) (a b : Nat) : Prop :=
  match d with
  | .forward => a ≤ b
  | .backward => b ≤ a

theorem dirLe_refl (d : Direction) (a : Nat) : dirLe d a a := by
  cases d <;> exact Nat.le_refl _

theorem dirLe_trans {d : Direction} {a b c : Nat} (h1 : dirLe d a b) (h2 : dirLe d b c) :
    dirLe d a c := by
  cases d <;> simp only [dirLe] at * <;> omega

/-- characters left before the end of the input in direction `d` -/
def dist (d : Direction) (n e : Nat) : Nat :=
  match d with
  | .forward => n - e
  | .backward => e

/-! ## Terminating Matchers -/

/-- `m` answers (success or failure) whenever it has fuel `≥ N`, is started inside the input
`[0, n]` and its continuation answers on every state inside the input that lies in direction `d`
from the start state. -/
def Matcher.Term (m : Matcher) (n : Nat) (d : Direction) (N : Nat) : Prop :=
  ∀ fuel x c, N ≤ fuel → x.endIndex ≤ n →
    (∀ y : State, y.endIndex ≤ n → dirLe d x.endIndex y.endIndex → c y ≠ .outOfFuel) →
    m.run fuel x c ≠ .outOfFuel

theorem Matcher.Term.mono {m : Matcher} {n : Nat} {d : Direction} {N N' : Nat}
    (h : m.Term n d N) (hN : N ≤ N') : m.Term n d N' :=
  fun fuel x c hf hx hc => h fuel x c (Nat.le_trans hN hf) hx hc

theorem emptyMatcher_term (n : Nat) (d : Direction) : emptyMatcher.Term n d 0 :=
  fun _ x _ _ hx hc => hc x hx (dirLe_refl _ _)

theorem failMatcher_term (n : Nat) (d : Direction) : Matcher.Term ⟨fun _ _ _ => .failure⟩ n d 0 :=
  fun _ _ _ _ _ _ => by simp

theorem matchTwoAlternatives_term {m1 m2 : Matcher} {n : Nat} {d : Direction} {N1 N2 : Nat}
    (h1 : m1.Term n d N1) (h2 : m2.Term n d N2) :
    (matchTwoAlternatives m1 m2).Term n d (max N1 N2) := by
  intro fuel x c hf hx hc
  have hf1 : N1 ≤ fuel := Nat.le_trans (Nat.le_max_left _ _) hf
  have hf2 : N2 ≤ fuel := Nat.le_trans (Nat.le_max_right _ _) hf
  simp only [matchTwoAlternatives]
  have := h1 fuel x c hf1 hx hc
  cases hr : m1.run fuel x c with
  | failure => exact h2 fuel x c hf2 hx hc
  | success y => simp
  | outOfFuel => exact absurd hr this

theorem matchSequence_term {m1 m2 : Matcher} {n : Nat} {d : Direction} {N1 N2 : Nat}
    (h1 : m1.Term n d N1) (h2 : m2.Term n d N2) :
    (matchSequence m1 m2 d).Term n d (max N1 N2) := by
  intro fuel x c hf hx hc
  have hf1 : N1 ≤ fuel := Nat.le_trans (Nat.le_max_left _ _) hf
  have hf2 : N2 ≤ fuel := Nat.le_trans (Nat.le_max_right _ _) hf
  cases d <;> simp only [matchSequence]
  · exact h1 fuel x _ hf1 hx (fun y hy hxy =>
      h2 fuel y c hf2 hy (fun z hz hyz => hc z hz (dirLe_trans hxy hyz)))
  · exact h2 fuel x _ hf2 hx (fun y hy hxy =>
      h1 fuel y c hf1 hy (fun z hz hyz => hc z hz (dirLe_trans hxy hyz)))

theorem characterSetMatcher_term (input : Array Nat) (rer : RER) (a : CharSet) (inv : Bool)
    (d : Direction) : (characterSetMatcher input rer a inv d).Term input.size d 0 := by
  intro fuel x c _ hx hc
  cases d <;>
    simp only [characterSetMatcher, reduceCtorEq, false_and, true_and, false_or, or_false,
      if_true, if_false] <;>
    repeat' (first
      | (exact fun h => MatchResult.noConfusion h)
      | (apply hc <;> simp only [dirLe] <;> omega)
      | split)

theorem backreferenceMatcher_term (input : Array Nat) (rer : RER) (ns : List Nat) (d : Direction) :
    (backreferenceMatcher input rer ns d).Term input.size d 0 := by
  intro fuel x c _ hx hc
  cases d <;>
    simp only [backreferenceMatcher, reduceCtorEq, false_and, true_and, false_or, or_false,
      if_true, if_false] <;>
    repeat' (first
      | (exact fun h => MatchResult.noConfusion h)
      | exact hc x hx (dirLe_refl _ _)
      | (apply hc <;> simp only [dirLe] <;> omega)
      | split)

theorem bolMatcher_term (input : Array Nat) (rer : RER) (n : Nat) (d : Direction) :
    (bolMatcher input rer).Term n d 0 := by
  intro fuel x c _ hx hc
  simp only [bolMatcher]
  split
  · exact hc x hx (dirLe_refl _ _)
  · simp

theorem eolMatcher_term (input : Array Nat) (rer : RER) (n : Nat) (d : Direction) :
    (eolMatcher input rer).Term n d 0 := by
  intro fuel x c _ hx hc
  simp only [eolMatcher]
  split
  · exact hc x hx (dirLe_refl _ _)
  · simp

theorem wordBoundaryMatcher_term (input : Array Nat) (rer : RER) (neg : Bool) (n : Nat)
    (d : Direction) : (wordBoundaryMatcher input rer neg).Term n d 0 := by
  intro fuel x c _ hx hc
  simp only [wordBoundaryMatcher]
  split
  · exact hc x hx (dirLe_refl _ _)
  · simp

/-- A look-around runs its body (direction `d'`) to completion against `y ↦ y`, then continues at
the *same* end index: it terminates in any context direction `d`. -/
theorem positiveLookMatcher_term {m : Matcher} {n : Nat} {d' : Direction} {N : Nat}
    (h : m.Term n d' N) (d : Direction) : (positiveLookMatcher m).Term n d N := by
  intro fuel x c hf hx hc
  simp only [positiveLookMatcher]
  have := h fuel x (fun y => .success y) hf hx (fun _ _ _ => by simp)
  cases hr : m.run fuel x (fun y => .success y) with
  | failure => simp
  | success y => exact hc _ hx (dirLe_refl _ _)
  | outOfFuel => exact absurd hr this

theorem negativeLookMatcher_term {m : Matcher} {n : Nat} {d' : Direction} {N : Nat}
    (h : m.Term n d' N) (d : Direction) : (negativeLookMatcher m).Term n d N := by
  intro fuel x c hf hx hc
  simp only [negativeLookMatcher]
  have := h fuel x (fun y => .success y) hf hx (fun _ _ _ => by simp)
  cases hr : m.run fuel x (fun y => .success y) with
  | failure => exact hc x hx (dirLe_refl _ _)
  | success y => simp
  | outOfFuel => exact absurd hr this

/-! ## `RepeatMatcher` -/

/-- One step of the argument shared by the two bounds: if every recursive call (`hrec`) answers,
so does this call. -/
theorem repeatMatcher_step {m : Matcher} {n : Nat} {d : Direction} {Nb : Nat} (hm : m.Term n d Nb)
    (g : Bool) (pi pc k min : Nat) (max : Option Nat) (x : State) (c : Cont)
    (hk : Nb ≤ k + 1) (hx : x.endIndex ≤ n)
    (hc : ∀ y : State, y.endIndex ≤ n → dirLe d x.endIndex y.endIndex → c y ≠ .outOfFuel)
    (hrec : ∀ y : State, y.endIndex ≤ n → dirLe d x.endIndex y.endIndex →
      ¬ (min = 0 ∧ y.endIndex = x.endIndex) →
      repeatMatcher m g pi pc k (min - 1) (max.map (· - 1)) y c ≠ .outOfFuel) :
    repeatMatcher m g pi pc (k + 1) min max x c ≠ .outOfFuel := by
  have hmin : (if min = 0 then 0 else min - 1) = min - 1 := by split <;> omega
  have hcx : c x ≠ .outOfFuel := hc x hx (dirLe_refl _ _)
  by_cases hmx : max = some 0
  · subst hmx; rw [repeatMatcher_max_zero]; exact hcx
  · simp only [repeatMatcher, hmx, if_false, hmin]
    have hd : ∀ y : State, y.endIndex ≤ n →
        dirLe d (State.mk x.endIndex (resetCaptures x.captures pi pc)).endIndex y.endIndex →
        (if min = 0 ∧ y.endIndex = x.endIndex then MatchResult.failure
          else repeatMatcher m g pi pc k (min - 1) (max.map (· - 1)) y c)
          ≠ .outOfFuel := by
      intro y hy hxy
      split
      · simp
      · next hne => exact hrec y hy hxy hne
    have hbody := hm (k + 1) ⟨x.endIndex, resetCaptures x.captures pi pc⟩ _ hk hx hd
    split
    · exact hbody
    · split
      · cases hr : c x with
        | failure => exact hbody
        | success y => simp
        | outOfFuel => exact absurd hr hcx
      · cases hr : m.run (k + 1) ⟨x.endIndex, resetCaptures x.captures pi pc⟩ _ with
        | failure => exact hcx
        | success y => simp
        | outOfFuel => exact absurd hr hbody

/-- Bound through the empty check: `min` mandatory iterations, then every iteration moves the end
index in direction `d`. -/
theorem repeatMatcher_term_dist {m : Matcher} {n : Nat} {d : Direction} {Nb : Nat}
    (hm : m.Term n d Nb) (g : Bool) (pi pc : Nat) :
    ∀ fuel min max x c, x.endIndex ≤ n → min + dist d n x.endIndex + 1 + Nb ≤ fuel →
      (∀ y : State, y.endIndex ≤ n → dirLe d x.endIndex y.endIndex → c y ≠ .outOfFuel) →
      repeatMatcher m g pi pc fuel min max x c ≠ .outOfFuel := by
  intro fuel
  induction fuel with
  | zero => intro min max x c _ hf _; omega
  | succ k ih =>
    intro min max x c hx hf hc
    apply repeatMatcher_step hm g pi pc k min max x c (by omega) hx hc
    intro y hy hxy hne
    apply ih _ _ y c hy
    · cases d <;> simp only [dist, dirLe] at * <;> omega
    · intro z hz hyz
      exact hc z hz (dirLe_trans hxy hyz)

/-- Bound through a finite `max`. -/
theorem repeatMatcher_term_max {m : Matcher} {n : Nat} {d : Direction} {Nb : Nat}
    (hm : m.Term n d Nb) (g : Bool) (pi pc : Nat) :
    ∀ fuel min mx x c, x.endIndex ≤ n → mx + Nb ≤ fuel →
      (∀ y : State, y.endIndex ≤ n → dirLe d x.endIndex y.endIndex → c y ≠ .outOfFuel) →
      repeatMatcher m g pi pc fuel min (some mx) x c ≠ .outOfFuel := by
  intro fuel
  induction fuel with
  | zero =>
    intro min mx x c hx hf hc
    have : mx = 0 := by omega
    subst this
    rw [repeatMatcher_max_zero]
    exact hc x hx (dirLe_refl _ _)
  | succ k ih =>
    intro min mx x c hx hf hc
    by_cases hmx : mx = 0
    · subst hmx
      rw [repeatMatcher_max_zero]
      exact hc x hx (dirLe_refl _ _)
    · apply repeatMatcher_step hm g pi pc k min (some mx) x c (by omega) hx hc
      intro y hy hxy _
      simp only [Option.map_some]
      apply ih _ _ y c hy (by omega)
      intro z hz hyz
      exact hc z hz (dirLe_trans hxy hyz)

theorem dist_le (d : Direction) {n e : Nat} (h : e ≤ n) : dist d n e ≤ n := by
  cases d <;> simp only [dist] <;> omega

theorem quantMatcher_term {m : Matcher} {n : Nat} {d : Direction} {Nb : Nat}
    (hm : m.Term n d Nb) (g : Bool) (pi pc min : Nat) (max : Option Nat) :
    Matcher.Term ⟨fun fuel x c => repeatMatcher m g pi pc fuel min max x c⟩ n d
      (quantFuel n min max + Nb) := by
  intro fuel x c hf hx hc
  have hd := dist_le d hx
  cases max with
  | none =>
    simp only [quantFuel] at hf
    exact repeatMatcher_term_dist hm g pi pc fuel min none x c hx (by omega) hc
  | some mx =>
    simp only [quantFuel] at hf
    by_cases h : mx ≤ min + n + 1
    · exact repeatMatcher_term_max hm g pi pc fuel min mx x c hx (by omega) hc
    · exact repeatMatcher_term_dist hm g pi pc fuel min (some mx) x c hx (by omega) hc

/-! ## Classes -/

theorem classStringMatcher_term (input : Array Nat) (rer : RER) (d : Direction) (s : List Nat) :
    (classStringMatcher input rer d s).Term input.size d 0 := by
  induction s with
  | nil => exact emptyMatcher_term _ _
  | cons a rest ih =>
    cases rest with
    | nil => exact characterSetMatcher_term _ _ _ _ _
    | cons b bs =>
      simp only [classStringMatcher]
      exact matchSequence_term (characterSetMatcher_term _ _ _ _ _) ih

theorem alternativesOf_term (ms : List Matcher) (n : Nat) (d : Direction)
    (h : ∀ m ∈ ms, m.Term n d 0) : (alternativesOf ms).Term n d 0 := by
  induction ms with
  | nil => exact failMatcher_term _ _
  | cons a rest ih =>
    cases rest with
    | nil => exact h a (by simp)
    | cons b bs =>
      simp only [alternativesOf]
      exact matchTwoAlternatives_term (h a (by simp))
        (ih (fun m hm => h m (List.mem_cons_of_mem _ hm)))

theorem charSetAtomMatcher_term (input : Array Nat) (rer : RER) (cs : CharSet) (inv : Bool)
    (d : Direction) : (charSetAtomMatcher input rer cs inv d).Term input.size d 0 := by
  simp only [charSetAtomMatcher]
  split
  · exact characterSetMatcher_term _ _ _ _ _
  · apply alternativesOf_term
    intro m hm
    split at hm
    · simp only [List.mem_append, List.mem_map, List.mem_singleton] at hm
      rcases hm with (⟨s, _, rfl⟩ | rfl) | rfl
      · exact classStringMatcher_term _ _ _ _
      · exact characterSetMatcher_term _ _ _ _ _
      · exact emptyMatcher_term _ _
    · simp only [List.mem_append, List.mem_map, List.mem_singleton] at hm
      rcases hm with ⟨s, _, rfl⟩ | rfl
      · exact classStringMatcher_term _ _ _ _
      · exact characterSetMatcher_term _ _ _ _ _

/-! ## Every compiled Matcher terminates -/

/-- **Every compiled Matcher answers with fuel `fuelNeed`**, in every direction, under every
RegExp Record, at every `parenIndex`, inside every enclosing pattern. -/
theorem compileNode_term (input : Array Nat) (pattern : Node) (a : Node) :
    ∀ rer d pi, (compileNode input pattern a rer d pi).Term input.size d (fuelNeed input.size a) := by
  induction a using Node.rec
    (motive_2 := fun ns =>
      (∀ acc rer d pi N, acc.Term input.size d N →
        (compileAlternative input pattern acc ns rer d pi).Term input.size d
          (max N (fuelNeedList input.size ns))) ∧
      (∀ rer d pi, (compileDisjunction input pattern ns rer d pi).Term input.size d
          (fuelNeedList input.size ns))) with
  | empty => intro rer d pi; simp only [compileNode, fuelNeed]; exact emptyMatcher_term _ _
  | char c => intro rer d pi; simp only [compileNode, fuelNeed]; exact characterSetMatcher_term _ _ _ _ _
  | dot => intro rer d pi; simp only [compileNode, fuelNeed]; exact characterSetMatcher_term _ _ _ _ _
  | bol => intro rer d pi; simp only [compileNode, fuelNeed]; exact bolMatcher_term _ _ _ _
  | eol => intro rer d pi; simp only [compileNode, fuelNeed]; exact eolMatcher_term _ _ _ _
  | wb => intro rer d pi; simp only [compileNode, fuelNeed]; exact wordBoundaryMatcher_term _ _ _ _ _
  | nwb => intro rer d pi; simp only [compileNode, fuelNeed]; exact wordBoundaryMatcher_term _ _ _ _ _
  | cat ns ih =>
    intro rer d pi; simp only [compileNode, fuelNeed]
    have := ih.1 emptyMatcher rer d pi 0 (emptyMatcher_term _ _)
    rwa [Nat.max_eq_right (Nat.zero_le _)] at this
  | alt ns ih => intro rer d pi; simp only [compileNode, fuelNeed]; exact ih.2 _ _ _
  | group idx name n ih =>
    intro rer d pi; simp only [compileNode, fuelNeed]
    intro fuel x c hf hx hc
    exact ih rer d (pi + 1) fuel x _ hf hx (fun y hy hxy => hc _ hy hxy)
  | nc n ih => intro rer d pi; simp only [compileNode, fuelNeed]; exact ih _ _ _
  | mod add rem n ih => intro rer d pi; simp only [compileNode, fuelNeed]; exact ih _ _ _
  | look ahead neg n ih =>
    intro rer d pi; simp only [compileNode, fuelNeed]
    split
    · exact negativeLookMatcher_term (ih _ _ _) d
    · exact positiveLookMatcher_term (ih _ _ _) d
  | bref idx => intro rer d pi; simp only [compileNode, fuelNeed]; exact backreferenceMatcher_term _ _ _ _
  | nref name => intro rer d pi; simp only [compileNode, fuelNeed]; exact backreferenceMatcher_term _ _ _ _
  | quant min max greedy n ih =>
    intro rer d pi; simp only [compileNode, fuelNeed]
    exact quantMatcher_term (ih rer d pi) greedy pi _ min max
  | esc e => intro rer d pi; simp only [compileNode, fuelNeed]; exact charSetAtomMatcher_term _ _ _ _ _
  | prop neg kind name => intro rer d pi; simp only [compileNode, fuelNeed]; exact charSetAtomMatcher_term _ _ _ _ _
  | cls neg items => intro rer d pi; simp only [compileNode, fuelNeed]; exact charSetAtomMatcher_term _ _ _ _ _
  | vcls neg op ops => intro rer d pi; simp only [compileNode, fuelNeed]; exact charSetAtomMatcher_term _ _ _ _ _
  | nil =>
    refine ⟨fun acc _ _ _ N h => ?_, fun _ _ _ => ?_⟩
    · simp only [compileAlternative, fuelNeedList]
      exact h.mono (Nat.le_max_left _ _)
    · simp only [compileDisjunction, fuelNeedList]; exact failMatcher_term _ _
  | cons a as iha ihas =>
    refine ⟨fun acc rer d pi N h => ?_, fun rer d pi => ?_⟩
    · simp only [compileAlternative, fuelNeedList]
      have := ihas.1 _ rer d (pi + countParens a) _ (matchSequence_term h (iha rer d pi))
      rwa [Nat.max_assoc] at this
    · cases as with
      | nil =>
        simp only [compileDisjunction, fuelNeedList]
        exact (iha _ _ _).mono (Nat.le_max_left _ _)
      | cons b bs =>
        simp only [compileDisjunction]
        rw [fuelNeedList]
        exact matchTwoAlternatives_term (iha _ _ _) (ihas.2 _ _ _)

/-! ## The anchored match, the search, the `g` loop -/

theorem matchAt_ne_outOfFuel (input : Array Nat) (pattern : Node) (rer : RER) {fuel i : Nat}
    (hi : i ≤ input.size) (hf : fuelNeed input.size pattern ≤ fuel) :
    matchAt input pattern rer fuel i ≠ .outOfFuel :=
  compileNode_term input pattern pattern rer .forward 0 fuel _ _ hf hi (fun _ _ _ => by simp)

theorem searchLoop_ne_outOfFuel {run : Nat → MatchResult} {bound : Nat}
    (h : ∀ i, i ≤ bound → run i ≠ .outOfFuel) :
    ∀ tries i, i + tries ≤ bound + 1 → searchLoop run tries i ≠ .outOfFuel := by
  intro tries
  induction tries with
  | zero => intro i _; simp [searchLoop]
  | succ k ih =>
    intro i hb
    simp only [searchLoop]
    have := h i (by omega)
    cases hr : run i with
    | failure => exact ih (i + 1) (by omega)
    | success y => simp
    | outOfFuel => exact absurd hr this

theorem iterLoop_complete {exec : Nat → ExecResult} (h : ∀ i, exec i ≠ .outOfFuel) :
    ∀ tries i, (iterLoop exec tries i).2 = true := by
  intro tries
  induction tries with
  | zero => intro i; rfl
  | succ k ih =>
    intro i
    simp only [iterLoop]
    have := h i
    cases hr : exec i with
    | noMatch => rfl
    | outOfFuel => exact absurd hr this
    | matched s e caps => exact ih _

/-! ## A closed form: the bound is linear in the input length -/

mutual
/-- nesting depth of quantifiers -/
def quantDepth : Node → Nat
  | .cat ns => quantDepthList ns
  | .alt ns => quantDepthList ns
  | .group _ _ a => quantDepth a
  | .nc a => quantDepth a
  | .mod _ _ a => quantDepth a
  | .look _ _ a => quantDepth a
  | .quant _ _ _ a => 1 + quantDepth a
  | _ => 0
def quantDepthList : List Node → Nat
  | [] => 0
  | a :: as => max (quantDepth a) (quantDepthList as)
end
mutual
/-- sum of the minima of all quantifiers -/
def quantMinSum : Node → Nat
  | .cat ns => quantMinSumList ns
  | .alt ns => quantMinSumList ns
  | .group _ _ a => quantMinSum a
  | .nc a => quantMinSum a
  | .mod _ _ a => quantMinSum a
  | .look _ _ a => quantMinSum a
  | .quant mn _ _ a => mn + quantMinSum a
  | _ => 0
def quantMinSumList : List Node → Nat
  | [] => 0
  | a :: as => quantMinSum a + quantMinSumList as
end

theorem quantFuel_le (n mn : Nat) (mx : Option Nat) : quantFuel n mn mx ≤ mn + n + 1 := by
  cases mx <;> simp only [quantFuel] <;> omega

theorem fuelNeed_le (n : Nat) (a : Node) :
    fuelNeed n a ≤ quantDepth a * (n + 1) + quantMinSum a := by
  induction a using Node.rec
    (motive_2 := fun ns => fuelNeedList n ns ≤ quantDepthList ns * (n + 1) + quantMinSumList ns) with
  | cat ns ih => simpa only [fuelNeed, quantDepth, quantMinSum] using ih
  | alt ns ih => simpa only [fuelNeed, quantDepth, quantMinSum] using ih
  | group idx name a ih => simpa only [fuelNeed, quantDepth, quantMinSum] using ih
  | nc a ih => simpa only [fuelNeed, quantDepth, quantMinSum] using ih
  | mod add rem a ih => simpa only [fuelNeed, quantDepth, quantMinSum] using ih
  | look ahead neg a ih => simpa only [fuelNeed, quantDepth, quantMinSum] using ih
  | quant mn mx g a ih =>
    simp only [fuelNeed, quantDepth, quantMinSum]
    have := quantFuel_le n mn mx
    rw [Nat.add_mul]
    omega
  | nil => simp [fuelNeedList]
  | cons a as iha ihas =>
    simp only [fuelNeedList, quantDepthList, quantMinSumList]
    have h1 : quantDepth a * (n + 1) ≤ max (quantDepth a) (quantDepthList as) * (n + 1) :=
      Nat.mul_le_mul_right _ (Nat.le_max_left _ _)
    have h2 : quantDepthList as * (n + 1) ≤ max (quantDepth a) (quantDepthList as) * (n + 1) :=
      Nat.mul_le_mul_right _ (Nat.le_max_right _ _)
    omega
  | _ => simp [fuelNeed]
end Regress.ES
