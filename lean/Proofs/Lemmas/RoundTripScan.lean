import Proofs.Lemmas.RoundTripMods
/-!
# Round trip, part 8: the capture-group pre-scan on the printed text

`scanLoop` (`collect_named_group_locations`) walks over the printed text of a node `n` and changes the
fields of its state that matter afterwards exactly as the AST says (`NodeRel n`): `gmax` grows by
`countParens n`, `named` gets the named groups of `n` (in order, with their 0-based numbers), `locs` gets
one path per named group.  The other fields (`parenDepth`, `altIdx`, `groupIds`, `nextGroupId`) only
determine the *values* of the paths, which are irrelevant when all names are different.
-/
namespace Regress.RoundTrip
open Regress Regress.IR Regress.Parse Regress.Lower Regress.Print

/-! ## Walking over a piece of text -/

/-- The scan walks over `t` (whatever follows), in at most `|t|` iterations, and relates the states by
`R`. -/
def Scans (fl : Flags) (t : List Nat) (R : Scan → Scan → Prop) : Prop :=
  ∀ (sc : Scan) (rest : List Nat) (fuel : Nat), t.length + rest.length < fuel →
    ∃ sc' fuel', rest.length < fuel' ∧ scanLoop fl fuel (t ++ rest) sc = scanLoop fl fuel' rest sc' ∧ R sc sc'

/-- The fields that matter are unchanged. -/
def TrEq (a b : Scan) : Prop := b.gmax = a.gmax ∧ b.named = a.named ∧ b.locs = a.locs

theorem TrEq.refl (a : Scan) : TrEq a a := ⟨rfl, rfl, rfl⟩

theorem TrEq.trans {a b c : Scan} (h1 : TrEq a b) (h2 : TrEq b c) : TrEq a c :=
  ⟨h2.1.trans h1.1, h2.2.1.trans h1.2.1, h2.2.2.trans h1.2.2⟩

theorem TrEq.of_eq {a b : Scan} (h : a = b) : TrEq a b := h ▸ TrEq.refl a

/-- The state is unchanged (text without parentheses and bars outside of escapes and classes). -/
def SEq (a b : Scan) : Prop := b = a

theorem SEq.tr {a b : Scan} (h : SEq a b) : TrEq a b := TrEq.of_eq h.symm

section
variable {fl : Flags}

theorem Scans.mono {t : List Nat} {R R' : Scan → Scan → Prop} (h : Scans fl t R)
    (hR : ∀ a b, R a b → R' a b) : Scans fl t R' := by
  intro sc rest fuel hf
  obtain ⟨sc', fuel', h1, h2, h3⟩ := h sc rest fuel hf
  exact ⟨sc', fuel', h1, h2, hR _ _ h3⟩

theorem Scans.append {t1 t2 : List Nat} {R1 R2 : Scan → Scan → Prop} (h1 : Scans fl t1 R1)
    (h2 : Scans fl t2 R2) : Scans fl (t1 ++ t2) (fun a c => ∃ b, R1 a b ∧ R2 b c) := by
  intro sc rest fuel hf
  obtain ⟨sc1, f1, hf1, e1, r1⟩ := h1 sc (t2 ++ rest) fuel (by simp at hf ⊢; omega)
  obtain ⟨sc2, f2, hf2, e2, r2⟩ := h2 sc1 rest f1 (by simpa using hf1)
  exact ⟨sc2, f2, hf2, by rw [List.append_assoc, e1, e2], sc1, r1, r2⟩

theorem Scans.nil : Scans fl [] (fun a b => a = b) := by
  intro sc rest fuel hf
  exact ⟨sc, fuel, by simpa using hf, rfl, rfl⟩

/-- Two pieces that both leave the tracked fields alone. -/
theorem Scans.append_tr {t1 t2 : List Nat} (h1 : Scans fl t1 TrEq) (h2 : Scans fl t2 TrEq) :
    Scans fl (t1 ++ t2) TrEq :=
  (h1.append h2).mono (fun _ _ ⟨_, a, b⟩ => a.trans b)

/-! ## Single steps -/

/-- A character the scan does not react to. -/
def plainC (c : Nat) : Bool := c != 0x5C && c != 0x5B && c != 0x28 && c != 0x29 && c != 0x7C

theorem scan_plain (f : Nat) {c : Nat} (r : List Nat) (sc : Scan) (h : plainC c = true) :
    scanLoop fl (f + 1) (c :: r) sc = scanLoop fl f r sc := by
  simp only [plainC, Bool.and_eq_true, bne_iff_ne, ne_eq] at h
  obtain ⟨⟨⟨⟨h1, h2⟩, h3⟩, h4⟩, h5⟩ := h
  have e1 : (c == 0x5C) = false := by simpa using h1
  have e2 : (c == 0x5B) = false := by simpa using h2
  have e3 : (c == 0x28) = false := by simpa using h3
  have e4 : (c == 0x29) = false := by simpa using h4
  have e5 : (c == 0x7C) = false := by simpa using h5
  rw [scanLoop.eq_def]; dsimp only
  simp only [e1, e2, e3, e4, e5, Bool.false_eq_true, if_false]

theorem scan_bs (f : Nat) (d : Nat) (r : List Nat) (sc : Scan) :
    scanLoop fl (f + 1) (0x5C :: d :: r) sc = scanLoop fl f r sc := by
  rw [scanLoop.eq_def]; dsimp only
  simp only [show ((0x5C : Nat) == 0x5C) = true from rfl, if_true, List.drop]

theorem Scans.tr {t : List Nat} (h : Scans fl t SEq) : Scans fl t TrEq := h.mono (fun _ _ h => h.tr)

theorem Scans.append_seq {t1 t2 : List Nat} (h1 : Scans fl t1 SEq) (h2 : Scans fl t2 SEq) :
    Scans fl (t1 ++ t2) SEq :=
  (h1.append h2).mono (fun _ _ ⟨_, a, b⟩ => by unfold SEq at *; rw [b, a])

theorem scans_plain : ∀ (t : List Nat), (∀ c ∈ t, plainC c = true) → Scans fl t SEq := by
  intro t
  induction t with
  | nil => intro _; exact Scans.nil.mono (fun _ _ h => h.symm)
  | cons c t ih =>
    intro h sc rest fuel hf
    obtain ⟨f, rfl⟩ : ∃ f, fuel = f + 1 := ⟨fuel - 1, by simp at hf; omega⟩
    obtain ⟨sc', f', h1, h2, h3⟩ := ih (fun d hd => h d (by simp [hd])) sc rest f (by simp at hf ⊢; omega)
    exact ⟨sc', f', h1, by rw [List.cons_append, scan_plain f _ sc (h c (by simp)), h2], h3⟩

/-- `\d` followed by plain text. -/
theorem scans_esc (d : Nat) (t : List Nat) (h : ∀ c ∈ t, plainC c = true) :
    Scans fl (0x5C :: d :: t) SEq := by
  intro sc rest fuel hf
  obtain ⟨f, rfl⟩ : ∃ f, fuel = f + 1 := ⟨fuel - 1, by simp at hf; omega⟩
  obtain ⟨sc', f', h1, h2, h3⟩ := scans_plain t h sc rest f (by simp at hf ⊢; omega)
  exact ⟨sc', f', h1, by rw [List.cons_append, List.cons_append, scan_bs, h2], h3⟩

theorem scan_rparen (f : Nat) (r : List Nat) (sc : Scan) :
    ∃ sc1, TrEq sc sc1 ∧ scanLoop fl (f + 1) (0x29 :: r) sc = scanLoop fl f r sc1 := by
  rw [scanLoop.eq_def]; dsimp only
  simp only [show ((0x29 : Nat) == 0x5C) = false from rfl, show ((0x29 : Nat) == 0x5B) = false from rfl,
    show ((0x29 : Nat) == 0x28) = false from rfl, show ((0x29 : Nat) == 0x29) = true from rfl,
    Bool.false_eq_true, if_false, if_true]
  by_cases h : sc.parenDepth > 0
  · simp only [h, if_true]
    refine ⟨?w, ?a, ?b⟩
    case b => rfl
    case a => exact ⟨rfl, rfl, rfl⟩
  · simp only [h, if_false]
    exact ⟨sc, TrEq.refl _, rfl⟩

theorem scans_rparen : Scans fl [0x29] TrEq := by
  intro sc rest fuel hf
  obtain ⟨f, rfl⟩ : ∃ f, fuel = f + 1 := ⟨fuel - 1, by simp at hf; omega⟩
  obtain ⟨sc1, h1, h2⟩ := scan_rparen (fl := fl) f rest sc
  exact ⟨sc1, f, by simp at hf; omega, h2, h1⟩

theorem scans_bar : Scans fl [0x7C] TrEq := by
  intro sc rest fuel hf
  obtain ⟨f, rfl⟩ : ∃ f, fuel = f + 1 := ⟨fuel - 1, by simp at hf; omega⟩
  refine ⟨?w, f, by simp at hf; omega, ?h1, ?h2⟩
  case h1 =>
    simp only [List.cons_append, List.nil_append]
    rw [scanLoop.eq_def]; dsimp only
    simp only [show ((0x7C : Nat) == 0x5C) = false from rfl, show ((0x7C : Nat) == 0x5B) = false from rfl,
      show ((0x7C : Nat) == 0x28) = false from rfl, show ((0x7C : Nat) == 0x29) = false from rfl,
      show ((0x7C : Nat) == 0x7C) = true from rfl, Bool.false_eq_true, if_false, if_true]
    rfl
  case h2 => exact ⟨rfl, rfl, rfl⟩

theorem tryConsumeName_not_lt {x : Nat} (r : List Nat) (hx : x ≠ 0x3C) :
    tryConsumeName (x :: r) = .ok (none, x :: r) := by
  unfold tryConsumeName
  split
  · next h => simp only [List.cons.injEq] at h; exact absurd h.1 hx
  · rfl

/-- `(?x` with `x ≠ <`: a non-capturing group of some kind; the scan resumes at `x`. -/
theorem scan_open_nc (f : Nat) {x : Nat} (r : List Nat) (sc : Scan) (hx : x ≠ 0x3C) :
    ∃ sc1, TrEq sc sc1 ∧ scanLoop fl (f + 1) (0x28 :: 0x3F :: x :: r) sc = scanLoop fl f (x :: r) sc1 := by
  refine ⟨?w, ?h1, ?h2⟩
  case h2 =>
    rw [scanLoop.eq_def]; dsimp only
    simp only [show ((0x28 : Nat) == 0x5C) = false from rfl, show ((0x28 : Nat) == 0x5B) = false from rfl,
      show ((0x28 : Nat) == 0x28) = true from rfl, Bool.false_eq_true, if_false, if_true,
      tryConsumeName_not_lt r hx]
    rfl
  case h1 => exact ⟨rfl, rfl, rfl⟩

/-- `(?<=` / `(?<!`: `=` / `!` is not an identifier start; the scan resumes at it. -/
theorem scan_open_lookbehind (f : Nat) {y : Nat} (r : List Nat) (sc : Scan) (hy : y = 0x3D ∨ y = 0x21) :
    ∃ sc1, TrEq sc sc1 ∧
      scanLoop fl (f + 1) (0x28 :: 0x3F :: 0x3C :: y :: r) sc = scanLoop fl f (y :: r) sc1 := by
  have hn : tryConsumeName (0x3C :: y :: r) = .ok (none, y :: r) := by
    rcases hy with rfl | rfl
    · simp [tryConsumeName, nameChar, isChar, idStart_3D]
    · simp [tryConsumeName, nameChar, isChar, idStart_21]
  refine ⟨?w, ?h1, ?h2⟩
  case h2 =>
    rw [scanLoop.eq_def]; dsimp only
    simp only [show ((0x28 : Nat) == 0x5C) = false from rfl, show ((0x28 : Nat) == 0x5B) = false from rfl,
      show ((0x28 : Nat) == 0x28) = true from rfl, Bool.false_eq_true, if_false, if_true, hn]
    rfl
  case h1 => exact ⟨rfl, rfl, rfl⟩

/-- `(` not followed by `?`: an unnamed capturing group. -/
theorem scan_open_cap (f : Nat) {b : Nat} (r : List Nat) (sc : Scan) (hb : b ≠ 0x3F) :
    ∃ sc1, sc1.gmax = (if sc.gmax + 1 > Gen.MAX_CAPTURE_GROUPS then Gen.MAX_CAPTURE_GROUPS else sc.gmax + 1) ∧
      sc1.named = sc.named ∧ sc1.locs = sc.locs ∧
      scanLoop fl (f + 1) (0x28 :: b :: r) sc = scanLoop fl f (b :: r) sc1 := by
  refine ⟨?w, ?h1, ?h2, ?h3, ?h4⟩
  case h4 =>
    rw [scanLoop]
    · simp only [show ((0x28 : Nat) == 0x5C) = false from rfl, show ((0x28 : Nat) == 0x5B) = false from rfl,
        show ((0x28 : Nat) == 0x28) = true from rfl, Bool.false_eq_true, if_false, if_true]
      rfl
    · intro rest2 h
      simp only [List.cons.injEq] at h
      exact hb h.1
  case h1 => rfl
  case h2 => rfl
  case h3 => rfl

/-- `(?<name>`: a named capturing group. -/
theorem scan_open_named (f : Nat) {nm : List Nat} (hnm : nameOK nm = true) (r : List Nat) (sc : Scan) :
    ∃ sc1 segs,
      sc1.gmax = (if sc.gmax + 1 > Gen.MAX_CAPTURE_GROUPS then Gen.MAX_CAPTURE_GROUPS else sc.gmax + 1) ∧
      sc1.named = mapPush sc.named nm sc.gmax ∧ sc1.locs = mapPush sc.locs nm segs ∧
      scanLoop fl (f + 1) (0x28 :: 0x3F :: 0x3C :: (nm ++ 0x3E :: r)) sc = scanLoop fl f r sc1 := by
  refine ⟨?w, ?segs, ?h1, ?h2, ?h3, ?h4⟩
  case h4 =>
    rw [scanLoop.eq_def]; dsimp only
    simp only [show ((0x28 : Nat) == 0x5C) = false from rfl, show ((0x28 : Nat) == 0x5B) = false from rfl,
      show ((0x28 : Nat) == 0x28) = true from rfl, Bool.false_eq_true, if_false, if_true,
      tryConsumeName_print hnm r]
    rfl
  case h1 => rfl
  case h2 => rfl
  case h3 => rfl


/-! ## Pieces of text that leave the tracked fields alone -/

theorem plainC_alpha {c : Nat} (h : isAsciiAlpha c = true) : plainC c = true := by
  have := alpha_cases h
  simp only [plainC, Bool.and_eq_true, bne_iff_ne, ne_eq]
  omega

theorem plainC_big {c : Nat} (h : 0x80 ≤ c) : plainC c = true := by
  simp only [plainC, Bool.and_eq_true, bne_iff_ne, ne_eq]
  omega

theorem plainC_digit {c : Nat} (h : isAsciiDigit c = true) : plainC c = true := by
  simp only [isAsciiDigit, Bool.and_eq_true, decide_eq_true_eq] at h
  simp only [plainC, Bool.and_eq_true, bne_iff_ne, ne_eq]
  omega

theorem plainC_hexDig : ∀ d, d < 16 → plainC (hexDig d) = true := by decide

theorem plain_hex2 (c : Nat) : ∀ d ∈ hex2 c, plainC d = true := by
  intro d hd
  simp only [hex2, List.mem_cons, List.not_mem_nil, or_false] at hd
  rcases hd with rfl | rfl <;> exact plainC_hexDig _ (Nat.mod_lt _ (by decide))

theorem plain_hex4 (c : Nat) : ∀ d ∈ hex4 c, plainC d = true := by
  intro d hd
  simp only [hex4, List.mem_cons, List.not_mem_nil, or_false] at hd
  rcases hd with rfl | rfl | rfl | rfl <;> exact plainC_hexDig _ (Nat.mod_lt _ (by decide))

theorem scans_printChar (c : Nat) : Scans fl (printChar c) SEq := by
  rcases printChar_cases c with ⟨h, e⟩ | ⟨_, _, e⟩ | ⟨_, _, _, _, e⟩ | ⟨_, h, e⟩ <;> rw [e]
  · exact scans_plain _ (by intro d hd; simp at hd; subst hd; exact plainC_alpha h)
  · exact scans_esc _ _ (plain_hex2 c)
  · exact scans_esc _ _ (plain_hex4 c)
  · exact scans_plain _ (by intro d hd; simp at hd; subst hd; exact plainC_big (by omega))

theorem plain_printDec (n : Nat) : ∀ d ∈ printDec n, plainC d = true :=
  fun d hd => plainC_digit (printDec_digit n d hd)

theorem scans_printQuant (mn : Nat) (mx : Option Nat) (g : Bool) : Scans fl (printQuant mn mx g) SEq := by
  apply scans_plain
  intro d hd
  simp only [printQuant, List.mem_append, List.mem_cons, List.not_mem_nil, or_false] at hd
  rcases hd with ((((rfl | hd) | rfl) | hd) | rfl) | hd
  · decide
  · exact plain_printDec _ d hd
  · decide
  · cases mx with
    | none => cases hd
    | some m => exact plain_printDec _ d hd
  · decide
  · cases g <;> simp at hd
    subst hd; decide

theorem scans_printEsc (e : ES.ClassEsc) : Scans fl (printEsc e) SEq :=
  scans_esc _ [] (by intro d hd; cases hd)

theorem plainC_alnum {b : Nat} (h : (Props.isAsciiAlnum b || b == 0x5F) = true) : plainC b = true := by
  simp only [Props.isAsciiAlnum, Bool.or_eq_true, Bool.and_eq_true, decide_eq_true_eq, beq_iff_eq] at h
  simp only [plainC, Bool.and_eq_true, bne_iff_ne, ne_eq]
  omega

theorem scans_printProp (neg : Bool) (kind name : Nat) (h : propNameOK name = true) :
    Scans fl (printProp neg kind name) SEq := by
  simp only [propNameOK, Bool.and_eq_true, List.all_eq_true] at h
  simp only [printProp, List.cons_append, List.nil_append, List.append_assoc]
  apply scans_esc
  intro d hd
  simp only [List.mem_cons, List.mem_append, List.not_mem_nil, or_false] at hd
  rcases hd with rfl | hd | hd | rfl
  · decide
  · match kind, hd with
    | 0, hd => cases hd
    | 1, hd => simp [propPrefix] at hd; rcases hd with rfl | rfl | rfl <;> decide
    | 2, hd => simp [propPrefix] at hd; rcases hd with rfl | rfl | rfl <;> decide
    | k + 3, hd => simp [propPrefix] at hd; rcases hd with rfl | rfl | rfl | rfl <;> decide
  · exact plainC_alnum (h.2 d hd)
  · decide

theorem plainC_idStart {c : Nat} (h : isIdStart c = true) : plainC c = true := by
  simp only [plainC, Bool.and_eq_true, bne_iff_ne, ne_eq]
  exact ⟨⟨⟨⟨ne_of_pred h idStart_5C, ne_of_pred h idStart_5B⟩, ne_of_pred h idStart_28⟩,
    ne_of_pred h idStart_29⟩, ne_of_pred h idStart_7C⟩

theorem plainC_idCont {c : Nat} (h : isIdContinue c = true) : plainC c = true := by
  simp only [plainC, Bool.and_eq_true, bne_iff_ne, ne_eq]
  exact ⟨⟨⟨⟨ne_of_pred h idCont_5C, ne_of_pred h idCont_5B⟩, ne_of_pred h idCont_28⟩,
    ne_of_pred h idCont_29⟩, ne_of_pred h idCont_7C⟩

theorem plain_name {nm : List Nat} (h : nameOK nm = true) : ∀ d ∈ nm, plainC d = true := by
  obtain ⟨c, cs, rfl⟩ := nameOK_ne_nil h
  obtain ⟨_, h2, ht⟩ := nameOK_cons h
  intro d hd
  rcases List.mem_cons.1 hd with rfl | hd
  · exact plainC_idStart h2
  · exact plainC_idCont (ht d hd).2

theorem scans_nref {nm : List Nat} (h : nameOK nm = true) : Scans fl ([0x5C, 0x6B, 0x3C] ++ nm ++ [0x3E]) SEq := by
  simp only [List.cons_append, List.nil_append]
  apply scans_esc
  intro d hd
  simp only [List.mem_cons, List.mem_append, List.not_mem_nil, or_false] at hd
  rcases hd with rfl | hd | rfl
  · decide
  · exact plain_name h d hd
  · decide

/-- `(?x…` with `x ≠ <` plain, followed by plain text. -/
theorem scans_open_nc {x : Nat} (t : List Nat) (hx : x ≠ 0x3C) (hp : plainC x = true)
    (ht : ∀ d ∈ t, plainC d = true) : Scans fl (0x28 :: 0x3F :: x :: t) TrEq := by
  intro sc rest fuel hf
  obtain ⟨f, rfl⟩ : ∃ f, fuel = f + 1 := ⟨fuel - 1, by simp at hf; omega⟩
  obtain ⟨sc1, h1, h2⟩ := scan_open_nc (fl := fl) f (t ++ rest) sc hx
  obtain ⟨sc', f', h3, h4, h5⟩ := scans_plain (fl := fl) (x :: t)
    (by intro d hd; rcases List.mem_cons.1 hd with rfl | hd; exact hp; exact ht d hd) sc1 rest f
    (by simp at hf ⊢; omega)
  exact ⟨sc', f', h3, by simp only [List.cons_append] at h2 h4 ⊢; rw [h2, h4], h1.trans h5.tr⟩

theorem scans_wrapOpen : Scans fl [0x28, 0x3F, 0x3A] TrEq :=
  scans_open_nc [] (by decide) (by decide) (by intro d hd; cases hd)

theorem scans_lookOpen (ahead neg : Bool) : Scans fl (lookOpen ahead neg) TrEq := by
  cases ahead <;> cases neg <;> simp only [lookOpen, if_true, Bool.false_eq_true, if_false]
  · -- (?<=
    intro sc rest fuel hf
    obtain ⟨f, rfl⟩ : ∃ f, fuel = f + 1 + 1 := ⟨fuel - 2, by simp at hf; omega⟩
    obtain ⟨sc1, h1, h2⟩ := scan_open_lookbehind (fl := fl) (f + 1) rest sc (.inl rfl)
    exact ⟨sc1, f, by simp at hf; omega,
      by simp only [List.cons_append, List.nil_append]; rw [h2, scan_plain f rest sc1 (by decide)], h1⟩
  · -- (?<!
    intro sc rest fuel hf
    obtain ⟨f, rfl⟩ : ∃ f, fuel = f + 1 + 1 := ⟨fuel - 2, by simp at hf; omega⟩
    obtain ⟨sc1, h1, h2⟩ := scan_open_lookbehind (fl := fl) (f + 1) rest sc (.inr rfl)
    exact ⟨sc1, f, by simp at hf; omega,
      by simp only [List.cons_append, List.nil_append]; rw [h2, scan_plain f rest sc1 (by decide)], h1⟩
  · exact scans_open_nc [] (by decide) (by decide) (by intro d hd; cases hd)
  · exact scans_open_nc [] (by decide) (by decide) (by intro d hd; cases hd)

theorem scans_modOpen (add rem : ES.Mods) :
    Scans fl ([0x28, 0x3F] ++ printMods add rem ++ [0x3A]) TrEq := by
  obtain ⟨ai, am, as⟩ := add
  obtain ⟨ri, rm, rs⟩ := rem
  cases ai <;> cases am <;> cases as <;> cases ri <;> cases rm <;> cases rs <;>
    (simp only [printMods, modLetters, ES.Mods.isEmpty, Bool.not_true, Bool.not_false, Bool.and_self,
       Bool.and_false, Bool.false_and, if_true, if_false, Bool.false_eq_true, List.append_nil, List.nil_append,
       List.cons_append]
     exact scans_open_nc _ (by decide) (by decide) (by decide))

/-! ## The relation of a node -/

/-- `named_group_indices` after the named groups `ng` (name, 1-based number) were found, in order. -/
def pushAll (m : List (List Nat × List Nat)) (ng : List (List Nat × Nat)) : List (List Nat × List Nat) :=
  ng.foldl (fun m p => mapPush m p.1 (p.2 - 1)) m

/-- The locations map after one path was recorded for each of the names `ns`, in order. -/
def pushLocs (L : List (List Nat × List (List (Nat × Nat)))) (ns : List (List Nat))
    (ps : List (List (Nat × Nat))) : List (List Nat × List (List (Nat × Nat))) :=
  (ns.zip ps).foldl (fun m p => mapPush m p.1 p.2) L

theorem pushAll_append (m : List (List Nat × List Nat)) (a b : List (List Nat × Nat)) :
    pushAll m (a ++ b) = pushAll (pushAll m a) b := by simp [pushAll, List.foldl_append]

theorem pushLocs_append (L : List (List Nat × List (List (Nat × Nat)))) (n1 n2 : List (List Nat))
    (p1 p2 : List (List (Nat × Nat))) (h : p1.length = n1.length) :
    pushLocs L (n1 ++ n2) (p1 ++ p2) = pushLocs (pushLocs L n1 p1) n2 p2 := by
  simp [pushLocs, List.zip_append h.symm, List.foldl_append]

/-- What the scan of the text of `n` does to the tracked fields (while the group limit is not hit). -/
def NodeRel (n : ES.Node) (a b : Scan) : Prop :=
  a.gmax + ES.countParens n ≤ Gen.MAX_CAPTURE_GROUPS →
    b.gmax = a.gmax + ES.countParens n ∧
    b.named = pushAll a.named (ES.namedGroups n a.gmax) ∧
    ∃ ps, ps.length = (ES.namedGroups n a.gmax).length ∧
      b.locs = pushLocs a.locs ((ES.namedGroups n a.gmax).map (·.1)) ps

theorem NodeRel.congr {n m : ES.Node} {a b : Scan} (h1 : ES.countParens n = ES.countParens m)
    (h2 : ∀ g, ES.namedGroups n g = ES.namedGroups m g) (h : NodeRel n a b) : NodeRel m a b := by
  intro hg
  rw [← h1] at hg
  have := h hg
  rw [h1, h2] at this
  exact this

theorem NodeRel.leaf {n : ES.Node} {a b : Scan} (h1 : ES.countParens n = 0)
    (h2 : ∀ g, ES.namedGroups n g = []) (h : TrEq a b) : NodeRel n a b := by
  intro _
  rw [h1, h2]
  exact ⟨h.1, h.2.1, [], rfl, h.2.2⟩

theorem NodeRel.tr_left {n : ES.Node} {a a' b : Scan} (h1 : TrEq a a') (h : NodeRel n a' b) : NodeRel n a b := by
  intro hg
  have := h (by rw [h1.1]; exact hg)
  rw [h1.1, h1.2.1, h1.2.2] at this
  exact this

theorem NodeRel.tr_right {n : ES.Node} {a b b' : Scan} (h : NodeRel n a b) (h1 : TrEq b b') : NodeRel n a b' := by
  intro hg
  have := h hg
  rw [h1.1, h1.2.1, h1.2.2]
  exact this

theorem NodeRel.nil {a b : Scan} (h : TrEq a b) : NodeRel (.cat []) a b :=
  NodeRel.leaf rfl (fun _ => rfl) h

theorem NodeRel.cons {n : ES.Node} {ns : List ES.Node} {a b c : Scan} (h1 : NodeRel n a b)
    (h2 : NodeRel (.cat ns) b c) : NodeRel (.cat (n :: ns)) a c := by
  intro hg
  simp only [ES.countParens, ES.countParensList] at hg
  obtain ⟨g1, n1, p1, l1, e1⟩ := h1 (by omega)
  obtain ⟨g2, n2, p2, l2, e2⟩ := h2 (by rw [g1]; simp only [ES.countParens]; omega)
  simp only [ES.countParens, ES.namedGroups] at g2 n2 l2 e2
  rw [g1] at g2 n2 l2 e2
  refine ⟨by simp only [ES.countParens, ES.countParensList]; omega, ?_, p1 ++ p2, ?_, ?_⟩
  · simp only [ES.namedGroups, ES.namedGroupsList]
    rw [pushAll_append, ← n1, n2]
  · simp only [ES.namedGroups, ES.namedGroupsList, List.length_append, l1, l2]
  · simp only [ES.namedGroups, ES.namedGroupsList, List.map_append]
    rw [pushLocs_append _ _ _ _ _ (by simp [l1]), ← e1, e2]

theorem NodeRel.alt_of_cat {ns : List ES.Node} {a b : Scan} (h : NodeRel (.cat ns) a b) : NodeRel (.alt ns) a b :=
  h.congr (by simp [ES.countParens]) (fun g => by simp [ES.namedGroups])

theorem NodeRel.group_none {n : ES.Node} (idx : Nat) {a a1 b : Scan}
    (hg1 : a1.gmax = (if a.gmax + 1 > Gen.MAX_CAPTURE_GROUPS then Gen.MAX_CAPTURE_GROUPS else a.gmax + 1))
    (hn1 : a1.named = a.named) (hl1 : a1.locs = a.locs) (h : NodeRel n a1 b) :
    NodeRel (.group idx none n) a b := by
  intro hg
  simp only [ES.countParens] at hg
  have hg1' : a1.gmax = a.gmax + 1 := by rw [hg1]; split <;> omega
  obtain ⟨g2, n2, p2, l2, e2⟩ := h (by rw [hg1']; omega)
  rw [hg1', hn1, hl1] at *
  refine ⟨by simp only [ES.countParens]; omega, ?_, p2, ?_, ?_⟩
  · simpa [ES.namedGroups] using n2
  · simpa [ES.namedGroups] using l2
  · simpa [ES.namedGroups] using e2

theorem NodeRel.group_some {n : ES.Node} (idx : Nat) (nm : List Nat) {a a1 b : Scan} (segs : List (Nat × Nat))
    (hg1 : a1.gmax = (if a.gmax + 1 > Gen.MAX_CAPTURE_GROUPS then Gen.MAX_CAPTURE_GROUPS else a.gmax + 1))
    (hn1 : a1.named = mapPush a.named nm a.gmax) (hl1 : a1.locs = mapPush a.locs nm segs)
    (h : NodeRel n a1 b) : NodeRel (.group idx (some nm) n) a b := by
  intro hg
  simp only [ES.countParens] at hg
  have hg1' : a1.gmax = a.gmax + 1 := by rw [hg1]; split <;> omega
  obtain ⟨g2, n2, p2, l2, e2⟩ := h (by rw [hg1']; omega)
  rw [hg1', hn1, hl1] at *
  refine ⟨by simp only [ES.countParens]; omega, ?_, segs :: p2, ?_, ?_⟩
  · simp only [ES.namedGroups, List.cons_append, List.nil_append, pushAll, List.foldl_cons,
      Nat.add_sub_cancel]
    exact n2
  · simp only [ES.namedGroups, List.cons_append, List.nil_append, List.length_cons, l2]
  · simp only [ES.namedGroups, List.cons_append, List.nil_append, List.map_cons, pushLocs, List.zip_cons_cons,
      List.foldl_cons]
    exact e2

end

end Regress.RoundTrip
