import Proofs.Lemmas.ClosureNames
import Proofs.Lemmas.E2EParse
/-!
# Closure 2, part 1 (C16, parser side): the parser hands out capture-group ids densely

`Closure.names_by_id` assumes `groupIdsDense r.node`: the ids of the `CaptureGroup` nodes of the IR
are a permutation of `0..n-1`.  Here this is *proved* for the parser's output.

* `Seq a l b` — the list `l` is exactly `a, a+1, …, b-1`.
* `descG_all` — a third induction over the recursive descent (`consumeDisjunction` / `disjLoop` /
  `termLoop` / `consumeAtom`, same structure as `E2E.descK_all`): the group ids of the node built
  between two parser states, **in pre-order**, are exactly `st.groupCount, …, st'.groupCount - 1`
  (`group_count` is read and incremented at the `(`, before the group's contents are parsed, and
  `make_cat` / `make_alt` / the quantifier wrapping keep the order of the terms).
* `reverseCats_perm` — `reverse_cats` (look-behinds) permutes the pre-order list of groups.
* `parse_groupIds` — hence `groupIds re.node` is a permutation of `0 .. numGroups re.node - 1`, and
  it is exactly `List.range (numGroups re.node)` when the pattern has no look-behind;
  `parse_groupIdsDense` — `groupIdsDense re.node = true`.
-/
namespace Regress.Closure2

open Regress Regress.IR Regress.Parse Regress.Closure

/-! ## `groupList` -/

theorem groupLists_append (xs ys : List Node) :
    groupLists (xs ++ ys) = groupLists xs ++ groupLists ys := by
  induction xs with
  | nil => simp [groupLists]
  | cons a t ih => simp [groupLists, ih, List.append_assoc]

theorem groupLists_take_drop (xs : List Node) (k : Nat) :
    groupLists (xs.take k) ++ groupLists (xs.drop k) = groupLists xs := by
  rw [← groupLists_append, List.take_append_drop]

mutual
/-- `numGroups` is the number of entries of `groupList`. -/
theorem groupList_length : ∀ (n : Node), (groupList n).length = numGroups n
  | .group _ _ c => by simp [groupList, numGroups, groupList_length c]
  | .cat ns => by simp only [groupList, numGroups]; exact groupLists_length ns
  | .alt l r => by simp [groupList, numGroups, groupList_length l, groupList_length r]
  | .look _ _ _ _ c => by simp only [groupList, numGroups]; exact groupList_length c
  | .loop l _ _ _ => by simp only [groupList, numGroups]; exact groupList_length l
  | .loop1 l _ => by simp only [groupList, numGroups]; exact groupList_length l
  | .empty => rfl
  | .goal => rfl
  | .char _ => rfl
  | .byteSeq _ => rfl
  | .byteSet _ => rfl
  | .charSet _ => rfl
  | .matchAny => rfl
  | .matchAnyExceptLT => rfl
  | .anchor _ _ => rfl
  | .wordBoundary _ _ => rfl
  | .backRef _ _ => rfl
  | .bracket _ => rfl
  | .stringSet _ _ => rfl
theorem groupLists_length : ∀ (ns : List Node), (groupLists ns).length = numGroupsList ns
  | [] => rfl
  | n :: ns => by simp [groupLists, numGroupsList, groupList_length n, groupLists_length ns]
end

theorem groupList_nil_of_numGroups {n : Node} (h : numGroups n = 0) : groupList n = [] :=
  List.eq_nil_of_length_eq_zero (by rw [groupList_length, h])

theorem groupIds_length (n : Node) : (groupIds n).length = numGroups n := by
  simp [groupIds, groupList_length]

theorem groupList_makeCat (ns : List Node) : groupList (makeCat ns) = groupLists ns := by
  unfold makeCat
  split
  · rfl
  · simp [groupLists]
  · simp only [groupList]

theorem groupList_makeAltFuel (fuel : Nat) (ns : List Node) (h : ns.length ≤ fuel) :
    groupList (makeAltFuel fuel ns) = groupLists ns := by
  fun_induction makeAltFuel fuel ns
  · rfl
  · simp [groupLists]
  · rename_i ns hne1 hne2
    match ns, hne1, hne2 with
    | [], h1, _ => exact absurd rfl h1
    | [x], _, h2 => exact absurd rfl (h2 x)
    | _ :: _ :: _, _, _ => simp at h
  · rename_i fuel ns hne1 hne2 hl ih1 ih2
    have hlen : 2 ≤ ns.length := by
      match ns, hne1, hne2 with
      | [], h1, _ => exact absurd rfl h1
      | [x], _, h2 => exact absurd rfl (h2 x)
      | _ :: _ :: _, _, _ => simp
    simp only [groupList]
    rw [ih1 (by simp; omega), ih2 (by simp; omega), groupLists_take_drop]

theorem groupList_makeAlt (ns : List Node) : groupList (makeAlt ns) = groupLists ns :=
  groupList_makeAltFuel _ _ (Nat.le_refl _)

/-- The group ids of a node, resp. a list of nodes, in pre-order. -/
def gids (n : Node) : List Nat := (groupList n).map (·.1)
def gidsL (ns : List Node) : List Nat := (groupLists ns).map (·.1)

theorem gids_eq (n : Node) : gids n = groupIds n := rfl

theorem gidsL_append (xs ys : List Node) : gidsL (xs ++ ys) = gidsL xs ++ gidsL ys := by
  simp [gidsL, groupLists_append]

theorem gidsL_single (n : Node) : gidsL [n] = gids n := by simp [gidsL, gids, groupLists]

theorem gidsL_pair (a b : Node) : gidsL [a, b] = gids a ++ gids b := by
  simp [gidsL, gids, groupLists]

theorem gids_makeCat (ns : List Node) : gids (makeCat ns) = gidsL ns := by
  simp [gids, gidsL, groupList_makeCat]

theorem gids_makeAlt (ns : List Node) : gids (makeAlt ns) = gidsL ns := by
  simp [gids, gidsL, groupList_makeAlt]

theorem gidsL_take_drop (xs : List Node) (k : Nat) : gidsL (xs.take k) ++ gidsL (xs.drop k) = gidsL xs := by
  rw [← gidsL_append, List.take_append_drop]

/-! ## Consecutive ids -/

/-- `l` is exactly `a, a+1, …, b-1`. -/
def Seq (a : Nat) (l : List Nat) (b : Nat) : Prop := a ≤ b ∧ l = List.range' a (b - a)

theorem Seq.nil (a : Nat) : Seq a [] a := ⟨Nat.le_refl _, by simp⟩

theorem Seq.append {a b c : Nat} {l l' : List Nat} (h1 : Seq a l b) (h2 : Seq b l' c) :
    Seq a (l ++ l') c := by
  refine ⟨Nat.le_trans h1.1 h2.1, ?_⟩
  rw [h1.2, h2.2]
  have hb : b = a + 1 * (b - a) := by have := h1.1; omega
  have : List.range' a (b - a) ++ List.range' b (c - b) =
      List.range' a (b - a) ++ List.range' (a + 1 * (b - a)) (c - b) := by rw [← hb]
  rw [this, List.range'_append]
  congr 1
  have := h1.1; have := h2.1; omega

theorem Seq.cons {a b : Nat} {l : List Nat} (h : Seq (a + 1) l b) : Seq a (a :: l) b := by
  refine ⟨by have := h.1; omega, ?_⟩
  rw [h.2]
  have : b - a = (b - (a + 1)) + 1 := by have := h.1; omega
  rw [this, List.range'_succ]

theorem Seq.append_nil {a b : Nat} {l : List Nat} (h : Seq a l b) : Seq a (l ++ []) b := by
  simpa using h

theorem Seq.length {a b : Nat} {l : List Nat} (h : Seq a l b) : l.length = b - a := by
  rw [h.2]; simp

/-! ## Leaves: nodes without capture groups -/

theorem charNode_lg {fl : Flags} {c : Nat} {n : Node} (h : charNode fl c = .ok n) : groupList n = [] := by
  unfold charNode at h
  split at h
  · cases h; rfl
  · simp only at h
    split at h <;> first | (cases h; rfl) | cases h

theorem mkBracket_lg (inv : Bool) (cps : CPS.IvList) : groupList (mkBracket inv cps) = [] := rfl

theorem makeBracketClass_lg (ct : ClassType) (p i : Bool) : groupList (makeBracketClass ct p i) = [] := rfl

theorem bracketLoop_lg (fl : Flags) (hn inv : Bool) : ∀ (fuel : Nat) (inp : List Nat) (cps : CPS.IvList)
    (n : Node) (rest : List Nat), bracketLoop fl hn inv fuel inp cps = .ok (n, rest) → groupList n = [] := by
  intro fuel
  induction fuel with
  | zero => intro inp cps n rest h; simp [bracketLoop, panicAt] at h
  | succ k ih =>
    intro inp cps n rest h
    unfold bracketLoop at h
    simp only at h
    split at h
    · cases h
    · split at h
      · cases h; exact mkBracket_lg _ _
      · split at h
        · cases h
        · exact ih _ _ _ _ h
        · split at h
          · split at h
            · cases h
            · exact ih _ _ _ _ h
            · split at h
              · split at h
                · cases h
                · exact ih _ _ _ _ h
              · split at h
                · cases h
                · exact ih _ _ _ _ h
          · exact ih _ _ _ _ h

theorem consumeBracket_lg {fl : Flags} {hn : Bool} {inp : List Nat} {n : Node} {rest : List Nat}
    (h : consumeBracket fl hn inp = .ok (n, rest)) : groupList n = [] := by
  unfold consumeBracket at h
  split at h
  · cases h
  · exact bracketLoop_lg _ _ _ _ _ _ _ _ h

theorem altPair_lg {a b : Node} (ha : groupList a = []) (hb : groupList b = []) :
    groupList (makeAlt [a, b]) = [] := by
  rw [groupList_makeAlt]; simp [groupLists, ha, hb]

theorem classSetNode_lg (cs : ClassSet) (icase neg : Bool) : groupList (cs.node icase neg) = [] := by
  have hne : ∀ (s : ClassSet), groupList (s.nonemptyNode icase neg) = [] := by
    intro s
    unfold ClassSet.nonemptyNode
    simp only
    generalize (if icase = true then Fold.addIcaseCodePoints s.cps else s.cps) = cp
    by_cases h1 : s.alts.isEmpty = true
    · rw [if_pos h1]; exact mkBracket_lg _ _
    · rw [if_neg h1]
      by_cases h2 : cp.isEmpty = true
      · rw [if_pos h2]; rfl
      · rw [if_neg h2]; exact altPair_lg rfl (mkBracket_lg _ _)
  unfold ClassSet.node
  simp only
  split
  · exact altPair_lg (hne _) rfl
  · exact hne _

theorem backRefs_lg (idxs : List Nat) (icase : Bool) :
    groupLists (idxs.map fun i => Node.backRef (i + 1) icase) = [] := by
  induction idxs with
  | nil => rfl
  | cons a t ih => simp [groupLists, groupList, ih]

theorem consumeAtomEscape_lg {st : PState} {nd : Node} {st' : PState}
    (h : consumeAtomEscape st = .ok (nd, st')) : groupList nd = [] ∧ st'.groupCount = st.groupCount := by
  unfold consumeAtomEscape at h
  simp only at h
  split at h
  · cases h
  · rename_i c rest hinp
    split at h
    · cases h; exact ⟨makeBracketClass_lg _ _ _, rfl⟩
    · split at h
      · cases h; exact ⟨makeBracketClass_lg _ _ _, rfl⟩
      · split at h
        · cases h; exact ⟨makeBracketClass_lg _ _ _, rfl⟩
        · split at h
          · -- \p \P
            split at h
            · cases h
            · split at h
              · cases h; exact ⟨mkBracket_lg _ _, rfl⟩
              · cases h; exact ⟨mkBracket_lg _ _, rfl⟩
            · split at h
              · cases h
              · cases h; exact ⟨rfl, rfl⟩
          · split at h
            · -- \1 … \9, unicode
              split at h
              · cases h
              · split at h
                · cases h; exact ⟨rfl, rfl⟩
                · cases h
            · split at h
              · split at h
                · cases h
                · split at h
                  · cases h; exact ⟨rfl, rfl⟩
                  · split at h
                    · cases h
                    · split at h
                      · cases h
                      · rename_i hcn; cases h; exact ⟨charNode_lg hcn, rfl⟩
              · split at h
                · -- \k<name>
                  split at h
                  · cases h
                  · cases h
                  · split at h
                    · cases h
                    · cases h
                    · cases h; exact ⟨rfl, rfl⟩
                    · cases h
                      exact ⟨by simpa only [groupList] using backRefs_lg _ _, rfl⟩
                · split at h
                  · split at h
                    · cases h
                    · rename_i hcn; cases h; exact ⟨charNode_lg hcn, rfl⟩
                  · split at h
                    · cases h
                    · split at h
                      · cases h
                      · rename_i hcn; cases h; exact ⟨charNode_lg hcn, rfl⟩

/-! ## The descent -/

def DisjG (st : PState) (p : Node × PState) : Prop := Seq st.groupCount (gids p.1) p.2.groupCount

def DLoopG (st : PState) (terms : List Node) (p : List Node × PState) : Prop :=
  ∀ g0, Seq g0 (gidsL terms) st.groupCount → Seq g0 (gidsL p.1) p.2.groupCount

def TLoopG (st : PState) (result : List Node) (p : Node × PState) : Prop :=
  ∀ g0, Seq g0 (gidsL result) st.groupCount → Seq g0 (gids p.1) p.2.groupCount

def AtomG (st : PState) (result : List Node) (out : AtomOut) : Prop :=
  ∀ g0, Seq g0 (gidsL result) st.groupCount → Seq g0 (gidsL out.result) out.st.groupCount

/-- The induction hypothesis / conclusion of the descent at a given amount of fuel. -/
structure DescG (fuel : Nat) : Prop where
  disj : ∀ st p, consumeDisjunction fuel st = .ok p → DisjG st p
  dloop : ∀ st terms p, disjLoop fuel st terms = .ok p → DLoopG st terms p
  tloop : ∀ st result p, termLoop fuel st result = .ok p → TLoopG st result p
  atom : ∀ st result c out, consumeAtom fuel st result c = .ok out → AtomG st result out

theorem tryConsume_gc {c : Nat} {st st' : PState} {b : Bool} (h : tryConsume c st = (b, st')) :
    st'.groupCount = st.groupCount := by
  unfold tryConsume at h
  split at h
  · split at h <;> (cases h; rfl)
  · cases h; rfl

theorem tryConsumeStr_gc {s : List Nat} {st st' : PState} {b : Bool} (h : tryConsumeStr s st = (b, st')) :
    st'.groupCount = st.groupCount := by
  unfold tryConsumeStr at h
  split at h <;> (cases h; rfl)

theorem consume_gc {st st' : PState} {c : Nat} (h : consume st = .ok (c, st')) :
    st'.groupCount = st.groupCount := by
  unfold consume at h
  split at h
  · cases h
  · cases h; rfl

open Regress.E2E (ite_err_ok synErr_ne limErr_ne panicAt_ne)

theorem consumeDisjunction_stepG (fuel : Nat) (ih : DescG fuel) (st : PState) (p : Node × PState)
    (h : consumeDisjunction (fuel + 1) st = .ok p) : DisjG st p := by
  rw [consumeDisjunction] at h
  simp only at h
  split at h
  · cases h
  · split at h
    · cases h
    · rename_i terms st2 heq
      cases h
      have := ih.dloop _ _ _ heq st.groupCount (Seq.nil _)
      show Seq st.groupCount (gids (makeAlt terms)) st2.groupCount
      rw [gids_makeAlt]
      exact this

theorem disjLoop_stepG (fuel : Nat) (ih : DescG fuel) (st : PState) (terms : List Node)
    (p : List Node × PState) (h : disjLoop (fuel + 1) st terms = .ok p) : DLoopG st terms p := by
  intro g0 hk
  rw [disjLoop] at h
  split at h
  · cases h
  · rename_i t st1 heq
    have ht := ih.tloop _ _ _ heq st.groupCount (Seq.nil _)
    have hk' : Seq g0 (gidsL (terms ++ [t])) st1.groupCount := by
      rw [gidsL_append, gidsL_single]; exact hk.append ht
    split at h
    · rename_i st2 htc
      have hc := tryConsume_gc htc
      exact ih.dloop _ _ _ h g0 (by rw [hc]; exact hk')
    · rename_i st2 htc
      have hc := tryConsume_gc htc
      cases h
      show Seq g0 (gidsL (terms ++ [t])) st2.groupCount
      rw [hc]; exact hk'

theorem termLoop_stepG (fuel : Nat) (ih : DescG fuel) (st : PState) (result : List Node)
    (p : Node × PState) (h : termLoop (fuel + 1) st result = .ok p) : TLoopG st result p := by
  intro g0 hk
  rw [termLoop] at h
  simp only at h
  split at h
  · cases h; show Seq g0 (gids (makeCat result)) st.groupCount; rw [gids_makeCat]; exact hk
  · split at h
    · cases h; show Seq g0 (gids (makeCat result)) st.groupCount; rw [gids_makeCat]; exact hk
    · split at h
      · cases h
      · rename_i c rest hinp hc out hat
        have ha := ih.atom _ _ _ _ hat g0 hk
        split at h
        · cases h
        · exact ih.tloop _ _ _ h g0 ha
        · rename_i quant rest' hq
          replace h := ite_err_ok (synErr_ne _) h
          replace h := ite_err_ok (synErr_ne _) h
          replace h := ite_err_ok (panicAt_ne _) h
          replace h := ite_err_ok (limErr_ne _) h
          refine ih.tloop _ _ _ h g0 ?_
          rw [gidsL_append, gidsL_single]
          show Seq g0 (gidsL (List.take out.startOffset out.result) ++
            gids (Node.loop (makeCat (List.drop out.startOffset out.result)) quant st.groupCount
              out.st.groupCount)) out.st.groupCount
          have : gids (Node.loop (makeCat (List.drop out.startOffset out.result)) quant st.groupCount
              out.st.groupCount) = gidsL (List.drop out.startOffset out.result) := by
            rw [← gids_makeCat]; rfl
          rw [this, gidsL_take_drop]
          exact ha

theorem atomG_leaf {st st' : PState} {result : List Node} {nd : Node} {so : Nat} {qa : Bool}
    (hn : groupList nd = []) (hl : st'.groupCount = st.groupCount) :
    AtomG st result ⟨result ++ [nd], st', so, qa⟩ := by
  intro g0 hk
  show Seq g0 (gidsL (result ++ [nd])) st'.groupCount
  rw [gidsL_append, gidsL_single, hl]
  simpa [gids, hn] using hk

theorem atomG_leaf2 {st st' : PState} {result : List Node} {a b : Node} {so : Nat} {qa : Bool}
    (ha : groupList a = []) (hb : groupList b = []) (hl : st'.groupCount = st.groupCount) :
    AtomG st result ⟨result ++ [a, b], st', so, qa⟩ := by
  intro g0 hk
  show Seq g0 (gidsL (result ++ [a, b])) st'.groupCount
  rw [gidsL_append, gidsL_pair, hl]
  simpa [gids, ha, hb] using hk

/-- A node whose groups are `a … b-1` where `a` is the current `group_count`. -/
theorem atomG_node {st st' : PState} {result : List Node} {nd : Node} {so : Nat} {qa : Bool}
    {a b : Nat} {l : List Nat} (hd : Seq a l b) (hl : gids nd = l) (ha : a = st.groupCount)
    (hb : st'.groupCount = b) : AtomG st result ⟨result ++ [nd], st', so, qa⟩ := by
  intro g0 hk
  show Seq g0 (gidsL (result ++ [nd])) st'.groupCount
  rw [gidsL_append, gidsL_single, hl, hb]
  subst ha
  exact hk.append hd

/-- A capture group: its id is the current `group_count`, its contents start at the next one. -/
theorem atomG_group {st st' : PState} {result : List Node} {id : Nat} {nm : Option (List Nat)} {c : Node}
    {so : Nat} {qa : Bool} {a b : Nat} (hd : Seq a (gids c) b) (hid : id = st.groupCount)
    (ha : a = st.groupCount + 1) (hb : st'.groupCount = b) :
    AtomG st result ⟨result ++ [.group id nm c], st', so, qa⟩ := by
  subst ha
  refine atomG_node (Seq.cons hd) ?_ rfl hb
  simp [gids, groupList, hid]

theorem two_chars_G {st st' : PState} {fl : Flags} {result : List Node} {so : Nat} {out : AtomOut}
    (h : (match charNode fl 92, charNode fl 99 with
      | .ok a, .ok b => (.ok ⟨result ++ [a, b], st', so, true⟩ : Res AtomOut)
      | .error e, _ => .error e
      | _, .error e => .error e) = .ok out) (hl : st'.groupCount = st.groupCount) : AtomG st result out := by
  split at h
  · rename_i a b ha hb; cases h; exact atomG_leaf2 (charNode_lg ha) (charNode_lg hb) hl
  · cases h
  · cases h

/-- The `(`-arms that do not capture: a look-around or a non-capturing group around a disjunction. -/
theorem atomG_wrap {st st4 : PState} {result : List Node} {nd : Node} {so : Nat} {qa : Bool}
    {a b : Nat} {c : Node} (hd : Seq a (gids c) b) (hl : gids nd = gids c) (ha : a = st.groupCount)
    (hb : st4.groupCount = b) : AtomG st result ⟨result ++ [nd], st4, so, qa⟩ :=
  atomG_node hd hl ha hb

theorem consumeAtom_stepG (fuel : Nat) (ih : DescG fuel) (st : PState) (result : List Node) (c : Nat)
    (out : AtomOut) (h : consumeAtom (fuel + 1) st result c = .ok out) : AtomG st result out := by
  rw [consumeAtom] at h
  dsimp only at h
  by_cases hc1 : (c == 94) = true
  · rw [if_pos hc1] at h
    split at h
    · cases h
    · rename_i hc; cases h; exact atomG_leaf rfl (consume_gc hc)
  rw [if_neg hc1] at h
  by_cases hc2 : (c == 36) = true
  · rw [if_pos hc2] at h
    split at h
    · cases h
    · rename_i hc; cases h; exact atomG_leaf rfl (consume_gc hc)
  rw [if_neg hc2] at h
  by_cases hc3 : (c == 92) = true
  · rw [if_pos hc3] at h
    split at h
    · cases h
    · rename_i c0 st1 hc
      have l1 := consume_gc hc
      split at h
      · cases h
      · rename_i e rest hinp
        split at h
        · cases h; exact atomG_leaf rfl l1
        split at h
        · cases h; exact atomG_leaf rfl l1
        split at h
        · split at h
          · split at h
            · split at h
              · cases h
              · rename_i hcn; cases h; exact atomG_leaf (charNode_lg hcn) l1
            · exact two_chars_G h l1
          · exact two_chars_G h l1
        · split at h
          · cases h
          · rename_i nd st2 hae
            cases h
            have := consumeAtomEscape_lg hae
            exact atomG_leaf this.1 (by omega)
  rw [if_neg hc3] at h
  by_cases hc4 : (c == 46) = true
  · rw [if_pos hc4] at h
    split at h
    · cases h
    · rename_i hc
      cases h
      refine atomG_leaf ?_ (consume_gc hc)
      split <;> rfl
  rw [if_neg hc4] at h
  by_cases hc5 : (c == 40) = true
  · rw [if_pos hc5] at h
    split at h
    · rename_i st1 hs1
      have l1 := tryConsumeStr_gc hs1
      split at h
      · cases h
      · rename_i nd st3 qa hinner
        split at hinner
        · cases hinner
        · rename_i contents st2 hcd
          cases hinner
          have hd := ih.disj _ _ hcd
          simp only [DisjG] at hd
          split at h
          · rename_i st4 htc
            cases h
            have l9 := tryConsume_gc htc
            exact atomG_wrap hd rfl (by (try dsimp only at *); omega) (by (try dsimp only at *); omega)
          · cases h
    rename_i st1 hs1
    have l1 := tryConsumeStr_gc hs1
    split at h
    · rename_i st2 hs2
      have l2 := tryConsumeStr_gc hs2
      split at h
      · cases h
      · rename_i nd st3 qa hinner
        split at hinner
        · cases hinner
        · rename_i contents st2 hcd
          cases hinner
          have hd := ih.disj _ _ hcd
          simp only [DisjG] at hd
          split at h
          · rename_i st4 htc
            cases h
            have l9 := tryConsume_gc htc
            exact atomG_wrap hd rfl (by (try dsimp only at *); omega) (by (try dsimp only at *); omega)
          · cases h
    rename_i st2 hs2
    have l2 := tryConsumeStr_gc hs2
    split at h
    · rename_i st3' hs3
      have l3 := tryConsumeStr_gc hs3
      split at h
      · cases h
      · rename_i nd st3 qa hinner
        split at hinner
        · cases hinner
        · rename_i contents st2 hcd
          cases hinner
          have hd := ih.disj _ _ hcd
          simp only [DisjG] at hd
          split at h
          · rename_i st4 htc
            cases h
            have l9 := tryConsume_gc htc
            exact atomG_wrap hd rfl (by (try dsimp only at *); omega) (by (try dsimp only at *); omega)
          · cases h
    rename_i st3' hs3
    have l3 := tryConsumeStr_gc hs3
    split at h
    · rename_i st4' hs4
      have l4 := tryConsumeStr_gc hs4
      split at h
      · cases h
      · rename_i nd st3 qa hinner
        split at hinner
        · cases hinner
        · rename_i contents st2 hcd
          cases hinner
          have hd := ih.disj _ _ hcd
          simp only [DisjG] at hd
          split at h
          · rename_i st4 htc
            cases h
            have l9 := tryConsume_gc htc
            exact atomG_wrap hd rfl (by (try dsimp only at *); omega) (by (try dsimp only at *); omega)
          · cases h
    rename_i st4' hs4
    have l4 := tryConsumeStr_gc hs4
    split at h
    · rename_i st5' hs5
      have l5 := tryConsumeStr_gc hs5
      split at h
      · cases h
      · rename_i nd st3 qa hinner
        split at hinner
        · cases hinner
        · rename_i contents st2 hcd
          cases hinner
          have hd := ih.disj _ _ hcd
          simp only [DisjG] at hd
          split at h
          · rename_i st4 htc
            cases h
            have l9 := tryConsume_gc htc
            exact atomG_wrap hd rfl (by (try dsimp only at *); omega) (by (try dsimp only at *); omega)
          · cases h
    rename_i st5' hs5
    have l5 := tryConsumeStr_gc hs5
    split at h
    · cases h
    · -- modifier group
      split at h
      · cases h
      · rename_i nd st3 qa hinner
        split at hinner
        · cases hinner
        · rename_i contents st2 hcd
          cases hinner
          have hd := ih.disj _ _ hcd
          simp only [DisjG] at hd
          split at h
          · rename_i st4 htc
            cases h
            have l9 := tryConsume_gc htc
            exact atomG_wrap hd rfl (by (try dsimp only at *); omega) (by (try dsimp only at *); omega)
          · cases h
    · -- capturing group
      split at h
      · cases h
      · rename_i c0 st6 hc
        have l6 := consume_gc hc
        replace h := ite_err_ok (limErr_ne _) h
        split at h
        · cases h
        · rename_i groupName st7 hnamed
          have l7 : st7.groupCount = st6.groupCount + 1 := by
            split at hnamed
            · rename_i st8 hs8
              have l8 := tryConsumeStr_gc hs8
              split at hnamed
              · cases hnamed
              · cases hnamed
              · cases hnamed; exact l8
            · rename_i st8 hs8
              have l8 := tryConsumeStr_gc hs8
              cases hnamed; exact l8
          split at h
          · cases h
          · rename_i nd st3 qa hinner
            split at hinner
            · cases hinner
            · rename_i contents st2 hcd
              cases hinner
              have hd := ih.disj _ _ hcd
              simp only [DisjG] at hd
              split at h
              · rename_i st4 htc
                cases h
                have l9 := tryConsume_gc htc
                exact atomG_group hd (by (try dsimp only at *); omega) (by (try dsimp only at *); omega)
                  (by (try dsimp only at *); omega)
              · cases h
  rw [if_neg hc5] at h
  by_cases hc6 : (c == 91 && st.flags.unicodeSets) = true
  · rw [if_pos hc6] at h
    split at h
    · cases h
    · rename_i c0 st1 hc
      have l1 := consume_gc hc
      split at h
      · cases h
      · split at h
        · cases h
        · cases h
          refine atomG_leaf (classSetNode_lg _ _ _) ?_
          show (tryConsume 94 st1).2.groupCount = st.groupCount
          exact (tryConsume_gc (st := st1) (c := 94) (b := (tryConsume 94 st1).1) rfl).trans l1
  rw [if_neg hc6] at h
  by_cases hc7 : (c == 91) = true
  · rw [if_pos hc7] at h
    split at h
    · cases h
    · rename_i nd rest hcb; cases h; exact atomG_leaf (consumeBracket_lg hcb) rfl
  rw [if_neg hc7] at h
  by_cases hc8 : (c == 123 && !st.flags.unicode) = true
  · rw [if_pos hc8] at h
    split at h
    · cases h
    · cases h
    · split at h
      · cases h
      · rename_i cp st1 hc
        split at h
        · cases h
        · rename_i nd hcn; cases h; exact atomG_leaf (charNode_lg hcn) (consume_gc hc)
  rw [if_neg hc8] at h
  by_cases hc9 : ((c == 42 || c == 43 || c == 63 || c == 93 || c == 123 || c == 125) && st.flags.unicode) = true
  · rw [if_pos hc9] at h
    cases h
  rw [if_neg hc9] at h
  by_cases hc10 : (c == 42 || c == 43 || c == 63) = true
  · rw [if_pos hc10] at h
    cases h
  · rw [if_neg hc10] at h
    split at h
    · cases h
    · rename_i c0 st1 hc
      split at h
      · cases h
      · rename_i nd hcn; cases h; exact atomG_leaf (charNode_lg hcn) (consume_gc hc)

/-- The descent, for every amount of fuel. -/
theorem descG_all (fuel : Nat) : DescG fuel := by
  induction fuel with
  | zero =>
    exact
      { disj := fun st p h => by simp [consumeDisjunction, panicAt] at h
        dloop := fun st terms p h => by simp [disjLoop, panicAt] at h
        tloop := fun st result p h => by simp [termLoop, panicAt] at h
        atom := fun st result c out h => by simp [consumeAtom, panicAt] at h }
  | succ k ih =>
    exact
      { disj := consumeDisjunction_stepG k ih
        dloop := fun st terms p h => disjLoop_stepG k ih st terms p h
        tloop := fun st result p h => termLoop_stepG k ih st result p h
        atom := fun st result c out h => consumeAtom_stepG k ih st result c out h }

/-! ## `finalize` (`reverse_cats`) permutes the groups -/

theorem groupLists_reverse_perm (ns : List Node) : (groupLists ns.reverse).Perm (groupLists ns) := by
  induction ns with
  | nil => exact .refl _
  | cons a t ih =>
    rw [List.reverse_cons, groupLists_append]
    simp only [groupLists, List.append_nil]
    exact List.perm_append_comm.trans (List.Perm.append_left _ ih)

mutual
theorem reverseCats_perm : ∀ (b : Bool) (n n' : Node), reverseCats b n = .ok n' →
    (groupList n').Perm (groupList n)
  | b, .cat ns, n', h => by
    simp only [Parse.reverseCats] at h
    split at h
    · cases h
    · rename_i ns' heq
      cases h
      have := reverseCatsList_perm b ns ns' heq
      cases b
      · simpa [groupList] using this
      · simp only [groupList, if_true]
        exact (groupLists_reverse_perm ns').trans this
  | b, .alt l r, n', h => by
    simp only [Parse.reverseCats] at h
    split at h
    · rename_i l' r' hl hr
      cases h
      simp only [groupList]
      exact (reverseCats_perm b l l' hl).append (reverseCats_perm b r r' hr)
    · cases h
    · cases h
  | b, .group id name c, n', h => by
    simp only [Parse.reverseCats] at h
    split at h
    · cases h
    · rename_i c' hc
      cases h
      simp only [groupList]
      exact (reverseCats_perm b c c' hc).cons _
  | b, .look ng bw sg eg c, n', h => by
    simp only [Parse.reverseCats] at h
    split at h
    · cases h
    · rename_i c' hc
      cases h
      simpa only [groupList] using reverseCats_perm bw c c' hc
  | b, .loop l q g0 g1, n', h => by
    simp only [Parse.reverseCats] at h
    split at h
    · cases h
    · rename_i l' hl
      cases h
      simpa only [groupList] using reverseCats_perm b l l' hl
  | b, .loop1 l q, n', h => by
    simp only [Parse.reverseCats] at h
    split at h
    · cases h
    · rename_i l' hl
      cases h
      simpa only [groupList] using reverseCats_perm b l l' hl
  | b, .byteSeq bs, n', h => by simp [Parse.reverseCats, panicAt] at h
  | b, .byteSet _, n', h => by simp only [Parse.reverseCats] at h; cases h; exact .refl _
  | b, .empty, n', h => by simp only [Parse.reverseCats] at h; cases h; exact .refl _
  | b, .goal, n', h => by simp only [Parse.reverseCats] at h; cases h; exact .refl _
  | b, .char _, n', h => by simp only [Parse.reverseCats] at h; cases h; exact .refl _
  | b, .charSet _, n', h => by simp only [Parse.reverseCats] at h; cases h; exact .refl _
  | b, .matchAny, n', h => by simp only [Parse.reverseCats] at h; cases h; exact .refl _
  | b, .matchAnyExceptLT, n', h => by simp only [Parse.reverseCats] at h; cases h; exact .refl _
  | b, .anchor _ _, n', h => by simp only [Parse.reverseCats] at h; cases h; exact .refl _
  | b, .wordBoundary _ _, n', h => by simp only [Parse.reverseCats] at h; cases h; exact .refl _
  | b, .backRef _ _, n', h => by simp only [Parse.reverseCats] at h; cases h; exact .refl _
  | b, .bracket _, n', h => by simp only [Parse.reverseCats] at h; cases h; exact .refl _
  | b, .stringSet _ _, n', h => by simp only [Parse.reverseCats] at h; cases h; exact .refl _
theorem reverseCatsList_perm : ∀ (b : Bool) (ns ns' : List Node), reverseCatsList b ns = .ok ns' →
    (groupLists ns').Perm (groupLists ns)
  | b, [], ns', h => by simp only [reverseCatsList] at h; cases h; exact .refl _
  | b, n :: ns, ns', h => by
    simp only [reverseCatsList] at h
    split at h
    · rename_i n1 ns1 hn hns
      cases h
      simp only [groupLists]
      exact (reverseCats_perm b n n1 hn).append (reverseCatsList_perm b ns ns1 hns)
    · cases h
    · cases h
end

/-! ## `parse` -/

/-- `groupIdsDense` from "the ids are a permutation of `0..k-1`". -/
theorem dense_of_perm {n : Node} {k : Nat} (h : (groupIds n).Perm (List.range k)) :
    groupIdsDense n = true := by
  have hlen : (groupIds n).length = k := by rw [h.length_eq]; simp
  simp only [groupIdsDense, Bool.and_eq_true, decide_eq_true_eq, List.all_eq_true, List.mem_range,
    List.contains_iff_mem, hlen]
  refine ⟨⟨h.nodup_iff.mpr List.nodup_range, ?_⟩, ?_⟩
  · intro i hi; simpa using h.mem_iff.mp hi
  · intro i hi; exact h.mem_iff.mpr (by simpa using hi)

theorem parseCaptureGroups_gc {st st' : PState} (h : parseCaptureGroups st = .ok st') :
    st'.groupCount = st.groupCount ∧ st'.input = st.input := by
  unfold parseCaptureGroups at h
  split at h
  · cases h
  · split at h
    · cases h
    · cases h; exact ⟨rfl, rfl⟩

/-- What the parser guarantees about the capture-group ids of its output. `body` is the tree as the
descent built it (before `reverse_cats`). -/
theorem parse_groups {pat : List Nat} {fl : Flags} {re : Regex} (hp : parse pat fl = .ok re) :
    ∃ body k, groupIds body = List.range k ∧ (groupList re.node).Perm (groupList body) := by
  unfold parse at hp
  simp only at hp
  generalize hst0 : ({ input := pat, flags := if fl.unicodeSets = true then
    { icase := fl.icase, multiline := fl.multiline, dotAll := fl.dotAll, noOpt := fl.noOpt, unicode := true,
      unicodeSets := fl.unicodeSets } else fl } : PState) = st0 at hp
  have hl0 : st0.groupCount = 0 := by subst hst0; rfl
  unfold tryParse at hp
  split at hp
  · cases hp
  · rename_i st1 hcg
    have hg1 := (parseCaptureGroups_gc hcg).1
    unfold parseBody at hp
    split at hp
    · cases hp
    · rename_i body st2 hcd
      have hk := (descG_all _).disj _ _ hcd
      simp only [DisjG] at hk
      rw [hg1, hl0] at hk
      have hids : groupIds body = List.range st2.groupCount := by
        rw [← gids_eq, hk.2, List.range_eq_range', Nat.sub_zero]
      refine ⟨body, st2.groupCount, hids, ?_⟩
      have hcat : makeCat [body, Node.goal] = .cat [body, .goal] := rfl
      have hgl : groupList (Node.cat [body, .goal]) = groupList body := by
        simp [groupList, groupLists]
      split at hp
      · split at hp <;> cases hp
      · unfold finalize at hp
        split at hp
        · split at hp
          · cases hp
          · rename_i n hrev
            cases hp
            rw [hcat] at hrev
            have := reverseCats_perm false _ _ hrev
            rw [hgl] at this
            exact this
        · cases hp
          rw [hcat, hgl]

/-- **The parser numbers the capture groups `0, 1, …, n-1`**: the ids of the `CaptureGroup` nodes of
the parsed tree are a permutation of `0 .. numGroups - 1` (not necessarily in increasing pre-order:
inside a look-behind `reverse_cats` has reversed the `Cat`s). -/
theorem parse_groupIds {pat : List Nat} {fl : Flags} {re : Regex} (hp : parse pat fl = .ok re) :
    (groupIds re.node).Perm (List.range (numGroups re.node)) := by
  obtain ⟨body, k, hids, hperm⟩ := parse_groups hp
  have h1 : (groupIds re.node).Perm (groupIds body) := hperm.map _
  have hk : k = numGroups re.node := by
    rw [← groupIds_length, h1.length_eq, hids]; simp
  rw [← hk, ← hids]
  exact h1

/-- **`groupIdsDense` holds of the parser's output.** -/
theorem parse_groupIdsDense {pat : List Nat} {fl : Flags} {re : Regex} (hp : parse pat fl = .ok re) :
    groupIdsDense re.node = true :=
  dense_of_perm (parse_groupIds hp)

end Regress.Closure2
