import RegressModel.VM.Search
import Proofs.Lemmas.Utf8
import Proofs.C10
/-!
# ASCII entry points agree with the UTF-8 ones on ASCII haystacks (helper lemmas for C13)

Notation: for `bytes : Array Nat`, `unicode : Bool`
`A := { kind := .ascii, bytes, unicode }`, `U := { kind := .utf8, bytes, unicode }`;
`hascii : ∀ b ∈ bytes, b < 128`.
-/
namespace Regress.VM

open Regress

section Prims

variable {bytes : Array Nat} (hascii : ∀ b ∈ bytes, b < 128) (unicode : Bool)

local notation "A" => Input.mk InputKind.ascii bytes unicode
local notation "U" => Input.mk InputKind.utf8 bytes unicode

include hascii in
theorem lt128_of_getElem? {i b : Nat} (h : bytes[i]? = some b) : b < 128 :=
  hascii b (Array.mem_of_getElem? h)

/-! ## The UTF-8 decoders on ASCII bytes -/

include hascii in
theorem utf8_nextRight_ascii (pos : Nat) :
    Utf8.nextRight bytes pos =
      (if pos == bytes.size then .ok none
       else match bytes[pos]? with
         | none => .error ()
         | some c => .ok (some (c, pos + 1))) := by
  unfold Utf8.nextRight
  split
  · rfl
  · cases hb : bytes[pos]? with
    | none => rfl
    | some b0 =>
      have : b0 < 128 := lt128_of_getElem? hascii hb
      simp [this]

include hascii in
theorem utf8_nextLeft_ascii (pos : Nat) :
    Utf8.nextLeft bytes pos =
      (if pos == 0 then .ok none
       else match bytes[pos - 1]? with
         | none => .error ()
         | some c => .ok (some (c, pos - 1))) := by
  unfold Utf8.nextLeft
  split
  · rfl
  · cases hz : bytes[pos - 1]? with
    | none => rfl
    | some z =>
      have : z < 128 := lt128_of_getElem? hascii hz
      simp [this]

include hascii in
theorem utf8_nextRightPos_ascii {pos : Nat} (hpos : pos ≤ bytes.size) :
    Utf8.nextRightPos bytes pos = .ok (Utf8.tryMoveRight bytes pos 1) := by
  unfold Utf8.nextRightPos Utf8.tryMoveRight
  by_cases he : pos = bytes.size
  · simp [he]
  · have hlt : pos < bytes.size := by omega
    have hb : bytes[pos] < 128 := hascii _ (Array.getElem_mem hlt)
    have h1 : ¬ (bytes.size - pos < 1) := by omega
    simp [he, hlt, hb, h1]

include hascii in
theorem utf8_nextLeftPos_ascii {pos : Nat} (hpos : pos ≤ bytes.size) :
    Utf8.nextLeftPos bytes pos = .ok (Utf8.tryMoveLeft pos 1) := by
  unfold Utf8.nextLeftPos Utf8.tryMoveLeft
  by_cases he : pos = 0
  · simp [he]
  · have hlt : pos - 1 < bytes.size := by omega
    have hb : bytes[pos - 1] < 128 := hascii _ (Array.getElem_mem hlt)
    have h1 : ¬ (pos < 1) := by omega
    simp [he, hlt, hb, h1]

/-! ## `InputIndexer` primitives -/

include hascii in
/-- `next_right` agrees at **every** position (out of range both are `.error ()`). -/
theorem nextRight_agree (pos : Nat) : Input.nextRight A pos = Input.nextRight U pos := by
  simp only [Input.nextRight, utf8_nextRight_ascii hascii]; rfl

include hascii in
/-- `next_left` agrees at **every** position. -/
theorem nextLeft_agree (pos : Nat) : Input.nextLeft A pos = Input.nextLeft U pos := by
  simp only [Input.nextLeft, utf8_nextLeft_ascii hascii]; rfl

include hascii in
/-- `next_right_pos` agrees for `pos ≤ size` only (see `nextRightPos_differ_out_of_range`). -/
theorem nextRightPos_agree {pos : Nat} (hpos : pos ≤ bytes.size) :
    Input.nextRightPos A pos = Input.nextRightPos U pos := by
  simp only [Input.nextRightPos, Input.tryMoveRight, utf8_nextRightPos_ascii hascii hpos]

include hascii in
/-- `next_left_pos` agrees for `pos ≤ size` only (see `nextLeftPos_differ_out_of_range`). -/
theorem nextLeftPos_agree {pos : Nat} (hpos : pos ≤ bytes.size) :
    Input.nextLeftPos A pos = Input.nextLeftPos U pos := by
  simp only [Input.nextLeftPos, Input.tryMoveLeft, utf8_nextLeftPos_ascii hascii hpos]

/-- Out of range the two `next_right_pos` differ: UTF-8 reads `bytes[pos]` (unchecked), ASCII is
`try_move_right(pos, 1)`. -/
theorem nextRightPos_differ_out_of_range :
    Input.nextRightPos { kind := .utf8, bytes := #[0x61], unicode := false } 2 = .error () ∧
    Input.nextRightPos { kind := .ascii, bytes := #[0x61], unicode := false } 2 = .ok none := by
  decide

/-- Out of range the two `next_left_pos` differ. -/
theorem nextLeftPos_differ_out_of_range :
    Input.nextLeftPos { kind := .utf8, bytes := #[0x61], unicode := false } 3 = .error () ∧
    Input.nextLeftPos { kind := .ascii, bytes := #[0x61], unicode := false } 3 = .ok (some 2) := by
  decide

include hascii in
theorem peekRight_agree (pos : Nat) : Input.peekRight A pos = Input.peekRight U pos := by
  simp only [Input.peekRight, nextRight_agree hascii]

include hascii in
theorem peekLeft_agree (pos : Nat) : Input.peekLeft A pos = Input.peekLeft U pos := by
  simp only [Input.peekLeft, nextLeft_agree hascii]

/-- The following primitives do not look at `kind` at all. -/
theorem peekByteRight_agree (pos : Nat) : Input.peekByteRight A pos = Input.peekByteRight U pos := rfl
theorem peekByteLeft_agree (pos : Nat) : Input.peekByteLeft A pos = Input.peekByteLeft U pos := rfl
theorem matchBytes_agree (fwd : Bool) (pos : Nat) (lit : List Nat) :
    Input.matchBytes A fwd pos lit = Input.matchBytes U fwd pos lit := rfl
theorem subrangeEq_agree (fwd : Bool) (pos rs re : Nat) :
    Input.subrangeEq A fwd pos rs re = Input.subrangeEq U fwd pos rs re := rfl
theorem tryMoveRight_agree (pos amt : Nat) :
    Input.tryMoveRight A pos amt = Input.tryMoveRight U pos amt := rfl
theorem tryMoveLeft_agree (pos amt : Nat) :
    Input.tryMoveLeft A pos amt = Input.tryMoveLeft U pos amt := rfl
theorem len_agree : Input.len A = Input.len U := rfl
theorem getb_agree (pos : Nat) : Input.getb A pos = Input.getb U pos := rfl

/-! ## `cursor.rs` -/

include hascii in
theorem cursorNext_agree (fwd : Bool) (pos : Nat) : Cursor.next A fwd pos = Cursor.next U fwd pos := by
  simp only [Cursor.next, nextRight_agree hascii, nextLeft_agree hascii]

theorem cursorNextByte_agree (fwd : Bool) (pos : Nat) :
    Cursor.nextByte A fwd pos = Cursor.nextByte U fwd pos := rfl

theorem tryMatchLit_agree (fwd : Bool) (pos : Nat) (lit : List Nat) :
    Cursor.tryMatchLit A fwd pos lit = Cursor.tryMatchLit U fwd pos lit := rfl

theorem backref_agree (fwd : Bool) (rs re pos : Nat) :
    backref A fwd rs re pos = backref U fwd rs re pos := rfl

/-- What `cursor::next` returns on an ASCII haystack (either kind): a byte `< 128` and a position
`≤ size`; **no** assumption on `pos`. -/
theorem cursorNext_ascii_some {fwd : Bool} {pos c p : Nat}
    (h : Cursor.next A fwd pos = .ok (some (c, p))) :
    c ∈ bytes ∧ p ≤ bytes.size ∧ (fwd = true → p = pos + 1) ∧ (fwd = false → p + 1 = pos) := by
  unfold Cursor.next at h
  cases fwd
  · simp only [Bool.false_eq_true, if_false, Input.nextLeft] at h
    split at h
    · cases h
    · split at h
      · cases h
      · next c' hc =>
        simp only [Except.ok.injEq, Option.some.injEq, Prod.mk.injEq] at h
        obtain ⟨rfl, rfl⟩ := h
        have hlt : pos - 1 < bytes.size := by
          rcases Array.getElem?_eq_some_iff.1 hc with ⟨hlt, _⟩; exact hlt
        have hne : pos ≠ 0 := by simp_all
        exact ⟨Array.mem_of_getElem? hc, by omega, by simp, fun _ => by omega⟩
  · simp only [if_true, Input.nextRight] at h
    split at h
    · cases h
    · split at h
      · cases h
      · next c' hc =>
        simp only [Except.ok.injEq, Option.some.injEq, Prod.mk.injEq] at h
        obtain ⟨rfl, rfl⟩ := h
        have hlt : pos < bytes.size := by
          rcases Array.getElem?_eq_some_iff.1 hc with ⟨hlt, _⟩; exact hlt
        exact ⟨Array.mem_of_getElem? hc, by omega, fun _ => rfl, by simp⟩

include hascii in
theorem cursorNext_utf8_some {fwd : Bool} {pos c p : Nat}
    (h : Cursor.next U fwd pos = .ok (some (c, p))) :
    c ∈ bytes ∧ p ≤ bytes.size ∧ (fwd = true → p = pos + 1) ∧ (fwd = false → p + 1 = pos) :=
  cursorNext_ascii_some unicode (by rw [cursorNext_agree hascii]; exact h)

/-! ## Case folding -/

/-- `fold` on an ASCII element: the Unicode tables restricted to ASCII are
`to_ascii_lowercase`/`to_ascii_uppercase`. -/
theorem foldElem_agree {c : Nat} (hc : c < 128) (u : Bool) :
    Input.foldElem .utf8 u c = Input.foldElem .ascii u c := by
  have hlt : Fold.asciiFold c u < 256 := by
    unfold Fold.asciiFold Fold.asciiLower Fold.asciiUpper
    cases u <;> simp <;> split <;> omega
  have hs : Utf8.isScalar (Fold.asciiFold c u) = true := by
    simp [Utf8.isScalar]; omega
  simp only [Input.foldElem, C10.ascii_foldCodePoint hc u, hs, if_true]
  unfold Fold.asciiFold Fold.asciiLower Fold.asciiUpper
  cases u <;> simp

/-- The restriction `c < 128` is needed: U+017F (ſ) folds to `s` under `unicode`, U+212A (KELVIN SIGN)
to `k`; with `!unicode`, U+00E9 upper-cases to U+00C9. The ASCII `fold` leaves all of them alone. -/
theorem foldElem_differ :
    Input.foldElem .utf8 true 0x17F = 0x73 ∧ Input.foldElem .ascii true 0x17F = 0x17F ∧
    Input.foldElem .utf8 true 0x212A = 0x6B ∧ Input.foldElem .ascii true 0x212A = 0x212A ∧
    Input.foldElem .utf8 false 0xE9 = 0xC9 ∧ Input.foldElem .ascii false 0xE9 = 0xE9 := by
  decide +kernel

theorem fold_agree {c : Nat} (hc : c < 128) : Input.fold A c = Input.fold U c := by
  simp only [Input.fold, foldElem_agree hc]

theorem foldEquals_agree {c1 c2 : Nat} (h1 : c1 < 128) (h2 : c2 < 128) :
    Input.foldEquals A c1 c2 = Input.foldEquals U c1 c2 := by
  simp only [Input.foldEquals, fold_agree unicode h1, fold_agree unicode h2]

/-- `fold_equals` differs on non-ASCII elements: `ſ` vs `s` with the `unicode` flag. -/
theorem foldEquals_differ :
    Input.foldEquals { kind := .utf8, bytes := #[], unicode := true } 0x17F 0x73 = true ∧
    Input.foldEquals { kind := .ascii, bytes := #[], unicode := true } 0x17F 0x73 = false := by
  decide +kernel

/-! ## `ElementType::try_from` -/

theorem elementTryFrom_ascii {c : Nat} (hc : c < 128) (k : InputKind) : elementTryFrom k c = some c := by
  cases k <;> simp [elementTryFrom, Utf8.isScalar] <;> omega

/-- For `c ≥ 128` the two conversions may differ (U+0100 is a `char` but not a `u8`; 0xD800 is
neither; 0xE9 is both), but if they succeed they return `c`. -/
theorem elementTryFrom_some {k : InputKind} {c c' : Nat} (h : elementTryFrom k c = some c') : c' = c := by
  cases k <;> simp only [elementTryFrom] at h <;> split at h <;> simp_all

theorem elementTryFrom_differ :
    elementTryFrom .utf8 0x100 = some 0x100 ∧ elementTryFrom .ascii 0x100 = none ∧
    elementTryFrom .utf8 0xD8 = some 0xD8 ∧ elementTryFrom .ascii 0xD8 = some 0xD8 := by decide

/-! ## Positions stay `≤ size` -/

theorem utf8_matchBytes_le {fwd : Bool} {pos p : Nat} {lit : List Nat}
    (h : Utf8.matchBytes bytes fwd pos lit = some p) (hpos : pos ≤ bytes.size) : p ≤ bytes.size := by
  unfold Utf8.matchBytes Utf8.tryMoveRight Utf8.tryMoveLeft at h
  cases fwd
  · simp only [Bool.false_eq_true, if_false] at h
    split at h
    · cases h
    · next s hs =>
      split at hs
      · cases hs
      · cases hs
        split at h
        · cases h; omega
        · cases h
  · simp only [if_true] at h
    split at h
    · cases h
    · next e he =>
      split at he
      · cases he
      · cases he
        split at h
        · cases h; omega
        · cases h

theorem cursorNextByte_le {k : InputKind} {fwd : Bool} {pos b p : Nat}
    (h : Cursor.nextByte (Input.mk k bytes unicode) fwd pos = .ok (some (b, p))) : p ≤ bytes.size := by
  unfold Cursor.nextByte Input.peekByteRight Input.peekByteLeft Utf8.peekByteRight
    Utf8.peekByteLeft at h
  cases fwd
  · simp only [Bool.false_eq_true, if_false] at h
    split at h
    · cases h
    · cases h
    · next b' hb =>
      split at hb
      · cases hb
      · cases h; omega
  · simp only [if_true] at h
    split at h
    · cases h
    · cases h
    · next b' hb =>
      split at hb
      · cases hb
      · simp only [Except.ok.injEq] at hb
        split at hb
        · cases hb
        · rcases Array.getElem?_eq_some_iff.1 hb with ⟨hlt, _⟩
          cases h; omega

/-! ## `matchers::backref_icase` -/

include hascii in
theorem backrefIcaseLoop_agree {refBytes : Array Nat} (href : ∀ b ∈ refBytes, b < 128) (fwd : Bool) :
    ∀ fuel refPos pos,
      backrefIcaseLoop A (Input.mk .ascii refBytes unicode) fwd fuel refPos pos =
      backrefIcaseLoop U (Input.mk .utf8 refBytes unicode) fwd fuel refPos pos := by
  intro fuel
  induction fuel with
  | zero => intro _ _; rfl
  | succ fuel ih =>
    intro refPos pos
    simp only [backrefIcaseLoop]
    rw [cursorNext_agree href, cursorNext_agree hascii]
    cases h1 : Cursor.next (Input.mk .utf8 refBytes unicode) fwd refPos with
    | error e => rfl
    | ok o1 =>
      cases o1 with
      | none => rfl
      | some cp =>
        obtain ⟨c1, rp⟩ := cp
        cases h2 : Cursor.next U fwd pos with
        | error e => rfl
        | ok o2 =>
          cases o2 with
          | none => rfl
          | some cp2 =>
            obtain ⟨c2, p2⟩ := cp2
            have hc1 : c1 < 128 := href _ (cursorNext_utf8_some href unicode h1).1
            have hc2 : c2 < 128 := hascii _ (cursorNext_utf8_some hascii unicode h2).1
            simp only [foldEquals_agree unicode hc1 hc2, ih]

theorem mem_of_mem_extract {a : Array Nat} {s e b : Nat} (h : b ∈ a.extract s e) : b ∈ a := by
  rcases Array.mem_extract_iff_getElem.1 h with ⟨k, hk, rfl⟩
  exact Array.getElem_mem _

include hascii in
/-- `backref_icase` agrees at **every** position: the elements it folds are bytes `< 128`. -/
theorem backrefIcase_agree (fwd : Bool) (rs re pos : Nat) :
    backrefIcase A fwd rs re pos = backrefIcase U fwd rs re pos := by
  unfold backrefIcase
  simp only
  split
  · rfl
  · exact backrefIcaseLoop_agree hascii unicode (fun b hb => hascii b (mem_of_mem_extract hb)) fwd _ _ _

include hascii in
theorem backrefIcaseLoop_le {ref : Input} (fwd : Bool) :
    ∀ fuel refPos pos p, backrefIcaseLoop U ref fwd fuel refPos pos = .ok (some p) →
      pos ≤ bytes.size → p ≤ bytes.size := by
  intro fuel
  induction fuel with
  | zero => intro _ _ _ h; cases h
  | succ fuel ih =>
    intro refPos pos p h hpos
    simp only [backrefIcaseLoop] at h
    split at h
    · cases h
    · cases h; exact hpos
    · split at h
      · cases h
      · cases h
      · next c2 p2 h2 =>
        split at h
        · exact ih _ _ _ h (cursorNext_utf8_some hascii unicode h2).2.1
        · cases h

include hascii in
theorem backrefIcase_le {fwd : Bool} {rs re pos p : Nat}
    (h : backrefIcase U fwd rs re pos = .ok (some p)) (hpos : pos ≤ bytes.size) : p ≤ bytes.size := by
  unfold backrefIcase at h
  simp only at h
  split at h
  · cases h
  · exact backrefIcaseLoop_le hascii unicode fwd _ _ _ _ h hpos

theorem backref_le {k : InputKind} {fwd : Bool} {rs re pos p : Nat}
    (h : backref (Input.mk k bytes unicode) fwd rs re pos = some p) (hpos : pos ≤ bytes.size) :
    p ≤ bytes.size := by
  unfold backref Input.subrangeEq Utf8.subrangeEq at h
  split at h
  · cases h
  · exact utf8_matchBytes_le h hpos

/-! ## `scm.rs` -/

include hascii in
/-- Every single-char matcher agrees at **every** position. -/
theorem scmMatches_agree (m : Scm) (fwd : Bool) (pos : Nat) :
    m.matches A fwd pos = m.matches U fwd pos := by
  cases m <;> simp only [Scm.matches, cursorNext_agree hascii] <;> rfl

include hascii in
theorem scmMatches_le {m : Scm} {fwd : Bool} {pos p : Nat}
    (h : m.matches U fwd pos = .ok (some p)) (hpos : pos ≤ bytes.size) : p ≤ bytes.size := by
  cases m <;> simp only [Scm.matches] at h
  case byteSeq bs =>
    simp only [Except.ok.injEq] at h
    exact utf8_matchBytes_le h hpos
  case byteSet bm =>
    split at h
    · cases h
    · cases h
    · next b p' hb =>
      have := cursorNextByte_le unicode hb
      simp only [Except.ok.injEq] at h
      split at h
      · cases h; exact this
      · cases h
  case byteArraySet bm =>
    split at h
    · cases h
    · cases h
    · next b p' hb =>
      have := cursorNextByte_le unicode hb
      simp only [Except.ok.injEq] at h
      split at h
      · cases h; exact this
      · cases h
  all_goals
    split at h
    · cases h
    · cases h
    · next c p' hc =>
      have := (cursorNext_utf8_some hascii unicode hc).2.1
      simp only [Except.ok.injEq] at h
      first
        | (cases h; exact this)
        | (split at h
           · cases h; exact this
           · cases h)

include hascii in
/-- In range `cursor::next` never fails on an ASCII haystack. -/
theorem cursorNext_utf8_ok {fwd : Bool} {pos : Nat} (hpos : pos ≤ bytes.size) :
    Cursor.next U fwd pos = .ok none ∨
    ∃ c p, Cursor.next U fwd pos = .ok (some (c, p)) ∧ c < 128 := by
  rw [← cursorNext_agree hascii]
  unfold Cursor.next
  cases fwd
  · simp only [Bool.false_eq_true, if_false, Input.nextLeft]
    by_cases h0 : pos = 0
    · simp [h0]
    · have hlt : pos - 1 < bytes.size := by omega
      right
      exact ⟨bytes[pos - 1], pos - 1, by simp [h0, hlt], hascii _ (Array.getElem_mem hlt)⟩
  · simp only [if_true, Input.nextRight]
    by_cases h0 : pos = bytes.size
    · simp [h0]
    · have hlt : pos < bytes.size := by omega
      right
      exact ⟨bytes[pos], pos + 1, by simp [h0, hlt], hascii _ (Array.getElem_mem hlt)⟩

include hascii in
/-- A `Char(c)` matcher with `c ≥ 128` never matches (and never fails to read) in range. -/
theorem scmChar_big_U {c : Nat} (hc : 128 ≤ c) {fwd : Bool} {pos : Nat} (hpos : pos ≤ bytes.size) :
    (Scm.char c).matches U fwd pos = .ok none := by
  simp only [Scm.matches]
  rcases cursorNext_utf8_ok hascii unicode (fwd := fwd) hpos with h | ⟨c2, p, h, hc2⟩
  · rw [h]
  · rw [h]
    have : (c2 == c) = false := by simp; omega
    simp [this]

include hascii in
theorem scmChar_big {c : Nat} (hc : 128 ≤ c) (k : InputKind) {fwd : Bool} {pos : Nat}
    (hpos : pos ≤ bytes.size) :
    (Scm.char c).matches (Input.mk k bytes unicode) fwd pos = .ok none := by
  cases k
  · exact scmChar_big_U hascii unicode hc hpos
  · rw [scmMatches_agree hascii]; exact scmChar_big_U hascii unicode hc hpos

/-- Out of range a `Char(c)` matcher is a failed read, which is why `Bt.step` needs `pos ≤ size`
for a `Char(c)` instruction with `c ≥ 256` (`u8::try_from` fails: plain backtrack). -/
theorem scmChar_out_of_range :
    (Scm.char 0x100).matches { kind := .utf8, bytes := #[], unicode := false } true 1 = .error () := by
  decide

/-! ## The single-char loops of the backtracker -/

include hascii in
theorem scmExactly_agree (m : Scm) (fwd : Bool) :
    ∀ n pos, Bt.scmExactly m A fwd n pos = Bt.scmExactly m U fwd n pos := by
  intro n
  induction n with
  | zero => intro _; rfl
  | succ n ih => intro pos; simp only [Bt.scmExactly, scmMatches_agree hascii, ih]

include hascii in
theorem scmUpTo_agree (m : Scm) (fwd : Bool) :
    ∀ fuel limit pos, Bt.scmUpTo m A fwd fuel limit pos = Bt.scmUpTo m U fwd fuel limit pos := by
  intro fuel
  induction fuel with
  | zero => intro _ _; rfl
  | succ n ih => intro limit pos; simp only [Bt.scmUpTo, scmMatches_agree hascii, ih]

include hascii in
theorem scmExactly_le {m : Scm} {fwd : Bool} :
    ∀ n pos p, Bt.scmExactly m U fwd n pos = .ok (some p) → pos ≤ bytes.size → p ≤ bytes.size := by
  intro n
  induction n with
  | zero => intro pos p h hpos; simp only [Bt.scmExactly] at h; cases h; exact hpos
  | succ n ih =>
    intro pos p h hpos
    simp only [Bt.scmExactly] at h
    split at h
    · cases h
    · cases h
    · next p1 h1 => exact ih _ _ h (scmMatches_le hascii unicode h1 hpos)

include hascii in
theorem scmUpTo_le {m : Scm} {fwd : Bool} :
    ∀ fuel limit pos p, Bt.scmUpTo m U fwd fuel limit pos = .ok p → pos ≤ bytes.size →
      p ≤ bytes.size := by
  intro fuel
  induction fuel with
  | zero => intro _ pos p h hpos; cases h
  | succ n ih =>
    intro limit pos p h hpos
    simp only [Bt.scmUpTo] at h
    split at h
    · cases h; exact hpos
    · split at h
      · cases h
      · cases h; exact hpos
      · next p1 h1 => exact ih _ _ _ h (scmMatches_le hascii unicode h1 hpos)

include hascii in
theorem runScmLoopImpl_agree (m : Scm) (fwd : Bool) (pos min : Nat) (max : Option Nat) :
    Bt.runScmLoopImpl m A fwd pos min max = Bt.runScmLoopImpl m U fwd pos min max := by
  simp only [Bt.runScmLoopImpl, scmExactly_agree hascii, scmUpTo_agree hascii, Input.len]

include hascii in
theorem runScmLoopImpl_le {m : Scm} {fwd : Bool} {pos min a b : Nat} {max : Option Nat}
    (h : Bt.runScmLoopImpl m U fwd pos min max = .ok (some (a, b))) (hpos : pos ≤ bytes.size) :
    a ≤ bytes.size ∧ b ≤ bytes.size := by
  unfold Bt.runScmLoopImpl at h
  split at h
  · cases h
  · cases h
  · next minPos h1 =>
    have hmin := scmExactly_le hascii unicode _ _ _ h1 hpos
    simp only at h
    split at h
    · cases h
    · split at h
      · cases h
      · next maxPos h2 =>
        have hmax := scmUpTo_le hascii unicode _ _ _ _ h2 hmin
        cases h
        exact ⟨hmin, hmax⟩

include hascii in
theorem scmUpTo_char_big {c : Nat} (hc : 128 ≤ c) (k : InputKind) {fwd : Bool} {pos : Nat}
    (hpos : pos ≤ bytes.size) (fuel : Nat) (limit : Option Nat) :
    Bt.scmUpTo (.char c) (Input.mk k bytes unicode) fwd (fuel + 1) limit pos = .ok pos := by
  simp only [Bt.scmUpTo, scmChar_big hascii unicode hc k hpos]
  split <;> rfl

include hascii in
/-- A `Loop1CharBody` over `Char(c)`, `c ≥ 128`: zero iterations, whatever `try_from` said. -/
theorem runScmLoopImpl_char_big {c : Nat} (hc : 128 ≤ c) (k : InputKind) {fwd : Bool} {pos : Nat}
    (hpos : pos ≤ bytes.size) (min : Nat) (max : Option Nat) :
    Bt.runScmLoopImpl (.char c) (Input.mk k bytes unicode) fwd pos min max =
      (if min == 0 then .ok (some (pos, pos)) else .ok none) := by
  cases min with
  | zero =>
    simp only [Bt.runScmLoopImpl, Bt.scmExactly, Input.len,
      scmUpTo_char_big hascii unicode hc k hpos]
    cases max <;> simp
  | succ n =>
    simp [Bt.runScmLoopImpl, Bt.scmExactly, scmChar_big hascii unicode hc k hpos]

theorem scmSelect_cases (prog : Prog) (ip : Nat) :
    (∃ c, prog.insns[ip + 1]? = some (.char c) ∧ 128 ≤ c) ∨
    Bt.scmSelect prog .ascii ip = Bt.scmSelect prog .utf8 ip := by
  unfold Bt.scmSelect
  cases h : prog.insns[ip + 1]? with
  | none => right; rfl
  | some i =>
    cases i
    case char c =>
      by_cases hc : c < 128
      · right; simp only [elementTryFrom_ascii hc]
      · left; exact ⟨c, rfl, by omega⟩
    all_goals right; rfl

theorem scmSelect_char {prog : Prog} {ip c : Nat} (h : prog.insns[ip + 1]? = some (.char c))
    (k : InputKind) :
    Bt.scmSelect prog k ip = .scm (.char c) ∨ Bt.scmSelect prog k ip = .charNone := by
  unfold Bt.scmSelect
  simp only [h]
  cases he : elementTryFrom k c with
  | none => right; rfl
  | some c' => left; rw [elementTryFrom_some he]

include hascii in
theorem withScmLoopImpl_char_big {prog : Prog} {ip c : Nat}
    (h : prog.insns[ip + 1]? = some (.char c)) (hc : 128 ≤ c) (k : InputKind) {fwd : Bool} {pos : Nat}
    (hpos : pos ≤ bytes.size) (min : Nat) (max : Option Nat) :
    Bt.withScmLoopImpl prog (Input.mk k bytes unicode) fwd pos min max ip =
      (if min == 0 then .ok (some (pos, pos)) else .ok none) := by
  unfold Bt.withScmLoopImpl
  rcases scmSelect_char h k with hs | hs <;> simp only [hs]
  exact runScmLoopImpl_char_big hascii unicode hc k hpos min max

include hascii in
theorem withScmComputeMax_char_big {prog : Prog} {ip c : Nat}
    (h : prog.insns[ip + 1]? = some (.char c)) (hc : 128 ≤ c) (k : InputKind) {fwd : Bool} {pos : Nat}
    (hpos : pos ≤ bytes.size) (limit : Option Nat) :
    Bt.withScmComputeMax prog (Input.mk k bytes unicode) fwd pos limit ip = .ok pos := by
  unfold Bt.withScmComputeMax
  rcases scmSelect_char h k with hs | hs <;> simp only [hs]
  exact scmUpTo_char_big hascii unicode hc k hpos _ limit

include hascii in
/-- `with_scm_loop_impl`: needs `pos ≤ size` only for a `Char(c)` body with `c ≥ 128`. -/
theorem withScmLoopImpl_agree (prog : Prog) (fwd : Bool) {pos : Nat} (hpos : pos ≤ bytes.size)
    (min : Nat) (max : Option Nat) (ip : Nat) :
    Bt.withScmLoopImpl prog A fwd pos min max ip = Bt.withScmLoopImpl prog U fwd pos min max ip := by
  rcases scmSelect_cases prog ip with ⟨c, h, hc⟩ | hs
  · rw [withScmLoopImpl_char_big hascii unicode h hc .ascii hpos,
      withScmLoopImpl_char_big hascii unicode h hc .utf8 hpos]
  · unfold Bt.withScmLoopImpl
    simp only [hs]
    cases Bt.scmSelect prog .utf8 ip <;> simp only [runScmLoopImpl_agree hascii]

include hascii in
theorem withScmComputeMax_agree (prog : Prog) (fwd : Bool) {pos : Nat} (hpos : pos ≤ bytes.size)
    (limit : Option Nat) (ip : Nat) :
    Bt.withScmComputeMax prog A fwd pos limit ip = Bt.withScmComputeMax prog U fwd pos limit ip := by
  rcases scmSelect_cases prog ip with ⟨c, h, hc⟩ | hs
  · rw [withScmComputeMax_char_big hascii unicode h hc .ascii hpos,
      withScmComputeMax_char_big hascii unicode h hc .utf8 hpos]
  · unfold Bt.withScmComputeMax
    simp only [hs]
    cases Bt.scmSelect prog .utf8 ip <;> simp only [scmUpTo_agree hascii, Input.len]

include hascii in
theorem withScmLoopImpl_le {prog : Prog} {fwd : Bool} {pos min a b ip : Nat} {max : Option Nat}
    (h : Bt.withScmLoopImpl prog U fwd pos min max ip = .ok (some (a, b))) (hpos : pos ≤ bytes.size) :
    a ≤ bytes.size ∧ b ≤ bytes.size := by
  unfold Bt.withScmLoopImpl at h
  split at h
  · exact runScmLoopImpl_le hascii unicode h hpos
  · split at h
    · cases h; exact ⟨hpos, hpos⟩
    · cases h
  · cases h
  · cases h
  · cases h

include hascii in
theorem withScmComputeMax_le {prog : Prog} {fwd : Bool} {pos p ip : Nat} {limit : Option Nat}
    (h : Bt.withScmComputeMax prog U fwd pos limit ip = .ok p) (hpos : pos ≤ bytes.size) :
    p ≤ bytes.size := by
  unfold Bt.withScmComputeMax at h
  split at h
  · exact scmUpTo_le hascii unicode _ _ _ _ h hpos
  · cases h; exact hpos
  · cases h
  · cases h
  · cases h

end Prims

/-! ## The invariant of a backtracking run

`recOk n r`: the positions of the record `r` that `try_backtrack` resumes at (`SetPosition.pos`,
`EnterNonGreedyLoop.data.entry`) or moves with `next_left_pos`/`next_right_pos`
(`GreedyLoop1Char.max`, `NonGreedyLoop1Char.min`) are `≤ n`. Nothing is required of the other
fields, of `SetLoopData`/`SetCaptureGroup` records or of the `State`. -/

def recOk (n : Nat) : Bt.BtInsn → Bool
  | .setPosition _ p => decide (p ≤ n)
  | .enterNonGreedyLoop _ _ d => decide (d.entry ≤ n)
  | .greedyLoop1Char _ _ mx => decide (mx ≤ n)
  | .nonGreedyLoop1Char _ mn _ => decide (mn ≤ n)
  | _ => true

/-- Every record of the backtrack stack is `recOk`. -/
def BtsOk (n : Nat) (bts : Array Bt.BtInsn) : Prop := ∀ r ∈ bts, recOk n r = true

instance (n : Nat) (bts : Array Bt.BtInsn) : Decidable (BtsOk n bts) := by
  unfold BtsOk; infer_instance

theorem BtsOk.push {n : Nat} {bts : Array Bt.BtInsn} {r : Bt.BtInsn} (h : BtsOk n bts)
    (hr : recOk n r = true) : BtsOk n (bts.push r) := by
  intro x hx
  rcases Array.mem_push.1 hx with hx | rfl
  · exact h x hx
  · exact hr

theorem BtsOk.pop {n : Nat} {bts : Array Bt.BtInsn} (h : BtsOk n bts) : BtsOk n bts.pop := by
  intro x hx
  rw [Array.mem_def, Array.toList_pop] at hx
  exact h x (Array.mem_def.2 (List.dropLast_subset _ hx))

theorem BtsOk.set {n : Nat} {bts : Array Bt.BtInsn} {r : Bt.BtInsn} (h : BtsOk n bts)
    (hr : recOk n r = true) (i : Nat) : BtsOk n (bts.setIfInBounds i r) := by
  intro x hx
  rcases Array.mem_or_eq_of_mem_setIfInBounds hx with hx | rfl
  · exact h x hx
  · exact hr

theorem BtsOk.back {n : Nat} {bts : Array Bt.BtInsn} {r : Bt.BtInsn} (h : BtsOk n bts)
    (hb : bts.back? = some r) : recOk n r = true := h r (Array.mem_of_back? hb)

theorem btsOk_exhausted (n : Nat) : BtsOk n #[.exhausted] := by
  intro r hr; simp at hr; subst hr; rfl

theorem pushSavedGroups_ok {n : Nat} : ∀ (l : List Bt.GroupData) (id : Nat) (bts : Array Bt.BtInsn),
    BtsOk n bts → BtsOk n (Bt.pushSavedGroups l id bts)
  | [], _, _, h => h
  | _ :: rest, id, _, h => pushSavedGroups_ok rest (id + 1) _ (h.push rfl)

section BtLemmas

variable {bytes : Array Nat} (hascii : ∀ b ∈ bytes, b < 128) (unicode : Bool)

local notation "A" => Input.mk InputKind.ascii bytes unicode
local notation "U" => Input.mk InputKind.utf8 bytes unicode

/-! ## `run_scm_loop` -/

include hascii in
theorem runScmLoop_agree (prog : Prog) (fwd : Bool) (bts : Array Bt.BtInsn) {pos : Nat}
    (hpos : pos ≤ bytes.size) (min : Nat) (max : Option Nat) (ip : Nat) (greedy : Bool) :
    Bt.runScmLoop prog A fwd bts pos min max ip greedy =
      Bt.runScmLoop prog U fwd bts pos min max ip greedy := by
  unfold Bt.runScmLoop
  cases greedy
  · simp only [Bool.false_eq_true, if_false, withScmLoopImpl_agree hascii unicode prog fwd hpos]
    cases h : Bt.withScmLoopImpl prog U fwd pos min (some min) ip with
    | error e => rfl
    | ok o =>
      cases o with
      | none => rfl
      | some ab =>
        obtain ⟨a, b⟩ := ab
        have ha := (withScmLoopImpl_le hascii unicode h hpos).1
        simp only [withScmComputeMax_agree hascii unicode prog fwd ha]
  · simp only [if_true, withScmLoopImpl_agree hascii unicode prog fwd hpos]

include hascii in
theorem runScmLoop_ok {prog : Prog} {fwd : Bool} {bts bts' : Array Bt.BtInsn} {pos min ip nip p : Nat}
    {max : Option Nat} {greedy : Bool}
    (h : Bt.runScmLoop prog U fwd bts pos min max ip greedy = .ok (some (nip, p, bts')))
    (hpos : pos ≤ bytes.size) (hbts : BtsOk bytes.size bts) :
    p ≤ bytes.size ∧ BtsOk bytes.size bts' := by
  unfold Bt.runScmLoop at h
  -- the (minPos, maxPos) pair is in range
  have key : ∀ a b,
      (if greedy = true then Bt.withScmLoopImpl prog U fwd pos min max ip
       else
        match Bt.withScmLoopImpl prog U fwd pos min (some min) ip with
        | .error e => .error e
        | .ok none => .ok none
        | .ok (some (minPos, _)) =>
          if Bt.ltOpt min max = true then
            match Bt.withScmComputeMax prog U fwd minPos (max.map (· - min)) ip with
            | .error e => .error e
            | .ok maxPos => .ok (some (minPos, maxPos))
          else .ok (some (minPos, minPos))) = .ok (some (a, b)) →
      a ≤ bytes.size ∧ b ≤ bytes.size := by
    intro a b hab
    split at hab
    · exact withScmLoopImpl_le hascii unicode hab hpos
    · split at hab
      · cases hab
      · cases hab
      · next minPos x h1 =>
        have ha := (withScmLoopImpl_le hascii unicode h1 hpos).1
        split at hab
        · split at hab
          · cases hab
          · next maxPos h2 =>
            cases hab
            exact ⟨ha, withScmComputeMax_le hascii unicode h2 ha⟩
        · cases hab; exact ⟨ha, ha⟩
  simp only at h
  split at h
  · cases h
  · cases h
  · next a b hab =>
    obtain ⟨ha, hb⟩ := key a b hab
    simp only [Except.ok.injEq, Option.some.injEq, Prod.mk.injEq] at h
    obtain ⟨-, rfl, rfl⟩ := h
    constructor
    · split <;> assumption
    · split
      · apply hbts.push
        split <;> simp [recOk, ha, hb]
      · exact hbts

/-! ## `try_backtrack` -/

/-- What `try_backtrack` hands back: a position `≤ n` and a stack that is `BtsOk`. -/
def BtResOk (n : Nat) : Bt.BtRes → Prop
  | .resumed _ pos _ bts => pos ≤ n ∧ BtsOk n bts
  | _ => True

theorem tryMoveRight_some {pos p : Nat} (h : Utf8.tryMoveRight bytes pos 1 = some p) :
    p = pos + 1 ∧ p ≤ bytes.size := by
  unfold Utf8.tryMoveRight at h
  split at h
  · cases h
  · cases h; omega

theorem tryMoveLeft_some {pos p : Nat} (h : Utf8.tryMoveLeft pos 1 = some p) : p + 1 = pos := by
  unfold Utf8.tryMoveLeft at h
  split at h
  · cases h
  · cases h; omega

include hascii in
theorem nextRightPos_le {pos p : Nat} (hpos : pos ≤ bytes.size)
    (h : Input.nextRightPos U pos = .ok (some p)) : p ≤ bytes.size := by
  simp only [Input.nextRightPos, utf8_nextRightPos_ascii hascii hpos, Except.ok.injEq] at h
  exact (tryMoveRight_some h).2

include hascii in
theorem nextLeftPos_le {pos p : Nat} (hpos : pos ≤ bytes.size)
    (h : Input.nextLeftPos U pos = .ok (some p)) : p ≤ bytes.size := by
  simp only [Input.nextLeftPos, utf8_nextLeftPos_ascii hascii hpos, Except.ok.injEq] at h
  have := tryMoveLeft_some h
  omega

include hascii in
theorem tryBacktrackLoop_agree (prog : Prog) (fwd : Bool) :
    ∀ k st bts, BtsOk bytes.size bts →
      Bt.tryBacktrackLoop prog A fwd k st bts = Bt.tryBacktrackLoop prog U fwd k st bts := by
  intro k
  induction k with
  | zero => intro _ _ _; rfl
  | succ k ih =>
    intro st bts hok
    simp only [Bt.tryBacktrackLoop]
    cases hb : bts.back? with
    | none => rfl
    | some bt =>
      have hr := hok.back hb
      cases bt with
      | exhausted => rfl
      | setPosition ip pos => rfl
      | setLoopData id data => simp only [ih _ _ hok.pop]
      | setCaptureGroup id data => simp only [ih _ _ hok.pop]
      | enterNonGreedyLoop ip origPos data => rfl
      | greedyLoop1Char c mn mx =>
        have hmx : mx ≤ bytes.size := by simpa [recOk] using hr
        simp only [ih _ _ hok.pop, nextLeftPos_agree hascii unicode hmx,
          nextRightPos_agree hascii unicode hmx]
      | nonGreedyLoop1Char c mn mx =>
        have hmn : mn ≤ bytes.size := by simpa [recOk] using hr
        simp only [ih _ _ hok.pop, nextLeftPos_agree hascii unicode hmn,
          nextRightPos_agree hascii unicode hmn]

include hascii in
theorem tryBacktrack_agree (prog : Prog) (fwd : Bool) (st : Bt.State) {bts : Array Bt.BtInsn}
    (hok : BtsOk bytes.size bts) :
    Bt.tryBacktrack prog A fwd st bts = Bt.tryBacktrack prog U fwd st bts :=
  tryBacktrackLoop_agree hascii unicode prog fwd _ st bts hok

include hascii in
theorem tryBacktrackLoop_ok (prog : Prog) (fwd : Bool) :
    ∀ k st bts, BtsOk bytes.size bts →
      BtResOk bytes.size (Bt.tryBacktrackLoop prog U fwd k st bts) := by
  intro k
  induction k with
  | zero => intro _ _ _; trivial
  | succ k ih =>
    intro st bts hok
    simp only [Bt.tryBacktrackLoop]
    cases hb : bts.back? with
    | none => trivial
    | some bt =>
      have hr := hok.back hb
      cases bt with
      | exhausted => trivial
      | setPosition ip pos =>
        exact ⟨by simpa [recOk] using hr, hok.pop⟩
      | setLoopData id data =>
        simp only; split
        · exact ih _ _ hok.pop
        · trivial
      | setCaptureGroup id data =>
        simp only; split
        · exact ih _ _ hok.pop
        · trivial
      | enterNonGreedyLoop ip origPos data =>
        have hd : data.entry ≤ bytes.size := by simpa [recOk] using hr
        simp only; split
        · trivial
        · split
          · exact ⟨hd, (hok.set rfl _).push rfl⟩
          · trivial
        · trivial
      | greedyLoop1Char c mn mx =>
        have hmx : mx ≤ bytes.size := by simpa [recOk] using hr
        simp only; split
        · exact ih _ _ hok.pop
        · split
          · trivial
          · trivial
          · next nm hnm =>
            have hle : nm ≤ bytes.size := by
              cases fwd
              · exact nextRightPos_le hascii unicode hmx (by simpa using hnm)
              · exact nextLeftPos_le hascii unicode hmx (by simpa using hnm)
            exact ⟨hle, hok.set (by simp [recOk, hle]) _⟩
      | nonGreedyLoop1Char c mn mx =>
        have hmn : mn ≤ bytes.size := by simpa [recOk] using hr
        simp only; split
        · exact ih _ _ hok.pop
        · split
          · trivial
          · trivial
          · next nm hnm =>
            have hle : nm ≤ bytes.size := by
              cases fwd
              · exact nextLeftPos_le hascii unicode hmn (by simpa using hnm)
              · exact nextRightPos_le hascii unicode hmn (by simpa using hnm)
            exact ⟨hle, hok.set (by simp [recOk, hle]) _⟩

include hascii in
theorem tryBacktrack_ok (prog : Prog) (fwd : Bool) (st : Bt.State) {bts : Array Bt.BtInsn}
    (hok : BtsOk bytes.size bts) : BtResOk bytes.size (Bt.tryBacktrack prog U fwd st bts) :=
  tryBacktrackLoop_ok hascii unicode prog fwd _ st bts hok

end BtLemmas

/-! ## One instruction -/

/-- What an instruction hands back: positions `≤ n`, stacks `BtsOk`. -/
def ActOk (n : Nat) : Bt.Act → Prop
  | .cont _ pos _ bts => pos ≤ n ∧ BtsOk n bts
  | .back _ bts => BtsOk n bts
  | .goal pos _ => pos ≤ n
  | .look _ _ _ _ _ _ bts => BtsOk n bts
  | .err _ => True

def LoopResOk (n : Nat) : Bt.LoopRes → Prop
  | .ok _ _ bts => BtsOk n bts
  | .err _ => True

theorem nextOrBt_ok {n : Nat} {r : Except Unit (Option Nat)} (hr : ∀ p, r = .ok (some p) → p ≤ n)
    (site : String) (ip : Nat) (st : Bt.State) {bts : Array Bt.BtInsn} (hbts : BtsOk n bts) :
    ActOk n (Bt.nextOrBt r site ip st bts) := by
  unfold Bt.nextOrBt
  split
  · trivial
  · exact hbts
  · next p => exact ⟨hr p rfl, hbts⟩

theorem wordBoundaryAct_ok {n : Nat} (inp : Input) (f : Nat → Bool) (invert : Bool) (ip : Nat)
    {pos : Nat} (hpos : pos ≤ n) (st : Bt.State) {bts : Array Bt.BtInsn} (hbts : BtsOk n bts) :
    ActOk n (Bt.wordBoundaryAct inp f invert ip pos st bts) := by
  unfold Bt.wordBoundaryAct
  split
  · trivial
  · split
    · trivial
    · simp only; split
      · exact ⟨hpos, hbts⟩
      · exact hbts

theorem lineAct_ok {n : Nat} (r : Except Unit (Option Nat)) (multiline : Bool) (site : String)
    (ip : Nat) {pos : Nat} (hpos : pos ≤ n) (st : Bt.State) {bts : Array Bt.BtInsn}
    (hbts : BtsOk n bts) : ActOk n (Bt.lineAct r multiline site ip pos st bts) := by
  unfold Bt.lineAct
  split
  · trivial
  · exact ⟨hpos, hbts⟩
  · split
    · exact ⟨hpos, hbts⟩
    · exact hbts

theorem groupAct_ok {n : Nat} (g : Nat) (upd : Bt.GroupData → Bt.GroupData) (site : String)
    (ip : Nat) {pos : Nat} (hpos : pos ≤ n) (st : Bt.State) {bts : Array Bt.BtInsn}
    (hbts : BtsOk n bts) : ActOk n (Bt.groupAct g upd site ip pos st bts) := by
  unfold Bt.groupAct
  split
  · trivial
  · exact ⟨hpos, hbts.push rfl⟩

theorem runLoop_ok {n : Nat} (st : Bt.State) {bts : Array Bt.BtInsn} (hbts : BtsOk n bts)
    (id min : Nat) (max : Option Nat) (greedy : Bool) (exit : Nat) {pos : Nat} (hpos : pos ≤ n)
    (ip : Nat) : LoopResOk n (Bt.runLoop st bts id min max greedy exit pos ip) := by
  unfold Bt.runLoop
  split
  · trivial
  · simp only
    split
    · exact hbts
    · split
      · exact hbts
      · exact hbts
      · exact hbts.push rfl
      · split
        · exact hbts.push (by simp [recOk, hpos])
        · exact (hbts.push (by simp [recOk, hpos])).push rfl

section BtStep

variable {bytes : Array Nat} (hascii : ∀ b ∈ bytes, b < 128) (unicode : Bool)

local notation "A" => Input.mk InputKind.ascii bytes unicode
local notation "U" => Input.mk InputKind.utf8 bytes unicode

include hascii in
/-- The `Char(c)` arm for `c ≥ 128`: a plain backtrack under both kinds (in range). -/
theorem step_char_big {c : Nat} (hc : 128 ≤ c) (k : InputKind) {fwd : Bool} {pos : Nat}
    (hpos : pos ≤ bytes.size) (site : String) (ip : Nat) (st : Bt.State) (bts : Array Bt.BtInsn) :
    (match elementTryFrom k c with
      | some c => Bt.nextOrBt ((Scm.char c).matches (Input.mk k bytes unicode) fwd pos) site ip st bts
      | none => Bt.Act.back st bts) = .back st bts := by
  cases he : elementTryFrom k c with
  | none => rfl
  | some c' =>
    rw [elementTryFrom_some he]
    simp only [scmChar_big hascii unicode hc k hpos, Bt.nextOrBt]

include hascii in
/-- One instruction of `try_at_pos` agrees for `pos ≤ size`. The restriction is needed only for
`Char(c)` with `c ≥ 128` and `Loop1CharBody` (see `step_char_differs_out_of_range`). -/
theorem step_agree (prog : Prog) (ip : Nat) {pos : Nat} (hpos : pos ≤ bytes.size) (fwd : Bool)
    (st : Bt.State) (bts : Array Bt.BtInsn) :
    Bt.step prog A ip pos fwd st bts = Bt.step prog U ip pos fwd st bts := by
  unfold Bt.step
  cases hi : prog.insns[ip]? with
  | none => rfl
  | some insn =>
    cases insn
    case char c =>
      by_cases hc : c < 128
      · simp only [elementTryFrom_ascii hc, scmMatches_agree hascii]
      · have hc' : 128 ≤ c := by omega
        exact (step_char_big hascii unicode hc' .ascii hpos _ ip st bts).trans
          (step_char_big hascii unicode hc' .utf8 hpos _ ip st bts).symm
    all_goals try simp only [scmMatches_agree hascii, peekLeft_agree hascii, peekRight_agree hascii,
      backrefIcase_agree hascii, Bt.wordBoundaryAct,
      runScmLoop_agree hascii unicode prog fwd bts hpos]
    all_goals rfl

include hascii in
/-- `Bt.step` on `Char(c)`, `c ≥ 128`, in range: `break 'backtrack` under both kinds. -/
theorem step_char_big' {prog : Prog} {ip c : Nat} (hi : prog.insns[ip]? = some (.char c))
    (hc : 128 ≤ c) (k : InputKind) {fwd : Bool} {pos : Nat} (hpos : pos ≤ bytes.size)
    (st : Bt.State) (bts : Array Bt.BtInsn) :
    Bt.step prog (Input.mk k bytes unicode) ip pos fwd st bts = .back st bts := by
  unfold Bt.step
  simp only [hi]
  exact step_char_big hascii unicode hc k hpos _ ip st bts

/-- Out of range the `Char(c)` arm differs (`c ≥ 256`): a failed read under UTF-8, a plain backtrack
under ASCII. This is why the run invariant contains `pos ≤ size`. -/
theorem step_char_differs_out_of_range :
    let prog : Prog := { insns := #[.char 0x100, .goal], brackets := #[], loops := 0, groups := 1,
                         flags := {}, names := [], startPred := .arbitrary }
    (match Bt.step prog { kind := .utf8, bytes := #[], unicode := false } 0 1 true
        (Bt.freshState prog 0) #[.exhausted] with
      | .err _ => true
      | _ => false) = true ∧
    (match Bt.step prog { kind := .ascii, bytes := #[], unicode := false } 0 1 true
        (Bt.freshState prog 0) #[.exhausted] with
      | .back _ _ => true
      | _ => false) = true := by
  decide

include hascii in
theorem step_ok (prog : Prog) (ip : Nat) {pos : Nat} (hpos : pos ≤ bytes.size) (fwd : Bool)
    (st : Bt.State) {bts : Array Bt.BtInsn} (hbts : BtsOk bytes.size bts) :
    ActOk bytes.size (Bt.step prog U ip pos fwd st bts) := by
  have hm : ∀ (m : Scm) (site : String),
      ActOk bytes.size (Bt.nextOrBt (m.matches U fwd pos) site ip st bts) :=
    fun m site => nextOrBt_ok (fun p hp => scmMatches_le hascii unicode hp hpos) site ip st hbts
  unfold Bt.step
  split
  · trivial
  · next insn hi =>
    cases insn <;> simp only
    case char c =>
      split
      · exact hm _ _
      · exact hbts
    case charSet cs => exact hm _ _
    case byteSet bs => exact hm _ _
    case byteSeq bs =>
      exact nextOrBt_ok (fun p hp => utf8_matchBytes_le
        (by simpa [Cursor.tryMatchLit, Input.matchBytes] using hp) hpos) _ ip st hbts
    case asciiBracket bm => exact hm _ _
    case bracket idx =>
      split
      · trivial
      · exact hm _ _
    case matchAny => exact hm _ _
    case matchAnyExceptLineTerminator => exact hm _ _
    case wordBoundary inv => exact wordBoundaryAct_ok _ _ _ _ hpos _ hbts
    case wordBoundaryUnicodeICase inv => exact wordBoundaryAct_ok _ _ _ _ hpos _ hbts
    case startOfLine ml => exact lineAct_ok _ _ _ _ hpos _ hbts
    case endOfLine ml => exact lineAct_ok _ _ _ _ hpos _ hbts
    case jump t => exact ⟨hpos, hbts⟩
    case beginCaptureGroup g => exact groupAct_ok _ _ _ _ hpos _ hbts
    case endCaptureGroup g => exact groupAct_ok _ _ _ _ hpos _ hbts
    case resetCaptureGroup g => exact groupAct_ok _ _ _ _ hpos _ hbts
    case backRef g icase =>
      split
      · trivial
      · split
        · split
          · exact nextOrBt_ok (fun p hp => backrefIcase_le hascii unicode hp hpos) _ ip st hbts
          · exact nextOrBt_ok (fun p hp => backref_le unicode (by simpa using hp) hpos) _ ip st hbts
        · exact ⟨hpos, hbts⟩
    case lookahead => exact hbts
    case lookbehind => exact hbts
    case alt sec => exact ⟨hpos, hbts.push (by simp [recOk, hpos])⟩
    case enterLoop id min max greedy exit =>
      split
      · trivial
      · next ld hld =>
        have := runLoop_ok (n := bytes.size)
          { st with loops := st.loops.setIfInBounds id { ld with iters := 0 } }
          (hbts.push (r := .setLoopData id ld) rfl) id min max greedy exit hpos ip
        revert this
        cases Bt.runLoop { st with loops := st.loops.setIfInBounds id { ld with iters := 0 } }
          (bts.push (.setLoopData id ld)) id min max greedy exit pos ip with
        | err e => intro _; trivial
        | ok nx st' bts' =>
          intro h
          cases nx with
          | none => exact h
          | some nip => exact ⟨hpos, h⟩
    case loopAgain b =>
      split
      · trivial
      · next id min max greedy exit hb =>
        have := runLoop_ok (n := bytes.size) st hbts id min max greedy exit hpos b
        revert this
        cases Bt.runLoop st bts id min max greedy exit pos b with
        | err e => intro _; trivial
        | ok nx st' bts' =>
          intro h
          cases nx with
          | none => exact h
          | some nip => exact ⟨hpos, h⟩
      · trivial
    case loop1 min max greedy =>
      split
      · trivial
      · exact hbts
      · next nip p bts' h =>
        exact runScmLoop_ok hascii unicode h hpos hbts
    case goal => exact hpos
    case justFail => exact hbts

end BtStep

/-! ## `try_at_pos` -/

/-- A match end is `≤ n`. -/
def OutOk (n : Nat) : Bt.Outcome → Prop
  | .matched e _ _ _ => e ≤ n
  | _ => True

section BtRun

variable {bytes : Array Nat} (hascii : ∀ b ∈ bytes, b < 128) (unicode : Bool)

local notation "A" => Input.mk InputKind.ascii bytes unicode
local notation "U" => Input.mk InputKind.utf8 bytes unicode

include hascii in
/-- The two runs are equal, and a match ends in range. By induction on the structural fuel. -/
theorem run_agree_ok (prog : Prog) (limit : Nat) :
    ∀ sf ip pos fwd st bts steps peak, pos ≤ bytes.size → BtsOk bytes.size bts →
      Bt.run prog A limit sf ip pos fwd st bts steps peak =
        Bt.run prog U limit sf ip pos fwd st bts steps peak ∧
      OutOk bytes.size (Bt.run prog U limit sf ip pos fwd st bts steps peak) := by
  intro sf
  induction sf with
  | zero => intro _ _ _ _ _ _ _ _ _; exact ⟨rfl, trivial⟩
  | succ sf ih =>
    intro ip pos fwd st bts steps peak hpos hbts
    have hback : ∀ (st : Bt.State) (bts : Array Bt.BtInsn) (steps peak : Nat), BtsOk bytes.size bts →
        (match Bt.tryBacktrack prog A fwd st bts with
          | .err e => Bt.Outcome.error e
          | .exhausted st _ => .failed st steps peak
          | .resumed ip pos st bts => Bt.run prog A limit sf ip pos fwd st bts steps peak) =
        (match Bt.tryBacktrack prog U fwd st bts with
          | .err e => Bt.Outcome.error e
          | .exhausted st _ => .failed st steps peak
          | .resumed ip pos st bts => Bt.run prog U limit sf ip pos fwd st bts steps peak) ∧
        OutOk bytes.size
          (match Bt.tryBacktrack prog U fwd st bts with
          | .err e => Bt.Outcome.error e
          | .exhausted st _ => .failed st steps peak
          | .resumed ip pos st bts => Bt.run prog U limit sf ip pos fwd st bts steps peak) := by
      intro st bts steps peak hb
      rw [tryBacktrack_agree hascii unicode prog fwd st hb]
      have := tryBacktrack_ok hascii unicode prog fwd st hb
      revert this
      cases Bt.tryBacktrack prog U fwd st bts with
      | err e => intro _; exact ⟨rfl, trivial⟩
      | exhausted st' b' => intro _; exact ⟨rfl, trivial⟩
      | resumed ip' pos' st' bts' => intro h; exact ih _ _ _ _ _ _ _ h.1 h.2
    simp only [Bt.run]
    by_cases hl : steps ≥ limit
    · simp [hl, OutOk]
    · simp only [hl, if_false]
      rw [step_agree hascii unicode prog ip hpos fwd st bts]
      have hact := step_ok hascii unicode prog ip hpos fwd st hbts
      revert hact
      cases Bt.step prog U ip pos fwd st bts with
      | err e => intro _; exact ⟨rfl, trivial⟩
      | goal p st' => intro h; exact ⟨rfl, h⟩
      | cont ip' pos' st' bts' => intro h; exact ih _ _ _ _ _ _ _ h.1 h.2
      | back st' bts' => intro h; exact hback _ _ _ _ h
      | look dirFwd negate sg eg k st' bts' =>
        intro hbts'
        simp only
        split
        · exact ⟨rfl, trivial⟩
        · have hin := ih (ip + 1) pos dirFwd st' #[.exhausted] (steps + 1)
            (if peak < bts.size then bts.size else peak) hpos (btsOk_exhausted _)
          rw [hin.1]
          cases Bt.run prog U limit sf (ip + 1) pos dirFwd st' #[.exhausted] (steps + 1)
            (if peak < bts.size then bts.size else peak) with
          | error e => exact ⟨rfl, trivial⟩
          | outOfFuel => exact ⟨rfl, trivial⟩
          | matched e st2 s2 p2 =>
            simp only
            split
            · exact ih _ _ _ _ _ _ _ hpos (pushSavedGroups_ok _ _ _ hbts')
            · exact hback _ _ _ _ hbts'
          | failed st2 s2 p2 =>
            simp only
            split
            · exact ih _ _ _ _ _ _ _ hpos hbts'
            · exact hback _ _ _ _ hbts'

include hascii in
theorem run_agree (prog : Prog) (limit sf ip : Nat) {pos : Nat} (hpos : pos ≤ bytes.size) (fwd : Bool)
    (st : Bt.State) {bts : Array Bt.BtInsn} (hbts : BtsOk bytes.size bts) (steps peak : Nat) :
    Bt.run prog A limit sf ip pos fwd st bts steps peak =
      Bt.run prog U limit sf ip pos fwd st bts steps peak :=
  (run_agree_ok hascii unicode prog limit sf ip pos fwd st bts steps peak hpos hbts).1

include hascii in
theorem run_end_le (prog : Prog) (limit sf ip : Nat) {pos : Nat} (hpos : pos ≤ bytes.size) (fwd : Bool)
    (st : Bt.State) {bts : Array Bt.BtInsn} (hbts : BtsOk bytes.size bts) (steps peak : Nat) :
    OutOk bytes.size (Bt.run prog U limit sf ip pos fwd st bts steps peak) :=
  (run_agree_ok hascii unicode prog limit sf ip pos fwd st bts steps peak hpos hbts).2

end BtRun

/-! ## The PikeVM -/

section PkAgree

variable {bytes : Array Nat} (hascii : ∀ b ∈ bytes, b < 128) (unicode : Bool)

local notation "A" => Input.mk InputKind.ascii bytes unicode
local notation "U" => Input.mk InputKind.utf8 bytes unicode

include hascii in
/-- `try_match_state` agrees for **every** state (no range condition), with the same `look`. -/
theorem pk_tryMatchState_agree' (prog : Prog) (look : Pk.Runner) :
    ∀ d s fwd steps peak,
      Pk.tryMatchState prog A look d s fwd steps peak =
        Pk.tryMatchState prog U look d s fwd steps peak := by
  intro d
  induction d with
  | zero => intro _ _ _ _; rfl
  | succ d ih =>
    intro s fwd steps peak
    simp only [Pk.tryMatchState]
    cases prog.insns[s.ip]? with
    | none => rfl
    | some insn =>
      cases insn
      all_goals try simp only [Pk.nextElemArm, Pk.wordBoundaryArm, cursorNext_agree hascii,
        scmMatches_agree hascii, peekLeft_agree hascii, peekRight_agree hascii,
        backrefIcase_agree hascii, ih]
      all_goals rfl

include hascii in
/-- `try_match_state` agrees when the two look-around runners agree pointwise. -/
theorem pk_tryMatchState_agree (prog : Prog) {lookA lookU : Pk.Runner}
    (hlook : ∀ s f st pk, lookA s f st pk = lookU s f st pk) (d : Nat) (s : Pk.State) (fwd : Bool)
    (steps peak : Nat) :
    Pk.tryMatchState prog A lookA d s fwd steps peak =
      Pk.tryMatchState prog U lookU d s fwd steps peak := by
  have : lookA = lookU := by funext s f st pk; exact hlook s f st pk
  subst this
  exact pk_tryMatchState_agree' hascii unicode prog lookA d s fwd steps peak

include hascii in
/-- The PikeVM run agrees for **every** stack of states: no invariant is needed. -/
theorem pk_runStates_agree (prog : Prog) (limit : Nat) :
    ∀ sf states fwd steps peak,
      Pk.runStates prog A limit sf states fwd steps peak =
        Pk.runStates prog U limit sf states fwd steps peak := by
  intro sf
  induction sf with
  | zero => intro _ _ _ _; rfl
  | succ sf ih =>
    intro states fwd steps peak
    simp only [Pk.runStates, ih, pk_tryMatchState_agree' hascii unicode prog]

end PkAgree

/-! ### Positions of PikeVM states stay `≤ size` -/

def SMOk (n : Nat) : Pk.SM → Prop
  | .cont s _ _ => s.pos ≤ n
  | .split s new _ _ => s.pos ≤ n ∧ new.pos ≤ n
  | .complete s _ _ => s.pos ≤ n
  | _ => True

def PkOutOk (n : Nat) : Pk.Outcome → Prop
  | .matched e st _ _ => e ≤ n ∧ st.pos = e
  | _ => True

theorem pk_nextOrFail_ok {n : Nat} (b : Bool) {s : Pk.State} (hs : s.pos ≤ n) (steps peak : Nat) :
    SMOk n (Pk.nextOrFail b s steps peak) := by
  unfold Pk.nextOrFail; split
  · exact hs
  · trivial

theorem pk_scmArm_ok {n : Nat} {r : Except Unit (Option Nat)} (hr : ∀ p, r = .ok (some p) → p ≤ n)
    (s : Pk.State) (site : String) (steps peak : Nat) : SMOk n (Pk.scmArm r s site steps peak) := by
  unfold Pk.scmArm; split
  · trivial
  · trivial
  · next p => exact hr p rfl

theorem pk_lineArm_ok {n : Nat} (r : Except Unit (Option Nat)) (ml : Bool) {s : Pk.State}
    (hs : s.pos ≤ n) (site : String) (steps peak : Nat) :
    SMOk n (Pk.lineArm r ml s site steps peak) := by
  unfold Pk.lineArm; split
  · trivial
  · exact pk_nextOrFail_ok _ hs _ _
  · exact pk_nextOrFail_ok _ hs _ _

theorem pk_wordBoundaryArm_ok {n : Nat} (inp : Input) (f : Nat → Bool) (inv : Bool) {s : Pk.State}
    (hs : s.pos ≤ n) (steps peak : Nat) : SMOk n (Pk.wordBoundaryArm inp f inv s steps peak) := by
  unfold Pk.wordBoundaryArm; split
  · trivial
  · split
    · trivial
    · exact pk_nextOrFail_ok _ hs _ _

theorem pk_groupArm_ok {n : Nat} (g : Nat) (upd : Bt.GroupData → Bt.GroupData) {s : Pk.State}
    (hs : s.pos ≤ n) (site : String) (steps peak : Nat) :
    SMOk n (Pk.groupArm g upd s site steps peak) := by
  unfold Pk.groupArm; split
  · trivial
  · exact pk_nextOrFail_ok _ (by exact hs) _ _

theorem pk_lookArm_ok {n : Nat} (look : Pk.Runner) (dirFwd negate : Bool) (k : Nat) {s : Pk.State}
    (hs : s.pos ≤ n) (steps peak : Nat) : SMOk n (Pk.lookArm look dirFwd negate k s steps peak) := by
  unfold Pk.lookArm
  simp only
  split
  · trivial
  · trivial
  · split
    · exact hs
    · trivial
  · split
    · exact hs
    · trivial

theorem pk_runLoop_ok {n : Nat} {s : Pk.State} (hs : s.pos ≤ n) (id min : Nat) (max : Option Nat)
    (greedy : Bool) (exit : Nat) (init : Bool) (steps peak : Nat) :
    SMOk n (Pk.runLoop s id min max greedy exit init steps peak) := by
  unfold Pk.runLoop
  split
  · trivial
  · simp only
    split
    · split
      · trivial
      · split
        · exact hs
        · split
          · exact hs
          · split
            · exact ⟨hs, hs⟩
            · exact ⟨hs, hs⟩
    · split
      · trivial
      · split
        · trivial
        · split
          · exact hs
          · split
            · exact hs
            · split
              · exact ⟨hs, hs⟩
              · exact ⟨hs, hs⟩

section PkOk

variable {bytes : Array Nat} (hascii : ∀ b ∈ bytes, b < 128) (unicode : Bool)

local notation "U" => Input.mk InputKind.utf8 bytes unicode

include hascii in
theorem pk_nextElemArm_ok (fwd : Bool) (s : Pk.State) (f : Nat → Except String Bool) (site : String)
    (steps peak : Nat) : SMOk bytes.size (Pk.nextElemArm U fwd s f site steps peak) := by
  unfold Pk.nextElemArm
  split
  · trivial
  · trivial
  · next c p h =>
    split
    · trivial
    · exact pk_nextOrFail_ok _ (cursorNext_utf8_some hascii unicode h).2.1 _ _

include hascii in
/-- Whatever the look-around runner does, the states produced by `try_match_state` from a state in
range are in range. -/
theorem pk_tryMatchState_ok (prog : Prog) (look : Pk.Runner) :
    ∀ d s fwd steps peak, s.pos ≤ bytes.size →
      SMOk bytes.size (Pk.tryMatchState prog U look d s fwd steps peak) := by
  intro d
  induction d with
  | zero => intro _ _ _ _ _; trivial
  | succ d ih =>
    intro s fwd steps peak hs
    have hm : ∀ (m : Scm) (site : String),
        SMOk bytes.size (Pk.scmArm (m.matches U fwd s.pos) s site steps peak) :=
      fun m site => pk_scmArm_ok (fun p hp => scmMatches_le hascii unicode hp hs) s site _ _
    simp only [Pk.tryMatchState]
    split
    · trivial
    · next insn hi =>
      cases insn <;> simp only
      case goal => exact hs
      case justFail => trivial
      case char c => exact pk_nextElemArm_ok hascii unicode _ _ _ _ _ _
      case charSet c => exact pk_nextElemArm_ok hascii unicode _ _ _ _ _ _
      case matchAny => exact pk_nextElemArm_ok hascii unicode _ _ _ _ _ _
      case matchAnyExceptLineTerminator => exact pk_nextElemArm_ok hascii unicode _ _ _ _ _ _
      case bracket idx => exact pk_nextElemArm_ok hascii unicode _ _ _ _ _ _
      case byteSeq v =>
        exact pk_scmArm_ok (fun p hp => utf8_matchBytes_le
          (by simpa [Cursor.tryMatchLit, Input.matchBytes] using hp) hs) _ _ _ _
      case asciiBracket bm => exact hm _ _
      case byteSet bs => exact hm _ _
      case startOfLine ml => exact pk_lineArm_ok _ _ hs _ _ _
      case endOfLine ml => exact pk_lineArm_ok _ _ hs _ _ _
      case jump t => exact hs
      case alt sec => exact ⟨hs, hs⟩
      case beginCaptureGroup g => exact pk_groupArm_ok _ _ hs _ _ _
      case endCaptureGroup g => exact pk_groupArm_ok _ _ hs _ _ _
      case resetCaptureGroup g => exact pk_groupArm_ok _ _ hs _ _ _
      case backRef g icase =>
        split
        · trivial
        · split
          · split
            · exact pk_scmArm_ok (fun p hp => backrefIcase_le hascii unicode hp hs) _ _ _ _
            · exact pk_scmArm_ok (fun p hp => backref_le unicode (by simpa using hp) hs) _ _ _ _
          · exact pk_nextOrFail_ok _ hs _ _
      case lookahead ng sg eg k => exact pk_lookArm_ok _ _ _ _ hs _ _
      case lookbehind ng sg eg k => exact pk_lookArm_ok _ _ _ _ hs _ _
      case enterLoop id min max greedy exit => exact pk_runLoop_ok hs _ _ _ _ _ _ _ _
      case loopAgain b =>
        split
        · trivial
        · exact pk_runLoop_ok (s := { s with ip := b }) hs _ _ _ _ _ _ _ _
        · trivial
      case wordBoundary inv => exact pk_wordBoundaryArm_ok _ _ _ hs _ _
      case wordBoundaryUnicodeICase inv => exact pk_wordBoundaryArm_ok _ _ _ hs _ _
      case loop1 mn mx greedy =>
        have hrec := ih { s with ip := s.ip + 1 } fwd steps peak hs
        by_cases hlt : Bt.ltMax s.loop1Iters mx = true
        · simp only [hlt, if_true]
          revert hrec
          cases Pk.tryMatchState prog U look d { s with ip := s.ip + 1 } fwd steps peak with
          | cont s' st' pk' =>
            intro h
            simp only
            cases decide (s.loop1Iters ≥ mn) <;> simp only
            · exact h
            · split
              · exact ⟨hs, h⟩
              · exact ⟨h, hs⟩
          | fail s' st' pk' =>
            intro _
            simp only
            cases decide (s.loop1Iters ≥ mn) <;> try simp only
            · trivial
            · exact hs
          | outOfFuel => intro _; trivial
          | err e => intro _; trivial
          | split a b st' pk' => intro _; trivial
          | complete a st' pk' => intro _; trivial
        · simp only [hlt]
          cases decide (s.loop1Iters ≥ mn) <;> try simp only
          · trivial
          · exact hs

include hascii in
theorem pk_runStates_ok (prog : Prog) (limit : Nat) :
    ∀ sf (states : Array Pk.State) fwd steps peak, (∀ s ∈ states, s.pos ≤ bytes.size) →
      PkOutOk bytes.size (Pk.runStates prog U limit sf states fwd steps peak) := by
  intro sf
  induction sf with
  | zero => intro _ _ _ _ _; trivial
  | succ sf ih =>
    intro states fwd steps peak hst
    have hpop : ∀ s ∈ states.pop, s.pos ≤ bytes.size := by
      intro x hx
      rw [Array.mem_def, Array.toList_pop] at hx
      exact hst x (Array.mem_def.2 (List.dropLast_subset _ hx))
    have hset : ∀ s' : Pk.State, s'.pos ≤ bytes.size →
        ∀ s ∈ states.pop.push s', s.pos ≤ bytes.size := by
      intro s' hs' x hx
      rcases Array.mem_push.1 hx with hx | rfl
      · exact hpop x hx
      · exact hs'
    simp only [Pk.runStates]
    split
    · trivial
    · next s hb =>
      have hs : s.pos ≤ bytes.size := hst s (Array.mem_of_back? hb)
      split
      · trivial
      · generalize (if peak < states.size then states.size else peak) = pk'
        have h := pk_tryMatchState_ok hascii unicode prog
          (fun s0 dirFwd steps peak => Pk.runStates prog U limit sf #[s0] dirFwd steps peak)
          (prog.insns.size + 1) s fwd (steps + 1) pk' hs
        revert h
        cases Pk.tryMatchState prog U
          (fun s0 dirFwd steps peak => Pk.runStates prog U limit sf #[s0] dirFwd steps peak)
          (prog.insns.size + 1) s fwd (steps + 1) pk' with
        | err e => intro _; trivial
        | outOfFuel => intro _; trivial
        | fail s' st' p' => intro _; exact ih _ _ _ _ hpop
        | cont s' st' p' => intro h; exact ih _ _ _ _ (hset _ h)
        | complete s' st' p' => intro h; exact ⟨h, rfl⟩
        | split s' new st' p' =>
          intro h
          refine ih _ _ _ _ ?_
          intro x hx
          rcases Array.mem_push.1 hx with hx | rfl
          · exact hset _ h.1 x hx
          · exact h.2

end PkOk

/-! ## Searching (`VM/Search.lean`) -/

/-- The value written to `*next_start` is in range. -/
def NextResOk (n : Nat) : NextRes → Prop
  | .ok (some (_, some p), _) => p ≤ n
  | _ => True

theorem findFirst_le (bytes : Array Nat) (p : Nat → Bool) :
    ∀ fuel i r, findFirst bytes p fuel i = some r → r ≤ bytes.size := by
  intro fuel
  induction fuel with
  | zero => intro _ _ h; cases h
  | succ fuel ih =>
    intro i r h
    simp only [findFirst] at h
    split at h
    · cases h
    · next b hb =>
      split at h
      · cases h
        rcases Array.getElem?_eq_some_iff.1 hb with ⟨hlt, _⟩
        omega
      · exact ih _ _ h

theorem findSeq_le (bytes : Array Nat) (needle : List Nat) :
    ∀ fuel i r, findSeq bytes needle fuel i = some r → r ≤ bytes.size := by
  intro fuel
  induction fuel with
  | zero => intro _ _ h; cases h
  | succ fuel ih =>
    intro i r h
    simp only [findSeq] at h
    split at h
    · cases h
    · split at h
      · cases h; omega
      · exact ih _ _ h

theorem findBytesPred_le {sp : StartPred} {bytes : Array Nat} {pos r : Nat} (hpos : pos ≤ bytes.size)
    (h : findBytesPred sp bytes pos = some r) : r ≤ bytes.size := by
  unfold findBytesPred at h
  cases sp with
  | arbitrary => cases h; exact hpos
  | anchored => cases h; exact hpos
  | set bs => exact findFirst_le _ _ _ _ _ h
  | seq nd => exact findSeq_le _ _ _ _ _ h

section Search

variable {bytes : Array Nat} (hascii : ∀ b ∈ bytes, b < 128) (unicode : Bool)

local notation "A" => Input.mk InputKind.ascii bytes unicode
local notation "U" => Input.mk InputKind.utf8 bytes unicode

include hascii in
theorem nextStart_agree {pos : Nat} (hpos : pos ≤ bytes.size) (e : Nat) :
    nextStart A pos e = nextStart U pos e := by
  unfold nextStart
  split
  · rfl
  · next h =>
    have : e = pos := by simpa using h
    subst this
    rw [nextRightPos_agree hascii unicode hpos]

include hascii in
theorem nextStart_le {pos e p : Nat} (he : e ≤ bytes.size)
    (h : nextStart U pos e = .ok (some p)) : p ≤ bytes.size := by
  unfold nextStart at h
  split at h
  · cases h; exact he
  · split at h
    · next r hr =>
      cases h
      exact nextRightPos_le hascii unicode he hr
    · cases h

include hascii in
theorem btAttempt_agree_ok (prog : Prog) (limit : Nat) {pos : Nat} (hpos : pos ≤ bytes.size)
    (acc : Acc) :
    btAttempt prog A limit pos acc = btAttempt prog U limit pos acc ∧
      OutOk bytes.size (btAttempt prog U limit pos acc) :=
  run_agree_ok hascii unicode prog limit _ 0 pos true acc.st _ acc.steps acc.peak hpos
    (btsOk_exhausted _)

include hascii in
theorem btSuccess_agree_ok (prog : Prog) {pos e : Nat} (hpos : pos ≤ bytes.size)
    (he : e ≤ bytes.size) (st : Bt.State) (steps peak : Nat) :
    btSuccess prog A pos e st steps peak = btSuccess prog U pos e st steps peak ∧
      NextResOk bytes.size (btSuccess prog U pos e st steps peak) := by
  unfold btSuccess
  rw [nextStart_agree hascii unicode hpos]
  refine ⟨rfl, ?_⟩
  cases h : nextStart U pos e with
  | error err => trivial
  | ok ns =>
    cases ns with
    | none => trivial
    | some p => exact nextStart_le hascii unicode he h

include hascii in
/-- `next_match_with_prefix_search`: no condition on `pos` (it is checked against `right_end`). -/
theorem btNextMatchPrefix_agree_ok (prog : Prog) (limit : Nat) :
    ∀ n pos acc,
      btNextMatchPrefix prog A limit n pos acc = btNextMatchPrefix prog U limit n pos acc ∧
        NextResOk bytes.size (btNextMatchPrefix prog U limit n pos acc) := by
  intro n
  induction n with
  | zero => intro _ _; exact ⟨rfl, trivial⟩
  | succ n ih =>
    intro pos acc
    simp only [btNextMatchPrefix, Input.len]
    by_cases hgt : pos > bytes.size
    · simp [hgt, NextResOk]
    · simp only [hgt, if_false]
      cases hf : findBytesPred prog.startPred bytes pos with
      | none => exact ⟨rfl, trivial⟩
      | some pos' =>
        have hpos' : pos' ≤ bytes.size := findBytesPred_le (by omega) hf
        have hat := btAttempt_agree_ok hascii unicode prog limit hpos' acc
        simp only [hat.1]
        have hok := hat.2
        revert hok
        cases btAttempt prog U limit pos' acc with
        | error e => intro _; exact ⟨rfl, trivial⟩
        | outOfFuel => intro _; exact ⟨rfl, trivial⟩
        | matched e st steps peak =>
          intro he
          exact btSuccess_agree_ok hascii unicode prog hpos' he st steps peak
        | failed st steps peak =>
          intro _
          simp only [nextRightPos_agree hascii unicode hpos']
          cases Input.nextRightPos U pos' with
          | error e => exact ⟨rfl, trivial⟩
          | ok r =>
            cases r with
            | none => exact ⟨rfl, trivial⟩
            | some p => exact ih _ _

include hascii in
theorem btNextMatchAnchored_agree_ok (prog : Prog) (limit : Nat) {pos : Nat}
    (hpos : pos ≤ bytes.size) (acc : Acc) :
    btNextMatchAnchored prog A limit pos acc = btNextMatchAnchored prog U limit pos acc ∧
      NextResOk bytes.size (btNextMatchAnchored prog U limit pos acc) := by
  unfold btNextMatchAnchored
  have hat := btAttempt_agree_ok hascii unicode prog limit hpos acc
  simp only [hat.1]
  have hok := hat.2
  revert hok
  cases btAttempt prog U limit pos acc with
  | error e => intro _; exact ⟨rfl, trivial⟩
  | outOfFuel => intro _; exact ⟨rfl, trivial⟩
  | matched e st steps peak =>
    intro he
    exact btSuccess_agree_ok hascii unicode prog hpos he st steps peak
  | failed st steps peak => intro _; exact ⟨rfl, trivial⟩

include hascii in
theorem pkAttempt_agree (prog : Prog) (limit : Nat) (init : Pk.State) (acc : Acc) :
    pkAttempt prog A limit init acc = pkAttempt prog U limit init acc :=
  pk_runStates_agree hascii unicode prog limit _ _ _ _ _

include hascii in
theorem pkAttempt_ok (prog : Prog) (limit : Nat) {init : Pk.State} (hinit : init.pos ≤ bytes.size)
    (acc : Acc) : PkOutOk bytes.size (pkAttempt prog U limit init acc) := by
  apply pk_runStates_ok hascii unicode prog limit
  intro s hs
  simp at hs
  subst hs
  exact hinit

include hascii in
theorem pkSuccess_agree_ok (prog : Prog) {start : Nat} (hstart : start ≤ bytes.size)
    {st : Pk.State} (hst : st.pos ≤ bytes.size) (acc : Acc) (steps peak : Nat) :
    pkSuccess prog A start st acc steps peak = pkSuccess prog U start st acc steps peak ∧
      NextResOk bytes.size (pkSuccess prog U start st acc steps peak) := by
  unfold pkSuccess
  rw [nextStart_agree hascii unicode hstart]
  refine ⟨rfl, ?_⟩
  cases h : nextStart U start st.pos with
  | error err => trivial
  | ok ns =>
    cases ns with
    | none => trivial
    | some p => exact nextStart_le hascii unicode hst h

include hascii in
theorem pkNextMatchStd_agree_ok (prog : Prog) (limit : Nat) :
    ∀ n (state : Pk.State) acc, state.pos ≤ bytes.size →
      pkNextMatchStd prog A limit n state acc = pkNextMatchStd prog U limit n state acc ∧
        NextResOk bytes.size (pkNextMatchStd prog U limit n state acc) := by
  intro n
  induction n with
  | zero => intro _ _ _; exact ⟨rfl, trivial⟩
  | succ n ih =>
    intro state acc hs
    simp only [pkNextMatchStd, pkAttempt_agree hascii unicode]
    have hok := pkAttempt_ok hascii unicode prog limit hs acc
    revert hok
    cases pkAttempt prog U limit state acc with
    | error e => intro _; exact ⟨rfl, trivial⟩
    | outOfFuel => intro _; exact ⟨rfl, trivial⟩
    | matched e st steps peak =>
      intro he
      exact pkSuccess_agree_ok hascii unicode prog hs (by rw [he.2]; exact he.1) acc steps peak
    | failed steps peak =>
      intro _
      simp only [nextRightPos_agree hascii unicode hs]
      cases hr : Input.nextRightPos U state.pos with
      | error e => exact ⟨rfl, trivial⟩
      | ok r =>
        cases r with
        | none => exact ⟨rfl, trivial⟩
        | some p => exact ih _ _ (nextRightPos_le hascii unicode hs hr)

include hascii in
theorem pkNextMatch_agree_ok (prog : Prog) (limit : Nat) {pos : Nat} (hpos : pos ≤ bytes.size)
    (acc : Acc) :
    pkNextMatch prog A limit pos acc = pkNextMatch prog U limit pos acc ∧
      NextResOk bytes.size (pkNextMatch prog U limit pos acc) := by
  unfold pkNextMatch
  simp only [Input.len]
  split
  · have hs : (Pk.initState prog pos pos).pos ≤ bytes.size := hpos
    simp only [pkAttempt_agree hascii unicode]
    have hok := pkAttempt_ok hascii unicode prog limit hs acc
    revert hok
    cases pkAttempt prog U limit (Pk.initState prog pos pos) acc with
    | error e => intro _; exact ⟨rfl, trivial⟩
    | outOfFuel => intro _; exact ⟨rfl, trivial⟩
    | matched e st steps peak =>
      intro he
      exact pkSuccess_agree_ok hascii unicode prog hpos (by rw [he.2]; exact he.1) acc steps peak
    | failed steps peak => intro _; exact ⟨rfl, trivial⟩
  · exact pkNextMatchStd_agree_ok hascii unicode prog limit _ _ acc hpos

include hascii in
theorem nextMatchX_agree_ok (exec : Exec) (prog : Prog) (limit : Nat) {pos : Nat}
    (hpos : pos ≤ bytes.size) (acc : Acc) :
    nextMatchX exec prog A limit pos acc = nextMatchX exec prog U limit pos acc ∧
      NextResOk bytes.size (nextMatchX exec prog U limit pos acc) := by
  unfold nextMatchX
  cases exec with
  | bt =>
    simp only [Input.len]
    split
    · exact btNextMatchAnchored_agree_ok hascii unicode prog limit hpos acc
    · exact btNextMatchPrefix_agree_ok hascii unicode prog limit _ pos acc
  | pk => exact pkNextMatch_agree_ok hascii unicode prog limit hpos acc

include hascii in
theorem drain_agree (exec : Exec) (prog : Prog) (limit : Nat) :
    ∀ n (position : Option Nat) acc out, (∀ p, position = some p → p ≤ bytes.size) →
      drain exec prog A limit n position acc out = drain exec prog U limit n position acc out := by
  intro n
  induction n with
  | zero => intro _ _ _ _; rfl
  | succ n ih =>
    intro position acc out hp
    cases position with
    | none => rfl
    | some pos =>
      have hpos : pos ≤ bytes.size := hp pos rfl
      simp only [drain]
      have h := nextMatchX_agree_ok hascii unicode exec prog limit hpos acc
      rw [h.1]
      have hok := h.2
      revert hok
      cases nextMatchX exec prog U limit pos acc with
      | error e => intro _; rfl
      | ok r =>
        obtain ⟨o, acc'⟩ := r
        cases o with
        | none => intro _; rfl
        | some mn =>
          obtain ⟨m, ns⟩ := mn
          intro hok
          simp only
          apply ih
          intro p hp
          subst hp
          exact hok

include hascii in
theorem findIterStats_agree (exec : Exec) (prog : Prog) (start fuel : Nat) :
    findIterStats exec prog A start fuel = findIterStats exec prog U start fuel := by
  unfold findIterStats
  simp only [Input.len, Input.tryMoveRight]
  rw [drain_agree hascii unicode exec prog fuel]
  intro p hp
  unfold Utf8.tryMoveRight at hp
  split at hp
  · cases hp
  · cases hp; omega

include hascii in
theorem findIter_agree (exec : Exec) (prog : Prog) (start fuel : Nat) :
    findIter exec prog A start fuel = findIter exec prog U start fuel := by
  unfold findIter
  rw [findIterStats_agree hascii unicode]

end Search

end Regress.VM
