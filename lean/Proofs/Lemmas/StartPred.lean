import RegressModel.IR.StartPred
/-!
# Start predicates: `disjunction` and `resolve_to_insn` only weaken

`admits p b`: the abstract predicate `p` admits the haystack suffix `b` (a list of bytes) as a
potential match start. `admitsSP` is the same for the resolved `VM.StartPred`.
-/
namespace Regress.IR

open AbstractStartPredicate

/-- A haystack suffix `b` is admitted by `Arbitrary` always, by `Sequence s` iff `s` is a prefix of
`b`, by `Set bm` iff `b` starts with a byte of `bm`. -/
def admits : AbstractStartPredicate → List Nat → Prop
  | .arbitrary, _ => True
  | .sequence s, b => s <+: b
  | .set bm, b => ∃ h, b.head? = some h ∧ bm.contains h = true

/-- The same for the concrete predicate (`StartAnchored` is not produced by `resolve_to_insn`; it
restricts the *position*, not the bytes). -/
def admitsSP : VM.StartPred → List Nat → Prop
  | .arbitrary, _ => True
  | .anchored, _ => True
  | .set bytes, b => ∃ h, b.head? = some h ∧ h ∈ bytes
  | .seq s, b => s <+: b

/-! ## `ByteBitmap` -/

theorem ByteBitmap.contains_set (bm : ByteBitmap) (v w : Nat) :
    (bm.set v).contains w = (bm.contains w || decide (v = w)) := by
  simp only [ByteBitmap.contains, ByteBitmap.set, Nat.testBit_or, Nat.testBit_shiftLeft]
  congr 1
  by_cases h : v = w
  · subst h; simp
  · by_cases h2 : v ≤ w
    · have hk : ∃ k, w - v = k + 1 := ⟨w - v - 1, by omega⟩
      obtain ⟨k, hk⟩ := hk
      simp [h, h2, hk, Nat.testBit_succ]
    · simp [h, h2]

theorem ByteBitmap.contains_bitor (a b : ByteBitmap) (w : Nat) :
    (a.bitor b).contains w = (a.contains w || b.contains w) := by
  simp [ByteBitmap.contains, ByteBitmap.bitor, Nat.testBit_or]

theorem ByteBitmap.contains_empty (w : Nat) : ByteBitmap.empty.contains w = false := by
  simp [ByteBitmap.contains, ByteBitmap.empty]

theorem ByteBitmap.contains_foldl_set (l : List Nat) (bm : ByteBitmap) (w : Nat) :
    (l.foldl ByteBitmap.set bm).contains w = (bm.contains w || decide (w ∈ l)) := by
  induction l generalizing bm with
  | nil => simp
  | cons a t ih =>
    simp only [List.foldl_cons, ih, ByteBitmap.contains_set, List.mem_cons]
    by_cases h : a = w
    · subst h; simp
    · have : ¬ w = a := fun e => h e.symm
      simp [h, this]

theorem ByteBitmap.contains_new (l : List Nat) (w : Nat) :
    (ByteBitmap.new l).contains w = decide (w ∈ l) := by
  simp [ByteBitmap.new, ByteBitmap.contains_foldl_set, ByteBitmap.contains_empty]

theorem ByteBitmap.mem_toList (bm : ByteBitmap) (w : Nat) :
    w ∈ bm.toList ↔ w < 256 ∧ bm.contains w = true := by
  simp [ByteBitmap.toList]

/-! ## `sharedLen` -/

theorem take_sharedLen (s1 s2 : List Nat) :
    s1.take (sharedLen s1 s2) = s2.take (sharedLen s1 s2) := by
  induction s1 generalizing s2 with
  | nil => simp [sharedLen]
  | cons a t ih =>
    cases s2 with
    | nil => simp [sharedLen]
    | cons b u =>
      by_cases h : a = b
      · subst h; simp [sharedLen, ih]
      · simp [sharedLen, h]

/-! ## The two properties -/

/-- `disjunction` only weakens: whatever one of the arms admits, the disjunction admits. -/
theorem disjunction_admits (x y z : AbstractStartPredicate) (b : List Nat)
    (hz : disjunction x y = .ok z) : admits x b ∨ admits y b → admits z b := by
  intro hxy
  cases x with
  | arbitrary =>
    simp [disjunction] at hz; subst hz; trivial
  | sequence s1 =>
    cases y with
    | arbitrary => simp [disjunction] at hz; subst hz; trivial
    | sequence s2 =>
      simp only [disjunction] at hz
      split at hz
      · -- shared prefix
        simp at hz; subst hz
        simp only [admits] at hxy ⊢
        rcases hxy with h | h
        · exact List.IsPrefix.trans (List.take_prefix _ _) h
        · rw [take_sharedLen]; exact List.IsPrefix.trans (List.take_prefix _ _) h
      · cases s1 with
        | nil => cases s2 <;> simp at hz
        | cons a t1 =>
          cases s2 with
          | nil => simp at hz
          | cons c t2 =>
            simp at hz; subst hz
            simp only [admits] at hxy ⊢
            rcases hxy with h | h
            · obtain ⟨r, rfl⟩ := h
              exact ⟨a, by simp, by simp [ByteBitmap.contains_new]⟩
            · obtain ⟨r, rfl⟩ := h
              exact ⟨c, by simp, by simp [ByteBitmap.contains_new]⟩
    | set bm2 =>
      cases s1 with
      | nil => simp [disjunction] at hz
      | cons a t1 =>
        simp [disjunction] at hz; subst hz
        simp only [admits] at hxy ⊢
        rcases hxy with h | h
        · obtain ⟨r, rfl⟩ := h
          exact ⟨a, by simp, by simp [ByteBitmap.contains_set]⟩
        · obtain ⟨h0, hh, hc⟩ := h
          exact ⟨h0, hh, by simp [ByteBitmap.contains_set, hc]⟩
  | set bm1 =>
    cases y with
    | arbitrary => simp [disjunction] at hz; subst hz; trivial
    | sequence s2 =>
      cases s2 with
      | nil => simp [disjunction] at hz
      | cons c t2 =>
        simp [disjunction] at hz; subst hz
        simp only [admits] at hxy ⊢
        rcases hxy with h | h
        · obtain ⟨h0, hh, hc⟩ := h
          exact ⟨h0, hh, by simp [ByteBitmap.contains_set, hc]⟩
        · obtain ⟨r, rfl⟩ := h
          exact ⟨c, by simp, by simp [ByteBitmap.contains_set]⟩
    | set bm2 =>
      simp [disjunction] at hz; subst hz
      simp only [admits] at hxy ⊢
      rcases hxy with h | h
      · obtain ⟨h0, hh, hc⟩ := h
        exact ⟨h0, hh, by simp [ByteBitmap.contains_bitor, hc]⟩
      · obtain ⟨h0, hh, hc⟩ := h
        exact ⟨h0, hh, by simp [ByteBitmap.contains_bitor, hc]⟩

/-- `resolve_to_insn` only weakens (on haystacks of bytes). -/
theorem resolve_preserves_admits (x : AbstractStartPredicate) (b : List Nat)
    (hb : ∀ v ∈ b, v < 256) : admits x b → admitsSP x.resolveToInsn b := by
  intro h
  cases x with
  | arbitrary => trivial
  | sequence vals =>
    simp only [resolveToInsn]
    split
    · trivial
    · rename_i v
      obtain ⟨r, rfl⟩ := h
      exact ⟨v, by simp, by simp⟩
    · exact h
  | set bm =>
    obtain ⟨h0, hh, hc⟩ := h
    have hlt : h0 < 256 := by
      cases b with
      | nil => simp at hh
      | cons c t => simp at hh; subst hh; exact hb _ (by simp)
    have hm : h0 ∈ bm.toList := (ByteBitmap.mem_toList bm h0).2 ⟨hlt, hc⟩
    simp only [resolveToInsn]
    split <;> first | trivial | exact ⟨h0, hh, hm⟩

/-! ## Non-vacuity -/

example : disjunction (.sequence [0x61, 0x62, 0x63]) (.sequence [0x61, 0x62, 0x64]) =
    .ok (.sequence [0x61, 0x62]) := rfl
example : admits (.sequence [0x61, 0x62, 0x64]) [0x61, 0x62, 0x64, 0x65] := ⟨[0x65], rfl⟩
example : admits (.sequence [0x61, 0x62]) [0x61, 0x62, 0x64, 0x65] :=
  disjunction_admits (.sequence [0x61, 0x62, 0x63]) (.sequence [0x61, 0x62, 0x64]) _ _ rfl
    (Or.inr ⟨[0x65], rfl⟩)
example : disjunction (.sequence [0x61]) (.sequence [0x62]) =
    .ok (.set (ByteBitmap.new [0x61, 0x62])) := rfl
/-- The panic site: an empty `Sequence` meeting a `Sequence` with which it shares no prefix. -/
example : disjunction (.sequence []) (.sequence [0x62]) = .error .emptySequenceIndex := rfl
example : (AbstractStartPredicate.set (ByteBitmap.new [0x61, 0x62])).resolveToInsn =
    .set [0x61, 0x62] := by decide
example : admitsSP (.set [0x61, 0x62]) [0x62, 0x7A] := ⟨0x62, rfl, by simp⟩
example : admitsSP (AbstractStartPredicate.set (ByteBitmap.new [0x61, 0x62])).resolveToInsn [0x62, 0x7A] :=
  resolve_preserves_admits _ _ (by decide) ⟨0x62, rfl, by decide⟩

end Regress.IR
