import Proofs.Lemmas.TotalOpt2
/-!
# Totality of the optimizer, part 3: the termination measures of the seven passes

For each pass a weight `h` (an `HW`) such that every answer other than `Keep` strictly decreases
`wt h` of the node; and one weight `U` that no pass increases and that dominates all the others —
so `wt U n + 1` rounds are enough for every `run_to_fixpoint` of `optimize`.

`U` is multiplicative in loops (`(min + 1) * (body + 2)` for `min ≤ LOOP_UNROLL_THRESHOLD`), because
`unroll_loops` really multiplies: `(?:(?:a{5}){5}){5}` is unrolled to 125 copies of `a`.
-/
namespace Regress.IR

open Regress.Gen

/-- The pass does not increase `wt U` and every answer other than `Keep` decreases `wt h`. -/
def PassMeas (f : PassFn) (h U : HW) : Prop :=
  ∀ n w a, f n w = .ok a → wt U (a.result n) ≤ wt U n ∧ (a = .keep ∨ wt h (a.result n) < wt h n)

theorem meas_keep {h U : HW} {n : Node} :
    wt U (PassAction.keep.result n) ≤ wt U n ∧
      (PassAction.keep = PassAction.keep ∨ wt h (PassAction.keep.result n) < wt h n) :=
  ⟨Nat.le_refl _, .inl rfl⟩

/-! ## The weights -/

/-- How often `unroll_loops` copies the body of a loop. -/
def loopMult (q : Quant) : Nat := if q.min ≤ LOOP_UNROLL_THRESHOLD then q.min else 0

/-- The dominating weight (never increased by any pass). -/
def U : HW where
  leaf n := match n with
    | .bracket bc => 2 + bc.ivs.length
    | _ => 2
  cat := 2
  alt := 2
  group := 2
  look := 2
  loop1 := 2
  loop q x := (loopMult q + 1) * (x + 2)

/-- `simplify_brackets`: brackets, weighted by their number of intervals. -/
def hSB : HW where
  leaf n := match n with
    | .bracket bc => 1 + bc.ivs.length
    | _ => 0
  cat := 0
  alt := 0
  group := 0
  look := 0
  loop1 := 0
  loop _ x := x

/-- `decat`: the number of `Cat` nodes. -/
def hDecat : HW where
  leaf _ := 0
  cat := 1
  alt := 0
  group := 0
  look := 0
  loop1 := 0
  loop _ x := x

/-- `unroll_loops`: the number of `Loop` nodes with `min ≠ 0`. -/
def hUnroll : HW where
  leaf _ := 0
  cat := 0
  alt := 0
  group := 0
  look := 0
  loop1 := 0
  loop q x := (if q.min = 0 then 0 else 1) + x

/-- `promote_1char_loops`: the number of `Loop` nodes. -/
def hPromote : HW where
  leaf _ := 0
  cat := 0
  alt := 0
  group := 0
  look := 0
  loop1 := 0
  loop _ x := 1 + x

/-- `form_literal_bytes`: `Char`s (twice), `CharSet`s and non-empty `ByteSequence`s. -/
def hFLB : HW where
  leaf n := match n with
    | .char _ => 2
    | .charSet _ => 1
    | .byteSeq bs => if bs.isEmpty then 0 else 1
    | _ => 0
  cat := 0
  alt := 0
  group := 0
  look := 0
  loop1 := 0
  loop _ x := x

/-- `remove_empties`, `propagate_early_fails`: the number of nodes (`ByteSequence`s twice). -/
def hSize : HW where
  leaf n := match n with
    | .byteSeq _ => 2
    | _ => 1
  cat := 1
  alt := 1
  group := 1
  look := 1
  loop1 := 1
  loop _ x := 1 + x

theorem U_loop_ge (q : Quant) (x : Nat) : x + 2 ≤ U.loop q x := by
  show x + 2 ≤ (loopMult q + 1) * (x + 2)
  rw [Nat.add_mul, Nat.one_mul]; omega

theorem U_mono : U.Mono := by
  intro q a b hab
  show (loopMult q + 1) * (a + 2) < (loopMult q + 1) * (b + 2)
  exact (Nat.mul_lt_mul_left (by omega)).2 (by omega)

theorem hSB_mono : hSB.Mono := fun _ _ _ h => h
theorem hDecat_mono : hDecat.Mono := fun _ _ _ h => h
theorem hUnroll_mono : hUnroll.Mono := fun q a b h => by show _ + a < _ + b; omega
theorem hPromote_mono : hPromote.Mono := fun q a b h => by show 1 + a < 1 + b; omega
theorem hFLB_mono : hFLB.Mono := fun _ _ _ h => h
theorem hSize_mono : hSize.Mono := fun q a b h => by show 1 + a < 1 + b; omega

theorem hSB_le : hSB.Le U where
  leaf n := by cases n <;> simp [hSB, U] <;> omega
  cat := by decide
  alt := by decide
  group := by decide
  look := by decide
  loop1 := by decide
  loop q a b hab := by have := U_loop_ge q b; show a ≤ U.loop q b; omega

theorem hDecat_le : hDecat.Le U where
  leaf n := by cases n <;> simp [hDecat, U]
  cat := by decide
  alt := by decide
  group := by decide
  look := by decide
  loop1 := by decide
  loop q a b hab := by have := U_loop_ge q b; show a ≤ U.loop q b; omega

theorem hUnroll_le : hUnroll.Le U where
  leaf n := by cases n <;> simp [hUnroll, U]
  cat := by decide
  alt := by decide
  group := by decide
  look := by decide
  loop1 := by decide
  loop q a b hab := by
    have := U_loop_ge q b
    show (if q.min = 0 then 0 else 1) + a ≤ U.loop q b
    split <;> omega

theorem hPromote_le : hPromote.Le U where
  leaf n := by cases n <;> simp [hPromote, U]
  cat := by decide
  alt := by decide
  group := by decide
  look := by decide
  loop1 := by decide
  loop q a b hab := by have := U_loop_ge q b; show 1 + a ≤ U.loop q b; omega

theorem hFLB_le : hFLB.Le U where
  leaf n := by
    cases n <;> simp [hFLB, U]
    split <;> omega
  cat := by decide
  alt := by decide
  group := by decide
  look := by decide
  loop1 := by decide
  loop q a b hab := by have := U_loop_ge q b; show a ≤ U.loop q b; omega

theorem hSize_le : hSize.Le U where
  leaf n := by cases n <;> simp [hSize, U] <;> omega
  cat := by decide
  alt := by decide
  group := by decide
  look := by decide
  loop1 := by decide
  loop q a b hab := by have := U_loop_ge q b; show 1 + a ≤ U.loop q b; omega

/-- Every node weighs at least `k` if every head does. -/
theorem wt_ge (h : HW) (k : Nat) (hl : ∀ n, k ≤ h.leaf n) (hc : k ≤ h.cat) (ha : k ≤ h.alt) (hg : k ≤ h.group)
    (hlk : k ≤ h.look) (hl1 : k ≤ h.loop1) (hlp : ∀ q x, k ≤ h.loop q x) (n : Node) : k ≤ wt h n := by
  cases n <;> simp only [wt] <;> first | exact hl _ | exact hlp _ _ | omega

theorem wtU_ge (n : Node) : 2 ≤ wt U n :=
  wt_ge U 2 (by intro n; cases n <;> simp [U]) (by decide) (by decide) (by decide) (by decide) (by decide)
    (fun q x => by have := U_loop_ge q x; omega) n

theorem wtS_ge (n : Node) : 1 ≤ wt hSize n :=
  wt_ge hSize 1 (by intro n; cases n <;> simp [hSize]) (by decide) (by decide) (by decide) (by decide) (by decide)
    (fun q x => by show 1 ≤ 1 + x; omega) n

theorem wtList_mem_le (h : HW) {x : Node} {ns : List Node} (hx : x ∈ ns) : wt h x ≤ wtList h ns := by
  induction ns with
  | nil => cases hx
  | cons y ys ih =>
    simp only [wtList]
    rcases List.mem_cons.1 hx with rfl | hx
    · omega
    · have := ih hx; omega

theorem wtU_empty : wt U .empty = 2 := rfl
theorem wtU_fails : wt U makeAlwaysFails = 2 := rfl
theorem wtS_empty : wt hSize .empty = 1 := rfl
theorem wtS_fails : wt hSize makeAlwaysFails = 1 := rfl
theorem wtU_cat (ns : List Node) : wt U (.cat ns) = 2 + wtList U ns := rfl
theorem wtU_alt (l r : Node) : wt U (.alt l r) = 2 + wt U l + wt U r := rfl
theorem wtU_look (a b : Bool) (sg eg : Nat) (c : Node) : wt U (.look a b sg eg c) = 2 + wt U c := rfl
theorem wtU_loop1 (b : Node) (q : Quant) : wt U (.loop1 b q) = 2 + wt U b := rfl
theorem wtU_loop (b : Node) (q : Quant) (g0 g1 : Nat) :
    wt U (.loop b q g0 g1) = (loopMult q + 1) * (wt U b + 2) := rfl
theorem wtS_cat (ns : List Node) : wt hSize (.cat ns) = 1 + wtList hSize ns := rfl
theorem wtS_alt (l r : Node) : wt hSize (.alt l r) = 1 + wt hSize l + wt hSize r := rfl
theorem wtS_look (a b : Bool) (sg eg : Nat) (c : Node) : wt hSize (.look a b sg eg c) = 1 + wt hSize c := rfl
theorem wtS_loop (b : Node) (q : Quant) (g0 g1 : Nat) : wt hSize (.loop b q g0 g1) = 1 + wt hSize b := rfl

theorem wtU_loop_ge (b : Node) (q : Quant) (g0 g1 : Nat) : wt U b + 2 ≤ wt U (.loop b q g0 g1) :=
  U_loop_ge q _

/-! ## `simplify_brackets` -/

theorem inverted_length (s : CPS.IvList) : (CPS.inverted s).length = CPS.invertedIntervalCount s := by
  rw [CPS.inverted_eq, CPS.invertedIntervalCount, CPS.invertedIntervalCountLoop_eq]; omega

theorem simplifyBrackets_meas : PassMeas simplifyBrackets hSB U := by
  intro n w a h
  unfold simplifyBrackets at h
  split at h
  · rename_i bc
    split at h
    · rename_i newNode hred
      cases h
      obtain ⟨cs, rfl, _⟩ := tryReduceBracket_some hred
      refine ⟨?_, .inr ?_⟩
      · show 2 ≤ 2 + bc.ivs.length; omega
      · show 0 < 1 + bc.ivs.length; omega
    · dsimp only at h
      split at h
      · rename_i hlt
        cases h
        have e1 : (ofIvList (CPS.inverted (toIvList bc.ivs))).length = CPS.invertedIntervalCount (toIvList bc.ivs) := by
          simp [ofIvList, inverted_length]
        have e2 : (toIvList bc.ivs).length = bc.ivs.length := by simp [toIvList]
        refine ⟨?_, .inr ?_⟩
        · show 2 + (ofIvList (CPS.inverted (toIvList bc.ivs))).length ≤ 2 + bc.ivs.length; omega
        · show 1 + (ofIvList (CPS.inverted (toIvList bc.ivs))).length < 1 + bc.ivs.length; omega
      · cases h; exact meas_keep
  · cases h; exact meas_keep

/-! ## `decat` -/

theorem decatLoop_wt_le (h : HW) (rest : List Node) :
    ∀ acc, wtList h (decatLoop rest acc) ≤ wtList h acc + wtList h rest := by
  induction rest with
  | nil => intro acc; simp [decatLoop, wtList]
  | cons x rest ih =>
    intro acc
    have hgen : wtList h (decatLoop rest (acc ++ [x])) ≤ wtList h acc + wtList h (x :: rest) := by
      have := ih (acc ++ [x]); rw [wtList_append] at this; simp only [wtList] at this ⊢; omega
    cases x <;> try (simp only [decatLoop]; exact hgen)
    case cat nn =>
      simp only [decatLoop]
      have := ih (acc ++ nn); rw [wtList_append] at this; simp only [wtList, wt] at this ⊢; omega

theorem decatLoop_wt_lt (h : HW) (hc : 1 ≤ h.cat) (rest : List Node) :
    rest.any (fun nn => nn.isCat) = true → ∀ acc, wtList h (decatLoop rest acc) < wtList h acc + wtList h rest := by
  induction rest with
  | nil => intro h; simp at h
  | cons x rest ih =>
    intro hany acc
    by_cases hx : x.isCat = true
    · obtain ⟨nn, rfl⟩ : ∃ nn, x = .cat nn := by cases x <;> simp_all [Node.isCat]
      simp only [decatLoop]
      have := decatLoop_wt_le h rest (acc ++ nn); rw [wtList_append] at this; simp only [wtList, wt] at this ⊢; omega
    · have hany' : rest.any (fun nn => nn.isCat) = true := by simpa [hx] using hany
      have := ih hany' (acc ++ [x]); rw [wtList_append] at this
      have e : decatLoop (x :: rest) acc = decatLoop rest (acc ++ [x]) := by
        cases x <;> first | rfl | simp [Node.isCat] at hx
      rw [e]; simp only [wtList] at this ⊢; omega

theorem decat_meas : PassMeas decat hDecat U := by
  intro n w a h
  unfold decat at h
  split at h
  · rename_i nodes
    split at h
    · cases h; exact ⟨Nat.le_refl _, .inr (by show 0 < 1 + 0; omega)⟩
    · rename_i x
      cases h
      refine ⟨?_, .inr ?_⟩
      · show wt U x ≤ 2 + (wt U x + 0); omega
      · show wt hDecat x < 1 + (wt hDecat x + 0); omega
    · split at h
      · rename_i hany
        cases h
        refine ⟨?_, .inr ?_⟩
        · have := decatLoop_wt_le U nodes []
          show 2 + wtList U (decatLoop nodes []) ≤ 2 + wtList U nodes
          simp only [wtList] at this; omega
        · have := decatLoop_wt_lt hDecat (by decide) nodes hany []
          show 1 + wtList hDecat (decatLoop nodes []) < 1 + wtList hDecat nodes
          simp only [wtList] at this; omega
      · cases h; exact meas_keep
  · cases h; exact meas_keep

/-! ## `unroll_loops` -/

mutual
/-- An unrollable body contains no loop. -/
theorem isUnrollable_wt0 : ∀ (n : Node) (bud : Nat), (isUnrollable n bud).1 = true → wt hUnroll n = 0
  | .loop _ _ _ _, bud, h => by simp only [isUnrollable] at h; split at h <;> simp at h
  | .loop1 _ _, bud, h => by simp only [isUnrollable] at h; split at h <;> simp at h
  | .cat ns, bud, h => by
    simp only [isUnrollable] at h
    split at h
    · simp at h
    · have := allUnrollable_wt0 ns _ h
      show 0 + wtList hUnroll ns = 0; omega
  | .alt l r, bud, h => by
    simp only [isUnrollable] at h
    split at h
    · simp at h
    · split at h
      · simp at h
      · rename_i b heq
        have h1 := isUnrollable_wt0 l (bud - 1) (by rw [heq])
        have h2 := isUnrollable_wt0 r b h
        show 0 + wt hUnroll l + wt hUnroll r = 0; omega
  | .group _ _ c, bud, h => by
    simp only [isUnrollable] at h
    split at h
    · simp at h
    · have := isUnrollable_wt0 c _ h
      show 0 + wt hUnroll c = 0; omega
  | .look _ _ _ _ c, bud, h => by
    simp only [isUnrollable] at h
    split at h
    · simp at h
    · have := isUnrollable_wt0 c _ h
      show 0 + wt hUnroll c = 0; omega
  | .empty, _, _ => rfl
  | .goal, _, _ => rfl
  | .char _, _, _ => rfl
  | .byteSeq _, _, _ => rfl
  | .byteSet _, _, _ => rfl
  | .charSet _, _, _ => rfl
  | .matchAny, _, _ => rfl
  | .matchAnyExceptLT, _, _ => rfl
  | .anchor _ _, _, _ => rfl
  | .wordBoundary _ _, _, _ => rfl
  | .backRef _ _, _, _ => rfl
  | .bracket _, _, _ => rfl
  | .stringSet _ _, _, _ => rfl
theorem allUnrollable_wt0 : ∀ (ns : List Node) (bud : Nat), (allUnrollable ns bud).1 = true → wtList hUnroll ns = 0
  | [], _, _ => rfl
  | n :: ns, bud, h => by
    simp only [allUnrollable] at h
    split at h
    · simp at h
    · rename_i b heq
      have h1 := isUnrollable_wt0 n bud (by rw [heq])
      have h2 := allUnrollable_wt0 ns b h
      simp only [wtList]; omega
end

theorem loopMult_zero {q : Quant} (h : q.min = 0) : loopMult q = 0 := by
  unfold loopMult; rw [h]; split <;> rfl

theorem unrollLoops_meas : PassMeas unrollLoops hUnroll U := by
  intro n w a h
  unfold unrollLoops at h
  split at h
  · rename_i loopee quant g0 g1
    split at h
    · cases h; exact meas_keep
    · split at h
      · cases h; exact meas_keep
      · rename_i hmin
        split at h
        · cases h; exact meas_keep
        · rename_i hunr
          split at h
          · cases h
          · cases h; exact meas_keep
          · rename_i unrolled hdup
            cases h
            have hu := unrollDup_eq loopee quant.min [] unrolled hdup
            have hul : unrolled = List.replicate quant.min loopee := by simpa using hu.1
            subst hul
            simp only [Bool.or_eq_true, beq_iff_eq, decide_eq_true_eq, not_or] at hmin
            have hk1 : quant.min ≠ 0 := hmin.1
            have hk2 : quant.min ≤ LOOP_UNROLL_THRESHOLD := by omega
            have h0 : wt hUnroll loopee = 0 := isUnrollable_wt0 loopee _ (by simpa using hunr)
            have hm : loopMult quant = quant.min := by unfold loopMult; rw [if_pos hk2]
            have hUb : wt U (.loop loopee quant g0 g1) =
                quant.min * wt U loopee + 2 * quant.min + wt U loopee + 2 := by
              rw [wtU_loop, hm, Nat.add_mul, Nat.mul_add, Nat.one_mul]; omega
            have hHb : wt hUnroll (.loop loopee quant g0 g1) = 1 := by
              show (if quant.min = 0 then 0 else 1) + wt hUnroll loopee = 1
              rw [if_neg hk1, h0]
            simp only [PassAction.result]
            split
            · refine ⟨?_, .inr ?_⟩
              · rw [hUb, wtU_cat, wtList_append, wtList_replicate]
                simp only [wtList]
                rw [wtU_loop, loopMult_zero rfl]
                omega
              · rw [hHb]
                show 0 + wtList hUnroll _ < 1
                rw [wtList_append, wtList_replicate, h0]
                simp only [wtList]
                show 0 + (quant.min * 0 + ((if (0 : Nat) = 0 then 0 else 1) + wt hUnroll loopee + 0)) < 1
                rw [h0]; simp
            · refine ⟨?_, .inr ?_⟩
              · rw [hUb, wtU_cat, wtList_replicate]; omega
              · rw [hHb]
                show 0 + wtList hUnroll _ < 1
                rw [wtList_replicate, h0]; simp
  · cases h; exact meas_keep

/-! ## `promote_1char_loops` -/

theorem promote1CharLoops_meas : PassMeas promote1CharLoops hPromote U := by
  intro n w a h
  unfold promote1CharLoops at h
  split at h
  · rename_i loopee quant g0 g1
    split at h
    · cases h; exact meas_keep
    · split at h
      · cases h
      · cases h
        refine ⟨?_, .inr ?_⟩
        · have := wtU_loop_ge loopee quant g0 g1
          show wt U (.loop1 loopee quant) ≤ _
          rw [wtU_loop1]; omega
        · show 0 + wt hPromote loopee < 1 + wt hPromote loopee; omega
  · cases h; exact meas_keep

/-! ## `form_literal_bytes` -/

theorem mergeLiteralBytes_wt (h : HW) (d : Nat)
    (hm : ∀ x y z : List Nat, x ≠ [] → y ≠ [] → (z = x ++ y ∨ z = y ++ x) →
      h.leaf (.byteSeq []) + h.leaf (.byteSeq z) + d ≤ h.leaf (.byteSeq x) + h.leaf (.byteSeq y))
    (lb : Bool) : ∀ (rest : List Node) (prev : Node),
      wtList h (mergeLiteralBytes lb prev rest).1 + (if (mergeLiteralBytes lb prev rest).2 then d else 0) ≤
        wt h prev + wtList h rest := by
  intro rest
  induction rest with
  | nil => intro prev; simp [mergeLiteralBytes, wtList]
  | cons curr rest ih =>
    intro prev
    unfold mergeLiteralBytes
    split
    · rename_i p c
      split
      · rename_i hne
        simp only [Bool.and_eq_true, Bool.not_eq_true', List.isEmpty_eq_false_iff] at hne
        have hz := hm p c (if lb then c ++ p else p ++ c) hne.1 hne.2 (by cases lb <;> simp)
        generalize (if lb = true then c ++ p else p ++ c) = z at hz ⊢
        have := ih (.byteSeq z)
        simp only [wtList, if_true]
        have e1 : wt h (.byteSeq []) = h.leaf (.byteSeq []) := rfl
        have e2 : wt h (.byteSeq p) = h.leaf (.byteSeq p) := rfl
        have e3 : wt h (.byteSeq c) = h.leaf (.byteSeq c) := rfl
        have e4 : wt h (.byteSeq z) = h.leaf (.byteSeq z) := rfl
        rw [e1, e2, e3]
        rw [e4] at this
        by_cases hb : (mergeLiteralBytes lb (.byteSeq z) rest).2 = true
        · rw [if_pos hb] at this; omega
        · rw [if_neg hb] at this; omega
      · have := ih (.byteSeq c)
        simp only [wtList]; omega
    · have := ih curr
      simp only [wtList]; omega

theorem formLiteralBytes_meas : PassMeas formLiteralBytes hFLB U := by
  intro n w a h
  unfold formLiteralBytes at h
  split at h
  · rename_i c
    split at h
    · cases h
      refine ⟨Nat.le_refl _, .inr ?_⟩
      show (if (Utf8.encode c).isEmpty then 0 else 1) < 2
      split <;> omega
    · cases h; exact meas_keep
  · split at h
    · cases h
      exact ⟨Nat.le_refl _, .inr (by show 0 < 1; omega)⟩
    · cases h; exact meas_keep
  · split at h
    · cases h; exact meas_keep
    · rename_i first rest
      dsimp only at h
      split at h
      · rename_i hchg
        cases h
        have hu := mergeLiteralBytes_wt U 0 (fun _ _ _ _ _ _ => Nat.le_refl _) w.inLookbehind rest first
        have hf := mergeLiteralBytes_wt hFLB 1 (by
          intro x y z hx hy hz
          have hzne : z ≠ [] := by rcases hz with rfl | rfl <;> simp [hx]
          show (if ([] : List Nat).isEmpty then 0 else 1) + (if z.isEmpty then 0 else 1) + 1 ≤
            (if x.isEmpty then 0 else 1) + (if y.isEmpty then 0 else 1)
          simp [hx, hy, hzne]) w.inLookbehind rest first
        rw [hchg] at hf
        refine ⟨?_, .inr ?_⟩
        · show 2 + wtList U _ ≤ 2 + (wt U first + wtList U rest); omega
        · show 0 + wtList hFLB _ < 0 + (wt hFLB first + wtList hFLB rest)
          simp only [if_true] at hf; omega
      · cases h; exact meas_keep
  · cases h; exact meas_keep

/-! ## `remove_empties` -/

theorem isEmpty_eq {x : Node} (h : x.isEmpty = true) : x = .empty := by
  cases x <;> simp_all [Node.isEmpty]

theorem filter_wt_le (h : HW) (ns : List Node) :
    wtList h (ns.filter (fun nn => !nn.isEmpty)) ≤ wtList h ns := by
  induction ns with
  | nil => simp
  | cons x xs ih =>
    rw [List.filter_cons]
    split
    · simp only [wtList]; omega
    · simp only [wtList]; omega

theorem filter_wt_lt (h : HW) (ns : List Node)
    (hne : (ns.filter (fun nn => !nn.isEmpty)).length ≠ ns.length) :
    wtList h (ns.filter (fun nn => !nn.isEmpty)) + wt h .empty ≤ wtList h ns := by
  induction ns with
  | nil => simp at hne
  | cons x xs ih =>
    rw [List.filter_cons] at hne ⊢
    split
    · rename_i hx
      rw [if_pos hx] at hne
      have := ih (by simpa using hne)
      simp only [wtList]; omega
    · rename_i hx
      have hx' : x = .empty := isEmpty_eq (by simpa using hx)
      subst hx'
      have := filter_wt_le h xs
      simp only [wtList]; omega

theorem removeEmpties_meas : PassMeas removeEmpties hSize U := by
  intro n w a h
  unfold removeEmpties at h
  split at h
  all_goals try (cases h; exact meas_keep)
  · split at h
    · cases h
      exact ⟨Nat.le_refl _, .inr (by show 1 < 2; omega)⟩
    · cases h; exact meas_keep
  · rename_i nodes
    dsimp only at h
    have hle := filter_wt_le U nodes
    split at h
    · cases h; exact meas_keep
    · rename_i hlen
      have hlt := filter_wt_lt hSize nodes (by simpa using hlen)
      rw [wtS_empty] at hlt
      split at h
      · rename_i heq
        cases h
        rw [heq] at hlt
        refine ⟨?_, .inr ?_⟩
        · show wt U .empty ≤ wt U (.cat nodes); rw [wtU_empty, wtU_cat]; omega
        · show wt hSize .empty < wt hSize (.cat nodes); rw [wtS_empty, wtS_cat]
          simp only [wtList] at hlt; omega
      · rename_i x heq
        cases h
        rw [heq] at hlt hle
        simp only [wtList] at hlt hle
        refine ⟨?_, .inr ?_⟩
        · show wt U x ≤ wt U (.cat nodes); rw [wtU_cat]; omega
        · show wt hSize x < wt hSize (.cat nodes); rw [wtS_cat]; omega
      · cases h
        refine ⟨?_, .inr ?_⟩
        · show wt U (.cat _) ≤ wt U (.cat nodes); rw [wtU_cat, wtU_cat]; omega
        · show wt hSize (.cat _) < wt hSize (.cat nodes); rw [wtS_cat, wtS_cat]; omega
  · rename_i left right
    split at h
    · cases h
      refine ⟨?_, .inr ?_⟩
      · show wt U .empty ≤ wt U (.alt left right); rw [wtU_empty, wtU_alt]; omega
      · have := wtS_ge left
        show wt hSize .empty < wt hSize (.alt left right); rw [wtS_empty, wtS_alt]; omega
    · cases h; exact meas_keep
  · rename_i loopee quant g0 g1
    split at h
    · cases h
      refine ⟨?_, .inr ?_⟩
      · have := wtU_loop_ge loopee quant g0 g1
        show wt U .empty ≤ wt U (.loop loopee quant g0 g1); rw [wtU_empty]; omega
      · have := wtS_ge loopee
        show wt hSize .empty < wt hSize (.loop loopee quant g0 g1); rw [wtS_empty, wtS_loop]; omega
    · cases h; exact meas_keep
  · rename_i negate b sg eg contents
    split at h
    · cases h
      refine ⟨?_, .inr ?_⟩
      · show wt U .empty ≤ wt U (.look negate b sg eg contents); rw [wtU_empty, wtU_look]; omega
      · have := wtS_ge contents
        show wt hSize .empty < wt hSize (.look negate b sg eg contents); rw [wtS_empty, wtS_look]; omega
    · cases h; exact meas_keep

/-! ## `propagate_early_fails` -/

theorem propagateEarlyFails_meas : PassMeas propagateEarlyFails hSize U := by
  intro n w a h
  unfold propagateEarlyFails at h
  split at h
  · cases h; exact meas_keep
  · split at h
    · rename_i nodes hcc
      split at h
      · rename_i hany
        cases h
        obtain ⟨x, hx, _⟩ := List.any_eq_true.1 hany
        refine ⟨?_, .inr ?_⟩
        · show wt U makeAlwaysFails ≤ wt U (.cat nodes); rw [wtU_fails, wtU_cat]; omega
        · have := wtList_mem_le hSize hx
          have := wtS_ge x
          show wt hSize makeAlwaysFails < wt hSize (.cat nodes); rw [wtS_fails, wtS_cat]; omega
      · cases h; exact meas_keep
    · rename_i left right hcc
      dsimp only at h
      have := wtS_ge left
      have := wtS_ge right
      split at h
      · cases h
        refine ⟨?_, .inr ?_⟩
        · show wt U makeAlwaysFails ≤ wt U (.alt left right); rw [wtU_fails, wtU_alt]; omega
        · show wt hSize makeAlwaysFails < wt hSize (.alt left right); rw [wtS_fails, wtS_alt]; omega
      · cases h; exact meas_keep
      · cases h
        refine ⟨?_, .inr ?_⟩
        · show wt U right ≤ wt U (.alt left right); rw [wtU_alt]; omega
        · show wt hSize right < wt hSize (.alt left right); rw [wtS_alt]; omega
      · cases h
        refine ⟨?_, .inr ?_⟩
        · show wt U left ≤ wt U (.alt left right); rw [wtU_alt]; omega
        · show wt hSize left < wt hSize (.alt left right); rw [wtS_alt]; omega
    · rename_i loopee quant g0 g1 hcc
      split at h
      · cases h; exact meas_keep
      · split at h
        · cases h
          refine ⟨?_, .inr ?_⟩
          · have := wtU_loop_ge loopee quant g0 g1
            show wt U makeAlwaysFails ≤ wt U (.loop loopee quant g0 g1); rw [wtU_fails]; omega
          · have := wtS_ge loopee
            show wt hSize makeAlwaysFails < wt hSize (.loop loopee quant g0 g1); rw [wtS_fails, wtS_loop]; omega
        · cases h; exact meas_keep
    · cases h; exact meas_keep

end Regress.IR
