import RegressModel.Spec.Print
/-!
# Round trip, part 1: characters and numbers

The parser model's lexical helpers evaluated on what `Print.printChar`, `Print.printDec` and
`Print.printQuant` produce: `\xHH` and `\uHHHH` are read back by `consume_character_escape`
(`characterEscape_x`, `characterEscape_u`), the decimal digits of `n ≤ usize::MAX` by
`try_consume_decimal_integer_literal` (`decimalLiteral_printDec`), `{m,n}` / `{m,}` / `?` by
`try_consume_quantifier` (`quantifier_printQuant`).
-/
namespace Regress.RoundTrip
open Regress Regress.IR Regress.Parse Regress.Print

/-! ## What may start / follow an atom -/

/-- A character that may follow an atom without being read as part of it: not a digit (which would
extend `\N`), not a quantifier start. -/
def followC (c : Nat) : Bool :=
  !(isAsciiDigit c) && c != 0x2A && c != 0x2B && c != 0x3F && c != 0x7B

/-- A character an atom's text may start with: additionally not `)` and not `|`. -/
def startC (c : Nat) : Bool := followC c && c != 0x29 && c != 0x7C

/-- What follows an atom does not interfere with it. -/
def Follow (rest : List Nat) : Prop := ∀ c tl, rest = c :: tl → followC c = true

/-- The end of an alternative: end of input, `)` or `|`. -/
def Stop (rest : List Nat) : Prop := rest = [] ∨ ∃ tl, rest = 0x29 :: tl ∨ rest = 0x7C :: tl

/-- The end of a disjunction: end of input or `)`. -/
def StopD (rest : List Nat) : Prop := rest = [] ∨ ∃ tl, rest = 0x29 :: tl

/-- A text that is empty or starts with a `followC` character. -/
def HeadF (l : List Nat) : Prop := ∀ c tl, l = c :: tl → followC c = true

/-- A non-empty text that starts with a `startC` character. -/
def HeadS (l : List Nat) : Prop := ∃ c tl, l = c :: tl ∧ startC c = true

theorem startC_follow {c : Nat} (h : startC c = true) : followC c = true := by
  simp only [startC, Bool.and_eq_true] at h; exact h.1.1

theorem Stop.follow {rest : List Nat} (h : Stop rest) : Follow rest := by
  intro c tl hc
  rcases h with h | ⟨t, h | h⟩ <;> rw [h] at hc
  · cases hc
  · cases hc; decide
  · cases hc; decide

theorem StopD.stop {rest : List Nat} (h : StopD rest) : Stop rest := by
  rcases h with h | ⟨t, h⟩
  · exact .inl h
  · exact .inr ⟨t, .inl h⟩

theorem HeadS.headF {l : List Nat} (h : HeadS l) : HeadF l := by
  obtain ⟨c, tl, rfl, hc⟩ := h
  intro c' tl' h'
  cases h'
  exact startC_follow hc

theorem HeadS.append {l : List Nat} (h : HeadS l) (r : List Nat) : HeadS (l ++ r) := by
  obtain ⟨c, tl, rfl, hc⟩ := h
  exact ⟨c, tl ++ r, rfl, hc⟩

theorem HeadS.follow_append {l : List Nat} (h : HeadS l) (r : List Nat) : Follow (l ++ r) :=
  (h.append r).headF

theorem HeadF.append {l r : List Nat} (hl : HeadF l) (hr : Follow r) : Follow (l ++ r) := by
  cases l with
  | nil => simpa using hr
  | cons c tl =>
    intro c' tl' h
    simp only [List.cons_append, List.cons.injEq] at h
    obtain ⟨rfl, _⟩ := h
    exact hl c tl rfl

theorem followC_cons {c : Nat} {tl : List Nat} (h : followC c = true) : Follow (c :: tl) := by
  intro c' tl' h'; cases h'; exact h

/-! ## Hexadecimal digits -/

theorem hexDigit_hexDig : ∀ d, d < 16 → Parse.hexDigit? (hexDig d) = some d := by decide

theorem hexDig_isChar : ∀ d, d < 16 → isChar (hexDig d) = true := by decide

theorem hexDig_ne_brace : ∀ d, d < 16 → hexDig d ≠ 0x7B := by decide

theorem hexDig_ne_plus : ∀ d, d < 16 → hexDig d ≠ 0x2B := by decide

/-- `\xHH` (input positioned after the backslash). -/
theorem characterEscape_x (u hn : Bool) {c : Nat} (hc : c < 0x100) (rest : List Nat) :
    characterEscape u hn (0x78 :: (hex2 c ++ rest)) = .ok (c, rest) := by
  have h1 := hexDigit_hexDig (c / 16 % 16) (Nat.mod_lt _ (by decide))
  have h2 := hexDigit_hexDig (c % 16) (Nat.mod_lt _ (by decide))
  simp only [characterEscape, hex2, List.cons_append, List.nil_append, h1, h2, List.drop]
  simp only [show ((0x78 : Nat) == 0x66) = false from rfl, show ((0x78 : Nat) == 0x6E) = false from rfl,
    show ((0x78 : Nat) == 0x72) = false from rfl, show ((0x78 : Nat) == 0x74) = false from rfl,
    show ((0x78 : Nat) == 0x76) = false from rfl, show ((0x78 : Nat) == 0x63) = false from rfl,
    show ((0x78 : Nat) == 0x30) = false from rfl, show ((0x78 : Nat) == 0x78) = true from rfl,
    Bool.false_and, Bool.false_eq_true, if_false, if_true]
  congr 2
  omega

/-- `\uHHHH` for a code point that is not a high surrogate (input positioned after the backslash). -/
theorem characterEscape_u (u hn : Bool) {c : Nat} (hc : c < 0x10000)
    (hs : ¬ (0xD800 ≤ c ∧ c ≤ 0xDBFF)) (rest : List Nat) :
    characterEscape u hn (0x75 :: (hex4 c ++ rest)) = .ok (c, rest) := by
  have l1 : c / 4096 % 16 < 16 := Nat.mod_lt _ (by decide)
  have l2 : c / 256 % 16 < 16 := Nat.mod_lt _ (by decide)
  have l3 : c / 16 % 16 < 16 := Nat.mod_lt _ (by decide)
  have l4 : c % 16 < 16 := Nat.mod_lt _ (by decide)
  have h1 := hexDigit_hexDig _ l1
  have h2 := hexDigit_hexDig _ l2
  have h3 := hexDigit_hexDig _ l3
  have h4 := hexDigit_hexDig _ l4
  have hv : ((c / 4096 % 16 * 16 + c / 256 % 16) * 16 + c / 16 % 16) * 16 + c % 16 = c := by omega
  have hseq : tryEscapeUnicodeSequence (hex4 c ++ rest) = (some c, rest) := by
    simp only [hex4, List.cons_append, List.nil_append]
    unfold tryEscapeUnicodeSequence
    split
    · next heq =>
      simp only [List.cons.injEq] at heq
      exact absurd heq.1 (hexDig_ne_brace _ l1)
    · simp only [take4, hexDig_isChar _ l1, hexDig_isChar _ l2, hexDig_isChar _ l3, hexDig_isChar _ l4,
        Bool.and_self, if_true]
      have hr : hexDigitsRadix16 [hexDig (c / 4096 % 16), hexDig (c / 256 % 16), hexDig (c / 16 % 16),
          hexDig (c % 16)] = some c := by
        simp only [hexDigitsRadix16, allHexDigits, List.all_cons, List.all_nil, h1, h2, h3, h4,
          Option.isSome_some, Bool.and_self, if_true]
        unfold fromStrRadix16
        split
        · next heq => simp at heq
        · next heq => simp at heq
        · next heq => simp at heq
        · next heq =>
          simp only [List.cons.injEq] at heq
          exact absurd heq.1 (hexDig_ne_plus _ l1)
        · simp only [hexAll, h1, h2, h3, h4, Nat.zero_mul, Nat.zero_add, hv]
      rw [hr]
      simp only
      have hs' : (decide (0xD800 ≤ c) && decide (c ≤ 0xDBFF)) = false := by
        by_cases h1 : 0xD800 ≤ c
        · have : ¬ c ≤ 0xDBFF := fun h2 => hs ⟨h1, h2⟩
          simp [h1, this]
        · simp [h1]
      simp [hs']
  simp only [characterEscape, hseq]
  simp only [show ((0x75 : Nat) == 0x66) = false from rfl, show ((0x75 : Nat) == 0x6E) = false from rfl,
    show ((0x75 : Nat) == 0x72) = false from rfl, show ((0x75 : Nat) == 0x74) = false from rfl,
    show ((0x75 : Nat) == 0x76) = false from rfl, show ((0x75 : Nat) == 0x63) = false from rfl,
    show ((0x75 : Nat) == 0x30) = false from rfl, show ((0x75 : Nat) == 0x78) = false from rfl,
    show ((0x75 : Nat) == 0x75) = true from rfl,
    Bool.false_and, Bool.false_eq_true, if_false, if_true]

/-! ## Decimal numbers -/

/-- The accumulator step of `try_consume_decimal_integer_literal`. -/
def decStep (a c : Nat) : Nat := satMul10Add a (c - 0x30)

theorem decimalLoop_digits : ∀ (ds rest : List Nat) (r k : Nat), (∀ c ∈ ds, isAsciiDigit c = true) →
    decimalLoop (ds ++ rest) r k = decimalLoop rest (ds.foldl decStep r) (k + ds.length) := by
  intro ds
  induction ds with
  | nil => intro rest r k _; simp
  | cons d ds ih =>
    intro rest r k h
    have hd := h d (by simp)
    simp only [List.cons_append, decimalLoop, hd, if_true, List.foldl_cons, List.length_cons]
    rw [ih rest _ _ (fun c hc => h c (by simp [hc]))]
    simp only [decStep]
    congr 1
    omega

/-- A text that does not start with a digit. -/
def NoDigit (rest : List Nat) : Prop := ∀ c tl, rest = c :: tl → isAsciiDigit c = false

theorem Follow.noDigit {rest : List Nat} (h : Follow rest) : NoDigit rest := by
  intro c tl hc
  have := h c tl hc
  simp only [followC, Bool.and_eq_true, Bool.not_eq_true'] at this
  exact this.1.1.1.1

theorem decimalLoop_stop {rest : List Nat} (h : NoDigit rest) (r k : Nat) :
    decimalLoop rest r k = (r, k, rest) := by
  cases rest with
  | nil => rfl
  | cons c tl => simp [decimalLoop, h c tl rfl]

theorem decRev_digit : ∀ (f n : Nat), ∀ c ∈ decRev f n, isAsciiDigit c = true := by
  intro f
  induction f with
  | zero => intro n c hc; simp [decRev] at hc
  | succ f ih =>
    intro n c hc
    simp only [decRev, List.mem_cons] at hc
    rcases hc with rfl | hc
    · simp only [isAsciiDigit, Bool.and_eq_true, decide_eq_true_eq]; omega
    · split at hc
      · simp at hc
      · exact ih _ c hc

theorem printDec_digit (n : Nat) : ∀ c ∈ printDec n, isAsciiDigit c = true := by
  intro c hc
  simp only [printDec, List.mem_reverse] at hc
  exact decRev_digit _ _ c hc

theorem decRev_value : ∀ (f n : Nat), n < f → n ≤ USIZE_MAX → (decRev f n).reverse.foldl decStep 0 = n := by
  intro f
  induction f with
  | zero => intro n h; omega
  | succ f ih =>
    intro n hn hm
    simp only [decRev]
    by_cases h0 : n / 10 = 0
    · simp only [h0, if_true, List.reverse_cons, List.reverse_nil, List.nil_append, List.foldl_cons,
        List.foldl_nil, decStep, satMul10Add]
      unfold USIZE_MAX at *
      omega
    · simp only [h0, if_false, List.reverse_cons, List.foldl_append, List.foldl_cons, List.foldl_nil]
      rw [ih (n / 10) (by omega) (by omega)]
      simp only [decStep, satMul10Add]
      unfold USIZE_MAX at *
      omega

theorem printDec_value {n : Nat} (h : n ≤ USIZE_MAX) : (printDec n).foldl decStep 0 = n :=
  decRev_value (n + 1) n (by omega) h

theorem decRev_head : ∀ (f n : Nat), n < f → 1 ≤ n →
    ∃ d tl, (decRev f n).reverse = d :: tl ∧ 0x31 ≤ d ∧ d ≤ 0x39 := by
  intro f
  induction f with
  | zero => intro n h; omega
  | succ f ih =>
    intro n hn h1
    simp only [decRev]
    by_cases h0 : n / 10 = 0
    · refine ⟨0x30 + n % 10, [], by simp [h0], by omega, by omega⟩
    · obtain ⟨d, tl, he, hd⟩ := ih (n / 10) (by omega) (by omega)
      refine ⟨d, tl ++ [0x30 + n % 10], ?_, hd⟩
      simp only [h0, if_false, List.reverse_cons, he, List.cons_append]

theorem printDec_head {n : Nat} (h : 1 ≤ n) : ∃ d tl, printDec n = d :: tl ∧ 0x31 ≤ d ∧ d ≤ 0x39 :=
  decRev_head (n + 1) n (by omega) h

theorem printDec_ne_nil (n : Nat) : printDec n ≠ [] := by
  simp [printDec, decRev]

/-- `try_consume_decimal_integer_literal` reads `printDec n` back. -/
theorem decimalLiteral_printDec {n : Nat} (h : n ≤ USIZE_MAX) {rest : List Nat} (hr : NoDigit rest) :
    decimalLiteral (printDec n ++ rest) = (some n, rest) := by
  unfold decimalLiteral
  rw [decimalLoop_digits _ _ _ _ (printDec_digit n), decimalLoop_stop hr, printDec_value h]
  have : 0 < (printDec n).length := List.length_pos_iff.2 (printDec_ne_nil n)
  simp only [Nat.zero_add, gt_iff_lt, this, if_true]

theorem takeWhile_digits : ∀ (ds : List Nat) (rest : List Nat), (∀ c ∈ ds, isAsciiDigit c = true) →
    NoDigit rest → (ds ++ rest).takeWhile isAsciiDigit = ds := by
  intro ds
  induction ds with
  | nil =>
    intro rest _ hr
    cases rest with
    | nil => rfl
    | cons c tl => simp [hr c tl rfl]
  | cons d ds ih =>
    intro rest h hr
    simp only [List.cons_append, List.takeWhile, h d (by simp)]
    rw [ih rest (fun c hc => h c (by simp [hc])) hr]

theorem lexLt_irrefl : ∀ (l : List Nat), lexLt l l = false := by
  intro l
  induction l with
  | nil => rfl
  | cons a l ih => simp [lexLt, ih]

theorem digitsGt_irrefl (a : Nat × List Nat) : digitsGt a a = false := by
  simp [digitsGt, lexLt_irrefl]

/-! ## Quantifiers -/

theorem noDigit_cons {c : Nat} {tl : List Nat} (h : isAsciiDigit c = false) : NoDigit (c :: tl) := by
  intro c' tl' h'; cases h'; exact h

/-- `try_consume_braced_quantifier` on `{m,n}` / `{m,}`. -/
theorem bracedQuantifier_print {mn : Nat} {mx : Option Nat} (rest : List Nat) (hmn : mn ≤ USIZE_MAX)
    (hmx : ∀ m, mx = some m → m ≤ USIZE_MAX) :
    bracedQuantifier ([0x7B] ++ printDec mn ++ [0x2C] ++ (match mx with | some m => printDec m | none => [])
        ++ [0x7D] ++ rest) = .ok (some { min := mn, max := mx, greedy := true }, rest) := by
  cases mx with
  | none =>
    simp only [List.append_nil, List.append_assoc, List.cons_append, List.nil_append, bracedQuantifier]
    rw [decimalLiteral_printDec hmn (noDigit_cons (by decide))]
    simp only
    have : decimalLiteral (0x7D :: rest) = (none, 0x7D :: rest) := by
      simp [decimalLiteral, decimalLoop, isAsciiDigit]
    rw [this]
    simp
  | some m =>
    have hm := hmx m rfl
    simp only [List.append_assoc, List.cons_append, List.nil_append, bracedQuantifier]
    rw [decimalLiteral_printDec hmn (noDigit_cons (by decide))]
    simp only
    rw [decimalLiteral_printDec hm (noDigit_cons (by decide))]
    simp only
    by_cases hsat : mn = USIZE_MAX ∧ m = USIZE_MAX
    · obtain ⟨rfl, rfl⟩ := hsat
      have e1 : decimalDigits (printDec USIZE_MAX ++ 0x2C :: (printDec USIZE_MAX ++ 0x7D :: rest)) =
          decimalDigits (printDec USIZE_MAX ++ 0x7D :: rest) := by
        simp only [decimalDigits]
        rw [takeWhile_digits _ _ (printDec_digit _) (noDigit_cons (by decide)),
          takeWhile_digits _ _ (printDec_digit _) (noDigit_cons (by decide))]
      rw [e1, digitsGt_irrefl]
      simp
    · have : (mn == USIZE_MAX && (some m == some USIZE_MAX)) = false := by
        by_cases h1 : mn = USIZE_MAX
        · have : m ≠ USIZE_MAX := fun h2 => hsat ⟨h1, h2⟩
          simp [h1, this]
        · simp [h1]
      simp [hsat]

/-- The brace part of `printQuant`. -/
def printBraces (mn : Nat) (mx : Option Nat) : List Nat :=
  [0x7B] ++ printDec mn ++ [0x2C] ++ (match mx with | some m => printDec m | none => []) ++ [0x7D]

theorem printQuant_eq (mn : Nat) (mx : Option Nat) (g : Bool) :
    printQuant mn mx g = printBraces mn mx ++ (if g then [] else [0x3F]) := rfl

theorem printBraces_cons (mn : Nat) (mx : Option Nat) : ∃ tl, printBraces mn mx = 0x7B :: tl :=
  ⟨_, by simp only [printBraces, List.append_assoc, List.cons_append, List.nil_append]; rfl⟩

theorem quantifierPrefix_print (u : Bool) {mn : Nat} {mx : Option Nat} (r : List Nat)
    (hmn : mn ≤ USIZE_MAX) (hmx : ∀ m, mx = some m → m ≤ USIZE_MAX) :
    quantifierPrefix u (printBraces mn mx ++ r) = .ok (some { min := mn, max := mx, greedy := true }, r) := by
  have hb := bracedQuantifier_print (mn := mn) (mx := mx) r hmn hmx
  obtain ⟨tl, htl⟩ := printBraces_cons mn mx
  have hb' : bracedQuantifier (printBraces mn mx ++ r) =
      .ok (some { min := mn, max := mx, greedy := true }, r) := hb
  rw [htl] at hb' ⊢
  simp only [List.cons_append] at hb' ⊢
  simp only [quantifierPrefix, hb']
  simp only [show ((0x7B : Nat) == 0x2B) = false from rfl, show ((0x7B : Nat) == 0x2A) = false from rfl,
    show ((0x7B : Nat) == 0x3F) = false from rfl, show ((0x7B : Nat) == 0x7B) = true from rfl,
    Bool.false_eq_true, if_false, if_true]

/-- `try_consume_quantifier` on the printed quantifier. -/
theorem quantifier_printQuant (u : Bool) {mn : Nat} {mx : Option Nat} (g : Bool) {rest : List Nat}
    (hmn : mn ≤ USIZE_MAX) (hmx : ∀ m, mx = some m → m ≤ USIZE_MAX) (hr : Follow rest) :
    quantifier u (printQuant mn mx g ++ rest) = .ok (some { min := mn, max := mx, greedy := g }, rest) := by
  rw [printQuant_eq, List.append_assoc]
  unfold quantifier
  rw [quantifierPrefix_print u _ hmn hmx]
  cases g with
  | true =>
    simp only [if_true, List.nil_append]
    cases rest with
    | nil => rfl
    | cons c tl =>
      have := hr c tl rfl
      simp only [followC, Bool.and_eq_true, bne_iff_ne, ne_eq] at this
      have hc : c ≠ 0x3F := this.1.2
      split
      · next heq => simp only [List.cons.injEq] at heq; exact absurd heq.1 hc
      · rfl
  | false => rfl

/-- No quantifier follows when the next text does not start with one. -/
theorem quantifier_none (u : Bool) {rest : List Nat} (hr : Follow rest) : quantifier u rest = .ok (none, rest) := by
  cases rest with
  | nil => simp [quantifier, quantifierPrefix]
  | cons c tl =>
    have := hr c tl rfl
    simp only [followC, Bool.and_eq_true, bne_iff_ne, ne_eq] at this
    obtain ⟨⟨⟨⟨_, h1⟩, h2⟩, h3⟩, h4⟩ := this
    simp [quantifier, quantifierPrefix, h1, h2, h3, h4]

end Regress.RoundTrip
