import Proofs.Lemmas.RoundTripPrescan
/-!
# Round trip, part 11: the normal form, its nesting depth, and the class kinds

* `isNF`: the shape `Lower.normalize` produces (no `cat`/`empty` directly in a `cat`, no `alt` directly
  in an `alt`); `normalize_isNF`.
* `prDepth_le_nest`: on a normal form the nesting depth of the printed text (`prDepth`) is at most the
  depth `Lower.nest` that `toIR` checks against the limit.
* `lower_modeOK`: when `lowerNode` succeeds, brackets are legacy brackets without `v` and class sets with
  `v` (`modeOK`, what the pre-scan lemma needs).
-/
namespace Regress.RoundTrip
open Regress Regress.IR Regress.Parse Regress.Lower Regress.Print

/-! ## Normal forms -/

def isCat : ES.Node → Bool
  | .cat _ => true
  | _ => false
def isAlt : ES.Node → Bool
  | .alt _ => true
  | _ => false
def isEmpty : ES.Node → Bool
  | .empty => true
  | _ => false

mutual
def isNF : ES.Node → Bool
  | .cat ns => isNFList ns && ns.all (fun n => !isCat n && !isEmpty n)
  | .alt ns => isNFList ns && ns.all (fun n => !isAlt n)
  | .group _ _ n => isNF n
  | .nc n => isNF n
  | .mod _ _ n => isNF n
  | .look _ _ n => isNF n
  | .quant _ _ _ n => isNF n
  | _ => true
def isNFList : List ES.Node → Bool
  | [] => true
  | n :: ns => isNF n && isNFList ns
end

theorem isNFList_append (xs ys : List ES.Node) : isNFList (xs ++ ys) = (isNFList xs && isNFList ys) := by
  induction xs with
  | nil => simp [isNFList]
  | cons x xs ih => simp [isNFList, ih, Bool.and_assoc]

theorem catItems_ok {m : ES.Node} (h : isNF m = true) :
    isNFList (catItems m) = true ∧ (catItems m).all (fun n => !isCat n && !isEmpty n) = true := by
  cases m <;> simp_all [catItems, isNF, isNFList, isCat, isEmpty]

theorem altItems_ok {m : ES.Node} (h : isNF m = true) :
    isNFList (altItems m) = true ∧ (altItems m).all (fun n => !isAlt n) = true := by
  cases m <;> simp_all [altItems, isNF, isNFList, isAlt]

theorem normalize_isNF (n : ES.Node) : isNF (normalize n) = true := by
  induction n using ES.Node.rec
    (motive_2 := fun ns =>
      (isNFList (normCat ns) = true ∧ (normCat ns).all (fun n => !isCat n && !isEmpty n) = true) ∧
      (isNFList (normAlt ns) = true ∧ (normAlt ns).all (fun n => !isAlt n) = true)) with
  | cat ns ih => simp only [normalize, isNF, Bool.and_eq_true]; exact ih.1
  | alt ns ih => simp only [normalize, isNF, Bool.and_eq_true]; exact ih.2
  | group i nm n ih => simpa only [normalize, isNF] using ih
  | nc n ih => simpa only [normalize, isNF] using ih
  | mod a r n ih => simpa only [normalize, isNF] using ih
  | look a g n ih => simpa only [normalize, isNF] using ih
  | quant mn mx g n ih => simpa only [normalize, isNF] using ih
  | nil => simp [normCat, normAlt, isNFList]
  | cons a as iha ihas =>
    obtain ⟨c1, c2⟩ := catItems_ok iha
    obtain ⟨a1, a2⟩ := altItems_ok iha
    simp only [normCat, normAlt, isNFList_append, List.all_append, Bool.and_eq_true]
    exact ⟨⟨⟨c1, ihas.1.1⟩, c2, ihas.1.2⟩, ⟨a1, ihas.2.1⟩, a2, ihas.2.2⟩
  | empty => rfl
  | char c => rfl
  | dot => rfl
  | bol => rfl
  | eol => rfl
  | wb => rfl
  | nwb => rfl
  | bref k => rfl
  | nref nm => rfl
  | esc e => rfl
  | prop g k nm => rfl
  | cls g items => rfl
  | vcls g op ops => rfl

/-! ## Depth -/

/-- The depth `nest` charges for a child of a `cat`. -/
def termNest : ES.Node → Nat
  | .alt ns => 1 + nest (.alt ns)
  | n => nest n

/-- The depth `nest` charges for the body of a quantifier. -/
def atomNest : ES.Node → Nat
  | .cat ns => 1 + nest (.cat ns)
  | .alt ns => 1 + nest (.alt ns)
  | .quant mn mx g n => 1 + nest (.quant mn mx g n)
  | .empty => 1
  | n => nest n

theorem nest_quant (mn : Nat) (mx : Option Nat) (g : Bool) (n : ES.Node) :
    nest (.quant mn mx g n) = atomNest n := by
  cases n <;> simp [nest, atomNest]

theorem nestCat_cons (n : ES.Node) (ns : List ES.Node) : nestCat (n :: ns) = max (termNest n) (nestCat ns) := by
  cases n <;> simp [nestCat, termNest]

/-- All four contexts of a normal form against `nest`. -/
structure DepthOK (n : ES.Node) : Prop where
  disj : prDepth .disj n ≤ nest n
  alt : isAlt n = false → prDepth .alt n ≤ nest n
  term : isCat n = false → isEmpty n = false → prDepth .term n ≤ termNest n
  atom : prDepth .atom n ≤ atomNest n

theorem depthOK (n : ES.Node) : isNF n = true → DepthOK n := by
  induction n using ES.Node.rec
    (motive_2 := fun ns => isNFList ns = true →
      (ns.all (fun n => !isCat n && !isEmpty n) = true → prDepthTerms ns ≤ nestCat ns) ∧
      (ns.all (fun n => !isAlt n) = true → prDepthAlts ns ≤ nestList ns)) with
  | empty => intro _; exact ⟨by simp [prDepth, nest], fun _ => by simp [prDepth, nest], fun _ h => by simp [isEmpty] at h,
      by simp [prDepth, atomNest]⟩
  | char c => intro _; exact ⟨by simp [prDepth], fun _ => by simp [prDepth], fun _ _ => by simp [prDepth],
      by simp [prDepth]⟩
  | dot => intro _; exact ⟨by simp [prDepth], fun _ => by simp [prDepth], fun _ _ => by simp [prDepth],
      by simp [prDepth]⟩
  | bol => intro _; exact ⟨by simp [prDepth], fun _ => by simp [prDepth], fun _ _ => by simp [prDepth],
      by simp [prDepth]⟩
  | eol => intro _; exact ⟨by simp [prDepth], fun _ => by simp [prDepth], fun _ _ => by simp [prDepth],
      by simp [prDepth]⟩
  | wb => intro _; exact ⟨by simp [prDepth], fun _ => by simp [prDepth], fun _ _ => by simp [prDepth],
      by simp [prDepth]⟩
  | nwb => intro _; exact ⟨by simp [prDepth], fun _ => by simp [prDepth], fun _ _ => by simp [prDepth],
      by simp [prDepth]⟩
  | bref k => intro _; exact ⟨by simp [prDepth], fun _ => by simp [prDepth], fun _ _ => by simp [prDepth],
      by simp [prDepth]⟩
  | nref nm => intro _; exact ⟨by simp [prDepth], fun _ => by simp [prDepth], fun _ _ => by simp [prDepth],
      by simp [prDepth]⟩
  | esc e => intro _; exact ⟨by simp [prDepth], fun _ => by simp [prDepth], fun _ _ => by simp [prDepth],
      by simp [prDepth]⟩
  | prop g k nm => intro _; exact ⟨by simp [prDepth], fun _ => by simp [prDepth], fun _ _ => by simp [prDepth],
      by simp [prDepth]⟩
  | cls g items => intro _; exact ⟨by simp [prDepth], fun _ => by simp [prDepth], fun _ _ => by simp [prDepth],
      by simp [prDepth]⟩
  | vcls g op ops =>
    intro _
    exact ⟨by simp [prDepth, nest], fun _ => by simp [prDepth, nest], fun _ _ => by simp [prDepth, nest, termNest],
      by simp [prDepth, nest, atomNest]⟩
  | cat ns ih =>
    intro h
    simp only [isNF, Bool.and_eq_true] at h
    have := (ih h.1).1 h.2
    exact ⟨by simpa [prDepth, nest] using this, fun _ => by simpa [prDepth, nest] using this,
      fun hc => by simp [isCat] at hc, by simp only [prDepth, atomNest, nest]; omega⟩
  | alt ns ih =>
    intro h
    simp only [isNF, Bool.and_eq_true] at h
    have := (ih h.1).2 h.2
    exact ⟨by simpa [prDepth, nest] using this, fun ha => by simp [isAlt] at ha,
      fun _ _ => by simp only [prDepth, termNest, nest]; omega, by simp only [prDepth, atomNest, nest]; omega⟩
  | group i nm n ih =>
    intro h
    simp only [isNF] at h
    have := (ih h).disj
    exact ⟨by simp only [prDepth, nest]; omega, fun _ => by simp only [prDepth, nest]; omega,
      fun _ _ => by simp only [prDepth, nest, termNest]; omega, by simp only [prDepth, nest, atomNest]; omega⟩
  | nc n ih =>
    intro h
    simp only [isNF] at h
    have := (ih h).disj
    exact ⟨by simp only [prDepth, nest]; omega, fun _ => by simp only [prDepth, nest]; omega,
      fun _ _ => by simp only [prDepth, nest, termNest]; omega, by simp only [prDepth, nest, atomNest]; omega⟩
  | mod a r n ih =>
    intro h
    simp only [isNF] at h
    have := (ih h).disj
    exact ⟨by simp only [prDepth, nest]; omega, fun _ => by simp only [prDepth, nest]; omega,
      fun _ _ => by simp only [prDepth, nest, termNest]; omega, by simp only [prDepth, nest, atomNest]; omega⟩
  | look a g n ih =>
    intro h
    simp only [isNF] at h
    have := (ih h).disj
    exact ⟨by simp only [prDepth, nest]; omega, fun _ => by simp only [prDepth, nest]; omega,
      fun _ _ => by simp only [prDepth, nest, termNest]; omega, by simp only [prDepth, nest, atomNest]; omega⟩
  | quant mn mx g n ih =>
    intro h
    simp only [isNF] at h
    have := (ih h).atom
    have hq := nest_quant mn mx g n
    exact ⟨by simp only [prDepth]; omega, fun _ => by simp only [prDepth]; omega,
      fun _ _ => by simp only [prDepth, termNest]; omega, by simp only [prDepth, atomNest]; omega⟩
  | nil => exact ⟨fun _ => by simp [prDepthTerms], fun _ => by simp [prDepthAlts]⟩
  | cons a as iha ihas =>
    rename_i h
    simp only [isNFList, Bool.and_eq_true] at h
    have ha := iha h.1
    have hs := ihas h.2
    refine ⟨fun hall => ?_, fun hall => ?_⟩
    · simp only [List.all_cons, Bool.and_eq_true, Bool.not_eq_true'] at hall
      have h1 := ha.term hall.1.1 hall.1.2
      have h2 := hs.1 hall.2
      rw [nestCat_cons]
      simp only [prDepthTerms]
      omega
    · simp only [List.all_cons, Bool.and_eq_true, Bool.not_eq_true'] at hall
      have h1 := ha.alt hall.1
      have h2 := hs.2 hall.2
      simp only [prDepthAlts, nestList]
      omega

/-- On the normal form the printed text is no deeper than `Lower.nest` says. -/
theorem prDepth_le_nest (a : ES.Node) : prDepth .disj (normalize a) ≤ nest (normalize a) :=
  (depthOK _ (normalize_isNF a)).disj

/-! ## The lexical conditions survive normalization -/

theorem lexOKList_append (xs ys : List ES.Node) : lexOKList (xs ++ ys) = (lexOKList xs && lexOKList ys) := by
  induction xs with
  | nil => simp [lexOKList]
  | cons x xs ih => simp [lexOKList, ih, Bool.and_assoc]

theorem catItems_lex {m : ES.Node} (h : lexOK m = true) : lexOKList (catItems m) = true := by
  cases m <;> simp_all [catItems, lexOK, lexOKList]

theorem altItems_lex {m : ES.Node} (h : lexOK m = true) : lexOKList (altItems m) = true := by
  cases m <;> simp_all [altItems, lexOK, lexOKList]

theorem lexOK_normalize (n : ES.Node) : lexOK n = true → lexOK (normalize n) = true := by
  induction n using ES.Node.rec
    (motive_2 := fun ns => lexOKList ns = true →
      lexOKList (normCat ns) = true ∧ lexOKList (normAlt ns) = true) with
  | cat ns ih => intro h; simp only [lexOK] at h; simpa only [normalize, lexOK] using (ih h).1
  | alt ns ih => intro h; simp only [lexOK] at h; simpa only [normalize, lexOK] using (ih h).2
  | group i nm n ih =>
    intro h
    simp only [lexOK, Bool.and_eq_true] at h
    simp only [normalize, lexOK, Bool.and_eq_true]
    exact ⟨h.1, ih h.2⟩
  | nc n ih => intro h; simp only [lexOK] at h; simpa only [normalize, lexOK] using ih h
  | mod a r n ih => intro h; simp only [lexOK] at h; simpa only [normalize, lexOK] using ih h
  | look a g n ih => intro h; simp only [lexOK] at h; simpa only [normalize, lexOK] using ih h
  | quant mn mx g n ih => intro h; simp only [lexOK] at h; simpa only [normalize, lexOK] using ih h
  | nil => simp [normCat, normAlt, lexOKList]
  | cons a as iha ihas =>
    rename_i h
    simp only [lexOKList, Bool.and_eq_true] at h
    have h1 := iha h.1
    have h2 := ihas h.2
    simp only [normCat, normAlt, lexOKList_append, Bool.and_eq_true]
    exact ⟨⟨catItems_lex h1, h2.1⟩, altItems_lex h1, h2.2⟩
  | empty => intro h; exact h
  | char c => intro h; exact h
  | dot => intro h; exact h
  | bol => intro h; exact h
  | eol => intro h; exact h
  | wb => intro h; exact h
  | nwb => intro h; exact h
  | bref k => intro h; exact h
  | nref nm => intro h; exact h
  | esc e => intro h; exact h
  | prop g k nm => intro h; exact h
  | cls g items => intro h; exact h
  | vcls g op ops => intro h; exact h

/-! ## Class kinds -/

theorem applyMods_unicodeSets (fl : Flags) (m : Parse.Mods) : (applyMods fl m).unicodeSets = fl.unicodeSets := by
  simp only [applyMods]
  cases m.icase <;> cases m.multiline <;> cases m.dotAll <;> rfl

theorem lower_modeOK (P : ES.Node) (T : Nat) (n : ES.Node) :
    ∀ (fl : Flags) (pi : Nat) (x : Node), lowerNode P T n fl pi = .ok x → modeOK fl.unicodeSets n = true := by
  induction n using ES.Node.rec
    (motive_2 := fun ns => ∀ (fl : Flags) (pi : Nat) (xs : List Node),
      lowerList P T ns fl pi = .ok xs → modeOKList fl.unicodeSets ns = true) with
  | cat ns ih =>
    intro fl pi x h
    simp only [lowerNode] at h
    cases hl : lowerList P T ns fl pi with
    | error e => rw [hl] at h; cases h
    | ok xs => simpa only [modeOK] using ih fl pi xs hl
  | alt ns ih =>
    intro fl pi x h
    simp only [lowerNode] at h
    split at h
    · cases h
    · cases hl : lowerList P T ns fl pi with
      | error e => rw [hl] at h; cases h
      | ok xs => simpa only [modeOK] using ih fl pi xs hl
  | group i nm n ih =>
    intro fl pi x h
    simp only [lowerNode] at h
    cases hl : lowerNode P T n fl (pi + 1) with
    | error e => rw [hl] at h; cases h
    | ok c => simpa only [modeOK] using ih fl _ c hl
  | nc n ih =>
    intro fl pi x h
    simp only [lowerNode] at h
    simpa only [modeOK] using ih fl pi x h
  | mod a r n ih =>
    intro fl pi x h
    simp only [lowerNode] at h
    split at h
    · cases h
    · have := ih _ pi x h
      rw [applyMods_unicodeSets] at this
      simpa only [modeOK] using this
  | look a g n ih =>
    intro fl pi x h
    simp only [lowerNode] at h
    cases hl : lowerNode P T n fl pi with
    | error e => rw [hl] at h; cases h
    | ok c => simpa only [modeOK] using ih fl _ c hl
  | quant mn mx g n ih =>
    intro fl pi x h
    obtain ⟨_, _, _, body, hb, _⟩ := lowerQuant_inv h
    simpa only [modeOK] using ih fl pi body hb
  | cls g items =>
    intro fl pi x h
    simp only [lowerNode] at h
    split at h
    · cases h
    · next hv => simpa [modeOK] using hv
  | vcls g op ops =>
    intro fl pi x h
    simp only [lowerNode] at h
    split at h
    · cases h
    · next hv => simpa [modeOK] using hv
  | nil => rfl
  | cons a as iha ihas =>
    rename_i fl pi xs h
    obtain ⟨x, xs', hx, hxs, _⟩ := lowerList_cons' h
    simp only [modeOKList, Bool.and_eq_true]
    exact ⟨iha fl pi x hx, ihas fl _ xs' hxs⟩
  | empty => intro _ _ _ _; rfl
  | char c => intro _ _ _ _; rfl
  | dot => intro _ _ _ _; rfl
  | bol => intro _ _ _ _; rfl
  | eol => intro _ _ _ _; rfl
  | wb => intro _ _ _ _; rfl
  | nwb => intro _ _ _ _; rfl
  | bref k => intro _ _ _ _; rfl
  | nref nm => intro _ _ _ _; rfl
  | esc e => intro _ _ _ _; rfl
  | prop g k nm => intro _ _ _ _; rfl

end Regress.RoundTrip
