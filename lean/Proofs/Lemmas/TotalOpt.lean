import Proofs.Lemmas.TotalOpt3
/-!
# Totality of the optimizer: `optimize` never reaches a panic site and always terminates

Main results (the model of `optimizer::optimize` is `Regress.IR.optimize : Nat → Regex → Except OptErr Regex`;
`OptErr.dup _` / `.promoteEnclosedGroups` are the Rust panic sites, `.fuelFixpoint` / `.fuelOuter`
the model's fuel):

* `optimize_total`: for every `r` with `OptIn r.node` and every `fuel ≥ optFuel r.node`
  (`= wt U r.node + 1`, an explicit computable bound), `optimize fuel r = .ok r'` with `OptIn r'.node`,
  no empty `ByteSequence` in `r'`, the same number of groups and the same flags.
* `optimize_fuel_mono`: more fuel does not change an `.ok` result.
* `optimize_out`: what holds of the output tree (`OptOut`), for whatever fuel gave an `.ok` result.
-/
namespace Regress.IR

/-! ## `PassGood` for the seven passes -/

/-- Some UTF-8 text (the semantic part of `PassOK` is not used here). -/
def inp0 : VM.Input := { kind := .utf8, bytes := Utf8.text [], unicode := false }

theorem utf8Text0 : Utf8Text inp0 [] := ⟨rfl, rfl, by decide⟩

theorem passes0 : PassesOK (utf8Inv []) inp0 := C03.passes_preserve utf8Text0

theorem passGood_of {f : PassFn} {h : HW} (htot : ∀ n w, OptIn n → ∃ a, f n w = .ok a)
    (hok : PassOK (utf8Inv []) inp0 f) (hk : PassKeeps f lookP) (hm : PassMeas f h U) :
    PassGood OptIn h U f := by
  intro n w hn
  obtain ⟨a, ha⟩ := htot n w hn
  have h1 := hok n w a hn.1 ha
  have h2 := hm n w a ha
  exact ⟨a, ha, ⟨h1.1, hk n w a hn.2 ha⟩, h1.2.1, h2.1, h2.2⟩

theorem PassGood.and {Inv P : Node → Prop} {h U : HW} {f : PassFn} (hg : PassGood Inv h U f)
    (hk : PassKeeps f P) : PassGood (fun n => Inv n ∧ All P n) h U f := by
  intro n w hn
  obtain ⟨a, ha, h1, h2, h3, h4⟩ := hg n w hn.1
  exact ⟨a, ha, ⟨h1, hk n w a hn.2 ha⟩, h2, h3, h4⟩

theorem lookP_bracket (bc : Bracket) : lookP (.bracket bc) := trivial
theorem lookP_charSet (cs : List Nat) (_ : cs.length ≤ 4) : lookP (.charSet cs) := trivial
theorem setsP_bracket (bc : Bracket) : setsP (.bracket bc) := trivial
theorem setsP_charSet (cs : List Nat) (h : cs.length ≤ 4) : setsP (.charSet cs) := h

theorem simplifyBrackets_good : PassGood OptIn hSB U simplifyBrackets :=
  passGood_of (fun n w _ => simplifyBrackets_total n w) passes0.simplifyBrackets
    (simplifyBrackets_keeps lookP_bracket lookP_charSet) simplifyBrackets_meas

theorem decat_good : PassGood OptIn hDecat U decat :=
  passGood_of (fun n w _ => decat_total n w) passes0.decat (decat_keeps lookP_congr) decat_meas

theorem unrollLoops_good : PassGood OptIn hUnroll U unrollLoops :=
  passGood_of unrollLoops_total passes0.unrollLoops (unrollLoops_keeps lookP_congr) unrollLoops_meas

theorem promote1CharLoops_good : PassGood OptIn hPromote U promote1CharLoops :=
  passGood_of (fun n w hn => promote1CharLoops_total n w hn.1) passes0.promote1CharLoops
    (promote1CharLoops_keeps lookP_congr) promote1CharLoops_meas

theorem formLiteralBytes_good : PassGood OptIn hFLB U formLiteralBytes :=
  passGood_of (fun n w _ => formLiteralBytes_total n w) passes0.formLiteralBytes
    (formLiteralBytes_keeps lookP_congr (fun _ => trivial) (fun _ _ => trivial)) formLiteralBytes_meas

theorem removeEmpties_good : PassGood OptIn hSize U removeEmpties :=
  passGood_of (fun n w _ => removeEmpties_total n w) passes0.removeEmpties
    (removeEmpties_keeps lookP_congr) removeEmpties_meas

theorem propagateEarlyFails_good : PassGood OptIn hSize U propagateEarlyFails :=
  passGood_of (fun n w _ => propagateEarlyFails_total n w) passes0.propagateEarlyFails
    (propagateEarlyFails_keeps lookP_congr) propagateEarlyFails_meas

/-! ## A post-condition established by a walk: `remove_empties` leaves no empty `ByteSequence` -/

/-- `Q` holds of the children of the node. -/
def ChildrenAll (Q : Node → Prop) : Node → Prop
  | .cat ns => ∀ n ∈ ns, Q n
  | .alt l r => Q l ∧ Q r
  | .group _ _ c => Q c
  | .look _ _ _ _ c => Q c
  | .loop b _ _ _ => Q b
  | .loop1 b _ => Q b
  | _ => True

/-- If `Q` holds of the children, it holds of what the pass leaves behind. -/
def PassEstab (f : PassFn) (Q : Node → Prop) : Prop :=
  ∀ m w a, ChildrenAll Q m → f m w = .ok a → Q (a.result m)

mutual
theorem processPost_post {f : PassFn} {Q : Node → Prop} (hf : PassEstab f Q) :
    ∀ (n : Node) (w : Walk) (c : Bool) (n' : Node) (w' : Walk) (c' : Bool),
      processPost (passVisitor f) n w c = .ok (n', w', c') → Q n'
  | .cat ns, w, c, n', w', c', h => by
    rw [processPost_cat] at h
    obtain ⟨m, wm, cm, hr, hv⟩ := finish_ok h
    split at hr
    · cases hr
    · rename_i ns' w1 c1 heq
      cases hr
      obtain ⟨a, ha, rfl, _⟩ := passVisitor_ok hv
      exact hf _ _ a (processPostList_post hf ns _ _ _ _ _ heq) ha
  | .alt l r, w, c, n', w', c', h => by
    rw [processPost_alt] at h
    obtain ⟨m, wm, cm, hr, hv⟩ := finish_ok h
    split at hr
    · cases hr
    · rename_i l' w1 c1 heq1
      split at hr
      · cases hr
      · rename_i r' w2 c2 heq2
        cases hr
        obtain ⟨a, ha, rfl, _⟩ := passVisitor_ok hv
        exact hf _ _ a ⟨processPost_post hf l _ _ _ _ _ heq1, processPost_post hf r _ _ _ _ _ heq2⟩ ha
  | .loop b q g0 g1, w, c, n', w', c', h => by
    rw [processPost_loop] at h
    obtain ⟨m, wm, cm, hr, hv⟩ := finish_ok h
    split at hr
    · cases hr
    · rename_i b' w1 c1 heq
      cases hr
      obtain ⟨a, ha, rfl, _⟩ := passVisitor_ok hv
      exact hf _ _ a (processPost_post hf b _ _ _ _ _ heq) ha
  | .loop1 b q, w, c, n', w', c', h => by
    rw [processPost_loop1] at h
    obtain ⟨m, wm, cm, hr, hv⟩ := finish_ok h
    split at hr
    · cases hr
    · rename_i b' w1 c1 heq
      cases hr
      obtain ⟨a, ha, rfl, _⟩ := passVisitor_ok hv
      exact hf _ _ a (processPost_post hf b _ _ _ _ _ heq) ha
  | .group i nm b, w, c, n', w', c', h => by
    rw [processPost_group] at h
    obtain ⟨m, wm, cm, hr, hv⟩ := finish_ok h
    split at hr
    · cases hr
    · rename_i b' w1 c1 heq
      cases hr
      obtain ⟨a, ha, rfl, _⟩ := passVisitor_ok hv
      exact hf _ _ a (processPost_post hf b _ _ _ _ _ heq) ha
  | .look ng bw sg eg b, w, c, n', w', c', h => by
    rw [processPost_look] at h
    obtain ⟨m, wm, cm, hr, hv⟩ := finish_ok h
    split at hr
    · cases hr
    · rename_i b' w1 c1 heq
      cases hr
      obtain ⟨a, ha, rfl, _⟩ := passVisitor_ok hv
      exact hf _ _ a (processPost_post hf b _ _ _ _ _ heq) ha
  | .empty, w, c, n', w', c', h => by
    rw [processPost_leaf _ _ rfl] at h; obtain ⟨a, ha, rfl, _⟩ := passVisitor_ok h; exact hf _ _ a trivial ha
  | .goal, w, c, n', w', c', h => by
    rw [processPost_leaf _ _ rfl] at h; obtain ⟨a, ha, rfl, _⟩ := passVisitor_ok h; exact hf _ _ a trivial ha
  | .char _, w, c, n', w', c', h => by
    rw [processPost_leaf _ _ rfl] at h; obtain ⟨a, ha, rfl, _⟩ := passVisitor_ok h; exact hf _ _ a trivial ha
  | .byteSeq _, w, c, n', w', c', h => by
    rw [processPost_leaf _ _ rfl] at h; obtain ⟨a, ha, rfl, _⟩ := passVisitor_ok h; exact hf _ _ a trivial ha
  | .byteSet _, w, c, n', w', c', h => by
    rw [processPost_leaf _ _ rfl] at h; obtain ⟨a, ha, rfl, _⟩ := passVisitor_ok h; exact hf _ _ a trivial ha
  | .charSet _, w, c, n', w', c', h => by
    rw [processPost_leaf _ _ rfl] at h; obtain ⟨a, ha, rfl, _⟩ := passVisitor_ok h; exact hf _ _ a trivial ha
  | .matchAny, w, c, n', w', c', h => by
    rw [processPost_leaf _ _ rfl] at h; obtain ⟨a, ha, rfl, _⟩ := passVisitor_ok h; exact hf _ _ a trivial ha
  | .matchAnyExceptLT, w, c, n', w', c', h => by
    rw [processPost_leaf _ _ rfl] at h; obtain ⟨a, ha, rfl, _⟩ := passVisitor_ok h; exact hf _ _ a trivial ha
  | .anchor _ _, w, c, n', w', c', h => by
    rw [processPost_leaf _ _ rfl] at h; obtain ⟨a, ha, rfl, _⟩ := passVisitor_ok h; exact hf _ _ a trivial ha
  | .wordBoundary _ _, w, c, n', w', c', h => by
    rw [processPost_leaf _ _ rfl] at h; obtain ⟨a, ha, rfl, _⟩ := passVisitor_ok h; exact hf _ _ a trivial ha
  | .backRef _ _, w, c, n', w', c', h => by
    rw [processPost_leaf _ _ rfl] at h; obtain ⟨a, ha, rfl, _⟩ := passVisitor_ok h; exact hf _ _ a trivial ha
  | .bracket _, w, c, n', w', c', h => by
    rw [processPost_leaf _ _ rfl] at h; obtain ⟨a, ha, rfl, _⟩ := passVisitor_ok h; exact hf _ _ a trivial ha
  | .stringSet _ _, w, c, n', w', c', h => by
    rw [processPost_leaf _ _ rfl] at h; obtain ⟨a, ha, rfl, _⟩ := passVisitor_ok h; exact hf _ _ a trivial ha
theorem processPostList_post {f : PassFn} {Q : Node → Prop} (hf : PassEstab f Q) :
    ∀ (ns : List Node) (w : Walk) (c : Bool) (ns' : List Node) (w' : Walk) (c' : Bool),
      processPostList (passVisitor f) ns w c = .ok (ns', w', c') → ∀ n ∈ ns', Q n
  | [], w, c, ns', w', c', h => by
    rw [processPostList_nil] at h; cases h; intro n hn; cases hn
  | n :: ns, w, c, ns', w', c', h => by
    rw [processPostList_cons] at h
    split at h
    · cases h
    · rename_i n1 w1 c1 heq1
      split at h
      · cases h
      · rename_i ns1 w2 c2 heq2
        cases h
        intro x hx
        rcases List.mem_cons.1 hx with rfl | hx
        · exact processPost_post hf n _ _ _ _ _ heq1
        · exact processPostList_post hf ns _ _ _ _ _ heq2 x hx
end

/-- The result of `run_to_fixpoint` is the result of its last walk. -/
theorem runToFixpoint_post {f : PassFn} {Q : Node → Prop} (hf : PassEstab f Q) (unicode : Bool) :
    ∀ (fuel : Nat) (n n' : Node) (c : Bool), runToFixpoint f unicode fuel n = .ok (n', c) → Q n' := by
  intro fuel
  induction fuel with
  | zero => intro n n' c h; simp [runToFixpoint] at h
  | succ k ih =>
    intro n n' c h
    unfold runToFixpoint at h
    split at h
    · cases h
    · rename_i n1 c1 e
      split at h
      · cases h
        unfold runPostorder walkMutPost at e
        split at e
        · cases e
        · rename_i n2 w2 c2 heq
          cases e
          exact processPost_post hf _ _ _ _ _ _ heq
      · exact ih _ _ _ h

theorem All_of_children {P : Node → Prop} {m : Node} (hc : ChildrenAll (All P) m) (hp : P m) : All P m := by
  cases m <;> first
    | exact hp
    | exact ⟨hp, hc⟩
    | exact ⟨hp, (AllList_iff _ _).2 hc⟩

theorem removeEmpties_estab : PassEstab removeEmpties (All noesP) := by
  intro m w a hc h
  unfold removeEmpties at h
  split at h
  all_goals try (cases h; exact All_of_children hc trivial)
  · rename_i v
    split at h
    · cases h; exact trivial
    · rename_i hv
      cases h
      show v ≠ []
      intro e; subst e; simp at hv
  · rename_i nodes
    dsimp only at h
    have hf : ∀ n ∈ nodes.filter (fun nn => !nn.isEmpty), All noesP n :=
      fun n hn => hc n (List.mem_filter.1 hn).1
    split at h
    · cases h; exact All_of_children hc trivial
    · split at h
      · cases h; exact trivial
      · rename_i x heq; cases h; rw [heq] at hf; exact hf x (List.mem_cons_self ..)
      · cases h; exact ⟨trivial, (AllList_iff _ _).2 hf⟩
  · split at h
    · cases h; exact trivial
    · cases h; exact All_of_children hc trivial
  · split at h
    · cases h; exact trivial
    · cases h; exact All_of_children hc trivial
  · split at h
    · cases h; exact trivial
    · cases h; exact All_of_children hc trivial

/-! ## The pipeline -/

/-- **The explicit fuel bound**: `wt U n + 1`, where `U` counts 2 per node (plus the number of
intervals of a bracket) and `(min + 1) * (body + 2)` for a loop with `min ≤ LOOP_UNROLL_THRESHOLD`. -/
def optFuel (n : Node) : Nat := wt U n + 1

theorem runPass_good {Inv : Node → Prop} {h : HW} {f : PassFn} (hI : InvCongr Inv) (hh : h.Mono)
    (hle : h.Le U) (hf : PassGood Inv h U f) (fuel : Nat) (r : Regex) (hr : Inv r.node)
    (hfuel : wt U r.node < fuel) :
    ∃ r', runPass f fuel r = .ok (r', false) ∧ Inv r'.node ∧ numGroups r'.node = numGroups r.node ∧
      wt U r'.node ≤ wt U r.node ∧ r'.flags = r.flags := by
  have := wt_le hle r.node
  obtain ⟨n', e, h1, h2, h3⟩ := runToFixpoint_good hI hh U_mono hf r.flags.unicode fuel r.node hr (by omega)
  exact ⟨{ r with node := n' }, by simp only [runPass, e], h1, h2, h3, rfl⟩

theorem runPass_post {f : PassFn} {Q : Node → Prop} (hf : PassEstab f Q) {fuel : Nat} {r r' : Regex} {c : Bool}
    (h : runPass f fuel r = .ok (r', c)) : Q r'.node := by
  unfold runPass at h
  split at h
  · cases h
  · rename_i n c1 e
    cases h
    exact runToFixpoint_post hf _ _ _ _ _ e

/-- What the pipeline needs of an invariant. -/
structure Pipeline (Inv : Node → Prop) : Prop where
  congr : InvCongr Inv
  sb : PassGood Inv hSB U simplifyBrackets
  decat : PassGood Inv hDecat U decat
  unroll : PassGood Inv hUnroll U unrollLoops
  promote : PassGood Inv hPromote U promote1CharLoops
  flb : PassGood Inv hFLB U formLiteralBytes
  re : PassGood Inv hSize U removeEmpties
  pef : PassGood (fun n => Inv n ∧ All noesP n) hSize U propagateEarlyFails

theorem optimize_good {Inv : Node → Prop} (hp : Pipeline Inv) (r : Regex) (hr : Inv r.node) (fuel : Nat)
    (hfuel : wt U r.node < fuel) :
    ∃ r', optimize fuel r = .ok r' ∧ Inv r'.node ∧ All noesP r'.node ∧
      numGroups r'.node = numGroups r.node ∧ wt U r'.node ≤ wt U r.node ∧ r'.flags = r.flags := by
  obtain ⟨r0, e0, a1, a2, a3, a4⟩ := runPass_good hp.congr hSB_mono hSB_le hp.sb fuel r hr hfuel
  obtain ⟨r1, e1, b1, b2, b3, b4⟩ := runPass_good hp.congr hDecat_mono hDecat_le hp.decat fuel r0 a1 (by omega)
  obtain ⟨r2, e2, c1, c2, c3, c4⟩ := runPass_good hp.congr hUnroll_mono hUnroll_le hp.unroll fuel r1 b1 (by omega)
  obtain ⟨r3, e3, d1, d2, d3, d4⟩ := runPass_good hp.congr hPromote_mono hPromote_le hp.promote fuel r2 c1 (by omega)
  obtain ⟨r4, e4, f1, f2, f3, f4⟩ := runPass_good hp.congr hFLB_mono hFLB_le hp.flb fuel r3 d1 (by omega)
  obtain ⟨r5, e5, g1, g2, g3, g4⟩ := runPass_good hp.congr hSize_mono hSize_le hp.re fuel r4 f1 (by omega)
  have g5 : All noesP r5.node := runPass_post removeEmpties_estab e5
  obtain ⟨r6, e6, i1, i2, i3, i4⟩ := runPass_good (InvCongr.and hp.congr (All_invCongr noesP_congr))
    hSize_mono hSize_le hp.pef fuel r5 ⟨g1, g5⟩ (by omega)
  refine ⟨r6, ?_, i1.1, i1.2, by omega, by omega, ?_⟩
  · obtain ⟨k, rfl⟩ : ∃ k, fuel = k + 1 := ⟨fuel - 1, by omega⟩
    unfold optimize
    rw [e0]
    simp only []
    rw [optimizeLoop_once]
    unfold optimizeRound
    rw [e1]; simp only []
    rw [e2]; simp only []
    rw [e3]; simp only []
    rw [e4]; simp only []
    rw [e5]; simp only []
    rw [e6]
  · rw [i4, g4, f4, d4, c4, b4, a4]

theorem pipeline_optIn : Pipeline OptIn where
  congr := OptIn_invCongr
  sb := simplifyBrackets_good
  decat := decat_good
  unroll := unrollLoops_good
  promote := promote1CharLoops_good
  flb := formLiteralBytes_good
  re := removeEmpties_good
  pef := propagateEarlyFails_good.and (propagateEarlyFails_keeps noesP_congr)

theorem pipeline_sets : Pipeline (fun n => OptIn n ∧ All setsP n) where
  congr := InvCongr.and OptIn_invCongr (All_invCongr setsP_congr)
  sb := simplifyBrackets_good.and (simplifyBrackets_keeps setsP_bracket setsP_charSet)
  decat := decat_good.and (decat_keeps setsP_congr)
  unroll := unrollLoops_good.and (unrollLoops_keeps setsP_congr)
  promote := promote1CharLoops_good.and (promote1CharLoops_keeps setsP_congr)
  flb := formLiteralBytes_good.and (formLiteralBytes_keeps setsP_congr (fun _ => trivial) (fun _ h => h))
  re := removeEmpties_good.and (removeEmpties_keeps setsP_congr)
  pef := by
    have h1 := (propagateEarlyFails_good.and (propagateEarlyFails_keeps setsP_congr)).and
      (propagateEarlyFails_keeps noesP_congr)
    exact h1

/-! ## Fuel monotonicity -/

theorem runPass_mono {f : PassFn} {fuel fuel' : Nat} {r : Regex} {x : Regex × Bool}
    (h : runPass f fuel r = .ok x) (hle : fuel ≤ fuel') : runPass f fuel' r = .ok x := by
  unfold runPass at h ⊢
  split at h
  · cases h
  · rename_i n c e
    rw [runToFixpoint_mono f _ fuel fuel' _ _ e hle]
    exact h

theorem optimizeRound_mono {fuel fuel' : Nat} {r : Regex} {x : Regex × Bool}
    (h : optimizeRound fuel r = .ok x) (hle : fuel ≤ fuel') : optimizeRound fuel' r = .ok x := by
  unfold optimizeRound at h
  repeat' split at h
  all_goals try (simp at h; done)
  rename_i _ r1 c1 h1 _ r2 c2 h2 _ r3 c3 h3 _ r4 c4 h4 _ r5 c5 h5 _ r6 c6 h6
  unfold optimizeRound
  rw [runPass_mono h1 hle]; simp only []
  rw [runPass_mono h2 hle]; simp only []
  rw [runPass_mono h3 hle]; simp only []
  rw [runPass_mono h4 hle]; simp only []
  rw [runPass_mono h5 hle]; simp only []
  rw [runPass_mono h6 hle]
  exact h

/-- **More fuel does not change an `.ok` result of `optimize`.** -/
theorem optimize_fuel_mono {fuel fuel' : Nat} {r r' : Regex} (h : optimize fuel r = .ok r') (hle : fuel ≤ fuel') :
    optimize fuel' r = .ok r' := by
  unfold optimize at h ⊢
  split at h
  · cases h
  · rename_i r1 c1 e
    rw [runPass_mono e hle]
    simp only []
    cases fuel with
    | zero => simp [optimizeLoop] at h
    | succ k =>
      obtain ⟨k', rfl⟩ : ∃ k', fuel' = k' + 1 := ⟨fuel' - 1, by omega⟩
      rw [optimizeLoop_once] at h ⊢
      split at h
      · cases h
      · rename_i r2 c2 e2
        rw [optimizeRound_mono e2 hle]
        exact h

/-! ## The theorems -/

/-- What holds of the output of `optimize`: `OptIn` (hence `WF`: quantifiers, group ranges of loops,
well-formed brackets, byte sequences are UTF-8, byte sets ASCII; and the group ranges of look-arounds),
`CharSet`/`ByteSet` have at most 4 elements, no `ByteSequence` is empty. -/
def OptOut (n : Node) : Prop := OptIn n ∧ All setsP n ∧ All noesP n

/-- Executable version of `OptOut`. -/
def optOutB (n : Node) : Bool := optInB n && allB setsB n && allB noesB n

theorem optOutB_sound {n : Node} (h : optOutB n = true) : OptOut n := by
  simp only [optOutB, Bool.and_eq_true] at h
  exact ⟨optInB_sound h.1.1, allB_sound setsB_sound n h.1.2, allB_sound noesB_sound n h.2⟩

/-- **`optimize` is total.** On a tree that satisfies `OptIn` (what the parser guarantees), with
at least `optFuel` units of fuel, the model of `optimizer::optimize` returns `.ok`: neither a panic
site (`try_duplicate`'s three, `promote_1char_loops`' assert) nor the end of the fuel of a
`run_to_fixpoint` or of the outer loop is reached. The output satisfies `OptIn` again, contains no
empty `ByteSequence`, has the same capture groups and flags, and is not heavier than the input. -/
theorem optimize_total (r : Regex) (h : OptIn r.node) (fuel : Nat) (hf : optFuel r.node ≤ fuel) :
    ∃ r', optimize fuel r = .ok r' ∧ OptIn r'.node ∧ All noesP r'.node ∧
      numGroups r'.node = numGroups r.node ∧ wt U r'.node ≤ wt U r.node ∧ r'.flags = r.flags :=
  optimize_good pipeline_optIn r h fuel (by unfold optFuel at hf; omega)

/-- The same result for every sufficient fuel. -/
theorem optimize_total' (r : Regex) (h : OptIn r.node) :
    ∃ r', ∀ fuel, optFuel r.node ≤ fuel → optimize fuel r = .ok r' := by
  obtain ⟨r', e, _⟩ := optimize_total r h (optFuel r.node) (Nat.le_refl _)
  exact ⟨r', fun fuel hf => optimize_fuel_mono e hf⟩

/-- No panic and no `fuelOuter`, whatever the fuel: the only error `optimize` can return on an
`OptIn` tree is `fuelFixpoint`, and only below `optFuel`. -/
theorem optimize_ok_of_fuel (r : Regex) (h : OptIn r.node) (fuel : Nat) (hf : optFuel r.node ≤ fuel) :
    ∃ r', optimize fuel r = .ok r' :=
  let ⟨r', e, _⟩ := optimize_total r h fuel hf; ⟨r', e⟩

/-- **The output of `optimize`** (for whatever fuel gave an `.ok` result): if moreover every
`CharSet`/`ByteSet` of the input has at most 4 elements, the output satisfies `OptOut`. -/
theorem optimize_out {fuel : Nat} {r r' : Regex} (h : OptIn r.node) (hs : All setsP r.node)
    (he : optimize fuel r = .ok r') :
    OptOut r'.node ∧ numGroups r'.node = numGroups r.node ∧ r'.flags = r.flags := by
  obtain ⟨r'', e, h1, h2, h3, _, h5⟩ :=
    optimize_good pipeline_sets r ⟨h, hs⟩ (max fuel (optFuel r.node))
      (by unfold optFuel; omega)
  have e' := optimize_fuel_mono he (Nat.le_max_left fuel (optFuel r.node))
  rw [e] at e'
  cases e'
  exact ⟨⟨h1.1, h1.2, h2⟩, h3, h5⟩

/-! ## Non-vacuity -/

/-- The parser's IR of `/(?=(a))(?:a|[bc]){2,3}é/` (`Regress.Parse.parse`, evaluated): a look-ahead with a capture
group, a loop that `unroll_loops` unrolls, a bracket, a non-ASCII literal. -/
def exTree : Node :=
  .cat [.cat [.look false false 0 1 (.group 0 none (.char 97)),
    .loop (.alt (.char 97) (.bracket { invert := false, ivs := [(98, 99)] })) { min := 2, max := some 3, greedy := true } 1 1,
    .char 233], .goal]

example : OptIn exTree := optInB_sound (by decide)
example : All setsP exTree := allB_sound setsB_sound _ (by decide)
example : optFuel exTree = 42 := by decide

/-- A look-around whose group range is wrong is rejected by the checker. -/
example : optInB (.look false false 0 0 (.group 0 none (.char 97))) = false := by decide

/-- An output-shaped tree satisfying `OptOut`. -/
example : OptOut (.cat [.cat [.alt (.byteSeq [0x61]) (.byteSet [0x62, 0x63]), .alt (.byteSeq [0x61]) (.byteSet [0x62, 0x63]),
    .loop (.alt (.byteSeq [0x61]) (.byteSet [0x62, 0x63])) ⟨0, some 1, true⟩ 0 0], .byteSeq [0xC3, 0xA9], .goal]) :=
  optOutB_sound (by decide)

end Regress.IR
