import Proofs.Lemmas.SemGood
import Proofs.Lemmas.SemLiteral
import Proofs.Lemmas.Utf16
import Proofs.C10
import RegressModel.IR.Sem16
/-!
# The primitives of `sem16` on well-formed text

`Utf16Text inp16 cs`: the `u16` input holds the UTF-16 encoding of the scalar values `cs`, read by
`Utf16Input`, or by `Ucs2Input` when all of `cs` are in the BMP.  `to16 cs` translates a UTF-8
boundary of `text cs` to the UTF-16 boundary of the same char index.  Every primitive that `sem16`
uses gives, at `to16 cs p`, the `to16 cs`-image of what the UTF-8 primitive gives at `p`.
-/
namespace Regress.IR

open Regress.VM Regress
open Regress.Utf16 (off16 text16 encodeAll16 encode16)

/-- The input is the UTF-16 encoding of the scalar values `cs` (read pair-wise, or unit-wise if there
is no pair to read). -/
structure Utf16Text (inp : Input16) (cs : List Nat) : Prop where
  units : inp.units = text16 cs
  scalar : Utf8.AllScalar cs
  kind : inp.ucs2 = false ∨ ∀ c ∈ cs, c < 0x10000

/-- Char index of the UTF-8 boundary `p` of `text cs`. -/
def idx8 : List Nat → Nat → Nat
  | [], _ => 0
  | c :: cs, p => if p < (Utf8.encode c).length then 0 else idx8 cs (p - (Utf8.encode c).length) + 1

/-- The UTF-16 offset of the char boundary whose UTF-8 offset is `p`. -/
def to16 (cs : List Nat) (p : Nat) : Nat := off16 cs (idx8 cs p)

theorem idx8_off (cs : List Nat) : ∀ {k : Nat}, k ≤ cs.length → idx8 cs (Utf8.off cs k) = k := by
  induction cs with
  | nil => intro k hk; simp at hk; subst hk; rfl
  | cons c cs ih =>
    intro k hk
    cases k with
    | zero =>
      have := Utf8.encode_length_pos c
      simp [idx8, Utf8.off, this]
    | succ k =>
      have hoff : Utf8.off (c :: cs) (k + 1) = (Utf8.encode c).length + Utf8.off cs k := by
        simp [Utf8.off, Utf8.encodeAll]
      have hk' : k ≤ cs.length := by simpa using hk
      rw [hoff]
      simp only [idx8]
      rw [if_neg (by omega), Nat.add_sub_cancel_left, ih hk']

theorem to16_off (cs : List Nat) {k : Nat} (hk : k ≤ cs.length) : to16 cs (Utf8.off cs k) = off16 cs k := by
  simp only [to16, idx8_off cs hk]

theorem to16_zero (cs : List Nat) : to16 cs 0 = 0 := by
  have := to16_off cs (Nat.zero_le cs.length)
  simpa [Utf8.off] using this

theorem to16_eq_iff {cs : List Nat} {a b : Nat} (ha : AtBoundary cs a) (hb : AtBoundary cs b) :
    to16 cs a = to16 cs b ↔ a = b := by
  obtain ⟨i, hi, rfl⟩ := ha
  obtain ⟨j, hj, rfl⟩ := hb
  rw [to16_off cs hi, to16_off cs hj]
  constructor
  · intro h; rw [Utf16.off16_injective hi hj h]
  · intro h; rw [Utf8.off_injective hi hj h]

theorem to16_lt_iff {cs : List Nat} {a b : Nat} (ha : AtBoundary cs a) (hb : AtBoundary cs b) :
    to16 cs a < to16 cs b ↔ a < b := by
  obtain ⟨i, hi, rfl⟩ := ha
  obtain ⟨j, hj, rfl⟩ := hb
  rw [to16_off cs hi, to16_off cs hj, Utf16.off16_lt_iff hi hj, Utf8.off_lt_iff hi hj]

theorem atBoundary_zero (cs : List Nat) : AtBoundary cs 0 := ⟨0, Nat.zero_le _, by simp [Utf8.off]⟩

/-! ## The decoders -/

section
variable {inp : Input16} {cs : List Nat}

theorem Utf16Text.len (h : Utf16Text inp cs) : inp.len = (text16 cs).size := by
  simp [Input16.len, h.units]

theorem bmp_no_surrogate (hs : Utf8.AllScalar cs) (hb : ∀ c ∈ cs, c < 0x10000) :
    ∀ u ∈ text16 cs, Utf16.isSurrogate u = false := by
  intro u hu
  have hu' : u ∈ encodeAll16 cs := by simpa [text16] using hu
  simp only [encodeAll16, List.mem_flatMap] at hu'
  obtain ⟨c, hc, huc⟩ := hu'
  have h1 := hb c hc
  have h2 := hs c hc
  simp only [encode16, h1, if_true, List.mem_singleton] at huc
  subst huc
  simp only [Utf8.isScalar, Bool.or_eq_true, Bool.and_eq_true, decide_eq_true_eq] at h2
  simp only [Utf16.isSurrogate, Bool.and_eq_false_iff, decide_eq_false_iff_not]
  omega

theorem Utf16Text.nextRight_eq (h : Utf16Text inp cs) {p : Nat} (hp : p ≤ (text16 cs).size) :
    inp.nextRight p = Utf16.nextRight (text16 cs) p := by
  unfold Input16.nextRight
  rw [h.units]
  rcases h.kind with hk | hb
  · simp [hk]
  · split
    · exact (Utf16.ucs2_eq_utf16_on_bmp (bmp_no_surrogate h.scalar hb) p hp).1
    · rfl

theorem Utf16Text.nextLeft_eq (h : Utf16Text inp cs) {p : Nat} (hp : p ≤ (text16 cs).size) :
    inp.nextLeft p = Utf16.nextLeft (text16 cs) p := by
  unfold Input16.nextLeft
  rw [h.units]
  rcases h.kind with hk | hb
  · simp [hk]
  · split
    · exact (Utf16.ucs2_eq_utf16_on_bmp (bmp_no_surrogate h.scalar hb) p hp).2.1
    · rfl

theorem Utf16Text.nextRightPos_eq (h : Utf16Text inp cs) {p : Nat} (hp : p ≤ (text16 cs).size) :
    inp.nextRightPos p = Utf16.nextRightPos (text16 cs) p := by
  unfold Input16.nextRightPos
  rw [h.units]
  rcases h.kind with hk | hb
  · simp [hk]
  · split
    · exact (Utf16.ucs2_eq_utf16_on_bmp (bmp_no_surrogate h.scalar hb) p hp).2.2.1
    · rfl

theorem Utf16Text.nextLeftPos_eq (h : Utf16Text inp cs) {p : Nat} (hp : p ≤ (text16 cs).size) :
    inp.nextLeftPos p = Utf16.nextLeftPos (text16 cs) p := by
  unfold Input16.nextLeftPos
  rw [h.units]
  rcases h.kind with hk | hb
  · simp [hk]
  · split
    · exact (Utf16.ucs2_eq_utf16_on_bmp (bmp_no_surrogate h.scalar hb) p hp).2.2.2
    · rfl

theorem next16_fwd_at (h : Utf16Text inp cs) {k : Nat} (hk : k < cs.length) :
    inp.next true (off16 cs k) = some (cs[k], off16 cs (k + 1)) := by
  simp only [Input16.next, if_true]
  rw [h.nextRight_eq (Utf16.off16_le_size cs k)]
  exact Utf16.nextRight_roundtrip h.scalar hk

theorem next16_fwd_end (h : Utf16Text inp cs) : inp.next true (off16 cs cs.length) = none := by
  simp only [Input16.next, if_true]
  rw [h.nextRight_eq (Utf16.off16_le_size cs _)]
  exact Utf16.nextRight_roundtrip_end cs

theorem next16_bwd_at (h : Utf16Text inp cs) {k : Nat} (hk0 : 0 < k) (hk : k ≤ cs.length) :
    inp.next false (off16 cs k) = some (cs[k - 1]'(by omega), off16 cs (k - 1)) := by
  simp only [Input16.next, Bool.false_eq_true, if_false]
  rw [h.nextLeft_eq (Utf16.off16_le_size cs k)]
  exact Utf16.nextLeft_roundtrip h.scalar hk0 hk

theorem next16_bwd_start (h : Utf16Text inp cs) : inp.next false (off16 cs 0) = none := by
  simp only [Input16.next, Bool.false_eq_true, if_false]
  rw [h.nextLeft_eq (Utf16.off16_le_size cs 0)]
  exact Utf16.nextLeft_roundtrip_start cs

theorem nextPos16_fwd_at (h : Utf16Text inp cs) {k : Nat} (hk : k < cs.length) :
    inp.nextPos true (off16 cs k) = some (off16 cs (k + 1)) := by
  simp only [Input16.nextPos, if_true]
  rw [h.nextRightPos_eq (Utf16.off16_le_size cs k)]
  exact Utf16.nextRightPos_roundtrip h.scalar hk

theorem nextPos16_bwd_at (h : Utf16Text inp cs) {k : Nat} (hk0 : 0 < k) (hk : k ≤ cs.length) :
    inp.nextPos false (off16 cs k) = some (off16 cs (k - 1)) := by
  simp only [Input16.nextPos, Bool.false_eq_true, if_false]
  rw [h.nextLeftPos_eq (Utf16.off16_le_size cs k)]
  exact Utf16.nextLeftPos_roundtrip h.scalar hk0 hk

end

/-! ## Both inputs hold the same text -/

/-- `inp8` and `inp16` hold the same scalar values `cs` (as UTF-8 resp. UTF-16 / UCS-2) and have
the same `unicode` flag. -/
structure SameText (inp8 : Input) (inp16 : Input16) (cs : List Nat) : Prop where
  t8 : Utf8Text inp8 cs
  t16 : Utf16Text inp16 cs
  unicode : inp16.unicode = inp8.unicode

section
variable {inp8 : Input} {inp16 : Input16} {cs : List Nat}

/-- `cursor::next` at corresponding boundaries: the same element, corresponding new positions. -/
theorem next_to16 (h : SameText inp8 inp16 cs) (fwd : Bool) {p : Nat} (hb : AtBoundary cs p) :
    inp16.next fwd (to16 cs p) =
      match Cursor.next inp8 fwd p with
      | .ok (some (c, e)) => some (c, to16 cs e)
      | _ => none := by
  obtain ⟨k, hk, rfl⟩ := hb
  rw [to16_off cs hk]
  cases fwd
  · by_cases h0 : 0 < k
    · rw [next_bwd_at h.t8 h0 hk, next16_bwd_at h.t16 h0 hk]
      simp only [to16_off cs (show k - 1 ≤ cs.length by omega)]
    · have : k = 0 := by omega
      subst this
      rw [next_bwd_start h.t8, next16_bwd_start h.t16]
  · by_cases hlt : k < cs.length
    · rw [next_fwd_at h.t8 hlt, next16_fwd_at h.t16 hlt]
      simp only [to16_off cs (show k + 1 ≤ cs.length by omega)]
    · have : k = cs.length := by omega
      subst this
      rw [next_fwd_end h.t8, next16_fwd_end h.t16]

theorem charStep_to16 (h : SameText inp8 inp16 cs) (fwd : Bool) {p : Nat} (hb : AtBoundary cs p) (t : Nat → Bool) :
    charStep16 inp16 fwd (to16 cs p) t = (charStep inp8 fwd p t).map (to16 cs) := by
  rw [charStep16, charStep, next_to16 h fwd hb]
  rcases Cursor.next inp8 fwd p with _ | (_ | ⟨c, e⟩)
  · rfl
  · rfl
  · simp only []
    split <;> rfl

theorem peekRight_to16 (h : SameText inp8 inp16 cs) {p : Nat} (hb : AtBoundary cs p) :
    inp16.peekRight (to16 cs p) = match inp8.peekRight p with | .ok r => r | .error _ => none := by
  have := next_to16 h true hb
  simp only [Input16.next, Cursor.next, if_true] at this
  rw [Input16.peekRight, Input.peekRight, this]
  rcases inp8.nextRight p with _ | (_ | ⟨c, e⟩) <;> rfl

theorem peekLeft_to16 (h : SameText inp8 inp16 cs) {p : Nat} (hb : AtBoundary cs p) :
    inp16.peekLeft (to16 cs p) = match inp8.peekLeft p with | .ok r => r | .error _ => none := by
  have := next_to16 h false hb
  simp only [Input16.next, Cursor.next, Bool.false_eq_true, if_false] at this
  rw [Input16.peekLeft, Input.peekLeft, this]
  rcases inp8.nextLeft p with _ | (_ | ⟨c, e⟩) <;> rfl

end

end Regress.IR
