import Proofs.Lemmas.C08FragSim
/-!
# C08 fragment equivalence, part 4: the pre-scan, `try_parse`, `esValid`

* `parseCaptureGroups_frag`: on the fragment the capture-group pre-scan succeeds and finds no name.
* `parse_isOk_iff`: `parse` answers `Ok` iff the descent consumes the whole pattern.
* `esCore_iff`: `parsePattern` answers `ok` iff `disj` consumes the whole pattern.
* `frag_equiv`: both, joined by the simulation `sim_all`.
-/
namespace Regress.C08Frag
open Regress Regress.IR Regress.Parse Regress.ESG

/-! ## The pre-scan -/

theorem isIdStart_eq : Parse.isIdStart 0x3D = false := by decide +kernel
theorem isIdStart_bang : Parse.isIdStart 0x21 = false := by decide +kernel

/-- After `(?` the fragment never has a group name. -/
theorem tryConsumeName_frag {rest2 : List Nat} (h : parenOk (0x3F :: rest2) = true) :
    ∃ rest3, tryConsumeName rest2 = .ok (none, rest3) ∧ (rest3 = rest2 ∨ rest2 = 0x3C :: rest3) := by
  rcases rest2 with _ | ⟨y, r⟩
  · exact ⟨[], rfl, .inl rfl⟩
  · by_cases hy : y = 0x3C
    · subst hy
      rcases r with _ | ⟨z, r'⟩
      · simp [parenOk] at h
      · simp only [parenOk, Bool.or_eq_true, beq_iff_eq] at h
        refine ⟨z :: r', ?_, .inr rfl⟩
        rcases h with rfl | rfl
        · simp [tryConsumeName, Parse.nameChar, Parse.isChar, isIdStart_eq]
        · simp [tryConsumeName, Parse.nameChar, Parse.isChar, isIdStart_bang]
    · refine ⟨y :: r, ?_, .inl rfl⟩
      unfold tryConsumeName
      split
      · rename_i heq; cases heq; exact absurd rfl hy
      · rfl

theorem capOpens_nil : capOpens [] = 0 := capGo_nil false

theorem capOpens_bs_end : capOpens [0x5C] = 0 := by
  unfold capOpens
  rw [capGo] <;> simp [capGo_nil]

/-- The pre-scan's `skipBracket` is the scanners' in-class mode. -/
theorem skipBracket_scan (e k : Bool) (rest : List Nat) :
    capGo true rest = capGo false (skipBracket rest) ∧
    (fragGo e k true rest = true → fragGo e k false (skipBracket rest) = true) := by
  fun_induction skipBracket rest with
  | case1 => exact ⟨by rw [capGo_nil, capGo_nil], fun _ => by rw [fragGo]⟩
  | case2 c hc =>
    have : c = 0x5C := by simpa using hc
    subst this
    refine ⟨?_, fun _ => by rw [fragGo]⟩
    rw [capGo_nil, capGo] <;> simp [capGo_nil]
  | case3 c hc x r ih =>
    have : c = 0x5C := by simpa using hc
    subst this
    refine ⟨by rw [capGo_esc]; exact ih.1, fun h => ?_⟩
    rw [fragGo_esc_in, Bool.and_eq_true] at h
    exact ih.2 h.2
  | case4 c rest h1 h2 =>
    have hc : c = 0x5D := by simpa using h2
    subst hc
    exact ⟨capGo_close rest, fun h => by rwa [fragGo_close] at h⟩
  | case5 c rest h1 h2 ih =>
    have hc1 : c ≠ 0x5C := by simpa using h1
    have hc2 : c ≠ 0x5D := by simpa using h2
    exact ⟨by rw [capGo_in rest hc1 hc2]; exact ih.1, fun h => ih.2 (by rwa [fragGo_in e k rest hc1 hc2] at h)⟩

/-- On the fragment the pre-scan finds no name and counts `capOpens` (saturating at
`MAX_CAPTURE_GROUPS`). -/
theorem scanLoop_frag (e k : Bool) (fl : Flags) (hkv : k = true → fl.unicodeSets = false) :
    ∀ (fuel : Nat) (inp : List Nat) (sc : Scan),
    fragCore e k inp = true → inp.length < fuel → sc.locs = [] → sc.gmax ≤ Gen.MAX_CAPTURE_GROUPS →
    ∃ sc', scanLoop fl fuel inp sc = .ok sc' ∧ sc'.locs = [] ∧ sc'.named = sc.named ∧
      sc'.gmax = min (sc.gmax + capOpens inp) Gen.MAX_CAPTURE_GROUPS := by
  intro fuel
  induction fuel with
  | zero => intro inp sc _ hf; omega
  | succ fuel ih =>
    intro inp sc hfr hf hl hgm
    unfold scanLoop
    rcases inp with _ | ⟨c, rest⟩
    · exact ⟨sc, rfl, hl, rfl, by rw [capOpens_nil]; omega⟩
    · simp only [List.length_cons] at hf
      by_cases hc1 : c = 0x5C
      · -- an escape: the next character is skipped
        subst hc1
        simp only [beq_self_eq_true, if_true]
        rcases rest with _ | ⟨x, r⟩
        · rw [capOpens_bs_end]
          exact ih [] sc rfl (by simp; omega) hl hgm
        · rw [fragCore_esc] at hfr
          simp only [Bool.and_eq_true] at hfr
          simp only [List.length_cons] at hf
          rw [capOpens_esc]
          exact ih r sc hfr.2 (by omega) hl hgm
      have e1 : (c == 0x5C) = false := by simp [hc1]
      by_cases hc2 : c = 0x5B
      · -- a class: skipped up to the closing bracket
        subst hc2
        simp only [e1, beq_self_eq_true, Bool.false_eq_true, if_false, if_true]
        unfold fragCore at hfr
        rw [fragGo_open, Bool.and_eq_true] at hfr
        rw [hkv hfr.1]
        simp only [Bool.false_eq_true, if_false]
        obtain ⟨hs1, hs2⟩ := skipBracket_scan e k rest
        have hlen := skipBracket_length rest
        have hcap : capOpens (0x5B :: rest) = capOpens (skipBracket rest) := by
          unfold capOpens; rw [capGo_open]; exact hs1
        rw [hcap]
        exact ih (skipBracket rest) sc (hs2 hfr.2) (by omega) hl hgm
      have hpo := fragCore_head hc1 hc2 hfr
      have hfr' := fragCore_tail hc1 hc2 hfr
      have e2 : (c == 0x5B) = false := by simp [hc2]
      simp only [e1, e2, Bool.false_eq_true, if_false]
      by_cases hp : c = 0x28
      · subst hp
        have hpo := hpo rfl
        simp only [beq_self_eq_true, if_true]
        by_cases hq : ∃ rest2, rest = 0x3F :: rest2
        · obtain ⟨rest2, rfl⟩ := hq
          obtain ⟨rest3, h3, hs3⟩ := tryConsumeName_frag hpo
          simp only [h3]
          simp only [List.length_cons] at hf
          have hfr2 : fragCore e k rest2 = true := fragCore_tail (by decide) (by decide) hfr'
          rw [capOpens_q]
          rcases hs3 with rfl | rfl
          · exact ih rest3 _ hfr2 (by omega) hl hgm
          · rw [capOpens_plain _ (by decide) (by decide) (by decide)]
            exact ih rest3 _ (fragCore_tail (by decide) (by decide) hfr2) (by simp only [List.length_cons] at hf; omega) hl hgm
        · have hne : ∀ r2, rest ≠ 0x3F :: r2 := fun r2 e => hq ⟨r2, e⟩
          rw [capOpens_cap hne]
          have hstep : ∀ g, g ≤ Gen.MAX_CAPTURE_GROUPS →
              (if g + 1 > Gen.MAX_CAPTURE_GROUPS then Gen.MAX_CAPTURE_GROUPS else g + 1) ≤ Gen.MAX_CAPTURE_GROUPS ∧
              min ((if g + 1 > Gen.MAX_CAPTURE_GROUPS then Gen.MAX_CAPTURE_GROUPS else g + 1) + capOpens rest)
                Gen.MAX_CAPTURE_GROUPS = min (g + (capOpens rest + 1)) Gen.MAX_CAPTURE_GROUPS := by
            intro g hg; split <;> omega
          obtain ⟨hs1, hs2⟩ := hstep sc.gmax hgm
          rcases rest with _ | ⟨y, r2⟩
          · simp only
            obtain ⟨sc', h1, h2, h3, h4⟩ := ih []
              { sc with gmax := if sc.gmax + 1 > Gen.MAX_CAPTURE_GROUPS then Gen.MAX_CAPTURE_GROUPS
                                else sc.gmax + 1,
                        parenDepth := sc.parenDepth + 1,
                        altIdx := altInsert sc.altIdx (sc.parenDepth + 1) 0,
                        groupIds := altInsert sc.groupIds (sc.parenDepth + 1) sc.nextGroupId,
                        nextGroupId := sc.nextGroupId + 1 } hfr' (by simp; omega) hl hs1
            exact ⟨sc', h1, h2, h3, by rw [h4]; exact hs2⟩
          · have hy : y ≠ 0x3F := fun e => hne r2 (by rw [e])
            simp only [hy]
            obtain ⟨sc', h1, h2, h3, h4⟩ := ih (y :: r2)
              { sc with gmax := if sc.gmax + 1 > Gen.MAX_CAPTURE_GROUPS then Gen.MAX_CAPTURE_GROUPS
                                else sc.gmax + 1,
                        parenDepth := sc.parenDepth + 1,
                        altIdx := altInsert sc.altIdx (sc.parenDepth + 1) 0,
                        groupIds := altInsert sc.groupIds (sc.parenDepth + 1) sc.nextGroupId,
                        nextGroupId := sc.nextGroupId + 1 } hfr' (by omega) hl hs1
            exact ⟨sc', h1, h2, h3, by rw [h4]; exact hs2⟩
      · have e3 : (c == 0x28) = false := by simp [hp]
        simp only [e3, Bool.false_eq_true, if_false]
        rw [capOpens_plain _ hp hc1 hc2]
        split
        · split
          · exact ih rest _ hfr' (by omega) hl hgm
          · exact ih rest sc hfr' (by omega) hl hgm
        · split
          · exact ih rest _ hfr' (by omega) hl hgm
          · exact ih rest sc hfr' (by omega) hl hgm

/-- On the fragment the pre-scan succeeds and sets `groupCountMax` to the lexical group count. -/
theorem parseCaptureGroups_frag (e k : Bool) (st : PState) (h : fragCore e k st.input = true)
    (hkv : k = true → st.flags.unicodeSets = false) (h0 : st.groupCountMax = 0) :
    parseCaptureGroups st =
      .ok { st with groupCountMax := min (capOpens st.input) Gen.MAX_CAPTURE_GROUPS } := by
  obtain ⟨sc', h1, h2, h3, h4⟩ := scanLoop_frag e k st.flags hkv (st.input.length + 1) st.input
    { named := st.named, gmax := st.groupCountMax } h (by omega) rfl (by rw [h0]; simp)
  unfold parseCaptureGroups
  rw [h1]
  simp only [h2, List.any_nil, Bool.false_eq_true, if_false]
  rw [h3, h4, h0, Nat.zero_add]

/-! ## `try_parse` -/

theorem finalize_ok (st : PState) (re : Regex) (h : POut re.node) : ∃ re', finalize st re = .ok re' := by
  unfold finalize
  split
  · obtain ⟨n', h1, _, _⟩ := reverseCats_ok false re.node h
    rw [h1]; exact ⟨_, rfl⟩
  · exact ⟨_, rfl⟩

/-- `parseBody` answers `Ok` exactly when the descent consumes the whole input. -/
theorem parseBody_isOk (st : PState) (hi : Inv st) :
    (parseBody st).isOk = true ↔
      ∃ nd st1, consumeDisjunction (parseFuel st.input) st = .ok (nd, st1) ∧ st1.input = [] := by
  unfold parseBody
  have h := (descent_all (parseFuel st.input)).disj st hi (by unfold parseFuel; omega)
  cases hc : consumeDisjunction (parseFuel st.input) st with
  | error e => simp [Except.isOk, Except.toBool]
  | ok p =>
    obtain ⟨body, st1⟩ := p
    have h1 : DisjPost st (body, st1) := h.ok_of_eq hc
    simp only
    cases hin : st1.input with
    | cons c r =>
      simp only
      constructor
      · intro hh; split at hh <;> simp [Except.isOk, Except.toBool, synErr] at hh
      · rintro ⟨nd, st2, he, h2⟩
        cases he
        rw [hin] at h2; cases h2
    | nil =>
      simp only
      obtain ⟨re', hre⟩ := finalize_ok st1 { node := makeCat [body, .goal], flags := st1.flags }
        (makeCat_POut (ns := [body, .goal]) ⟨h1.1, by simp [POut], trivial⟩)
      rw [hre]
      simp only [Except.isOk, Except.toBool, true_iff]
      exact ⟨body, st1, rfl, hin⟩

/-- The flags `parse` works with. -/
def effFlags (fl : Flags) : Flags := if fl.unicodeSets then { fl with unicode := true } else fl

/-- `parse` answers `Ok` exactly when the descent (from the state the pre-scan leaves) consumes the
whole pattern. -/
theorem parse_isOk_iff (e k : Bool) (pat : List Nat) (fl : Flags) (hb : Bnd pat) (hfr : fragCore e k pat = true)
    (hkv : k = true → fl.unicodeSets = false) :
    (parse pat fl).isOk = true ↔
      ∃ nd st1, consumeDisjunction (parseFuel pat)
        { input := pat, flags := effFlags fl,
          groupCountMax := min (capOpens pat) Gen.MAX_CAPTURE_GROUPS } = .ok (nd, st1) ∧ st1.input = [] := by
  have hkv' : k = true → (effFlags fl).unicodeSets = false := fun h => by
    unfold effFlags; rw [hkv h]; exact hkv h
  have hg := parseCaptureGroups_frag e k { input := pat, flags := effFlags fl } hfr hkv' rfl
  have hpe : parse pat fl = parseBody
      { input := pat, flags := effFlags fl, groupCountMax := min (capOpens pat) Gen.MAX_CAPTURE_GROUPS } := by
    unfold parse tryParse
    simp only
    unfold effFlags at hg
    rw [hg]
    rfl
  rw [hpe]
  exact parseBody_isOk _ ⟨by intro e he; simp at he, by simp [Gen.MAX_NESTING_DEPTH],
    by simp [Gen.MAX_CAPTURE_GROUPS], by simp [Gen.MAX_LOOPS], hb⟩

/-! ## `parsePattern`, and the two joined -/

/-- Outside UnicodeMode the grammar never records a decimal escape. -/
def Mono0 (c : Cfg) (n : Nat) : Prop :=
  (∀ s st r st', disj c n s st = .ok (r, st') → st'.maxDec = st.maxDec) ∧
  (∀ s st r st', alt c n s st = .ok (r, st') → st'.maxDec = st.maxDec) ∧
  (∀ s st r st', body c n s st = .ok (r, st') → st'.maxDec = st.maxDec) ∧
  (∀ s st r st', term c n s st = .ok (r, st') → st'.maxDec = st.maxDec) ∧
  (∀ s st r st', quantified c n s st = .ok (r, st') → st'.maxDec = st.maxDec) ∧
  (∀ s st r st', atom c n s st = .ok (r, st') → st'.maxDec = st.maxDec)

theorem atomEscape_mono0 (c : Cfg) (hc : c.u = false) (s : List Nat) (st : ESG.St) (r : List Nat) (st' : ESG.St)
    (h : atomEscape c s st = .ok (r, st')) : st'.maxDec = st.maxDec := by
  unfold atomEscape namedRef at h
  repeat' split at h
  all_goals grind

theorem mono0 (c : Cfg) (hc : c.u = false) (n : Nat) : Mono0 c n := by
  induction n with
  | zero =>
    refine ⟨?_, ?_, ?_, ?_, ?_, ?_⟩ <;> intro s st r st' h
    · simp [disj] at h
    · simp [alt] at h
    · simp [body] at h
    · simp [term] at h
    · simp [quantified] at h
    · simp [atom] at h
  | succ n ih =>
    obtain ⟨ihD, ihA, ihB, ihT, ihQ, ihM⟩ := ih
    refine ⟨?_, ?_, ?_, ?_, ?_, ?_⟩
    · intro s st r st' h
      unfold disj at h
      repeat' split at h
      all_goals grind
    · intro s st r st' h
      unfold alt at h
      repeat' split at h
      all_goals grind
    · intro s st r st' h
      unfold body at h
      repeat' split at h
      all_goals grind
    · intro s st r st' h
      unfold term at h
      repeat' split at h
      all_goals grind
    · intro s st r st' h
      unfold quantified at h
      repeat' split at h
      all_goals grind
    · intro s st r st' h
      unfold atom at h
      repeat' split at h
      all_goals grind [→ atomEscape_mono0, addName]

theorem capGo_le_opens : ∀ (n : Nat) (m : Bool) (l : List Nat), l.length ≤ n → capGo m l ≤ opens l := by
  intro n
  induction n with
  | zero => intro m l hl; cases l with | nil => rw [capGo_nil]; omega | cons _ _ => simp at hl
  | succ n ih =>
    intro m l hl
    rcases l with _ | ⟨c, r⟩
    · rw [capGo_nil]; omega
    · simp only [List.length_cons] at hl
      have hop : opens r ≤ opens (c :: r) := by simp only [opens]; split <;> omega
      by_cases hc : c = 0x5C
      · subst hc
        rcases r with _ | ⟨x, r'⟩
        · cases m <;> (rw [capGo] <;> simp [capGo_nil])
        · rw [capGo_esc]
          simp only [List.length_cons] at hl
          have := ih m r' (by omega)
          have : opens r' ≤ opens (x :: r') := by simp only [opens]; split <;> omega
          omega
      · cases m with
        | true =>
          by_cases hd : c = 0x5D
          · subst hd
            rw [capGo_close]
            have := ih false r (by omega); omega
          · rw [capGo_in r hc hd]
            have := ih true r (by omega); omega
        | false =>
          by_cases hb : c = 0x5B
          · subst hb
            rw [capGo_open]
            have := ih true r (by omega); omega
          · by_cases hp : c = 0x28
            · subst hp
              by_cases hq : ∃ r', r = 0x3F :: r'
              · obtain ⟨r', rfl⟩ := hq
                have e1 := capOpens_q r'
                unfold capOpens at e1
                rw [e1]
                simp only [List.length_cons] at hl
                have := ih false r' (by omega)
                simp [opens]; omega
              · have e1 := capOpens_cap (fun r' e => hq ⟨r', e⟩)
                unfold capOpens at e1
                rw [e1]
                have := ih false r (by omega)
                simp [opens]; omega
            · have e1 := capOpens_plain r hp hc hb
              unfold capOpens at e1
              rw [e1]
              have := ih false r (by omega); omega

theorem capOpens_le_opens (l : List Nat) : capOpens l ≤ opens l := capGo_le_opens _ false l (Nat.le_refl _)

/-- The descent from the state the pre-scan leaves, against `parsePattern`. -/
theorem frag_core (e k : Bool) (c : Cfg) (pat : List Nat) (fl' : Flags) (hu : c.u = fl'.unicode)
    (heu : e = true → fl'.unicode = true)
    (hkk : k = true → e = true ∧ fl'.unicode = true ∧ c.v = false ∧ fl'.unicodeSets = false)
    (hch : e = true → ∀ c ∈ pat, Parse.isChar c = true)
    (hfr : fragCore e k pat = true) (hlim : withinLimits pat = true) :
    ((∃ nd st1, consumeDisjunction (parseFuel pat)
        { input := pat, flags := fl', groupCountMax := min (capOpens pat) Gen.MAX_CAPTURE_GROUPS } =
          .ok (nd, st1) ∧ st1.input = []) ↔
      ∃ st, parsePattern c pat = .ok st) ∧
    (∀ st, parsePattern c pat = .ok st → st.names = []) ∧ parsePattern c pat ≠ .fuel := by
  simp only [withinLimits, Bool.and_eq_true, decide_eq_true_eq] at hlim
  obtain ⟨⟨hl1, hl2⟩, hl3⟩ := hlim
  have hK : capOpens pat ≤ 65535 := Nat.le_trans (capOpens_le_opens pat) hl2
  have hmin : min (capOpens pat) Gen.MAX_CAPTURE_GROUPS = capOpens pat := by
    simp only [Gen.MAX_CAPTURE_GROUPS]; omega
  rw [hmin]
  -- the run of the crate (pre-scan count `K`), and a hypothetical run that accepts every decimal escape
  have hrun : ∀ G : Nat, Out G (disj c (8 * (pat.length + 2)) pat {})
      (fun r est' => ∃ ts st', disjLoop (4 * pat.length + 7)
          { input := pat, flags := fl', groupCountMax := G, depth := 0 + 1 } [] = .ok (ts, st') ∧
        CR e k fl'.unicode G (capOpens pat)
          { input := pat, flags := fl', groupCountMax := G, depth := 0 + 1 } r st' ∧
        est'.groups = st'.groupCount)
      (IsSyn (disjLoop (4 * pat.length + 7)
          { input := pat, flags := fl', groupCountMax := G, depth := 0 + 1 } [])) := by
    intro G
    have hD := (sim_all (c := c) (e := e) (k := k) (u := fl'.unicode) G (capOpens pat) hu heu
      (fun h => ⟨(hkk h).1, (hkk h).2.1, (hkk h).2.2.1⟩) (8 * (pat.length + 2))).1
    exact hD pat {} (by omega) ⟨by simp, rfl, rfl⟩ (4 * pat.length + 7)
      { input := pat, flags := fl', groupCountMax := G, depth := 0 + 1 } [] (by omega) rfl
      ⟨rfl, fun h => (hkk h).2.2.2, hfr, hch, by simp only; omega, by simp only; omega, by simp only; omega, rfl,
        by simp⟩ rfl
  have hD' := hrun (capOpens pat)
  have hpf : parseFuel pat = (4 * pat.length + 7) + 1 := by unfold parseFuel; omega
  have hdep : ({ input := pat, flags := fl', groupCountMax := capOpens pat } : PState).depth + 1 ≤
      Gen.MAX_NESTING_DEPTH := by simp [Gen.MAX_NESTING_DEPTH]
  rw [hpf]
  unfold parsePattern
  cases hd : disj c (8 * (pat.length + 2)) pat {} with
  | fuel => rw [hd] at hD'; exact hD'.elim
  | bad =>
    rw [hd] at hD'
    obtain ⟨msg, hm⟩ := hD'
    rw [cd_err hdep hm]
    simp
  | ok p =>
    obtain ⟨r, est'⟩ := p
    rw [hd] at hD'
    rcases hD' with ⟨he', ts, st', hl, ⟨hr, _, hi'⟩, hg'⟩ | ⟨hp, msg, hm⟩
    · rw [cd_ok hdep hl]
      rcases r with _ | ⟨y, r'⟩
      · have hcap := hi'.cap
        rw [hr] at hcap
        rw [capOpens_nil, Nat.add_zero] at hcap
        have hmd := he'.maxDec
        have hchk : ((!c.u || decide (est'.maxDec ≤ est'.groups)) &&
            (!c.n || est'.refs.all fun nm => est'.names.contains nm)) = true := by
          rw [he'.refs]
          have : est'.maxDec ≤ est'.groups := by
            rw [hg', hcap]; unfold USIZE_MAX at hmd; omega
          simp [this]
        simp only [hchk, if_true]
        refine ⟨⟨fun _ => ⟨est', rfl⟩, fun _ => ⟨_, _, rfl, hr⟩⟩, ?_, by simp⟩
        intro st hst
        cases hst
        exact he'.names
      · simp only
        refine ⟨⟨?_, ?_⟩, ?_, by simp⟩
        · rintro ⟨nd, st1, he, h1⟩
          cases he
          simp only at h1
          rw [hr] at h1; cases h1
        · rintro ⟨st, hst⟩; cases hst
        · intro st hst; cases hst
    · -- a decimal escape beyond the group count: the crate has failed; so does the final check
      rw [cd_err hdep hm]
      rcases r with _ | ⟨y, r'⟩
      · have hD2 := hrun USIZE_MAX
        rw [hd] at hD2
        have hgr : est'.groups = capOpens pat := by
          rcases hD2 with ⟨_, ts, st', _, ⟨hr, _, hi'⟩, hg'⟩ | ⟨hp2, _⟩
          · have hcap := hi'.cap
            rw [hr] at hcap
            rw [capOpens_nil, Nat.add_zero] at hcap
            rw [hg', hcap]
          · unfold Poisoned at hp2; omega
        have hcu : c.u = true := by
          cases hcu : c.u with
          | true => rfl
          | false =>
            have := (mono0 c hcu (8 * (pat.length + 2))).1 pat {} [] est' hd
            unfold Poisoned at hp
            rw [this] at hp
            simp at hp
        have hchk : ((!c.u || decide (est'.maxDec ≤ est'.groups)) &&
            (!c.n || est'.refs.all fun nm => est'.names.contains nm)) = false := by
          have : ¬ est'.maxDec ≤ est'.groups := by
            unfold Poisoned at hp; rw [hgr]; omega
          simp [hcu, this]
        simp only [hchk, Bool.false_eq_true, if_false]
        refine ⟨⟨?_, ?_⟩, ?_, by simp⟩
        · rintro ⟨nd, st1, he, _⟩; cases he
        · rintro ⟨st, hst⟩; cases hst
        · intro st hst; cases hst
      · simp only
        refine ⟨⟨?_, ?_⟩, ?_, by simp⟩
        · rintro ⟨nd, st1, he, _⟩; cases he
        · rintro ⟨st, hst⟩; cases hst
        · intro st hst; cases hst

/-! ## Flags and pre-processing -/

/-- The ECMAScript flag string of the crate's flags: `i`, `m`, `s`, then `v` if `unicode_sets`, else
`u` if `unicode` (the crate's `unicode_sets` implies `unicode`; ES forbids `uv` together). -/
def flagsText (fl : Flags) : String :=
  (if fl.icase then "i" else "") ++ (if fl.multiline then "m" else "") ++
  (if fl.dotAll then "s" else "") ++ (if fl.unicodeSets then "v" else if fl.unicode then "u" else "")

theorem flagsText_ok : ∀ fl : Flags, flagsOk (str (flagsText fl)) = true ∧
    (str (flagsText fl)).contains 0x75 = (fl.unicode && !fl.unicodeSets) ∧
    (str (flagsText fl)).contains 0x76 = fl.unicodeSets := by
  intro ⟨a, b, c, d, e, f⟩
  cases a <;> cases b <;> cases c <;> cases d <;> cases e <;> cases f <;> decide

theorem esValid_eq (fl : Flags) (pat : List Nat) :
    esValid (flagsText fl) pat =
      match esValidCore tabs true (fl.unicode && !fl.unicodeSets) fl.unicodeSets pat with
      | .ok _ => true
      | _ => false := by
  obtain ⟨h1, h2, h3⟩ := flagsText_ok fl
  unfold esValid esValidR
  rw [h1, h2, h3]
  rfl

theorem toPoints_id (pat : List Nat) (h : ∀ c ∈ pat, ¬ (0xD800 ≤ c ∧ c ≤ 0xDFFF)) : toPoints pat = pat := by
  fun_induction toPoints pat with
  | case1 => rfl
  | case2 => rfl
  | case3 a b r hc ih =>
    have := h a (by simp)
    simp [isLead] at hc
    omega
  | case4 a b r hc ih =>
    rw [ih (fun c hc' => h c (by simp [hc']))]

theorem toUnits_id (pat : List Nat) (h : ∀ c ∈ pat, c < 0x10000) : toUnits pat = pat := by
  induction pat with
  | nil => rfl
  | cons c r ih =>
    have hc := h c (by simp)
    unfold toUnits
    rw [if_neg (by omega), ih (fun x hx => h x (by simp [hx]))]

end Regress.C08Frag
