import Proofs.Lemmas.C08FragSim
/-!
# C08 fragment equivalence, part 4: the pre-scan, `try_parse`, `esValid`

* `parseCaptureGroups_frag`: on the fragment the capture-group pre-scan succeeds and finds no name.
* `parse_isOk_iff`: `parse` answers `Ok` iff the descent consumes the whole pattern.
* `esCore_iff`: `parsePattern` answers `ok` iff `disj` consumes the whole pattern.
* `frag_equiv`: both, joined by the simulation `sim_all`.
-/
namespace Regress.C08Frag
open Regress Regress.IR Regress.Parse Regress.ESG

/-! ## The pre-scan -/

theorem isIdStart_eq : Parse.isIdStart 0x3D = false := by decide +kernel
theorem isIdStart_bang : Parse.isIdStart 0x21 = false := by decide +kernel

/-- After `(?` the fragment never has a group name. -/
theorem tryConsumeName_frag {rest2 : List Nat} (h : parenOk (0x3F :: rest2) = true) :
    ∃ rest3, tryConsumeName rest2 = .ok (none, rest3) ∧ (rest3 = rest2 ∨ rest2 = 0x3C :: rest3) := by
  rcases rest2 with _ | ⟨y, r⟩
  · exact ⟨[], rfl, .inl rfl⟩
  · by_cases hy : y = 0x3C
    · subst hy
      rcases r with _ | ⟨z, r'⟩
      · simp [parenOk] at h
      · simp only [parenOk, Bool.or_eq_true, beq_iff_eq] at h
        refine ⟨z :: r', ?_, .inr rfl⟩
        rcases h with rfl | rfl
        · simp [tryConsumeName, Parse.nameChar, Parse.isChar, isIdStart_eq]
        · simp [tryConsumeName, Parse.nameChar, Parse.isChar, isIdStart_bang]
    · refine ⟨y :: r, ?_, .inl rfl⟩
      unfold tryConsumeName
      split
      · rename_i heq; cases heq; exact absurd rfl hy
      · rfl

theorem scanLoop_frag (e : Bool) (fl : Flags) : ∀ (fuel : Nat) (inp : List Nat) (sc : Scan),
    fragCore e inp = true → inp.length < fuel → sc.locs = [] →
    ∃ sc', scanLoop fl fuel inp sc = .ok sc' ∧ sc'.locs = [] ∧ sc'.named = sc.named := by
  intro fuel
  induction fuel with
  | zero => intro inp sc _ hf; omega
  | succ fuel ih =>
    intro inp sc hfr hf hl
    unfold scanLoop
    rcases inp with _ | ⟨c, rest⟩
    · exact ⟨sc, rfl, hl, rfl⟩
    · simp only [List.length_cons] at hf
      by_cases hc1 : c = 0x5C
      · -- an escape: the next character is skipped
        subst hc1
        simp only [beq_self_eq_true, if_true]
        rcases rest with _ | ⟨x, r⟩
        · exact ih [] sc rfl (by simp; omega) hl
        · rw [fragCore_esc] at hfr
          simp only [Bool.and_eq_true] at hfr
          simp only [List.length_cons] at hf
          exact ih r sc hfr.2 (by omega) hl
      obtain ⟨hc2, hpo⟩ := fragCore_head hc1 hfr
      have hfr' := fragCore_tail hc1 hfr
      have e1 : (c == 0x5C) = false := by simp [hc1]
      have e2 : (c == 0x5B) = false := by simp [hc2]
      simp only [e1, e2, Bool.false_eq_true, if_false]
      by_cases hp : c = 0x28
      · subst hp
        have hpo := hpo rfl
        simp only [beq_self_eq_true, if_true]
        by_cases hq : ∃ rest2, rest = 0x3F :: rest2
        · obtain ⟨rest2, rfl⟩ := hq
          obtain ⟨rest3, h3, hs3⟩ := tryConsumeName_frag hpo
          simp only [h3]
          simp only [List.length_cons] at hf
          have hfr2 : fragCore e rest2 = true := fragCore_tail (by decide) hfr'
          rcases hs3 with rfl | rfl
          · exact ih rest3 _ hfr2 (by omega) hl
          · exact ih rest3 _ (fragCore_tail (by decide) hfr2) (by simp only [List.length_cons] at hf; omega) hl
        · have hne : ∀ r2, rest ≠ 0x3F :: r2 := fun r2 e => hq ⟨r2, e⟩
          rcases rest with _ | ⟨y, r2⟩
          · simp only
            exact ih [] _ hfr' (by simp; omega) hl
          · have hy : y ≠ 0x3F := fun e => hne r2 (by rw [e])
            simp only [hy]
            exact ih (y :: r2) _ hfr' (by omega) hl
      · have e3 : (c == 0x28) = false := by simp [hp]
        simp only [e3, Bool.false_eq_true, if_false]
        split
        · split
          · exact ih rest _ hfr' (by omega) hl
          · exact ih rest sc hfr' (by omega) hl
        · split
          · exact ih rest _ hfr' (by omega) hl
          · exact ih rest sc hfr' (by omega) hl

/-- On the fragment the pre-scan succeeds and changes only `groupCountMax`. -/
theorem parseCaptureGroups_frag (e : Bool) (st : PState) (h : fragCore e st.input = true) :
    ∃ g, parseCaptureGroups st = .ok { st with groupCountMax := g } := by
  obtain ⟨sc', h1, h2, h3⟩ := scanLoop_frag e st.flags (st.input.length + 1) st.input
    { named := st.named, gmax := st.groupCountMax } h (by omega) rfl
  unfold parseCaptureGroups
  rw [h1]
  simp only [h2, List.any_nil, Bool.false_eq_true, if_false]
  exact ⟨sc'.gmax, by rw [h3]⟩

/-! ## `try_parse` -/

theorem finalize_ok (st : PState) (re : Regex) (h : POut re.node) : ∃ re', finalize st re = .ok re' := by
  unfold finalize
  split
  · obtain ⟨n', h1, _, _⟩ := reverseCats_ok false re.node h
    rw [h1]; exact ⟨_, rfl⟩
  · exact ⟨_, rfl⟩

/-- `parseBody` answers `Ok` exactly when the descent consumes the whole input. -/
theorem parseBody_isOk (st : PState) (hi : Inv st) :
    (parseBody st).isOk = true ↔
      ∃ nd st1, consumeDisjunction (parseFuel st.input) st = .ok (nd, st1) ∧ st1.input = [] := by
  unfold parseBody
  have h := (descent_all (parseFuel st.input)).disj st hi (by unfold parseFuel; omega)
  cases hc : consumeDisjunction (parseFuel st.input) st with
  | error e => simp [Except.isOk, Except.toBool]
  | ok p =>
    obtain ⟨body, st1⟩ := p
    have h1 : DisjPost st (body, st1) := h.ok_of_eq hc
    simp only
    cases hin : st1.input with
    | cons c r =>
      simp only
      constructor
      · intro hh; split at hh <;> simp [Except.isOk, Except.toBool, synErr] at hh
      · rintro ⟨nd, st2, he, h2⟩
        cases he
        rw [hin] at h2; cases h2
    | nil =>
      simp only
      obtain ⟨re', hre⟩ := finalize_ok st1 { node := makeCat [body, .goal], flags := st1.flags }
        (makeCat_POut (ns := [body, .goal]) ⟨h1.1, by simp [POut], trivial⟩)
      rw [hre]
      simp only [Except.isOk, Except.toBool, true_iff]
      exact ⟨body, st1, rfl, hin⟩

/-- The flags `parse` works with. -/
def effFlags (fl : Flags) : Flags := if fl.unicodeSets then { fl with unicode := true } else fl

/-- `parse` answers `Ok` exactly when the descent (from the state the pre-scan leaves) consumes the
whole pattern. -/
theorem parse_isOk_iff (e : Bool) (pat : List Nat) (fl : Flags) (hb : Bnd pat) (hfr : fragCore e pat = true) :
    ∃ g, (parse pat fl).isOk = true ↔
      ∃ nd st1, consumeDisjunction (parseFuel pat)
        { input := pat, flags := effFlags fl, groupCountMax := g } = .ok (nd, st1) ∧ st1.input = [] := by
  obtain ⟨g, hg⟩ := parseCaptureGroups_frag e { input := pat, flags := effFlags fl } hfr
  refine ⟨g, ?_⟩
  have e : parse pat fl = parseBody { input := pat, flags := effFlags fl, groupCountMax := g } := by
    unfold parse tryParse
    simp only
    unfold effFlags at hg
    rw [hg]
    rfl
  rw [e]
  exact parseBody_isOk _ ⟨by intro e he; simp at he, by simp [Gen.MAX_NESTING_DEPTH],
    by simp [Gen.MAX_CAPTURE_GROUPS], by simp [Gen.MAX_LOOPS], hb⟩

/-! ## `parsePattern`, and the two joined -/

/-- The descent from the state the pre-scan leaves, against `parsePattern`. -/
theorem frag_core (e : Bool) (c : Cfg) (pat : List Nat) (fl' : Flags) (g : Nat) (hu : c.u = fl'.unicode)
    (heu : e = true → fl'.unicode = true) (hch : e = true → ∀ c ∈ pat, Parse.isChar c = true)
    (hfr : fragCore e pat = true) (hlim : withinLimits pat = true) :
    ((∃ nd st1, consumeDisjunction (parseFuel pat)
        { input := pat, flags := fl', groupCountMax := g } = .ok (nd, st1) ∧ st1.input = []) ↔
      ∃ st, parsePattern c pat = .ok st) ∧
    (∀ st, parsePattern c pat = .ok st → st.names = []) ∧ parsePattern c pat ≠ .fuel := by
  simp only [withinLimits, Bool.and_eq_true, decide_eq_true_eq] at hlim
  obtain ⟨⟨hl1, hl2⟩, hl3⟩ := hlim
  have hD := (sim_all (c := c) (e := e) (u := fl'.unicode) hu heu (8 * (pat.length + 2))).1
  have hi : PInv e fl'.unicode
      { ({ input := pat, flags := fl', groupCountMax := g } : PState) with depth := 0 + 1 } :=
    ⟨rfl, hfr, hch, by simp only; omega, by simp only; omega, by simp only; omega⟩
  have hD' := hD pat {} (by omega) ⟨rfl, rfl, rfl⟩ (4 * pat.length + 7)
    { ({ input := pat, flags := fl', groupCountMax := g } : PState) with depth := 0 + 1 } []
    (by omega) rfl hi
  have hpf : parseFuel pat = (4 * pat.length + 7) + 1 := by unfold parseFuel; omega
  have hdep : ({ input := pat, flags := fl', groupCountMax := g } : PState).depth + 1 ≤
      Gen.MAX_NESTING_DEPTH := by simp [Gen.MAX_NESTING_DEPTH]
  rw [hpf]
  unfold parsePattern
  cases hd : disj c (8 * (pat.length + 2)) pat {} with
  | fuel => rw [hd] at hD'; exact hD'.elim
  | bad =>
    rw [hd] at hD'
    obtain ⟨msg, hm⟩ := hD'
    rw [cd_err hdep hm]
    simp
  | ok p =>
    obtain ⟨r, est'⟩ := p
    rw [hd] at hD'
    obtain ⟨he', ts, st', hl, hr, _, _⟩ := hD'
    rw [cd_ok hdep hl]
    rcases r with _ | ⟨y, r'⟩
    · have hchk : ((!c.u || decide (est'.maxDec ≤ est'.groups)) &&
          (!c.n || est'.refs.all fun nm => est'.names.contains nm)) = true := by
        rw [he'.maxDec, he'.refs]; simp
      simp only [hchk, if_true]
      refine ⟨⟨fun _ => ⟨est', rfl⟩, fun _ => ⟨_, _, rfl, hr⟩⟩, ?_, by simp⟩
      intro st hst
      cases hst
      exact he'.names
    · simp only
      refine ⟨⟨?_, ?_⟩, ?_, by simp⟩
      · rintro ⟨nd, st1, he, h1⟩
        cases he
        simp only at h1
        rw [hr] at h1; cases h1
      · rintro ⟨st, hst⟩; cases hst
      · intro st hst; cases hst

/-! ## Flags and pre-processing -/

/-- The ECMAScript flag string of the crate's flags: `i`, `m`, `s`, then `v` if `unicode_sets`, else
`u` if `unicode` (the crate's `unicode_sets` implies `unicode`; ES forbids `uv` together). -/
def flagsText (fl : Flags) : String :=
  (if fl.icase then "i" else "") ++ (if fl.multiline then "m" else "") ++
  (if fl.dotAll then "s" else "") ++ (if fl.unicodeSets then "v" else if fl.unicode then "u" else "")

theorem flagsText_ok : ∀ fl : Flags, flagsOk (str (flagsText fl)) = true ∧
    (str (flagsText fl)).contains 0x75 = (fl.unicode && !fl.unicodeSets) ∧
    (str (flagsText fl)).contains 0x76 = fl.unicodeSets := by
  intro ⟨a, b, c, d, e, f⟩
  cases a <;> cases b <;> cases c <;> cases d <;> cases e <;> cases f <;> decide

theorem esValid_eq (fl : Flags) (pat : List Nat) :
    esValid (flagsText fl) pat =
      match esValidCore tabs true (fl.unicode && !fl.unicodeSets) fl.unicodeSets pat with
      | .ok _ => true
      | _ => false := by
  obtain ⟨h1, h2, h3⟩ := flagsText_ok fl
  unfold esValid esValidR
  rw [h1, h2, h3]
  rfl

theorem toPoints_id (pat : List Nat) (h : ∀ c ∈ pat, ¬ (0xD800 ≤ c ∧ c ≤ 0xDFFF)) : toPoints pat = pat := by
  fun_induction toPoints pat with
  | case1 => rfl
  | case2 => rfl
  | case3 a b r hc ih =>
    have := h a (by simp)
    simp [isLead] at hc
    omega
  | case4 a b r hc ih =>
    rw [ih (fun c hc' => h c (by simp [hc']))]

theorem toUnits_id (pat : List Nat) (h : ∀ c ∈ pat, c < 0x10000) : toUnits pat = pat := by
  induction pat with
  | nil => rfl
  | cons c r ih =>
    have hc := h c (by simp)
    unfold toUnits
    rw [if_neg (by omega), ih (fun x hx => h x (by simp [hx]))]

end Regress.C08Frag
