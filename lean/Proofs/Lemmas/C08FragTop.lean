import Proofs.Lemmas.C08FragSim
/-!
# C08 fragment equivalence, part 4: the pre-scan, `try_parse`, `esValid`

* `parseCaptureGroups_frag`: on the fragment the capture-group pre-scan succeeds and finds no name.
* `parse_isOk_iff`: `parse` answers `Ok` iff the descent consumes the whole pattern.
* `esCore_iff`: `parsePattern` answers `ok` iff `disj` consumes the whole pattern.
* `frag_equiv`: both, joined by the simulation `sim_all`.
-/
namespace Regress.C08Frag
open Regress Regress.IR Regress.Parse Regress.ESG

/-! ## The pre-scan -/

theorem capOpens_nil (v : Bool) : capOpens v [] = 0 := capGo_nil v 0

theorem capOpens_bs_end (v : Bool) : capOpens v [0x5C] = 0 := by
  unfold capOpens
  rw [capGo] <;> simp [capGo_nil]

theorem lexNames_nil (v : Bool) : lexNames v [] = [] := namesGo_nil v 0

theorem lexNames_bs_end (v : Bool) : lexNames v [0x5C] = [] := by
  unfold lexNames
  rw [namesGo] <;> simp [namesGo_nil]

/-- The pre-scan's `skipBracket` is the scanners' in-class mode (no nesting). -/
theorem skipBracket_scan (F : Feat) (hvk : F.vk = false) (rest : List Nat) :
    capGo false 1 rest = capGo false 0 (skipBracket rest) ∧
    namesGo false 1 rest = namesGo false 0 (skipBracket rest) ∧
    (fragGo F 1 rest = true → fragGo F 0 (skipBracket rest) = true) := by
  fun_induction skipBracket rest with
  | case1 => exact ⟨by rw [capGo_nil, capGo_nil], by rw [namesGo_nil, namesGo_nil], fun _ => by rw [fragGo]⟩
  | case2 c hc =>
    have : c = 0x5C := by simpa using hc
    subst this
    refine ⟨?_, ?_, fun _ => by rw [fragGo]⟩
    · rw [capGo_nil, capGo] <;> simp [capGo_nil]
    · rw [namesGo_nil, namesGo] <;> simp [namesGo_nil]
  | case3 c hc x r ih =>
    have : c = 0x5C := by simpa using hc
    subst this
    refine ⟨by rw [capGo_esc]; exact ih.1, by rw [namesGo_esc]; exact ih.2.1, fun h => ?_⟩
    rw [fragGo_esc_in, Bool.and_eq_true] at h
    exact ih.2.2 h.2
  | case4 c rest h1 h2 =>
    have hc : c = 0x5D := by simpa using h2
    subst hc
    exact ⟨capGo_close false 0 rest, namesGo_close false 0 rest, fun h => by rwa [fragGo_close] at h⟩
  | case5 c rest h1 h2 ih =>
    have hc1 : c ≠ 0x5C := by simpa using h1
    have hc2 : c ≠ 0x5D := by simpa using h2
    exact ⟨by rw [capGo_in false 0 rest hc1 hc2 (.inl rfl)]; exact ih.1,
      by rw [namesGo_in false 0 rest hc1 hc2 (.inl rfl)]; exact ih.2.1,
      fun h => ih.2.2 (by rwa [fragGo_in F 0 rest hc1 hc2 (.inl hvk)] at h)⟩


theorem skipBracketV_suffix : ∀ (l : List Nat) (d : Nat), skipBracketV l d <:+ l := by
  intro l d
  fun_induction skipBracketV l d with
  | case1 => exact List.suffix_refl _
  | case2 => exact List.nil_suffix
  | case3 c d hc x r ih => exact (ih.trans (List.suffix_cons _ _)).trans (List.suffix_cons _ _)
  | case4 c rest d h1 h2 ih => exact ih.trans (List.suffix_cons _ _)
  | case5 c rest d h1 h2 h3 h4 => exact List.suffix_cons _ _
  | case6 c rest d h1 h2 h3 h4 ih => exact ih.trans (List.suffix_cons _ _)
  | case7 c rest d h1 h2 h3 ih => exact ih.trans (List.suffix_cons _ _)



/-- The pre-scan's `skipBracketV` is the scanners' in-class mode with nesting. -/
theorem skipBracketV_scan (F : Feat) (hvk : F.vk = true) (rest : List Nat) (d : Nat) : 1 ≤ d →
    capGo true d rest = capGo true 0 (skipBracketV rest d) ∧
    namesGo true d rest = namesGo true 0 (skipBracketV rest d) ∧
    (fragGo F d rest = true → fragGo F 0 (skipBracketV rest d) = true) := by
  fun_induction skipBracketV rest d with
  | case1 d =>
    intro _
    exact ⟨by rw [capGo_nil, capGo_nil], by rw [namesGo_nil, namesGo_nil], fun _ => by rw [fragGo]⟩
  | case2 c d hc =>
    intro hd
    obtain ⟨e, rfl⟩ : ∃ e, d = e + 1 := ⟨d - 1, by omega⟩
    have : c = 0x5C := by simpa using hc
    subst this
    refine ⟨?_, ?_, fun _ => by rw [fragGo]⟩
    · rw [capGo_nil, capGo] <;> simp [capGo_nil]
    · rw [namesGo_nil, namesGo] <;> simp [namesGo_nil]
  | case3 c d hc x r ih =>
    intro hd
    obtain ⟨e, rfl⟩ : ∃ e, d = e + 1 := ⟨d - 1, by omega⟩
    have : c = 0x5C := by simpa using hc
    subst this
    have ih := ih hd
    refine ⟨by rw [capGo_esc]; exact ih.1, by rw [namesGo_esc]; exact ih.2.1, fun h => ?_⟩
    rw [fragGo_esc_in, Bool.and_eq_true] at h
    exact ih.2.2 h.2
  | case4 c rest d h1 h2 ih =>
    intro hd
    obtain ⟨e, rfl⟩ : ∃ e, d = e + 1 := ⟨d - 1, by omega⟩
    have : c = 0x5B := by simpa using h2
    subst this
    have ih := ih (by omega)
    refine ⟨by rw [capGo_nest]; exact ih.1, by rw [namesGo_nest]; exact ih.2.1, fun h => ?_⟩
    rw [fragGo_nest F hvk] at h
    exact ih.2.2 h
  | case5 c rest d h1 h2 h3 h4 =>
    intro hd
    have hc : c = 0x5D := by simpa using h3
    subst hc
    have hd1 : d = 1 := by
      have : d - 1 = 0 := by simpa using h4
      omega
    subst hd1
    exact ⟨capGo_close true 0 rest, namesGo_close true 0 rest, fun h => by rwa [fragGo_close] at h⟩
  | case6 c rest d h1 h2 h3 h4 ih =>
    intro hd
    have hc : c = 0x5D := by simpa using h3
    subst hc
    have hd2 : 2 ≤ d := by
      have : ¬ (d - 1 = 0) := by simpa using h4
      omega
    obtain ⟨e, rfl⟩ : ∃ e, d = e + 2 := ⟨d - 2, by omega⟩
    have ih := ih (by omega)
    have e1 : e + 2 - 1 = e + 1 := by omega
    rw [e1] at ih ⊢
    refine ⟨by rw [capGo_close]; exact ih.1, by rw [namesGo_close]; exact ih.2.1, fun h => ?_⟩
    rw [fragGo_close] at h
    exact ih.2.2 h
  | case7 c rest d h1 h2 h3 ih =>
    intro hd
    obtain ⟨e, rfl⟩ : ∃ e, d = e + 1 := ⟨d - 1, by omega⟩
    have hc1 : c ≠ 0x5C := by simpa using h1
    have hc2 : c ≠ 0x5B := by simpa using h2
    have hc3 : c ≠ 0x5D := by simpa using h3
    have ih := ih hd
    exact ⟨by rw [capGo_in true e rest hc1 hc3 (.inr hc2)]; exact ih.1,
      by rw [namesGo_in true e rest hc1 hc3 (.inr hc2)]; exact ih.2.1,
      fun h => ih.2.2 (by rwa [fragGo_in F e rest hc1 hc3 (.inr hc2)] at h)⟩


/-- When `try_consume_named_capture_group_name` finds no name it restores the input to just after
the `<`, if there was one. -/
theorem tryConsumeName_none {r r3 : List Nat} (h : tryConsumeName r = .ok (none, r3)) :
    r3 = r ∨ r = 0x3C :: r3 := by
  unfold tryConsumeName at h
  split at h
  · rename_i orig
    right
    split at h
    · cases h; rfl
    · rename_i c rest hc
      split at h
      · -- the loop restores `orig`
        have : ∀ (fuel : Nat) (inp acc : List Nat) (r3 : List Nat),
            nameLoop fuel inp acc orig = .ok (none, r3) → r3 = orig := by
          intro fuel
          induction fuel with
          | zero => intro inp acc r3 h; simp [nameLoop, panicAt] at h
          | succ fuel ih =>
            intro inp acc r3 h
            rw [nameLoop.eq_def] at h
            simp only at h
            split at h
            · cases h; rfl
            · split at h
              · cases h
              · split at h
                · cases h; rfl
                · split at h
                  · exact ih _ _ _ h
                  · cases h; rfl
        rw [this _ _ _ _ h]
      · cases h; rfl
  · cases h; exact .inl rfl

theorem mapPush_new {β} (m : List (List Nat × List β)) (k : List Nat) (v : β) (h : k ∉ m.map (·.1)) :
    mapPush m k v = m ++ [(k, [v])] := by
  induction m with
  | nil => rfl
  | cons e m ih =>
    obtain ⟨k', vs⟩ := e
    simp only [List.map_cons, List.mem_cons, not_or] at h
    unfold mapPush
    have : (k' == k) = false := by simp; exact fun e => h.1 e.symm
    simp only [this, Bool.false_eq_true, if_false, List.cons_append]
    rw [ih h.2]

theorem mapPush_keys {β} (m : List (List Nat × List β)) (k : List Nat) (v : β) (x : List Nat) :
    x ∈ (mapPush m k v).map (·.1) ↔ x ∈ m.map (·.1) ∨ x = k := by
  induction m with
  | nil => simp [mapPush]
  | cons e m ih =>
    obtain ⟨k', vs⟩ := e
    unfold mapPush
    by_cases h : k' = k
    · subst h
      simp only [beq_self_eq_true, if_true, List.map_cons, List.mem_cons]
      constructor
      · rintro (h | h)
        · exact .inl (.inl h)
        · exact .inl (.inr h)
      · rintro ((h | h) | h)
        · exact .inl h
        · exact .inr h
        · exact .inl h
    · have hb : (k' == k) = false := by simpa using h
      simp only [hb, Bool.false_eq_true, if_false, List.map_cons, List.mem_cons, ih]
      constructor
      · rintro (h | h | h)
        · exact .inl (.inl h)
        · exact .inl (.inr h)
        · exact .inr h
      · rintro ((h | h) | h)
        · exact .inl h
        · exact .inr (.inl h)
        · exact .inr (.inr h)

/-- What the pre-scan has collected after a prefix whose names are `seen`: the keys of the two tables
are the names seen; `gmax` within the limit. -/
structure ScanInv (sc : Scan) (seen : List (List Nat)) : Prop where
  lk : ∀ x, x ∈ sc.locs.map (·.1) ↔ x ∈ seen
  nk : ∀ x, x ∈ sc.named.map (·.1) ↔ x ∈ seen
  nok : NamedOK sc.named
  gm : sc.gmax ≤ Gen.MAX_CAPTURE_GROUPS

/-- On the fragment the pre-scan does not fail, collects `lexNames` and counts
`capOpens` (saturating at `MAX_CAPTURE_GROUPS`). -/
theorem scanLoop_frag (F : Feat) (fl : Flags) (hkv : (F.k || F.lk) = true → fl.unicodeSets = false)
    (hvv : F.vk = true → fl.unicodeSets = true ∧ F.k = false ∧ F.lk = false) :
    ∀ (fuel : Nat) (inp : List Nat) (sc : Scan) (seen : List (List Nat)),
    fragCore F inp = true → (F.nm = true → AllChar inp) → inp.length < fuel → ScanInv sc seen →
    ∃ sc', scanLoop fl fuel inp sc = .ok sc' ∧ ScanInv sc' (seen ++ lexNames F.vk inp) ∧
      sc'.gmax = min (sc.gmax + capOpens F.vk inp) Gen.MAX_CAPTURE_GROUPS ∧
      ((seen ++ lexNames F.vk inp).Nodup → (∀ e ∈ sc.locs, ∃ p, e.2 = [p]) → ∀ e ∈ sc'.locs, ∃ p, e.2 = [p]) := by
  intro fuel
  induction fuel with
  | zero => intro inp sc seen _ _ hf; omega
  | succ fuel ih =>
    intro inp sc seen hfr hch hf hsi
    have hgm := hsi.gm
    unfold scanLoop
    rcases inp with _ | ⟨c, rest⟩
    · exact ⟨sc, rfl, by rw [lexNames_nil, List.append_nil]; exact hsi, by rw [capOpens_nil]; omega, fun _ h => h⟩
    · simp only [List.length_cons] at hf
      have hch' : F.nm = true → AllChar rest := fun h => (hch h).tail
      by_cases hc1 : c = 0x5C
      · -- an escape: the next character is skipped
        subst hc1
        simp only [beq_self_eq_true, if_true]
        rcases rest with _ | ⟨x, r⟩
        · rw [lexNames_bs_end]
          rw [capOpens_bs_end]
          have := ih [] sc seen rfl (fun _ => by intro c hc; cases hc) (by simp; omega) hsi
          rw [capOpens_nil, lexNames_nil] at this
          exact this
        · rw [fragCore_esc] at hfr
          simp only [Bool.and_eq_true] at hfr
          simp only [List.length_cons] at hf
          rw [lexNames_esc]
          rw [capOpens_esc]
          exact ih r sc seen hfr.2 (fun h => (hch' h).tail) (by omega) hsi
      have e1 : (c == 0x5C) = false := by simp [hc1]
      by_cases hc2 : c = 0x5B
      · -- a class: skipped up to the closing bracket
        subst hc2
        simp only [e1, beq_self_eq_true, Bool.false_eq_true, if_false, if_true]
        unfold fragCore at hfr
        rw [fragGo_open, Bool.and_eq_true] at hfr
        cases hvk : F.vk with
        | true =>
          -- class sets: brackets nest
          rw [(hvv hvk).1]
          simp only [if_true]
          obtain ⟨hs1, hs2, hs3⟩ := skipBracketV_scan F hvk rest 1 (Nat.le_refl _)
          have hlen := skipBracketV_length rest 1
          have hcap : capOpens true (0x5B :: rest) = capOpens true (skipBracketV rest 1) := by
            unfold capOpens; rw [capGo_open]; exact hs1
          have hnam : lexNames true (0x5B :: rest) = lexNames true (skipBracketV rest 1) := by
            unfold lexNames; rw [namesGo_open]; exact hs2
          rw [hvk] at ih
          rw [hnam]
          rw [hcap]
          exact ih (skipBracketV rest 1) sc seen (hs3 hfr.2)
            (fun h c hc => hch' h c ((skipBracketV_suffix rest 1).subset hc)) (by omega) hsi
        | false =>
        rw [hkv (by simpa [hvk] using hfr.1)]
        simp only [Bool.false_eq_true, if_false]
        rw [hvk] at ih
        obtain ⟨hs1, hs2, hs3⟩ := skipBracket_scan F hvk rest
        have hlen := skipBracket_length rest
        have hcap : capOpens false (0x5B :: rest) = capOpens false (skipBracket rest) := by
          unfold capOpens; rw [capGo_open]; exact hs1
        have hnam : lexNames false (0x5B :: rest) = lexNames false (skipBracket rest) := by
          unfold lexNames; rw [namesGo_open]; exact hs2
        rw [hnam]
        rw [hcap]
        have hsuf : ∀ l : List Nat, skipBracket l <:+ l := by
          intro l
          fun_induction skipBracket l with
          | case1 => exact List.suffix_refl _
          | case2 => exact List.nil_suffix
          | case3 c hc x r ih => exact (ih.trans (List.suffix_cons _ _)).trans (List.suffix_cons _ _)
          | case4 c rest => exact List.suffix_cons _ _
          | case5 c rest _ _ ih => exact ih.trans (List.suffix_cons _ _)
        exact ih (skipBracket rest) sc seen (hs3 hfr.2)
          (fun h c hc => hch' h c ((hsuf rest).subset hc)) (by omega) hsi
      have hpo := fragCore_head hc1 hc2 hfr
      have hfr' := fragCore_tail hc1 hc2 hfr
      have e2 : (c == 0x5B) = false := by simp [hc2]
      simp only [e1, e2, Bool.false_eq_true, if_false]
      by_cases hp : c = 0x28
      · subst hp
        have hpo := hpo rfl
        simp only [beq_self_eq_true, if_true]
        by_cases hq : ∃ rest2, rest = 0x3F :: rest2
        · obtain ⟨rest2, rfl⟩ := hq
          simp only [List.length_cons] at hf
          have hfr2 : fragCore F rest2 = true := fragCore_tail (by decide) (by decide) hfr'
          rw [lexNames_q]
          rw [capOpens_q]
          obtain ⟨ro, r3, htc, hlen3⟩ := tryConsumeName_ok rest2
          cases ro with
          | none =>
            -- no group name
            have hna : namedAhead rest2 = none := by unfold namedAhead; rw [htc]
            rw [hna]
            simp only [Option.isSome_none, Bool.false_eq_true, if_false, Nat.zero_add, Option.toList_none,
              List.nil_append]
            simp only [htc]
            rcases tryConsumeName_none htc with rfl | rfl
            · exact ih r3 _ seen hfr2 (fun h => (hch' h).tail) (by omega)
                ⟨hsi.lk, hsi.nk, hsi.nok, hsi.gm⟩
            · rw [lexNames_plain _ _ (by decide) (by decide) (fun h => by cases h)]
              rw [capOpens_plain _ _ (by decide) (by decide) (by decide)]
              exact ih r3 _ seen (fragCore_tail (by decide) (by decide) hfr2) (fun h => (hch' h).tail.tail)
                (by simp only [List.length_cons] at hf; omega) ⟨hsi.lk, hsi.nk, hsi.nok, hsi.gm⟩
          | some nm =>
            -- a named group
            have hna : namedAhead rest2 = some nm := by unfold namedAhead; rw [htc]
            rw [hna]
            simp only [Option.isSome_some, if_true, Option.toList_some]
            simp only [htc]
            have hlt : ∃ r0, rest2 = 0x3C :: r0 := by
              rcases rest2 with _ | ⟨y, r9⟩
              · simp [tryConsumeName] at htc
              · by_cases hy : y = 0x3C
                · exact ⟨r9, by rw [hy]⟩
                · have : tryConsumeName (y :: r9) = .ok (none, y :: r9) := by
                    unfold tryConsumeName
                    split
                    · rename_i heq; cases heq; exact absurd rfl hy
                    · rfl
                  rw [this] at htc; cases htc
            obtain ⟨r0, rfl⟩ := hlt
            have hnmF : F.nm = true := by
              rcases r0 with _ | ⟨z, r9⟩
              · simp [tryConsumeName, Parse.nameChar] at htc
              · simp only [parenOk, Bool.or_eq_true, beq_iff_eq] at hpo
                rcases hpo with (h | h) | h
                · subst h; simp [tryConsumeName, Parse.nameChar, Parse.isChar, isIdStart_eq] at htc
                · subst h; simp [tryConsumeName, Parse.nameChar, Parse.isChar, isIdStart_bang] at htc
                · exact h
            have hch0 : AllChar r0 := (hch' hnmF).tail.tail
            have hgn : groupName tabs r0 = some (nm, r3) := by
              have := groupName_sim r0 hch0
              cases hg : groupName tabs r0 with
              | none => rw [hg] at this; rw [this] at htc; cases htc
              | some p =>
                obtain ⟨nm', r1'⟩ := p
                rw [hg] at this; rw [this] at htc
                cases htc; rfl
            obtain ⟨p, hp, hnp⟩ := name_neutral F hch0 hgn
            have hlen4 : r3.length < r0.length := groupName_len _ _ _ _ hgn
            have hch3 : AllChar r3 := by
              have := (hch' hnmF).tail
              rw [hp] at this; exact this.append_right
            have hfr3 : fragCore F r3 = true := by rw [hp] at hfr2; exact hnp.frag' hfr2
            rw [hp, hnp.names_eq r3]
            rw [hnp.cap_eq r3]
            have hstep : ∀ g, g ≤ Gen.MAX_CAPTURE_GROUPS →
                (if g + 1 > Gen.MAX_CAPTURE_GROUPS then Gen.MAX_CAPTURE_GROUPS else g + 1) ≤ Gen.MAX_CAPTURE_GROUPS ∧
                min ((if g + 1 > Gen.MAX_CAPTURE_GROUPS then Gen.MAX_CAPTURE_GROUPS else g + 1) + capOpens F.vk r3)
                  Gen.MAX_CAPTURE_GROUPS = min (g + (1 + capOpens F.vk r3)) Gen.MAX_CAPTURE_GROUPS := by
              intro g hg; split <;> omega
            obtain ⟨hs1, hs2⟩ := hstep sc.gmax hgm
            have hsi' : ScanInv
                { sc with locs := mapPush sc.locs nm ((List.range (sc.parenDepth + 1)).map fun d =>
                            ((altGet sc.groupIds d).getD 0, (altGet sc.altIdx d).getD 0)),
                          named := mapPush sc.named nm sc.gmax,
                          gmax := if sc.gmax + 1 > Gen.MAX_CAPTURE_GROUPS then Gen.MAX_CAPTURE_GROUPS
                                  else sc.gmax + 1,
                          parenDepth := sc.parenDepth + 1,
                          altIdx := altInsert sc.altIdx (sc.parenDepth + 1) 0,
                          groupIds := altInsert sc.groupIds (sc.parenDepth + 1) sc.nextGroupId,
                          nextGroupId := sc.nextGroupId + 1 } (seen ++ [nm]) := by
              refine ⟨?_, ?_, ?_, hs1⟩
              · intro x
                simp only
                rw [mapPush_keys, hsi.lk x]
                simp
              · intro x
                simp only
                rw [mapPush_keys, hsi.nk x]
                simp
              · exact mapPush_namedOK hsi.nok _ _
            obtain ⟨sc', h1, h2, h3, h4⟩ := ih r3 _ (seen ++ [nm]) hfr3
              (fun _ => hch3) (by simp only [List.length_cons] at hf; omega) hsi'
            refine ⟨sc', h1, by simpa using h2, ?_, ?_⟩
            · rw [h3]; exact hs2
            · intro hnd hl1
              have hnew : nm ∉ seen := by
                intro hm
                exact (List.nodup_append.1 hnd).2.2 nm hm nm (by simp) rfl
              refine h4 (by simpa using hnd) ?_
              simp only
              rw [mapPush_new _ _ _ (fun h => hnew ((hsi.lk nm).1 h))]
              intro e he
              rcases List.mem_append.1 he with h | h
              · exact hl1 e h
              · simp at h; subst h; exact ⟨_, rfl⟩
        · have hne : ∀ r2, rest ≠ 0x3F :: r2 := fun r2 e => hq ⟨r2, e⟩
          rw [lexNames_plain _ _ (by decide) (by decide) (fun _ => hne)]
          rw [capOpens_cap _ hne]
          have hstep : ∀ g, g ≤ Gen.MAX_CAPTURE_GROUPS →
              (if g + 1 > Gen.MAX_CAPTURE_GROUPS then Gen.MAX_CAPTURE_GROUPS else g + 1) ≤ Gen.MAX_CAPTURE_GROUPS ∧
              min ((if g + 1 > Gen.MAX_CAPTURE_GROUPS then Gen.MAX_CAPTURE_GROUPS else g + 1) + capOpens F.vk rest)
                Gen.MAX_CAPTURE_GROUPS = min (g + (capOpens F.vk rest + 1)) Gen.MAX_CAPTURE_GROUPS := by
            intro g hg; split <;> omega
          obtain ⟨hs1, hs2⟩ := hstep sc.gmax hgm
          rcases rest with _ | ⟨y, r2⟩
          · simp only
            obtain ⟨sc', h1, h2, h3, h4⟩ := ih []
              { sc with gmax := if sc.gmax + 1 > Gen.MAX_CAPTURE_GROUPS then Gen.MAX_CAPTURE_GROUPS
                                else sc.gmax + 1,
                        parenDepth := sc.parenDepth + 1,
                        altIdx := altInsert sc.altIdx (sc.parenDepth + 1) 0,
                        groupIds := altInsert sc.groupIds (sc.parenDepth + 1) sc.nextGroupId,
                        nextGroupId := sc.nextGroupId + 1 } seen hfr' hch' (by simp; omega)
              ⟨hsi.lk, hsi.nk, hsi.nok, hs1⟩
            exact ⟨sc', h1, h2, by rw [h3]; exact hs2, h4⟩
          · have hy : y ≠ 0x3F := fun e => hne r2 (by rw [e])
            simp only [hy]
            obtain ⟨sc', h1, h2, h3, h4⟩ := ih (y :: r2)
              { sc with gmax := if sc.gmax + 1 > Gen.MAX_CAPTURE_GROUPS then Gen.MAX_CAPTURE_GROUPS
                                else sc.gmax + 1,
                        parenDepth := sc.parenDepth + 1,
                        altIdx := altInsert sc.altIdx (sc.parenDepth + 1) 0,
                        groupIds := altInsert sc.groupIds (sc.parenDepth + 1) sc.nextGroupId,
                        nextGroupId := sc.nextGroupId + 1 } seen hfr' hch' (by omega)
              ⟨hsi.lk, hsi.nk, hsi.nok, hs1⟩
            exact ⟨sc', h1, h2, by rw [h3]; exact hs2, h4⟩
      · have e3 : (c == 0x28) = false := by simp [hp]
        simp only [e3, Bool.false_eq_true, if_false]
        rw [lexNames_plain _ _ hc1 hc2 (fun h => absurd h hp)]
        rw [capOpens_plain _ _ hp hc1 hc2]
        split
        · split
          · exact ih rest _ seen hfr' hch' (by omega) ⟨hsi.lk, hsi.nk, hsi.nok, hsi.gm⟩
          · exact ih rest sc seen hfr' hch' (by omega) hsi
        · split
          · exact ih rest _ seen hfr' hch' (by omega) ⟨hsi.lk, hsi.nk, hsi.nok, hsi.gm⟩
          · exact ih rest sc seen hfr' hch' (by omega) hsi

/-- The crate's verdict on duplicate group names: the locations the pre-scan collects fail
`check_duplicate_conflicts` (`true`; also when the pre-scan itself fails) or pass it (`false`). -/
def crateDup (v : Bool) (pat : List Nat) : Bool :=
  match scanLoop { unicodeSets := v } (pat.length + 1) pat {} with
  | .ok sc => sc.locs.any (fun e => anyConflict e.2)
  | .error _ => true

/-- The pre-scan looks at the flag `v` only. -/
theorem scanLoop_flags (fl fl' : Flags) (h : fl.unicodeSets = fl'.unicodeSets) :
    ∀ (fuel : Nat) (inp : List Nat) (sc : Scan), scanLoop fl fuel inp sc = scanLoop fl' fuel inp sc := by
  intro fuel
  induction fuel with
  | zero => intro inp sc; rfl
  | succ fuel ih =>
    intro inp sc
    unfold scanLoop
    simp only [ih, h]

/-- On the fragment the pre-scan fails exactly when it finds conflicting duplicate names; otherwise it
sets `groupCountMax` to the lexical group count and builds a name table whose keys are the lexical
names. -/
theorem parseCaptureGroups_frag (F : Feat) (st : PState) (h : fragCore F st.input = true)
    (hch : F.nm = true → AllChar st.input)
    (hkv : (F.k || F.lk) = true → st.flags.unicodeSets = false)
    (hvv : F.vk = true → st.flags.unicodeSets = true ∧ F.k = false ∧ F.lk = false)
    (h0 : st.groupCountMax = 0) (hn0 : st.named = []) :
    ∃ N, (∀ x, x ∈ N.map (·.1) ↔ x ∈ lexNames F.vk st.input) ∧ NamedOK N ∧
      (crateDup st.flags.unicodeSets st.input = false → parseCaptureGroups st =
        .ok { st with groupCountMax := min (capOpens F.vk st.input) Gen.MAX_CAPTURE_GROUPS, named := N }) ∧
      (crateDup st.flags.unicodeSets st.input = true → ∃ e, parseCaptureGroups st = .error e) := by
  have hsi0 : ScanInv { named := st.named, gmax := st.groupCountMax } [] := by
    refine ⟨?_, ?_, ?_, ?_⟩
    · intro x; simp
    · intro x; simp only [hn0]; simp
    · simp only [hn0]; intro e he; cases he
    · simp only [h0]; exact Nat.zero_le _
  obtain ⟨sc', h1, h2, h4, _⟩ := scanLoop_frag F st.flags hkv hvv (st.input.length + 1) st.input
    { named := st.named, gmax := st.groupCountMax } [] h hch (by omega) hsi0
  have hsc : ({ named := st.named, gmax := st.groupCountMax } : Scan) = {} := by rw [hn0, h0]
  have hcd : crateDup st.flags.unicodeSets st.input = sc'.locs.any (fun e => anyConflict e.2) := by
    unfold crateDup
    rw [scanLoop_flags { unicodeSets := st.flags.unicodeSets } st.flags rfl, ← hsc, h1]
  refine ⟨sc'.named, by simpa using h2.nk, h2.nok, fun hd => ?_, fun hd => ?_⟩
  · unfold parseCaptureGroups
    rw [h1]
    rw [hcd] at hd
    simp only [hd, Bool.false_eq_true, if_false]
    rw [h4, h0, Nat.zero_add]
  · unfold parseCaptureGroups
    rw [h1]
    rw [hcd] at hd
    simp only [hd, if_true]
    exact ⟨_, rfl⟩

theorem anyConflict_singletons {β} (locs : List (β × List (List (Nat × Nat))))
    (h : ∀ e ∈ locs, ∃ p, e.2 = [p]) : locs.any (fun e => anyConflict e.2) = false := by
  rw [List.any_eq_false]
  intro e he
  obtain ⟨p, hp⟩ := h e he
  rw [hp]
  simp [anyConflict]

/-- Pairwise distinct group names: the crate's duplicate check passes. -/
theorem crateDup_nodup (F : Feat) (fl : Flags) (hkv : (F.k || F.lk) = true → fl.unicodeSets = false)
    (hvv : F.vk = true → fl.unicodeSets = true ∧ F.k = false ∧ F.lk = false) (pat : List Nat)
    (hfr : fragCore F pat = true) (hch : F.nm = true → AllChar pat) (hnd : (lexNames F.vk pat).Nodup) :
    crateDup fl.unicodeSets pat = false := by
  obtain ⟨sc', h1, _, _, h5⟩ := scanLoop_frag F fl hkv hvv (pat.length + 1) pat {} [] hfr hch (by omega)
    ⟨fun x => (by simp), fun x => (by simp), fun e he => (by cases he), Nat.zero_le _⟩
  unfold crateDup
  rw [scanLoop_flags { unicodeSets := fl.unicodeSets } fl rfl, h1]
  exact anyConflict_singletons _ (h5 (by simpa using hnd) (fun e he => by cases he))

theorem namesGo_q0 (v : Bool) (r : List Nat) :
    namesGo v 0 (0x28 :: 0x3F :: r) = (namedAhead r).toList ++ namesGo v 0 r := lexNames_q v r

theorem namesGo_plain0 (v : Bool) {c : Nat} (r : List Nat) (h2 : c ≠ 0x5C) (h3 : c ≠ 0x5B)
    (h1 : c = 0x28 → ∀ r', r ≠ 0x3F :: r') : namesGo v 0 (c :: r) = namesGo v 0 r := lexNames_plain v r h2 h3 h1

/-- Pairwise distinct group names: the scope scanner accepts. -/
theorem scopeGo_nodup (v : Bool) : ∀ (d : Nat) (stk : List Frame) (cur : List (List Nat)) (l : List Nat),
    (namesGo v d l).Nodup → (∀ x ∈ cur, x ∉ namesGo v d l) →
    (∀ fr ∈ stk, ∀ x, (x ∈ fr.1 ∨ x ∈ fr.2) → x ∉ namesGo v d l) → scopeGo v d stk cur l = true := by
  intro d stk cur l
  fun_induction scopeGo v d stk cur l with
  | case1 => intros; rfl
  | case2 d stk cur x r ih => rw [namesGo_esc]; exact ih
  | case3 d stk cur r ih => rw [namesGo_close]; exact ih
  | case4 d stk cur r h ih => subst h; rw [namesGo_nest]; exact ih
  | case5 d stk cur r h ih =>
    have hv : v = false := by simpa using h
    subst hv
    rw [namesGo_in false d r (by decide) (by decide) (.inl rfl)]; exact ih
  | case6 d stk cur c r h1 h2 h3 ih =>
    rw [namesGo]
    · exact ih
    all_goals assumption
  | case7 => intros; rfl
  | case8 stk cur x r ih => rw [namesGo_esc]; exact ih
  | case9 stk cur r ih => rw [namesGo_open]; exact ih
  | case10 stk cur r nm hna ih =>
    rw [namesGo_q0, hna]
    simp only [Option.toList_some, List.singleton_append, List.nodup_cons, List.mem_cons, not_or]
    intro hnd hc hs
    have h1 : cur.contains nm = false := by
      cases hcn : cur.contains nm with
      | false => rfl
      | true => exact absurd rfl (hc nm (by simpa using hcn)).1
    rw [h1]
    simp only [Bool.not_false, Bool.true_and]
    refine ih hnd.2 ?_ ?_
    · intro x hx
      rcases List.mem_cons.1 hx with hx | hx
      · rw [hx]; exact hnd.1
      · exact (hc x hx).2
    · intro fr hfr x hx
      rcases List.mem_cons.1 hfr with rfl | hfr
      · rcases hx with hx | hx
        · rcases List.mem_cons.1 hx with hx | hx
          · rw [hx]; exact hnd.1
          · exact (hc x hx).2
        · cases hx
      · exact (hs fr hfr x hx).2
  | case11 stk cur r hna ih =>
    rw [namesGo_q0, hna]
    simp only [Option.toList_none, List.nil_append]
    intro hnd hc hs
    refine ih hnd hc ?_
    intro fr hfr x hx
    rcases List.mem_cons.1 hfr with rfl | hfr
    · rcases hx with hx | hx
      · exact hc x hx
      · cases hx
    · exact hs fr hfr x hx
  | case12 stk cur r hq ih =>
    rw [namesGo_plain0 v r (by decide) (by decide) (fun _ r' h => hq r' h)]
    intro hnd hc hs
    refine ih hnd hc ?_
    intro fr hfr x hx
    rcases List.mem_cons.1 hfr with rfl | hfr
    · rcases hx with hx | hx
      · exact hc x hx
      · cases hx
    · exact hs fr hfr x hx
  | case13 cur r sv acc rest ih =>
    rw [namesGo_plain0 v r (by decide) (by decide) (fun h => by cases h)]
    intro hnd hc hs
    refine ih hnd (fun x hx => hs (sv, acc) (by simp) x (.inl hx)) ?_
    intro fr hfr x hx
    rcases List.mem_cons.1 hfr with rfl | hfr
    · rcases hx with hx | hx
      · exact hs (sv, acc) (by simp) x (.inl hx)
      · rcases List.mem_append.1 hx with hx | hx
        · exact hs (sv, acc) (by simp) x (.inr hx)
        · exact hc x hx
    · exact hs fr (by simp [hfr]) x hx
  | case14 cur r ih =>
    rw [namesGo_plain0 v r (by decide) (by decide) (fun h => by cases h)]
    intro hnd hc hs
    exact ih hnd hc hs
  | case15 cur r sv acc fr rest ih =>
    rw [namesGo_plain0 v r (by decide) (by decide) (fun h => by cases h)]
    intro hnd hc hs
    refine ih hnd ?_ (fun fr' hfr x hx => hs fr' (List.mem_cons_of_mem _ hfr) x hx)
    intro x hx
    rcases List.mem_append.1 hx with hx | hx
    · exact hs (sv, acc) (by simp) x (.inr hx)
    · exact hc x hx
  | case16 stk cur r _ ih =>
    rw [namesGo_plain0 v r (by decide) (by decide) (fun h => by cases h)]
    intro hnd hc hs
    exact ih hnd hc hs
  | case17 stk cur c r h1 h2 h3 h4 h5 h6 ih =>
    rw [namesGo]
    · exact ih
    all_goals assumption

theorem scopeOk_nodup (v : Bool) (pat : List Nat) (h : (lexNames v pat).Nodup) : scopeOk v pat = true :=
  scopeGo_nodup v 0 _ _ pat h (fun x hx => by cases hx) (fun fr hfr x hx => by
    rcases List.mem_singleton.1 hfr with rfl
    rcases hx with hx | hx <;> cases hx)

/-! ## `try_parse` -/

theorem finalize_ok (st : PState) (re : Regex) (h : POut re.node) : ∃ re', finalize st re = .ok re' := by
  unfold finalize
  split
  · obtain ⟨n', h1, _, _⟩ := reverseCats_ok false re.node h
    rw [h1]; exact ⟨_, rfl⟩
  · exact ⟨_, rfl⟩

/-- `parseBody` answers `Ok` exactly when the descent consumes the whole input. -/
theorem parseBody_isOk (st : PState) (hi : Inv st) :
    (parseBody st).isOk = true ↔
      ∃ nd st1, consumeDisjunction (parseFuel st.input) st = .ok (nd, st1) ∧ st1.input = [] := by
  unfold parseBody
  have h := (descent_all (parseFuel st.input)).disj st hi (by unfold parseFuel; omega)
  cases hc : consumeDisjunction (parseFuel st.input) st with
  | error e => simp [Except.isOk, Except.toBool]
  | ok p =>
    obtain ⟨body, st1⟩ := p
    have h1 : DisjPost st (body, st1) := h.ok_of_eq hc
    simp only
    cases hin : st1.input with
    | cons c r =>
      simp only
      constructor
      · intro hh; split at hh <;> simp [Except.isOk, Except.toBool, synErr] at hh
      · rintro ⟨nd, st2, he, h2⟩
        cases he
        rw [hin] at h2; cases h2
    | nil =>
      simp only
      obtain ⟨re', hre⟩ := finalize_ok st1 { node := makeCat [body, .goal], flags := st1.flags }
        (makeCat_POut (ns := [body, .goal]) ⟨h1.1, by simp [POut], trivial⟩)
      rw [hre]
      simp only [Except.isOk, Except.toBool, true_iff]
      exact ⟨body, st1, rfl, hin⟩

/-- The flags `parse` works with. -/
def effFlags (fl : Flags) : Flags := if fl.unicodeSets then { fl with unicode := true } else fl

theorem effFlags_usets (fl : Flags) : (effFlags fl).unicodeSets = fl.unicodeSets := by
  unfold effFlags; split <;> rfl

/-- `parse` fails when the pre-scan finds conflicting duplicate names; otherwise it answers `Ok` exactly
when the descent (from the state the pre-scan leaves) consumes the whole pattern. -/
theorem parse_isOk_iff (F : Feat) (pat : List Nat) (fl : Flags) (hb : Bnd pat) (hfr : fragCore F pat = true)
    (hch : F.nm = true → AllChar pat) (hkv : (F.k || F.lk) = true → fl.unicodeSets = false)
    (hvv : F.vk = true → fl.unicodeSets = true ∧ F.k = false ∧ F.lk = false) :
    ∃ N, (∀ x, x ∈ N.map (·.1) ↔ x ∈ lexNames F.vk pat) ∧ NamedOK N ∧
      (crateDup fl.unicodeSets pat = false →
        ((parse pat fl).isOk = true ↔
          ∃ nd st1, consumeDisjunction (parseFuel pat)
            { input := pat, flags := effFlags fl,
              groupCountMax := min (capOpens F.vk pat) Gen.MAX_CAPTURE_GROUPS, named := N } = .ok (nd, st1) ∧
            st1.input = [])) ∧
      (crateDup fl.unicodeSets pat = true → (parse pat fl).isOk = false) := by
  have hkv' : (F.k || F.lk) = true → (effFlags fl).unicodeSets = false := fun h => by
    rw [effFlags_usets]; exact hkv h
  obtain ⟨N, hN, hNok, hg1, hg2⟩ := parseCaptureGroups_frag F { input := pat, flags := effFlags fl } hfr hch hkv'
    (fun h => ⟨by rw [effFlags_usets]; exact (hvv h).1, (hvv h).2⟩) rfl rfl
  simp only [effFlags_usets] at hg1 hg2
  refine ⟨N, hN, hNok, fun hd => ?_, fun hd => ?_⟩
  · have hg := hg1 hd
    have hpe : parse pat fl = parseBody
        { input := pat, flags := effFlags fl, groupCountMax := min (capOpens F.vk pat) Gen.MAX_CAPTURE_GROUPS,
          named := N } := by
      unfold parse tryParse
      simp only
      unfold effFlags at hg
      rw [hg]
      rfl
    rw [hpe]
    exact parseBody_isOk _ ⟨hNok, by simp [Gen.MAX_NESTING_DEPTH],
      by simp [Gen.MAX_CAPTURE_GROUPS], by simp [Gen.MAX_LOOPS], hb⟩
  · obtain ⟨e, he⟩ := hg2 hd
    have hpe : parse pat fl = .error e := by
      unfold parse tryParse
      simp only
      unfold effFlags at he
      rw [he]
    rw [hpe]
    rfl

/-! ## `parsePattern`, and the two joined -/

/-- Outside UnicodeMode the grammar never records a decimal escape. -/
def Mono0 (c : Cfg) (n : Nat) : Prop :=
  (∀ s st r st', disj c n s st = .ok (r, st') → st'.maxDec = st.maxDec ∧ (c.n = false → st'.refs = st.refs)) ∧
  (∀ s st r st', alt c n s st = .ok (r, st') → st'.maxDec = st.maxDec ∧ (c.n = false → st'.refs = st.refs)) ∧
  (∀ s st r st', body c n s st = .ok (r, st') → st'.maxDec = st.maxDec ∧ (c.n = false → st'.refs = st.refs)) ∧
  (∀ s st r st', term c n s st = .ok (r, st') → st'.maxDec = st.maxDec ∧ (c.n = false → st'.refs = st.refs)) ∧
  (∀ s st r st', quantified c n s st = .ok (r, st') → st'.maxDec = st.maxDec ∧ (c.n = false → st'.refs = st.refs)) ∧
  (∀ s st r st', atom c n s st = .ok (r, st') → st'.maxDec = st.maxDec ∧ (c.n = false → st'.refs = st.refs))

theorem atomEscape_mono0 (c : Cfg) (hc : c.u = false) (s : List Nat) (st : ESG.St) (r : List Nat) (st' : ESG.St)
    (h : atomEscape c s st = .ok (r, st')) : st'.maxDec = st.maxDec ∧ (c.n = false → st'.refs = st.refs) := by
  unfold atomEscape namedRef at h
  repeat' split at h
  all_goals grind

theorem mono0 (c : Cfg) (hc : c.u = false) (n : Nat) : Mono0 c n := by
  induction n with
  | zero =>
    refine ⟨?_, ?_, ?_, ?_, ?_, ?_⟩ <;> intro s st r st' h
    · simp [disj] at h
    · simp [alt] at h
    · simp [body] at h
    · simp [term] at h
    · simp [quantified] at h
    · simp [atom] at h
  | succ n ih =>
    obtain ⟨ihD, ihA, ihB, ihT, ihQ, ihM⟩ := ih
    refine ⟨?_, ?_, ?_, ?_, ?_, ?_⟩
    · intro s st r st' h
      unfold disj at h
      repeat' split at h
      all_goals grind
    · intro s st r st' h
      unfold alt at h
      repeat' split at h
      all_goals grind
    · intro s st r st' h
      unfold body at h
      repeat' split at h
      all_goals grind
    · intro s st r st' h
      unfold term at h
      repeat' split at h
      all_goals grind
    · intro s st r st' h
      unfold quantified at h
      repeat' split at h
      all_goals grind
    · intro s st r st' h
      unfold atom at h
      repeat' split at h
      all_goals grind [→ atomEscape_mono0, addName]

theorem capGo_le_opens (v : Bool) : ∀ (n : Nat) (m : Nat) (l : List Nat), l.length ≤ n → capGo v m l ≤ opens l := by
  intro n
  induction n with
  | zero => intro m l hl; cases l with | nil => rw [capGo_nil]; omega | cons _ _ => simp at hl
  | succ n ih =>
    intro m l hl
    rcases l with _ | ⟨c, r⟩
    · rw [capGo_nil]; omega
    · simp only [List.length_cons] at hl
      have hop : opens r ≤ opens (c :: r) := by simp only [opens]; split <;> omega
      by_cases hc : c = 0x5C
      · subst hc
        rcases r with _ | ⟨x, r'⟩
        · cases m <;> (rw [capGo] <;> simp [capGo_nil])
        · rw [capGo_esc]
          simp only [List.length_cons] at hl
          have := ih m r' (by omega)
          have : opens r' ≤ opens (x :: r') := by simp only [opens]; split <;> omega
          omega
      · cases m with
        | succ d =>
          by_cases hd : c = 0x5D
          · subst hd
            rw [capGo_close]
            have := ih d r (by omega); omega
          · by_cases hb : c = 0x5B
            · subst hb
              cases v with
              | true =>
                rw [capGo_nest]
                have := ih (d + 2) r (by omega); omega
              | false =>
                rw [capGo_in false d r hc hd (.inl rfl)]
                have := ih (d + 1) r (by omega); omega
            · rw [capGo_in v d r hc hd (.inr hb)]
              have := ih (d + 1) r (by omega); omega
        | zero =>
          by_cases hb : c = 0x5B
          · subst hb
            rw [capGo_open]
            have := ih 1 r (by omega); omega
          · by_cases hp : c = 0x28
            · subst hp
              by_cases hq : ∃ r', r = 0x3F :: r'
              · obtain ⟨r', rfl⟩ := hq
                have e1 := capOpens_q v r'
                unfold capOpens at e1
                rw [e1]
                simp only [List.length_cons] at hl
                have := ih 0 r' (by omega)
                simp only [opens]
                split <;> simp <;> omega
              · have e1 := capOpens_cap v (fun r' e => hq ⟨r', e⟩)
                unfold capOpens at e1
                rw [e1]
                have := ih 0 r (by omega)
                simp [opens]; omega
            · have e1 := capOpens_plain v r hp hc hb
              unfold capOpens at e1
              rw [e1]
              have := ih 0 r (by omega); omega

theorem capOpens_le_opens (v : Bool) (l : List Nat) : capOpens v l ≤ opens l :=
  capGo_le_opens v _ 0 l (Nat.le_refl _)

theorem mapGet_isSome_iff {β} (m : List (List Nat × β)) (k : List Nat) :
    (mapGet m k).isSome = true ↔ k ∈ m.map (·.1) := by
  induction m with
  | nil => simp [mapGet]
  | cons e m ih =>
    obtain ⟨k', v⟩ := e
    unfold mapGet
    by_cases hk : k' = k
    · subst hk; simp
    · have : (k' == k) = false := by simp [hk]
      simp only [this, Bool.false_eq_true, if_false, List.map_cons, List.mem_cons]
      rw [ih]
      constructor
      · exact .inr
      · rintro (h | h)
        · exact absurd h.symm hk
        · exact h

/-- Without named groups admitted the fragment has no group name. -/
theorem namesGo_nil_of_frag (F : Feat) (hnm : F.nm = false) : ∀ (n : Nat) (m : Nat) (l : List Nat),
    l.length ≤ n → fragGo F m l = true → namesGo F.vk m l = [] := by
  intro n
  induction n with
  | zero => intro m l hl _; cases l with | nil => exact namesGo_nil _ m | cons _ _ => simp at hl
  | succ n ih =>
    intro m l hl hf
    rcases l with _ | ⟨c, r⟩
    · exact namesGo_nil _ m
    · simp only [List.length_cons] at hl
      by_cases hc : c = 0x5C
      · subst hc
        rcases r with _ | ⟨x, r'⟩
        · cases m <;> (rw [namesGo] <;> simp [namesGo_nil])
        · rw [namesGo_esc]
          simp only [List.length_cons] at hl
          cases m with
          | succ d =>
            rw [fragGo_esc_in, Bool.and_eq_true] at hf
            exact ih (d + 1) r' (by omega) hf.2
          | zero =>
            rw [fragGo_esc_out, Bool.and_eq_true] at hf
            exact ih 0 r' (by omega) hf.2
      · cases m with
        | succ d =>
          by_cases hd : c = 0x5D
          · subst hd
            rw [namesGo_close]
            rw [fragGo_close] at hf
            exact ih d r (by omega) hf
          · by_cases hb : c = 0x5B
            · subst hb
              cases hv : F.vk with
              | true =>
                rw [namesGo_nest]
                rw [fragGo_nest F hv] at hf
                have := ih (d + 2) r (by omega) hf
                rwa [hv] at this
              | false =>
                rw [namesGo_in false d r hc hd (.inl rfl)]
                rw [fragGo_in F d r hc hd (.inl hv)] at hf
                have := ih (d + 1) r (by omega) hf
                rwa [hv] at this
            · rw [namesGo_in _ d r hc hd (.inr hb)]
              rw [fragGo_in F d r hc hd (.inr hb)] at hf
              exact ih (d + 1) r (by omega) hf
        | zero =>
          by_cases hb : c = 0x5B
          · subst hb
            rw [namesGo_open]
            rw [fragGo_open, Bool.and_eq_true] at hf
            exact ih 1 r (by omega) hf.2
          · have hf' : fragCore F (c :: r) = true := hf
            have htl := fragCore_tail hc hb hf'
            have hpo := fragCore_head hc hb hf'
            by_cases hq : c = 0x28 ∧ ∃ r', r = 0x3F :: r'
            · obtain ⟨rfl, r', rfl⟩ := hq
              have e1 := lexNames_q F.vk r'
              unfold lexNames at e1
              rw [e1]
              have hpo := hpo rfl
              rw [hnm] at hpo
              have hna : namedAhead r' = none := by
                apply namedAhead_none
                rcases r' with _ | ⟨y, r2⟩
                · exact .inl (by intro r' h; cases h)
                · by_cases hy : y = 0x3C
                  · subst hy
                    rcases r2 with _ | ⟨z, r3⟩
                    · simp [parenOk] at hpo
                    · simp only [parenOk, Bool.or_false, Bool.or_eq_true, beq_iff_eq] at hpo
                      exact .inr (.inl ⟨z, r3, rfl, hpo⟩)
                  · exact .inl (by intro r' h; cases h; exact hy rfl)
              rw [hna]
              simp only [Option.toList_none, List.nil_append]
              exact ih 0 _ (by simp only [List.length_cons] at hl ⊢; omega) htl
            · have e1 := lexNames_plain F.vk r hc hb (fun h r' hr => hq ⟨h, r', hr⟩)
              unfold lexNames at e1
              rw [e1]
              exact ih 0 r (by omega) htl

theorem lexNames_nil_of_frag (F : Feat) (hnm : F.nm = false) {pat : List Nat} (h : fragCore F pat = true) :
    lexNames F.vk pat = [] := namesGo_nil_of_frag F hnm _ 0 pat (Nat.le_refl _) h

theorem mapGet_append {β} (m m' : List (List Nat × β)) (k : List Nat) :
    mapGet (m ++ m') k = match mapGet m k with | some v => some v | none => mapGet m' k := by
  induction m with
  | nil => rfl
  | cons e m ih =>
    obtain ⟨k', v⟩ := e
    simp only [List.cons_append]
    rw [mapGet, mapGet]
    split
    · rfl
    · exact ih

/-- The descent from the state the pre-scan leaves, against `parsePattern`: when the scope scanner
accepts the pattern the two agree, otherwise the grammar rejects it. -/
theorem frag_core (F : Feat) (c : Cfg) (pat : List Nat) (fl' : Flags) (N : List (List Nat × List Nat))
    (hu : c.u = fl'.unicode)
    (hmode : c.u = true → c.n = true)
    (heu : F.e = true → fl'.unicode = true)
    (hkk : F.k = true → F.e = true ∧ fl'.unicode = true ∧ c.v = false ∧ fl'.unicodeSets = false ∧ F.vk = false)
    (hnn : F.nm = true → c.t = tabs ∧ c.feat25 = true) (hmd : F.md = true → c.feat25 = true)
    (hpr : F.pr = true → c.t = tabs ∧ c.v = fl'.unicodeSets)
    (hle : F.le = true → fl'.unicode = false ∧ fl'.unicodeSets = false ∧ (F.nm = false → c.n = false))
    (hlk : F.lk = true → fl'.unicode = false ∧ c.v = false ∧ fl'.unicodeSets = false ∧ F.vk = false ∧
      (F.nm = false → c.n = false))
    (hvc : F.vk = true → fl'.unicode = true ∧ F.e = true ∧ c.v = true ∧ c.t = tabs ∧ fl'.unicodeSets = true ∧
      md true pat + brk pat ≤ 255)
    (hch : F.e = true ∨ F.nm = true → ∀ c ∈ pat, Parse.isChar c = true)
    (hfr : fragCore F pat = true) (hlim : withinLimits pat = true)
    (hN : ∀ x, x ∈ N.map (·.1) ↔ x ∈ lexNames F.vk pat) (hNok : NamedOK N) :
    ((scopeOk F.vk pat = true →
      ((∃ nd st1, consumeDisjunction (parseFuel pat)
          { input := pat, flags := fl', groupCountMax := min (capOpens F.vk pat) Gen.MAX_CAPTURE_GROUPS, named := N } =
            .ok (nd, st1) ∧ st1.input = []) ↔
        ∃ st, parsePattern c pat = .ok st)) ∧
      (scopeOk F.vk pat = false → ¬ ∃ st, parsePattern c pat = .ok st)) ∧
    (∀ st, parsePattern c pat = .ok st → st.names.reverse = lexNames F.vk pat) ∧ parsePattern c pat ≠ .fuel := by
  simp only [withinLimits, Bool.and_eq_true, decide_eq_true_eq] at hlim
  obtain ⟨⟨hl1, hl2⟩, hl3⟩ := hlim
  have hdp : dpot F pat ≤ 255 := by
    unfold dpot
    cases hvk : F.vk with
    | false => simpa using hl1
    | true => simpa using (hvc hvk).2.2.2.2.2
  have hK : capOpens F.vk pat ≤ 65535 := Nat.le_trans (capOpens_le_opens _ pat) hl2
  have hmin : min (capOpens F.vk pat) Gen.MAX_CAPTURE_GROUPS = capOpens F.vk pat := by
    simp only [Gen.MAX_CAPTURE_GROUPS]; omega
  rw [hmin]
  -- the run of the crate (pre-scan count `K`, name table `N`), and hypothetical runs with a larger
  -- count and a larger table
  have hrun : ∀ (G : Nat) (N' : List (List Nat × List Nat)), NamedOK N' →
      ((F.le = true ∨ F.lk = true) → F.nm = false → N' = []) →
      Out ⟨G, capOpens F.vk pat, N', lexNames F.vk pat, fl'.unicodeSets, scopeOk F.vk pat⟩ (disj c (8 * (pat.length + 2)) pat {})
      (fun r est' => ∃ ts st', disjLoop (4 * pat.length + 7)
          { input := pat, flags := fl', groupCountMax := G, named := N', depth := 0 + 1 } [] = .ok (ts, st') ∧
        CR F fl'.unicode ⟨G, capOpens F.vk pat, N', lexNames F.vk pat, fl'.unicodeSets, scopeOk F.vk pat⟩
          { input := pat, flags := fl', groupCountMax := G, named := N', depth := 0 + 1 } r st' ∧
        JointD F ⟨G, capOpens F.vk pat, N', lexNames F.vk pat, fl'.unicodeSets, scopeOk F.vk pat⟩ [] [] [] est' st')
      (IsSyn (disjLoop (4 * pat.length + 7)
          { input := pat, flags := fl', groupCountMax := G, named := N', depth := 0 + 1 } [])) := by
    intro G N' hN' hN0
    have hD := (sim_all (c := c) (F := F) (u := fl'.unicode) ⟨G, capOpens F.vk pat, N', lexNames F.vk pat, fl'.unicodeSets, scopeOk F.vk pat⟩ hu heu
      (fun h => ⟨(hkk h).1, (hkk h).2.1, (hkk h).2.2.1, (hkk h).2.2.2.2⟩) hnn hmd hpr
      (fun h => ⟨(hle h).1, (hle h).2.1, fun hn => ⟨(hle h).2.2 hn, hN0 (.inl h) hn⟩⟩)
      (fun h => ⟨(hlk h).1, (hlk h).2.1, (hlk h).2.2.1, (hlk h).2.2.2.1,
        fun hn => ⟨(hlk h).2.2.2.2 hn, hN0 (.inr h) hn⟩⟩)
      (fun h => ⟨(hvc h).1, (hvc h).2.1, (hvc h).2.2.1, (hvc h).2.2.2.1, (hvc h).2.2.2.2.1⟩)
      (8 * (pat.length + 2))).1
    have he0 : EInv ⟨G, capOpens F.vk pat, N', lexNames F.vk pat, fl'.unicodeSets, scopeOk F.vk pat⟩ ({} : ESG.St) := by
      refine ⟨by simp, ?_, ?_⟩
      · intro r hr; cases hr
      · intro x hx; cases hx
    exact hD pat {} (by omega) he0 (4 * pat.length + 7)
      { input := pat, flags := fl', groupCountMax := G, named := N', depth := 0 + 1 } [] (by omega) rfl
      ⟨rfl, fun h => (hkk h).2.2.2.1, hfr, hch, by simp only; omega, by simp only; omega, by simp only; omega, rfl,
        by simp, rfl, hN', rfl⟩ [] [] [] (SEq.refl _) ⟨rfl, by simp, List.cons_ne_nil _ _, [], SEq.refl _, rfl⟩
  have hleg : F.le = true ∨ F.lk = true → fl'.unicode = false ∧ (F.nm = false → c.n = false) := by
    rintro (h | h)
    · exact ⟨(hle h).1, (hle h).2.2⟩
    · exact ⟨(hlk h).1, (hlk h).2.2.2.2⟩
  have hNnil : F.le = true ∨ F.lk = true → F.nm = false → N = [] := by
    intro h hn
    have := lexNames_nil_of_frag F hn hfr
    rw [this] at hN
    rcases N with _ | ⟨e, N⟩
    · rfl
    · exact absurd ((hN e.1).1 (by simp)) (by simp)
  have hD' := hrun (capOpens F.vk pat) N hNok hNnil
  have hpf : parseFuel pat = (4 * pat.length + 7) + 1 := by unfold parseFuel; omega
  have hdep : ({ input := pat, flags := fl', groupCountMax := capOpens F.vk pat, named := N } : PState).depth + 1 ≤
      Gen.MAX_NESTING_DEPTH := by simp [Gen.MAX_NESTING_DEPTH]
  rw [hpf]
  unfold parsePattern
  cases hd : disj c (8 * (pat.length + 2)) pat {} with
  | fuel => rw [hd] at hD'; exact hD'.elim
  | bad =>
    rw [hd] at hD'
    rcases hD' with ⟨msg, hm⟩ | hB0
    · rw [cd_err hdep hm]
      simp
    · simp only at hB0
      simp [hB0]
  | ok p =>
    obtain ⟨r, est'⟩ := p
    rw [hd] at hD'
    -- in a complete parse the recognizer has counted all groups and seen all names (second run)
    have hfull : r = [] → est'.groups = capOpens F.vk pat ∧ est'.names.reverse = lexNames F.vk pat := by
      intro hr0
      subst hr0
      have hN2 : NamedOK (N ++ est'.refs.map (fun nm => (nm, [0]))) := by
        intro e he
        rcases List.mem_append.1 he with h | h
        · exact hNok e h
        · simp only [List.mem_map] at h
          obtain ⟨nm, _, rfl⟩ := h
          simp
      have hD2 := hrun USIZE_MAX _ hN2 (by
        intro h hn
        have hcu : c.u = false := by rw [hu]; exact (hleg h).1
        have := ((mono0 c hcu (8 * (pat.length + 2))).1 pat {} [] est' hd).2 ((hleg h).2 hn)
        rw [hNnil h hn, this]
        rfl)
      rw [hd] at hD2
      rcases hD2 with ⟨_, ts, st', _, ⟨hr, _, hi'⟩, hg'⟩ | ⟨hp2, _⟩
      · have hcap := hi'.cap
        have hnm := hg'.names
        rw [hr] at hcap hnm
        rw [capOpens_nil, Nat.add_zero] at hcap
        rw [lexNames_nil, List.append_nil] at hnm
        exact ⟨by rw [hg'.groups, hcap], hnm⟩
      · exfalso
        rcases hp2 with h | ⟨x, hx, hnone⟩
        · simp only at h; omega
        · simp only at hnone
          rw [mapGet_append] at hnone
          have : (mapGet (est'.refs.map (fun nm => (nm, [0]))) x).isSome = true := by
            rw [mapGet_isSome_iff]; simp only [List.map_map, List.mem_map]; exact ⟨x, hx, rfl⟩
          cases hm1 : mapGet N x with
          | some v => rw [hm1] at hnone; cases hnone
          | none => rw [hm1] at hnone; simp only at hnone; rw [hnone] at this; cases this
    rcases hD' with ⟨he', ts, st', hl, ⟨hr, _, hi'⟩, hg'⟩ | ⟨hp, msg, hm⟩
    · rw [cd_ok hdep hl]
      rcases r with _ | ⟨y, r'⟩
      · obtain ⟨hgr, hnms⟩ := hfull rfl
        have hBt : scopeOk F.vk pat = true := by
          obtain ⟨acc', cur', _, hs'⟩ := hg'.scope
          rw [hr, scopeGo_nil] at hs'
          exact hs'.symm
        have hmd := he'.maxDec
        have hchk : ((!c.u || decide (est'.maxDec ≤ est'.groups)) &&
            (!c.n || est'.refs.all fun nm => est'.names.contains nm)) = true := by
          have h1 : est'.maxDec ≤ est'.groups := by
            rw [hgr]; unfold USIZE_MAX at hmd; simp only at hmd ⊢; omega
          have h2 : (est'.refs.all fun nm => est'.names.contains nm) = true := by
            rw [List.all_eq_true]
            intro x hx
            have := he'.refs x hx
            simp only at this
            rw [mapGet_isSome_iff, hN x, ← hnms] at this
            rw [List.contains_eq_mem]
            simpa using this
          rw [h2]; simp [h1]
        simp only [hchk, if_true]
        refine ⟨⟨fun _ => ⟨fun _ => ⟨est', rfl⟩, fun _ => ⟨_, _, rfl, hr⟩⟩, fun h => by rw [hBt] at h; cases h⟩, ?_, by simp⟩
        intro st hst
        cases hst
        exact hnms
      · simp only
        refine ⟨⟨fun _ => ⟨?_, ?_⟩, fun _ => ?_⟩, ?_, by simp⟩
        · rintro ⟨nd, st1, he, h1⟩
          cases he
          simp only at h1
          rw [hr] at h1; cases h1
        · rintro ⟨st, hst⟩; cases hst
        · rintro ⟨st, hst⟩; cases hst
        · intro st hst; cases hst
    · -- a decimal escape beyond the group count, or a reference to a name that is not in the table:
      -- the crate has failed; so does the final check
      rw [cd_err hdep hm]
      rcases r with _ | ⟨y, r'⟩
      · obtain ⟨hgr, hnms⟩ := hfull rfl
        have hchk : ((!c.u || decide (est'.maxDec ≤ est'.groups)) &&
            (!c.n || est'.refs.all fun nm => est'.names.contains nm)) = false := by
          have hm0 := (mono0 c · (8 * (pat.length + 2)))
          rcases hp with hp | ⟨x, hx, hnone⟩
          · have hcu : c.u = true := by
              cases hcu' : c.u with
              | true => rfl
              | false =>
                have := ((hm0 hcu').1 pat {} [] est' hd).1
                rw [this] at hp
                simp at hp
            have : ¬ est'.maxDec ≤ est'.groups := by
              simp only at hp; rw [hgr]; omega
            simp [hcu, this]
          · have hcn : c.n = true := by
              cases hcn' : c.n with
              | true => rfl
              | false =>
                have hcu' : c.u = false := by
                  cases h : c.u with
                  | false => rfl
                  | true => rw [hmode h] at hcn'; cases hcn'
                have := ((hm0 hcu').1 pat {} [] est' hd).2 hcn'
                rw [this] at hx
                cases hx
            have : (est'.refs.all fun nm => est'.names.contains nm) = false := by
              rw [List.all_eq_false]
              refine ⟨x, hx, ?_⟩
              simp only at hnone
              have hnk : x ∉ N.map (·.1) := by
                rw [← mapGet_isSome_iff, hnone]; simp
              rw [hN x, ← hnms] at hnk
              rw [List.contains_eq_mem]
              simpa using hnk
            rw [this]; simp [hcn]
        simp only [hchk, Bool.false_eq_true, if_false]
        refine ⟨⟨fun _ => ⟨?_, ?_⟩, fun _ => ?_⟩, ?_, by simp⟩
        · rintro ⟨nd, st1, he, _⟩; cases he
        · rintro ⟨st, hst⟩; cases hst
        · rintro ⟨st, hst⟩; cases hst
        · intro st hst; cases hst
      · simp only
        refine ⟨⟨fun _ => ⟨?_, ?_⟩, fun _ => ?_⟩, ?_, by simp⟩
        · rintro ⟨nd, st1, he, _⟩; cases he
        · rintro ⟨st, hst⟩; cases hst
        · rintro ⟨st, hst⟩; cases hst
        · intro st hst; cases hst

/-! ## Flags and pre-processing -/

/-- The ECMAScript flag string of the crate's flags: `i`, `m`, `s`, then `v` if `unicode_sets`, else
`u` if `unicode` (the crate's `unicode_sets` implies `unicode`; ES forbids `uv` together). -/
def flagsText (fl : Flags) : String :=
  (if fl.icase then "i" else "") ++ (if fl.multiline then "m" else "") ++
  (if fl.dotAll then "s" else "") ++ (if fl.unicodeSets then "v" else if fl.unicode then "u" else "")

theorem flagsText_ok : ∀ fl : Flags, flagsOk (str (flagsText fl)) = true ∧
    (str (flagsText fl)).contains 0x75 = (fl.unicode && !fl.unicodeSets) ∧
    (str (flagsText fl)).contains 0x76 = fl.unicodeSets := by
  intro ⟨a, b, c, d, e, f⟩
  cases a <;> cases b <;> cases c <;> cases d <;> cases e <;> cases f <;> decide

theorem esValid_eq (fl : Flags) (pat : List Nat) :
    esValid (flagsText fl) pat =
      match esValidCore tabs true (fl.unicode && !fl.unicodeSets) fl.unicodeSets pat with
      | .ok _ => true
      | _ => false := by
  obtain ⟨h1, h2, h3⟩ := flagsText_ok fl
  unfold esValid esValidR
  rw [h1, h2, h3]
  rfl

theorem toPoints_id (pat : List Nat) (h : ∀ c ∈ pat, ¬ (0xD800 ≤ c ∧ c ≤ 0xDFFF)) : toPoints pat = pat := by
  fun_induction toPoints pat with
  | case1 => rfl
  | case2 => rfl
  | case3 a b r hc ih =>
    have := h a (by simp)
    simp [isLead] at hc
    omega
  | case4 a b r hc ih =>
    rw [ih (fun c hc' => h c (by simp [hc']))]

theorem toUnits_id (pat : List Nat) (h : ∀ c ∈ pat, c < 0x10000) : toUnits pat = pat := by
  induction pat with
  | nil => rfl
  | cons c r ih =>
    have hc := h c (by simp)
    unfold toUnits
    rw [if_neg (by omega), ih (fun x hx => h x (by simp [hx]))]

end Regress.C08Frag
