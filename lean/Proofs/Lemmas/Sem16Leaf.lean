import Proofs.Lemmas.Sem16Ref
/-!
# Zero-width tests, brackets and `StringSet` alternatives at corresponding boundaries
-/
namespace Regress.IR

open Regress.VM Regress
open Regress.Utf16 (off16 text16)

/-! ## `AsciiBracket` on non-byte input is the bracket test -/

theorem bracketTest16_eq (bc : Bracket) (c : Nat) :
    bracketTest16 bc c = bracketTest { invert := bc.invert, ivs := bc.ivs } c := by
  unfold bracketTest16
  split
  · rename_i ha
    simp only [bracketIsAscii, Bool.and_eq_true, Bool.not_eq_true', List.all_eq_true, decide_eq_true_eq] at ha
    unfold asciiBracketTest16 bracketTest
    simp only [ha.1]
    by_cases hany : (bc.ivs.any fun iv => decide (iv.1 ≤ c) && decide (c ≤ iv.2)) = true
    · obtain ⟨iv, hiv, hc⟩ := List.any_eq_true.1 hany
      simp only [Bool.and_eq_true, decide_eq_true_eq] at hc
      have := ha.2 iv hiv
      have h1 : c < 128 := by omega
      have h2 : c < 256 := by omega
      simp [hany, h1, h2]
    · simp [hany]
  · rfl

theorem bracketTest16_fun (bc : Bracket) :
    bracketTest16 bc = bracketTest { invert := bc.invert, ivs := bc.ivs } := funext (bracketTest16_eq bc)

section
variable {inp8 : Input} {inp16 : Input16} {cs : List Nat}

/-! ## Peeks never fail on well-formed UTF-8 -/

theorem peekLeft8_ok (h : Utf8Text inp8 cs) {p : Nat} (hb : AtBoundary cs p) : ∃ r, inp8.peekLeft p = .ok r := by
  obtain ⟨k, hk, rfl⟩ := hb
  by_cases h0 : 0 < k
  · have := next_bwd_at h h0 hk
    simp only [Cursor.next, Bool.false_eq_true, if_false] at this
    refine ⟨some (cs[k - 1]'(by omega)), ?_⟩; rw [Input.peekLeft, this]
  · have hk0 : k = 0 := by omega
    subst hk0
    have := next_bwd_start h
    simp only [Cursor.next, Bool.false_eq_true, if_false] at this
    refine ⟨none, ?_⟩; rw [Input.peekLeft, this]

theorem peekRight8_ok (h : Utf8Text inp8 cs) {p : Nat} (hb : AtBoundary cs p) : ∃ r, inp8.peekRight p = .ok r := by
  obtain ⟨k, hk, rfl⟩ := hb
  by_cases hlt : k < cs.length
  · have := next_fwd_at h hlt
    simp only [Cursor.next, if_true] at this
    refine ⟨some cs[k], ?_⟩; rw [Input.peekRight, this]
  · have hk0 : k = cs.length := by omega
    subst hk0
    have := next_fwd_end h
    simp only [Cursor.next, if_true] at this
    refine ⟨none, ?_⟩; rw [Input.peekRight, this]

theorem startOfLine_to16 (h : SameText inp8 inp16 cs) (m : Bool) {p : Nat} (hb : AtBoundary cs p) :
    startOfLine16 inp16 m (to16 cs p) = startOfLine inp8 m p := by
  obtain ⟨r, hr⟩ := peekLeft8_ok h.t8 hb
  rw [startOfLine16, startOfLine, peekLeft_to16 h hb, hr]
  cases r <;> rfl

theorem endOfLine_to16 (h : SameText inp8 inp16 cs) (m : Bool) {p : Nat} (hb : AtBoundary cs p) :
    endOfLine16 inp16 m (to16 cs p) = endOfLine inp8 m p := by
  obtain ⟨r, hr⟩ := peekRight8_ok h.t8 hb
  rw [endOfLine16, endOfLine, peekRight_to16 h hb, hr]
  cases r <;> rfl

theorem wordBoundary_to16 (h : SameText inp8 inp16 cs) (invert ui : Bool) {p : Nat} (hb : AtBoundary cs p) :
    wordBoundary16 inp16 invert ui (to16 cs p) = wordBoundary inp8 invert ui p := by
  obtain ⟨l, hl⟩ := peekLeft8_ok h.t8 hb
  obtain ⟨r, hr⟩ := peekRight8_ok h.t8 hb
  simp only [wordBoundary16, wordBoundary, peekLeft_to16 h hb, peekRight_to16 h hb, hl, hr]
  cases l <;> cases r <;> rfl

/-! ## One code point of a `StringSet` alternative -/

theorem optSt_inj {st : St} {a b : Option Nat} (h : optSt st a = optSt st b) : a = b := by
  cases a <;> cases b <;> simp [optSt] at h ⊢
  exact h

/-- On UTF-8 text at a char boundary, the lowered pieces of a code point (bytes, byte set, char
set) are the test of the decoded char against the expansion. -/
theorem cpStep8_eq (h : Utf8Text inp8 cs) (icase fwd : Bool) {p : Nat} (hb : AtBoundary cs p) (cp : Nat) :
    cpStep inp8 icase fwd p cp =
      match Fold.expandCodePoint cp icase inp8.unicode with
      | [c] => charStep inp8 fwd p (fun c2 => c2 == c)
      | chars => charStep inp8 fwd p (charsetContains chars) := by
  unfold cpStep
  generalize Fold.expandCodePoint cp icase inp8.unicode = ex
  have other : ∀ chars : List Nat,
      (if (chars.all fun c => decide (c ≤ 0x7F)) = true then byteStep inp8 fwd p (fun b => chars.contains b)
        else charStep inp8 fwd p (charsetContains chars)) = charStep inp8 fwd p (charsetContains chars) := by
    intro chars
    split
    · rename_i hall
      rw [byteStep_eq_charStep h fwd hb _ (by
        intro b hbm
        have hm : b ∈ chars := by simpa using hbm
        have := List.all_eq_true.1 hall b hm
        simp at this; omega)]
      congr 1
      funext c
      rw [charsetContains_eq]
      rw [Bool.eq_iff_iff]; simp
    · rfl
  rcases ex with _ | ⟨a, _ | ⟨b, l⟩⟩
  · exact other []
  · show (if Utf8.isScalar a = true then inp8.matchBytes fwd p (Utf8.encode a)
        else charStep inp8 fwd p (fun c2 => c2 == a)) = charStep inp8 fwd p (fun c2 => c2 == a)
    split
    · rename_i hsc
      have := char_eq_byteSeq h hsc fwd (st := { pos := p, caps := [] }) hb
      simp only [sem] at this
      exact (optSt_inj this).symm
    · rfl
  · exact other (a :: b :: l)

theorem cpStep_to16 (h : SameText inp8 inp16 cs) (icase fwd : Bool) {p : Nat} (hb : AtBoundary cs p) (cp : Nat) :
    cpStep16 inp16 icase fwd (to16 cs p) cp = (cpStep inp8 icase fwd p cp).map (to16 cs) := by
  rw [cpStep8_eq h.t8 icase fwd hb, cpStep16, h.unicode]
  generalize Fold.expandCodePoint cp icase inp8.unicode = ex
  rcases ex with _ | ⟨a, _ | ⟨b, l⟩⟩ <;> exact charStep_to16 h fwd hb _

theorem stepSeq_to16 {step8 step16 : Nat → Nat → Option Nat}
    (hs : ∀ p c, AtBoundary cs p → step16 (to16 cs p) c = (step8 p c).map (to16 cs))
    (hbd : ∀ p c e, AtBoundary cs p → step8 p c = some e → AtBoundary cs e) :
    ∀ (l : List Nat) (p : Nat), AtBoundary cs p →
      stepSeq step16 l (to16 cs p) = (stepSeq step8 l p).map (to16 cs) := by
  intro l
  induction l with
  | nil => intro p _; rfl
  | cons c l ih =>
    intro p hb
    simp only [stepSeq, hs p c hb]
    cases hr : step8 p c with
    | none => rfl
    | some e => exact ih e (hbd p c e hb hr)

theorem cpSeq_to16 (h : SameText inp8 inp16 cs) (icase fwd : Bool) (a : List Nat) {p : Nat} (hb : AtBoundary cs p) :
    cpSeq16 inp16 icase fwd a (to16 cs p) = (cpSeq inp8 icase fwd a p).map (to16 cs) := by
  unfold cpSeq16 cpSeq
  exact stepSeq_to16 (fun p c hp => cpStep_to16 h icase fwd hp c)
    (fun p c e hp he => cpStep_boundary h.t8 hp he) _ p hb

end

end Regress.IR
