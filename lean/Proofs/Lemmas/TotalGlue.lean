import Proofs.Lemmas.TotalParse4
import Proofs.Lemmas.TotalOpt
import Proofs.Lemmas.TotalEmit
/-!
# Gluing the three totality results

The parser's output invariant `POut` implies the input conditions of the optimizer (`OptIn`, and
`All setsP`) and of the emitter (`EmitIn`); the optimizer's output condition `OptOut` implies
`EmitIn`.
-/
namespace Regress.C07
open Regress Regress.IR Regress.Parse Regress.VM

/-- Everything the later stages need, at every node of a parser-built tree. -/
def Good (n : Node) : Prop :=
  WF n ∧ All lookP n ∧ All setsP n ∧ All noesP n ∧ SetsLe4 n ∧ NoEmptySeq n

def GoodList (ns : List Node) : Prop :=
  WFList ns ∧ AllList lookP ns ∧ AllList setsP ns ∧ AllList noesP ns ∧ SetsLe4List ns ∧ NoEmptySeqList ns

theorem quantOk_of_QuantOk {q : Quant} (h : QuantOk q) : quantOk q = true := by
  unfold quantOk
  split
  · rfl
  · rename_i m hm; simpa using h m hm

mutual
theorem POut_good : ∀ (n : Node), POut n → Good n
  | .cat ns, h => by
    obtain ⟨h1, h2, h3, h4, h5, h6⟩ := POutList_good ns h
    exact ⟨h1, ⟨trivial, h2⟩, ⟨trivial, h3⟩, ⟨trivial, h4⟩, h5, h6⟩
  | .alt l r, h => by
    obtain ⟨a1, a2, a3, a4, a5, a6⟩ := POut_good l h.1
    obtain ⟨b1, b2, b3, b4, b5, b6⟩ := POut_good r h.2
    exact ⟨⟨a1, b1⟩, ⟨trivial, a2, b2⟩, ⟨trivial, a3, b3⟩, ⟨trivial, a4, b4⟩, ⟨a5, b5⟩, ⟨a6, b6⟩⟩
  | .group id name c, h => by
    obtain ⟨a1, a2, a3, a4, a5, a6⟩ := POut_good c h
    exact ⟨a1, ⟨trivial, a2⟩, ⟨trivial, a3⟩, ⟨trivial, a4⟩, a5, a6⟩
  | .look ng bw sg eg c, h => by
    obtain ⟨a1, a2, a3, a4, a5, a6⟩ := POut_good c h.1
    refine ⟨a1, ⟨?_, a2⟩, ⟨trivial, a3⟩, ⟨trivial, a4⟩, a5, a6⟩
    show numGroups c = 0 ↔ eg ≤ sg
    have := h.2; omega
  | .loop b q g0 g1, h => by
    obtain ⟨a1, a2, a3, a4, a5, a6⟩ := POut_good b h.1
    refine ⟨⟨a1, quantOk_of_QuantOk h.2.1, ?_⟩, ⟨trivial, a2⟩, ⟨trivial, a3⟩, ⟨trivial, a4⟩, a5, a6⟩
    have := h.2.2; omega
  | .loop1 b q, h => by exact absurd h (by simp [POut])
  | .byteSeq bs, h => by exact absurd h (by simp [POut])
  | .byteSet bs, h => by exact absurd h (by simp [POut])
  | .charSet cs, h => by
    have h4 : cs.length ≤ 4 := h.2
    exact ⟨trivial, trivial, h4, trivial, h4, trivial⟩
  | .bracket bc, h => ⟨h, trivial, trivial, trivial, trivial, trivial⟩
  | .empty, _ => ⟨trivial, trivial, trivial, trivial, trivial, trivial⟩
  | .goal, _ => ⟨trivial, trivial, trivial, trivial, trivial, trivial⟩
  | .char _, _ => ⟨trivial, trivial, trivial, trivial, trivial, trivial⟩
  | .matchAny, _ => ⟨trivial, trivial, trivial, trivial, trivial, trivial⟩
  | .matchAnyExceptLT, _ => ⟨trivial, trivial, trivial, trivial, trivial, trivial⟩
  | .anchor _ _, _ => ⟨trivial, trivial, trivial, trivial, trivial, trivial⟩
  | .wordBoundary _ _, _ => ⟨trivial, trivial, trivial, trivial, trivial, trivial⟩
  | .backRef _ _, _ => ⟨trivial, trivial, trivial, trivial, trivial, trivial⟩
  | .stringSet _ _, _ => ⟨trivial, trivial, trivial, trivial, trivial, trivial⟩
theorem POutList_good : ∀ (ns : List Node), POutList ns → GoodList ns
  | [], _ => ⟨trivial, trivial, trivial, trivial, trivial, trivial⟩
  | n :: ns, h => by
    obtain ⟨a1, a2, a3, a4, a5, a6⟩ := POut_good n h.1
    obtain ⟨b1, b2, b3, b4, b5, b6⟩ := POutList_good ns h.2
    exact ⟨⟨a1, b1⟩, ⟨a2, b2⟩, ⟨a3, b3⟩, ⟨a4, b4⟩, ⟨a5, b5⟩, ⟨a6, b6⟩⟩
end

theorem POut_optIn {n : Node} (h : POut n) : OptIn n := ⟨(POut_good n h).1, (POut_good n h).2.1⟩
theorem POut_sets {n : Node} (h : POut n) : All setsP n := (POut_good n h).2.2.1
theorem POut_emitIn {n : Node} (h : POut n) : EmitIn n := ⟨(POut_good n h).2.2.2.2.1, (POut_good n h).2.2.2.2.2⟩

mutual
theorem sets_noes_emitIn : ∀ (n : Node), All setsP n → All noesP n → SetsLe4 n ∧ NoEmptySeq n
  | .cat ns, h1, h2 => by
    have := sets_noes_emitInList ns h1.2 h2.2
    exact ⟨this.1, this.2⟩
  | .alt l r, h1, h2 => by
    have a := sets_noes_emitIn l h1.2.1 h2.2.1
    have b := sets_noes_emitIn r h1.2.2 h2.2.2
    exact ⟨⟨a.1, b.1⟩, ⟨a.2, b.2⟩⟩
  | .group _ _ c, h1, h2 => sets_noes_emitIn c h1.2 h2.2
  | .look _ _ _ _ c, h1, h2 => sets_noes_emitIn c h1.2 h2.2
  | .loop b _ _ _, h1, h2 => sets_noes_emitIn b h1.2 h2.2
  | .loop1 b _, h1, h2 => sets_noes_emitIn b h1.2 h2.2
  | .byteSeq bs, _, h2 => ⟨trivial, h2⟩
  | .byteSet bs, h1, _ => ⟨h1, trivial⟩
  | .charSet cs, h1, _ => ⟨h1, trivial⟩
  | .bracket _, _, _ => ⟨trivial, trivial⟩
  | .empty, _, _ => ⟨trivial, trivial⟩
  | .goal, _, _ => ⟨trivial, trivial⟩
  | .char _, _, _ => ⟨trivial, trivial⟩
  | .matchAny, _, _ => ⟨trivial, trivial⟩
  | .matchAnyExceptLT, _, _ => ⟨trivial, trivial⟩
  | .anchor _ _, _, _ => ⟨trivial, trivial⟩
  | .wordBoundary _ _, _, _ => ⟨trivial, trivial⟩
  | .backRef _ _, _, _ => ⟨trivial, trivial⟩
  | .stringSet _ _, _, _ => ⟨trivial, trivial⟩
theorem sets_noes_emitInList : ∀ (ns : List Node), AllList setsP ns → AllList noesP ns →
    SetsLe4List ns ∧ NoEmptySeqList ns
  | [], _, _ => ⟨trivial, trivial⟩
  | n :: ns, h1, h2 => by
    have a := sets_noes_emitIn n h1.1 h2.1
    have b := sets_noes_emitInList ns h1.2 h2.2
    exact ⟨⟨a.1, b.1⟩, ⟨a.2, b.2⟩⟩
end

theorem OptOut_emitIn {n : Node} (h : OptOut n) : EmitIn n := sets_noes_emitIn n h.2.1 h.2.2

end Regress.C07
