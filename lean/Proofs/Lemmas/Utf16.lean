import RegressModel.Text.Utf16
import Proofs.Lemmas.Utf8
/-!
# Lemmas about the UTF-16 / UCS-2 primitives model (`RegressModel/Text/Utf16.lean`)
-/
namespace Regress.Utf16

open Regress.Utf8 (HasAt AllScalar)

/-- The two models' `isScalar` are the same function. -/
theorem isScalar_eq : isScalar = Regress.Utf8.isScalar := rfl

theorem isScalar_le {c : Nat} (h : isScalar c = true) : c ≤ 0x10FFFF := by
  simp [isScalar] at h; omega

/-! ## Encoding of one scalar -/

theorem encode16_length (c : Nat) : (encode16 c).length = if c < 0x10000 then 1 else 2 := by
  unfold encode16; split <;> rfl

theorem encode16_length_pos (c : Nat) : 0 < (encode16 c).length := by
  rw [encode16_length]; split <;> omega

theorem encode16_length_le (c : Nat) : (encode16 c).length ≤ 2 := by
  rw [encode16_length]; split <;> omega

theorem encode16_units_lt {c : Nat} (h : isScalar c = true) : ∀ u ∈ encode16 c, u < 65536 := by
  have hc := isScalar_le h
  intro u hu
  unfold encode16 at hu
  split at hu <;> simp at hu <;> omega

/-- The first unit of an encoded scalar is never a low surrogate. -/
theorem not_isLow_head {c u : Nat} (hc : isScalar c = true) (h : (encode16 c)[0]? = some u) :
    isLowSurrogate u = false := by
  simp [isScalar] at hc
  unfold encode16 at h
  split at h <;> simp at h <;> subst h <;> simp [isLowSurrogate] <;> omega

/-! ## Decoding one encoded scalar found in an arbitrary unit array -/

theorem nextRight_of_hasAt {units : Array Nat} {p c : Nat} (hc : isScalar c = true)
    (h : HasAt units p (encode16 c)) :
    nextRight units p = some (c, p + (encode16 c).length) := by
  have hle := isScalar_le hc
  have hlen := encode16_length c
  simp [isScalar] at hc
  unfold encode16 at h
  unfold nextRight
  by_cases h1 : c < 0x10000
  · simp only [h1, if_true] at h hlen
    have h0 := h 0 (by simp)
    simp at h0
    have hh : isHighSurrogate c = false := by simp [isHighSurrogate]; omega
    simp [h0, hh, hlen]
  · simp only [h1, if_false] at h hlen
    have h0 := h 0 (by simp)
    have h1' := h 1 (by simp)
    simp at h0 h1'
    have hh : isHighSurrogate (55296 + (c - 65536) / 1024) = true := by
      simp [isHighSurrogate]; omega
    have hl : isLowSurrogate (56320 + (c - 65536) % 1024) = true := by
      simp [isLowSurrogate]; omega
    have hw : codePointFromSurrogates (55296 + (c - 65536) / 1024) (56320 + (c - 65536) % 1024) = c := by
      unfold codePointFromSurrogates; omega
    simp [h0, h1', hh, hl, hw, hlen]

theorem nextRightPos_of_hasAt {units : Array Nat} {p c : Nat} (hc : isScalar c = true)
    (h : HasAt units p (encode16 c)) :
    nextRightPos units p = some (p + (encode16 c).length) := by
  have hle := isScalar_le hc
  have hlen := encode16_length c
  simp [isScalar] at hc
  unfold encode16 at h
  unfold nextRightPos
  by_cases h1 : c < 0x10000
  · simp only [h1, if_true] at h hlen
    have h0 := h 0 (by simp)
    simp at h0
    have hh : isHighSurrogate c = false := by simp [isHighSurrogate]; omega
    simp [h0, hh, hlen]
  · simp only [h1, if_false] at h hlen
    have h0 := h 0 (by simp)
    have h1' := h 1 (by simp)
    simp at h0 h1'
    have hh : isHighSurrogate (55296 + (c - 65536) / 1024) = true := by
      simp [isHighSurrogate]; omega
    have hl : isLowSurrogate (56320 + (c - 65536) % 1024) = true := by
      simp [isLowSurrogate]; omega
    simp [h0, h1', hh, hl, hlen]

theorem nextLeft_of_hasAt {units : Array Nat} {q c : Nat} (hc : isScalar c = true)
    (h : HasAt units q (encode16 c)) :
    nextLeft units (q + (encode16 c).length) = some (c, q) := by
  have hle := isScalar_le hc
  have hlen := encode16_length c
  simp [isScalar] at hc
  unfold encode16 at h
  unfold nextLeft
  by_cases h1 : c < 0x10000
  · simp only [h1, if_true] at h hlen
    have h0 := h 0 (by simp)
    simp at h0
    have hl : isLowSurrogate c = false := by simp [isLowSurrogate]; omega
    simp [h0, hl, hlen]
  · simp only [h1, if_false] at h hlen
    have h0 := h 0 (by simp)
    have h1' := h 1 (by simp)
    simp at h0 h1'
    have hh : isHighSurrogate (55296 + (c - 65536) / 1024) = true := by
      simp [isHighSurrogate]; omega
    have hl : isLowSurrogate (56320 + (c - 65536) % 1024) = true := by
      simp [isLowSurrogate]; omega
    have hw : codePointFromSurrogates (55296 + (c - 65536) / 1024) (56320 + (c - 65536) % 1024) = c := by
      unfold codePointFromSurrogates; omega
    have e1 : q + 2 - 1 = q + 1 := by omega
    simp [h0, h1', hh, hl, hw, hlen, e1]

theorem nextLeftPos_of_hasAt {units : Array Nat} {q c : Nat} (hc : isScalar c = true)
    (h : HasAt units q (encode16 c)) :
    nextLeftPos units (q + (encode16 c).length) = some q := by
  have hle := isScalar_le hc
  have hlen := encode16_length c
  simp [isScalar] at hc
  unfold encode16 at h
  unfold nextLeftPos
  by_cases h1 : c < 0x10000
  · simp only [h1, if_true] at h hlen
    have h0 := h 0 (by simp)
    simp at h0
    have hl : isLowSurrogate c = false := by simp [isLowSurrogate]; omega
    simp [h0, hl, hlen]
  · simp only [h1, if_false] at h hlen
    have h0 := h 0 (by simp)
    have h1' := h 1 (by simp)
    simp at h0 h1'
    have hh : isHighSurrogate (55296 + (c - 65536) / 1024) = true := by
      simp [isHighSurrogate]; omega
    have hl : isLowSurrogate (56320 + (c - 65536) % 1024) = true := by
      simp [isLowSurrogate]; omega
    have e1 : q + 2 - 1 = q + 1 := by omega
    simp [h0, h1', hh, hl, hlen, e1]

/-! ## Well-formed text: `text16 cs`, offsets `off16 cs k` -/

/-- The UTF-16 haystack holding the scalars `cs`. -/
def text16 (cs : List Nat) : Array Nat := (encodeAll16 cs).toArray

/-- Code-unit offset of the `k`-th scalar of `cs`. -/
def off16 (cs : List Nat) (k : Nat) : Nat := (encodeAll16 (cs.take k)).length

@[simp] theorem encodeAll16_nil : encodeAll16 [] = [] := rfl
@[simp] theorem encodeAll16_cons (c : Nat) (cs : List Nat) :
    encodeAll16 (c :: cs) = encode16 c ++ encodeAll16 cs := by simp [encodeAll16]
@[simp] theorem encodeAll16_append (as bs : List Nat) :
    encodeAll16 (as ++ bs) = encodeAll16 as ++ encodeAll16 bs := by simp [encodeAll16]

theorem encodeAll16_take_drop (cs : List Nat) (k : Nat) :
    encodeAll16 (cs.take k) ++ encodeAll16 (cs.drop k) = encodeAll16 cs := by
  rw [← encodeAll16_append, List.take_append_drop]

theorem encodeAll16_split {cs : List Nat} {k : Nat} (hk : k < cs.length) :
    encodeAll16 cs = encodeAll16 (cs.take k) ++ (encode16 cs[k] ++ encodeAll16 (cs.drop (k + 1))) := by
  rw [← encodeAll16_cons, ← List.drop_eq_getElem_cons hk, encodeAll16_take_drop]

@[simp] theorem size_text16 (cs : List Nat) : (text16 cs).size = (encodeAll16 cs).length := by
  simp [text16]

@[simp] theorem off16_zero (cs : List Nat) : off16 cs 0 = 0 := by simp [off16]

theorem off16_length (cs : List Nat) : off16 cs cs.length = (text16 cs).size := by simp [off16]

theorem off16_succ {cs : List Nat} {k : Nat} (hk : k < cs.length) :
    off16 cs (k + 1) = off16 cs k + (encode16 cs[k]).length := by
  unfold off16
  rw [List.take_succ_eq_append_getElem hk, encodeAll16_append, List.length_append]
  simp

theorem off16_le_size (cs : List Nat) (k : Nat) : off16 cs k ≤ (text16 cs).size := by
  rw [size_text16, ← encodeAll16_take_drop cs k]; simp [off16]

theorem off16_lt_succ {cs : List Nat} {k : Nat} (hk : k < cs.length) :
    off16 cs k < off16 cs (k + 1) := by
  rw [off16_succ hk]; have := encode16_length_pos cs[k]; omega

theorem off16_succ_le {cs : List Nat} {k : Nat} (hk : k < cs.length) :
    off16 cs (k + 1) ≤ off16 cs k + 2 := by
  rw [off16_succ hk]; have := encode16_length_le cs[k]; omega

theorem off16_strict_mono {cs : List Nat} {k j : Nat} (hkj : k < j) (hj : j ≤ cs.length) :
    off16 cs k < off16 cs j := by
  induction j with
  | zero => omega
  | succ j ih =>
    have h1 := off16_lt_succ (cs := cs) (k := j) (by omega)
    by_cases h : k = j
    · subst h; exact h1
    · have := ih (by omega) (by omega); omega

theorem off16_mono {cs : List Nat} {k j : Nat} (hkj : k ≤ j) (hj : j ≤ cs.length) :
    off16 cs k ≤ off16 cs j := by
  by_cases h : k = j
  · subst h; exact Nat.le_refl _
  · exact Nat.le_of_lt (off16_strict_mono (by omega) hj)

theorem off16_injective {cs : List Nat} {k j : Nat} (hk : k ≤ cs.length) (hj : j ≤ cs.length)
    (h : off16 cs k = off16 cs j) : k = j := by
  by_cases h1 : k < j
  · have := off16_strict_mono h1 hj; omega
  · by_cases h2 : j < k
    · have := off16_strict_mono h2 hk; omega
    · omega

theorem off16_lt_iff {cs : List Nat} {k j : Nat} (hk : k ≤ cs.length) (hj : j ≤ cs.length) :
    off16 cs k < off16 cs j ↔ k < j := by
  constructor
  · intro h
    by_cases h' : k < j
    · exact h'
    · have := off16_mono (cs := cs) (k := j) (j := k) (by omega) hk; omega
  · intro h; exact off16_strict_mono h hj

theorem hasAt_text16 {cs : List Nat} {k : Nat} (hk : k < cs.length) :
    HasAt (text16 cs) (off16 cs k) (encode16 cs[k]) := by
  intro i hi
  simp only [text16, List.getElem?_toArray]
  rw [encodeAll16_split hk, List.getElem?_append_right (by simp [off16])]
  simp only [off16, Nat.add_sub_cancel_left]
  rw [List.getElem?_append_left hi]

/-! ## Round trips (`utf16_roundtrip`) -/

theorem nextRight_roundtrip {cs : List Nat} (hcs : AllScalar cs) {k : Nat} (hk : k < cs.length) :
    nextRight (text16 cs) (off16 cs k) = some (cs[k], off16 cs (k + 1)) := by
  rw [off16_succ hk]
  exact nextRight_of_hasAt (hcs _ (List.getElem_mem hk)) (hasAt_text16 hk)

theorem nextRight_roundtrip_end (cs : List Nat) :
    nextRight (text16 cs) (off16 cs cs.length) = none := by
  rw [off16_length]; simp [nextRight]

theorem nextRightPos_roundtrip {cs : List Nat} (hcs : AllScalar cs) {k : Nat} (hk : k < cs.length) :
    nextRightPos (text16 cs) (off16 cs k) = some (off16 cs (k + 1)) := by
  rw [off16_succ hk]
  exact nextRightPos_of_hasAt (hcs _ (List.getElem_mem hk)) (hasAt_text16 hk)

theorem nextRightPos_roundtrip_end (cs : List Nat) :
    nextRightPos (text16 cs) (off16 cs cs.length) = none := by
  rw [off16_length]; simp [nextRightPos]

theorem nextLeft_roundtrip {cs : List Nat} (hcs : AllScalar cs) {k : Nat} (hk0 : 0 < k)
    (hk : k ≤ cs.length) :
    nextLeft (text16 cs) (off16 cs k) = some (cs[k - 1]'(by omega), off16 cs (k - 1)) := by
  cases k with
  | zero => omega
  | succ j =>
    have hj : j < cs.length := by omega
    rw [off16_succ hj]
    simp only [Nat.add_sub_cancel]
    exact nextLeft_of_hasAt (hcs _ (List.getElem_mem hj)) (hasAt_text16 hj)

theorem nextLeft_roundtrip_start (cs : List Nat) : nextLeft (text16 cs) (off16 cs 0) = none := by
  simp [nextLeft]

theorem nextLeftPos_roundtrip {cs : List Nat} (hcs : AllScalar cs) {k : Nat} (hk0 : 0 < k)
    (hk : k ≤ cs.length) :
    nextLeftPos (text16 cs) (off16 cs k) = some (off16 cs (k - 1)) := by
  cases k with
  | zero => omega
  | succ j =>
    have hj : j < cs.length := by omega
    rw [off16_succ hj]
    simp only [Nat.add_sub_cancel]
    exact nextLeftPos_of_hasAt (hcs _ (List.getElem_mem hj)) (hasAt_text16 hj)

theorem nextLeftPos_roundtrip_start (cs : List Nat) :
    nextLeftPos (text16 cs) (off16 cs 0) = none := by
  simp [nextLeftPos]

/-- `utf16_roundtrip`: on well-formed text, decoding forwards from the `k`-th boundary yields the
`k`-th scalar and the `(k+1)`-th boundary; decoding backwards from the `k`-th boundary yields the
`(k-1)`-th scalar and boundary; at the ends the result is `None`. -/
theorem utf16_roundtrip {cs : List Nat} (hcs : AllScalar cs) :
    (∀ k (hk : k < cs.length),
      nextRight (text16 cs) (off16 cs k) = some (cs[k], off16 cs (k + 1)) ∧
      nextRightPos (text16 cs) (off16 cs k) = some (off16 cs (k + 1))) ∧
    nextRight (text16 cs) (off16 cs cs.length) = none ∧
    nextRightPos (text16 cs) (off16 cs cs.length) = none ∧
    (∀ k (hk0 : 0 < k) (hk : k ≤ cs.length),
      nextLeft (text16 cs) (off16 cs k) = some (cs[k - 1]'(by omega), off16 cs (k - 1)) ∧
      nextLeftPos (text16 cs) (off16 cs k) = some (off16 cs (k - 1))) ∧
    nextLeft (text16 cs) (off16 cs 0) = none ∧
    nextLeftPos (text16 cs) (off16 cs 0) = none :=
  ⟨fun _ hk => ⟨nextRight_roundtrip hcs hk, nextRightPos_roundtrip hcs hk⟩,
   nextRight_roundtrip_end cs, nextRightPos_roundtrip_end cs,
   fun _ hk0 hk => ⟨nextLeft_roundtrip hcs hk0 hk, nextLeftPos_roundtrip hcs hk0 hk⟩,
   nextLeft_roundtrip_start cs, nextLeftPos_roundtrip_start cs⟩

/-! ## Totality and range of results on ARBITRARY unit arrays (`utf16_total_in_range`) -/

theorem nextRight_in_range {units : Array Nat} {p c q : Nat} (h : nextRight units p = some (c, q)) :
    p < units.size ∧ p < q ∧ q ≤ p + 2 ∧ q ≤ units.size := by
  unfold nextRight at h
  split at h
  · cases h
  · rename_i u1 h1
    have hp : p < units.size := (Array.getElem?_eq_some_iff.mp h1).1
    simp only at h
    split at h
    · simp at h; omega
    · split at h
      · simp at h; omega
      · rename_i u2 h2
        have hp2 : p + 1 < units.size := (Array.getElem?_eq_some_iff.mp h2).1
        split at h <;> simp at h <;> omega

theorem nextRightPos_eq (units : Array Nat) (p : Nat) :
    nextRightPos units p = (nextRight units p).map (·.2) := by
  unfold nextRightPos nextRight
  cases units[p]? with
  | none => rfl
  | some u1 =>
    simp only
    cases isHighSurrogate u1 with
    | false => rfl
    | true =>
      simp only [Bool.not_true, Bool.false_eq_true, if_false]
      cases units[p + 1]? with
      | none => rfl
      | some u2 => simp only; cases isLowSurrogate u2 <;> rfl

theorem nextLeft_in_range {units : Array Nat} {p c q : Nat} (h : nextLeft units p = some (c, q)) :
    0 < p ∧ p ≤ units.size ∧ q < p ∧ p ≤ q + 2 := by
  unfold nextLeft at h
  split at h
  · cases h
  · rename_i hp0
    have hp0 : p ≠ 0 := by simpa using hp0
    split at h
    · cases h
    · rename_i u2 h2
      have hp : p - 1 < units.size := (Array.getElem?_eq_some_iff.mp h2).1
      simp only at h
      split at h
      · simp at h; omega
      · rename_i hne
        have hne : p - 1 ≠ 0 := by
          intro h0; simp [h0] at hne
        split at h
        · simp at h; omega
        · split at h <;> simp at h <;> omega

theorem nextLeftPos_eq (units : Array Nat) (p : Nat) :
    nextLeftPos units p = (nextLeft units p).map (·.2) := by
  unfold nextLeftPos nextLeft
  cases (p == 0) with
  | true => rfl
  | false =>
    simp only [Bool.false_eq_true, if_false]
    cases units[p - 1]? with
    | none => rfl
    | some u2 =>
      simp only
      cases (p - 1 == 0 || !isLowSurrogate u2) with
      | true => rfl
      | false =>
        simp only [Bool.false_eq_true, if_false]
        cases units[p - 1 - 1]? with
        | none => rfl
        | some u1 => simp only; cases isHighSurrogate u1 <;> rfl

theorem nextRight_isSome_iff (units : Array Nat) (p : Nat) :
    (nextRight units p).isSome = true ↔ p < units.size := by
  unfold nextRight
  by_cases hp : p < units.size
  · simp only [Array.getElem?_eq_getElem hp, hp, iff_true]
    (repeat' split) <;> rfl
  · simp [hp]

theorem nextLeft_isSome_iff (units : Array Nat) (p : Nat) :
    (nextLeft units p).isSome = true ↔ 0 < p ∧ p ≤ units.size := by
  unfold nextLeft
  by_cases h0 : p = 0
  · simp [h0]
  · by_cases hp : p - 1 < units.size
    · have : (p == 0) = false := by simpa using h0
      simp only [this, Array.getElem?_eq_getElem hp]
      have : (0 < p ∧ p ≤ units.size) := by omega
      simp only [this, and_self, iff_true]
      (repeat' split) <;> first | rfl | (exfalso; simp_all)
    · have : (p == 0) = false := by simpa using h0
      simp only [this, Array.getElem?_eq_none (Nat.le_of_not_lt hp)]
      simp; omega

/-- A decoded element is a code point (`≤ 0x10FFFF`) whenever the units are 16-bit. -/
theorem codePointFromSurrogates_le (a b : Nat) : codePointFromSurrogates a b ≤ 0x10FFFF := by
  unfold codePointFromSurrogates; omega

/-- `utf16_total_in_range`: for arbitrary unit arrays (lone surrogates included) and any position,
each `Utf16Input` decoder returns `None` exactly at the respective end (for `p ≤ size`), and
otherwise a position `q` within the input that is 1 or 2 units away in the right direction. -/
theorem utf16_total_in_range (units : Array Nat) (p : Nat) (hp : p ≤ units.size) :
    ((nextRight units p = none ↔ p = units.size) ∧
      ∀ c q, nextRight units p = some (c, q) → p < q ∧ q ≤ p + 2 ∧ q ≤ units.size) ∧
    ((nextRightPos units p = none ↔ p = units.size) ∧
      ∀ q, nextRightPos units p = some q → p < q ∧ q ≤ p + 2 ∧ q ≤ units.size) ∧
    ((nextLeft units p = none ↔ p = 0) ∧
      ∀ c q, nextLeft units p = some (c, q) → p - 2 ≤ q ∧ q < p ∧ q ≤ units.size) ∧
    ((nextLeftPos units p = none ↔ p = 0) ∧
      ∀ q, nextLeftPos units p = some q → p - 2 ≤ q ∧ q < p ∧ q ≤ units.size) := by
  have hR := nextRight_isSome_iff units p
  have hL := nextLeft_isSome_iff units p
  refine ⟨⟨?_, ?_⟩, ⟨?_, ?_⟩, ⟨?_, ?_⟩, ⟨?_, ?_⟩⟩
  · cases h : nextRight units p <;> simp [h] at hR ⊢ <;> omega
  · intro c q h; have := nextRight_in_range h; omega
  · rw [nextRightPos_eq]
    cases h : nextRight units p <;> simp [h] at hR ⊢ <;> omega
  · intro q h
    rw [nextRightPos_eq] at h
    cases h' : nextRight units p with
    | none => simp [h'] at h
    | some r =>
      obtain ⟨c, q'⟩ := r
      simp [h'] at h; subst h
      have := nextRight_in_range h'; omega
  · cases h : nextLeft units p <;> simp [h] at hL ⊢ <;> omega
  · intro c q h; have := nextLeft_in_range h; omega
  · rw [nextLeftPos_eq]
    cases h : nextLeft units p <;> simp [h] at hL ⊢ <;> omega
  · intro q h
    rw [nextLeftPos_eq] at h
    cases h' : nextLeft units p with
    | none => simp [h'] at h
    | some r =>
      obtain ⟨c, q'⟩ := r
      simp [h'] at h; subst h
      have := nextLeft_in_range h'; omega

/-- Non-vacuity: a lone high surrogate followed by a pair followed by a lone low surrogate. -/
example : nextRight #[0xD800, 0xD83D, 0xDE00, 0xDC00] 0 = some (0xD800, 1) ∧
    nextRight #[0xD800, 0xD83D, 0xDE00, 0xDC00] 1 = some (0x1F600, 3) ∧
    nextRight #[0xD800, 0xD83D, 0xDE00, 0xDC00] 3 = some (0xDC00, 4) ∧
    nextLeft #[0xD800, 0xD83D, 0xDE00, 0xDC00] 4 = some (0xDC00, 3) ∧
    nextLeft #[0xD800, 0xD83D, 0xDE00, 0xDC00] 3 = some (0x1F600, 1) ∧
    nextLeft #[0xD800, 0xD83D, 0xDE00, 0xDC00] 2 = some (0xD83D, 1) := by decide

/-! ## UCS-2 versus UTF-16 (`ucs2_eq_utf16_on_bmp`) -/

/-- If no unit is a surrogate, the `Ucs2Input` and `Utf16Input` decoders agree at every position
of the input. -/
theorem ucs2_eq_utf16_on_bmp {units : Array Nat} (h : ∀ u ∈ units, isSurrogate u = false)
    (p : Nat) (hp : p ≤ units.size) :
    Ucs2.nextRight units p = nextRight units p ∧
    Ucs2.nextLeft units p = nextLeft units p ∧
    Ucs2.nextRightPos units p = nextRightPos units p ∧
    Ucs2.nextLeftPos units p = nextLeftPos units p := by
  have hH : ∀ i (hi : i < units.size), isHighSurrogate units[i] = false := by
    intro i hi
    have := h _ (Array.getElem_mem hi)
    simp [isSurrogate] at this; simp [isHighSurrogate]; omega
  have hL : ∀ i (hi : i < units.size), isLowSurrogate units[i] = false := by
    intro i hi
    have := h _ (Array.getElem_mem hi)
    simp [isSurrogate] at this; simp [isLowSurrogate]; omega
  refine ⟨?_, ?_, ?_, ?_⟩
  · unfold Ucs2.nextRight nextRight
    by_cases h1 : p < units.size
    · simp [Array.getElem?_eq_getElem h1, hH p h1]
    · simp [Array.getElem?_eq_none (Nat.le_of_not_lt h1)]
  · unfold Ucs2.nextLeft nextLeft
    by_cases h0 : p = 0
    · simp [h0]
    · have h1 : p - 1 < units.size := by omega
      simp [h0, Array.getElem?_eq_getElem h1, hL _ h1]
  · unfold Ucs2.nextRightPos tryMoveRight nextRightPos
    by_cases h1 : p < units.size
    · have : ¬ (units.size - p < 1) := by omega
      simp [Array.getElem?_eq_getElem h1, hH p h1, this]
    · have : units.size - p < 1 := by omega
      simp [Array.getElem?_eq_none (Nat.le_of_not_lt h1), this]
  · unfold Ucs2.nextLeftPos tryMoveLeft nextLeftPos
    by_cases h0 : p = 0
    · simp [h0]
    · have h1 : p - 1 < units.size := by omega
      have : ¬ (p < 1) := by omega
      simp [h0, Array.getElem?_eq_getElem h1, hL _ h1, this]

example : ∀ u ∈ #[0x61, 0xE9, 0x20AC, 0xFFFF], isSurrogate u = false := by decide

/-- The hypothesis is needed: on a surrogate pair the two indexers differ. -/
example : Ucs2.nextRight #[0xD83D, 0xDE00] 0 = some (0xD83D, 1) ∧
    nextRight #[0xD83D, 0xDE00] 0 = some (0x1F600, 2) := by decide

/-! ## `subrange_eq` -/

/-- Under the preconditions of `subrange_eq` none of its panic sites is reachable, and the
panic-free model `subrangeEq` describes it. -/
theorem subrangeEqE_eq_ok {units : Array Nat} {pos rs re : Nat} (fwd : Bool)
    (hr : rs ≤ re) (hre : re ≤ units.size) (hp : pos ≤ units.size) :
    subrangeEqE units fwd pos rs re = .ok (subrangeEq units fwd pos rs re) := by
  unfold subrangeEqE subrangeEq tryMoveRight tryMoveLeft
  cases fwd
  · simp only [Bool.false_eq_true, if_false, if_neg (Nat.not_lt.mpr hr)]
    by_cases h : pos < re - rs
    · simp [h]
    · have h1 : ¬ (pos < pos - (re - rs)) := by omega
      have h2 : ¬ (units.size < pos) := by omega
      have h3 : ¬ (units.size < re) := by omega
      simp only [h, if_false, h1, h2, h3, Bool.or_self, decide_false, apply_ite Except.ok, Bool.false_eq_true]
  · simp only [if_true, if_neg (Nat.not_lt.mpr hr)]
    by_cases h : units.size - pos < re - rs
    · simp [h]
    · have h1 : ¬ (pos + (re - rs) < pos) := by omega
      have h2 : ¬ (units.size < pos + (re - rs)) := by omega
      have h3 : ¬ (units.size < re) := by omega
      simp only [h, if_false, h1, h2, h3, Bool.or_self, decide_false, apply_ite Except.ok, Bool.false_eq_true]

/-- The result of `subrange_eq` is within the input. -/
theorem subrangeEq_in_range {units : Array Nat} {fwd : Bool} {pos rs re q : Nat}
    (hp : pos ≤ units.size) (h : subrangeEq units fwd pos rs re = some q) :
    q ≤ units.size ∧ (if fwd then q = pos + (re - rs) else q + (re - rs) = pos) := by
  unfold subrangeEq tryMoveRight tryMoveLeft at h
  cases fwd
  · simp only [Bool.false_eq_true, if_false] at h
    by_cases h1 : pos < re - rs
    · simp [h1] at h
    · simp only [h1, if_false] at h
      split at h
      · simp at h; subst h; simp; omega
      · cases h
  · simp only [if_true] at h
    by_cases h1 : units.size - pos < re - rs
    · simp [h1] at h
    · simp only [h1, if_false] at h
      split at h
      · simp at h; subst h; simp; omega
      · cases h

/-! ## Boundaries of UTF-16 text and translation of offsets (`offset_translation`) -/

/-- `pos` is within the input and not in the middle of a surrogate pair. -/
def isBoundary16 (units : Array Nat) (pos : Nat) : Bool :=
  decide (pos ≤ units.size) &&
  (pos == 0 ||
    match units[pos - 1]?, units[pos]? with
    | some a, some b => !(isHighSurrogate a && isLowSurrogate b)
    | _, _ => true)

theorem pos_decomp16 (cs : List Nat) : ∀ p, p < (encodeAll16 cs).length →
    ∃ k i, ∃ hk : k < cs.length, i < (encode16 cs[k]).length ∧ p = off16 cs k + i := by
  induction cs with
  | nil => intro p hp; simp at hp
  | cons c cs ih =>
    intro p hp
    by_cases h : p < (encode16 c).length
    · exact ⟨0, p, by simp, by simpa using h, by simp⟩
    · simp at hp
      obtain ⟨k, i, hk, hi, hpe⟩ := ih (p - (encode16 c).length) (by omega)
      refine ⟨k + 1, i, by simp; omega, by simpa using hi, ?_⟩
      simp [off16] at hpe ⊢; omega

theorem isBoundary16_off16 {cs : List Nat} (hcs : AllScalar cs) {k : Nat} (hk : k ≤ cs.length) :
    isBoundary16 (text16 cs) (off16 cs k) = true := by
  unfold isBoundary16
  have hle := off16_le_size cs k
  simp only [hle, decide_true, Bool.true_and, Bool.or_eq_true]
  right
  by_cases h : k = cs.length
  · subst h
    rw [off16_length, Array.getElem?_eq_none (Nat.le_refl _)]
    cases (text16 cs)[(text16 cs).size - 1]? <;> rfl
  · have hk' : k < cs.length := by omega
    have h0 := hasAt_text16 hk' 0 (encode16_length_pos _)
    simp only [Nat.add_zero] at h0
    rw [h0, List.getElem?_eq_getElem (encode16_length_pos _)]
    have hl := not_isLow_head (hcs _ (List.getElem_mem hk'))
      (List.getElem?_eq_getElem (encode16_length_pos _))
    cases (text16 cs)[off16 cs k - 1]? <;> simp [hl]

theorem isBoundary16_iff {cs : List Nat} (hcs : AllScalar cs) (p : Nat) :
    isBoundary16 (text16 cs) p = true ↔ ∃ k, k ≤ cs.length ∧ p = off16 cs k := by
  constructor
  · intro hb
    have hp : p ≤ (text16 cs).size := by
      unfold isBoundary16 at hb; simp only [Bool.and_eq_true, decide_eq_true_eq] at hb; exact hb.1
    by_cases he : p = (text16 cs).size
    · exact ⟨cs.length, Nat.le_refl _, by rw [off16_length]; exact he⟩
    · have hlt : p < (encodeAll16 cs).length := by simp at hp; simp at he; omega
      obtain ⟨k, i, hk, hi, hpe⟩ := pos_decomp16 cs p hlt
      by_cases hi0 : i = 0
      · subst hi0; exact ⟨k, by omega, by simpa using hpe⟩
      · exfalso
        have hc := hcs _ (List.getElem_mem hk)
        have hle := isScalar_le hc
        have hlen := encode16_length cs[k]
        have hat := hasAt_text16 hk
        unfold encode16 at hat
        by_cases hbmp : cs[k] < 0x10000
        · simp only [hbmp, if_true] at hlen; omega
        · simp only [hbmp, if_false] at hlen hat
          have hi1 : i = 1 := by omega
          subst hi1
          have h0 := hat 0 (by simp)
          have h1 := hat 1 (by simp)
          simp at h0 h1
          rw [← hpe] at h1
          have hp1 : p - 1 = off16 cs k := by omega
          unfold isBoundary16 at hb
          rw [hp1, h0, h1] at hb
          have hh : isHighSurrogate (55296 + (cs[k] - 65536) / 1024) = true := by
            simp [isHighSurrogate]; omega
          have hl : isLowSurrogate (56320 + (cs[k] - 65536) % 1024) = true := by
            simp [isLowSurrogate]; omega
          have hp0 : (p == 0) = false := by simp; omega
          simp [hh, hl, hp0] at hb
  · rintro ⟨k, hk, rfl⟩
    exact isBoundary16_off16 hcs hk

example : (List.range 7).filter (isBoundary16 (text16 [0x61, 0xE9, 0x20AC, 0x1F600, 0x62])) =
    [0, 1, 2, 3, 5, 6] := by decide

/-- Correspondence between UTF-8 and UTF-16 offsets of the same scalar sequence `cs`:
`p` and `q` are the offsets of the same scalar index. -/
def OffsetRel (cs : List Nat) (p q : Nat) : Prop :=
  ∃ k, k ≤ cs.length ∧ p = Regress.Utf8.off cs k ∧ q = off16 cs k

/-- `offset_translation`: `k ↦ off cs k` and `k ↦ off16 cs k` are strictly monotone on
`[0, cs.length]`; hence `OffsetRel cs` is a strictly monotone bijection between the UTF-8
boundaries of `text cs` and the UTF-16 boundaries of `text16 cs`:
it is defined exactly on the UTF-8 boundaries, its range is exactly the UTF-16 boundaries, it is
single-valued in both directions, and it preserves and reflects `<`. -/
theorem offset_translation {cs : List Nat} (hcs : AllScalar cs) :
    (∀ k j, k ≤ cs.length → j ≤ cs.length →
      (Regress.Utf8.off cs k < Regress.Utf8.off cs j ↔ k < j) ∧
      (off16 cs k < off16 cs j ↔ k < j)) ∧
    (∀ p, p ≤ (Regress.Utf8.text cs).size →
      (Regress.Utf8.isBoundary (Regress.Utf8.text cs) p = true ↔ ∃ q, OffsetRel cs p q)) ∧
    (∀ q, isBoundary16 (text16 cs) q = true ↔ ∃ p, OffsetRel cs p q) ∧
    (∀ p q q', OffsetRel cs p q → OffsetRel cs p q' → q = q') ∧
    (∀ p p' q, OffsetRel cs p q → OffsetRel cs p' q → p = p') ∧
    (∀ p q p' q', OffsetRel cs p q → OffsetRel cs p' q' → (p < p' ↔ q < q')) ∧
    OffsetRel cs 0 0 ∧ OffsetRel cs (Regress.Utf8.text cs).size (text16 cs).size := by
  refine ⟨?_, ?_, ?_, ?_, ?_, ?_, ?_, ?_⟩
  · intro k j hk hj
    exact ⟨Regress.Utf8.off_lt_iff hk hj, off16_lt_iff hk hj⟩
  · intro p hp
    rw [Regress.Utf8.isBoundary_iff cs hp]
    constructor
    · rintro ⟨k, hk, rfl⟩; exact ⟨_, k, hk, rfl, rfl⟩
    · rintro ⟨_, k, hk, rfl, _⟩; exact ⟨k, hk, rfl⟩
  · intro q
    rw [isBoundary16_iff hcs]
    constructor
    · rintro ⟨k, hk, rfl⟩; exact ⟨_, k, hk, rfl, rfl⟩
    · rintro ⟨_, k, hk, _, rfl⟩; exact ⟨k, hk, rfl⟩
  · rintro p q q' ⟨k, hk, rfl, rfl⟩ ⟨j, hj, h, rfl⟩
    rw [Regress.Utf8.off_injective hk hj h]
  · rintro p p' q ⟨k, hk, rfl, rfl⟩ ⟨j, hj, rfl, h⟩
    rw [off16_injective hk hj h]
  · rintro p q p' q' ⟨k, hk, rfl, rfl⟩ ⟨j, hj, rfl, rfl⟩
    rw [Regress.Utf8.off_lt_iff hk hj, off16_lt_iff hk hj]
  · exact ⟨0, Nat.zero_le _, by simp, by simp⟩
  · exact ⟨cs.length, Nat.le_refl _, (Regress.Utf8.off_length cs).symm, (off16_length cs).symm⟩

/-! ## Non-vacuity -/

example : AllScalar [0x61, 0xE9, 0x20AC, 0x1F600, 0x62] := by decide
example : text16 [0x61, 0xE9, 0x20AC, 0x1F600, 0x62] = #[0x61, 0xE9, 0x20AC, 0xD83D, 0xDE00, 0x62] := by
  decide
example : (List.range 6).map (off16 [0x61, 0xE9, 0x20AC, 0x1F600, 0x62]) = [0, 1, 2, 3, 5, 6] := by decide
example : (List.range 6).map (Regress.Utf8.off [0x61, 0xE9, 0x20AC, 0x1F600, 0x62]) = [0, 1, 3, 6, 10, 11] := by
  decide
example : nextRight (text16 [0x61, 0xE9, 0x20AC, 0x1F600, 0x62]) 3 = some (0x1F600, 5) := by decide
example : nextLeft (text16 [0x61, 0xE9, 0x20AC, 0x1F600, 0x62]) 5 = some (0x1F600, 3) := by decide
example : subrangeEq #[1, 2, 3, 1, 2] true 3 0 2 = some 5 ∧ subrangeEq #[1, 2, 3, 1, 2] false 5 0 2 = some 3 ∧
    subrangeEq #[1, 2, 3, 1, 2] true 2 0 2 = none := by decide

end Regress.Utf16
