import Proofs.Lemmas.Searcher
import Proofs.Lemmas.C20ProvidedSpec
/-!
# Helper lemmas for C20-provided

Route: model (`callOps`) ⟶ a deque of the steps not yet handed out (`dequeOps`, simulation relation
`Sim`) ⟶ the index walk of the specification (`walkOps`, relation `slice L i j`).
-/
namespace Regress.C20
open Regress.Api

variable {ctx : SearchCtx}

/-! ## The four loops are one loop -/

/-- The common shape of the four provided methods: call `step` until it returns a step wanted by `p`
or `Done`. -/
def loopG (step : RegexSearcher → Except SearchError (SearchStep × RegexSearcher))
    (p : SearchStep → Option (Nat × Nat)) :
    Nat → RegexSearcher → Except SearchError (Option (Nat × Nat) × RegexSearcher)
  | 0, _ => .error .outOfFuel
  | fuel + 1, s =>
    match step s with
    | .error err => .error err
    | .ok (st, s') =>
      match p st with
      | some r => .ok (some r, s')
      | none => if st = .done then .ok (none, s') else loopG step p fuel s'

theorem nextMatchFuel_eq (fuel : Nat) (s : RegexSearcher) :
    s.nextMatchFuel ctx fuel = loopG (RegexSearcher.next ctx) isMatch fuel s := by
  induction fuel generalizing s with
  | zero => rfl
  | succ f ih =>
    simp only [RegexSearcher.nextMatchFuel, loopG]
    cases h : s.next ctx with
    | error e => rfl
    | ok x => obtain ⟨st, s'⟩ := x; cases st <;> simp [isMatch, ih]

theorem nextRejectFuel_eq (fuel : Nat) (s : RegexSearcher) :
    s.nextRejectFuel ctx fuel = loopG (RegexSearcher.next ctx) isReject fuel s := by
  induction fuel generalizing s with
  | zero => rfl
  | succ f ih =>
    simp only [RegexSearcher.nextRejectFuel, loopG]
    cases h : s.next ctx with
    | error e => rfl
    | ok x => obtain ⟨st, s'⟩ := x; cases st <;> simp [isReject, ih]

theorem nextMatchBackFuel_eq (fuel : Nat) (s : RegexSearcher) :
    s.nextMatchBackFuel ctx fuel = loopG (RegexSearcher.nextBack ctx) isMatch fuel s := by
  induction fuel generalizing s with
  | zero => rfl
  | succ f ih =>
    simp only [RegexSearcher.nextMatchBackFuel, loopG]
    cases h : s.nextBack ctx with
    | error e => rfl
    | ok x => obtain ⟨st, s'⟩ := x; cases st <;> simp [isMatch, ih]

theorem nextRejectBackFuel_eq (fuel : Nat) (s : RegexSearcher) :
    s.nextRejectBackFuel ctx fuel = loopG (RegexSearcher.nextBack ctx) isReject fuel s := by
  induction fuel generalizing s with
  | zero => rfl
  | succ f ih =>
    simp only [RegexSearcher.nextRejectBackFuel, loopG]
    cases h : s.nextBack ctx with
    | error e => rfl
    | ok x => obtain ⟨st, s'⟩ := x; cases st <;> simp [isReject, ih]

/-- More fuel does not change the result of a provided method. -/
theorem loopG_fuel_mono (step : RegexSearcher → Except SearchError (SearchStep × RegexSearcher))
    (p : SearchStep → Option (Nat × Nat)) : ∀ (fuel fuel' : Nat) (s : RegexSearcher)
    (x : Option (Nat × Nat) × RegexSearcher), fuel ≤ fuel' → loopG step p fuel s = .ok x →
    loopG step p fuel' s = .ok x := by
  intro fuel
  induction fuel with
  | zero => intro fuel' s x _ h; simp [loopG] at h
  | succ f ih =>
    intro fuel' s x hle h
    obtain ⟨f', rfl⟩ : ∃ f', fuel' = f' + 1 := ⟨fuel' - 1, by omega⟩
    simp only [loopG] at h ⊢
    cases hs : step s with
    | error e => rw [hs] at h; cases h
    | ok y =>
      obtain ⟨st, s1⟩ := y
      rw [hs] at h
      simp only at h ⊢
      cases hp : p st with
      | some r => rw [hp] at h; exact h
      | none =>
        rw [hp] at h
        simp only at h ⊢
        by_cases hd : st = .done
        · simpa [hd] using h
        · simp only [hd, if_false] at h ⊢
          exact ih f' s1 x (by omega) h

/-! ## The deque of steps not yet handed out -/

/-- `Sim ctx s mid`: the searcher `s` is going to hand out exactly the steps `mid` (from the front in
this order, from the back in the reverse order).
* `remaining = None`: `mid` is what `forward_step` is still going to produce;
* `remaining = Some((v, f))`: `mid` is `v[f..]`. -/
def Sim (ctx : SearchCtx) (s : RegexSearcher) (mid : List SearchStep) : Prop :=
  (s.remaining = none ∧ ∃ s', Run ctx s mid s') ∨
  (∃ v f, s.remaining = some (v, f) ∧ f ≤ v.length ∧ mid = v.drop f ∧
    ∀ x ∈ v, x ≠ SearchStep.done)

theorem Sim.no_done {s : RegexSearcher} {mid : List SearchStep} (h : Sim ctx s mid) :
    ∀ x ∈ mid, x ≠ SearchStep.done := by
  rcases h with ⟨_, s', hrun⟩ | ⟨v, f, _, _, rfl, hnd⟩
  · exact hrun.no_done
  · intro x hx; exact hnd x (List.mem_of_mem_drop hx)

theorem Sim.init {L : List SearchStep} {s' : RegexSearcher} (h : Run ctx RegexSearcher.new L s') :
    Sim ctx RegexSearcher.new L := .inl ⟨rfl, s', h⟩

/-- `next()` pops the front of the deque. -/
theorem Sim.next {s : RegexSearcher} {mid : List SearchStep} (h : Sim ctx s mid) :
    ∃ s', s.next ctx = .ok (mid.head?.getD .done, s') ∧ Sim ctx s' mid.tail := by
  rcases h with ⟨hrem, s', hrun⟩ | ⟨v, f, hrem, hf, rfl, hnd⟩
  · cases hrun with
    | done hd =>
      refine ⟨s', by rw [next_of_remaining_none hrem, hd]; rfl, .inl ⟨?_, s', ?_⟩⟩
      · rw [forwardStep_remaining hd, hrem]
      · exact Run.done (forwardStep_done_again hd).1
    | @step _ s1 _ st l hs hne hrun' =>
      refine ⟨s1, by rw [next_of_remaining_none hrem, hs]; rfl, .inl ⟨?_, s', hrun'⟩⟩
      rw [forwardStep_remaining hs, hrem]
  · by_cases hlt : f < v.length
    · refine ⟨{ s with remaining := some (v, f + 1) }, ?_, .inr ⟨v, f + 1, rfl, by omega, ?_, hnd⟩⟩
      · rw [next_some hrem, dif_pos hlt, List.drop_eq_getElem_cons hlt]; rfl
      · rw [List.drop_eq_getElem_cons hlt]; rfl
    · have hnil : v.drop f = [] := List.drop_eq_nil_iff.2 (by omega)
      refine ⟨s, ?_, .inr ⟨v, f, hrem, hf, ?_, hnd⟩⟩
      · rw [next_some hrem, dif_neg hlt, hnil]; rfl
      · rw [hnil]; rfl

/-- `next_back()` with a filled `remaining` pops the back of the deque. -/
theorem nextBack_filled {s : RegexSearcher} {v : List SearchStep} {f : Nat}
    (hrem : s.remaining = some (v, f)) (hf : f ≤ v.length) (hnd : ∀ x ∈ v, x ≠ SearchStep.done) :
    ∃ s', s.nextBack ctx = .ok ((v.drop f).getLast?.getD .done, s') ∧
      Sim ctx s' (v.drop f).dropLast := by
  by_cases hlt : f < v.length
  · rcases List.eq_nil_or_concat v with hnil | ⟨v', b, hvb⟩
    · subst hnil; simp at hlt
    · rw [List.concat_eq_append] at hvb
      subst hvb
      have hf' : f ≤ v'.length := by simp at hlt; omega
      have hdrop : (v' ++ [b]).drop f = v'.drop f ++ [b] := List.drop_append_of_le_length hf'
      refine ⟨{ s with remaining := some (v', f) }, ?_,
        .inr ⟨v', f, rfl, hf', ?_, fun x hx => hnd x (by simp [hx])⟩⟩
      · rw [nextBack_some hrem, if_pos hlt, hdrop]; simp
      · rw [hdrop]; simp
  · have hnil : v.drop f = [] := List.drop_eq_nil_iff.2 (by omega)
    refine ⟨s, ?_, .inr ⟨v, f, hrem, hf, ?_, hnd⟩⟩
    · rw [nextBack_some hrem, if_neg hlt, hnil]; rfl
    · rw [hnil]; rfl

/-- `next_back()` pops the back of the deque (the first call runs the forward search to its end: the
fuel of its loop suffices when `mid.length + 1 ≤ 2·len + 2`). -/
theorem Sim.nextBack {s : RegexSearcher} {mid : List SearchStep} (h : Sim ctx s mid)
    (hlen : mid.length + 1 ≤ 2 * ctx.len + 2) :
    ∃ s', s.nextBack ctx = .ok (mid.getLast?.getD .done, s') ∧ Sim ctx s' mid.dropLast := by
  rcases h with ⟨hrem, s', hrun⟩ | ⟨v, f, hrem, hf, rfl, hnd⟩
  · rw [nextBack_of_run hrem hrun hlen]
    have := nextBack_filled (ctx := ctx) (s := { s' with remaining := some (mid, 0) }) (v := mid)
      (f := 0) rfl (Nat.zero_le _) hrun.no_done
    simpa using this
  · exact nextBack_filled hrem hf hnd

/-- The deque counterpart of a provided method scanning from the front: drop steps up to and including
the first one wanted by `p`. -/
def scanD (p : SearchStep → Option (Nat × Nat)) :
    List SearchStep → Option (Nat × Nat) × List SearchStep
  | [] => (none, [])
  | x :: t =>
    match p x with
    | some r => (some r, t)
    | none => scanD p t

theorem scanD_length (p : SearchStep → Option (Nat × Nat)) (l : List SearchStep) :
    (scanD p l).2.length ≤ l.length := by
  induction l with
  | nil => simp [scanD]
  | cons x t ih =>
    simp only [scanD]
    cases p x with
    | some r => simp
    | none => simp only [List.length_cons]; omega

/-- A provided method over `next()`. -/
theorem loop_fwd (p : SearchStep → Option (Nat × Nat)) (hp : p .done = none) :
    ∀ (mid : List SearchStep) (s : RegexSearcher) (fuel : Nat), Sim ctx s mid →
      mid.length + 1 ≤ fuel →
      ∃ s', loopG (RegexSearcher.next ctx) p fuel s = .ok ((scanD p mid).1, s') ∧
        Sim ctx s' (scanD p mid).2 := by
  intro mid
  induction mid with
  | nil =>
    intro s fuel h hf
    obtain ⟨f, rfl⟩ : ∃ f, fuel = f + 1 := ⟨fuel - 1, by omega⟩
    obtain ⟨s', h1, h2⟩ := h.next
    exact ⟨s', by simp [loopG, h1, hp, scanD], h2⟩
  | cons x t ih =>
    intro s fuel h hf
    obtain ⟨f, rfl⟩ : ∃ f, fuel = f + 1 := ⟨fuel - 1, by omega⟩
    have hx : x ≠ SearchStep.done := h.no_done x (by simp)
    obtain ⟨s1, h1, h2⟩ := h.next
    simp only [List.head?_cons, Option.getD_some, List.tail_cons] at h1 h2
    cases hpx : p x with
    | some r => exact ⟨s1, by simp [loopG, h1, hpx, scanD], by simpa [scanD, hpx] using h2⟩
    | none =>
      obtain ⟨s', h3, h4⟩ := ih s1 f h2 (by simp at hf; omega)
      exact ⟨s', by simp [loopG, h1, hpx, hx, scanD, h3], by simpa [scanD, hpx] using h4⟩

/-- A provided method over `next_back()`: the same scan on the reversed deque. -/
theorem loop_back (p : SearchStep → Option (Nat × Nat)) (hp : p .done = none) :
    ∀ (rm : List SearchStep) (s : RegexSearcher) (fuel : Nat), Sim ctx s rm.reverse →
      rm.length + 1 ≤ fuel → rm.length + 1 ≤ 2 * ctx.len + 2 →
      ∃ s', loopG (RegexSearcher.nextBack ctx) p fuel s = .ok ((scanD p rm).1, s') ∧
        Sim ctx s' (scanD p rm).2.reverse := by
  intro rm
  induction rm with
  | nil =>
    intro s fuel h hf hl
    obtain ⟨f, rfl⟩ : ∃ f, fuel = f + 1 := ⟨fuel - 1, by omega⟩
    obtain ⟨s', h1, h2⟩ := h.nextBack (by simp)
    simp only [List.reverse_nil, List.getLast?_nil, Option.getD_none, List.dropLast_nil] at h1 h2
    exact ⟨s', by simp [loopG, h1, hp, scanD], by simpa [scanD] using h2⟩
  | cons x t ih =>
    intro s fuel h hf hl
    obtain ⟨f, rfl⟩ : ∃ f, fuel = f + 1 := ⟨fuel - 1, by omega⟩
    have hx : x ≠ SearchStep.done := h.no_done x (by simp)
    obtain ⟨s1, h1, h2⟩ := h.nextBack (by simpa using hl)
    simp only [List.reverse_cons, List.getLast?_append, List.getLast?_singleton, Option.some_or,
      Option.getD_some, List.dropLast_concat] at h1 h2
    cases hpx : p x with
    | some r => exact ⟨s1, by simp [loopG, h1, hpx, scanD], by simpa [scanD, hpx] using h2⟩
    | none =>
      obtain ⟨s', h3, h4⟩ := ih s1 f h2 (by simp at hf; omega) (by simp at hl; omega)
      exact ⟨s', by simp [loopG, h1, hpx, hx, scanD, h3], by simpa [scanD, hpx] using h4⟩

/-- One call on the deque. -/
def dequeOp : SOp → List SearchStep → SOpResult × List SearchStep
  | .next, mid => (.step (mid.head?.getD .done), mid.tail)
  | .nextBack, mid => (.step (mid.getLast?.getD .done), mid.dropLast)
  | .nextMatch, mid => (.range (scanD isMatch mid).1, (scanD isMatch mid).2)
  | .nextReject, mid => (.range (scanD isReject mid).1, (scanD isReject mid).2)
  | .nextMatchBack, mid =>
    (.range (scanD isMatch mid.reverse).1, (scanD isMatch mid.reverse).2.reverse)
  | .nextRejectBack, mid =>
    (.range (scanD isReject mid.reverse).1, (scanD isReject mid.reverse).2.reverse)

def dequeOps : List SOp → List SearchStep → List SOpResult
  | [], _ => []
  | op :: ops, mid => (dequeOp op mid).1 :: dequeOps ops (dequeOp op mid).2

theorem dequeOp_length (op : SOp) (mid : List SearchStep) :
    (dequeOp op mid).2.length ≤ mid.length := by
  cases op <;> simp only [dequeOp, List.length_tail, List.length_dropLast, List.length_reverse]
  · omega
  · omega
  · exact scanD_length _ _
  · exact scanD_length _ _
  · simpa using scanD_length isMatch mid.reverse
  · simpa using scanD_length isReject mid.reverse

/-- One call of the model is one call on the deque. -/
theorem call_deque {s : RegexSearcher} {mid : List SearchStep} (h : Sim ctx s mid)
    (hlen : mid.length + 1 ≤ 2 * ctx.len + 2) (op : SOp) :
    ∃ s', op.call ctx s = .ok ((dequeOp op mid).1, s') ∧ Sim ctx s' (dequeOp op mid).2 := by
  cases op with
  | next =>
    obtain ⟨s', h1, h2⟩ := h.next
    exact ⟨s', by simp [SOp.call, h1, dequeOp], h2⟩
  | nextBack =>
    obtain ⟨s', h1, h2⟩ := h.nextBack hlen
    exact ⟨s', by simp [SOp.call, h1, dequeOp], h2⟩
  | nextMatch =>
    obtain ⟨s', h1, h2⟩ := loop_fwd isMatch rfl mid s (2 * ctx.len + 2) h hlen
    exact ⟨s', by simp [SOp.call, RegexSearcher.nextMatch, providedFuel, nextMatchFuel_eq, h1,
      dequeOp], h2⟩
  | nextReject =>
    obtain ⟨s', h1, h2⟩ := loop_fwd isReject rfl mid s (2 * ctx.len + 2) h hlen
    exact ⟨s', by simp [SOp.call, RegexSearcher.nextReject, providedFuel, nextRejectFuel_eq, h1,
      dequeOp], h2⟩
  | nextMatchBack =>
    obtain ⟨s', h1, h2⟩ := loop_back isMatch rfl mid.reverse s (2 * ctx.len + 2)
      (by simpa using h) (by simpa using hlen) (by simpa using hlen)
    exact ⟨s', by simp [SOp.call, RegexSearcher.nextMatchBack, providedFuel, nextMatchBackFuel_eq,
      h1, dequeOp], h2⟩
  | nextRejectBack =>
    obtain ⟨s', h1, h2⟩ := loop_back isReject rfl mid.reverse s (2 * ctx.len + 2)
      (by simpa using h) (by simpa using hlen) (by simpa using hlen)
    exact ⟨s', by simp [SOp.call, RegexSearcher.nextRejectBack, providedFuel,
      nextRejectBackFuel_eq, h1, dequeOp], h2⟩

/-- A sequence of calls of the model is that sequence on the deque. -/
theorem callOps_deque : ∀ (ops : List SOp) (s : RegexSearcher) (mid : List SearchStep),
    Sim ctx s mid → mid.length + 1 ≤ 2 * ctx.len + 2 →
    callOps ctx ops s = .ok (dequeOps ops mid) := by
  intro ops
  induction ops with
  | nil => intro s mid _ _; rfl
  | cons op ops ih =>
    intro s mid h hlen
    obtain ⟨s', h1, h2⟩ := call_deque h hlen op
    have := ih s' _ h2 (by have := dequeOp_length op mid; omega)
    simp [callOps, h1, this, dequeOps]

/-! ## The deque and the index walk -/

/-- `L[i..j)`. -/
def slice (L : List SearchStep) (i j : Nat) : List SearchStep := (L.take j).drop i

theorem slice_length {L : List SearchStep} {i j : Nat} (hj : j ≤ L.length) :
    (slice L i j).length = j - i := by
  simp [slice, Nat.min_eq_left hj]

theorem slice_nil {L : List SearchStep} {i j : Nat} (h : j ≤ i) : slice L i j = [] := by
  apply List.drop_eq_nil_iff.2
  simp; omega

theorem slice_full (L : List SearchStep) : slice L 0 L.length = L := by simp [slice]

theorem slice_cons {L : List SearchStep} {i j : Nat} (hij : i < j) (hj : j ≤ L.length) :
    slice L i j = L.getD i .done :: slice L (i + 1) j := by
  have hlt : i < (L.take j).length := by simp; omega
  have hi : i < L.length := by omega
  unfold slice
  rw [List.drop_eq_getElem_cons hlt]
  simp [List.getD_eq_getElem?_getD, hi]

theorem slice_snoc {L : List SearchStep} {i j : Nat} (hij : i < j) (hj : j ≤ L.length) :
    slice L i j = slice L i (j - 1) ++ [L.getD (j - 1) .done] := by
  have hj1 : j - 1 < L.length := by omega
  have htake : L.take j = L.take (j - 1) ++ [L.getD (j - 1) .done] := by
    have : j = (j - 1) + 1 := by omega
    rw [this, List.take_succ_eq_append_getElem hj1]
    simp [List.getD_eq_getElem?_getD, hj1]
  unfold slice
  rw [htake, List.drop_append_of_le_length (by simp; omega)]

theorem scanFwd_slice (L : List SearchStep) (p : SearchStep → Option (Nat × Nat)) (j : Nat)
    (hj : j ≤ L.length) : ∀ (n i : Nat), j - i = n → i ≤ j →
    scanD p (slice L i j) = ((scanFwd L p n i).1, slice L (scanFwd L p n i).2 j) ∧
      i ≤ (scanFwd L p n i).2 ∧ (scanFwd L p n i).2 ≤ j := by
  intro n
  induction n with
  | zero =>
    intro i hn hij
    simp [scanFwd, slice_nil (L := L) (i := i) (j := j) (by omega), scanD, hij]
  | succ n ih =>
    intro i hn hij
    have hlt : i < j := by omega
    rw [slice_cons hlt hj]
    simp only [scanD, scanFwd]
    cases hp : p (L.getD i .done) with
    | some r => simp; omega
    | none =>
      obtain ⟨h1, h2, h3⟩ := ih (i + 1) (by omega) (by omega)
      simp only [h1]
      exact ⟨trivial, by omega, h3⟩

theorem scanBack_slice (L : List SearchStep) (p : SearchStep → Option (Nat × Nat)) (i : Nat) :
    ∀ (n j : Nat), j - i = n → i ≤ j → j ≤ L.length →
    scanD p (slice L i j).reverse =
        ((scanBack L p n j).1, (slice L i (scanBack L p n j).2).reverse) ∧
      i ≤ (scanBack L p n j).2 ∧ (scanBack L p n j).2 ≤ j := by
  intro n
  induction n with
  | zero =>
    intro j hn hij hj
    simp [scanBack, slice_nil (L := L) (i := i) (j := j) (by omega), scanD, hij]
  | succ n ih =>
    intro j hn hij hj
    have hlt : i < j := by omega
    rw [slice_snoc hlt hj]
    simp only [List.reverse_append, List.reverse_cons, List.reverse_nil, List.nil_append,
      List.singleton_append, scanD, scanBack]
    cases hp : p (L.getD (j - 1) .done) with
    | some r => simp; omega
    | none =>
      obtain ⟨h1, h2, h3⟩ := ih (j - 1) (by omega) (by omega) (by omega)
      simp only [h1]
      exact ⟨trivial, h2, by omega⟩

/-- One call on the deque `L[i..j)` is one call of the walk at `(i, j)`. -/
theorem walkOp_deque (L : List SearchStep) (op : SOp) {i j : Nat} (hij : i ≤ j)
    (hj : j ≤ L.length) :
    dequeOp op (slice L i j) =
        ((walkOp L op (i, j)).1, slice L (walkOp L op (i, j)).2.1 (walkOp L op (i, j)).2.2) ∧
      (walkOp L op (i, j)).2.1 ≤ (walkOp L op (i, j)).2.2 ∧
      (walkOp L op (i, j)).2.2 ≤ L.length := by
  cases op with
  | next =>
    by_cases hlt : i < j
    · simp only [dequeOp, walkOp, if_pos hlt, slice_cons hlt hj]
      exact ⟨by simp, by omega, hj⟩
    · simp only [dequeOp, walkOp, if_neg hlt, slice_nil (L := L) (i := i) (j := j) (by omega)]
      exact ⟨by simp, hij, hj⟩
  | nextBack =>
    by_cases hlt : i < j
    · simp only [dequeOp, walkOp, if_pos hlt, slice_snoc hlt hj]
      exact ⟨by simp, by omega, by omega⟩
    · simp only [dequeOp, walkOp, if_neg hlt, slice_nil (L := L) (i := i) (j := j) (by omega)]
      exact ⟨by simp, hij, hj⟩
  | nextMatch =>
    obtain ⟨h1, h2, h3⟩ := scanFwd_slice L isMatch j hj (j - i) i rfl hij
    simp only [dequeOp, walkOp, h1]
    exact ⟨trivial, h3, hj⟩
  | nextReject =>
    obtain ⟨h1, h2, h3⟩ := scanFwd_slice L isReject j hj (j - i) i rfl hij
    simp only [dequeOp, walkOp, h1]
    exact ⟨trivial, h3, hj⟩
  | nextMatchBack =>
    obtain ⟨h1, h2, h3⟩ := scanBack_slice L isMatch i (j - i) j rfl hij hj
    simp only [dequeOp, walkOp, h1, List.reverse_reverse]
    exact ⟨trivial, h2, by omega⟩
  | nextRejectBack =>
    obtain ⟨h1, h2, h3⟩ := scanBack_slice L isReject i (j - i) j rfl hij hj
    simp only [dequeOp, walkOp, h1, List.reverse_reverse]
    exact ⟨trivial, h2, by omega⟩

theorem walkOpsFrom_deque (L : List SearchStep) : ∀ (ops : List SOp) (i j : Nat), i ≤ j →
    j ≤ L.length → dequeOps ops (slice L i j) = walkOpsFrom L ops (i, j) := by
  intro ops
  induction ops with
  | nil => intro i j _ _; rfl
  | cons op ops ih =>
    intro i j hij hj
    obtain ⟨h1, h2, h3⟩ := walkOp_deque L op hij hj
    simp only [dequeOps, walkOpsFrom, h1]
    rw [ih _ _ h2 h3]

theorem walkOps_deque (L : List SearchStep) (ops : List SOp) : dequeOps ops L = walkOps L ops := by
  have := walkOpsFrom_deque L ops 0 L.length (Nat.zero_le _) (Nat.le_refl _)
  rwa [slice_full] at this

/-! ## Facts about the walk used by the corollaries -/

theorem walkOpsFrom_append (L : List SearchStep) (a b : List SOp) (w : Nat × Nat) :
    walkOpsFrom L (a ++ b) w = walkOpsFrom L a w ++ walkOpsFrom L b (walkEnd L a w) := by
  induction a generalizing w with
  | nil => rfl
  | cons op a ih => simp [walkOpsFrom, walkEnd, ih]

theorem walkOpsFrom_length (L : List SearchStep) (ops : List SOp) (w : Nat × Nat) :
    (walkOpsFrom L ops w).length = ops.length := by
  induction ops generalizing w with
  | nil => rfl
  | cons op ops ih => simp [walkOpsFrom, ih]

/-- `k` calls of `next_back` on `(0, j)`. -/
theorem walk_backs (L : List SearchStep) : ∀ (k j : Nat), j ≤ L.length →
    walkEnd L (List.replicate k .nextBack) (0, j) = (0, j - k) ∧
    walkOpsFrom L (List.replicate k .nextBack) (0, j) =
      (List.range k).map (fun t => .step (if t < j then L.getD (j - 1 - t) .done else .done)) := by
  intro k
  induction k with
  | zero => intro j _; simp [walkEnd, walkOpsFrom]
  | succ k ih =>
    intro j hj
    by_cases hlt : 0 < j
    · obtain ⟨h1, h2⟩ := ih (j - 1) (by omega)
      simp only [List.replicate_succ, walkEnd, walkOpsFrom, walkOp, if_pos hlt, h1, h2]
      refine ⟨by congr 1; omega, ?_⟩
      rw [List.range_succ_eq_map, List.map_cons, List.map_map]
      simp only [hlt, if_true, Nat.sub_zero]
      congr 1
      apply List.map_congr_left
      intro t _
      simp only [Function.comp]
      by_cases ht : t < j - 1
      · have : t + 1 < j := by omega
        simp only [ht, this, if_true]
        congr 2; omega
      · have : ¬ t + 1 < j := by omega
        simp [ht, this]
    · have hj0 : j = 0 := by omega
      subst hj0
      obtain ⟨h1, h2⟩ := ih 0 (Nat.zero_le _)
      simp only [List.replicate_succ, walkEnd, walkOpsFrom, walkOp, Nat.lt_irrefl, if_false, h1, h2]
      refine ⟨by simp, ?_⟩
      rw [List.range_succ_eq_map, List.map_cons, List.map_map]
      simp

theorem scanD_firstMatch (l : List SearchStep) : (scanD isMatch l).1 = firstMatch l := by
  induction l with
  | nil => rfl
  | cons x t ih => cases x <;> simp [scanD, isMatch, firstMatch, ih]

/-- `next_match` on the abstract searcher `(0, j)` returns the first `Match` step of `L[0..j)`. -/
theorem scanFwd_firstMatch (L : List SearchStep) {j : Nat} (hj : j ≤ L.length) :
    (scanFwd L isMatch j 0).1 = firstMatch (L.take j) := by
  obtain ⟨h1, _⟩ := scanFwd_slice L isMatch j hj j 0 rfl (Nat.zero_le _)
  have := congrArg Prod.fst h1
  simp only [slice, List.drop_zero] at this
  rw [← this, scanD_firstMatch]

/-- The forward step list named by `forwardSteps` is the `Run` of a fresh searcher. -/
theorem run_of_forwardSteps (H : CtxOK ctx) {L : List SearchStep} (hL : forwardSteps ctx = some L) :
    (∃ s', Run ctx RegexSearcher.new L s') ∧ L.length + 1 ≤ 2 * ctx.len + 2 := by
  obtain ⟨steps, s', hrun, hlen, _⟩ := run_exists H _ 0 (some 0) (Nat.le_refl _) (FwdInv_new H)
  have hlen' : steps.length + 1 ≤ 2 * ctx.len + 2 := by
    have := fwdMeasure_new (ctx := ctx); unfold RegexSearcher.new at this; omega
  have h : forwardSteps ctx = some steps := forwardStepsFuel_of_run hrun rfl _ hlen'
  rw [h] at hL
  cases hL
  exact ⟨⟨s', hrun⟩, hlen'⟩

end Regress.C20
