import RegressModel.VM.Emit
/-!
# The work-stack loop of `emit_node` and its structurally recursive formulation agree

`runStack` is the literal `while let Some(inst) = stack.pop()` loop of `Emitter::emit_node`;
`emitNode` is the recursive formulation `emit` uses. With enough fuel (`cost n` pops for the node,
and at least 2 units left for the nested `emit_node` calls of `emit_code_point_sequence`), running
the stack with `Node(n)` on top is: `emitNode n`, then the rest of the stack.
-/
namespace Regress.VM
open Regress.IR (Node)

mutual
/-- Number of work items popped while a `Node(n)` item is processed. -/
def cost : Node → Nat
  | .cat ns => costList ns + 1
  | .alt l r => cost l + cost r + 3
  | .loop l _ _ _ => cost l + 2
  | .loop1 l _ => cost l + 1
  | .group _ _ c => cost c + 2
  | .look _ _ _ _ c => cost c + 2
  | _ => 1
def costList : List Node → Nat
  | [] => 0
  | n :: ns => cost n + costList ns
end

/-- `Except.bind`, spelled as the `match` the model uses. -/
def andThen (r : Except EmitErr EmitState) (k : EmitM) : Except EmitErr EmitState :=
  match r with
  | .error e => .error e
  | .ok s => k s

theorem runStack_piece (p : Piece) (fuel : Nat) (h : 2 ≤ fuel) (s : EmitState) :
    runStack fuel [.node p.toNode] s = emitPiece p s := by
  obtain ⟨f, rfl⟩ : ∃ f, fuel = f + 2 := ⟨fuel - 2, by omega⟩
  cases p <;> simp [Piece.toNode, runStack, emitPiece] <;> split <;> simp_all

theorem runStack_piece_fun (fuel : Nat) (h : 2 ≤ fuel) :
    (fun (piece : Piece) (s : EmitState) => runStack fuel [.node piece.toNode] s) = emitPiece := by
  funext p s; exact runStack_piece p fuel h s

/-! One-step unfoldings of the loop. -/

theorem step_cat (f : Nat) (ns : List Node) (stack : List Work) (s : EmitState) :
    runStack (f + 1) (.node (.cat ns) :: stack) s = runStack f (ns.map Work.node ++ stack) s := rfl
theorem step_loop1 (f : Nat) (l : Node) (q) (stack : List Work) (s : EmitState) :
    runStack (f + 1) (.node (.loop1 l q) :: stack) s =
      runStack f (.node l :: stack) (emitInsn (.loop1 q.min (maxIters q) q.greedy) s) := rfl
theorem step_loop (f : Nat) (l : Node) (q g0 g1) (stack : List Work) (s : EmitState) :
    runStack (f + 1) (.node (.loop l q g0 g1) :: stack) s =
      runStack f (.node l :: .nodeLoopFinish (emitLoopEnter q g0 g1 s).2 :: stack)
        (emitLoopEnter q g0 g1 s).1 := rfl
theorem step_loopFinish (f : Nat) (idx : Nat) (stack : List Work) (s : EmitState) :
    runStack (f + 1) (.nodeLoopFinish idx :: stack) s =
      andThen (emitLoopFinish idx s) (runStack f stack) := by
  simp only [runStack, andThen]; split <;> simp_all
theorem step_group (f : Nat) (id name) (c : Node) (stack : List Work) (s : EmitState) :
    runStack (f + 1) (.node (.group id name c) :: stack) s =
      runStack f (.node c :: .endCaptureGroup id :: stack) (emitGroupBegin id name s) := rfl
theorem step_endGroup (f : Nat) (g : Nat) (stack : List Work) (s : EmitState) :
    runStack (f + 1) (.endCaptureGroup g :: stack) s =
      runStack f stack (emitInsn (.endCaptureGroup g) s) := rfl
theorem step_look (f : Nat) (ng bw sg eg) (c : Node) (stack : List Work) (s : EmitState) :
    runStack (f + 1) (.node (.look ng bw sg eg c) :: stack) s =
      runStack f (.node c :: .nodeLookaroundAssertionFinish (emitLookBegin ng bw sg eg s).2.1
        (emitLookBegin ng bw sg eg s).2.2 :: stack) (emitLookBegin ng bw sg eg s).1 := rfl
theorem step_lookFinish (f : Nat) (idx : Nat) (prev : Bool) (stack : List Work) (s : EmitState) :
    runStack (f + 1) (.nodeLookaroundAssertionFinish idx prev :: stack) s =
      andThen (emitLookFinish idx prev s) (runStack f stack) := by
  simp only [runStack, andThen]; split <;> simp_all
theorem step_alt (f : Nat) (l r : Node) (stack : List Work) (s : EmitState) :
    runStack (f + 1) (.node (.alt l r) :: stack) s =
      runStack f (.node l :: .nodeAltMiddle (emitInsnOffset (.alt 0) s).2 r :: stack)
        (emitInsnOffset (.alt 0) s).1 := rfl
theorem step_altMiddle (f : Nat) (altIdx : Nat) (r : Node) (stack : List Work) (s : EmitState) :
    runStack (f + 1) (.nodeAltMiddle altIdx r :: stack) s =
      runStack f (.node r :: .nodeAltFinish altIdx (emitInsnOffset (.jump 0) s).2
        (nextOffset (emitInsnOffset (.jump 0) s).1) :: stack) (emitInsnOffset (.jump 0) s).1 := rfl
theorem step_altFinish (f : Nat) (a j rb : Nat) (stack : List Work) (s : EmitState) :
    runStack (f + 1) (.nodeAltFinish a j rb :: stack) s =
      andThen (emitAltFinish a j rb s) (runStack f stack) := by
  simp only [runStack, andThen]; split <;> simp_all

theorem andThen_andThen (r : Except EmitErr EmitState) (k1 k2 : EmitM) :
    andThen (andThen r k1) k2 = andThen r (fun s => andThen (k1 s) k2) := by
  cases r <;> rfl

/-! `emitNode` on the compound nodes, in `andThen` form. -/

theorem emitNode_loop (l : Node) (q g0 g1) (s : EmitState) :
    emitNode (.loop l q g0 g1) s =
      andThen (emitNode l (emitLoopEnter q g0 g1 s).1) (emitLoopFinish (emitLoopEnter q g0 g1 s).2) := by
  rw [emitNode]; rfl
theorem emitNode_group (id name) (c : Node) (s : EmitState) :
    emitNode (.group id name c) s =
      andThen (emitNode c (emitGroupBegin id name s)) (fun s => .ok (emitInsn (.endCaptureGroup id) s)) := by
  rw [emitNode]; rfl
theorem emitNode_look (ng bw sg eg) (c : Node) (s : EmitState) :
    emitNode (.look ng bw sg eg c) s =
      andThen (emitNode c (emitLookBegin ng bw sg eg s).1)
        (emitLookFinish (emitLookBegin ng bw sg eg s).2.1 (emitLookBegin ng bw sg eg s).2.2) := by
  rw [emitNode]; rfl
theorem emitNode_alt (l r : Node) (s : EmitState) :
    emitNode (.alt l r) s =
      andThen (emitNode l (emitInsnOffset (.alt 0) s).1) (fun s1 =>
        andThen (emitNode r (emitInsnOffset (.jump 0) s1).1)
          (emitAltFinish (emitInsnOffset (.alt 0) s).2 (emitInsnOffset (.jump 0) s1).2
            (nextOffset (emitInsnOffset (.jump 0) s1).1))) := by
  rw [emitNode]; rfl

mutual
theorem runStack_node : (n : Node) → (fuel : Nat) → 2 ≤ fuel → (stack : List Work) → (s : EmitState) →
    runStack (cost n + fuel) (.node n :: stack) s = andThen (emitNode n s) (runStack fuel stack)
  | .empty, fuel, _, stack, s => by simp [cost, Nat.add_comm 1, runStack, emitNode, andThen]
  | .goal, fuel, _, stack, s => by simp [cost, Nat.add_comm 1, runStack, emitNode, andThen]
  | .char _, fuel, _, stack, s => by simp [cost, Nat.add_comm 1, runStack, emitNode, andThen]
  | .matchAny, fuel, _, stack, s => by simp [cost, Nat.add_comm 1, runStack, emitNode, andThen]
  | .matchAnyExceptLT, fuel, _, stack, s => by
    simp [cost, Nat.add_comm 1, runStack, emitNode, andThen]
  | .anchor _ _, fuel, _, stack, s => by simp [cost, Nat.add_comm 1, runStack, emitNode, andThen]
  | .backRef _ _, fuel, _, stack, s => by simp [cost, Nat.add_comm 1, runStack, emitNode, andThen]
  | .wordBoundary _ u, fuel, _, stack, s => by
    cases u <;> simp [cost, Nat.add_comm 1, runStack, emitNode, andThen]
  | .byteSeq _, fuel, _, stack, s => by
    simp only [cost, Nat.add_comm 1, runStack, emitNode, andThen]; split <;> simp_all
  | .byteSet _, fuel, _, stack, s => by
    simp only [cost, Nat.add_comm 1, runStack, emitNode, andThen]; split <;> simp_all
  | .charSet _, fuel, _, stack, s => by
    simp only [cost, Nat.add_comm 1, runStack, emitNode, andThen]; split <;> simp_all
  | .bracket _, fuel, _, stack, s => by
    simp only [cost, Nat.add_comm 1, runStack, emitNode, andThen]; split <;> simp_all
  | .stringSet _ _, fuel, h, stack, s => by
    simp only [cost, Nat.add_comm 1, runStack, emitNode, andThen, runStack_piece_fun fuel h]
    split <;> simp_all
  | .cat ns, fuel, h, stack, s => by
    have ih := runStack_nodes ns fuel h stack s
    rw [cost, show costList ns + 1 + fuel = (costList ns + fuel) + 1 by omega, step_cat, emitNode]
    exact ih
  | .loop1 l q, fuel, h, stack, s => by
    have ih := runStack_node l fuel h stack (emitInsn (.loop1 q.min (maxIters q) q.greedy) s)
    rw [cost, show cost l + 1 + fuel = (cost l + fuel) + 1 by omega, step_loop1, emitNode]
    exact ih
  | .loop l q g0 g1, fuel, h, stack, s => by
    have ih := runStack_node l (fuel + 1) (by omega) (.nodeLoopFinish (emitLoopEnter q g0 g1 s).2 :: stack)
      (emitLoopEnter q g0 g1 s).1
    rw [cost, show cost l + 2 + fuel = (cost l + (fuel + 1)) + 1 by omega, step_loop, ih, emitNode_loop,
      andThen_andThen]
    congr 1 <;> (funext s1; exact step_loopFinish _ _ _ _)
  | .group id name c, fuel, h, stack, s => by
    have ih := runStack_node c (fuel + 1) (by omega) (.endCaptureGroup id :: stack) (emitGroupBegin id name s)
    rw [cost, show cost c + 2 + fuel = (cost c + (fuel + 1)) + 1 by omega, step_group, ih, emitNode_group,
      andThen_andThen]
    congr 1
  | .look ng bw sg eg c, fuel, h, stack, s => by
    have ih := runStack_node c (fuel + 1) (by omega)
      (.nodeLookaroundAssertionFinish (emitLookBegin ng bw sg eg s).2.1 (emitLookBegin ng bw sg eg s).2.2 :: stack)
      (emitLookBegin ng bw sg eg s).1
    rw [cost, show cost c + 2 + fuel = (cost c + (fuel + 1)) + 1 by omega, step_look, ih, emitNode_look,
      andThen_andThen]
    congr 1 <;> (funext s1; exact step_lookFinish _ _ _ _ _)
  | .alt l r, fuel, h, stack, s => by
    have ihl := runStack_node l (cost r + (fuel + 1) + 1) (by omega)
      (.nodeAltMiddle (emitInsnOffset (.alt 0) s).2 r :: stack) (emitInsnOffset (.alt 0) s).1
    rw [cost, show cost l + cost r + 3 + fuel = (cost l + (cost r + (fuel + 1) + 1)) + 1 by omega,
      step_alt, ihl, emitNode_alt, andThen_andThen]
    congr 1; funext s1
    have ihr := runStack_node r (fuel + 1) (by omega)
      (.nodeAltFinish (emitInsnOffset (.alt 0) s).2 (emitInsnOffset (.jump 0) s1).2
        (nextOffset (emitInsnOffset (.jump 0) s1).1) :: stack) (emitInsnOffset (.jump 0) s1).1
    rw [step_altMiddle, ihr, andThen_andThen]
    congr 1 <;> (funext s2; exact step_altFinish _ _ _ _ _ _)
theorem runStack_nodes : (ns : List Node) → (fuel : Nat) → 2 ≤ fuel → (stack : List Work) → (s : EmitState) →
    runStack (costList ns + fuel) (ns.map Work.node ++ stack) s = andThen (emitNodes ns s) (runStack fuel stack)
  | [], fuel, _, stack, s => by simp [costList, emitNodes, andThen]
  | n :: ns, fuel, h, stack, s => by
    have ih1 := runStack_node n (costList ns + fuel) (by omega) (ns.map Work.node ++ stack) s
    rw [costList, emitNodes, List.map_cons, List.cons_append,
      show cost n + costList ns + fuel = cost n + (costList ns + fuel) by omega, ih1]
    cases emitNode n s with
    | error e => rfl
    | ok s1 =>
      simp only [andThen]
      exact runStack_nodes ns fuel h stack s1
end

/-- `emit` through the work stack is `emit`, given `cost n + 3` units of fuel. -/
theorem emitViaStack_eq (n : IR.Regex) (fuel : Nat) (h : cost n.node + 3 ≤ fuel) :
    emitViaStack fuel n = emit n := by
  obtain ⟨f, rfl⟩ : ∃ f, fuel = cost n.node + (f + 3) := ⟨fuel - cost n.node - 3, by omega⟩
  unfold emitViaStack emit emitWith
  split
  · rfl
  · dsimp only
    rw [runStack_node n.node (f + 3) (by omega) [] _]
    cases emitNode n.node { unicode := n.flags.unicode } with
    | error e => rfl
    | ok s => rfl

end Regress.VM
