import Proofs.Final
/-!
# Termination of the WHOLE running search `VM.findIter`, with an explicit tick budget (lemmas)

`VM.findIter ex prog inp start fuel` threads ONE tick counter (`Acc.steps`) through all attempts of all
`next_match` calls of the drained iterator; `fuel` is the budget of the whole search.  What ticks:
only the executors' `run` / `runStates` loops (one tick per interpreted instruction / thread step).  The
prefix scans (`findBytesPred`), `next_right_pos`, the iterator's stepping past an empty match and the
bookkeeping of `next_match` do not tick.  Hence

  ticks of the search ≤ (number of attempts) * (ticks of one attempt).

* one attempt — on the reused matcher of the `BacktrackExecutor` (`btAttempt`) or on the PikeVM state with
  the stale `entry` (`pkAttempt`) — ends within `Pk.lookBound prog |haystack|` ticks
  (`btAttempt_total`: C05Full's PikeVM bound transferred by C02Full's simulation for REUSED matchers;
  `pkAttempt_total`: `Pk.runStates_terminates3`, which holds for any initial thread and any counter offset);
* the positions at which a search attempts are strictly increasing valid positions `≤ len`
  (a `next_match` scans to the right; the next `next_match` starts at the match end, or one char further
  after an empty match): at most `len + 1 - start` attempts.

So `searchBound prog len = (len + 1) * Pk.lookBound prog len` suffices.  The invariant (`Budget`):
at cursor `c`, `steps + (len + 1 - c) * B ≤ L`.

Everything is generic in the notion `V` of valid position (`KindHyp`): char boundaries of a UTF-8 haystack
(`kind_utf8`) or all offsets `≤ len` of an ASCII haystack (`kind_ascii`).
-/
namespace Regress.SearchTerm

open Regress Regress.Api Regress.VM Regress.VM.Safety Regress.C06 Regress.Closure Regress.Closure.Shift
open Regress.Closure2

/-- **The budget**: `(len + 1)` attempts of at most `Pk.lookBound prog len` ticks each. -/
def searchBound (prog : Prog) (len : Nat) : Nat := (len + 1) * Pk.lookBound prog len

/-- Structural hypotheses on the program (all decidable; theorems for compiled programs). -/
structure StructHyp (prog : Prog) : Prop where
  wf : wfProgFull prog = true
  loops : Sim.loopsStructured prog = true
  looks : Sim.looksStructured prog = true
  lookLoop : Pk.lookLoopProg prog = true

/-- What the termination argument needs to know about the haystack kind; `V` = valid positions. -/
structure KindHyp (prog : Prog) (inp : Input) (V : Nat → Prop) : Prop where
  v_le : ∀ p, V p → p ≤ inp.len
  valid : ∀ p, V p → C02Full.ValidAt inp p
  next_ok : ∀ p, V p → ∃ r, inp.nextRightPos p = .ok r ∧ ∀ q, r = some q → p < q ∧ V q
  find_ok : ∀ p q, V p → findBytesPred prog.startPred inp.bytes p = some q → p ≤ q ∧ V q
  bt_safe : ∀ {pos : Nat}, V pos → ∀ {st : Bt.State}, Bt.StateOK prog V st →
    (∀ (g : Nat) (gd : Bt.GroupData), st.groups[g]? = some gd → gd = ⟨none, none⟩) → ∀ (sf limit : Nat),
    Bt.Post (fun e st' => pos ≤ e ∧ V e ∧ Bt.StateOK prog V st')
      (fun st' => Bt.StateOK prog V st' ∧ st'.groups = st.groups)
      (Bt.run prog inp limit sf 0 pos true st #[.exhausted] 0 0)
  pk_safe : ∀ {pos : Nat}, V pos → ∀ (entry fuel : Nat),
    match Pk.attemptAt prog inp fuel pos entry with
    | .error _ => False
    | .matched e st _ _ => pos ≤ e ∧ V e ∧ e = st.pos
    | _ => True

/-- Invariant of the threaded matcher state between two attempts (`Closure.MInv`, generic in `V`). -/
structure MInvV (prog : Prog) (V : Nat → Prop) (st : Bt.State) : Prop where
  ok : Bt.StateOK prog V st
  clean : st.groups = (Bt.freshState prog 0).groups

theorem minvV_fresh (prog : Prog) (V : Nat → Prop) : MInvV prog V (Bt.freshState prog 0) :=
  ⟨freshState_ok prog _ 0, rfl⟩

theorem minvV_clear {prog : Prog} {V : Nat → Prop} {st : Bt.State}
    (h : Bt.StateOK prog V st) : MInvV prog V (Bt.clearGroups st) := by
  have hg : (Bt.clearGroups st).groups = (Bt.freshState prog 0).groups := by
    apply Array.ext
    · simp [Bt.clearGroups, Bt.freshState, h.groups]
    · intro i h1 h2
      simp [Bt.clearGroups, Bt.freshState]
  refine ⟨⟨by simpa [Bt.clearGroups] using h.loops, by simp [Bt.clearGroups, h.groups], ?_⟩, hg⟩
  intro g gd hgd
  rw [hg] at hgd
  have := freshState_clean prog 0 g gd hgd
  subst this
  exact ⟨fun s h => (by cases h), fun s h => (by cases h)⟩

theorem minvV_clean {prog : Prog} {V : Nat → Prop} {st : Bt.State} (h : MInvV prog V st) :
    ∀ (g : Nat) (gd : Bt.GroupData), st.groups[g]? = some gd → gd = ⟨none, none⟩ := by
  intro g gd hg
  rw [h.clean] at hg
  exact freshState_clean prog 0 g gd hg

/-! ## Budget arithmetic -/

/-- At cursor `c` with `steps` ticks on the clock, the remaining `len + 1 - c` attempts are paid for. -/
def Budget (B L len c steps : Nat) : Prop := steps + (len + 1 - c) * B ≤ L

theorem Budget.step {B L len p c s s' : Nat} (hb : Budget B L len p s) (hp : p ≤ len) (hc : p < c)
    (hs : s' ≤ s + B) : Budget B L len c s' := by
  unfold Budget at hb ⊢
  have h1 : (len + 1 - c) + 1 ≤ len + 1 - p := by omega
  have h2 := Nat.mul_le_mul_right B h1
  rw [Nat.add_mul, Nat.one_mul] at h2
  omega

theorem Budget.mono {B L len p c s : Nat} (hb : Budget B L len p s) (hc : p ≤ c) : Budget B L len c s := by
  unfold Budget at hb ⊢
  have h1 : len + 1 - c ≤ len + 1 - p := by omega
  have h2 := Nat.mul_le_mul_right B h1
  omega

theorem Budget.one {B L len p s : Nat} (hb : Budget B L len p s) (hp : p ≤ len) : s + B ≤ L := by
  unfold Budget at hb
  have h1 : 1 ≤ len + 1 - p := by omega
  have h2 := Nat.mul_le_mul_right B h1
  rw [Nat.one_mul] at h2
  omega

theorem Budget.init {B L len start : Nat} (hL : (len + 1) * B ≤ L) : Budget B L len start 0 := by
  unfold Budget
  have h1 : len + 1 - start ≤ len + 1 := by omega
  have h2 := Nat.mul_le_mul_right B h1
  omega

/-! ## One attempt -/

section Attempt
variable {prog : Prog} {inp : Input} {V : Nat → Prop}

/-- **One attempt of the running `BacktrackExecutor` ends within `Pk.lookBound` ticks** — on the REUSED
matcher state, with the global counters, whenever `Pk.lookBound` ticks are left. -/
theorem btAttempt_total (S : StructHyp prog) (K : KindHyp prog inp V) {L pos : Nat} (hp : V pos)
    {acc : Acc} (hinv : MInvV prog V acc.st) (hbud : acc.steps + Pk.lookBound prog inp.len ≤ L) :
    match btAttempt prog inp L pos acc with
    | .matched e st s _ => pos ≤ e ∧ V e ∧ Bt.StateOK prog V st ∧ s ≤ acc.steps + Pk.lookBound prog inp.len
    | .failed st s _ => MInvV prog V st ∧ s ≤ acc.steps + Pk.lookBound prog inp.len
    | .outOfFuel => False
    | .error _ => False := by
  obtain ⟨h1, h2, h3, h4⟩ := wfFull_parts S.wf
  have hv := K.valid pos hp
  have hwu : wfProgUtf8 prog = true := by simp [wfProgUtf8, h1, h2]
  generalize hB : Pk.lookBound prog inp.len = B at hbud ⊢
  have hterm : (Pk.attempt prog inp B pos).within B := by
    have := C05Full.pk_terminates_with_looks prog S.lookLoop (C05Full.loop1Scm_of_wfProg h1) inp
      (Pk.lookBound prog inp.len) pos (Nat.le_refl _)
    rw [← hB]; exact this
  have herr := C02Full.pk_attempt_no_error S.wf hv B
  have hre := C02Full.C02_loop1_reused prog S.loops S.looks hwu inp pos hv B B (Nat.le_refl _) acc.st
    hinv.clean hinv.ok.loops
  have hsafe := K.bt_safe hp hinv.ok (minvV_clean hinv) B B
  have hW : Bt.run prog inp B B 0 pos true acc.st #[.exhausted] 0 0 = Bt.attemptWith prog inp B pos acc.st := rfl
  rw [hW] at hsafe
  have hsh := btAttempt_shift prog inp L pos acc (by omega)
  have hmono : Bt.attemptWith prog inp B pos acc.st ≠ .outOfFuel →
      Bt.attemptWith prog inp (L - acc.steps) pos acc.st = Bt.attemptWith prog inp B pos acc.st :=
    fun hne => Bt.tryAtPos_fuel_mono prog inp (by omega : B ≤ L - acc.steps) 0 pos true acc.st hne
  generalize Pk.attempt prog inp B pos = op at hterm herr hre
  cases ho : Bt.attemptWith prog inp B pos acc.st with
  | matched e st s k =>
    rw [hmono (by rw [ho]; intro hc; cases hc), ho] at hsh
    rw [ho] at hsafe hre
    cases hb : btAttempt prog inp L pos acc with
    | matched e1 st1 s1 k1 =>
      rw [hb] at hsh
      simp only [Shifted] at hsh
      obtain ⟨rfl, rfl, rfl⟩ := hsh
      simp only [Bt.Post] at hsafe
      refine ⟨hsafe.1, hsafe.2.1, hsafe.2.2, ?_⟩
      cases op with
      | matched e' st' s' k' =>
        simp only [C02Full.AttemptSim] at hre
        simp only [Pk.Outcome.within] at hterm
        omega
      | failed _ _ => simp only [C02Full.AttemptSim] at hre
      | outOfFuel => exact hterm.elim
      | error x => exact absurd rfl (herr x)
    | failed _ _ _ => rw [hb] at hsh; simp [Shifted] at hsh
    | outOfFuel => rw [hb] at hsh; simp [Shifted] at hsh
    | error _ => rw [hb] at hsh; simp [Shifted] at hsh
  | failed st s k =>
    rw [hmono (by rw [ho]; intro hc; cases hc), ho] at hsh
    rw [ho] at hsafe hre
    cases hb : btAttempt prog inp L pos acc with
    | failed st1 s1 k1 =>
      rw [hb] at hsh
      simp only [Shifted] at hsh
      obtain ⟨rfl, rfl⟩ := hsh
      simp only [Bt.Post] at hsafe
      refine ⟨⟨hsafe.1, by rw [hsafe.2]; exact hinv.clean⟩, ?_⟩
      cases op with
      | failed s' k' =>
        simp only [C02Full.AttemptSim] at hre
        simp only [Pk.Outcome.within] at hterm
        omega
      | matched _ _ _ _ => simp only [C02Full.AttemptSim] at hre
      | outOfFuel => exact hterm.elim
      | error x => exact absurd rfl (herr x)
    | matched _ _ _ _ => rw [hb] at hsh; simp [Shifted] at hsh
    | outOfFuel => rw [hb] at hsh; simp [Shifted] at hsh
    | error _ => rw [hb] at hsh; simp [Shifted] at hsh
  | outOfFuel =>
    rw [ho] at hre
    cases op with
    | matched _ _ _ _ => simp only [C02Full.AttemptSim] at hre
    | failed _ _ => simp only [C02Full.AttemptSim] at hre
    | outOfFuel => exact hterm.elim
    | error x => exact absurd rfl (herr x)
  | error x => rw [ho] at hsafe; exact hsafe.elim

/-- **One attempt of the running `PikeVMExecutor` ends within `Pk.lookBound` ticks** — on the initial
state built for position `q` by a `next_match` entered at `e` (stale `entry`), with the global counters. -/
theorem pkAttempt_total (S : StructHyp prog) (K : KindHyp prog inp V) {L q : Nat} (hq : V q) (e : Nat)
    (acc : Acc) (hbud : acc.steps + Pk.lookBound prog inp.len ≤ L) :
    match pkAttempt prog inp L (Pk.initState prog q e) acc with
    | .matched _ st s _ => q ≤ st.pos ∧ V st.pos ∧ s ≤ acc.steps + Pk.lookBound prog inp.len
    | .failed s _ => s ≤ acc.steps + Pk.lookBound prog inp.len
    | .outOfFuel => False
    | .error _ => False := by
  obtain ⟨h1, h2, h3, h4⟩ := wfFull_parts S.wf
  have hl1 := C05Full.loop1Scm_of_wfProg h1
  have hcost : Pk.lcostSum prog inp.bytes.size 0 true #[Pk.initState prog q e] =
      Pk.lcost prog inp.bytes.size 0 true (Pk.initState prog q e) := by simp [Pk.lcostSum]
  have hc : Pk.lcost prog inp.bytes.size 0 true (Pk.initState prog q e) ≤ Pk.lookBound prog inp.len :=
    Pk.lcost_le_lookBound prog inp.bytes.size true _
  have hterm := Pk.runStates_terminates3 prog S.lookLoop hl1 inp L (L - acc.steps + 1)
    #[Pk.initState prog q e] true acc.steps acc.peak (by rw [hcost]; omega) (by rw [hcost]; omega)
  rw [hcost] at hterm
  have hsh := PkShift.pkAttempt_shift prog inp L (Pk.initState prog q e) acc (by omega)
  have hsafe := K.pk_safe hq e (L - acc.steps)
  have hA : Pk.attemptAt prog inp (L - acc.steps) q e =
      Pk.tryAtPos prog inp (L - acc.steps) (Pk.initState prog q e) true := rfl
  rw [hA] at hsafe
  have hP : pkAttempt prog inp L (Pk.initState prog q e) acc =
      Pk.runStates prog inp L (L - acc.steps + 1) #[Pk.initState prog q e] true acc.steps acc.peak := rfl
  rw [← hP] at hterm
  generalize Pk.tryAtPos prog inp (L - acc.steps) (Pk.initState prog q e) true = o at hsh hsafe
  cases hb : pkAttempt prog inp L (Pk.initState prog q e) acc with
  | matched e1 st s k =>
    rw [hb] at hsh hterm
    simp only [Pk.Outcome.within] at hterm
    cases o with
    | matched e2 st2 s2 k2 =>
      simp only [PkShift.Shifted] at hsh
      obtain ⟨rfl, rfl, _⟩ := hsh
      simp only at hsafe
      refine ⟨?_, ?_, by omega⟩
      · rw [← hsafe.2.2]; exact hsafe.1
      · rw [← hsafe.2.2]; exact hsafe.2.1
    | failed _ _ => simp [PkShift.Shifted] at hsh
    | outOfFuel => simp [PkShift.Shifted] at hsh
    | error _ => simp [PkShift.Shifted] at hsh
  | failed s k =>
    rw [hb] at hterm
    simp only [Pk.Outcome.within] at hterm
    show s ≤ _
    omega
  | outOfFuel => rw [hb] at hterm; exact hterm.elim
  | error x =>
    rw [hb] at hsh
    cases o with
    | error y => exact hsafe.elim
    | matched _ _ _ _ => simp [PkShift.Shifted] at hsh
    | failed _ _ => simp [PkShift.Shifted] at hsh
    | outOfFuel => simp [PkShift.Shifted] at hsh

end Attempt

/-! ## One `next_match`, draining -/

section Drain
variable {prog : Prog} {inp : Input} {V : Nat → Prop}

/-- What one `next_match` entered at `pos` returns (`T` = the tick budget the accounting is done with,
`T ≤` the budget the machine runs with): the matcher invariant, at most `T` ticks on the clock, and the
next cursor is a valid position to the right of `pos` at which the remaining attempts are still paid for. -/
def NextOK (prog : Prog) (inp : Input) (V : Nat → Prop) (T pos : Nat)
    (r : Option (MatchR × Option Nat)) (acc' : Acc) : Prop :=
  MInvV prog V acc'.st ∧ acc'.steps ≤ T ∧
    ∀ m c, r = some (m, some c) → pos < c ∧ V c ∧ Budget (Pk.lookBound prog inp.len) T inp.len c acc'.steps

theorem NextOK.weaken {T pos pos' : Nat} {r : Option (MatchR × Option Nat)} {acc' : Acc}
    (h : NextOK prog inp V T pos' r acc') (hpp : pos ≤ pos') : NextOK prog inp V T pos r acc' :=
  ⟨h.1, h.2.1, fun m c hr => ⟨Nat.lt_of_le_of_lt hpp (h.2.2 m c hr).1, (h.2.2 m c hr).2⟩⟩

theorem Budget.le {B T len c s : Nat} (hb : Budget B T len c s) : s ≤ T := by
  unfold Budget at hb; omega

theorem nextStart_total (K : KindHyp prog inp V) {pos e : Nat} (hpe : pos ≤ e) (he : V e) :
    ∃ ns, VM.nextStart inp pos e = .ok ns ∧ ∀ c, ns = some c → pos < c ∧ V c := by
  unfold VM.nextStart
  by_cases hne : e = pos
  · subst hne
    simp only [bne_self_eq_false, Bool.false_eq_true, if_false]
    obtain ⟨r, hr, hq⟩ := K.next_ok e he
    rw [hr]
    exact ⟨r, rfl, hq⟩
  · have : (e != pos) = true := by simpa using hne
    simp only [this, if_true]
    refine ⟨some e, rfl, ?_⟩
    intro c hc
    cases hc
    exact ⟨by omega, he⟩

theorem btSuccess_total (K : KindHyp prog inp V) {T pos0 pos e : Nat} (hp0 : pos0 ≤ pos)
    (hpl : pos ≤ inp.len) (hpe : pos ≤ e) (he : V e)
    {st : Bt.State} (hst : Bt.StateOK prog V st) {steps0 steps peak : Nat}
    (hbud : Budget (Pk.lookBound prog inp.len) T inp.len pos steps0)
    (hs : steps ≤ steps0 + Pk.lookBound prog inp.len) :
    ∃ r acc', btSuccess prog inp pos e st steps peak = .ok (r, acc') ∧ NextOK prog inp V T pos0 r acc' := by
  obtain ⟨ns, hns, hc⟩ := nextStart_total K hpe he
  unfold btSuccess
  rw [hns]
  refine ⟨_, _, rfl, minvV_clear hst, ?_, ?_⟩
  · have := hbud.one hpl
    show steps ≤ T
    omega
  · intro m c hr
    simp only [Option.some.injEq, Prod.mk.injEq] at hr
    obtain ⟨_, rfl⟩ := hr
    obtain ⟨h1, h2⟩ := hc c rfl
    exact ⟨by omega, h2, hbud.step hpl h1 hs⟩

theorem pkSuccess_total (K : KindHyp prog inp V) {T pos0 q : Nat} (hp0 : pos0 ≤ q) (hql : q ≤ inp.len)
    {st : Pk.State} (hqe : q ≤ st.pos) (he : V st.pos) {acc : Acc} (hinv : MInvV prog V acc.st)
    {steps peak : Nat} (hbud : Budget (Pk.lookBound prog inp.len) T inp.len q acc.steps)
    (hs : steps ≤ acc.steps + Pk.lookBound prog inp.len) :
    ∃ r acc', pkSuccess prog inp q st acc steps peak = .ok (r, acc') ∧ NextOK prog inp V T pos0 r acc' := by
  obtain ⟨ns, hns, hc⟩ := nextStart_total K hqe he
  unfold pkSuccess
  rw [hns]
  refine ⟨_, _, rfl, hinv, ?_, ?_⟩
  · have := hbud.one hql
    show steps ≤ T
    omega
  · intro m c hr
    simp only [Option.some.injEq, Prod.mk.injEq] at hr
    obtain ⟨_, rfl⟩ := hr
    obtain ⟨h1, h2⟩ := hc c rfl
    exact ⟨by omega, h2, hbud.step hql h1 hs⟩

variable (S : StructHyp prog) (K : KindHyp prog inp V) {L T : Nat} (hTL : T ≤ L)
include S K hTL

theorem btNextMatchAnchored_total {pos : Nat} (hp : V pos) {acc : Acc} (hinv : MInvV prog V acc.st)
    (hbud : Budget (Pk.lookBound prog inp.len) T inp.len pos acc.steps) :
    ∃ r acc', btNextMatchAnchored prog inp L pos acc = .ok (r, acc') ∧ NextOK prog inp V T pos r acc' := by
  have hpl := K.v_le pos hp
  have hone := hbud.one hpl
  have hatt := btAttempt_total S K hp hinv (Nat.le_trans hone hTL)
  unfold btNextMatchAnchored
  cases hb : btAttempt prog inp L pos acc with
  | error _ => rw [hb] at hatt; exact hatt.elim
  | outOfFuel => rw [hb] at hatt; exact hatt.elim
  | matched e st s k =>
    rw [hb] at hatt
    simp only at hatt ⊢
    exact btSuccess_total K (Nat.le_refl _) hpl hatt.1 hatt.2.1 hatt.2.2.1 hbud hatt.2.2.2
  | failed st s k =>
    rw [hb] at hatt
    simp only at hatt ⊢
    exact ⟨_, _, rfl, hatt.1, by show s ≤ T; omega, fun m c hr => by cases hr⟩

theorem btNextMatchPrefix_total : ∀ (n pos : Nat), V pos → inp.len + 2 - pos ≤ n →
    ∀ (acc : Acc), MInvV prog V acc.st → Budget (Pk.lookBound prog inp.len) T inp.len pos acc.steps →
    ∃ r acc', btNextMatchPrefix prog inp L n pos acc = .ok (r, acc') ∧ NextOK prog inp V T pos r acc' := by
  intro n
  induction n with
  | zero =>
    intro pos hp hn
    have := K.v_le pos hp
    omega
  | succ n ih =>
    intro pos hp hn acc hinv hbud
    have hpl := K.v_le pos hp
    simp only [btNextMatchPrefix]
    rw [if_neg (by omega)]
    cases hq : findBytesPred prog.startPred inp.bytes pos with
    | none => exact ⟨_, _, rfl, hinv, hbud.le, fun m c hr => by cases hr⟩
    | some q =>
      simp only
      obtain ⟨hpq, hvq⟩ := K.find_ok pos q hp hq
      have hql := K.v_le q hvq
      have hbq := hbud.mono hpq
      have hone := hbq.one hql
      have hatt := btAttempt_total S K hvq hinv (Nat.le_trans hone hTL)
      cases hb : btAttempt prog inp L q acc with
      | error _ => rw [hb] at hatt; exact hatt.elim
      | outOfFuel => rw [hb] at hatt; exact hatt.elim
      | matched e st s k =>
        rw [hb] at hatt
        simp only at hatt ⊢
        exact btSuccess_total K hpq hql hatt.1 hatt.2.1 hatt.2.2.1 hbq hatt.2.2.2
      | failed st s k =>
        rw [hb] at hatt
        simp only at hatt ⊢
        obtain ⟨r, hr, hnext⟩ := K.next_ok q hvq
        rw [hr]
        cases r with
        | none => exact ⟨_, _, rfl, hatt.1, by show s ≤ T; omega, fun m c hr => by cases hr⟩
        | some q' =>
          simp only
          obtain ⟨hlt, hvq'⟩ := hnext q' rfl
          obtain ⟨r', acc', h1, h2⟩ := ih q' hvq' (by omega) ⟨st, s, k⟩ hatt.1 (hbq.step hql hlt hatt.2)
          exact ⟨r', acc', h1, h2.weaken (by omega)⟩

theorem pkNextMatchStd_total : ∀ (n q : Nat), V q → inp.len + 2 - q ≤ n → ∀ (e : Nat)
    (acc : Acc), MInvV prog V acc.st → Budget (Pk.lookBound prog inp.len) T inp.len q acc.steps →
    ∃ r acc', pkNextMatchStd prog inp L n (Pk.initState prog q e) acc = .ok (r, acc') ∧
      NextOK prog inp V T q r acc' := by
  intro n
  induction n with
  | zero =>
    intro q hq hn
    have := K.v_le q hq
    omega
  | succ n ih =>
    intro q hq hn e acc hinv hbud
    have hql := K.v_le q hq
    have hone := hbud.one hql
    have hatt := pkAttempt_total S K hq e acc (Nat.le_trans hone hTL)
    simp only [pkNextMatchStd]
    have hpos : (Pk.initState prog q e).pos = q := rfl
    cases hb : pkAttempt prog inp L (Pk.initState prog q e) acc with
    | error _ => rw [hb] at hatt; exact hatt.elim
    | outOfFuel => rw [hb] at hatt; exact hatt.elim
    | matched e1 st s k =>
      rw [hb] at hatt
      simp only [hpos] at hatt ⊢
      exact pkSuccess_total K (Nat.le_refl _) hql hatt.1 hatt.2.1 hinv hbud hatt.2.2
    | failed s k =>
      rw [hb] at hatt
      simp only [hpos] at hatt ⊢
      obtain ⟨r, hr, hnext⟩ := K.next_ok q hq
      rw [hr]
      cases r with
      | none => exact ⟨_, _, rfl, hinv, by show s ≤ T; omega, fun m c hr => by cases hr⟩
      | some q' =>
        simp only
        obtain ⟨hlt, hvq'⟩ := hnext q' rfl
        have hst : ({ Pk.initState prog q e with pos := q' } : Pk.State) = Pk.initState prog q' e := rfl
        rw [hst]
        obtain ⟨r', acc', h1, h2⟩ := ih q' hvq' (by omega) e { acc with steps := s, peak := k } hinv
          (hbud.step hql hlt hatt)
        exact ⟨r', acc', h1, h2.weaken (by omega)⟩

/-- **One `next_match` of either running executor returns** (no fuel-out, no error). -/
theorem nextMatchX_total (ex : Exec) {pos : Nat} (hp : V pos) {acc : Acc} (hinv : MInvV prog V acc.st)
    (hbud : Budget (Pk.lookBound prog inp.len) T inp.len pos acc.steps) :
    ∃ r acc', nextMatchX ex prog inp L pos acc = .ok (r, acc') ∧ NextOK prog inp V T pos r acc' := by
  have hpl := K.v_le pos hp
  cases ex with
  | bt =>
    simp only [nextMatchX]
    split
    · exact btNextMatchAnchored_total S K hTL hp hinv hbud
    · exact btNextMatchPrefix_total S K hTL _ pos hp (by omega) acc hinv hbud
  | pk =>
    simp only [nextMatchX, pkNextMatch]
    split
    · have hone := hbud.one hpl
      have hatt := pkAttempt_total S K hp pos acc (Nat.le_trans hone hTL)
      cases hb : pkAttempt prog inp L (Pk.initState prog pos pos) acc with
      | error _ => rw [hb] at hatt; exact hatt.elim
      | outOfFuel => rw [hb] at hatt; exact hatt.elim
      | matched e1 st s k =>
        rw [hb] at hatt
        simp only at hatt ⊢
        exact pkSuccess_total K (Nat.le_refl _) hpl hatt.1 hatt.2.1 hinv hbud hatt.2.2
      | failed s k =>
        rw [hb] at hatt
        simp only at hatt
        exact ⟨_, _, rfl, hinv, by show s ≤ T; omega, fun m c hr => by cases hr⟩
    · exact pkNextMatchStd_total S K hTL _ pos hp (by omega) pos acc hinv hbud

/-- **Draining returns**, with at most `T` ticks on the clock. -/
theorem drain_total (ex : Exec) : ∀ (n : Nat) (position : Option Nat), 1 ≤ n →
    ∀ (acc : Acc), MInvV prog V acc.st → acc.steps ≤ T →
    (∀ c, position = some c → V c ∧ inp.len + 2 - c ≤ n ∧
      Budget (Pk.lookBound prog inp.len) T inp.len c acc.steps) →
    ∀ (out : List MatchR), ∃ ms acc', drain ex prog inp L n position acc out = .ok (ms, acc') ∧
      acc'.steps ≤ T := by
  intro n
  induction n with
  | zero => intro _ h; omega
  | succ n ih =>
    intro position _ acc hinv hle hpos out
    cases position with
    | none => exact ⟨_, _, rfl, hle⟩
    | some pos =>
      obtain ⟨hv, hn, hbud⟩ := hpos pos rfl
      have hpl := K.v_le pos hv
      simp only [drain]
      obtain ⟨r, acc1, hx, hok⟩ := nextMatchX_total S K hTL ex hv hinv hbud
      rw [hx]
      cases r with
      | none => exact ⟨_, _, rfl, hok.2.1⟩
      | some mn =>
        obtain ⟨m, ns⟩ := mn
        simp only
        refine ih ns (by omega) acc1 hok.1 hok.2.1 ?_ (m :: out)
        intro c hc
        subst hc
        obtain ⟨h1, h2, h3⟩ := hok.2.2 m c rfl
        exact ⟨h2, by omega, h3⟩

omit hTL in
/-- **The running search returns** for every budget `≥ searchBound prog |haystack|`, having used at most
`searchBound prog |haystack|` ticks. -/
theorem findIterStats_total (ex : Exec) {start : Nat} (hs : V start ∨ inp.len < start) {fuel : Nat}
    (hf : searchBound prog inp.len ≤ fuel) :
    ∃ ms steps peak, findIterStats ex prog inp start fuel = .ok (ms, steps, peak) ∧
      steps ≤ searchBound prog inp.len := by
  have hpos : inp.tryMoveRight 0 start = if start ≤ inp.len then some start else none := by
    simp only [Input.tryMoveRight, Utf8.tryMoveRight, Input.len]
    by_cases hle : start ≤ inp.bytes.size
    · simp [hle]
    · simp [hle]
  obtain ⟨ms, acc', hd, hle⟩ := drain_total S K hf ex (inp.len + 3) (inp.tryMoveRight 0 start) (by omega)
    { st := Bt.freshState prog 0, steps := 0, peak := 0 } (minvV_fresh prog V) (Nat.zero_le _)
    (by
      intro c hc
      rw [hpos] at hc
      split at hc
      · cases hc
        rcases hs with hs | hs
        · exact ⟨hs, by omega, Budget.init (Nat.le_refl _)⟩
        · omega
      · cases hc) []
  refine ⟨ms, acc'.steps, acc'.peak, ?_, hle⟩
  unfold findIterStats
  simp only [hd]

omit hTL in
theorem findIter_total (ex : Exec) {start : Nat} (hs : V start ∨ inp.len < start) {fuel : Nat}
    (hf : searchBound prog inp.len ≤ fuel) : ∃ ms, findIter ex prog inp start fuel = .ok ms := by
  obtain ⟨ms, steps, peak, h, _⟩ := findIterStats_total S K ex hs hf
  exact ⟨ms, by unfold findIter; simp only [h]⟩

end Drain

/-! ## The two haystack kinds -/

section Kinds
variable {prog : Prog} {inp : Input}

theorem nextRightPos_utf8_ok {cs : List Nat} (ht : Utf8Text inp cs) {p : Nat} (hp : VUtf8 inp p) :
    ∃ r, inp.nextRightPos p = .ok r ∧ ∀ q, r = some q → p < q ∧ VUtf8 inp q := by
  have hex : ∃ r, inp.nextRightPos p = .ok r := by
    obtain ⟨k, hk, rfl⟩ := (vutf8_iff ht).mp hp
    by_cases hlt : k < cs.length
    · exact ⟨some (Utf8.off cs (k + 1)), by simp only [Input.nextRightPos, ht.kind, ht.bytes, Utf8.nextRightPos_roundtrip ht.scalar hlt]⟩
    · have : k = cs.length := by omega
      subst this
      exact ⟨none, by simp only [Input.nextRightPos, ht.kind, ht.bytes, Utf8.nextRightPos_roundtrip_end]⟩
  obtain ⟨r, hr⟩ := hex
  refine ⟨r, hr, fun q hq => ?_⟩
  subst hq
  exact nextRightPosOpt_utf8 ht hp (by simp only [nextRightPosOpt, hr])

/-- UTF-8 haystack: the valid positions are the char boundaries. -/
theorem kind_utf8 {cs : List Nat} (hw : wfProgFull prog = true) (hl : IR.LeadsSP prog.startPred)
    (ht : Utf8Text inp cs) : KindHyp prog inp (VUtf8 inp) := by
  obtain ⟨h1, h2, h3, h4⟩ := wfFull_parts hw
  refine ⟨fun p hp => hp.1, fun p hp => .utf8 cs ht hp, fun p hp => nextRightPos_utf8_ok ht hp,
    fun p q hp hq => findBytesPred_boundary hl inp hp hq, ?_, ?_⟩
  · intro pos hp st hst hclean sf limit
    have := bt_safe_utf8_full h1 h2 h4 h3 ht hp hst hclean sf limit
    generalize Bt.run prog inp limit sf 0 pos true st #[.exhausted] 0 0 = o at this
    cases o with
    | matched e st' s k => exact ⟨this.1, this.2.1, this.2.2.1⟩
    | failed st' s k => exact this
    | outOfFuel => trivial
    | error x => exact this
  · intro pos hp entry fuel
    have := pk_safe_utf8_full h1 h2 h4 h3 ht hp entry fuel
    generalize Pk.attemptAt prog inp fuel pos entry = o at this
    cases o with
    | matched e st' s k => exact ⟨this.1, this.2.1, this.2.2.1⟩
    | failed s k => trivial
    | outOfFuel => trivial
    | error x => exact this

/-- ASCII haystack (`find_from_ascii` & co.): every offset `≤ len` is a valid position. -/
theorem kind_ascii (hw : wfProgFull prog = true) (hk : inp.kind = .ascii) (ha : VM.L1.asciiOK inp = true) :
    KindHyp prog inp (· ≤ inp.len) := by
  obtain ⟨h1, h2, h3, h4⟩ := wfFull_parts hw
  refine ⟨fun p hp => hp, fun p hp => .ascii hk ha hp, ?_, fun p q hp hq => findBytesPred_range _ _ hp hq, ?_, ?_⟩
  · intro p hp
    refine ⟨inp.tryMoveRight p 1, by simp only [Input.nextRightPos, hk], ?_⟩
    intro q hq
    have := nextRightPosOpt_ascii hk p
    simp only [nextRightPosOpt, Input.nextRightPos, hk, hq] at this
    split at this
    · cases this; show p < p + 1 ∧ p + 1 ≤ inp.len; omega
    · cases this
  · intro pos hp st hst hclean sf limit
    have := bt_safe_ascii_full h1 h4 h3 hk hp hst hclean sf limit
    generalize Bt.run prog inp limit sf 0 pos true st #[.exhausted] 0 0 = o at this
    cases o with
    | matched e st' s k => exact ⟨this.1, this.2.1, this.2.2.1⟩
    | failed st' s k => exact this
    | outOfFuel => trivial
    | error x => exact this
  · intro pos hp entry fuel
    have := pk_safe_ascii_full h1 h4 h3 hk hp entry fuel
    generalize Pk.attemptAt prog inp fuel pos entry = o at this
    cases o with
    | matched e st' s k => exact ⟨this.1, this.2.1, this.2.2.1⟩
    | failed s k => trivial
    | outOfFuel => trivial
    | error x => exact this

theorem structHyp_of_findHyp2 {cs : List Nat} (H : FindHyp2 prog inp cs) : StructHyp prog :=
  ⟨H.wf, H.loops, H.looks, H.lookLoop⟩

end Kinds

end Regress.SearchTerm
