import Proofs.Lemmas.SemWalk
import RegressModel.IR.WfIR
/-!
# The executable check `wfNode` implies `WF`
-/
namespace Regress.IR

open Regress

theorem validUtf8_sound {bs : List Nat} (h : validUtf8 bs = true) :
    ∃ cs, Utf8.AllScalar cs ∧ bs = Utf8.encodeAll cs := by
  simp only [validUtf8, Bool.and_eq_true, List.all_eq_true, beq_iff_eq] at h
  exact ⟨decodeBytes bs.length bs, fun c hc => h.1 c hc, h.2.symm⟩

theorem quantOkB_eq (q : Quant) : quantOkB q = quantOk q := rfl

mutual
theorem wfNode_sound : ∀ (n : Node), wfNode n = true → WF n
  | .cat ns, h => by simp only [wfNode] at h; simp only [WF]; exact wfNodeList_sound ns h
  | .alt l r, h => by
    simp only [wfNode, Bool.and_eq_true] at h; simp only [WF]
    exact ⟨wfNode_sound l h.1, wfNode_sound r h.2⟩
  | .group _ _ c, h => by simp only [wfNode] at h; simp only [WF]; exact wfNode_sound c h
  | .look _ _ _ _ c, h => by simp only [wfNode] at h; simp only [WF]; exact wfNode_sound c h
  | .loop b q g0 g1, h => by
    simp only [wfNode, Bool.and_eq_true, beq_iff_eq] at h; simp only [WF]
    refine ⟨wfNode_sound b h.1.1, by rw [← quantOkB_eq]; exact h.1.2, ?_⟩
    have := h.2
    by_cases h1 : numGroups b = 0 <;> by_cases h2 : g1 ≤ g0 <;> simp_all
  | .loop1 b q, h => by
    simp only [wfNode, Bool.and_eq_true, decide_eq_true_eq] at h; simp only [WF]
    exact ⟨wfNode_sound b h.1.1, by rw [← quantOkB_eq]; exact h.1.2, h.2⟩
  | .bracket bc, h => by
    simp only [wfNode] at h; simp only [WF]; exact (CPS.wf_iff_WF _).1 h
  | .byteSeq bs, h => by simp only [wfNode] at h; simp only [WF]; exact validUtf8_sound h
  | .byteSet bs, h => by
    simp only [wfNode, List.all_eq_true, decide_eq_true_eq] at h; simp only [WF]; exact h
  | .empty, _ => by simp only [WF]
  | .goal, _ => by simp only [WF]
  | .char _, _ => by simp only [WF]
  | .charSet _, _ => by simp only [WF]
  | .matchAny, _ => by simp only [WF]
  | .matchAnyExceptLT, _ => by simp only [WF]
  | .anchor _ _, _ => by simp only [WF]
  | .wordBoundary _ _, _ => by simp only [WF]
  | .backRef _ _, _ => by simp only [WF]
  | .stringSet _ _, _ => by simp only [WF]
theorem wfNodeList_sound : ∀ (ns : List Node), wfNodeList ns = true → WFList ns
  | [], _ => by simp only [WFList]
  | n :: ns, h => by
    simp only [wfNodeList, Bool.and_eq_true] at h; simp only [WFList]
    exact ⟨wfNode_sound n h.1, wfNodeList_sound ns h.2⟩
end

/-- Non-vacuity: the optimized IR of `/(?:a|[bc]){2,3}é/`, and a tree that is rejected. -/
example : wfNode (.cat [.cat [.alt (.byteSeq [0x61]) (.byteSet [0x62, 0x63]), .alt (.byteSeq [0x61]) (.byteSet [0x62, 0x63]),
    .loop (.alt (.byteSeq [0x61]) (.byteSet [0x62, 0x63])) ⟨0, some 1, true⟩ 0 0], .byteSeq [0xC3, 0xA9], .goal]) = true := by
  decide
example : wfNode (.loop (.group 0 none (.char 0x61)) ⟨0, none, true⟩ 0 0) = false := by decide
example : wfNode (.byteSeq [0xC3]) = false := by decide

end Regress.IR
