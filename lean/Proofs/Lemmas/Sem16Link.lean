import Proofs.Lemmas.Sem16Find
import Proofs.Lemmas.Sem16Total
import Proofs.C03
/-!
# The optimizer of the `utf16` build, and the search on arbitrary code units

* `optimize16` (`optimize` without `form_literal_bytes`) preserves the UTF-8 semantics, like
  `optimize` (`Proofs/C03.lean`), so both optimized trees have the semantics of the parser's tree.
* `semFind16` on arbitrary units: `semFind16_total`.
-/
namespace Regress.IR

open Regress.VM Regress

/-! ## `optimize16` -/

theorem optimizeRound16_ok {I : StInv} {inp : Input} (hp : PassesOK I inp)
    (hP : ∀ fwd n, WF n → Pres I inp fwd n) {fuel : Nat} {r r' : Regex} {c : Bool}
    (h : optimizeRound16 fuel r = .ok (r', c)) (hw : WF r.node) : TreeOK I inp r.node r'.node := by
  unfold optimizeRound16 at h
  split at h
  · cases h
  · rename_i r1 c1 e1
    have t1 := (runPass_ok hp.decat hP e1 hw).1
    split at h
    · cases h
    · rename_i r2 c2 e2
      have t2 := (runPass_ok hp.unrollLoops hP e2 t1.1).1
      split at h
      · cases h
      · rename_i r3 c3 e3
        have t3 := (runPass_ok hp.promote1CharLoops hP e3 t2.1).1
        split at h
        · cases h
        · rename_i r5 c5 e5
          have t5 := (runPass_ok hp.removeEmpties hP e5 t3.1).1
          split at h
          · cases h
          · rename_i r6 c6 e6
            have t6 := (runPass_ok hp.propagateEarlyFails hP e6 t5.1).1
            cases h
            exact t1.trans (t2.trans (t3.trans (t5.trans t6)))

theorem optimizeLoop16_ok {I : StInv} {inp : Input} (hp : PassesOK I inp)
    (hP : ∀ fwd n, WF n → Pres I inp fwd n) {fuel : Nat} :
    ∀ (outer : Nat) {r r' : Regex}, optimizeLoop16 fuel outer r = .ok r' → WF r.node →
      TreeOK I inp r.node r'.node := by
  intro outer
  induction outer with
  | zero => intro r r' h _; simp [optimizeLoop16] at h
  | succ k ih =>
    intro r r' h hw
    unfold optimizeLoop16 at h
    split at h
    · cases h
    · rename_i r1 changed heq
      have t1 := optimizeRound16_ok hp hP heq hw
      split at h
      · cases h; exact t1
      · exact t1.trans (ih h t1.1)

theorem optimize16_ok {I : StInv} {inp : Input} (hp : PassesOK I inp)
    (hP : ∀ fwd n, WF n → Pres I inp fwd n) {fuel : Nat} {r r' : Regex}
    (h : optimize16 fuel r = .ok r') (hw : WF r.node) : TreeOK I inp r.node r'.node := by
  unfold optimize16 at h
  split at h
  · cases h
  · rename_i r1 c1 e1
    have t1 := (runPass_ok hp.simplifyBrackets hP e1 hw).1
    exact t1.trans (optimizeLoop16_ok hp hP fuel h t1.1)

/-- The optimizer of the `utf16` build preserves the (UTF-8) semantics of the parser's tree. -/
theorem optimize16_preserves {inp : Input} {cs : List Nat} (ht : Utf8Text inp cs) {fuel : Nat} {r r' : Regex}
    (h : optimize16 fuel r = .ok r') (hw : WF r.node) :
    WF r'.node ∧ numGroups r'.node = numGroups r.node ∧
      ∀ st, Good cs st → ObsEq (sem inp r.node true st) (sem inp r'.node true st) := by
  have := optimize16_ok (C03.passes_preserve ht) (fun fwd n hwn => pres_utf8 ht fwd n hwn) h hw
  exact ⟨this.1, this.2.1, fun st hg => this.2.2 st hg⟩

theorem optimize16_same_attempt {inp : Input} {cs : List Nat} (ht : Utf8Text inp cs) {fuel : Nat} {r r' : Regex}
    (h : optimize16 fuel r = .ok r') (hw : WF r.node) {p : Nat} (hb : AtBoundary cs p) :
    firstMatch inp r'.node p = firstMatch inp r.node p := by
  obtain ⟨_, hg, heq⟩ := optimize16_preserves ht h hw
  unfold firstMatch
  have e : initSt r'.node p = initSt r.node p := by simp [initSt, hg]
  rw [e]
  exact (heq _ (good_initSt16 cs r.node hb)).head?.symm

theorem optimize16_same_match {inp : Input} {cs : List Nat} (ht : Utf8Text inp cs) {fuel : Nat} {r r' : Regex}
    (h : optimize16 fuel r = .ok r') (hw : WF r.node) (start : Nat) :
    semFind inp r'.node start = semFind inp r.node start := by
  unfold semFind
  generalize inp.len + 1 - start = k
  induction k generalizing start with
  | zero => rfl
  | succ k ih =>
    simp only [semFindFrom]
    split
    · rfl
    · rename_i hle
      split
      · rename_i hbd
        have hb : AtBoundary cs start := (atBoundary_iff ht (by omega)).2 hbd
        rw [optimize16_same_attempt ht h hw hb, ih]
      · exact ih _

/-! ## The search on arbitrary code units -/

section
variable {inp : Input16}

theorem snapStart_valid (start : Nat) (hle : snapStart inp start ≤ inp.len) : ValidPos inp (snapStart inp start) := by
  refine ⟨hle, fun hu => ?_⟩
  unfold snapStart at hle ⊢
  simp only [hu, Bool.false_eq_true, if_false] at hle ⊢
  rw [splitsPair_eq_false_iff]
  intro a b h0 ha hb hh
  cases h1 : (if (start == 0) = true then none else inp.units[start - 1]?) with
  | none =>
    simp only [h1] at ha hb h0
    split at h1
    · rename_i hs0
      have : start = 0 := by simpa using hs0
      omega
    · rw [h1] at ha; cases ha
  | some a' =>
    cases h2 : inp.units[start]? with
    | none => simp only [h1, h2] at ha hb h0; cases hb
    | some b' =>
      simp only [h1, h2] at ha hb h0 ⊢
      split at h1
      · cases h1
      · by_cases hc : (Utf16.isHighSurrogate a' && Utf16.isLowSurrogate b') = true
        · simp only [hc, if_true] at ha hb h0
          -- the start is moved back onto the high surrogate: the unit before the new position's
          -- successor is `a'`, a high surrogate, hence not a low surrogate
          have hst : start - 1 + 1 = start := by
            rcases Nat.eq_zero_or_pos start with hz | hz
            · omega
            · omega
          rw [h1] at hb
          cases hb
          simp only [Bool.and_eq_true] at hc
          have := hc.1
          simp only [Utf16.isHighSurrogate, Utf16.isLowSurrogate, Bool.and_eq_true, decide_eq_true_eq,
            Bool.and_eq_false_iff, decide_eq_false_iff_not] at this ⊢
          omega
        · simp only [hc, Bool.false_eq_true, if_false] at ha hb h0
          rw [h1] at ha; rw [h2] at hb
          cases ha; cases hb
          simp only [Bool.and_eq_true, not_and, Bool.not_eq_true] at hc
          exact hc hh

theorem nextRightPos_valid {p p' : Nat} (hv : ValidPos inp p) (h : inp.nextRightPos p = some p') :
    ValidPos inp p' ∧ p < p' := by
  have hex : ∃ c, inp.next true p = some (c, p') := by
    unfold Input16.nextRightPos at h
    unfold Input16.next Input16.nextRight
    simp only [if_true]
    cases hu : inp.ucs2
    · simp only [hu, Bool.false_eq_true, if_false] at h ⊢
      rw [Utf16.nextRightPos_eq] at h
      cases hn : Utf16.nextRight inp.units p with
      | none => rw [hn] at h; cases h
      | some ce =>
        obtain ⟨c, e⟩ := ce
        rw [hn] at h
        simp only [Option.map_some, Option.some.injEq] at h
        subst h
        exact ⟨c, rfl⟩
    · simp only [hu, if_true, Utf16.Ucs2.nextRightPos, Utf16.tryMoveRight, Utf16.Ucs2.nextRight] at h ⊢
      split at h
      · cases h
      · rename_i hlt
        simp only [Option.some.injEq] at h
        subst h
        have hp : p < inp.units.size := by omega
        exact ⟨inp.units[p], by simp [Array.getElem?_eq_getElem hp]⟩
  obtain ⟨c, hc⟩ := hex
  have hs := next16_spec hv hc
  refine ⟨hs.1, ?_⟩
  have := hs.2.1
  have h1 := hs.1.1
  unfold mu16 at this
  simp only [if_true] at this
  omega

theorem semFindFrom16_total (hflag : inp.ucs2 = true ∨ inp.pairCheck = true) {n : Node} (hn : noByteNodes n = true) :
    ∀ (k p : Nat), ValidPos inp p →
      semFindFrom16 inp n k p = .noMatch ∨
        ∃ p' s, semFindFrom16 inp n k p = .found p' s ∧ ValidPos inp p' ∧ p ≤ p' ∧ Good16 inp s ∧ p' ≤ s.pos := by
  intro k
  induction k with
  | zero => intro p _; exact Or.inl rfl
  | succ k ih =>
    intro p hv
    have hf := sem16_fine hflag n true (initSt n p) hn (good16_initSt n hv)
    simp only [semFindFrom16, firstMatch16]
    cases hl : sem16 inp n true (initSt n p) with
    | nil =>
      simp only [List.head?_nil]
      cases hnx : inp.nextRightPos p with
      | none => exact Or.inl rfl
      | some p' =>
        simp only
        have := nextRightPos_valid hv hnx
        rcases ih p' this.1 with h | ⟨p'', s, h, h1, h2, h3, h4⟩
        · exact Or.inl h
        · exact Or.inr ⟨p'', s, h, h1, by omega, h3, h4⟩
    | cons o t =>
      simp only [List.head?_cons]
      obtain ⟨s, rfl, hg, ha⟩ := hf o (by rw [hl]; simp)
      simp only
      refine Or.inr ⟨p, s, rfl, hv, Nat.le_refl _, hg, ?_⟩
      have hpos : (initSt n p).pos = p := rfl
      rw [hpos] at ha
      rcases ha with h | h
      · omega
      · have := hg.1.1
        unfold mu16 at h
        simp only [if_true] at h
        omega

/-- **The search on arbitrary code units.** -/
theorem semFind16_total (hflag : inp.ucs2 = true ∨ inp.pairCheck = true) {n : Node} (hn : noByteNodes n = true)
    (start : Nat) :
    semFind16 inp n start = .noMatch ∨
      ∃ p s, semFind16 inp n start = .found p s ∧ ValidPos inp p ∧ snapStart inp start ≤ p ∧ Good16 inp s ∧
        p ≤ s.pos := by
  unfold semFind16
  simp only
  split
  · exact Or.inl rfl
  · rename_i hle
    exact semFindFrom16_total hflag hn _ _ (snapStart_valid start (by omega))

end

end Regress.IR
