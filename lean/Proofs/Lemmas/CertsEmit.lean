import Proofs.Lemmas.CertsCode
import Proofs.Lemmas.KeystoneTop
import Proofs.C04Sem
/-!
# Certificates, part 5: the fields of the emitted program, and `wfProg`

* `emitNode_lbf`: `emit_node` changes `result.loops` only in the `Loop` arm (one per `Loop` node) and
  `result.brackets` only in the `Bracket` arm (pushing the bracket of the node).
* `emit_root`: the emitted program is the layout of a root skeleton with all static properties.
* `emitted_wfProg`.
-/
namespace Regress.Certs

open Regress.VM Regress.IR Regress.Keystone Regress.VM.Safety Regress.Gen Regress.Closure

/-! ## `loops` and `brackets` -/

/-- `(result.loops, result.brackets)`. -/
def lbf (s : EmitState) : Nat × Array VM.Bracket := (s.loops, s.brackets)

theorem lbf_emitInsn (i : Insn) (s : EmitState) : lbf (emitInsn i s) = lbf s := rfl

theorem lbf_fixInsn {idx : Nat} {upd : Insn → Option Insn} {err : EmitErr} {s s' : EmitState}
    (h : fixInsn idx upd err s = .ok s') : lbf s' = lbf s := by
  unfold fixInsn at h
  split at h
  · cases h
  · split at h
    · cases h
    · cases h; rfl

theorem lbf_emitAll {α : Type} {f : α → EmitM}
    (hf : ∀ a s s', f a s = .ok s' → lbf s' = lbf s) :
    ∀ (l : List α) (s s' : EmitState), emitAll f l s = .ok s' → lbf s' = lbf s := by
  intro l
  induction l with
  | nil => intro s s' h; simp only [emitAll] at h; cases h; rfl
  | cons a t ih =>
    intro s s' h
    simp only [emitAll] at h
    cases h1 : f a s with
    | error e => rw [h1] at h; cases h
    | ok s1 => rw [h1] at h; rw [ih s1 s' h, hf a s s1 h1]

theorem lbf_emitByteSetInsn {bytes : List Nat} {s s' : EmitState}
    (h : emitByteSetInsn bytes s = .ok s') : lbf s' = lbf s := by
  unfold emitByteSetInsn at h
  split at h <;> first | (cases h; rfl) | cases h

theorem lbf_emitByteSequenceInsn (seq : List Nat) (s s' : EmitState)
    (h : emitByteSequenceInsn seq s = .ok s') : lbf s' = lbf s := by
  unfold emitByteSequenceInsn at h
  split at h
  · cases h; rfl
  · cases h

theorem lbf_emitByteSequence {bytes : List Nat} {s s' : EmitState}
    (h : emitByteSequence bytes s = .ok s') : lbf s' = lbf s := by
  unfold emitByteSequence at h
  split at h <;> exact lbf_emitAll lbf_emitByteSequenceInsn _ _ _ h

theorem lbf_emitCharSet {chars : List Nat} {s s' : EmitState}
    (h : emitCharSet chars s = .ok s') : lbf s' = lbf s := by
  unfold emitCharSet at h
  split at h
  · cases h; rfl
  · split at h
    · cases h
    · cases h; rfl

theorem lbf_emitPiece (p : Piece) (s s' : EmitState) (h : emitPiece p s = .ok s') : lbf s' = lbf s := by
  cases p with
  | char c => simp only [emitPiece] at h; cases h; rfl
  | byteSequence b => exact lbf_emitByteSequence h
  | byteSet b => exact lbf_emitByteSetInsn h
  | charSet c => exact lbf_emitCharSet h

theorem lbf_emitCodePointSequence {cps : List Nat} {icase : Bool} {s s' : EmitState}
    (h : emitCodePointSequence emitPiece cps icase s = .ok s') : lbf s' = lbf s := by
  unfold emitCodePointSequence at h
  split at h
  · cases h
  · exact lbf_emitAll lbf_emitPiece _ _ _ h

theorem lbf_emitStringSetPriors (icase : Bool) : ∀ (l : List (List Nat)) (fx : List Nat)
    (s s' : EmitState) (fx' : List Nat),
    emitStringSetPriors emitPiece icase l fx s = .ok (s', fx') → lbf s' = lbf s := by
  intro l
  induction l with
  | nil => intro fx s s' fx' h; simp only [emitStringSetPriors] at h; cases h; rfl
  | cons cps rest ih =>
    intro fx s s' fx' h
    simp only [emitStringSetPriors, emitInsnOffset] at h
    split at h
    · cases h
    · next s1 h1 =>
      split at h
      · cases h
      · next s2 h2 =>
        rw [ih _ _ _ _ h, lbf_fixInsn h2, lbf_emitInsn, lbf_emitCodePointSequence h1, lbf_emitInsn]

theorem lbf_emitStringSet {alts : List (List Nat)} {icase : Bool} {s s' : EmitState}
    (h : emitStringSet emitPiece alts icase s = .ok s') : lbf s' = lbf s := by
  unfold emitStringSet at h
  split at h
  · cases h; rfl
  · dsimp only at h
    split at h
    · cases h
    · next s1 fx h1 =>
      split at h
      · cases h
      · next s2 h2 =>
        have h3 := lbf_emitAll (f := fun jumpIdx => fixInsn jumpIdx (setJumpTarget (nextOffset s2)) .shouldBeJump)
          (fun a s s' hh => lbf_fixInsn hh) _ _ _ h
        rw [h3, lbf_emitCodePointSequence h2, lbf_emitStringSetPriors _ _ _ _ _ _ h1]

theorem lbf_foldl_emitInsn (f : Nat → Insn) : ∀ (l : List Nat) (s : EmitState),
    lbf (l.foldl (fun s gid => emitInsn (f gid) s) s) = lbf s := by
  intro l
  induction l with
  | nil => intro s; rfl
  | cons a t ih => intro s; simp only [List.foldl_cons]; rw [ih]; rfl

theorem lbf_emitLoopEnter (q : IR.Quant) (g0 g1 : Nat) (s : EmitState) :
    lbf (emitLoopEnter q g0 g1 s).1 = ((s.loops + 1) % 4294967296, s.brackets) := by
  simp only [emitLoopEnter, emitInsnOffset]
  rw [lbf_foldl_emitInsn]
  rfl

theorem lbf_emitLoopFinish {idx : Nat} {s s' : EmitState} (h : emitLoopFinish idx s = .ok s') :
    lbf s' = lbf s := by
  unfold emitLoopFinish at h
  rw [lbf_fixInsn h]; rfl

theorem lbf_emitLookBegin (ng bw : Bool) (sg eg : Nat) (s : EmitState) :
    lbf (emitLookBegin ng bw sg eg s).1 = lbf s := by
  simp only [emitLookBegin, emitInsnOffset]
  split <;> rfl

theorem lbf_emitLookFinish {idx : Nat} {prev : Bool} {s s' : EmitState}
    (h : emitLookFinish idx prev s = .ok s') : lbf s' = lbf s := by
  unfold emitLookFinish at h
  dsimp only at h
  split at h
  · cases h
  · next s1 h1 => cases h; rw [← lbf_emitInsn .goal s, ← lbf_fixInsn h1]; rfl

theorem lbf_emitAltFinish {a j rb : Nat} {s s' : EmitState} (h : emitAltFinish a j rb s = .ok s') :
    lbf s' = lbf s := by
  unfold emitAltFinish at h
  split at h
  · cases h
  · next s1 h1 => rw [lbf_fixInsn h, lbf_fixInsn h1]

theorem lbf_emitGroupBegin (id : Nat) (name : Option (List Nat)) (s : EmitState) :
    lbf (emitGroupBegin id name s) = lbf s := rfl

/-- What is known of `(loops, brackets)` after emitting a node with `nl` loops. -/
def LbfSpec (s s' : EmitState) (nl : Nat) : Prop :=
  (∀ k, s.loops = k % 4294967296 → s'.loops = (k + nl) % 4294967296) ∧
  ((∀ br ∈ s.brackets, wfBracket br = true) → ∀ br ∈ s'.brackets, wfBracket br = true)

theorem LbfSpec.of_eq {s s' : EmitState} (h : lbf s' = lbf s) : LbfSpec s s' 0 := by
  have h1 : s'.loops = s.loops := congrArg Prod.fst h
  have h2 : s'.brackets = s.brackets := congrArg Prod.snd h
  exact ⟨fun k hk => by rw [h1, hk]; rfl, fun hb => by rw [h2]; exact hb⟩

theorem LbfSpec.trans {a b c : EmitState} {n m : Nat} (h1 : LbfSpec a b n) (h2 : LbfSpec b c m) :
    LbfSpec a c (n + m) :=
  ⟨fun k hk => by rw [h2.1 (k + n) (h1.1 k hk), Nat.add_assoc], fun hb => h2.2 (h1.2 hb)⟩

theorem wfIntervals_of_WF : ∀ (ivs : List (Nat × Nat)), CPS.WF (toIvList ivs) → wfIntervals ivs = true
  | [], _ => rfl
  | [a], h => by
    simp only [toIvList, List.map_cons, List.map_nil, CPS.WF, CPS.ivOk] at h
    simp [wfIntervals, h.1, h.2]
  | a :: b :: rest, h => by
    simp only [toIvList, List.map_cons, CPS.WF, CPS.ivOk] at h
    have ih := wfIntervals_of_WF (b :: rest) (by simpa [toIvList] using h.2.2)
    simp only [wfIntervals, Bool.and_eq_true, decide_eq_true_eq]
    exact ⟨⟨h.1.1, by omega⟩, ih⟩

mutual
theorem emitNode_lbf : (n : Node) → (s s' : EmitState) → emitNode n s = .ok s' → WF n →
    LbfSpec s s' (numLoops n)
  | .empty, s, s', h, _ => by simp only [emitNode] at h; cases h; exact .of_eq rfl
  | .goal, s, s', h, _ => by simp only [emitNode] at h; cases h; exact .of_eq rfl
  | .char _, s, s', h, _ => by simp only [emitNode] at h; cases h; exact .of_eq rfl
  | .matchAny, s, s', h, _ => by simp only [emitNode] at h; cases h; exact .of_eq rfl
  | .matchAnyExceptLT, s, s', h, _ => by simp only [emitNode] at h; cases h; exact .of_eq rfl
  | .anchor _ _, s, s', h, _ => by simp only [emitNode] at h; cases h; exact .of_eq rfl
  | .backRef _ _, s, s', h, _ => by simp only [emitNode] at h; cases h; exact .of_eq rfl
  | .wordBoundary _ u, s, s', h, _ => by
    simp only [emitNode] at h
    split at h <;> (cases h; exact .of_eq rfl)
  | .byteSeq _, s, s', h, _ => by simp only [emitNode] at h; exact .of_eq (lbf_emitByteSequence h)
  | .byteSet _, s, s', h, _ => by simp only [emitNode] at h; exact .of_eq (lbf_emitByteSetInsn h)
  | .charSet _, s, s', h, _ => by simp only [emitNode] at h; exact .of_eq (lbf_emitCharSet h)
  | .stringSet _ _, s, s', h, _ => by simp only [emitNode] at h; exact .of_eq (lbf_emitStringSet h)
  | .bracket bc, s, s', h, hw => by
    simp only [emitNode, emitBracket] at h
    split at h
    · cases h; exact .of_eq rfl
    · cases h
      refine ⟨fun k hk => by simpa [emitInsn, numLoops] using hk, fun hb br hm => ?_⟩
      simp only [emitInsn, Array.mem_push] at hm
      rcases hm with hm | rfl
      · exact hb br hm
      · simp only [WF] at hw
        exact wfIntervals_of_WF _ hw
  | .cat ns, s, s', h, hw => by
    simp only [emitNode] at h
    simp only [WF] at hw
    simpa [numLoops] using emitNodes_lbf ns s s' h hw
  | .loop1 l q, s, s', h, hw => by
    simp only [emitNode] at h
    simp only [WF] at hw
    have := (LbfSpec.of_eq (lbf_emitInsn _ s)).trans (emitNode_lbf l _ s' h hw.1)
    simpa [numLoops] using this
  | .loop l q g0 g1, s, s', h, hw => by
    simp only [emitNode] at h
    simp only [WF] at hw
    split at h
    · cases h
    · next s1 h1 =>
      have e1 : LbfSpec s (emitLoopEnter q g0 g1 s).1 1 := by
        have := lbf_emitLoopEnter q g0 g1 s
        have h1 : (emitLoopEnter q g0 g1 s).1.loops = (s.loops + 1) % 4294967296 := congrArg Prod.fst this
        have h2 : (emitLoopEnter q g0 g1 s).1.brackets = s.brackets := congrArg Prod.snd this
        exact ⟨fun k hk => by rw [h1, hk]; omega, fun hb => by rw [h2]; exact hb⟩
      have := (e1.trans (emitNode_lbf l _ s1 h1 hw.1)).trans (LbfSpec.of_eq (lbf_emitLoopFinish h))
      simpa [numLoops, Nat.add_comm] using this
  | .group id name c, s, s', h, hw => by
    simp only [emitNode] at h
    simp only [WF] at hw
    split at h
    · cases h
    · next s1 h1 =>
      cases h
      have := ((LbfSpec.of_eq (lbf_emitGroupBegin id name s)).trans (emitNode_lbf c _ s1 h1 hw)).trans
        (LbfSpec.of_eq (lbf_emitInsn (.endCaptureGroup id) s1))
      simpa [numLoops] using this
  | .look ng bw sg eg c, s, s', h, hw => by
    simp only [emitNode] at h
    simp only [WF] at hw
    split at h
    · cases h
    · next s1 h1 =>
      have := ((LbfSpec.of_eq (lbf_emitLookBegin ng bw sg eg s)).trans (emitNode_lbf c _ s1 h1 hw)).trans
        (LbfSpec.of_eq (lbf_emitLookFinish h))
      simpa [numLoops] using this
  | .alt l r, s, s', h, hw => by
    simp only [emitNode, emitInsnOffset] at h
    simp only [WF] at hw
    split at h
    · cases h
    · next s1 h1 =>
      split at h
      · cases h
      · next s2 h2 =>
        have := ((((LbfSpec.of_eq (lbf_emitInsn (.alt 0) s)).trans (emitNode_lbf l _ s1 h1 hw.1)).trans
          (LbfSpec.of_eq (lbf_emitInsn (.jump 0) s1))).trans (emitNode_lbf r _ s2 h2 hw.2)).trans
          (LbfSpec.of_eq (lbf_emitAltFinish h))
        simpa [numLoops] using this
theorem emitNodes_lbf : (ns : List Node) → (s s' : EmitState) → emitNodes ns s = .ok s' → WFList ns →
    LbfSpec s s' (numLoopsList ns)
  | [], s, s', h, _ => by simp only [emitNodes] at h; cases h; exact .of_eq rfl
  | n :: ns, s, s', h, hw => by
    simp only [emitNodes] at h
    simp only [WFList] at hw
    split at h
    · cases h
    · next s1 h1 =>
      simpa [numLoopsList] using (emitNode_lbf n s s1 h1 hw.1).trans (emitNodes_lbf ns s1 s' h hw.2)
end

/-! ## The emitted program -/

/-- What `emit` produces, for the certificates. -/
structure Root (r : Regex) (prog : Prog) (sk : Sk) : Prop where
  lay : Lay prog.insns sk 0
  size : prog.insns.size = sk.size
  groups : prog.groups = numGroups r.node
  loops : prog.loops = numLoops r.node
  begins : sk.begins = groupIds r.node
  lids : sk.lids = List.range (numLoops r.node)
  gsc : sk.gsc 0 prog.groups = true
  ok : sk.ok prog.groups prog.brackets.size prog.loops = true
  phase : sk.phase true 0 = some 0
  ends : sk.endsPlain = true
  brackets : ∀ br ∈ prog.brackets, wfBracket br = true
  rex : rangesExact r.node = true → sk.rex = true

theorem loopIdsFrom_zero {k : Nat} (h : k ≤ 65536) : loopIdsFrom 0 k = List.range k := by
  unfold loopIdsFrom
  rw [List.range_eq_range']
  apply List.ext_getElem
  · simp
  · intro i h1 h2
    simp only [List.length_map, List.length_range'] at h1
    simp only [List.getElem_map, List.getElem_range', Nat.zero_add, Nat.one_mul]
    exact Nat.mod_eq_of_lt (by omega)

/-- **The emitted program is the layout of a well-formed root skeleton.** -/
theorem emit_root {r : Regex} {prog : Prog} (he : emit r = .ok prog) (hw : WF r.node)
    (hng : numGroups r.node ≤ 65535) (hnl : numLoops r.node ≤ 65535) (hir : irOK r.node = true) :
    ∃ sk, Root r prog sk := by
  obtain ⟨hcode, hgroups⟩ := emit_code he
  rw [Nat.mod_eq_of_lt (by omega)] at hgroups
  obtain ⟨h1, h2, h3, h4, _⟩ := irOK_parts hir
  have hloops : prog.loops = numLoops r.node ∧ ∀ br ∈ prog.brackets, wfBracket br = true := by
    unfold emit emitWith at he
    split at he
    · cases he
    · split at he
      · cases he
      · rename_i s hs
        cases he
        have := emitNode_lbf r.node _ s hs hw
        refine ⟨?_, this.2 (by simp)⟩
        have := this.1 0 rfl
        simp only [Nat.zero_add] at this
        rw [this]; exact Nat.mod_eq_of_lt (by omega)
  obtain ⟨sk, hs⟩ := code_sk (G := numGroups r.node) (L := numLoops r.node) (by omega) r.node false 0
    prog.insns.size 0 0 (numGroups r.node) hcode hw h3 h2 h1 (Nat.le_refl _) (by omega)
  have hsz := hs.size
  simp only [Nat.zero_add] at hsz
  refine ⟨sk, ⟨hs.lay, hsz, hgroups, hloops.1, hs.begins, ?_, ?_, ?_, hs.phase, hs.ends h4, hloops.2, hs.rex⟩⟩
  · rw [hs.lids]; exact loopIdsFrom_zero (by omega)
  · rw [hgroups]; exact hs.gsc 0 _ h1
  · rw [hgroups, hloops.1]; exact hs.ok

/-! ## The start predicate: all bytes `< 256` -/

open Regress.IR.AbstractStartPredicate in
/-- The bytes of a `Sequence` predicate are bytes. -/
def LtA : AbstractStartPredicate → Prop
  | .sequence s => ∀ b ∈ s, b < 256
  | _ => True

open Regress.IR.AbstractStartPredicate in
theorem disjunction_lt {x y d : AbstractStartPredicate} (hx : LtA x) (h : disjunction x y = .ok d) : LtA d := by
  cases x with
  | arbitrary => simp [disjunction] at h; subst h; trivial
  | sequence s1 =>
    cases y with
    | arbitrary => simp [disjunction] at h; subst h; trivial
    | sequence s2 =>
      simp only [disjunction] at h
      split at h
      · simp at h; subst h
        intro b hb
        exact hx b (List.mem_of_mem_take hb)
      · cases s1 with
        | nil => cases s2 <;> simp at h
        | cons a t1 =>
          cases s2 with
          | nil => simp at h
          | cons c t2 => simp at h; subst h; trivial
    | set bm2 =>
      cases s1 with
      | nil => simp [disjunction] at h
      | cons a t1 => simp [disjunction] at h; subst h; trivial
  | set bm1 =>
    cases y with
    | arbitrary => simp [disjunction] at h; subst h; trivial
    | sequence s2 =>
      cases s2 with
      | nil => simp [disjunction] at h
      | cons c t2 => simp [disjunction] at h; subst h; trivial
    | set bm2 => simp [disjunction] at h; subst h; trivial

mutual
theorem csp_lt : ∀ (n : Node), WF n → ∀ P, computeStartPredicate n = .ok (some P) → LtA P
  | .byteSeq bv, hw, P, h => by
    simp only [computeStartPredicate, Except.ok.injEq, Option.some.injEq] at h; subst h
    simp only [WF] at hw
    obtain ⟨ds, hds, rfl⟩ := hw
    exact encodeAll_lt_256 hds
  | .byteSet bytes, _, P, h => by
    simp only [computeStartPredicate, Except.ok.injEq, Option.some.injEq] at h; subst h; trivial
  | .empty, _, P, h => by simp [computeStartPredicate] at h; subst h; trivial
  | .goal, _, P, h => by simp [computeStartPredicate] at h; subst h; trivial
  | .backRef _ _, _, P, h => by simp [computeStartPredicate] at h; subst h; trivial
  | .stringSet _ _, _, P, h => by simp [computeStartPredicate] at h; subst h; trivial
  | .char _, _, P, h => by simp [computeStartPredicate] at h; subst h; trivial
  | .matchAny, _, P, h => by simp [computeStartPredicate] at h; subst h; trivial
  | .matchAnyExceptLT, _, P, h => by simp [computeStartPredicate] at h; subst h; trivial
  | .anchor _ _, _, P, h => by simp [computeStartPredicate] at h; subst h; trivial
  | .wordBoundary _ _, _, P, h => by simp [computeStartPredicate] at h; subst h; trivial
  | .look _ _ _ _ _, _, P, h => by simp [computeStartPredicate] at h
  | .charSet chars, _, P, h => by
    simp only [computeStartPredicate, Except.ok.injEq, Option.some.injEq] at h; subst h; trivial
  | .bracket bc, _, P, h => by
    simp only [computeStartPredicate, Except.ok.injEq, Option.some.injEq] at h; subst h; trivial
  | .cat ns, hw, P, h => by
    simp only [computeStartPredicate] at h; simp only [WF] at hw
    exact fsp_lt ns hw P h
  | .group _ _ c, hw, P, h => by
    simp only [computeStartPredicate] at h; simp only [WF] at hw
    exact csp_lt c hw P h
  | .loop b q _ _, hw, P, h => by
    simp only [computeStartPredicate] at h; simp only [WF] at hw
    split at h
    · exact csp_lt b hw.1 P h
    · simp at h; subst h; trivial
  | .loop1 b q, hw, P, h => by
    simp only [computeStartPredicate] at h; simp only [WF] at hw
    split at h
    · exact csp_lt b hw.1 P h
    · simp at h; subst h; trivial
  | .alt l r, hw, P, h => by
    simp only [computeStartPredicate] at h; simp only [WF] at hw
    split at h
    · cases h
    · rename_i x hx
      split at h
      · cases h
      · rename_i y hy
        split at h
        · rename_i x' y'
          split at h
          · cases h
          · rename_i d hd
            simp only [Except.ok.injEq, Option.some.injEq] at h; subst h
            exact disjunction_lt (csp_lt l hw.1 x' hx) hd
        · simp only [Except.ok.injEq, Option.some.injEq] at h; subst h; trivial
theorem fsp_lt : ∀ (ns : List Node), WFList ns → ∀ P, firstStartPredicate ns = .ok (some P) → LtA P
  | [], _, P, h => by simp [firstStartPredicate] at h
  | n :: ns, hw, P, h => by
    simp only [firstStartPredicate] at h; simp only [WFList] at hw
    split at h
    · cases h
    · rename_i p hp
      simp only [Except.ok.injEq, Option.some.injEq] at h; subst h
      exact csp_lt n hw.1 p hp
    · exact fsp_lt ns hw.2 P h
end

open Regress.IR.AbstractStartPredicate in
theorem resolve_wf {x : AbstractStartPredicate} (h : LtA x) : wfStartPred x.resolveToInsn = true := by
  cases x with
  | arbitrary => rfl
  | sequence vals =>
    simp only [resolveToInsn]
    split
    · rfl
    · rename_i v
      simp only [wfStartPred, List.all_eq_true, decide_eq_true_eq]
      intro b hb; exact h b hb
    · simp only [wfStartPred, List.all_eq_true, decide_eq_true_eq]
      exact h
  | set bm =>
    have : ∀ b ∈ bm.toList, b < 256 := fun b hb => ((ByteBitmap.mem_toList bm b).1 hb).1
    simp only [resolveToInsn]
    split <;> first | rfl | (simp only [wfStartPred, List.all_eq_true, decide_eq_true_eq]; exact this)

/-- **P6**: the bytes of the start predicate are bytes. -/
theorem predicateForRe_wf (re : Regex) (hw : WF re.node) {sp : StartPred} (h : predicateForRe re = .ok sp) :
    wfStartPred sp = true := by
  unfold predicateForRe at h
  split at h
  · cases h; rfl
  · split at h
    · cases h
    · rename_i r hr
      cases h
      cases r with
      | none => rfl
      | some P => exact resolve_wf (csp_lt re.node hw P hr)

end Regress.Certs
