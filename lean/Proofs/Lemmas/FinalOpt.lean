import Proofs.Lemmas.E2EOpt
import Proofs.Lemmas.E2EParse
import Proofs.Lemmas.FinalSat
/-!
# Final, part 2: the optimizer preserves the side conditions of the keystone lemma, for ANY quantifier
clause

`Proofs/Lemmas/E2EOpt.lean` shows that every pass of the optimizer preserves `Keystone.kok` /
`Keystone.rootOK`, whose quantifier clause is `quantBounded q` ("the maximum is not the literal
`usize::MAX`").  Here the same development — the SAME proofs, ported line by line — for `kokP` / `rootOKP`:
`kok` / `rootOK` with the quantifier clause replaced by an arbitrary predicate `QPred.P` that is closed
under what `unroll_loops` does to a quantifier (`QPred.unroll`).  The generic lifting
(`E2E.optimize_rel`) is reused unchanged.

Instances: `fitsPred L` (`Final.fitsQ L`: the maximum is out of reach on haystacks of `L` bytes).
-/
namespace Regress.Final

open Regress.IR Regress.Keystone Regress.Gen Regress.E2E

/-- A predicate on quantifiers that `unroll_loops` preserves. -/
class QPred where
  P : Quant → Bool
  unroll : ∀ q, P q = true → quantOk q = true →
    P { min := 0, max := q.max.map (fun v => usizeSub v q.min), greedy := q.greedy } = true

section
variable [QPred]

mutual
/-- `Keystone.kok` with the quantifier clause `QPred.P`. -/
def kokP : Node → Bool
  | .goal => false
  | .cat ns => kokPList ns
  | .alt l r => kokP l && kokP r
  | .group _ _ c => kokP c
  | .look _ _ _ _ c => kokP c
  | .loop b q _ _ => kokP b && QPred.P q
  | .loop1 b q => oneInsnBody b && QPred.P q
  | .backRef g _ => g != 0
  | _ => true
def kokPList : List Node → Bool
  | [] => true
  | n :: ns => kokP n && kokPList ns
end

mutual
/-- `Keystone.rootOK` over `kokP`. -/
def rootOKP : Node → Bool
  | .goal => true
  | .cat ns => rootOKPList ns
  | .empty => true
  | .char _ => true
  | .byteSeq _ => true
  | .byteSet _ => true
  | .charSet _ => true
  | .alt l r => kokP (.alt l r)
  | .matchAny => true
  | .matchAnyExceptLT => true
  | .anchor _ _ => true
  | .wordBoundary _ _ => true
  | .group id nm c => kokP (.group id nm c)
  | .backRef g i => kokP (.backRef g i)
  | .bracket _ => true
  | .stringSet a i => kokP (.stringSet a i)
  | .look n b s e c => kokP (.look n b s e c)
  | .loop b q g0 g1 => kokP (.loop b q g0 g1)
  | .loop1 b q => kokP (.loop1 b q)
def rootOKPList : List Node → Bool
  | [] => true
  | n :: ns => if ns.isEmpty then rootOKP n else kokP n && rootOKPList ns
end

/-! ## The instance of `E2E.RelCongr` / `E2E.PassesStep` (ported from `Proofs/Lemmas/E2EOpt.lean`) -/

def KRP (n m : Node) : Prop :=
  (kokP n = true → kokP m = true) ∧ (oneInsnBody n = true → oneInsnBody m = true) ∧
  (rootOKP n = true → rootOKP m = true) ∧ numLoops m ≤ numLoops n

theorem kokPList_iff (ns : List Node) : kokPList ns = true ↔ ∀ n ∈ ns, kokP n = true := by
  induction ns with
  | nil => simp [kokPList]
  | cons a t ih => simp [kokPList, ih]

theorem kokPList_append (xs ys : List Node) : kokPList (xs ++ ys) = (kokPList xs && kokPList ys) := by
  induction xs with
  | nil => simp [kokPList]
  | cons a t ih => simp [kokPList, ih, Bool.and_assoc]


mutual
theorem kokP_rootOKP : ∀ (n : Node), kokP n = true → rootOKP n = true
  | .cat ns, h => by simp only [kokP] at h; simp only [rootOKP]; exact kokPList_rootOKPList ns h
  | .goal, h => by simp [kokP] at h
  | .empty, _ => rfl
  | .char _, _ => rfl
  | .byteSeq _, _ => rfl
  | .byteSet _, _ => rfl
  | .charSet _, _ => rfl
  | .alt _ _, h => h
  | .matchAny, _ => rfl
  | .matchAnyExceptLT, _ => rfl
  | .anchor _ _, _ => rfl
  | .wordBoundary _ _, _ => rfl
  | .group _ _ _, h => h
  | .backRef _ _, h => h
  | .bracket _, _ => rfl
  | .stringSet _ _, h => h
  | .look _ _ _ _ _, h => h
  | .loop _ _ _ _, h => h
  | .loop1 _ _, h => h
theorem kokPList_rootOKPList : ∀ (ns : List Node), kokPList ns = true → rootOKPList ns = true
  | [], _ => rfl
  | n :: ns, h => by
    simp only [kokPList, Bool.and_eq_true] at h
    simp only [rootOKPList]
    split
    · exact kokP_rootOKP n h.1
    · simp [h.1, kokPList_rootOKPList ns h.2]
end

/-- `kokPList xs → rootOKPList ys → rootOKPList (xs ++ ys)`. -/
theorem rootOKPList_append {xs ys : List Node} (hx : kokPList xs = true) (hy : rootOKPList ys = true) :
    rootOKPList (xs ++ ys) = true := by
  induction xs with
  | nil => simpa using hy
  | cons a t ih =>
    simp only [kokPList, Bool.and_eq_true] at hx
    simp only [List.cons_append, rootOKPList]
    split
    · exact kokP_rootOKP a hx.1
    · simp [hx.1, ih hx.2]

theorem rootOKPList_cons_cons (a b : Node) (t : List Node) :
    rootOKPList (a :: b :: t) = (kokP a && rootOKPList (b :: t)) := by
  rw [rootOKPList]; simp

theorem rootOKPList_single (a : Node) : rootOKPList [a] = rootOKP a := by
  rw [rootOKPList]; simp

theorem relList_kokP {ns ns' : List Node} (h : RelList KRP ns ns') : kokPList ns = true → kokPList ns' = true := by
  induction ns generalizing ns' with
  | nil => cases ns' <;> simp [RelList] at h ⊢
  | cons a t ih =>
    cases ns' with
    | nil => simp [RelList] at h
    | cons b t' =>
      simp only [RelList] at h
      simp only [kokPList, Bool.and_eq_true]
      exact fun hk => ⟨h.1.1 hk.1, ih h.2 hk.2⟩

theorem relList_rootP {ns ns' : List Node} (h : RelList KRP ns ns') :
    rootOKPList ns = true → rootOKPList ns' = true := by
  induction ns generalizing ns' with
  | nil => cases ns' <;> simp [RelList] at h ⊢
  | cons a t ih =>
    cases ns' with
    | nil => simp [RelList] at h
    | cons b t' =>
      simp only [RelList] at h
      cases t with
      | nil =>
        cases t' with
        | nil => simp only [rootOKPList_single]; exact h.1.2.2.1
        | cons _ _ => simp [RelList] at h
      | cons a2 t2 =>
        cases t' with
        | nil => simp [RelList] at h
        | cons b2 t2' =>
          simp only [rootOKPList_cons_cons, Bool.and_eq_true]
          exact fun hk => ⟨h.1.1 hk.1, ih h.2 hk.2⟩

theorem relList_loopsP {ns ns' : List Node} (h : RelList KRP ns ns') : numLoopsList ns' ≤ numLoopsList ns := by
  induction ns generalizing ns' with
  | nil => cases ns' <;> simp [RelList] at h ⊢
  | cons a t ih =>
    cases ns' with
    | nil => simp [RelList] at h
    | cons b t' =>
      simp only [RelList] at h
      simp only [numLoopsList]
      have := ih h.2
      have := h.1.2.2.2
      omega

theorem KRP_congr : RelCongr KRP where
  refl _ := ⟨id, id, id, Nat.le_refl _⟩
  trans h1 h2 := ⟨fun h => h2.1 (h1.1 h), fun h => h2.2.1 (h1.2.1 h), fun h => h2.2.2.1 (h1.2.2.1 h),
    Nat.le_trans h2.2.2.2 h1.2.2.2⟩
  cat h := ⟨by simpa only [kokP] using relList_kokP h, by simp [oneInsnBody],
    by simpa only [rootOKP] using relList_rootP h, by simpa only [numLoops] using relList_loopsP h⟩
  alt h1 h2 := by
    refine ⟨?_, by simp [oneInsnBody], ?_, by have := h1.2.2.2; have := h2.2.2.2; simp only [numLoops]; omega⟩
    all_goals
      simp only [rootOKP, kokP, Bool.and_eq_true]
      exact fun hk => ⟨h1.1 hk.1, h2.1 hk.2⟩
  group h := ⟨by simpa only [kokP] using h.1, by simp [oneInsnBody], by simpa only [rootOKP, kokP] using h.1,
    by simpa only [numLoops] using h.2.2.2⟩
  look h := ⟨by simpa only [kokP] using h.1, by simp [oneInsnBody], by simpa only [rootOKP, kokP] using h.1,
    by simpa only [numLoops] using h.2.2.2⟩
  loop h := by
    refine ⟨?_, by simp [oneInsnBody], ?_, by have := h.2.2.2; simp only [numLoops]; omega⟩
    all_goals
      simp only [rootOKP, kokP, Bool.and_eq_true]
      exact fun hk => ⟨h.1 hk.1, hk.2⟩
  loop1 h := by
    refine ⟨?_, by simp [oneInsnBody], ?_, by simpa only [numLoops] using h.2.2.2⟩
    all_goals
      simp only [rootOKP, kokP, Bool.and_eq_true]
      exact fun hk => ⟨h.2.1 hk.1, hk.2⟩


/-! ## The passes, one by one -/

theorem KRP_empty {m : Node} (h : oneInsnBody m = false) : KRP m .empty :=
  ⟨fun _ => rfl, by simp [h], fun _ => rfl, by simp [numLoops]⟩

theorem KRP_fails {m : Node} (h : oneInsnBody m = false) : KRP m makeAlwaysFails :=
  ⟨fun _ => rfl, by simp [h], fun _ => rfl, by simp [numLoops, makeAlwaysFails]⟩

/-! ### `decat` -/

theorem decatLoop_kokP (rest : List Node) :
    ∀ acc, kokPList (decatLoop rest acc) = (kokPList acc && kokPList rest) := by
  induction rest with
  | nil => intro acc; simp [decatLoop, kokPList]
  | cons x rest ih =>
    intro acc
    have hgen : kokPList (decatLoop rest (acc ++ [x])) = (kokPList acc && kokPList (x :: rest)) := by
      rw [ih, kokPList_append]; simp [kokPList, Bool.and_assoc]
    cases x <;> try (simpa [decatLoop] using hgen)
    case cat nn =>
      simp only [decatLoop]
      rw [ih, kokPList_append]; simp [kokPList, kokP, Bool.and_assoc]


theorem decatLoop_rootP (rest : List Node) :
    ∀ acc, kokPList acc = true → rootOKPList rest = true → rootOKPList (decatLoop rest acc) = true := by
  induction rest with
  | nil => intro acc ha _; simpa [decatLoop] using kokPList_rootOKPList acc ha
  | cons x rest ih =>
    intro acc ha hr
    cases rest with
    | nil =>
      rw [rootOKPList_single] at hr
      have hgen : rootOKPList (decatLoop [] (acc ++ [x])) = true := by
        simp only [decatLoop]
        exact rootOKPList_append ha (by rw [rootOKPList_single]; exact hr)
      cases x <;> try (simpa [decatLoop] using hgen)
      case cat nn =>
        simp only [decatLoop]
        exact rootOKPList_append ha (by simpa only [rootOKP] using hr)
    | cons y rest' =>
      rw [rootOKPList_cons_cons, Bool.and_eq_true] at hr
      have hgen : rootOKPList (decatLoop (y :: rest') (acc ++ [x])) = true :=
        ih _ (by rw [kokPList_append]; simp [kokPList, ha, hr.1]) hr.2
      cases x <;> try (simpa [decatLoop] using hgen)
      case cat nn =>
        simp only [decatLoop]
        exact ih _ (by rw [kokPList_append]; simp [ha]; simpa only [kokP] using hr.1) hr.2

theorem decat_stepP : PassStep OptIn decat KRP := by
  intro m w a hm h
  unfold decat at h
  split at h
  · rename_i nodes
    split at h
    · cases h; exact KRP_empty rfl
    · rename_i x
      cases h
      refine ⟨?_, by simp [oneInsnBody], ?_, ?_⟩
      · simp [PassAction.result, kokP, kokPList]
      · simp [PassAction.result, rootOKP, rootOKPList_single]
      · simp [PassAction.result, numLoops, numLoopsList]
    · split at h
      · cases h
        refine ⟨?_, by simp [oneInsnBody], ?_, ?_⟩
        · simp only [PassAction.result, kokP, decatLoop_kokP]; simp [kokPList]
        · simp only [PassAction.result, rootOKP]; exact decatLoop_rootP _ _ rfl
        · simp only [PassAction.result, numLoops, decatLoop_loops]; simp [numLoopsList]
      · cases h; exact KRP_congr.refl _
  · cases h; exact KRP_congr.refl _

/-! ### `remove_empties` -/

theorem filter_kokP (ns : List Node) (p : Node → Bool) (h : kokPList ns = true) :
    kokPList (ns.filter p) = true := by
  rw [kokPList_iff] at *
  intro n hn
  exact h n (List.mem_filter.1 hn).1


theorem filter_rootP (ns : List Node) (p : Node → Bool) (h : rootOKPList ns = true) :
    rootOKPList (ns.filter p) = true := by
  induction ns with
  | nil => simpa using h
  | cons a t ih =>
    cases t with
    | nil =>
      rw [rootOKPList_single] at h
      simp only [List.filter]
      split
      · simpa [rootOKPList_single] using h
      · rfl
    | cons b t' =>
      rw [rootOKPList_cons_cons, Bool.and_eq_true] at h
      have := ih h.2
      rw [List.filter_cons]
      split
      · exact rootOKPList_append (xs := [a]) (by simp [kokPList, h.1]) this
      · exact this

theorem removeEmpties_stepP : PassStep OptIn removeEmpties KRP := by
  intro m w a hm h
  unfold removeEmpties at h
  split at h
  all_goals try (cases h; exact KRP_congr.refl _)
  · rename_i v
    split at h
    · rename_i hv
      cases h
      refine ⟨fun _ => rfl, ?_, fun _ => rfl, by simp [PassAction.result, numLoops]⟩
      intro ho
      simp only [oneInsnBody, Bool.and_eq_true, decide_eq_true_eq] at ho
      cases v <;> simp at hv ho
    · cases h; exact KRP_congr.refl _
  · rename_i nodes
    dsimp only at h
    split at h
    · cases h; exact KRP_congr.refl _
    · split at h
      · cases h; exact KRP_empty rfl
      · rename_i x heq
        cases h
        refine ⟨?_, by simp [oneInsnBody], ?_, ?_⟩
        · intro hk
          have := filter_kokP nodes (fun nn => !nn.isEmpty) (by simpa only [kokP] using hk)
          rw [heq] at this
          simpa [PassAction.result, kokPList] using this
        · intro hk
          have := filter_rootP nodes (fun nn => !nn.isEmpty) (by simpa only [rootOKP] using hk)
          rw [heq, rootOKPList_single] at this
          exact this
        · have := filter_loops nodes (fun nn => !nn.isEmpty)
          rw [heq] at this
          simpa [PassAction.result, numLoops, numLoopsList] using this
      · cases h
        refine ⟨?_, by simp [oneInsnBody], ?_, ?_⟩
        · intro hk
          simpa only [PassAction.result, kokP] using
            filter_kokP nodes (fun nn => !nn.isEmpty) (by simpa only [kokP] using hk)
        · intro hk
          simpa only [PassAction.result, rootOKP] using
            filter_rootP nodes (fun nn => !nn.isEmpty) (by simpa only [rootOKP] using hk)
        · simpa only [PassAction.result, numLoops] using filter_loops nodes (fun nn => !nn.isEmpty)
  · split at h
    · cases h; exact KRP_empty rfl
    · cases h; exact KRP_congr.refl _
  · split at h
    · cases h; exact KRP_empty rfl
    · cases h; exact KRP_congr.refl _
  · split at h
    · cases h; exact KRP_empty rfl
    · cases h; exact KRP_congr.refl _

/-! ### `propagate_early_fails` -/

theorem propagateEarlyFails_stepP : PassStep OptIn propagateEarlyFails KRP := by
  intro m w a hm h
  unfold propagateEarlyFails at h
  split at h
  · cases h; exact KRP_congr.refl _
  · split at h
    · split at h
      · cases h; exact KRP_fails rfl
      · cases h; exact KRP_congr.refl _
    · rename_i left right
      dsimp only at h
      split at h
      · cases h; exact KRP_fails rfl
      · cases h; exact KRP_congr.refl _
      · cases h
        refine ⟨?_, by simp [oneInsnBody], ?_, by simp only [PassAction.result, numLoops]; omega⟩
        · simp only [PassAction.result, kokP, Bool.and_eq_true]; exact fun hk => hk.2
        · simp only [PassAction.result, rootOKP, kokP, Bool.and_eq_true]; exact fun hk => kokP_rootOKP _ hk.2
      · cases h
        refine ⟨?_, by simp [oneInsnBody], ?_, by simp only [PassAction.result, numLoops]; omega⟩
        · simp only [PassAction.result, kokP, Bool.and_eq_true]; exact fun hk => hk.1
        · simp only [PassAction.result, rootOKP, kokP, Bool.and_eq_true]; exact fun hk => kokP_rootOKP _ hk.1
    · split at h
      · cases h; exact KRP_congr.refl _
      · split at h
        · cases h; exact KRP_fails rfl
        · cases h; exact KRP_congr.refl _
    · cases h; exact KRP_congr.refl _

/-! ### `promote_1char_loops` -/



theorem promote1CharLoops_stepP : PassStep OptIn promote1CharLoops KRP := by
  intro m w a hm h
  unfold promote1CharLoops at h
  split at h
  · rename_i loopee quant g0 g1
    split at h
    · cases h; exact KRP_congr.refl _
    · rename_i hone
      simp only [Bool.not_eq_true, Bool.not_eq_false'] at hone
      split at h
      · cases h
      · cases h
        have ho := oneInsn_of_oneChar (by simpa using hone)
        refine ⟨?_, by simp [oneInsnBody], ?_, by simp [PassAction.result, numLoops]⟩
        all_goals
          simp only [PassAction.result, rootOKP, kokP, Bool.and_eq_true]
          exact fun hk => ⟨ho, hk.2⟩
  · cases h; exact KRP_congr.refl _

/-! ### `unroll_loops` -/


theorem kokPList_replicate (k : Nat) (b : Node) (h : kokP b = true) : kokPList (List.replicate k b) = true := by
  rw [kokPList_iff]; intro n hn; rw [List.eq_of_mem_replicate hn]; exact h



theorem unrollLoops_stepP : PassStep OptIn unrollLoops KRP := by
  intro m w a hm h
  unfold unrollLoops at h
  split at h
  · rename_i loopee quant g0 g1
    split at h
    · cases h; exact KRP_congr.refl _
    · split at h
      · cases h; exact KRP_congr.refl _
      · split at h
        · cases h; exact KRP_congr.refl _
        · rename_i hmin hun
          split at h
          · cases h
          · cases h; exact KRP_congr.refl _
          · rename_i unrolled hdup
            cases h
            have hu := unrollDup_eq loopee quant.min [] unrolled hdup
            have hul : unrolled = List.replicate quant.min loopee := by simpa using hu.1
            subst hul
            have hl0 : numLoops loopee = 0 := isUnrollable_loops loopee _ (by simpa using hun)
            simp only [PassAction.result]
            have hkokP : kokP (.loop loopee quant g0 g1) = true →
                kokP (.cat (if (quant.max.map (fun v => usizeSub v quant.min)) != some 0 then
                  List.replicate quant.min loopee ++
                    [.loop loopee { min := 0, max := quant.max.map (fun v => usizeSub v quant.min),
                                    greedy := quant.greedy } g0 g1]
                  else List.replicate quant.min loopee)) = true := by
              intro hk
              simp only [kokP, Bool.and_eq_true] at hk
              simp only [kokP]
              split
              · rw [kokPList_append]
                simp [kokPList, kokP, kokPList_replicate _ _ hk.1, hk.1, QPred.unroll _ hk.2 hm.1.2.1]
              · exact kokPList_replicate _ _ hk.1
            refine ⟨hkokP, by simp [oneInsnBody], fun hr => kokP_rootOKP _ (hkokP (by simpa only [rootOKP] using hr)), ?_⟩
            simp only [numLoops]
            split
            · rw [numLoopsList_append, numLoopsList_replicate _ _ hl0]; simp [numLoopsList, numLoops]
            · rw [numLoopsList_replicate _ _ hl0]; omega
  · cases h; exact KRP_congr.refl _

/-! ### `form_literal_bytes` -/

theorem mergeLiteralBytes_kokP (lb : Bool) :
    ∀ (rest : List Node) (prev : Node), kokPList (prev :: rest) = true →
      kokPList (mergeLiteralBytes lb prev rest).1 = true := by
  intro rest
  induction rest with
  | nil => intro prev hp; simpa [mergeLiteralBytes] using hp
  | cons curr rest ih =>
    intro prev hp
    simp only [kokPList, Bool.and_eq_true] at hp
    unfold mergeLiteralBytes
    split
    · split
      · simp only [kokPList, Bool.and_eq_true]
        exact ⟨rfl, ih _ (by simp [kokPList, kokP, hp.2.2])⟩
      · simp only [kokPList, Bool.and_eq_true]
        exact ⟨hp.1, ih _ (by simp [kokPList, hp.2.1, hp.2.2])⟩
    · simp only [kokPList, Bool.and_eq_true]
      exact ⟨hp.1, ih _ (by simp [kokPList, hp.2.1, hp.2.2])⟩


theorem rootOKPList_cons_of_ne_nil {a : Node} {t : List Node} (ht : t ≠ []) :
    rootOKPList (a :: t) = (kokP a && rootOKPList t) := by
  cases t with
  | nil => exact absurd rfl ht
  | cons b t' => exact rootOKPList_cons_cons a b t'

theorem mergeLiteralBytes_rootP (lb : Bool) :
    ∀ (rest : List Node) (prev : Node), rootOKPList (prev :: rest) = true →
      rootOKPList (mergeLiteralBytes lb prev rest).1 = true := by
  intro rest
  induction rest with
  | nil => intro prev hp; simpa [mergeLiteralBytes] using hp
  | cons curr rest ih =>
    intro prev hp
    rw [rootOKPList_cons_cons, Bool.and_eq_true] at hp
    unfold mergeLiteralBytes
    split
    · rename_i pb cb
      split
      · rw [rootOKPList_cons_of_ne_nil (mergeLiteralBytes_ne_nil _ _ _)]
        simp only [kokP, Bool.true_and]
        apply ih
        cases rest with
        | nil => rw [rootOKPList_single]; rfl
        | cons y rest' =>
          rw [rootOKPList_cons_cons] at hp ⊢
          simpa [kokP] using hp.2
      · rw [rootOKPList_cons_of_ne_nil (mergeLiteralBytes_ne_nil _ _ _), hp.1]
        exact ih _ hp.2
    · rw [rootOKPList_cons_of_ne_nil (mergeLiteralBytes_ne_nil _ _ _), hp.1]
      exact ih _ hp.2


theorem formLiteralBytes_stepP : PassStep OptIn formLiteralBytes KRP := by
  intro m w a hm h
  unfold formLiteralBytes at h
  split at h
  · rename_i c
    split at h
    · cases h
      refine ⟨fun _ => rfl, fun _ => ?_, fun _ => rfl, by simp [PassAction.result, numLoops]⟩
      have h1 := Utf8.encode_length_pos c
      have h2 := Utf8.encode_length_le c
      simp only [PassAction.result, oneInsnBody, Bool.and_eq_true, decide_eq_true_eq]
      omega
    · cases h; exact KRP_congr.refl _
  · split at h
    · cases h
      exact ⟨fun _ => rfl, fun _ => rfl, fun _ => rfl, by simp [PassAction.result, numLoops]⟩
    · cases h; exact KRP_congr.refl _
  · split at h
    · cases h; exact KRP_congr.refl _
    · rename_i first rest
      dsimp only at h
      split at h
      · cases h
        refine ⟨?_, by simp [oneInsnBody], ?_, ?_⟩
        · simp only [PassAction.result, kokP]; exact mergeLiteralBytes_kokP _ _ _
        · simp only [PassAction.result, rootOKP]; exact mergeLiteralBytes_rootP _ _ _
        · simp only [PassAction.result, numLoops, mergeLiteralBytes_loops]; exact Nat.le_refl _
      · cases h; exact KRP_congr.refl _
  · cases h; exact KRP_congr.refl _

/-! ### `simplify_brackets` -/

theorem simplifyBrackets_stepP : PassStep OptIn simplifyBrackets KRP := by
  intro m w a hm h
  unfold simplifyBrackets at h
  split at h
  · rename_i bc
    split at h
    · rename_i newNode hred
      cases h
      obtain ⟨cs, rfl, _⟩ := tryReduceBracket_some hred
      exact ⟨fun _ => rfl, fun _ => rfl, fun _ => rfl, by simp [PassAction.result, numLoops]⟩
    · dsimp only at h
      split at h
      · cases h
        exact ⟨fun _ => rfl, fun _ => rfl, fun _ => rfl, by simp [PassAction.result, numLoops]⟩
      · cases h; exact KRP_congr.refl _
  · cases h; exact KRP_congr.refl _

/-! ## The pipeline -/

theorem KRP_passes : PassesStep KRP where
  simplifyBrackets := simplifyBrackets_stepP
  decat := decat_stepP
  unrollLoops := unrollLoops_stepP
  promote1CharLoops := promote1CharLoops_stepP
  formLiteralBytes := formLiteralBytes_stepP
  removeEmpties := removeEmpties_stepP
  propagateEarlyFails := propagateEarlyFails_stepP


/-- **`optimize` preserves `kokP` / `rootOKP`** (cf. `E2E.optimize_side`). -/
theorem optimize_sideP {fuel : Nat} {r r' : Regex} (hr : OptIn r.node) (h : optimize fuel r = .ok r') :
    (kokP r.node = true → kokP r'.node = true) ∧ (rootOKP r.node = true → rootOKP r'.node = true) := by
  have := optimize_rel KRP_congr KRP_passes hr h
  exact ⟨this.1.1, this.1.2.2.1⟩

end

end Regress.Final
