import Proofs.Lemmas.CertsEmit
import Proofs.Lemmas.CertsNest2
/-!
# Certificates: the phase (boundary) certificate of C06

`Sk.certs fwd sk k` is the explicit phase certificate of a skeleton executed in direction `fwd` and
entered at phase `k`: one entry (direction, entry phase) per instruction, in address order.
`Cov c fwd sk k b`: the certificate `c` agrees with it on `[b, b + sk.size)`.

* `Lay.check`: a certificate covering a laid-out skeleton whose phase transfer is defined
  (`sk.phase fwd k = some k'`) and whose exit entry is `(fwd, k')` (or which `endsPlain`) is locally
  consistent (`checkInsn`) at every instruction of the skeleton;
* `Root.checkCert_certs`, `Root.checkCert_ex`: every emitted program has a valid certificate;
* `mkL_sk`: the one-pass `mkCertLoop` pushes exactly the explicit certificate on a laid-out skeleton
  (state invariant "after the pending pop": `eff`);
* `Root.mkCert_eq`, `Root.checkCert_mk`, `emit_checkCert_mk`: `checkCert prog (mkCert prog) = true`.

No hypothesis beyond the fields `lay`, `size`, `ok`, `phase`, `ends` of `Root` is needed.
-/
namespace Regress.Certs

open Regress.VM Regress.Keystone Regress.VM.Safety

namespace Sk

/-- The explicit certificate: (direction, entry phase) per instruction, in address order. -/
def certs : Bool → Sk → Nat → List (Bool × Nat)
  | _, .nil, _ => []
  | fwd, .one _, k => [(fwd, k)]
  | fwd, .seq a c, k => certs fwd a k ++ certs fwd c ((a.phase fwd k).getD 0)
  | fwd, .alt a c, k => (fwd, k) :: (certs fwd a 0 ++ (fwd, 0) :: certs fwd c 0)
  | fwd, .loop _ _ _ _ _ cnt body, k =>
    (fwd, k) :: (List.replicate cnt (fwd, 0) ++ (certs fwd body 0 ++ [(fwd, 0)]))
  | fwd, .loop1 _ _ _ _, k => [(fwd, k), (fwd, 0)]
  | fwd, .group _ body, k => (fwd, k) :: (certs fwd body 0 ++ [(fwd, 0)])
  | fwd, .look _ bw _ _ body, k => (fwd, k) :: (certs (!bw) body 0 ++ [(!bw, 0)])

theorem certs_length : ∀ (fwd : Bool) (sk : Sk) (k : Nat), (certs fwd sk k).length = sk.size
  | _, .nil, _ => rfl
  | _, .one _, _ => rfl
  | fwd, .seq a c, k => by
    simp only [certs, size, List.length_append, certs_length fwd a, certs_length fwd c]
  | fwd, .alt a c, k => by
    simp only [certs, size, List.length_append, List.length_cons, certs_length fwd a, certs_length fwd c]
    omega
  | fwd, .loop _ _ _ _ _ cnt body, k => by
    simp only [certs, size, List.length_append, List.length_cons, List.length_replicate, List.length_nil,
      certs_length fwd body]
    omega
  | _, .loop1 _ _ _ _, _ => rfl
  | fwd, .group _ body, k => by
    simp only [certs, size, List.length_append, List.length_cons, List.length_nil, certs_length fwd body]
  | fwd, .look _ bw _ _ body, k => by
    simp only [certs, size, List.length_append, List.length_cons, List.length_nil, certs_length (!bw) body]

/-- An empty skeleton does not change the phase. -/
theorem phase_of_size_zero : ∀ (fwd : Bool) (sk : Sk) (k : Nat), sk.size = 0 → sk.phase fwd k = some k
  | _, .nil, _, _ => by simp [phase]
  | _, .one _, _, h => by simp [size] at h
  | fwd, .seq a c, k, h => by
    simp only [size] at h
    simp only [phase, phase_of_size_zero fwd a k (by omega), phase_of_size_zero fwd c k (by omega)]
  | _, .alt _ _, _, h => by simp [size] at h
  | _, .loop _ _ _ _ _ _ _, _, h => by simp [size] at h
  | _, .loop1 _ _ _ _, _, h => by simp [size] at h
  | _, .group _ _, _, h => by simp [size] at h
  | _, .look _ _ _ _ _, _, h => by simp [size] at h

end Sk

/-! ## Certificates built from lists -/

/-- The certificate with the given entries. -/
def certOfList (L : List (Bool × Nat)) : Cert :=
  { dir := (L.map Prod.fst).toArray, ph := (L.map Prod.snd).toArray }

theorem certOfList_at (L : List (Bool × Nat)) (j : Nat) : (certOfList L).at j = L[j]? := by
  unfold Cert.at certOfList
  simp only [List.getElem?_toArray, List.getElem?_map]
  cases L[j]? <;> rfl

/-- `c` agrees with the explicit certificate of `sk` (direction `fwd`, entry phase `k`) at
`[b, b + sk.size)`. -/
def Cov (c : Cert) : Bool → Sk → Nat → Nat → Prop
  | _, .nil, _, _ => True
  | fwd, .one _, k, b => c.at b = some (fwd, k)
  | fwd, .seq a s, k, b => Cov c fwd a k b ∧ Cov c fwd s ((a.phase fwd k).getD 0) (b + a.size)
  | fwd, .alt a s, k, b => c.at b = some (fwd, k) ∧ Cov c fwd a 0 (b + 1) ∧
      c.at (b + a.size + 1) = some (fwd, 0) ∧ Cov c fwd s 0 (b + a.size + 2)
  | fwd, .loop _ _ _ _ _ cnt body, k, b => c.at b = some (fwd, k) ∧
      (∀ i, i < cnt → c.at (b + 1 + i) = some (fwd, 0)) ∧ Cov c fwd body 0 (b + 1 + cnt) ∧
      c.at (b + 1 + cnt + body.size) = some (fwd, 0)
  | fwd, .loop1 _ _ _ _, k, b => c.at b = some (fwd, k) ∧ c.at (b + 1) = some (fwd, 0)
  | fwd, .group _ body, k, b => c.at b = some (fwd, k) ∧ Cov c fwd body 0 (b + 1) ∧
      c.at (b + 1 + body.size) = some (fwd, 0)
  | fwd, .look _ bw _ _ body, k, b => c.at b = some (fwd, k) ∧ Cov c (!bw) body 0 (b + 1) ∧
      c.at (b + 1 + body.size) = some (!bw, 0)

theorem cov_of_list {c : Cert} : ∀ (fwd : Bool) (sk : Sk) (k b : Nat),
    (∀ j p, (sk.certs fwd k)[j]? = some p → c.at (b + j) = some p) → Cov c fwd sk k b
  | _, .nil, _, _, _ => trivial
  | fwd, .one _, k, b, h => by
    simp only [Cov]
    exact h 0 _ (by simp [Sk.certs])
  | fwd, .seq a s, k, b, h => by
    simp only [Cov]
    refine ⟨cov_of_list fwd a k b ?_, cov_of_list fwd s _ _ ?_⟩
    · intro j p hj
      have hlt : j < (a.certs fwd k).length := (List.getElem?_eq_some_iff.mp hj).1
      exact h j p (by simp only [Sk.certs]; rw [List.getElem?_append_left hlt]; exact hj)
    · intro j p hj
      have := h (a.size + j) p (by
        simp only [Sk.certs]
        rw [List.getElem?_append_right (by rw [Sk.certs_length]; omega), Sk.certs_length]
        rw [show a.size + j - a.size = j by omega]; exact hj)
      rw [← Nat.add_assoc] at this; exact this
  | fwd, .alt a s, k, b, h => by
    simp only [Cov]
    simp only [Sk.certs] at h
    refine ⟨h 0 _ (by simp), cov_of_list fwd a 0 (b + 1) ?_, ?_, cov_of_list fwd s 0 _ ?_⟩
    · intro j p hj
      have hlt : j < (a.certs fwd 0).length := (List.getElem?_eq_some_iff.mp hj).1
      have := h (j + 1) p (by
        rw [List.getElem?_cons_succ, List.getElem?_append_left hlt]; exact hj)
      rw [show b + 1 + j = b + (j + 1) by omega]; exact this
    · have := h (a.size + 1) (fwd, 0) (by
        rw [List.getElem?_cons_succ, List.getElem?_append_right (by rw [Sk.certs_length]; omega),
          Sk.certs_length, Nat.sub_self]; rfl)
      rw [show b + a.size + 1 = b + (a.size + 1) by omega]; exact this
    · intro j p hj
      have := h (a.size + 1 + j + 1) p (by
        rw [List.getElem?_cons_succ, List.getElem?_append_right (by rw [Sk.certs_length]; omega),
          Sk.certs_length, show a.size + 1 + j - a.size = j + 1 by omega, List.getElem?_cons_succ]
        exact hj)
      rw [show b + a.size + 2 + j = b + (a.size + 1 + j + 1) by omega]; exact this
  | fwd, .loop _ _ _ _ _ cnt body, k, b, h => by
    simp only [Cov]
    simp only [Sk.certs] at h
    refine ⟨h 0 _ (by simp), ?_, cov_of_list fwd body 0 _ ?_, ?_⟩
    · intro i hi
      have := h (i + 1) (fwd, 0) (by
        rw [List.getElem?_cons_succ, List.getElem?_append_left (by simp; omega)]
        simp [hi])
      rw [show b + 1 + i = b + (i + 1) by omega]; exact this
    · intro j p hj
      have hlt : j < (body.certs fwd 0).length := (List.getElem?_eq_some_iff.mp hj).1
      have := h (cnt + j + 1) p (by
        rw [List.getElem?_cons_succ, List.getElem?_append_right (by simp),
          List.length_replicate, show cnt + j - cnt = j by omega, List.getElem?_append_left hlt]
        exact hj)
      rw [show b + 1 + cnt + j = b + (cnt + j + 1) by omega]; exact this
    · have := h (cnt + body.size + 1) (fwd, 0) (by
        rw [List.getElem?_cons_succ, List.getElem?_append_right (by simp),
          List.length_replicate, show cnt + body.size - cnt = body.size by omega,
          List.getElem?_append_right (by rw [Sk.certs_length]; omega), Sk.certs_length, Nat.sub_self]
        rfl)
      rw [show b + 1 + cnt + body.size = b + (cnt + body.size + 1) by omega]; exact this
  | fwd, .loop1 _ _ _ _, k, b, h => by
    simp only [Cov]
    simp only [Sk.certs] at h
    exact ⟨h 0 _ (by simp), h 1 _ (by simp)⟩
  | fwd, .group _ body, k, b, h => by
    simp only [Cov]
    simp only [Sk.certs] at h
    refine ⟨h 0 _ (by simp), cov_of_list fwd body 0 _ ?_, ?_⟩
    · intro j p hj
      have hlt : j < (body.certs fwd 0).length := (List.getElem?_eq_some_iff.mp hj).1
      have := h (j + 1) p (by
        rw [List.getElem?_cons_succ, List.getElem?_append_left hlt]; exact hj)
      rw [show b + 1 + j = b + (j + 1) by omega]; exact this
    · have := h (body.size + 1) (fwd, 0) (by
        rw [List.getElem?_cons_succ, List.getElem?_append_right (by rw [Sk.certs_length]; omega),
          Sk.certs_length, Nat.sub_self]; rfl)
      rw [show b + 1 + body.size = b + (body.size + 1) by omega]; exact this
  | fwd, .look _ bw _ _ body, k, b, h => by
    simp only [Cov]
    simp only [Sk.certs] at h
    refine ⟨h 0 _ (by simp), cov_of_list (!bw) body 0 _ ?_, ?_⟩
    · intro j p hj
      have hlt : j < (body.certs (!bw) 0).length := (List.getElem?_eq_some_iff.mp hj).1
      have := h (j + 1) p (by
        rw [List.getElem?_cons_succ, List.getElem?_append_left hlt]; exact hj)
      rw [show b + 1 + j = b + (j + 1) by omega]; exact this
    · have := h (body.size + 1) (!bw, 0) (by
        rw [List.getElem?_cons_succ, List.getElem?_append_right (by rw [Sk.certs_length]; omega),
          Sk.certs_length, Nat.sub_self]; rfl)
      rw [show b + 1 + body.size = b + (body.size + 1) by omega]; exact this

/-- The entry at the first address of a non-empty skeleton. -/
theorem Cov.head {c : Cert} : ∀ {fwd : Bool} {sk : Sk} {k b : Nat}, Cov c fwd sk k b → 0 < sk.size →
    c.at b = some (fwd, k)
  | _, .nil, _, _, _, h => by simp [Sk.size] at h
  | _, .one _, _, _, hc, _ => hc
  | fwd, .seq a s, k, b, hc, h => by
    simp only [Cov] at hc
    simp only [Sk.size] at h
    by_cases ha : 0 < a.size
    · exact hc.1.head ha
    · have ha0 : a.size = 0 := by omega
      have := hc.2.head (by omega)
      rw [Sk.phase_of_size_zero fwd a k ha0, ha0] at this
      exact this
  | _, .alt _ _, _, _, hc, _ => by simp only [Cov] at hc; exact hc.1
  | _, .loop _ _ _ _ _ _ _, _, _, hc, _ => by simp only [Cov] at hc; exact hc.1
  | _, .loop1 _ _ _ _, _, _, hc, _ => by simp only [Cov] at hc; exact hc.1
  | _, .group _ _, _, _, hc, _ => by simp only [Cov] at hc; exact hc.1
  | _, .look _ _ _ _ _, _, _, hc, _ => by simp only [Cov] at hc; exact hc.1

/-- The entry at the first address of a skeleton, or of what follows it when it is empty. -/
theorem Cov.first {c : Cert} {fwd : Bool} {sk : Sk} {k k' b : Nat} (hc : Cov c fwd sk k b)
    (hp : sk.phase fwd k = some k') (hx : c.at (b + sk.size) = some (fwd, k')) : c.at b = some (fwd, k) := by
  by_cases h : 0 < sk.size
  · exact hc.head h
  · have h0 : sk.size = 0 := by omega
    rw [Sk.phase_of_size_zero fwd sk k h0] at hp
    cases hp
    rw [h0] at hx; exact hx

/-! ## Local consistency of a covering certificate -/

/-- A plain instruction entered at the certified phase, whose successor has the certified phase. -/
theorem check_one {prog : Prog} {c : Cert} {x : Nat} {i : Insn} {fwd : Bool} {k k' : Nat}
    (hp : plain i = true) (hc : c.at x = some (fwd, k)) (hph : Sk.phase fwd (.one i) k = some k')
    (hE : (Sk.one i).endsPlain = true ∨ c.at (x + 1) = some (fwd, k')) :
    checkInsn prog c x i = true := by
  cases i <;> simp [plain] at hp <;> simp only [Sk.phase] at hph <;>
    simp [Sk.endsPlain] at hE <;>
    first
    | (split at hph
       · rename_i hk; cases hph; subst hk
         simp [checkInsn, hc, plainSuccs, ctrlSuccs, isElem, isByteInsn, lookOK, hE]
       · cases hph)
    | (simp only [checkInsn, hc, hph]; simp [hE])

theorem Lay.check {prog : Prog} {c : Cert} {G nb L : Nat} : ∀ {sk : Sk} {b : Nat} {fwd : Bool} {k k' : Nat},
    Lay prog.insns sk b → sk.ok G nb L = true → sk.phase fwd k = some k' → Cov c fwd sk k b →
    (sk.endsPlain = true ∨ c.at (b + sk.size) = some (fwd, k')) →
    ∀ x, b ≤ x → x < b + sk.size → ∀ i, At prog.insns x i → checkInsn prog c x i = true
  | .nil, b, _, _, _, _, _, _, _, _, x, h1, h2, _, _ => by simp [Sk.size] at h2; omega
  | .one i, b, fwd, k, k', h, hok, hp, hc, hE, x, h1, h2, i', hat => by
    simp only [Sk.size] at h2 hE
    have : x = b := by omega
    subst this
    simp only [Lay] at h
    have := at_inj h hat; subst this
    simp only [Sk.ok, Bool.and_eq_true] at hok
    simp only [Cov] at hc
    exact check_one hok.1 hc hp hE
  | .seq a s, b, fwd, k, k', h, hok, hp, hc, hE, x, h1, h2, i, hat => by
    simp only [Sk.size] at h2 hE
    simp only [Lay] at h
    simp only [Sk.ok, Bool.and_eq_true] at hok
    simp only [Cov] at hc
    simp only [Sk.phase] at hp
    cases hpa : a.phase fwd k with
    | none => rw [hpa] at hp; cases hp
    | some ka =>
      rw [hpa] at hp hc
      simp only [Option.getD_some] at hc hp
      by_cases hx : x < b + a.size
      · refine Lay.check h.1 hok.1 hpa hc.1 ?_ x h1 hx i hat
        by_cases hs0 : s.size = 0
        · rw [Sk.phase_of_size_zero fwd s ka hs0] at hp
          cases hp
          rcases hE with hE | hE
          · simp only [Sk.endsPlain, hs0, if_true] at hE; exact Or.inl hE
          · right; rw [hs0, Nat.add_zero] at hE; exact hE
        · right; exact hc.2.head (by omega)
      · refine Lay.check h.2 hok.2 hp hc.2 ?_ x (by omega) (by omega) i hat
        rcases hE with hE | hE
        · simp only [Sk.endsPlain] at hE
          split at hE
          · omega
          · exact Or.inl hE
        · right; rw [Nat.add_assoc]; exact hE
  | .alt a s, b, fwd, k, k', h, hok, hp, hc, hE, x, h1, h2, i, hat => by
    simp only [Sk.size] at h2 hE
    simp only [Lay] at h
    simp only [Sk.ok, Bool.and_eq_true] at hok
    simp only [Cov] at hc
    simp only [Sk.phase] at hp
    simp only [Sk.endsPlain, Bool.false_eq_true, false_or] at hE
    obtain ⟨h0, ha, hj, hs⟩ := h
    obtain ⟨c0, ca, cj, cs⟩ := hc
    split at hp
    · rename_i hk
      obtain ⟨rfl, hpa, hps⟩ := hk
      cases hp
      by_cases hx0 : x = b
      · subst hx0; have := at_inj h0 hat; subst this
        have e1 : c.at (x + 1) = some (fwd, 0) := ca.first hpa (by rw [show x + 1 + a.size = x + a.size + 1 by omega]; exact cj)
        have e2 : c.at (x + a.size + 2) = some (fwd, 0) :=
          cs.first hps (by rw [show x + a.size + 2 + s.size = x + (a.size + s.size + 2) by omega]; exact hE)
        simp [checkInsn, c0, plainSuccs, ctrlSuccs, isElem, isByteInsn, lookOK, e1, e2]
      · by_cases hx1 : x < b + 1 + a.size
        · exact Lay.check ha hok.1 hpa ca (Or.inr (by rw [show b + 1 + a.size = b + a.size + 1 by omega]; exact cj))
            x (by omega) hx1 i hat
        · by_cases hx2 : x = b + a.size + 1
          · subst hx2; have := at_inj hj hat; subst this
            rw [show b + (a.size + s.size + 2) = b + a.size + s.size + 2 by omega] at hE
            simp [checkInsn, cj, plainSuccs, ctrlSuccs, isElem, isByteInsn, lookOK, hE]
          · exact Lay.check hs hok.2 hps cs
              (Or.inr (by rw [show b + a.size + 2 + s.size = b + (a.size + s.size + 2) by omega]; exact hE))
              x (by omega) (by omega) i hat
    · cases hp
  | .loop id mn mx gr g0 cnt body, b, fwd, k, k', h, hok, hp, hc, hE, x, h1, h2, i, hat => by
    simp only [Sk.size] at h2 hE
    simp only [Lay] at h
    simp only [Sk.ok, Bool.and_eq_true] at hok
    simp only [Cov] at hc
    simp only [Sk.phase] at hp
    simp only [Sk.endsPlain, Bool.false_eq_true, false_or] at hE
    obtain ⟨h0, hr, hb, hl⟩ := h
    obtain ⟨c0, cr, cb, cl⟩ := hc
    split at hp
    · rename_i hk
      obtain ⟨rfl, hpb⟩ := hk
      cases hp
      have eb : c.at (b + 1 + cnt) = some (fwd, 0) := cb.first hpb cl
      have e1 : c.at (b + 1) = some (fwd, 0) := by
        by_cases hc0 : cnt = 0
        · subst hc0; exact eb
        · exact cr 0 (by omega)
      have e2 : c.at (b + cnt + body.size + 2) = some (fwd, 0) := by
        rw [show b + cnt + body.size + 2 = b + (body.size + cnt + 2) by omega]; exact hE
      by_cases hx0 : x = b
      · subst hx0; have := at_inj h0 hat; subst this
        simp [checkInsn, c0, plainSuccs, ctrlSuccs, isElem, isByteInsn, lookOK, e1, e2]
      · by_cases hx1 : x < b + 1 + cnt
        · have := hr (x - (b + 1)) (by omega)
          rw [show b + 1 + (x - (b + 1)) = x by omega] at this
          have := at_inj this hat; subst this
          have cx := cr (x - (b + 1)) (by omega)
          rw [show b + 1 + (x - (b + 1)) = x by omega] at cx
          have cx1 : c.at (x + 1) = some (fwd, 0) := by
            by_cases hlast : x + 1 = b + 1 + cnt
            · rw [hlast]; exact eb
            · have := cr (x + 1 - (b + 1)) (by omega)
              rw [show b + 1 + (x + 1 - (b + 1)) = x + 1 by omega] at this
              exact this
          simp [checkInsn, cx, plainSuccs, ctrlSuccs, isElem, isByteInsn, lookOK, cx1]
        · by_cases hx2 : x < b + 1 + cnt + body.size
          · exact Lay.check hb hok.2 hpb cb (Or.inr cl) x (by omega) hx2 i hat
          · have : x = b + 1 + cnt + body.size := by omega
            subst this; have := at_inj hl hat; subst this
            unfold At at h0
            simp [checkInsn, cl, plainSuccs, ctrlSuccs, isElem, isByteInsn, lookOK, h0, e1, e2]
    · cases hp
  | .loop1 mn mx gr body, b, fwd, k, k', h, hok, hp, hc, hE, x, h1, h2, i, hat => by
    simp only [Sk.size] at h2 hE
    simp only [Lay] at h
    simp only [Sk.ok, Bool.and_eq_true] at hok
    simp only [Cov] at hc
    simp only [Sk.endsPlain, Bool.false_eq_true, false_or] at hE
    have hp' : k = 0 ∧ Sk.phase fwd (.one body) 0 = some 0 ∧ k' = 0 := by
      simp only [Sk.phase] at hp
      split at hp
      · rename_i hk; cases hp; exact ⟨hk.1, hk.2, rfl⟩
      · cases hp
    obtain ⟨rfl, hpb, rfl⟩ := hp'
    by_cases hx0 : x = b
    · subst hx0; have := at_inj h.1 hat; subst this
      simp [checkInsn, hc.1, plainSuccs, ctrlSuccs, isElem, isByteInsn, lookOK, hc.2, hE]
    · have : x = b + 1 := by omega
      subst this; have := at_inj h.2 hat; subst this
      exact check_one hok.1.1.1.2 hc.2 hpb (Or.inr hE)
  | .group g body, b, fwd, k, k', h, hok, hp, hc, hE, x, h1, h2, i, hat => by
    simp only [Sk.size] at h2 hE
    simp only [Lay] at h
    simp only [Sk.ok, Bool.and_eq_true] at hok
    simp only [Cov] at hc
    simp only [Sk.phase] at hp
    simp only [Sk.endsPlain, Bool.false_eq_true, false_or] at hE
    obtain ⟨h0, hb, hl⟩ := h
    obtain ⟨c0, cb, cl⟩ := hc
    split at hp
    · rename_i hk
      obtain ⟨rfl, hpb⟩ := hk
      cases hp
      by_cases hx0 : x = b
      · subst hx0; have := at_inj h0 hat; subst this
        have e1 : c.at (x + 1) = some (fwd, 0) := cb.first hpb cl
        simp [checkInsn, c0, plainSuccs, ctrlSuccs, isElem, isByteInsn, lookOK, e1]
      · by_cases hx2 : x < b + 1 + body.size
        · exact Lay.check hb hok.2 hpb cb (Or.inr cl) x (by omega) hx2 i hat
        · have : x = b + 1 + body.size := by omega
          subst this; have := at_inj hl hat; subst this
          rw [show b + (body.size + 2) = b + 1 + body.size + 1 by omega] at hE
          simp [checkInsn, cl, plainSuccs, ctrlSuccs, isElem, isByteInsn, lookOK, hE]
    · cases hp
  | .look neg bw sg eg body, b, fwd, k, k', h, hok, hp, hc, hE, x, h1, h2, i, hat => by
    simp only [Sk.size] at h2 hE
    simp only [Lay] at h
    simp only [Sk.ok, Bool.and_eq_true] at hok
    simp only [Cov] at hc
    simp only [Sk.phase] at hp
    simp only [Sk.endsPlain, Bool.false_eq_true, false_or] at hE
    obtain ⟨h0, hb, hl⟩ := h
    obtain ⟨c0, cb, cl⟩ := hc
    split at hp
    · rename_i hk
      obtain ⟨rfl, hpb⟩ := hk
      cases hp
      by_cases hx0 : x = b
      · subst hx0; have := at_inj h0 hat; subst this
        have e1 : c.at (x + 1) = some (!bw, 0) := cb.first hpb cl
        rw [show x + (body.size + 2) = x + body.size + 2 by omega] at hE
        cases bw <;>
          simp [lookI, checkInsn, c0, plainSuccs, ctrlSuccs, isElem, isByteInsn, lookOK, hE] <;>
          simpa using e1
      · by_cases hx2 : x < b + 1 + body.size
        · exact Lay.check hb hok.2 hpb cb (Or.inr cl) x (by omega) hx2 i hat
        · have : x = b + 1 + body.size := by omega
          subst this; have := at_inj hl hat; subst this
          simp [checkInsn, cl, plainSuccs, ctrlSuccs, isElem, isByteInsn, lookOK]
    · cases hp

/-- The explicit certificate of the root skeleton is valid. -/
theorem Root.checkCert_certs {r : IR.Regex} {prog : Prog} {sk : Sk} (R : Root r prog sk) :
    checkCert prog (certOfList (sk.certs true 0)) = true := by
  have hpos := endsPlain_size_pos R.ends
  have hcov : Cov (certOfList (sk.certs true 0)) true sk 0 0 :=
    cov_of_list true sk 0 0 (fun j p hj => by rw [Nat.zero_add, certOfList_at]; exact hj)
  simp only [checkCert, Bool.and_eq_true, beq_iff_eq, List.all_eq_true, List.mem_range]
  refine ⟨hcov.head hpos, ?_⟩
  intro x hx
  obtain ⟨i, hi⟩ := R.lay.get x (Nat.zero_le _) (by have := R.size; omega)
  rw [hi]
  exact R.lay.check R.ok R.phase hcov (Or.inl R.ends) x (Nat.zero_le _) (by have := R.size; omega) i hi

/-- **Every emitted program has a valid phase certificate.** -/
theorem Root.checkCert_ex {r : IR.Regex} {prog : Prog} {sk : Sk} (R : Root r prog sk) :
    ∃ c, checkCert prog c = true :=
  ⟨_, R.checkCert_certs⟩

/-! ## The one-pass certificate `mkCert` is the explicit certificate -/

/-- The state of `mkCertLoop`: direction, phase, stack of pending look-around continuations. -/
abbrev MkSt := Bool × Nat × List (Nat × Bool)

/-- The pending pop at the start of the iteration for address `ip`. -/
def eff (ip : Nat) : MkSt → MkSt
  | (d, k, (cont, od) :: st) => if cont == ip then (od, 0, st) else (d, k, (cont, od) :: st)
  | (d, k, []) => (d, k, [])

/-- The state after the instruction `i` has been processed in the (popped) state `s`. -/
def nxt (i : Option Insn) (s : MkSt) : MkSt :=
  match i with
  | some (.lookahead _ _ _ cont) => (true, 0, (cont, s.1) :: s.2.2)
  | some (.lookbehind _ _ _ cont) => (false, 0, (cont, s.1) :: s.2.2)
  | some (.byteSeq bs) => (s.1, (if s.1 then transF s.2.1 bs else transB s.2.1 bs).getD 0, s.2.2)
  | _ => (s.1, 0, s.2.2)

def push1 (c : Cert) (p : Bool × Nat) : Cert := { dir := c.dir.push p.1, ph := c.ph.push p.2 }
def pushL (c : Cert) (L : List (Bool × Nat)) : Cert := L.foldl push1 c

theorem pushL_cons (c : Cert) (p : Bool × Nat) (L : List (Bool × Nat)) :
    pushL c (p :: L) = pushL (push1 c p) L := rfl
theorem pushL_append (c : Cert) (A B : List (Bool × Nat)) : pushL c (A ++ B) = pushL (pushL c A) B :=
  List.foldl_append
theorem pushL_nil (c : Cert) : pushL c [] = c := rfl

theorem pushL_dir (c : Cert) (L : List (Bool × Nat)) :
    pushL c L = { dir := c.dir ++ (L.map Prod.fst).toArray, ph := c.ph ++ (L.map Prod.snd).toArray } := by
  induction L generalizing c with
  | nil => simp [pushL]
  | cons p L ih =>
    rw [pushL_cons, ih]
    simp [push1]

theorem pushL_empty (L : List (Bool × Nat)) : pushL { dir := #[], ph := #[] } L = certOfList L := by
  rw [pushL_dir]; simp [certOfList]

/-- `mkCertLoop` on a state triple. -/
def mkL (prog : Prog) (l : List Nat) (s : MkSt) (c : Cert) : Cert := mkCertLoop prog l s.1 s.2.1 s.2.2 c

theorem mkL_cons (prog : Prog) (ip : Nat) (rest : List Nat) (raw : MkSt) (c : Cert) :
    mkL prog (ip :: rest) raw c =
      mkL prog rest (nxt prog.insns[ip]? (eff ip raw)) (push1 c ((eff ip raw).1, (eff ip raw).2.1)) := by
  obtain ⟨d, k, stack⟩ := raw
  unfold mkL
  conv => lhs; unfold mkCertLoop
  generalize prog.insns[ip]? = oi
  cases stack with
  | nil =>
    simp only [eff]
    cases oi with
    | none => rfl
    | some i => cases i <;> rfl
  | cons p st =>
    obtain ⟨cont, od⟩ := p
    by_cases hc : (cont == ip) = true
    · simp only [eff, hc, if_true]
      cases oi with
      | none => rfl
      | some i => cases i <;> rfl
    · simp only [eff, hc]
      cases oi with
      | none => rfl
      | some i => cases i <;> rfl

/-- One step at an instruction, given the popped state. -/
theorem mkL_step {prog : Prog} {x : Nat} {i : Insn} {raw s : MkSt} (hi : At prog.insns x i)
    (he : eff x raw = s) (rest : List Nat) (c : Cert) :
    mkL prog (x :: rest) raw c = mkL prog rest (nxt (some i) s) (push1 c (s.1, s.2.1)) := by
  unfold At at hi
  rw [mkL_cons, hi, he]

/-- The top of the stack lies beyond `n`. -/
def StOK (stack : List (Nat × Bool)) (n : Nat) : Prop := ∀ t od st, stack = (t, od) :: st → n < t

theorem eff_clean {stack : List (Nat × Bool)} {n m : Nat} (h : StOK stack n) (hm : m ≤ n) (d : Bool) (k : Nat) :
    eff m (d, k, stack) = (d, k, stack) := by
  cases stack with
  | nil => rfl
  | cons p st =>
    obtain ⟨t, od⟩ := p
    have := h t od st rfl
    simp only [eff]
    rw [if_neg]
    simp only [beq_iff_eq]; omega

theorem StOK.mono {stack : List (Nat × Bool)} {n m : Nat} (h : StOK stack n) (hm : m ≤ n) : StOK stack m :=
  fun t od st e => Nat.lt_of_le_of_lt hm (h t od st e)

theorem nxt_plain {i : Insn} {fwd : Bool} {k k' : Nat} (stack : List (Nat × Bool)) (hp : plain i = true)
    (hph : Sk.phase fwd (.one i) k = some k') : nxt (some i) (fwd, k, stack) = (fwd, k', stack) := by
  cases i <;> simp [plain] at hp <;> simp only [Sk.phase] at hph <;>
    first
    | (split at hph
       · cases hph; rfl
       · cases hph)
    | (simp only [nxt, hph, Option.getD_some])

/-- A run of `ResetCaptureGroup`s. -/
theorem mkL_resets {prog : Prog} {fwd : Bool} {stack : List (Nat × Bool)} : ∀ (cnt b : Nat),
    (∀ i, i < cnt → ∃ g, At prog.insns (b + i) (.resetCaptureGroup g)) → StOK stack (b + cnt) →
    ∀ (rest : List Nat) (c : Cert),
    mkL prog (List.range' b cnt ++ rest) (fwd, 0, stack) c =
      mkL prog rest (fwd, 0, stack) (pushL c (List.replicate cnt (fwd, 0)))
  | 0, _, _, _, _, _ => rfl
  | cnt + 1, b, h, hs, rest, c => by
    obtain ⟨g, hg⟩ := h 0 (by omega)
    rw [Nat.add_zero] at hg
    rw [List.range'_succ, List.cons_append, mkL_step hg (eff_clean hs (by omega) fwd 0)]
    simp only [nxt]
    rw [mkL_resets cnt (b + 1) (fun i hi => by
      obtain ⟨g, hg⟩ := h (i + 1) (by omega)
      exact ⟨g, by rw [show b + 1 + i = b + (i + 1) by omega]; exact hg⟩)
      (hs.mono (by omega)) rest]
    rfl

theorem range'_mid (b m : Nat) : List.range' b (m + 2) = b :: (List.range' (b + 1) m ++ [b + 1 + m]) := by
  rw [show m + 2 = (m + 1) + 1 by omega, List.range'_succ, ← List.range'_append_1]; rfl

theorem range'_alt (b a s : Nat) :
    List.range' b (a + s + 2) = b :: (List.range' (b + 1) a ++ (b + a + 1) :: List.range' (b + a + 2) s) := by
  rw [show a + s + 2 = (a + (s + 1)) + 1 by omega, List.range'_succ, ← List.range'_append_1,
    List.range'_succ, show b + 1 + a = b + a + 1 by omega]

theorem range'_loop (b m cnt : Nat) : List.range' b (m + cnt + 2) =
    b :: (List.range' (b + 1) cnt ++ (List.range' (b + 1 + cnt) m ++ [b + 1 + cnt + m])) := by
  rw [show m + cnt + 2 = (cnt + (m + 1)) + 1 by omega, List.range'_succ, ← List.range'_append_1,
    ← List.range'_append_1]; rfl

/-- **`mkCertLoop` on a laid-out skeleton** entered (after the pending pop) in state
`(fwd, k, stack)`: it pushes exactly the explicit certificate and leaves a state that is
`(fwd, k', stack)` after the pending pop at the exit address. -/
theorem mkL_sk {prog : Prog} {G nb L : Nat} : ∀ (sk : Sk) (b : Nat) (fwd : Bool) (k k' : Nat)
    (stack : List (Nat × Bool)) (raw : MkSt),
    Lay prog.insns sk b → sk.ok G nb L = true → sk.phase fwd k = some k' → StOK stack (b + sk.size) →
    eff b raw = (fwd, k, stack) → ∀ (rest : List Nat) (c : Cert),
    ∃ raw', eff (b + sk.size) raw' = (fwd, k', stack) ∧
      mkL prog (List.range' b sk.size ++ rest) raw c = mkL prog rest raw' (pushL c (sk.certs fwd k))
  | .nil, b, fwd, k, k', stack, raw, _, _, hp, _, he, rest, c => by
    simp only [Sk.phase, Option.some.injEq] at hp
    subst hp
    exact ⟨raw, he, rfl⟩
  | .one i, b, fwd, k, k', stack, raw, h, hok, hp, hs, he, rest, c => by
    simp only [Lay] at h
    simp only [Sk.ok, Bool.and_eq_true] at hok
    simp only [Sk.size] at hs ⊢
    refine ⟨(fwd, k', stack), eff_clean hs (Nat.le_refl _) fwd k', ?_⟩
    rw [show List.range' b 1 = [b] from rfl, List.cons_append, List.nil_append, mkL_step h he,
      nxt_plain stack hok.1 hp]
    rfl
  | .seq a s, b, fwd, k, k', stack, raw, h, hok, hp, hs, he, rest, c => by
    simp only [Lay] at h
    simp only [Sk.ok, Bool.and_eq_true] at hok
    simp only [Sk.size] at hs ⊢
    simp only [Sk.phase] at hp
    cases hpa : a.phase fwd k with
    | none => rw [hpa] at hp; cases hp
    | some ka =>
      rw [hpa] at hp
      simp only at hp
      obtain ⟨raw1, e1, q1⟩ := mkL_sk a b fwd k ka stack raw h.1 hok.1 hpa (hs.mono (by omega)) he
        (List.range' (b + a.size) s.size ++ rest) c
      obtain ⟨raw2, e2, q2⟩ := mkL_sk s (b + a.size) fwd ka k' stack raw1 h.2 hok.2 hp
        (hs.mono (by omega)) e1 rest (pushL c (a.certs fwd k))
      refine ⟨raw2, by rw [← Nat.add_assoc]; exact e2, ?_⟩
      rw [← List.range'_append_1, List.append_assoc, q1, q2]
      simp only [Sk.certs, hpa, Option.getD_some, pushL_append]
  | .alt a s, b, fwd, k, k', stack, raw, h, hok, hp, hs, he, rest, c => by
    simp only [Lay] at h
    simp only [Sk.ok, Bool.and_eq_true] at hok
    simp only [Sk.size] at hs ⊢
    simp only [Sk.phase] at hp
    obtain ⟨h0, ha, hj, hs'⟩ := h
    split at hp
    · rename_i hk
      obtain ⟨rfl, hpa, hps⟩ := hk
      cases hp
      obtain ⟨raw1, e1, q1⟩ := mkL_sk a (b + 1) fwd 0 0 stack (fwd, 0, stack) ha hok.1 hpa
        (hs.mono (by omega)) (eff_clean hs (by omega) fwd 0)
        ((b + a.size + 1) :: (List.range' (b + a.size + 2) s.size ++ rest)) (push1 c (fwd, 0))
      obtain ⟨raw2, e2, q2⟩ := mkL_sk s (b + a.size + 2) fwd 0 0 stack (fwd, 0, stack) hs' hok.2 hps
        (hs.mono (by omega)) (eff_clean hs (by omega) fwd 0) rest
        (push1 (pushL (push1 c (fwd, 0)) (a.certs fwd 0)) (fwd, 0))
      refine ⟨raw2, by rw [show b + (a.size + s.size + 2) = b + a.size + 2 + s.size by omega]; exact e2, ?_⟩
      rw [show b + 1 + a.size = b + a.size + 1 by omega] at e1
      rw [range'_alt, List.cons_append, List.append_assoc, List.cons_append, mkL_step h0 he]
      simp only [nxt]
      rw [q1, mkL_step hj e1]
      simp only [nxt]
      rw [q2]
      simp only [Sk.certs, pushL_cons, pushL_append]
    · cases hp
  | .loop id mn mx gr g0 cnt body, b, fwd, k, k', stack, raw, h, hok, hp, hs, he, rest, c => by
    simp only [Lay] at h
    simp only [Sk.ok, Bool.and_eq_true] at hok
    simp only [Sk.size] at hs ⊢
    simp only [Sk.phase] at hp
    obtain ⟨h0, hr, hb, hl⟩ := h
    split at hp
    · rename_i hk
      obtain ⟨rfl, hpb⟩ := hk
      cases hp
      obtain ⟨raw1, e1, q1⟩ := mkL_sk body (b + 1 + cnt) fwd 0 0 stack (fwd, 0, stack) hb hok.2 hpb
        (hs.mono (by omega)) (eff_clean hs (by omega) fwd 0)
        ([b + 1 + cnt + body.size] ++ rest) (pushL (push1 c (fwd, 0)) (List.replicate cnt (fwd, 0)))
      refine ⟨(fwd, 0, stack), eff_clean hs (Nat.le_refl _) fwd 0, ?_⟩
      rw [range'_loop, List.cons_append, List.append_assoc, List.append_assoc, mkL_step h0 he]
      simp only [nxt]
      rw [mkL_resets cnt (b + 1) (fun i hi => ⟨_, hr i hi⟩) (hs.mono (by omega)), q1,
        List.cons_append, List.nil_append, mkL_step hl e1]
      simp only [nxt, Sk.certs, pushL_cons, pushL_append, pushL_nil]
    · cases hp
  | .loop1 mn mx gr body, b, fwd, k, k', stack, raw, h, hok, hp, hs, he, rest, c => by
    simp only [Lay] at h
    simp only [Sk.ok, Bool.and_eq_true] at hok
    simp only [Sk.size] at hs ⊢
    have hp' : k = 0 ∧ Sk.phase fwd (.one body) 0 = some 0 ∧ k' = 0 := by
      simp only [Sk.phase] at hp
      split at hp
      · rename_i hk; cases hp; exact ⟨hk.1, hk.2, rfl⟩
      · cases hp
    obtain ⟨rfl, hpb, rfl⟩ := hp'
    refine ⟨(fwd, 0, stack), eff_clean hs (Nat.le_refl _) fwd 0, ?_⟩
    rw [show List.range' b 2 = [b, b + 1] from rfl, List.cons_append, List.cons_append, List.nil_append,
      mkL_step h.1 he]
    simp only [nxt]
    rw [mkL_step h.2 (eff_clean hs (by omega) fwd 0), nxt_plain stack hok.1.1.1.2 hpb]
    rfl
  | .group g body, b, fwd, k, k', stack, raw, h, hok, hp, hs, he, rest, c => by
    simp only [Lay] at h
    simp only [Sk.ok, Bool.and_eq_true] at hok
    simp only [Sk.size] at hs ⊢
    simp only [Sk.phase] at hp
    obtain ⟨h0, hb, hl⟩ := h
    split at hp
    · rename_i hk
      obtain ⟨rfl, hpb⟩ := hk
      cases hp
      obtain ⟨raw1, e1, q1⟩ := mkL_sk body (b + 1) fwd 0 0 stack (fwd, 0, stack) hb hok.2 hpb
        (hs.mono (by omega)) (eff_clean hs (by omega) fwd 0)
        ([b + 1 + body.size] ++ rest) (push1 c (fwd, 0))
      refine ⟨(fwd, 0, stack), eff_clean hs (Nat.le_refl _) fwd 0, ?_⟩
      rw [range'_mid, List.cons_append, List.append_assoc, mkL_step h0 he]
      simp only [nxt]
      rw [q1, List.cons_append, List.nil_append, mkL_step hl e1]
      simp only [nxt, Sk.certs, pushL_cons, pushL_append, pushL_nil]
    · cases hp
  | .look neg bw sg eg body, b, fwd, k, k', stack, raw, h, hok, hp, hs, he, rest, c => by
    simp only [Lay] at h
    simp only [Sk.ok, Bool.and_eq_true] at hok
    simp only [Sk.size] at hs ⊢
    simp only [Sk.phase] at hp
    obtain ⟨h0, hb, hl⟩ := h
    split at hp
    · rename_i hk
      obtain ⟨rfl, hpb⟩ := hk
      cases hp
      have hs1 : StOK ((b + body.size + 2, fwd) :: stack) (b + 1 + body.size) := by
        intro t od st e; cases e; omega
      obtain ⟨raw1, e1, q1⟩ := mkL_sk body (b + 1) (!bw) 0 0 ((b + body.size + 2, fwd) :: stack)
        (!bw, 0, (b + body.size + 2, fwd) :: stack) hb hok.2 hpb
        hs1 (eff_clean hs1 (by omega) (!bw) 0)
        ([b + 1 + body.size] ++ rest) (push1 c (fwd, 0))
      refine ⟨(!bw, 0, (b + body.size + 2, fwd) :: stack), ?_, ?_⟩
      · simp only [eff]
        rw [if_pos]
        simp only [beq_iff_eq]; omega
      · have hn : nxt (some (lookI neg bw sg eg (b + body.size + 2))) (fwd, 0, stack) =
            (!bw, 0, (b + body.size + 2, fwd) :: stack) := by cases bw <;> rfl
        rw [range'_mid, List.cons_append, List.append_assoc, mkL_step h0 he, hn, q1,
          List.cons_append, List.nil_append, mkL_step hl e1]
        simp only [nxt, Sk.certs, pushL_cons, pushL_append, pushL_nil]
    · cases hp

/-- On an emitted program the one-pass certificate is the explicit certificate of the root. -/
theorem Root.mkCert_eq {r : IR.Regex} {prog : Prog} {sk : Sk} (R : Root r prog sk) :
    mkCert prog = certOfList (sk.certs true 0) := by
  have hs : StOK [] (0 + sk.size) := fun _ _ _ e => by cases e
  obtain ⟨raw', _, q⟩ := mkL_sk sk 0 true 0 0 [] (true, 0, []) R.lay R.ok R.phase hs rfl []
    { dir := #[], ph := #[] }
  unfold mkCert
  rw [R.size, List.range_eq_range']
  rw [List.append_nil] at q
  have q' : mkCertLoop prog (List.range' 0 sk.size) true 0 [] { dir := #[], ph := #[] } =
      mkL prog [] raw' (pushL { dir := #[], ph := #[] } (sk.certs true 0)) := q
  rw [q', pushL_empty]
  rfl

/-- **The canonical certificate of every emitted program is valid** (the Stage 3 hypothesis of C06,
exactly as stated there). -/
theorem Root.checkCert_mk {r : IR.Regex} {prog : Prog} {sk : Sk} (R : Root r prog sk) :
    checkCert prog (mkCert prog) = true := by
  rw [R.mkCert_eq]; exact R.checkCert_certs

/-- **`emit_checkCert_mk`.** The phase certificate computed by `mkCert` validates on every program
`emit` produces from a well-formed IR tree satisfying the IR-level side conditions. -/
theorem emit_checkCert_mk {r : IR.Regex} {prog : Prog} (he : VM.emit r = .ok prog) (hw : IR.WF r.node)
    (hng : IR.numGroups r.node ≤ 65535) (hnl : numLoops r.node ≤ 65535)
    (hir : irOK r.node = true) : checkCert prog (mkCert prog) = true := by
  obtain ⟨sk, R⟩ := emit_root he hw hng hnl hir
  exact R.checkCert_mk

/-! ## Non-vacuity

The skeleton of `Proofs/C06.lean`'s `exProg3` (shortened chunks): an alternation whose first branch
splits the literal `a€` inside `€` (`…e2 | 82 ac`), and whose second branch has a look-behind with the
literal `zé` split inside `é` (chunks in reverse order), followed by `q\b`. -/

def phExSk : Sk :=
  .seq (.alt (.seq (.one (.byteSeq [0x61, 0xe2])) (.one (.byteSeq [0x82, 0xac])))
      (.seq (.look false true 0 0 (.seq (.one (.byteSeq [0xa9])) (.one (.byteSeq [0x7a, 0xc3]))))
        (.seq (.one (.byteSeq [0x71])) (.one (.wordBoundary false)))))
    (.one .goal)

def phExProg : Prog :=
  { insns := #[.alt 4, .byteSeq [0x61, 0xe2], .byteSeq [0x82, 0xac], .jump 10,
      .lookbehind false 0 0 8, .byteSeq [0xa9], .byteSeq [0x7a, 0xc3], .goal,
      .byteSeq [0x71], .wordBoundary false, .goal],
    brackets := #[], loops := 0, groups := 0, flags := {  }, names := [], startPred := .arbitrary }

example : Lay phExProg.insns phExSk 0 := by
  simp only [Lay, phExSk, Sk.size, lookI, At]
  decide

example : phExSk.phase true 0 = some 0 := by
  simp only [phExSk, Sk.phase]
  decide

theorem phExSk_certs : phExSk.certs true 0 = [(true, 0), (true, 0), (true, 2), (true, 0), (true, 0),
    (false, 0), (false, 1), (false, 0), (true, 0), (true, 0), (true, 0)] := by
  simp only [phExSk, Sk.certs, Sk.phase]
  decide

example : phExSk.ok 0 0 0 = true ∧ phExSk.endsPlain = true := by decide

example : mkCert phExProg = certOfList (phExSk.certs true 0) ∧ checkCert phExProg (mkCert phExProg) = true := by
  rw [phExSk_certs]; decide +kernel

end Regress.Certs
