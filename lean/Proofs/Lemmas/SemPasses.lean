import Proofs.Lemmas.SemWalk
/-!
# The optimizer passes, node by node: helper lemmas for `Proofs/C03.lean`
-/
namespace Regress.IR

open Regress.VM

/-! ## Lists -/

theorem WFList_append (xs ys : List Node) : WFList (xs ++ ys) ↔ WFList xs ∧ WFList ys := by
  induction xs with
  | nil => simp [WFList]
  | cons x xs ih => simp only [List.cons_append, WFList, ih, and_assoc]

theorem numGroupsList_append (xs ys : List Node) :
    numGroupsList (xs ++ ys) = numGroupsList xs + numGroupsList ys := by
  induction xs with
  | nil => simp [numGroupsList]
  | cons x xs ih => simp only [List.cons_append, numGroupsList, ih]; omega

theorem WFList_iff (ns : List Node) : WFList ns ↔ ∀ n ∈ ns, WF n := by
  induction ns with
  | nil => simp [WFList]
  | cons x xs ih => simp [WFList, ih]

/-- Build a `PassOK` conclusion from an equality of success lists. -/
theorem passOK_of_eq {I : StInv} {inp : Input} {fwd : Bool} {n n' : Node} (h1 : WF n') (h2 : numGroups n' = numGroups n)
    (h3 : ∀ st, sem inp n fwd st = sem inp n' fwd st) :
    WF n' ∧ numGroups n' = numGroups n ∧ NodeEq I inp fwd n n' := ⟨h1, h2, NodeEq.of_eq h3⟩

/-! ## `decat` -/

theorem decatLoop_sem (inp : Input) (fwd : Bool) (rest : List Node) :
    ∀ (acc : List Node) (st : St), semCat inp (decatLoop rest acc) fwd st =
      (semCat inp acc fwd st).flatMap (fun s => semCat inp rest fwd s) := by
  induction rest with
  | nil => intro acc st; simp [decatLoop, semCat]
  | cons x rest ih =>
    intro acc st
    have hgen : semCat inp (decatLoop rest (acc ++ [x])) fwd st =
        (semCat inp acc fwd st).flatMap (fun s => semCat inp (x :: rest) fwd s) := by
      rw [ih, semCat_append, List.flatMap_assoc]
      congr 1; funext s
      rw [semCat_singleton, semCat_cons]
    cases x <;> first
      | (simpa [decatLoop] using hgen)
      | (simp only [decatLoop]
         rw [ih, semCat_append, List.flatMap_assoc]
         congr 1)

theorem decatLoop_wf (rest : List Node) : ∀ acc, WFList acc → WFList rest → WFList (decatLoop rest acc) := by
  induction rest with
  | nil => intro acc h _; simpa [decatLoop] using h
  | cons x rest ih =>
    intro acc ha hr
    simp only [WFList] at hr
    have hgen : WFList (decatLoop rest (acc ++ [x])) :=
      ih _ ((WFList_append _ _).2 ⟨ha, by simp [WFList, hr.1]⟩) hr.2
    cases x <;> try (simpa [decatLoop] using hgen)
    case cat nn =>
      simp only [decatLoop]
      exact ih _ ((WFList_append _ _).2 ⟨ha, by simpa [WF] using hr.1⟩) hr.2

theorem decatLoop_groups (rest : List Node) :
    ∀ acc, numGroupsList (decatLoop rest acc) = numGroupsList acc + numGroupsList rest := by
  induction rest with
  | nil => intro acc; simp [decatLoop, numGroupsList]
  | cons x rest ih =>
    intro acc
    have hgen : numGroupsList (decatLoop rest (acc ++ [x])) = numGroupsList acc + numGroupsList (x :: rest) := by
      rw [ih, numGroupsList_append]; simp [numGroupsList]; omega
    cases x <;> try (simpa [decatLoop] using hgen)
    case cat nn =>
      simp only [decatLoop]
      rw [ih, numGroupsList_append]; simp [numGroupsList, numGroups]; omega

theorem decat_ok (I : StInv) (inp : Input) : PassOK I inp decat := by
  intro n w a hw h
  unfold decat at h
  split at h
  · rename_i nodes
    split at h
    · cases h
      exact passOK_of_eq (by simp [PassAction.result, WF]) (by simp [PassAction.result, numGroups, numGroupsList])
        (by intro st; simp [PassAction.result, sem, semCat])
    · rename_i x
      cases h
      simp only [WF, WFList] at hw
      exact passOK_of_eq hw.1 (by simp [PassAction.result, numGroups, numGroupsList])
        (by intro st; simp only [PassAction.result, sem, semCat_singleton])
    · split at h
      · cases h
        simp only [WF] at hw
        refine passOK_of_eq ?_ ?_ ?_
        · simp only [PassAction.result, WF]; exact decatLoop_wf _ _ trivial hw
        · simp [PassAction.result, numGroups, decatLoop_groups, numGroupsList]
        · intro st; simp [PassAction.result, sem, decatLoop_sem, semCat]
      · cases h; exact ⟨hw, rfl, NodeEq.refl _ _ _ _⟩
  · cases h; exact ⟨hw, rfl, NodeEq.refl _ _ _ _⟩

/-! ## `remove_empties` -/

theorem filter_nonempty_sem (inp : Input) (fwd : Bool) (ns : List Node) (st : St) :
    semCat inp (ns.filter (fun nn => !nn.isEmpty)) fwd st = semCat inp ns fwd st := by
  induction ns generalizing st with
  | nil => rfl
  | cons x xs ih =>
    rw [List.filter_cons]
    by_cases hx : x.isEmpty = true
    · have : x = .empty := by cases x <;> simp_all [Node.isEmpty]
      subst this
      simp only [hx, Bool.not_true, Bool.false_eq_true, if_false, semCat_cons, sem_empty, List.flatMap_cons,
        List.flatMap_nil, List.append_nil, ih]
    · have hx' : x.isEmpty = false := by simpa using hx
      simp only [hx', Bool.not_false, if_true, semCat_cons]
      congr 1; funext s; exact ih s

theorem isEmpty_groups {x : Node} (h : x.isEmpty = true) : numGroups x = 0 := by
  cases x <;> simp_all [Node.isEmpty, numGroups]

theorem filter_nonempty_wf (ns : List Node) (h : WFList ns) : WFList (ns.filter (fun nn => !nn.isEmpty)) := by
  rw [WFList_iff] at *
  intro n hn
  exact h n (List.mem_filter.1 hn).1

theorem filter_nonempty_groups (ns : List Node) :
    numGroupsList (ns.filter (fun nn => !nn.isEmpty)) = numGroupsList ns := by
  induction ns with
  | nil => rfl
  | cons x xs ih =>
    rw [List.filter_cons]
    by_cases hx : x.isEmpty = true
    · simp only [hx, Bool.not_true, Bool.false_eq_true, if_false, numGroupsList, isEmpty_groups hx, ih]; omega
    · simp only [Bool.not_eq_true] at hx
      simp only [hx, Bool.not_false, if_true, numGroupsList, ih]

theorem maxOk_of_lt_min {q : Quant} (hq : quantOk q = true) {iter : Nat} (h : iter < q.min) : maxOk q iter = true := by
  unfold quantOk at hq; unfold maxOk
  split <;> simp_all
  omega

/-- A loop whose body is `Empty` (and that resets no group) matches the empty string once. -/
theorem loopIter_id (q : Quant) (g0 g1 : Nat) (hq : quantOk q = true) (hg : g1 ≤ g0) :
    ∀ d k iter entry st, q.min - iter = d → iter ≤ q.min → d + 1 ≤ k →
      loopIter (fun s => [s]) q g0 g1 k iter entry st = [st] := by
  intro d
  induction d with
  | zero =>
    intro k iter entry st hd hle hk
    have hi : iter = q.min := by omega
    obtain ⟨k', rfl⟩ : ∃ k', k = k' + 1 := ⟨k - 1, by omega⟩
    have hng : ¬ (iter > q.min) := by omega
    simp only [loopIter, hng, decide_false, Bool.and_false, St.resetGroups_noop _ _ _ hg]
    have hge : decide (iter ≥ q.min) = true := by simp; omega
    rw [hge]
    have hst : loopIter (fun s => [s]) q g0 g1 k' (iter + 1) st.pos st = [] :=
      loopIter_stuck _ _ _ _ _ _ _ (by omega)
    cases maxOk q iter <;> cases q.greedy <;> simp [hst]
  | succ d ih =>
    intro k iter entry st hd hle hk
    obtain ⟨k', rfl⟩ : ∃ k', k = k' + 1 := ⟨k - 1, by omega⟩
    have hlt : iter < q.min := by omega
    have hng : ¬ (iter > q.min) := by omega
    have hge : decide (iter ≥ q.min) = false := by simp; omega
    simp only [loopIter, hng, decide_false, Bool.and_false, St.resetGroups_noop _ _ _ hg, hge,
      maxOk_of_lt_min hq hlt]
    simp [ih k' (iter + 1) st.pos st (by omega) (by omega) (by omega)]

theorem sem_loop_empty (inp : Input) (q : Quant) (g0 g1 : Nat) (fwd : Bool) (st : St)
    (hq : quantOk q = true) (hg : g1 ≤ g0) : sem inp (.loop .empty q g0 g1) fwd st = [st] := by
  simp only [sem]
  exact loopIter_id q g0 g1 hq hg _ _ 0 0 st rfl (Nat.zero_le _) (by unfold loopBudget; omega)

theorem sem_loop_max0 (inp : Input) (b : Node) (q : Quant) (g0 g1 : Nat) (fwd : Bool) (st : St)
    (hq : quantOk q = true) (hm : q.max = some 0) : sem inp (.loop b q g0 g1) fwd st = [st] := by
  have hmin : q.min = 0 := by unfold quantOk at hq; rw [hm] at hq; simpa using hq
  simp only [sem, loopBudget]
  rw [show q.min + mu inp fwd st.pos + 2 = (q.min + mu inp fwd st.pos + 1) + 1 from rfl]
  simp [loopIter, maxOk, hm, hmin]

theorem removeEmpties_ok (I : StInv) (inp : Input) : PassOK I inp removeEmpties := by
  intro n w a hw h
  have keep : WF (PassAction.keep.result n) ∧ numGroups (PassAction.keep.result n) = numGroups n ∧
      NodeEq I inp (!w.inLookbehind) n (PassAction.keep.result n) := ⟨hw, rfl, NodeEq.refl _ _ _ _⟩
  unfold removeEmpties at h
  split at h
  all_goals try (cases h; exact keep)
  · -- ByteSequence
    rename_i v
    split at h
    · cases h
      have hv : v = [] := by simpa using ‹v.isEmpty = true›
      subst hv
      exact passOK_of_eq trivial rfl (by intro st; simp [PassAction.result, sem, matchBytes_nil, optSt])
    · cases h; exact keep
  · -- Cat
    rename_i nodes
    simp only [WF] at hw
    dsimp only at h
    split at h
    · cases h; exact keep
    · split at h
      · rename_i heq
        cases h
        refine passOK_of_eq trivial ?_ ?_
        · simp only [PassAction.result, numGroups]; rw [← filter_nonempty_groups, heq]; rfl
        · intro st; simp only [PassAction.result, sem]; rw [← filter_nonempty_sem, heq]; rfl
      · rename_i x heq
        cases h
        have hwf := filter_nonempty_wf nodes hw
        rw [heq] at hwf
        refine passOK_of_eq hwf.1 ?_ ?_
        · simp only [PassAction.result, numGroups]; rw [← filter_nonempty_groups, heq]; simp [numGroupsList]
        · intro st; simp only [PassAction.result, sem]; rw [← filter_nonempty_sem, heq, semCat_singleton]
      · cases h
        refine passOK_of_eq ?_ ?_ ?_
        · simp only [PassAction.result, WF]; exact filter_nonempty_wf nodes hw
        · simp only [PassAction.result, numGroups]; exact filter_nonempty_groups nodes
        · intro st; simp only [PassAction.result, sem]; exact (filter_nonempty_sem inp _ nodes st).symm
  · -- Alt
    rename_i left right
    split at h
    · rename_i hc
      cases h
      have hl : left = .empty := by cases left <;> simp_all [Node.isEmpty]
      have hr : right = .empty := by cases right <;> simp_all [Node.isEmpty]
      subst hl; subst hr
      refine ⟨trivial, rfl, ?_⟩
      intro st _
      simp only [PassAction.result, sem, List.cons_append, List.nil_append]
      exact ObsEq.dup st
    · cases h; exact keep
  · -- Loop
    rename_i loopee quant g0 g1
    simp only [WF] at hw
    split at h
    · rename_i hc
      cases h
      simp only [Bool.or_eq_true, Bool.and_eq_true, beq_iff_eq] at hc
      rcases hc with hc | ⟨hmax, hg⟩
      · have hl : loopee = .empty := by cases loopee <;> simp_all [Node.isEmpty]
        subst hl
        have hg : g1 ≤ g0 := hw.2.2.1 rfl
        exact passOK_of_eq trivial rfl (by intro st; rw [sem_loop_empty inp quant g0 g1 _ st hw.2.1 hg]; simp [PassAction.result, sem])
      · have hg' : g1 ≤ g0 := by omega
        refine passOK_of_eq trivial ?_ ?_
        · simp only [PassAction.result, numGroups]; exact (hw.2.2.2 hg').symm
        · intro st; rw [sem_loop_max0 inp loopee quant g0 g1 _ st hw.2.1 hmax]; simp [PassAction.result, sem]
    · cases h; exact keep
  · -- Lookaround
    rename_i negate b sg eg contents
    split at h
    · rename_i hc
      cases h
      simp only [Bool.and_eq_true, Bool.not_eq_true'] at hc
      have hl : contents = .empty := by cases contents <;> simp_all [Node.isEmpty]
      subst hl
      rw [hc.1]
      exact passOK_of_eq trivial rfl (by intro st; simp [PassAction.result, sem])
    · cases h; exact keep

/-! ## `propagate_early_fails` -/

theorem optSt_none (st : St) : optSt st none = [] := rfl

/-- A node for which `match_always_fails` holds has no success. -/
theorem alwaysFails_sem {inp : Input} (hin : InputOK inp) {n : Node} (h : n.matchAlwaysFails = true)
    (fwd : Bool) (st : St) : sem inp n fwd st = [] := by
  cases n <;> simp only [Node.matchAlwaysFails] at h <;> try (cases h; done)
  case byteSet bs =>
    have : bs = [] := by simpa using h
    subst this
    simp only [sem]; rw [byteStep_false _ _ _ _ (by simp)]; rfl
  case charSet cs =>
    have : cs = [] := by simpa using h
    subst this
    simp only [sem]; rw [charStep_false _ _ _ _ (by simp [charsetContains])]; rfl
  case bracket bc =>
    simp only [sem]
    cases ho : charStep inp fwd st.pos (bracketTest { invert := bc.invert, ivs := bc.ivs }) with
    | none => rfl
    | some p =>
      exfalso
      obtain ⟨c, hc, ht⟩ := charStep_elem ho
      have hle := (cursor_next_spec hc).2 hin
      unfold Bracket.isEmpty at h
      unfold bracketTest at ht
      cases hinv : bc.invert with
      | false =>
        simp only [hinv] at h ht
        have : bc.ivs = [] := by simpa using h
        simp [this] at ht
      | true =>
        simp only [hinv] at h ht
        unfold ivsContainsAll at h
        split at h
        · rename_i iv heq
          simp only [Bool.and_eq_true, beq_iff_eq] at h
          simp [heq, h.1, h.2, Regress.CODE_POINT_MAX] at ht
          omega
        · cases h

theorem alwaysFails_groups {n : Node} (h : n.matchAlwaysFails = true) : numGroups n = 0 := by
  cases n <;> simp_all [Node.matchAlwaysFails, numGroups]

theorem semCat_fails {inp : Input} {fwd : Bool} (ns : List Node)
    (h : ∃ n ∈ ns, ∀ st, sem inp n fwd st = []) (st : St) : semCat inp ns fwd st = [] := by
  induction ns generalizing st with
  | nil => obtain ⟨n, hn, _⟩ := h; simp at hn
  | cons x xs ih =>
    obtain ⟨n, hn, hf⟩ := h
    rw [semCat_cons]
    rcases List.mem_cons.1 hn with rfl | hn
    · rw [hf]; rfl
    · rw [List.flatMap_eq_nil_iff]
      intro s _
      exact ih ⟨n, hn, hf⟩ s

mutual
theorem noGroups_of_contains (n : Node) (hw : WF n) (h : containsCaptureGroups n = false) : numGroups n = 0 :=
  match n, hw, h with
  | .group _ _ _, _, h => by simp [containsCaptureGroups] at h
  | .cat ns, hw, h => by
    simp only [containsCaptureGroups] at h; simp only [WF] at hw
    simp only [numGroups]; exact noGroups_of_containsList ns hw h
  | .alt l r, hw, h => by
    simp only [containsCaptureGroups, Bool.or_eq_false_iff] at h; simp only [WF] at hw
    simp only [numGroups, noGroups_of_contains l hw.1 h.1, noGroups_of_contains r hw.2 h.2]
  | .loop b _ _ _, hw, h => by
    simp only [containsCaptureGroups] at h; simp only [WF] at hw
    simp only [numGroups, noGroups_of_contains b hw.1 h]
  | .look _ _ _ _ c, hw, h => by
    simp only [containsCaptureGroups] at h; simp only [WF] at hw
    simp only [numGroups, noGroups_of_contains c hw h]
  | .loop1 b _, hw, _ => by simp only [WF] at hw; simp only [numGroups, hw.2.2]
  | .empty, _, _ => rfl
  | .goal, _, _ => rfl
  | .char _, _, _ => rfl
  | .byteSeq _, _, _ => rfl
  | .byteSet _, _, _ => rfl
  | .charSet _, _, _ => rfl
  | .matchAny, _, _ => rfl
  | .matchAnyExceptLT, _, _ => rfl
  | .anchor _ _, _, _ => rfl
  | .wordBoundary _ _, _, _ => rfl
  | .backRef _ _, _, _ => rfl
  | .bracket _, _, _ => rfl
  | .stringSet _ _, _, _ => rfl
theorem noGroups_of_containsList (ns : List Node) (hw : WFList ns) (h : anyContainsCaptureGroups ns = false) :
    numGroupsList ns = 0 :=
  match ns, hw, h with
  | [], _, _ => rfl
  | n :: ns, hw, h => by
    simp only [anyContainsCaptureGroups, Bool.or_eq_false_iff] at h; simp only [WFList] at hw
    simp only [numGroupsList, noGroups_of_contains n hw.1 h.1, noGroups_of_containsList ns hw.2 h.2]
end

theorem sem_alwaysFails_node (inp : Input) (fwd : Bool) (st : St) : sem inp makeAlwaysFails fwd st = [] := by
  simp only [makeAlwaysFails, sem]; rw [charStep_false _ _ _ _ (by simp [charsetContains])]; rfl

theorem propagateEarlyFails_ok (I : StInv) {inp : Input} (hin : InputOK inp) : PassOK I inp propagateEarlyFails := by
  intro n w a hw h
  have keep : WF (PassAction.keep.result n) ∧ numGroups (PassAction.keep.result n) = numGroups n ∧
      NodeEq I inp (!w.inLookbehind) n (PassAction.keep.result n) := ⟨hw, rfl, NodeEq.refl _ _ _ _⟩
  unfold propagateEarlyFails at h
  split at h
  · cases h; exact keep
  · rename_i hcc
    have hng : numGroups n = 0 := noGroups_of_contains n hw (by simpa using hcc)
    have fails : (∀ st, sem inp n (!w.inLookbehind) st = []) →
        WF (PassAction.result (.replace makeAlwaysFails) n) ∧
          numGroups (PassAction.result (.replace makeAlwaysFails) n) = numGroups n ∧
          NodeEq I inp (!w.inLookbehind) n (PassAction.result (.replace makeAlwaysFails) n) := by
      intro hf
      refine passOK_of_eq (by simp [PassAction.result, makeAlwaysFails, WF]) (by simp [PassAction.result, makeAlwaysFails, numGroups, hng]) ?_
      intro st; rw [hf]; simp only [PassAction.result]; exact (sem_alwaysFails_node _ _ _).symm
    split at h
    · -- Cat
      rename_i nodes
      split at h
      · rename_i hany
        cases h
        apply fails
        intro st
        simp only [sem]
        obtain ⟨x, hx, hxf⟩ := List.any_eq_true.1 hany
        exact semCat_fails nodes ⟨x, hx, fun st => alwaysFails_sem hin hxf _ st⟩ st
      · cases h; exact keep
    · -- Alt
      rename_i left right
      simp only [WF] at hw
      simp only [numGroups] at hng
      dsimp only at h
      split at h
      · rename_i hl hr
        cases h
        apply fails
        intro st
        simp only [sem, alwaysFails_sem hin hl, alwaysFails_sem hin hr, List.append_nil]
      · cases h; exact keep
      · rename_i hl hr
        cases h
        refine passOK_of_eq hw.2 (by simp [PassAction.result, numGroups, alwaysFails_groups hl]) ?_
        intro st
        simp only [PassAction.result, sem, alwaysFails_sem hin hl, List.nil_append]
      · rename_i hl hr
        cases h
        refine passOK_of_eq hw.1 (by simp [PassAction.result, numGroups, alwaysFails_groups hr]) ?_
        intro st
        simp only [PassAction.result, sem, alwaysFails_sem hin hr, List.append_nil]
    · -- Loop
      rename_i loopee quant g0 g1
      split at h
      · cases h; exact keep
      · split at h
        · rename_i hc
          cases h
          simp only [Bool.and_eq_true, decide_eq_true_eq] at hc
          apply fails
          intro st
          simp only [sem, loopBudget]
          rw [show quant.min + mu inp (!w.inLookbehind) st.pos + 2 = (quant.min + mu inp (!w.inLookbehind) st.pos + 1) + 1 from rfl]
          have hge : decide (0 ≥ quant.min) = false := by simp; omega
          simp only [loopIter, hge, alwaysFails_sem hin hc.2, List.flatMap_nil]
          have : ¬ (0 > quant.min) := by omega
          simp [this]
          cases maxOk quant 0 <;> rfl
        · cases h; exact keep
    · cases h; exact keep

/-! ## `simplify_brackets` -/

theorem charsetContains_foldl (cs : List Nat) (c : Nat) (acc : Bool) :
    cs.foldl (fun r v => r || v == c) acc = (acc || decide (c ∈ cs)) := by
  induction cs generalizing acc with
  | nil => simp
  | cons x xs ih =>
    simp only [List.foldl_cons, ih, List.mem_cons]
    by_cases h : x = c
    · subst h; simp
    · have : ¬ c = x := fun e => h e.symm
      have hb : (x == c) = false := by simpa using h
      simp [this, hb]

theorem charsetContains_eq (cs : List Nat) (c : Nat) : charsetContains cs c = decide (c ∈ cs) := by
  simp [charsetContains, charsetContains_foldl]

theorem mem_ivCodepoints (iv : Nat × Nat) (c : Nat) : c ∈ ivCodepoints iv ↔ iv.1 ≤ c ∧ c ≤ iv.2 := by
  simp only [ivCodepoints, List.mem_range'_1]; omega

theorem any_iff_mem (ivs : List (Nat × Nat)) (c : Nat) :
    (ivs.any (fun iv => decide (iv.1 ≤ c) && decide (c ≤ iv.2))) = true ↔ CPS.mem (toIvList ivs) c := by
  simp only [List.any_eq_true, Bool.and_eq_true, decide_eq_true_eq, CPS.mem, toIvList, List.mem_map]
  constructor
  · rintro ⟨iv, hm, h1, h2⟩; exact ⟨⟨iv.1, iv.2⟩, ⟨iv, hm, rfl⟩, h1, h2⟩
  · rintro ⟨iv, ⟨iv', hm, rfl⟩, h1, h2⟩; exact ⟨iv', hm, h1, h2⟩

theorem toIvList_ofIvList (x : CPS.IvList) : toIvList (ofIvList x) = x := by
  simp [toIvList, ofIvList, List.map_map, Function.comp_def]

/-- `charStep` only applies its test to code points. -/
theorem charStep_congr {inp : Input} (hin : InputOK inp) (fwd : Bool) (pos : Nat) (t t' : Nat → Bool)
    (h : ∀ c, c ≤ 0x10FFFF → t c = t' c) : charStep inp fwd pos t = charStep inp fwd pos t' := by
  unfold charStep
  split
  · rename_i c pos' heq
    rw [h c ((cursor_next_spec heq).2 hin)]
  · rfl

theorem bracketTest_reduce (ivs : List (Nat × Nat)) (c : Nat) :
    bracketTest { invert := false, ivs := ivs } c = charsetContains (ivs.flatMap ivCodepoints) c := by
  rw [charsetContains_eq]
  unfold bracketTest
  have : (ivs.any (fun iv => decide (iv.1 ≤ c) && decide (c ≤ iv.2))) = decide (c ∈ ivs.flatMap ivCodepoints) := by
    rw [Bool.eq_iff_iff]
    simp only [List.any_eq_true, Bool.and_eq_true, decide_eq_true_eq, List.mem_flatMap, mem_ivCodepoints]
  simp only [this]
  cases decide (c ∈ ivs.flatMap ivCodepoints) <;> rfl

theorem bracketTest_inverted {ivs : List (Nat × Nat)} (hw : CPS.WF (toIvList ivs)) (inv : Bool) {c : Nat}
    (hc : c ≤ 0x10FFFF) :
    bracketTest { invert := inv, ivs := ivs } c =
      bracketTest { invert := !inv, ivs := ofIvList (CPS.inverted (toIvList ivs)) } c := by
  unfold bracketTest
  have h1 := any_iff_mem ivs c
  have h2 := any_iff_mem (ofIvList (CPS.inverted (toIvList ivs))) c
  rw [toIvList_ofIvList, C12.inverted_mem hw hc] at h2
  simp only [] at h1 h2 ⊢
  by_cases hm : CPS.mem (toIvList ivs) c
  · have e1 := h1.2 hm
    have e2 : (List.any (ofIvList (CPS.inverted (toIvList ivs))) fun iv => decide (iv.1 ≤ c) && decide (c ≤ iv.2)) = false := by
      cases hh : (List.any (ofIvList (CPS.inverted (toIvList ivs))) fun iv => decide (iv.1 ≤ c) && decide (c ≤ iv.2))
      · rfl
      · exact absurd hm (h2.1 hh)
    simp [e1, e2]
  · have e1 : (List.any ivs fun iv => decide (iv.1 ≤ c) && decide (c ≤ iv.2)) = false := by
      cases hh : (List.any ivs fun iv => decide (iv.1 ≤ c) && decide (c ≤ iv.2))
      · rfl
      · exact absurd (h1.1 hh) hm
    have e2 := h2.2 hm
    simp [e1, e2]

theorem simplifyBrackets_ok (I : StInv) {inp : Input} (hin : InputOK inp) : PassOK I inp simplifyBrackets := by
  intro n w a hw h
  have keep : WF (PassAction.keep.result n) ∧ numGroups (PassAction.keep.result n) = numGroups n ∧
      NodeEq I inp (!w.inLookbehind) n (PassAction.keep.result n) := ⟨hw, rfl, NodeEq.refl _ _ _ _⟩
  unfold simplifyBrackets at h
  split at h
  · rename_i bc
    simp only [WF] at hw
    split at h
    · rename_i newNode hred
      cases h
      unfold tryReduceBracket at hred
      split at hred
      · cases hred
      · rename_i hinv
        dsimp only at hred
        split at hred
        · cases hred
        · cases hred
          refine passOK_of_eq (by simp [PassAction.result, WF]) rfl ?_
          intro st
          have hi : bc.invert = false := by simpa using hinv
          simp only [PassAction.result, sem, hi]
          congr 2
          funext c
          exact bracketTest_reduce bc.ivs c
    · dsimp only at h
      split at h
      · cases h
        refine passOK_of_eq ?_ rfl ?_
        · simp only [PassAction.result, WF, toIvList_ofIvList]; exact C12.inverted_wf hw
        · intro st
          simp only [PassAction.result, sem]
          rw [charStep_congr hin _ _ _ _ (fun c hc => bracketTest_inverted hw bc.invert hc)]
      · cases h; exact keep
  · cases h; exact keep

/-! ## `promote_1char_loops` -/

/-- A body that has at most one success, which moves the cursor. -/
def OneStep (body : St → List St) : Prop :=
  ∀ s, body s = [] ∨ ∃ s', body s = [s'] ∧ s'.pos ≠ s.pos

theorem Adv.ne {inp : Input} {fwd : Bool} {p p' : Nat} (h : Adv inp fwd p p') : p' ≠ p := by
  unfold Adv at h; cases fwd <;> simp at h <;> omega

theorem oneStep_charStep (inp : Input) (fwd : Bool) (t : Nat → Bool) :
    OneStep (fun s => optSt s (charStep inp fwd s.pos t)) := by
  intro s
  cases h : charStep inp fwd s.pos t with
  | none => left; simp only [h]; rfl
  | some p => right; exact ⟨{ s with pos := p }, by simp only [h]; rfl, (charStep_adv h).ne⟩

theorem oneStep_of_matchesExactlyOneChar (inp : Input) (fwd : Bool) {n : Node} (h : n.matchesExactlyOneChar = true) :
    OneStep (fun s => sem inp n fwd s) := by
  cases n <;> simp only [Node.matchesExactlyOneChar] at h <;> first
    | (cases h; done)
    | (simp only [sem]; exact oneStep_charStep _ _ _)

theorem loopIter_eq_loop1Iter {body : St → List St} (hb : OneStep body) (q : Quant) (g0 g1 : Nat) (hg : g1 ≤ g0) :
    ∀ k iter entry st, ¬ (entry = st.pos ∧ iter > q.min) →
      loopIter body q g0 g1 k iter entry st = loop1Iter body q k iter st := by
  intro k
  induction k with
  | zero => intro _ _ _ _; rfl
  | succ k ih =>
    intro iter entry st hne
    have hchk : (entry == st.pos && decide (iter > q.min)) = false := by
      rw [Bool.and_eq_false_iff]
      by_cases h1 : entry = st.pos
      · right
        have h2 : ¬ (iter > q.min) := fun h2 => hne ⟨h1, h2⟩
        simpa using h2
      · left; simpa using h1
    simp only [loopIter, loop1Iter, hchk, St.resetGroups_noop _ _ _ hg]
    rcases hb st with hnil | ⟨s', hs', hpos⟩
    · simp only [hnil, List.flatMap_nil, List.head?_nil]
      cases maxOk q iter <;> cases decide (iter ≥ q.min) <;> cases q.greedy <;> simp
    · have ih' := ih (iter + 1) st.pos s' (fun hh => hpos hh.1.symm)
      simp only [hs', List.flatMap_cons, List.flatMap_nil, List.append_nil, List.head?_cons, ih']
      cases maxOk q iter <;> cases decide (iter ≥ q.min) <;> cases q.greedy <;> simp

theorem promote1CharLoops_ok (I : StInv) (inp : Input) : PassOK I inp promote1CharLoops := by
  intro n w a hw h
  have keep : WF (PassAction.keep.result n) ∧ numGroups (PassAction.keep.result n) = numGroups n ∧
      NodeEq I inp (!w.inLookbehind) n (PassAction.keep.result n) := ⟨hw, rfl, NodeEq.refl _ _ _ _⟩
  unfold promote1CharLoops at h
  split at h
  · rename_i loopee quant g0 g1
    simp only [WF] at hw
    split at h
    · cases h; exact keep
    · rename_i hone
      split at h
      · cases h
      · rename_i hg
        cases h
        have hg' : g1 ≤ g0 := by simpa using hg
        have hone' : loopee.matchesExactlyOneChar = true := by simpa using hone
        refine passOK_of_eq ?_ rfl ?_
        · simp only [PassAction.result, WF]; exact ⟨hw.1, hw.2.1, hw.2.2.2 hg'⟩
        · intro st
          simp only [PassAction.result, sem]
          exact loopIter_eq_loop1Iter (oneStep_of_matchesExactlyOneChar inp _ hone') quant g0 g1 hg' _ _ _ _
            (fun hh => by simp at hh)
  · cases h; exact keep

/-! ## `unroll_loops` -/

mutual
theorem tryDuplicate_eq : ∀ (n : Node) (d : Nat) (n' : Node), Node.tryDuplicate d n = .ok (some n') →
    n' = n ∧ numGroups n = 0
  | .empty, d, n', h => by simp only [Node.tryDuplicate] at h; split at h <;> cases h; exact ⟨rfl, rfl⟩
  | .goal, d, n', h => by simp only [Node.tryDuplicate] at h; split at h <;> cases h; exact ⟨rfl, rfl⟩
  | .char _, d, n', h => by simp only [Node.tryDuplicate] at h; split at h <;> cases h; exact ⟨rfl, rfl⟩
  | .byteSeq _, d, n', h => by simp only [Node.tryDuplicate] at h; split at h <;> cases h; exact ⟨rfl, rfl⟩
  | .byteSet _, d, n', h => by simp only [Node.tryDuplicate] at h; split at h <;> cases h; exact ⟨rfl, rfl⟩
  | .charSet _, d, n', h => by simp only [Node.tryDuplicate] at h; split at h <;> cases h; exact ⟨rfl, rfl⟩
  | .stringSet _ _, d, n', h => by simp only [Node.tryDuplicate] at h; cases h
  | .matchAny, d, n', h => by simp only [Node.tryDuplicate] at h; split at h <;> cases h; exact ⟨rfl, rfl⟩
  | .matchAnyExceptLT, d, n', h => by simp only [Node.tryDuplicate] at h; split at h <;> cases h; exact ⟨rfl, rfl⟩
  | .anchor _ _, d, n', h => by simp only [Node.tryDuplicate] at h; split at h <;> cases h; exact ⟨rfl, rfl⟩
  | .wordBoundary _ _, d, n', h => by simp only [Node.tryDuplicate] at h; split at h <;> cases h; exact ⟨rfl, rfl⟩
  | .backRef _ _, d, n', h => by simp only [Node.tryDuplicate] at h; split at h <;> cases h; exact ⟨rfl, rfl⟩
  | .bracket _, d, n', h => by simp only [Node.tryDuplicate] at h; split at h <;> cases h; exact ⟨rfl, rfl⟩
  | .group _ _ _, d, n', h => by simp only [Node.tryDuplicate] at h; split at h <;> cases h
  | .cat ns, d, n', h => by
    simp only [Node.tryDuplicate] at h
    split at h
    · cases h
    · split at h
      · cases h
      · cases h
      · rename_i l heq
        cases h
        have := tryDuplicateList_eq ns (d + 1) l heq
        exact ⟨by rw [this.1], by simp [numGroups, this.2]⟩
  | .alt l r, d, n', h => by
    simp only [Node.tryDuplicate] at h
    split at h
    · cases h
    · split at h
      · cases h
      · cases h
      · rename_i l' heq1
        split at h
        · cases h
        · cases h
        · rename_i r' heq2
          cases h
          have h1 := tryDuplicate_eq l (d + 1) l' heq1
          have h2 := tryDuplicate_eq r (d + 1) r' heq2
          exact ⟨by rw [h1.1, h2.1], by simp [numGroups, h1.2, h2.2]⟩
  | .loop b q g0 g1, d, n', h => by
    simp only [Node.tryDuplicate] at h
    split at h
    · cases h
    · split at h
      · cases h
      · split at h
        · cases h
        · cases h
        · rename_i b' heq
          cases h
          have h1 := tryDuplicate_eq b (d + 1) b' heq
          exact ⟨by rw [h1.1], by simp [numGroups, h1.2]⟩
  | .loop1 b q, d, n', h => by
    simp only [Node.tryDuplicate] at h
    split at h
    · cases h
    · split at h
      · cases h
      · cases h
      · rename_i b' heq
        cases h
        have h1 := tryDuplicate_eq b (d + 1) b' heq
        exact ⟨by rw [h1.1], by simp [numGroups, h1.2]⟩
  | .look ng bw sg eg c, d, n', h => by
    simp only [Node.tryDuplicate] at h
    split at h
    · cases h
    · split at h
      · cases h
      · split at h
        · cases h
        · cases h
        · rename_i c' heq
          cases h
          have h1 := tryDuplicate_eq c (d + 1) c' heq
          exact ⟨by rw [h1.1], by simp [numGroups, h1.2]⟩
theorem tryDuplicateList_eq : ∀ (ns : List Node) (d : Nat) (ns' : List Node), tryDuplicateList d ns = .ok (some ns') →
    ns' = ns ∧ numGroupsList ns = 0
  | [], d, ns', h => by simp only [tryDuplicateList] at h; cases h; exact ⟨rfl, rfl⟩
  | n :: ns, d, ns', h => by
    simp only [tryDuplicateList] at h
    split at h
    · cases h
    · cases h
    · rename_i n1 heq1
      split at h
      · cases h
      · cases h
      · rename_i ns1 heq2
        cases h
        have h1 := tryDuplicate_eq n d n1 heq1
        have h2 := tryDuplicateList_eq ns d ns1 heq2
        exact ⟨by rw [h1.1, h2.1], by simp [numGroupsList, h1.2, h2.2]⟩
end

theorem unrollDup_eq (loopee : Node) : ∀ (k : Nat) (acc l : List Node), unrollDup loopee k acc = .ok (some l) →
    l = acc ++ List.replicate k loopee ∧ (0 < k → numGroups loopee = 0) := by
  intro k
  induction k with
  | zero => intro acc l h; simp [unrollDup] at h; simp [h]
  | succ k ih =>
    intro acc l h
    unfold unrollDup at h
    split at h
    · cases h
    · cases h
    · rename_i node heq
      have h1 := tryDuplicate_eq loopee 0 node heq
      have h2 := ih _ _ h
      refine ⟨?_, fun _ => h1.2⟩
      rw [h2.1, h1.1, List.replicate_succ]; simp

theorem WFList_replicate (k : Nat) (b : Node) (h : WF b) : WFList (List.replicate k b) := by
  rw [WFList_iff]; intro n hn; rw [List.eq_of_mem_replicate hn]; exact h

theorem numGroupsList_replicate (k : Nat) (b : Node) (h : numGroups b = 0) : numGroupsList (List.replicate k b) = 0 := by
  induction k with
  | zero => rfl
  | succ k ih => simp [List.replicate_succ, numGroupsList, h, ih]

/-- At or below the minimum the entry position of the last iteration is not looked at. -/
theorem loopIter_entry_irrel (body : St → List St) (q : Quant) (g0 g1 k iter e e' : Nat) (st : St) (h : iter ≤ q.min) :
    loopIter body q g0 g1 k iter e st = loopIter body q g0 g1 k iter e' st := by
  cases k with
  | zero => rfl
  | succ k =>
    have : ¬ (iter > q.min) := by omega
    simp [loopIter, this]

/-- The mandatory iterations of a loop (that resets no group) are copies of the body in a row. -/
theorem loopIter_mandatory (inp : Input) (fwd : Bool) (b : Node) (q : Quant) (g0 g1 : Nat) (hq : quantOk q = true)
    (hg : g1 ≤ g0) :
    ∀ j k iter entry st, iter + j = q.min → j ≤ k →
      loopIter (fun s => sem inp b fwd s) q g0 g1 k iter entry st =
        (semCat inp (List.replicate j b) fwd st).flatMap
          (fun s => loopIter (fun s => sem inp b fwd s) q g0 g1 (k - j) q.min 0 s) := by
  intro j
  induction j with
  | zero =>
    intro k iter entry st hi _
    simp only [List.replicate_zero, semCat, List.flatMap_cons, List.flatMap_nil, List.append_nil, Nat.sub_zero]
    have : iter = q.min := by omega
    subst this
    exact loopIter_entry_irrel _ _ _ _ _ _ _ _ _ (Nat.le_refl _)
  | succ j ih =>
    intro k iter entry st hi hk
    obtain ⟨k', rfl⟩ : ∃ k', k = k' + 1 := ⟨k - 1, by omega⟩
    have hlt : iter < q.min := by omega
    have hng : ¬ (iter > q.min) := by omega
    have hge : decide (iter ≥ q.min) = false := by simp; omega
    simp only [loopIter, hng, decide_false, Bool.and_false, St.resetGroups_noop _ _ _ hg, hge,
      maxOk_of_lt_min hq hlt, List.replicate_succ, semCat_cons, List.flatMap_assoc]
    apply flatMap_congr_mem
    intro s _
    have := ih k' (iter + 1) st.pos s (by omega) (by omega)
    rw [show k' + 1 - (j + 1) = k' - j by omega]
    exact this

/-- The quantifier left after unrolling `min` iterations. -/
def unrolledQuant (q : Quant) : Quant :=
  { min := 0, max := q.max.map (fun v => usizeSub v q.min), greedy := q.greedy }

theorem maxOk_unrolled {q : Quant} (hq : quantOk q = true) (i : Nat) :
    maxOk (unrolledQuant q) i = maxOk q (q.min + i) := by
  unfold quantOk at hq
  unfold maxOk unrolledQuant
  cases hm : q.max with
  | none => rfl
  | some m =>
    simp only [hm] at hq
    have hle : q.min ≤ m := by simpa using hq
    simp only [Option.map_some, usizeSub, hle, if_true]
    rw [Bool.eq_iff_iff]; simp; omega

/-- After the mandatory iterations the loop behaves as the loop `{0, max - min}`. -/
theorem loopIter_optional (body : St → List St) (q : Quant) (g0 g1 : Nat) (hq : quantOk q = true) :
    ∀ k i entry st, loopIter body q g0 g1 k (q.min + i) entry st =
      loopIter body (unrolledQuant q) g0 g1 k i entry st := by
  intro k
  induction k with
  | zero => intro _ _ _; rfl
  | succ k ih =>
    intro i entry st
    have h1 : decide (q.min + i > q.min) = decide (i > (unrolledQuant q).min) := by
      simp [unrolledQuant]
    have h2 : decide (q.min + i ≥ q.min) = true := by simp
    have h3 : decide (i ≥ (unrolledQuant q).min) = true := by simp [unrolledQuant]
    have h4 : (unrolledQuant q).greedy = q.greedy := rfl
    have e : loopIter body q g0 g1 k (q.min + i + 1) st.pos =
        loopIter body (unrolledQuant q) g0 g1 k (i + 1) st.pos := by
      funext s; rw [Nat.add_assoc]; exact ih (i + 1) st.pos s
    simp only [loopIter, h1, h2, h3, h4, maxOk_unrolled hq, e]

theorem sem_loop_unrolled (inp : Input) (fwd : Bool) (b : Node) (q : Quant) (g0 g1 : Nat) (hq : quantOk q = true)
    (hg : g1 ≤ g0) (st : St) :
    sem inp (.loop b q g0 g1) fwd st =
      semCat inp (List.replicate q.min b ++ [.loop b (unrolledQuant q) g0 g1]) fwd st := by
  rw [semCat_append]
  simp only [sem, loopBudget]
  rw [loopIter_mandatory inp fwd b q g0 g1 hq hg q.min _ 0 0 st (by omega) (by omega)]
  apply flatMap_congr_mem
  intro s hs
  rw [semCat_singleton]
  simp only [sem, loopBudget]
  have h0 := loopIter_optional (fun s => sem inp b fwd s) q g0 g1 hq (q.min + mu inp fwd st.pos + 2 - q.min) 0 0 s
  simp only [Nat.add_zero] at h0
  rw [h0]
  have hmu := (semCat_adv inp _ fwd st s hs).mu_le
  apply loopIter_fuel (inp := inp) (fwd := fwd) (unrolledQuant q) g0 g1
    (fun s1 s2 h12 => sem_adv inp b fwd s1 s2 h12)
  · simp only [unrolledQuant]; omega
  · simp only [unrolledQuant]; omega

theorem sem_loop_unrolled_exact (inp : Input) (fwd : Bool) (b : Node) (q : Quant) (g0 g1 : Nat) (hq : quantOk q = true)
    (hg : g1 ≤ g0) (hm : (unrolledQuant q).max = some 0) (st : St) :
    sem inp (.loop b q g0 g1) fwd st = semCat inp (List.replicate q.min b) fwd st := by
  rw [sem_loop_unrolled inp fwd b q g0 g1 hq hg, semCat_append]
  have : ∀ s, semCat inp [.loop b (unrolledQuant q) g0 g1] fwd s = [s] := by
    intro s
    rw [semCat_singleton]
    exact sem_loop_max0 inp b (unrolledQuant q) g0 g1 fwd s (by unfold quantOk; rw [hm]; simp [unrolledQuant]) hm
  simp only [this, flatMap_singleton']

theorem unrollLoops_ok (I : StInv) (inp : Input) : PassOK I inp unrollLoops := by
  intro n w a hw h
  have keep : WF (PassAction.keep.result n) ∧ numGroups (PassAction.keep.result n) = numGroups n ∧
      NodeEq I inp (!w.inLookbehind) n (PassAction.keep.result n) := ⟨hw, rfl, NodeEq.refl _ _ _ _⟩
  unfold unrollLoops at h
  split at h
  · rename_i loopee quant g0 g1
    simp only [WF] at hw
    split at h
    · cases h; exact keep
    · rename_i hg
      have hg' : g1 ≤ g0 := by omega
      split at h
      · cases h; exact keep
      · rename_i hmin
        split at h
        · cases h; exact keep
        · split at h
          · cases h
          · cases h; exact keep
          · rename_i unrolled hdup
            cases h
            have hu := unrollDup_eq loopee quant.min [] unrolled hdup
            have hmin0 : 0 < quant.min := by
              simp only [Bool.or_eq_true, beq_iff_eq, decide_eq_true_eq, not_or] at hmin; omega
            have hng : numGroups loopee = 0 := hu.2 hmin0
            have hul : unrolled = List.replicate quant.min loopee := by simpa using hu.1
            subst hul
            have hwfl : WF (.loop loopee (unrolledQuant quant) g0 g1) := by
              simp only [WF]
              refine ⟨hw.1, ?_, hw.2.2⟩
              simp only [quantOk, unrolledQuant]
              split <;> simp
            by_cases hm : (Option.map (fun v => usizeSub v quant.min) quant.max != some 0) = true
            · simp only [PassAction.result, hm, if_true]
              refine passOK_of_eq ?_ ?_ ?_
              · simp only [WF, WFList_append]
                exact ⟨WFList_replicate _ _ hw.1, ⟨hwfl, trivial⟩⟩
              · simp [numGroups, numGroupsList_append, numGroupsList_replicate _ _ hng, numGroupsList, hng]
              · intro st
                simp only [sem]
                exact sem_loop_unrolled inp _ loopee quant g0 g1 hw.2.1 hg' st
            · simp only [PassAction.result, hm]
              have hm' : (unrolledQuant quant).max = some 0 := by simpa [unrolledQuant] using hm
              refine passOK_of_eq ?_ ?_ ?_
              · simp only [WF]; exact WFList_replicate _ _ hw.1
              · simp [numGroups, numGroupsList_replicate _ _ hng, hng]
              · intro st
                simp only [sem]
                exact sem_loop_unrolled_exact inp _ loopee quant g0 g1 hw.2.1 hg' hm' st
  · cases h; exact keep

end Regress.IR
