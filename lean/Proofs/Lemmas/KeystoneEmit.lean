import Proofs.Lemmas.KeystoneEmitSS
/-!
# Keystone, part 4: `emitNode` produces `Code`
-/
namespace Regress.Keystone

open Regress.VM Regress.IR Regress.Gen

/-- What `emit_node` may change: it appends instructions and brackets. -/
structure Ext (s s' : EmitState) : Prop where
  size : s.insns.size ≤ s'.insns.size
  pre : ∀ i, i < s.insns.size → s'.insns[i]? = s.insns[i]?
  br : BExt s.brackets s'.brackets
  uni : s'.unicode = s.unicode
  lb : s'.inLookbehind = s.inLookbehind

theorem Ext.refl (s : EmitState) : Ext s s :=
  ⟨Nat.le_refl _, fun _ _ => rfl, fun _ _ h => h, rfl, rfl⟩

theorem Ext.trans {a b c : EmitState} (h1 : Ext a b) (h2 : Ext b c) : Ext a c :=
  ⟨Nat.le_trans h1.size h2.size,
   fun i hi => by rw [h2.pre i (Nat.lt_of_lt_of_le hi h1.size), h1.pre i hi],
   fun i x h => h2.br i x (h1.br i x h), by rw [h2.uni, h1.uni], by rw [h2.lb, h1.lb]⟩

theorem Ext.agree {s s' : EmitState} (h : Ext s s') (b : Nat) : AgreeOn s.insns s'.insns b s.insns.size :=
  fun i _ hi => h.pre i hi

theorem ext_emitInsn (i : Insn) (s : EmitState) : Ext s (emitInsn i s) := by
  refine ⟨by simp [emitInsn], fun j hj => ?_, fun _ _ h => h, rfl, rfl⟩
  simp [emitInsn, Array.getElem?_push, Nat.ne_of_lt hj]

theorem at_emitInsn (i : Insn) (s : EmitState) : At (emitInsn i s).insns s.insns.size i := by
  simp [At, emitInsn]

theorem size_emitInsn (i : Insn) (s : EmitState) : (emitInsn i s).insns.size = s.insns.size + 1 := by
  simp [emitInsn]

/-- The invariants on the counters. -/
structure Cnt (s s' : EmitState) (nl ng : Nat) : Prop where
  loops : ∀ l, s.nextLoopId = l % 65536 → s'.nextLoopId = (l + nl) % 65536
  groups : ∀ g, s.groups = g % 4294967296 → s'.groups = (g + ng) % 4294967296

theorem fixInsn_ok {idx : Nat} {upd : Insn → Option Insn} {err : EmitErr} {s s' : EmitState}
    (h : fixInsn idx upd err s = .ok s') :
    ∃ insn insn', s.insns[idx]? = some insn ∧ upd insn = some insn' ∧
      s' = { s with insns := s.insns.set! idx insn' } := by
  unfold fixInsn at h
  split at h
  · cases h
  · rename_i insn hi
    split at h
    · cases h
    · rename_i insn' hu
      cases h
      exact ⟨insn, insn', hi, hu, rfl⟩

theorem getElem?_set! (a : Array Insn) (i j : Nat) (v : Insn) :
    (a.set! i v)[j]? = if i = j ∧ i < a.size then some v else a[j]? := by
  simp only [Array.set!_eq_setIfInBounds, Array.getElem?_setIfInBounds]
  by_cases h : i = j
  · subst h
    by_cases h2 : i < a.size <;> simp [h2]
  · simp [h]

/-- The specification of `emit_node`. -/
def EmitSpec (n : Node) (s s' : EmitState) : Prop :=
  Ext s s' ∧ Cnt s s' (numLoops n) (numGroups n) ∧
  ∀ l, s.nextLoopId = l % 65536 →
    Code s'.insns s'.brackets s.unicode n s.inLookbehind s.insns.size s'.insns.size l

theorem Cnt.refl (s : EmitState) : Cnt s s 0 0 := ⟨fun _ h => h, fun _ h => h⟩

theorem Cnt.trans {a b c : EmitState} {l1 l2 g1 g2 : Nat} (h1 : Cnt a b l1 g1) (h2 : Cnt b c l2 g2) :
    Cnt a c (l1 + l2) (g1 + g2) :=
  ⟨fun l h => by rw [← Nat.add_assoc]; exact h2.loops _ (h1.loops l h),
   fun g h => by rw [← Nat.add_assoc]; exact h2.groups _ (h1.groups g h)⟩

theorem cnt_emitInsn (i : Insn) (s : EmitState) : Cnt s (emitInsn i s) 0 0 :=
  ⟨fun _ h => h, fun _ h => h⟩

/-- A node emitted as one instruction. -/
theorem spec_single {n : Node} {i : Insn} (s : EmitState) (hl : numLoops n = 0) (hg : numGroups n = 0)
    (hc : ∀ (I : Array Insn) (B : Array VM.Bracket) (uni lb : Bool) (b l : Nat), At I b i →
      Code I B uni n lb b (b + 1) l) :
    EmitSpec n s (emitInsn i s) := by
  refine ⟨ext_emitInsn i s, by rw [hl, hg]; exact cnt_emitInsn i s, fun l _ => ?_⟩
  rw [size_emitInsn]
  exact hc _ _ _ _ _ _ (at_emitInsn i s)

theorem Ext.at {s s' : EmitState} (h : Ext s s') {i : Nat} {x : Insn} (hx : At s.insns i x) :
    At s'.insns i x := by
  unfold At at *
  have : i < s.insns.size := by
    rcases Nat.lt_or_ge i s.insns.size with h1 | h1
    · exact h1
    · rw [Array.getElem?_eq_none h1] at hx; cases hx
  rw [h.pre i this]; exact hx

theorem Block.ext {s s' : EmitState} {c : List Insn} (h : Block s s' c) : Ext s s' := by
  rw [h]
  refine ⟨by simp, fun i hi => ?_, fun _ _ h => h, rfl, rfl⟩
  simp [Array.getElem?_append, hi]

theorem Block.cnt {s s' : EmitState} {c : List Insn} (h : Block s s' c) : Cnt s s' 0 0 := by
  rw [h]; exact ⟨fun _ h => h, fun _ h => h⟩

theorem Block.insnsAt {s s' : EmitState} {c : List Insn} (h : Block s s' c) :
    InsnsAt s'.insns s.insns.size c := by
  intro i hi
  rw [h]
  simp [At, hi]

theorem foldl_block (f : Nat → Insn) : ∀ (l : List Nat) (s : EmitState),
    Block s (l.foldl (fun s gid => emitInsn (f gid) s) s) (l.map f)
  | [], s => Block.nil s
  | a :: l, s => by
    simp only [List.foldl_cons, List.map_cons]
    exact (Block.emitInsn (f a) s).trans (foldl_block f l _)

theorem mod_succ_65536 (l : Nat) : (l % 65536 + 1) % 65536 = (l + 1) % 65536 := by omega

theorem mod_succ_u32 (g : Nat) : (g % 4294967296 + 1) % 4294967296 = (g + 1) % 4294967296 := by omega

/-- The look-around instruction. -/
def lookInsn (neg bw : Bool) (sg eg k : Nat) : Insn :=
  if bw then .lookbehind neg sg eg k else .lookahead neg sg eg k

theorem emitLookBegin_eq (neg bw : Bool) (sg eg : Nat) (s : EmitState) :
    emitLookBegin neg bw sg eg s =
      ({ emitInsn (lookInsn neg bw sg eg 0) s with inLookbehind := bw }, s.insns.size, s.inLookbehind) := by
  cases bw <;> rfl

theorem emitLoopEnter_fields (q : Quant) (g0 g1 : Nat) (s : EmitState) :
    (emitLoopEnter q g0 g1 s).1.insns =
      (s.insns.push (.enterLoop s.nextLoopId q.min (maxIters q) q.greedy 0)) ++
        ((List.range' g0 (g1 - g0)).map Insn.resetCaptureGroup).toArray ∧
    (emitLoopEnter q g0 g1 s).1.brackets = s.brackets ∧
    (emitLoopEnter q g0 g1 s).1.unicode = s.unicode ∧
    (emitLoopEnter q g0 g1 s).1.inLookbehind = s.inLookbehind ∧
    (emitLoopEnter q g0 g1 s).1.nextLoopId = (s.nextLoopId + 1) % 65536 ∧
    (emitLoopEnter q g0 g1 s).1.groups = s.groups := by
  have := fun st => foldl_block Insn.resetCaptureGroup (List.range' g0 (g1 - g0)) st
  unfold Block at this
  simp only [emitLoopEnter, emitInsnOffset]
  rw [this]
  simp [emitInsn]

mutual
theorem emitNode_spec : ∀ (n : Node) (s s' : EmitState), emitNode n s = .ok s' → EmitSpec n s s'
  | .empty, s, s', h => by
    simp only [emitNode] at h; cases h
    exact ⟨Ext.refl s, Cnt.refl s, fun l _ => by simp [Code]⟩
  | .goal, s, s', h => by
    simp only [emitNode] at h; cases h
    exact spec_single s rfl rfl (fun I B uni lb b l hat => by simp [Code, hat])
  | .char c, s, s', h => by
    simp only [emitNode] at h; cases h
    exact spec_single s rfl rfl (fun I B uni lb b l hat => by simp [Code, hat])
  | .matchAny, s, s', h => by
    simp only [emitNode] at h; cases h
    exact spec_single s rfl rfl (fun I B uni lb b l hat => by simp [Code, hat])
  | .matchAnyExceptLT, s, s', h => by
    simp only [emitNode] at h; cases h
    exact spec_single s rfl rfl (fun I B uni lb b l hat => by simp [Code, hat])
  | .anchor sol ml, s, s', h => by
    simp only [emitNode] at h; cases h
    exact spec_single s rfl rfl (fun I B uni lb b l hat => by simp [Code, hat])
  | .wordBoundary inv ui, s, s', h => by
    simp only [emitNode] at h
    cases ui with
    | true =>
      simp only [if_true] at h; cases h
      exact spec_single s rfl rfl (fun I B uni lb b l hat => by simp [Code, hat])
    | false =>
      simp only [Bool.false_eq_true, if_false] at h; cases h
      exact spec_single s rfl rfl (fun I B uni lb b l hat => by simp [Code, hat])
  | .backRef g icase, s, s', h => by
    simp only [emitNode] at h; cases h
    exact spec_single s rfl rfl (fun I B uni lb b l hat => by simp [Code, hat])
  | .byteSet bs, s, s', h => by
    simp only [emitNode] at h
    obtain ⟨i, hi, rfl⟩ := emitByteSetInsn_ok h
    exact spec_single s rfl rfl (fun I B uni lb b l hat => by simp only [Code]; exact ⟨i, hi, hat, trivial⟩)
  | .charSet cs, s, s', h => by
    simp only [emitNode] at h
    obtain ⟨i, hi, rfl⟩ := emitCharSet_ok h
    exact spec_single s rfl rfl (fun I B uni lb b l hat => by simp only [Code]; exact ⟨i, hi, hat, trivial⟩)
  | .byteSeq bs, s, s', h => by
    simp only [emitNode] at h
    have hb := emitByteSequence_ok h
    refine ⟨hb.ext, hb.cnt, fun l _ => ?_⟩
    simp only [Code]
    refine ⟨hb.insnsAt, ?_⟩
    rw [hb.size]; simp
  | .bracket bc, s, s', h => by
    simp only [emitNode, emitBracket] at h
    split at h
    · rename_i ascii ha
      cases h
      exact spec_single s rfl rfl (fun I B uni lb b l hat => by
        simp only [Code]; exact ⟨Or.inl ⟨ascii, ha, hat⟩, trivial⟩)
    · rename_i ha
      cases h
      refine ⟨⟨by simp [emitInsn], fun j hj => ?_, fun i x hx => ?_, rfl, rfl⟩,
        ⟨fun _ h => h, fun _ h => h⟩, fun l _ => ?_⟩
      · simp [emitInsn, Array.getElem?_push, Nat.ne_of_lt hj]
      · simp only [emitInsn]
        rw [Array.getElem?_push]
        have : i < s.brackets.size := by
          rcases Nat.lt_or_ge i s.brackets.size with h1 | h1
          · exact h1
          · rw [Array.getElem?_eq_none h1] at hx; cases hx
        rw [if_neg (by omega)]; exact hx
      · simp only [Code]
        refine ⟨Or.inr ⟨ha, s.brackets.size, by simp [At, emitInsn], by simp [emitInsn]⟩, by simp [emitInsn]⟩
  | .stringSet alts icase, s, s', h => by
    simp only [emitNode] at h
    obtain ⟨codes, hcodes, hb⟩ := emitStringSet_ok h
    refine ⟨hb.ext, hb.cnt, fun l _ => ?_⟩
    simp only [Code]
    exact ⟨codes, hcodes, hb.insnsAt, hb.size⟩
  | .cat ns, s, s', h => by
    simp only [emitNode] at h
    have := emitNodes_spec ns s s' h
    exact ⟨this.1, by simpa [numLoops, numGroups] using this.2.1, fun l hl => by
      simp only [Code]; exact this.2.2 l hl⟩
  | .loop1 body q, s, s', h => by
    simp only [emitNode] at h
    have ih := emitNode_spec body _ s' h
    have e1 := ext_emitInsn (.loop1 q.min (maxIters q) q.greedy) s
    refine ⟨e1.trans ih.1, by simpa [numLoops, numGroups] using (cnt_emitInsn _ s).trans ih.2.1,
      fun l hl => ?_⟩
    simp only [Code]
    refine ⟨ih.1.at (at_emitInsn _ s), ?_⟩
    have := ih.2.2 l hl
    rwa [size_emitInsn] at this
  | .group id name c, s, s', h => by
    simp only [emitNode] at h
    split at h
    · cases h
    · rename_i s2 h2
      cases h
      have ih := emitNode_spec c _ s2 h2
      have e1 : Ext s (emitGroupBegin id name s) := by
        refine ⟨by simp [emitGroupBegin, emitInsn], fun j hj => ?_, fun _ _ h => h, rfl, rfl⟩
        simp [emitGroupBegin, emitInsn, Array.getElem?_push, Nat.ne_of_lt hj]
      have c1 : Cnt s (emitGroupBegin id name s) 0 1 :=
        ⟨fun _ h => h, fun g hg => by simp only [emitGroupBegin, emitInsn]; rw [hg]; exact mod_succ_u32 g⟩
      have hsz : (emitGroupBegin id name s).insns.size = s.insns.size + 1 := by
        simp [emitGroupBegin, emitInsn]
      have hat : At (emitGroupBegin id name s).insns s.insns.size (.beginCaptureGroup id) := by
        simp [At, emitGroupBegin, emitInsn]
      have e3 := ext_emitInsn (.endCaptureGroup id) s2
      refine ⟨(e1.trans ih.1).trans e3, ?_, fun l hl => ?_⟩
      · have := (c1.trans ih.2.1).trans (cnt_emitInsn (.endCaptureGroup id) s2)
        simpa [numLoops, numGroups, Nat.add_comm] using this
      · simp only [Code]
        refine ⟨s2.insns.size, (ih.1.trans e3).at hat, ?_, at_emitInsn _ s2, size_emitInsn _ s2⟩
        have := ih.2.2 l hl
        rw [hsz] at this
        exact Code.stable e3.br this (e3.agree _)
  | .alt x y, s, s', h => by
    simp only [emitNode, emitInsnOffset, nextOffset] at h
    split at h
    · cases h
    · rename_i s2 h2
      split at h
      · cases h
      · rename_i s4 h4
        have ih1 := emitNode_spec x _ s2 h2
        have ih2 := emitNode_spec y _ s4 h4
        unfold emitAltFinish at h
        split at h
        · cases h
        · rename_i s5 h5
          obtain ⟨i5, i5', hi5, hu5, rfl⟩ := fixInsn_ok h5
          obtain ⟨i6, i6', hi6, hu6, rfl⟩ := fixInsn_ok h
          have e1 := ext_emitInsn (.alt 0) s
          have e3 := ext_emitInsn (.jump 0) s2
          have sz1 := size_emitInsn (.alt 0) s
          have sz3 := size_emitInsn (.jump 0) s2
          have a1 : At s4.insns s.insns.size (.alt 0) := (ih1.1.trans (e3.trans ih2.1)).at (at_emitInsn _ s)
          have a3 : At s4.insns s2.insns.size (.jump 0) := ih2.1.at (at_emitInsn _ s2)
          have l1 := ih1.1.size; have l3 := ih2.1.size
          have u5 : i5' = .alt (s2.insns.size + 1) := by
            unfold At at a1; rw [a1] at hi5; cases hi5
            simpa [setAltSecondary, sz3] using hu5.symm
          have u6 : i6' = .jump s4.insns.size := by
            dsimp only at hi6
            rw [getElem?_set!, if_neg (by omega)] at hi6
            unfold At at a3; rw [a3] at hi6; cases hi6
            simpa [setJumpTarget, nextOffset] using hu6.symm
          subst u5 u6
          have hget : ∀ j, ((s4.insns.set! s.insns.size (.alt (s2.insns.size + 1))).set! s2.insns.size
              (.jump s4.insns.size))[j]? =
              if j = s2.insns.size then some (.jump s4.insns.size)
              else if j = s.insns.size then some (.alt (s2.insns.size + 1)) else s4.insns[j]? := by
            intro j
            rw [getElem?_set!, getElem?_set!]
            simp only [Array.set!_eq_setIfInBounds, Array.size_setIfInBounds]
            have b1 : s.insns.size < s4.insns.size := by omega
            have b2 : s2.insns.size < s4.insns.size := by omega
            by_cases hj1 : j = s2.insns.size
            · subst hj1; simp [b2]
            · have hj1' : ¬ s2.insns.size = j := fun hh => hj1 hh.symm
              by_cases hj2 : j = s.insns.size
              · subst hj2; simp [b1, hj1, hj1']
              · have hj2' : ¬ s.insns.size = j := fun hh => hj2 hh.symm
                simp [hj1, hj2, hj1', hj2']
          refine ⟨⟨by simp; omega, fun j hj => ?_, ?_, ?_, ?_⟩, ?_, fun l hl => ?_⟩
          · dsimp only
            rw [hget, if_neg (by omega), if_neg (by omega)]
            exact (e1.trans (ih1.1.trans (e3.trans ih2.1))).pre j hj
          · exact (e1.trans (ih1.1.trans (e3.trans ih2.1))).br
          · exact (e1.trans (ih1.1.trans (e3.trans ih2.1))).uni
          · exact (e1.trans (ih1.1.trans (e3.trans ih2.1))).lb
          · have := ((cnt_emitInsn (.alt 0) s).trans ih1.2.1).trans ((cnt_emitInsn (.jump 0) s2).trans ih2.2.1)
            exact ⟨fun l hl => by simpa [numLoops] using this.loops l hl,
              fun g hg => by simpa [numGroups] using this.groups g hg⟩
          · simp only [Code]
            refine ⟨s2.insns.size, ?_, ?_, ?_, ?_⟩
            · unfold At; rw [hget, if_neg (by omega), if_pos rfl]
            · have := ih1.2.2 l hl
              rw [sz1] at this
              refine Code.stable (e3.trans ih2.1).br this (fun j hj1 hj2 => ?_)
              rw [hget, if_neg (by omega), if_neg (by omega)]
              exact (e3.trans ih2.1).pre j hj2
            · unfold At; rw [hget, if_pos rfl]; simp
            · have := ih2.2.2 (l + numLoops x) (ih1.2.1.loops l hl)
              rw [sz3, e3.uni.trans (ih1.1.uni.trans e1.uni), e3.lb.trans (ih1.1.lb.trans e1.lb)] at this
              simp only [Array.set!_eq_setIfInBounds, Array.size_setIfInBounds]
              refine Code.stable (fun _ _ h => h) this (fun j hj1 hj2 => ?_)
              rw [← Array.set!_eq_setIfInBounds, ← Array.set!_eq_setIfInBounds, hget,
                if_neg (by omega), if_neg (by omega)]
  | .look neg bw sg eg c, s, s', h => by
    simp only [emitNode, emitLookBegin_eq] at h
    split at h
    · cases h
    · rename_i s2 h2
      have ih := emitNode_spec c _ s2 h2
      unfold emitLookFinish at h
      simp only [nextOffset] at h
      split at h
      · cases h
      · rename_i s4 h4
        cases h
        obtain ⟨i4, i4', hi4, hu4, rfl⟩ := fixInsn_ok h4
        have e1 := ext_emitInsn (lookInsn neg bw sg eg 0) s
        have sz1 := size_emitInsn (lookInsn neg bw sg eg 0) s
        have e3 := ext_emitInsn .goal s2
        have sz3 := size_emitInsn .goal s2
        have l1 := ih.1.size
        dsimp only at l1 hi4
        have a1 : At (emitInsn .goal s2).insns s.insns.size (lookInsn neg bw sg eg 0) := by
          unfold At
          rw [e3.pre _ (by omega), ih.1.pre _ (by dsimp only; omega)]
          exact at_emitInsn _ s
        have u4 : i4' = lookInsn neg bw sg eg (s2.insns.size + 1) := by
          unfold At at a1; rw [a1] at hi4; cases hi4
          cases bw <;> simpa [lookInsn, setContinuation, sz3] using hu4.symm
        subst u4
        have hget : ∀ j, ((emitInsn .goal s2).insns.set! s.insns.size (lookInsn neg bw sg eg (s2.insns.size + 1)))[j]? =
            if j = s.insns.size then some (lookInsn neg bw sg eg (s2.insns.size + 1))
            else (emitInsn .goal s2).insns[j]? := by
          intro j
          rw [getElem?_set!]
          by_cases hj : j = s.insns.size
          · subst hj; simp; omega
          · have : ¬ s.insns.size = j := fun hh => hj hh.symm
            simp [hj, this]
        refine ⟨⟨by simp; omega, fun j hj => ?_, ?_, ?_, rfl⟩, ?_, fun l hl => ?_⟩
        · dsimp only
          rw [hget, if_neg (by omega), e3.pre _ (by omega), ih.1.pre _ (by dsimp only; omega)]
          exact e1.pre j hj
        · exact ih.1.br
        · exact ih.1.uni
        · exact ⟨fun l hl => by simpa [numLoops, emitInsn] using ih.2.1.loops l hl,
            fun g hg => by simpa [numGroups, emitInsn] using ih.2.1.groups g hg⟩
        · simp only [Code]
          refine ⟨s2.insns.size, ?_, ?_, ?_, ?_⟩
          · unfold At; rw [hget, if_pos rfl]
            simp [lookInsn, sz3]
          · have := ih.2.2 l hl
            dsimp only at this
            rw [sz1] at this
            refine Code.stable (fun _ _ h => h) this (fun j hj1 hj2 => ?_)
            rw [hget, if_neg (by omega)]
            exact e3.pre j hj2
          · unfold At; rw [hget, if_neg (by omega)]; exact at_emitInsn _ s2
          · simp [sz3]
  | .loop body q g0 g1, s, s', h => by
    simp only [emitNode] at h
    obtain ⟨s1, hs1⟩ : ∃ s1, (emitLoopEnter q g0 g1 s).1 = s1 := ⟨_, rfl⟩
    have hb : (emitLoopEnter q g0 g1 s).2 = s.insns.size := rfl
    obtain ⟨hI, hB, hU, hL, hN, hG⟩ := emitLoopEnter_fields q g0 g1 s
    rw [hs1] at hI hB hU hL hN hG
    have h' : (match emitNode body s1 with
        | .error e => .error e
        | .ok s2 => emitLoopFinish s.insns.size s2) = Except.ok s' := by
      rw [← hs1]; exact h
    clear h
    split at h'
    · cases h'
    · rename_i s2 h2
      have ih := emitNode_spec body _ s2 h2
      unfold emitLoopFinish at h'
      simp only [nextOffset] at h'
      obtain ⟨i4, i4', hi4, hu4, rfl⟩ := fixInsn_ok h'
      have e3 := ext_emitInsn (.loopAgain s.insns.size) s2
      have sz3 := size_emitInsn (.loopAgain s.insns.size) s2
      have sz1 : s1.insns.size = s.insns.size + 1 + (g1 - g0) := by rw [hI]; simp; omega
      have l1 := ih.1.size
      have hs1at : ∀ j, s1.insns[j]? =
          if j < s.insns.size then s.insns[j]?
          else if j = s.insns.size then some (.enterLoop s.nextLoopId q.min (maxIters q) q.greedy 0)
          else if j - (s.insns.size + 1) < g1 - g0 then some (.resetCaptureGroup (g0 + (j - (s.insns.size + 1))))
          else none := by
        intro j
        rw [hI, Array.getElem?_append, Array.getElem?_push]
        simp only [Array.size_push]
        by_cases c1 : j < s.insns.size
        · rw [if_pos (by omega), if_neg (by omega), if_pos c1]
        · rw [if_neg c1]
          by_cases c2 : j = s.insns.size
          · rw [if_pos (by omega), if_pos c2, if_pos c2]
          · rw [if_neg (by omega), if_neg c2]
            simp only [List.getElem?_toArray, List.getElem?_map]
            by_cases c3 : j - (s.insns.size + 1) < g1 - g0
            · rw [if_pos c3, List.getElem?_eq_getElem (by simpa using c3)]
              simp [List.getElem_range']
            · rw [if_neg c3, List.getElem?_eq_none (by simpa using c3)]
              rfl
      have a1 : At (emitInsn (.loopAgain s.insns.size) s2).insns s.insns.size
          (.enterLoop s.nextLoopId q.min (maxIters q) q.greedy 0) := by
        unfold At
        rw [e3.pre _ (by omega), ih.1.pre _ (by omega), hs1at, if_neg (by omega), if_pos rfl]
      have u4 : i4' = .enterLoop s.nextLoopId q.min (maxIters q) q.greedy (s2.insns.size + 1) := by
        unfold At at a1; rw [a1] at hi4; cases hi4
        simpa [setLoopExit, sz3] using hu4.symm
      subst u4
      have hget : ∀ j, ((emitInsn (.loopAgain s.insns.size) s2).insns.set! s.insns.size
          (.enterLoop s.nextLoopId q.min (maxIters q) q.greedy (s2.insns.size + 1)))[j]? =
          if j = s.insns.size then some (.enterLoop s.nextLoopId q.min (maxIters q) q.greedy (s2.insns.size + 1))
          else (emitInsn (.loopAgain s.insns.size) s2).insns[j]? := by
        intro j
        rw [getElem?_set!]
        by_cases hj : j = s.insns.size
        · subst hj; simp; omega
        · have : ¬ s.insns.size = j := fun hh => hj hh.symm
          simp [hj, this]
      refine ⟨⟨by simp; omega, fun j hj => ?_, ?_, ?_, ?_⟩, ?_, fun l hl => ?_⟩
      · dsimp only
        rw [hget, if_neg (by omega), e3.pre _ (by omega), ih.1.pre _ (by omega), hs1at, if_pos hj]
      · intro i x hx; exact ih.1.br i x (by rw [hB]; exact hx)
      · exact e3.uni.trans (ih.1.uni.trans hU)
      · exact e3.lb.trans (ih.1.lb.trans hL)
      · refine ⟨fun l hl => ?_, fun g hg => ?_⟩
        · have := ih.2.1.loops (l + 1) (by rw [hN, hl]; exact mod_succ_65536 l)
          simpa [numLoops, Nat.add_assoc, Nat.add_comm 1, emitInsn] using this
        · have := ih.2.1.groups g (by rw [hG]; exact hg)
          simpa [numGroups, emitInsn] using this
      · simp only [Code]
        refine ⟨s2.insns.size, ?_, ?_, ?_, ?_, ?_⟩
        · unfold At; rw [hget, if_pos rfl, hl]
          simp [sz3]
        · intro i hi
          unfold At
          rw [hget, if_neg (by omega), e3.pre _ (by omega), ih.1.pre _ (by omega), hs1at,
            if_neg (by omega), if_neg (by omega), if_pos (by omega)]
          congr 2; omega
        · have := ih.2.2 (l + 1) (by rw [hN, hl]; exact mod_succ_65536 l)
          rw [sz1, hU, hL] at this
          refine Code.stable (fun _ _ h => h) this (fun j hj1 hj2 => ?_)
          rw [hget, if_neg (by omega)]
          exact e3.pre j hj2
        · unfold At; rw [hget, if_neg (by omega)]; exact at_emitInsn _ s2
        · simp [sz3]
theorem emitNodes_spec : ∀ (ns : List Node) (s s' : EmitState), emitNodes ns s = .ok s' →
    Ext s s' ∧ Cnt s s' (numLoopsList ns) (numGroupsList ns) ∧
    ∀ l, s.nextLoopId = l % 65536 →
      CodeList s'.insns s'.brackets s.unicode ns s.inLookbehind s.insns.size s'.insns.size l
  | [], s, s', h => by
    simp only [emitNodes] at h; cases h
    exact ⟨Ext.refl s, Cnt.refl s, fun l _ => by simp [CodeList]⟩
  | n :: ns, s, s', h => by
    simp only [emitNodes] at h
    split at h
    · cases h
    · rename_i s1 h1
      have ih1 := emitNode_spec n s s1 h1
      have ih2 := emitNodes_spec ns s1 s' h
      refine ⟨ih1.1.trans ih2.1, by simpa [numLoopsList, numGroupsList] using ih1.2.1.trans ih2.2.1,
        fun l hl => ?_⟩
      simp only [CodeList]
      refine ⟨s1.insns.size, ?_, ?_⟩
      · exact Code.stable ih2.1.br (ih1.2.2 l hl) (ih2.1.agree _)
      · have := ih2.2.2 (l + numLoops n) (ih1.2.1.loops l hl)
        rw [ih1.1.uni, ih1.1.lb] at this
        exact this
end

end Regress.Keystone
