import Proofs.Lemmas.CertsParse
/-!
# Certificates, part 1b: the capture-group pre-scan counts exactly the groups the descent creates

`parse_capture_groups` (`scanLoop`) runs over the raw pattern before the recursive descent and counts
the capturing `(` with a much simpler notion of context (a backslash skips one code point, a `[` skips
to the matching `]` — `skipBracket`, or `skipBracketV` with nesting under the `v` flag). Numeric and
named back-references are validated against that count. Here: for every pattern the descent ACCEPTS,
the (unsaturated) pre-scan count `P.preScanCount pat fl` is the number of capture groups of the parsed
tree (`parse_prescan_eq`); with `parse_refs_partial` this is `refsOK (numGroups re.node) re.node`, hence
`parse_irOK : irOK re.node = true` and `parse_irOK2`.

Method: every sub-parser consumes a prefix of the input; the pre-scan, run over the consumed prefix,
comes back to the same scanning context having counted exactly the groups the sub-parser built
(`CC us inp`: the count from `inp` on, fuel-free). The leaf parsers shared between the top level and
the two kinds of brackets (escapes, names, property names, digits) are shown invisible to all three
scanners at once (`TrR`).

All helper lemmas are in namespace `Regress.Certs.P2`.
-/
namespace Regress.Certs.P2

open Regress Regress.IR Regress.Parse Regress.Closure Regress.E2E Regress.Certs Regress.Certs.P

/-! ## The bracket skippers return suffixes -/

theorem skipBracket_suf : ∀ (l : List Nat), skipBracket l <:+ l := by
  intro l
  fun_induction skipBracket l
  · exact suf_refl _
  · exact List.nil_suffix
  · rename_i c rest h r ih; exact suf_cons _ (suf_cons _ ih)
  · exact suf_cons _ (suf_refl _)
  · rename_i ih; exact suf_cons _ ih

theorem skipBracketV_suf : ∀ (l : List Nat) (d : Nat), skipBracketV l d <:+ l := by
  intro l d
  fun_induction skipBracketV l d
  · exact suf_refl _
  · exact List.nil_suffix
  · rename_i ih; exact suf_cons _ (suf_cons _ ih)
  · rename_i ih; exact suf_cons _ ih
  · exact suf_cons _ (suf_refl _)
  · rename_i ih; exact suf_cons _ ih
  · rename_i ih; exact suf_cons _ ih

theorem scanParen_suf {rest : List Nat} {b : Bool} {nm : Option (List Nat)} {r : List Nat}
    (h : scanParen rest = .ok (b, nm, r)) : r <:+ rest := by
  unfold scanParen at h
  split at h
  · rename_i rest2
    have hn := tryConsumeName_ens rest2
    split at h
    · cases h
    · rename_i heq; cases h; exact suf_cons _ (hn.ok_of_eq heq)
    · rename_i heq; cases h; exact suf_cons _ (hn.ok_of_eq heq)
  · cases h; exact suf_refl _

/-! ## The count does not depend on the fuel -/

theorem capCount_fuel (us : Bool) : ∀ (f1 f2 : Nat) (inp : List Nat), inp.length < f1 → inp.length < f2 →
    capCount us f1 inp = capCount us f2 inp := by
  intro f1
  induction f1 with
  | zero => intro f2 inp h; omega
  | succ k ih =>
    intro f2 inp h1 h2
    cases f2 with
    | zero => omega
    | succ k2 =>
      unfold capCount
      cases inp with
      | nil => rfl
      | cons c rest =>
        simp only [List.length_cons] at h1 h2
        simp only
        split
        · have := (List.drop_suffix 1 rest).length_le
          exact ih _ _ (by omega) (by omega)
        split
        · have : (if us = true then skipBracketV rest 1 else skipBracket rest).length ≤ rest.length := by
            split
            · exact (skipBracketV_suf _ _).length_le
            · exact (skipBracket_suf _).length_le
          exact ih _ _ (by omega) (by omega)
        split
        · split
          · rfl
          · rename_i b nm r heq
            have := (scanParen_suf heq).length_le
            rw [ih k2 r (by omega) (by omega)]
        · exact ih _ _ (by omega) (by omega)

/-- The number of capturing `(` the pre-scan counts from `inp` on. -/
def CC (us : Bool) (inp : List Nat) : Nat := capCount us (inp.length + 1) inp

theorem CC_eq (us : Bool) {f : Nat} {inp : List Nat} (h : inp.length < f) : capCount us f inp = CC us inp :=
  capCount_fuel us _ _ _ h (Nat.lt_succ_self _)

theorem CC_nil (us : Bool) : CC us [] = 0 := rfl

theorem CC_bs (us : Bool) (rest : List Nat) : CC us (0x5C :: rest) = CC us (rest.drop 1) := by
  unfold CC
  rw [capCount]
  simp only [beq_self_eq_true, if_true]
  exact CC_eq us (by have := (List.drop_suffix 1 rest).length_le; simp only [List.length_cons]; omega)

theorem CC_bs2 (us : Bool) (x : Nat) (rest : List Nat) : CC us (0x5C :: x :: rest) = CC us rest := by
  rw [CC_bs]; rfl

theorem CC_bracket (us : Bool) (rest : List Nat) :
    CC us (0x5B :: rest) = CC us (if us then skipBracketV rest 1 else skipBracket rest) := by
  unfold CC
  rw [capCount]
  simp only [show ((0x5B : Nat) == 0x5C) = false by decide, beq_self_eq_true, if_true, Bool.false_eq_true,
    if_false]
  refine CC_eq us ?_
  have : (if us = true then skipBracketV rest 1 else skipBracket rest).length ≤ rest.length := by
    split
    · exact (skipBracketV_suf _ _).length_le
    · exact (skipBracket_suf _).length_le
  simp only [List.length_cons]; omega

theorem CC_paren (us : Bool) (rest : List Nat) :
    CC us (0x28 :: rest) = (match scanParen rest with
      | .error _ => 0
      | .ok (b, _, r) => CC us r + (if b then 1 else 0)) := by
  unfold CC
  rw [capCount]
  simp only [show ((0x28 : Nat) == 0x5C) = false by decide, show ((0x28 : Nat) == 0x5B) = false by decide,
    beq_self_eq_true, if_true, Bool.false_eq_true, if_false]
  cases hsp : scanParen rest with
  | error e => rfl
  | ok v =>
    obtain ⟨b, nm, r⟩ := v
    have := (scanParen_suf hsp).length_le
    simp only
    rw [CC_eq us (by simp only [List.length_cons]; omega)]
    rfl

theorem CC_other (us : Bool) {c : Nat} (rest : List Nat) (h1 : c ≠ 0x5C) (h2 : c ≠ 0x5B) (h3 : c ≠ 0x28) :
    CC us (c :: rest) = CC us rest := by
  unfold CC
  rw [capCount]
  simp only [beq_iff_eq, h1, h2, h3, if_false]
  exact CC_eq us (by simp)

/-! ## Invisible to the pre-scan -/

/-- `inp` and `rest` look the same to the pre-scan in every context (top level, inside a legacy
bracket, inside a `v`-mode bracket at any depth). -/
structure TrR (inp rest : List Nat) : Prop where
  cc : ∀ us, CC us inp = CC us rest
  sb : skipBracket inp = skipBracket rest
  sv : ∀ d, skipBracketV inp d = skipBracketV rest d

theorem TrR.refl (l : List Nat) : TrR l l := ⟨fun _ => rfl, rfl, fun _ => rfl⟩

theorem TrR.trans {a b c : List Nat} (h1 : TrR a b) (h2 : TrR b c) : TrR a c :=
  ⟨fun us => (h1.cc us).trans (h2.cc us), h1.sb.trans h2.sb, fun d => (h1.sv d).trans (h2.sv d)⟩

/-- Not one of `\`, `[`, `]`, `(`. -/
def Plain (c : Nat) : Prop := c ≠ 0x5C ∧ c ≠ 0x5B ∧ c ≠ 0x5D ∧ c ≠ 0x28

theorem TrR.plain {c : Nat} (h : Plain c) (r : List Nat) : TrR (c :: r) r := by
  obtain ⟨h1, h2, h3, h4⟩ := h
  refine ⟨fun us => CC_other us r h1 h2 h4, ?_, fun d => ?_⟩
  · rw [skipBracket.eq_def]; simp [h1, h3]
  · rw [skipBracketV.eq_def]; simp [h1, h2, h3]

theorem TrR.esc (x : Nat) (r : List Nat) : TrR (0x5C :: x :: r) r := by
  refine ⟨fun us => CC_bs2 us x r, ?_, fun d => ?_⟩
  · rw [skipBracket.eq_def]; simp
  · rw [skipBracketV.eq_def]; simp

theorem TrR.plains : ∀ {pre : List Nat}, (∀ c ∈ pre, Plain c) → ∀ (r : List Nat), TrR (pre ++ r) r
  | [], _, r => TrR.refl r
  | c :: t, h, r => (TrR.plain (h c (by simp)) (t ++ r)).trans (TrR.plains (fun d hd => h d (by simp [hd])) r)

theorem plain_of_ne {c : Nat} (h1 : c ≠ 0x5C) (h2 : c ≠ 0x5B) (h3 : c ≠ 0x5D) (h4 : c ≠ 0x28) : Plain c :=
  ⟨h1, h2, h3, h4⟩

theorem plain_digit {c : Nat} (h : isAsciiDigit c = true) : Plain c := by
  simp [isAsciiDigit] at h; unfold Plain; omega

theorem plain_hex {c d : Nat} (h : hexDigit? c = some d) : Plain c := by
  unfold hexDigit? at h
  unfold Plain
  split at h
  · rename_i hc; simp at hc; omega
  · split at h
    · rename_i hc; simp at hc; omega
    · split at h
      · rename_i hc; simp at hc; omega
      · cases h

/-! ## Digits, quantifiers -/

theorem decimalLoop_tr : ∀ (inp : List Nat) (r k : Nat), TrR inp (decimalLoop inp r k).2.2
  | [], _, _ => TrR.refl _
  | c :: rest, r, k => by
    unfold decimalLoop
    split
    · rename_i h; exact (TrR.plain (plain_digit h) rest).trans (decimalLoop_tr rest _ _)
    · exact TrR.refl _

theorem decimalLiteral_tr (inp : List Nat) : TrR inp (decimalLiteral inp).2 := by
  unfold decimalLiteral
  have := decimalLoop_tr inp 0 0
  generalize decimalLoop inp 0 0 = x at this
  obtain ⟨r, k, rest⟩ := x
  simp only at this ⊢
  split <;> exact this

theorem bracedQuantifier_tr {inp : List Nat} {q : Option Quant} {rest : List Nat}
    (hh : ∀ c r, inp = c :: r → c = 0x7B) : bracedQuantifier inp = .ok (q, rest) → TrR inp rest := by
  fun_cases bracedQuantifier inp
  all_goals try simp only [*]
  · intro h; cases h
  · intro h; cases h; exact TrR.refl _
  · rename_i c rest0 mn rest1 hd mx r hx
    intro h; cases h
    have hc := hh c rest0 rfl; subst hc
    have h0 : TrR (0x7B :: rest0) rest0 := TrR.plain (by unfold Plain; omega) _
    have h1 := decimalLiteral_tr rest0
    rw [hd] at h1
    simp only at h1
    have h2 : TrR rest1 (0x7D :: rest) := by
      split at hx
      · rename_i r'
        have h3 := decimalLiteral_tr r'
        have hc : TrR (0x2C :: r') r' := TrR.plain (by unfold Plain; omega) _
        split at hx
        rename_i mx' r'' hd2
        rw [hd2] at h3
        split at hx
        · cases hx; exact hc.trans h3
        · cases hx; exact hc.trans h3
      · cases hx; exact TrR.refl _
    exact h0.trans (h1.trans (h2.trans (TrR.plain (by unfold Plain; omega) _)))
  · intro h; cases h; exact TrR.refl _

theorem quantifierPrefix_tr {u : Bool} {inp : List Nat} {q : Option Quant} {rest : List Nat}
    (h : quantifierPrefix u inp = .ok (q, rest)) : TrR inp rest := by
  unfold quantifierPrefix at h
  split at h
  · cases h; exact TrR.refl _
  · rename_i c rest0
    split at h
    · cases h; rename_i hc; simp at hc; subst hc; exact TrR.plain (by unfold Plain; omega) _
    split at h
    · cases h; rename_i hc; simp at hc; subst hc; exact TrR.plain (by unfold Plain; omega) _
    split at h
    · cases h; rename_i hc; simp at hc; subst hc; exact TrR.plain (by unfold Plain; omega) _
    split at h
    · rename_i hc; simp at hc; subst hc
      split at h
      · cases h
      · rename_i q' r heq; cases h; exact bracedQuantifier_tr (by intro c r h; cases h; rfl) heq
      · rename_i r heq
        split at h
        · cases h
        · cases h; exact bracedQuantifier_tr (by intro c r h; cases h; rfl) heq
    · cases h; exact TrR.refl _

theorem quantifier_tr {u : Bool} {inp : List Nat} {q : Option Quant} {rest : List Nat}
    (h : quantifier u inp = .ok (q, rest)) : TrR inp rest := by
  unfold quantifier at h
  split at h
  · cases h
  · rename_i r heq; cases h; exact quantifierPrefix_tr heq
  · rename_i q' r heq
    have h1 := quantifierPrefix_tr heq
    split at h
    · cases h; exact h1.trans (TrR.plain (by unfold Plain; omega) _)
    · cases h; exact h1

/-! ## `\u` escapes, character escapes -/

theorem scanBrace_spec : ∀ {inp acc s rest : List Nat}, scanBrace inp acc = some (s, rest) →
    ∃ t, s = acc ++ t ∧ inp = t ++ 0x7D :: rest
  | [], _, _, _, h => by simp [scanBrace] at h
  | c :: tl, acc, s, rest, h => by
    unfold scanBrace at h
    split at h
    · cases h
    · split at h
      · rename_i hc; simp at hc; subst hc; cases h; exact ⟨[], by simp, rfl⟩
      · obtain ⟨t, h1, h2⟩ := scanBrace_spec h
        exact ⟨c :: t, by simp [h1], by simp [h2]⟩

theorem hexDigits_plain {s : List Nat} {u : Nat} (h : hexDigitsRadix16 s = some u) : ∀ c ∈ s, Plain c := by
  unfold hexDigitsRadix16 at h
  split at h
  · rename_i hall
    intro c hc
    have := List.all_eq_true.1 hall c hc
    cases hd : hexDigit? c with
    | none => simp [hd] at this
    | some d => exact plain_hex hd
  · cases h

theorem take4_tr {inp s rest : List Nat} {u : Nat} (h : take4 inp = some (s, rest))
    (h2 : hexDigitsRadix16 s = some u) : TrR inp rest := by
  obtain ⟨a, b, c, d, rfl, rfl⟩ := take4_eq h
  exact TrR.plains (pre := [a, b, c, d]) (hexDigits_plain h2) rest

theorem tryEscapeUnicodeSequence_tr (inp : List Nat) : TrR inp (tryEscapeUnicodeSequence inp).2 := by
  fun_cases tryEscapeUnicodeSequence inp
  all_goals try simp only [*]
  all_goals try (exact TrR.refl _)
  all_goals try (exact take4_tr ‹take4 inp = _› ‹_›)
  · -- \u{…}
    rename_i rest s rest' hs u hu _
    obtain ⟨t, h1, h2⟩ := scanBrace_spec hs
    simp only [List.nil_append] at h1; subst h1
    rw [h2]
    refine (TrR.plain (by unfold Plain; omega) _).trans ?_
    refine (TrR.plains (hexDigits_plain hu) _).trans (TrR.plain (by unfold Plain; omega) _)
  · -- surrogate pair
    rename_i s1 uu1 hx1 hr1 rest2 s2 rest' ht2 uu2 hx2 hr2 hne ht1
    simp only [if_true]
    have h1 := take4_tr ht1 hx1
    have h2 := take4_tr ht2 hx2
    exact h1.trans ((TrR.esc _ _).trans h2)

theorem plain_octal {c : Nat} (h : isOctalDigit c = true) : Plain c := by
  simp [isOctalDigit] at h; unfold Plain; omega

theorem plain_alpha {c : Nat} (h : isAsciiAlpha c = true) : Plain c := by
  simp [isAsciiAlpha, isAsciiLower, isAsciiUpper] at h; unfold Plain; omega

theorem hex2_tr (c : Nat) (rest0 : List Nat) {a b : Nat}
    (h1 : (match rest0 with | a :: _ => hexDigit? a | [] => none) = some a)
    (h2 : (match (generalizing := false) rest0 with | _ :: b :: _ => hexDigit? b | _ => none) = some b) :
    TrR (0x5C :: c :: rest0) (rest0.drop 2) := by
  match rest0, h1, h2 with
  | [], h1, _ => simp at h1
  | [_], _, h2 => simp at h2
  | p :: q :: r, h1, h2 =>
    exact (TrR.esc _ _).trans ((TrR.plain (plain_hex h1) _).trans (TrR.plain (plain_hex h2) _))

theorem uesc_tr (c : Nat) {rest0 rest : List Nat} {o : Option Nat}
    (h : tryEscapeUnicodeSequence rest0 = (o, rest)) : TrR (0x5C :: c :: rest0) rest := by
  have := tryEscapeUnicodeSequence_tr rest0
  rw [h] at this
  exact (TrR.esc _ _).trans this

/-- A character escape, with its backslash, is invisible to the pre-scan. -/
theorem characterEscape_tr {u hn : Bool} {inp : List Nat} {ch : Nat} {rest : List Nat} :
    characterEscape u hn inp = .ok (ch, rest) → TrR (0x5C :: inp) rest := by
  fun_cases characterEscape u hn inp
  all_goals try simp only [*]
  all_goals try (simp [synErr, panicAt]; done)
  all_goals intro h
  all_goals cases h
  all_goals try (exact TrR.esc _ _)
  -- \cX
  · exact (TrR.esc _ _).trans (TrR.plain (plain_alpha ‹_›) _)
  -- \xHH
  · rename_i x1 x2 a b hx2 hx1
    exact hex2_tr _ _ hx1 hx2
  -- \u
  · rename_i hx; exact uesc_tr _ hx
  · rename_i hx; exact uesc_tr _ hx
  -- octal
  all_goals (
    have ho : ∀ c, ¬ (!isOctalDigit c) = true → Plain c := fun c hc => plain_octal (by simpa using hc))
  · exact (TrR.esc _ _).trans (TrR.plain (ho _ ‹_›) _)
  · exact (TrR.esc _ _).trans ((TrR.plain (ho _ ‹_›) _).trans (TrR.plain (plain_octal ‹_›) _))
  · exact (TrR.esc _ _).trans (TrR.plain (ho _ ‹_›) _)
  · exact (TrR.esc _ _).trans (TrR.plain (ho _ ‹_›) _)


/-! ## Property escapes, group names, modifiers -/

theorem consumeEscapeLoop_tr (us : Bool) : ∀ (inp : List Nat) (buf : Nat) (name : Option Nat)
    (k : Props.Kind) (rest : List Nat), Props.consumeEscapeLoop us inp buf name = some (k, rest) →
    TrR inp rest
  | [], _, _, _, _, h => by simp [Props.consumeEscapeLoop] at h
  | c :: tl, buf, name, k, rest, h => by
    unfold Props.consumeEscapeLoop at h
    split at h
    · rename_i hc; simp at hc; subst hc
      split at h
      · cases h; exact TrR.plain (by unfold Plain; omega) _
      · cases h
    · split at h
      · rename_i hc; simp at hc
        split at h
        · exact (TrR.plain (by unfold Plain; omega) _).trans (consumeEscapeLoop_tr us tl _ _ _ _ h)
        · cases h
      · split at h
        · rename_i hc
          refine (TrR.plain ?_ _).trans (consumeEscapeLoop_tr us tl _ _ _ _ h)
          simp [Props.isAsciiAlnum] at hc
          unfold Plain; omega
        · cases h

theorem propertyEscape_tr {us : Bool} {inp : List Nat} {k : PropKind} {rest : List Nat}
    (h : propertyEscape us inp = .ok (k, rest)) : TrR inp rest := by
  unfold propertyEscape at h
  have key : ∀ k', Props.consumePropertyEscape us inp = some (k', rest) → TrR inp rest := by
    intro k' h'
    unfold Props.consumePropertyEscape at h'
    split at h'
    · exact (TrR.plain (by unfold Plain; omega) _).trans (consumeEscapeLoop_tr us _ _ _ _ _ h')
    · cases h'
  split at h
  · cases h
  · rename_i heq; cases h; exact key _ heq
  · rename_i heq
    split at h
    · cases h; exact key _ heq
    · cases h

theorem plain_idStart {c : Nat} (h : isIdStart c = true) : Plain c := by
  refine ⟨?_, ?_, ?_, ?_⟩ <;> (intro hc; subst hc; revert h; decide +kernel)

theorem plain_idContinue {c : Nat} (h : isIdContinue c = true) : Plain c := by
  refine ⟨?_, ?_, ?_, ?_⟩ <;> (intro hc; subst hc; revert h; decide +kernel)

theorem nameChar_tr {inp : List Nat} {c : Nat} {rest : List Nat} (h : nameChar inp = some (c, rest)) :
    TrR inp rest ∨ inp = c :: rest := by
  unfold nameChar at h
  split at h
  · cases h
  · rename_i c0 rest0
    split at h
    · cases h
    · split at h
      · rename_i hc; simp at hc; subst hc
        split at h
        · rename_i rest2
          split at h
          · rename_i e rest3 heq
            split at h
            · cases h; exact .inl (uesc_tr _ heq)
            · cases h
          · cases h
        · cases h; exact .inr rfl
      · cases h; exact .inr rfl

theorem nameLoop_tr : ∀ (fuel : Nat) (inp acc orig name rest : List Nat),
    nameLoop fuel inp acc orig = .ok (some name, rest) → TrR inp rest
  | 0, _, _, _, _, _, h => by simp [nameLoop, panicAt] at h
  | fuel+1, inp, acc, orig, name, rest, h => by
    unfold nameLoop at h
    split at h
    · cases h
    · rename_i c0 rest0
      split at h
      · rename_i hc; simp at hc; subst hc
        cases h
        exact TrR.plain (by unfold Plain; omega) _
      · split at h
        · cases h
        · rename_i c rest1 hnc
          have h1 := nameChar_tr hnc
          split at h
          · rename_i hid
            have h2 := nameLoop_tr fuel _ _ _ _ _ h
            rcases h1 with h1 | h1
            · exact h1.trans h2
            · rw [h1]; exact (TrR.plain (plain_idContinue hid) _).trans h2
          · cases h

theorem tryConsumeName_tr {inp name rest : List Nat} (h : tryConsumeName inp = .ok (some name, rest)) :
    TrR inp rest := by
  unfold tryConsumeName at h
  split at h
  · rename_i orig
    refine (TrR.plain (by unfold Plain; omega) _).trans ?_
    split at h
    · cases h
    · rename_i c rest1 hnc
      have h1 := nameChar_tr hnc
      split at h
      · rename_i hid
        have h2 := nameLoop_tr _ _ _ _ _ _ h
        rcases h1 with h1 | h1
        · exact h1.trans h2
        · rw [h1]; exact (TrR.plain (plain_idStart hid) _).trans h2
      · cases h
  · cases h

theorem modifierScan_tr : ∀ (inp : List Nat) (m m' : Mods) (rest : List Nat),
    modifierScan inp m = .ok (m', rest) → TrR inp rest
  | [], _, _, _, h => by simp [modifierScan, synErr] at h
  | ch :: tl, m, m', rest, h => by
    unfold modifierScan at h
    split at h
    · rename_i hc; simp at hc; subst hc
      split at h
      · cases h
      · exact (TrR.plain (by unfold Plain; omega) _).trans (modifierScan_tr _ _ _ _ h)
    split at h
    · rename_i hc; simp at hc; subst hc
      split at h
      · cases h
      · exact (TrR.plain (by unfold Plain; omega) _).trans (modifierScan_tr _ _ _ _ h)
    split at h
    · rename_i hc; simp at hc; subst hc
      split at h
      · cases h
      · exact (TrR.plain (by unfold Plain; omega) _).trans (modifierScan_tr _ _ _ _ h)
    split at h
    · rename_i hc; simp at hc; subst hc
      split at h
      · cases h
      · exact (TrR.plain (by unfold Plain; omega) _).trans (modifierScan_tr _ _ _ _ h)
    split at h
    · rename_i hc; simp at hc; subst hc
      split at h
      · cases h
      · cases h; exact TrR.plain (by unfold Plain; omega) _
    · cases h

/-! ## Legacy brackets: `consume_bracket` stops where `skipBracket` stops -/

theorem skipBracket_other {c : Nat} (rest : List Nat) (h1 : c ≠ 0x5C) (h2 : c ≠ 0x5D) :
    skipBracket (c :: rest) = skipBracket rest := by
  rw [skipBracket.eq_def]; simp [h1, h2]

theorem skipBracket_close (rest : List Nat) : skipBracket (0x5D :: rest) = rest := by
  rw [skipBracket.eq_def]; simp

theorem bracketClassAtom_sb {fl : Flags} {hn : Bool} {inp : List Nat} {a : Option ClassAtom}
    {inp1 : List Nat} : bracketClassAtom fl hn inp = .ok (a, inp1) →
    skipBracket inp = skipBracket inp1 := by
  fun_cases bracketClassAtom fl hn inp
  all_goals try simp only [*]
  all_goals try (simp [synErr]; done)
  all_goals intro h
  all_goals cases h
  all_goals try rfl
  all_goals try (
    have hbs := (beq_iff_eq (α := Nat)).1 ‹(_ == 92) = true›
    subst hbs)
  all_goals try (exact (TrR.esc _ _).sb)
  -- \c + digit / `_`
  · have hn' := ‹(isAsciiDigit _ || _ == 95) = true›
    refine ((TrR.esc _ _).trans (TrR.plain ?_ _)).sb
    simp [isAsciiDigit] at hn'; unfold Plain; omega
  · exact ((TrR.esc _ _).trans (TrR.plain (plain_alpha ‹_›) _)).sb
  -- \c + something else: a literal backslash, the `c` is read again
  · have hc := ‹(_ == 99 && !fl.unicode) = true›
    simp at hc
    obtain ⟨hc, _⟩ := hc
    subst hc
    rw [(TrR.esc _ _).sb]; exact (skipBracket_other _ (by omega) (by omega)).symm
  · have hc := ‹(_ == 99 && !fl.unicode) = true›
    simp at hc
    obtain ⟨hc, _⟩ := hc
    subst hc
    rw [(TrR.esc _ _).sb]; exact (skipBracket_other _ (by omega) (by omega)).symm
  -- \p
  · exact ((TrR.esc _ _).trans (propertyEscape_tr ‹_›)).sb
  -- character escapes
  · exact (characterEscape_tr ‹_›).sb
  -- a plain class character
  · rename_i h1 h2
    simp at h1 h2
    exact skipBracket_other _ h2 h1

theorem bracketLoop_sb (fl : Flags) (hn inv : Bool) : ∀ (fuel : Nat) (inp : List Nat) (cps : CPS.IvList)
    (n : Node) (rest : List Nat), bracketLoop fl hn inv fuel inp cps = .ok (n, rest) →
    skipBracket inp = rest := by
  intro fuel
  induction fuel with
  | zero => intro inp cps n rest h; simp [bracketLoop, panicAt] at h
  | succ k ih =>
    intro inp cps n rest h
    unfold bracketLoop at h
    simp only at h
    split at h
    · cases h
    · rename_i c rest0
      split at h
      · rename_i hc; simp at hc; subst hc; cases h; exact skipBracket_close _
      · split at h
        · cases h
        · rename_i inp1 heq
          rw [bracketClassAtom_sb heq]; exact ih _ _ _ _ h
        · rename_i first inp1 heq
          rw [bracketClassAtom_sb heq]
          split at h
          · rename_i inp2
            rw [skipBracket_other _ (by omega) (by omega)]
            split at h
            · cases h
            · rename_i inp3 heq2
              rw [bracketClassAtom_sb heq2]; exact ih _ _ _ _ h
            · rename_i second inp3 heq2
              rw [bracketClassAtom_sb heq2]
              split at h
              · split at h
                · cases h
                · exact ih _ _ _ _ h
              · split at h
                · cases h
                · exact ih _ _ _ _ h
          · exact ih _ _ _ _ h

/-- `consume_bracket` stops exactly where the pre-scan's `skipBracket` stops. -/
theorem consumeBracket_sb {fl : Flags} {hn : Bool} {c0 : Nat} {rest0 : List Nat} {n : Node}
    {rest : List Nat} (h : consumeBracket fl hn (c0 :: rest0) = .ok (n, rest)) :
    skipBracket rest0 = rest := by
  unfold consumeBracket at h
  simp only at h
  split at h
  · rw [skipBracket_other _ (by omega) (by omega)]
    exact bracketLoop_sb _ _ _ _ _ _ _ _ h
  · exact bracketLoop_sb _ _ _ _ _ _ _ _ h

/-! ## `v`-mode classes: `consume_class_set_expression` stops where `skipBracketV` stops -/

theorem skipBracketV_other {c : Nat} (rest : List Nat) (d : Nat) (h1 : c ≠ 0x5C) (h2 : c ≠ 0x5B)
    (h3 : c ≠ 0x5D) : skipBracketV (c :: rest) d = skipBracketV rest d := by
  rw [skipBracketV.eq_def]; simp [h1, h2, h3]

/-- What `skipBracketV` does at a `]` seen at depth `k`. -/
def closeV (rest : List Nat) (k : Nat) : List Nat := if k - 1 == 0 then rest else skipBracketV rest (k - 1)

theorem skipBracketV_close (rest : List Nat) (k : Nat) : skipBracketV (0x5D :: rest) k = closeV rest k := by
  rw [skipBracketV.eq_def]; simp [closeV]

theorem skipBracketV_open (rest : List Nat) (k : Nat) : skipBracketV (0x5B :: rest) k = skipBracketV rest (k + 1) := by
  rw [skipBracketV.eq_def]; simp

theorem closeV_succ (rest : List Nat) {k : Nat} (hk : 1 ≤ k) : closeV rest (k + 1) = skipBracketV rest k := by
  unfold closeV
  have : ¬ (k + 1 - 1 == 0) = true := by simp; omega
  rw [if_neg this]; simp

theorem classSetCharacter_sv {u hn : Bool} {inp : List Nat} {c : Nat} {rest : List Nat} :
    classSetCharacter u hn inp = .ok (c, rest) → ∀ d, skipBracketV inp d = skipBracketV rest d := by
  fun_cases classSetCharacter u hn inp
  all_goals try simp only [*]
  all_goals try (simp [synErr]; done)
  all_goals intro h
  all_goals try (
    have hbs := (beq_iff_eq (α := Nat)).1 ‹(_ == 92) = true›
    subst hbs)
  · cases h; exact (TrR.esc _ _).sv
  · cases h; exact (TrR.esc _ _).sv
  · exact (characterEscape_tr h).sv
  · cases h
    rename_i h1 h2 _
    simp at h1 h2
    intro d
    exact skipBracketV_other _ _ h1 (by omega) (by omega)

theorem classStringLoop_sv (u hn : Bool) : ∀ (fuel : Nat) (inp : List Nat) (alts : List (List Nat))
    (alt : List Nat) (as : List (List Nat)) (rest : List Nat),
    classStringLoop u hn fuel inp alts alt = .ok (as, rest) → ∀ d, skipBracketV inp d = skipBracketV rest d := by
  intro fuel
  induction fuel with
  | zero => intro inp alts alt as rest h; simp [classStringLoop, panicAt] at h
  | succ k ih =>
    intro inp alts alt as rest h d
    unfold classStringLoop at h
    split at h
    · cases h
    · rename_i c rest0
      split at h
      · rename_i hc; simp at hc; subst hc; cases h
        exact skipBracketV_other _ _ (by omega) (by omega) (by omega)
      · split at h
        · rename_i hc; simp at hc; subst hc
          rw [skipBracketV_other _ _ (by omega) (by omega) (by omega)]
          exact ih _ _ _ _ _ h d
        · split at h
          · cases h
          · rename_i ch rest' heq
            rw [classSetCharacter_sv heq d]
            exact ih _ _ _ _ _ h d

/-- The induction hypothesis / conclusion for the class-set functions at a given amount of fuel:
an expression (or one of its three loops) consumes up to and including the `]` that closes the current
bracket; an operand leaves the depth as it is. -/
structure ClassSV (fl : Flags) (hn : Bool) (fuel : Nat) : Prop where
  expr : ∀ st p, classSetExpression fl hn fuel st = .ok p → ∀ k, 1 ≤ k →
    skipBracketV st.inp k = closeV p.2.inp k
  union : ∀ st r p, classSetUnion fl hn fuel st r = .ok p → ∀ k, 1 ≤ k →
    skipBracketV st.inp k = closeV p.2.inp k
  inter : ∀ st r p, classSetIntersection fl hn fuel st r = .ok p → ∀ k, 1 ≤ k →
    skipBracketV st.inp k = closeV p.2.inp k
  sub : ∀ st r p, classSetSubtraction fl hn fuel st r = .ok p → ∀ k, 1 ≤ k →
    skipBracketV st.inp k = closeV p.2.inp k
  operand : ∀ st p, classSetOperand fl hn fuel st = .ok p → ∀ k, 1 ≤ k →
    skipBracketV st.inp k = skipBracketV p.2.inp k

theorem classSetOperand_sv {fl : Flags} {hn : Bool} (fuel : Nat) (ih : ClassSV fl hn fuel) (st : CSt)
    (p : Operand × CSt) (k : Nat) (hk : 1 ≤ k) : classSetOperand fl hn (fuel + 1) st = .ok p →
    skipBracketV st.inp k = skipBracketV p.2.inp k := by
  generalize hfu : fuel + 1 = f
  fun_cases classSetOperand fl hn f st
  all_goals try simp only [*]
  all_goals try (simp [synErr, limErr, panicAt]; done)
  all_goals try (simp at hfu; done)
  all_goals try (cases hfu)
  all_goals intro h
  all_goals cases h
  all_goals try (
    have hbs := (beq_iff_eq (α := Nat)).1 ‹(_ == 92) = true›
    subst hbs)
  all_goals try (exact (TrR.esc _ _).sv k)
  -- nested class
  · rename_i ec rest1 hec invert rest hm result st1 hnm result' hinp st' hdep hx
    have hec := (beq_iff_eq (α := Nat)).1 hec
    subst hec
    show skipBracketV (91 :: rest1) k = skipBracketV st1.inp k
    have h1 := ih.expr _ _ hx (k + 1) (by omega)
    simp only at h1
    rw [closeV_succ _ hk] at h1
    rw [skipBracketV_open, ← h1]
    split at hm
    · cases hm; exact skipBracketV_other _ _ (by omega) (by omega) (by omega)
    · cases hm; rfl
  -- \q{…}
  · have hec := (beq_iff_eq (α := Nat)).1 ‹(_ == 113) = true›
    subst hec
    show skipBracketV (92 :: 113 :: 123 :: _) k = skipBracketV _ k
    rw [(TrR.esc _ _).sv, skipBracketV_other _ _ (by omega) (by omega) (by omega)]
    exact classStringLoop_sv _ _ _ _ _ _ _ _ ‹_› k
  -- \p, \P
  · exact ((TrR.esc _ _).trans (propertyEscape_tr ‹_›)).sv k
  · exact ((TrR.esc _ _).trans (propertyEscape_tr ‹_›)).sv k
  · exact ((TrR.esc _ _).trans (propertyEscape_tr ‹_›)).sv k
  -- character escapes
  · exact (characterEscape_tr ‹_›).sv k
  -- class characters
  · rename_i hinp hx
    rw [hinp] at hx
    exact classSetCharacter_sv hx k

theorem classSetUnion_sv {fl : Flags} {hn : Bool} (fuel : Nat) (ih : ClassSV fl hn fuel) (st : CSt)
    (r : ClassSet) (p : ClassSet × CSt) (k : Nat) (hk : 1 ≤ k) :
    classSetUnion fl hn (fuel + 1) st r = .ok p → skipBracketV st.inp k = closeV p.2.inp k := by
  generalize hfu : fuel + 1 = f
  fun_cases classSetUnion fl hn f st r
  all_goals try simp only [*]
  all_goals try (simp [synErr, panicAt]; done)
  all_goals try (simp at hfu; done)
  all_goals try (cases hfu)
  all_goals intro h
  · have hc := (beq_iff_eq (α := Nat)).1 ‹(_ == 93) = true›
    subst hc; cases h
    exact skipBracketV_close _ _
  · rename_i ec rest1 hne st1 inp2 hinp1 f' l' st2 hfl hinp hx2 hx1
    rw [← hinp, ih.operand _ _ hx1 k hk]
    simp only
    rw [hinp1, skipBracketV_other _ _ (by omega) (by omega) (by omega)]
    have := ih.operand _ _ hx2 k hk
    simp only at this
    rw [this]
    exact ih.union _ _ _ h k hk
  · rename_i ec rest1 hne first st1 hno hinp hx1
    rw [← hinp, ih.operand _ _ hx1 k hk]
    exact ih.union _ _ _ h k hk

theorem classSetIntersection_sv {fl : Flags} {hn : Bool} (fuel : Nat) (ih : ClassSV fl hn fuel) (st : CSt)
    (r : ClassSet) (p : ClassSet × CSt) (k : Nat) (hk : 1 ≤ k) :
    classSetIntersection fl hn (fuel + 1) st r = .ok p → skipBracketV st.inp k = closeV p.2.inp k := by
  generalize hfu : fuel + 1 = f
  fun_cases classSetIntersection fl hn f st r
  all_goals try simp only [*]
  all_goals try (simp [synErr, panicAt]; done)
  all_goals try (simp at hfu; done)
  all_goals try (cases hfu)
  all_goals intro h
  · have hx := ‹classSetOperand fl hn fuel st = _›
    have hi1 := ‹_ = _ :: _›
    have hc := (beq_iff_eq (α := Nat)).1 ‹(_ == 93) = true›
    subst hc; cases h
    rw [ih.operand _ _ hx k hk]
    simp only
    rw [hi1]; exact skipBracketV_close _ _
  · have hx := ‹classSetOperand fl hn fuel st = _›
    have hi1 := ‹_ = _ :: 38 :: _›
    have hc := (beq_iff_eq (α := Nat)).1 ‹(_ == 38) = true›
    subst hc
    rw [ih.operand _ _ hx k hk]
    simp only
    rw [hi1, skipBracketV_other _ _ (by omega) (by omega) (by omega),
      skipBracketV_other _ _ (by omega) (by omega) (by omega)]
    exact ih.inter _ _ _ h k hk

theorem classSetSubtraction_sv {fl : Flags} {hn : Bool} (fuel : Nat) (ih : ClassSV fl hn fuel) (st : CSt)
    (r : ClassSet) (p : ClassSet × CSt) (k : Nat) (hk : 1 ≤ k) :
    classSetSubtraction fl hn (fuel + 1) st r = .ok p → skipBracketV st.inp k = closeV p.2.inp k := by
  generalize hfu : fuel + 1 = f
  fun_cases classSetSubtraction fl hn f st r
  all_goals try simp only [*]
  all_goals try (simp [synErr, panicAt]; done)
  all_goals try (simp at hfu; done)
  all_goals try (cases hfu)
  all_goals intro h
  · have hx := ‹classSetOperand fl hn fuel st = _›
    have hi1 := ‹_ = _ :: _›
    have hc := (beq_iff_eq (α := Nat)).1 ‹(_ == 93) = true›
    subst hc; cases h
    rw [ih.operand _ _ hx k hk]
    simp only
    rw [hi1]; exact skipBracketV_close _ _
  · have hx := ‹classSetOperand fl hn fuel st = _›
    have hi1 := ‹_ = _ :: 45 :: _›
    have hc := (beq_iff_eq (α := Nat)).1 ‹(_ == 45) = true›
    subst hc
    rw [ih.operand _ _ hx k hk]
    simp only
    rw [hi1, skipBracketV_other _ _ (by omega) (by omega) (by omega),
      skipBracketV_other _ _ (by omega) (by omega) (by omega)]
    exact ih.sub _ _ _ h k hk

theorem classSetExpression_sv {fl : Flags} {hn : Bool} (fuel : Nat) (ih : ClassSV fl hn fuel) (st : CSt)
    (p : ClassSet × CSt) (k : Nat) (hk : 1 ≤ k) :
    classSetExpression fl hn (fuel + 1) st = .ok p → skipBracketV st.inp k = closeV p.2.inp k := by
  generalize hfu : fuel + 1 = f
  fun_cases classSetExpression fl hn f st
  all_goals try simp only [*]
  all_goals try (simp [synErr, panicAt]; done)
  all_goals try (simp at hfu; done)
  all_goals try (cases hfu)
  all_goals intro h
  -- `[]`
  · have hc := (beq_iff_eq (α := Nat)).1 ‹(_ == 93) = true›
    subst hc; cases h
    exact skipBracketV_close _ _
  all_goals (
    have hinp := ‹st.inp = _›
    have hx := ‹classSetOperand fl hn fuel st = _›
    rw [← hinp, ih.operand _ _ hx k hk]
    simp only)
  -- one operand
  · have hc := (beq_iff_eq (α := Nat)).1 ‹(_ == 93) = true›
    subst hc; cases h
    have hi1 := ‹_ = 93 :: _›
    rw [hi1]; exact skipBracketV_close _ _
  -- `&&`
  · have hi1 := ‹_ = _ :: 38 :: _›
    have hc := (beq_iff_eq (α := Nat)).1 ‹(_ == 38) = true›
    subst hc
    rw [hi1, skipBracketV_other _ _ (by omega) (by omega) (by omega),
      skipBracketV_other _ _ (by omega) (by omega) (by omega)]
    exact ih.inter _ _ _ h k hk
  -- a single `&`
  · exact ih.union _ _ _ h k hk
  -- `--`
  · have hi1 := ‹_ = _ :: 45 :: _›
    have hc := (beq_iff_eq (α := Nat)).1 ‹(_ == 45) = true›
    subst hc
    rw [hi1, skipBracketV_other _ _ (by omega) (by omega) (by omega),
      skipBracketV_other _ _ (by omega) (by omega) (by omega)]
    exact ih.sub _ _ _ h k hk
  -- a range
  · rename_i hx2 _
    have hc := (beq_iff_eq (α := Nat)).1 ‹(_ == 45) = true›
    subst hc
    have hi1 := ‹_ = 45 :: _›
    rw [hi1, skipBracketV_other _ _ (by omega) (by omega) (by omega)]
    have := ih.operand _ _ hx2 k hk
    simp only at this
    rw [this]
    simp only [if_false] at h
    exact ih.union _ _ _ h k hk
  -- union
  · exact ih.union _ _ _ h k hk

theorem classSV_all (fl : Flags) (hn : Bool) (fuel : Nat) : ClassSV fl hn fuel := by
  induction fuel with
  | zero =>
    refine ⟨?_, ?_, ?_, ?_, ?_⟩
    · intro st p h; simp [classSetExpression, panicAt] at h
    · intro st r p h; simp [classSetUnion, panicAt] at h
    · intro st r p h; simp [classSetIntersection, panicAt] at h
    · intro st r p h; simp [classSetSubtraction, panicAt] at h
    · intro st p h; simp [classSetOperand, panicAt] at h
  | succ k ih =>
    exact ⟨fun st p h k' hk => classSetExpression_sv k ih st p k' hk h,
      fun st r p h k' hk => classSetUnion_sv k ih st r p k' hk h,
      fun st r p h k' hk => classSetIntersection_sv k ih st r p k' hk h,
      fun st r p h k' hk => classSetSubtraction_sv k ih st r p k' hk h,
      fun st p h k' hk => classSetOperand_sv k ih st p k' hk h⟩

/-- `consume_class_set_expression` stops exactly where the pre-scan's `skipBracketV _ 1` stops. -/
theorem classSetExpression_stop {fl : Flags} {hn : Bool} {fuel : Nat} {st : CSt} {p : ClassSet × CSt}
    (h : classSetExpression fl hn fuel st = .ok p) : skipBracketV st.inp 1 = p.2.inp := by
  have := (classSV_all fl hn fuel).expr st p h 1 (Nat.le_refl _)
  simpa [closeV] using this

/-! ## Group heads -/

theorem idStart_eq : isIdStart 0x3D = false := by decide +kernel
theorem idStart_bang : isIdStart 0x21 = false := by decide +kernel

theorem CC_lookahead (us : Bool) (r : List Nat) : CC us (0x28 :: 0x3F :: 0x3D :: r) = CC us r := by
  rw [CC_paren]
  have : scanParen (0x3F :: 0x3D :: r) = .ok (false, none, 0x3D :: r) := rfl
  rw [this]
  simp only [Bool.false_eq_true, if_false, Nat.add_zero]
  exact CC_other us r (by omega) (by omega) (by omega)

theorem CC_neglookahead (us : Bool) (r : List Nat) : CC us (0x28 :: 0x3F :: 0x21 :: r) = CC us r := by
  rw [CC_paren]
  have : scanParen (0x3F :: 0x21 :: r) = .ok (false, none, 0x21 :: r) := rfl
  rw [this]
  simp only [Bool.false_eq_true, if_false, Nat.add_zero]
  exact CC_other us r (by omega) (by omega) (by omega)

theorem CC_noncapturing (us : Bool) (r : List Nat) : CC us (0x28 :: 0x3F :: 0x3A :: r) = CC us r := by
  rw [CC_paren]
  have : scanParen (0x3F :: 0x3A :: r) = .ok (false, none, 0x3A :: r) := rfl
  rw [this]
  simp only [Bool.false_eq_true, if_false, Nat.add_zero]
  exact CC_other us r (by omega) (by omega) (by omega)

theorem CC_lookbehind (us : Bool) (r : List Nat) : CC us (0x28 :: 0x3F :: 0x3C :: 0x3D :: r) = CC us r := by
  rw [CC_paren]
  have : scanParen (0x3F :: 0x3C :: 0x3D :: r) = .ok (false, none, 0x3D :: r) := by
    simp [scanParen, tryConsumeName, nameChar, isChar, idStart_eq]
  rw [this]
  simp only [Bool.false_eq_true, if_false, Nat.add_zero]
  exact CC_other us r (by omega) (by omega) (by omega)

theorem CC_neglookbehind (us : Bool) (r : List Nat) : CC us (0x28 :: 0x3F :: 0x3C :: 0x21 :: r) = CC us r := by
  rw [CC_paren]
  have : scanParen (0x3F :: 0x3C :: 0x21 :: r) = .ok (false, none, 0x21 :: r) := by
    simp [scanParen, tryConsumeName, nameChar, isChar, idStart_bang]
  rw [this]
  simp only [Bool.false_eq_true, if_false, Nat.add_zero]
  exact CC_other us r (by omega) (by omega) (by omega)

/-- A modifier group head `(?ims-ims:`. -/
theorem CC_modifiers (us : Bool) {cur : Nat} {rest rest' : List Nat} {m : Mods} (hc : cur ≠ 0x3C)
    (h : modifierScan (cur :: rest) {} = .ok (m, rest')) : CC us (0x28 :: 0x3F :: cur :: rest) = CC us rest' := by
  rw [CC_paren]
  have hn : tryConsumeName (cur :: rest) = .ok (none, cur :: rest) := by
    unfold tryConsumeName
    split
    · rename_i heq; cases heq; exact absurd rfl hc
    · rfl
  have : scanParen (0x3F :: cur :: rest) = .ok (false, none, cur :: rest) := by
    simp only [scanParen, hn]
  rw [this]
  simp only [Bool.false_eq_true, if_false, Nat.add_zero]
  exact (modifierScan_tr _ _ _ _ h).cc us

/-! ## The descent keeps "pre-scan count of the remaining input + groups created so far" -/

/-- The pre-scan count of the remaining input plus the number of groups created so far is the
same in both states, and so are the flags. -/
def KK (us : Bool) (st st' : PState) : Prop :=
  CC us st.input + st.groupCount = CC us st'.input + st'.groupCount ∧ st'.flags = st.flags

theorem KK.refl (us : Bool) (st : PState) : KK us st st := ⟨rfl, rfl⟩

theorem KK.trans {us : Bool} {a b c : PState} (h1 : KK us a b) (h2 : KK us b c) : KK us a c :=
  ⟨h1.1.trans h2.1, h2.2.trans h1.2⟩

theorem KK.of_input {us : Bool} {st : PState} {r : List Nat} (h : CC us st.input = CC us r) :
    KK us st { st with input := r } := ⟨by show _ + _ = CC us r + _; rw [h], rfl⟩

/-- `consume_atom_escape` (with the backslash before it). -/
theorem consumeAtomEscape_KK {us : Bool} {st : PState} {nd : Node} {st' : PState} :
    consumeAtomEscape st = .ok (nd, st') →
    CC us (0x5C :: st.input) = CC us st'.input ∧ st'.groupCount = st.groupCount ∧ st'.flags = st.flags := by
  fun_cases consumeAtomEscape st
  all_goals try simp only [*]
  all_goals try (simp [synErr, panicAt]; done)
  all_goals (have hinp := ‹st.input = _ :: _›)
  all_goals intro h
  all_goals cases h
  all_goals refine ⟨?_, rfl, rfl⟩
  all_goals try (exact CC_bs2 us _ _)
  all_goals show CC us _ = CC us _
  -- \p / \P
  · exact ((TrR.esc _ _).trans (propertyEscape_tr ‹_›)).cc us
  · exact ((TrR.esc _ _).trans (propertyEscape_tr ‹_›)).cc us
  · exact ((TrR.esc _ _).trans (propertyEscape_tr ‹_›)).cc us
  -- \1 … \9
  · have hd := ‹decimalLiteral st.input = _›
    have h1 := decimalLiteral_tr st.input
    rw [hd, hinp] at h1
    rw [CC_bs2, ← h1.cc us]
    rename_i hc _ _ _ _
    simp at hc
    exact (CC_other us _ (by omega) (by omega) (by omega)).symm
  · have hd := ‹decimalLiteral st.input = _›
    have h1 := decimalLiteral_tr st.input
    rw [hd, hinp] at h1
    rw [CC_bs2, ← h1.cc us]
    rename_i hc _ _ _ _
    simp at hc
    exact (CC_other us _ (by omega) (by omega) (by omega)).symm
  · have hx := ‹characterEscape _ _ st.input = _›
    rw [hinp] at hx
    exact (characterEscape_tr hx).cc us
  -- \k<name>
  · exact ((TrR.esc _ _).trans (tryConsumeName_tr ‹_›)).cc us
  · exact ((TrR.esc _ _).trans (tryConsumeName_tr ‹_›)).cc us
  · have hx := ‹characterEscape _ _ st.input = _›
    rw [hinp] at hx
    exact (characterEscape_tr hx).cc us


theorem KK.consume1 {us : Bool} {st : PState} {c : Nat} {rest : List Nat} (hinp : st.input = c :: rest)
    (h1 : c ≠ 0x5C) (h2 : c ≠ 0x5B) (h3 : c ≠ 0x28) : KK us st { st with input := rest } :=
  KK.of_input (by rw [hinp]; exact CC_other us rest h1 h2 h3)

theorem tryConsume_KK {us : Bool} {c : Nat} {st st' : PState} {b : Bool} (h1 : c ≠ 0x5C) (h2 : c ≠ 0x5B)
    (h3 : c ≠ 0x28) (h : tryConsume c st = (b, st')) : KK us st st' := by
  cases b with
  | true =>
    obtain ⟨rest, hr, rfl⟩ := tryConsume_true h
    exact KK.consume1 hr h1 h2 h3
  | false => rw [tryConsume_false h]; exact KK.refl _ _

/-- What the pieces need to know about `cd = consumeDisjunction fuel`. -/
def CDB (us : Bool) (cd : PState → Res (Node × PState)) : Prop :=
  ∀ st' p, st'.flags.unicodeSets = us → cd st' = .ok p → KK us st' p.2

theorem closeParenA_KK {us : Bool} {st : PState} {result : List Node} {so : Nat}
    {r : Res (Node × PState × Bool)} {out : AtomOut}
    (hg : ∀ nd st1 qa, r = .ok (nd, st1, qa) → KK us st st1)
    (h : closeParenA result so r = .ok out) : KK us st out.st := by
  unfold closeParenA at h
  split at h
  · cases h
  · rename_i nd st1 qa
    have h1 := hg nd st1 qa rfl
    split at h
    · rename_i st2 heq
      cases h
      exact h1.trans (tryConsume_KK (by omega) (by omega) (by omega) heq)
    · cases h

theorem lookA_KK {us : Bool} {cd : PState → Res (Node × PState)} {st st1 : PState} (hcd : CDB us cd)
    (hs : KK us st st1) (hu : st.flags.unicodeSets = us) {negate backwards qa : Bool} :
    ∀ nd st2 qa', lookA cd st1 negate backwards qa = .ok (nd, st2, qa') → KK us st st2 := by
  intro nd st2 qa' h
  unfold lookA at h
  simp only at h
  split at h
  · cases h
  · rename_i contents st3 heq
    cases h
    exact hs.trans (hcd st1 _ (by rw [hs.2]; exact hu) heq)

theorem cdA_KK {us : Bool} {cd : PState → Res (Node × PState)} {st st1 : PState} (hcd : CDB us cd)
    (hs : KK us st st1) (hu : st.flags.unicodeSets = us) :
    ∀ nd st2 qa', (match cd st1 with
      | .error e => (.error e : Res (Node × PState × Bool))
      | .ok (nd, st) => .ok (nd, st, true)) = .ok (nd, st2, qa') →
      KK us st st2 := by
  intro nd st2 qa' h
  split at h
  · cases h
  · rename_i nd' st3 heq
    cases h
    exact hs.trans (hcd st1 _ (by rw [hs.2]; exact hu) heq)

theorem tryConsumeStr_KK {us : Bool} {s : List Nat} {st st' : PState} (h : tryConsumeStr s st = (true, st'))
    (hcc : ∀ r, CC us (s ++ r) = CC us r) : KK us st st' := by
  obtain ⟨rest, hr, rfl⟩ := tryConsumeStr_true h
  exact KK.of_input (by rw [hr]; exact hcc rest)

theorem atomBackslashA_KK {us : Bool} {st : PState} {rest0 : List Nat} {result : List Node}
    {out : AtomOut} (hinp : st.input = 0x5C :: rest0) (h : atomBackslashA st result = .ok out) :
    KK us st out.st := by
  unfold atomBackslashA at h
  rw [consume_eq hinp] at h
  simp only at h
  split at h
  · cases h
  · rename_i e rest
    have he : ∀ r, CC us st.input = CC us r → KK us st { st with input := r } := fun r hr => KK.of_input hr
    have two : ∀ {out : AtomOut}, (match charNode st.flags 0x5C, charNode st.flags 0x63 with
        | .ok a, .ok b => (.ok ⟨result ++ [a, b], { st with input := rest }, result.length + 1, true⟩ : Res AtomOut)
        | .error e, _ => .error e
        | _, .error e => .error e) = .ok out → CC us st.input = CC us rest → KK us st out.st := by
      intro out h hr
      split at h
      · cases h; exact he _ hr
      · cases h
      · cases h
    split at h
    · cases h; exact he _ (by rw [hinp]; exact CC_bs2 us _ _)
    · split at h
      · cases h; exact he _ (by rw [hinp]; exact CC_bs2 us _ _)
      · split at h
        · rename_i hc
          simp at hc
          obtain ⟨hc, _⟩ := hc
          subst hc
          split at h
          · rename_i n rest2
            split at h
            · rename_i hal
              split at h
              · cases h
              · cases h
                simp at hal
                exact he _ (by rw [hinp]; exact ((TrR.esc _ _).trans (TrR.plain (plain_alpha hal.2) _)).cc us)
            · exact two h (by rw [hinp]; exact CC_bs2 us _ _)
          · exact two h (by rw [hinp]; exact CC_bs2 us _ _)
        · split at h
          · cases h
          · rename_i nd st2 heq
            cases h
            have h1 := consumeAtomEscape_KK (us := us) heq
            refine ⟨?_, h1.2.2⟩
            rw [hinp, h1.2.1]
            show _ = _ + st.groupCount
            rw [← h1.1]


theorem scanParen_plain {rest0 : List Nat} (h : stripPrefix? [0x3F] rest0 = none) :
    scanParen rest0 = .ok (true, none, rest0) := by
  unfold scanParen
  split
  · simp [stripPrefix?] at h
  · rfl

theorem atomCaptureA_KK {us : Bool} {cd : PState → Res (Node × PState)} {st : PState} (hcd : CDB us cd)
    (hu : st.flags.unicodeSets = us) {rest0 : List Nat} {result : List Node} {out : AtomOut}
    (hinp : st.input = 0x28 :: rest0) (h : atomCaptureA cd st result = .ok out) : KK us st out.st := by
  unfold atomCaptureA at h
  rw [consume_eq hinp] at h
  simp only at h
  split at h
  · cases h
  · split at h
    · cases h
    · rename_i groupName st3 heq
      have h3 : KK us st st3 := by
        split at heq
        · rename_i st2 hq
          obtain ⟨r2, hr2, rfl⟩ := tryConsumeStr_true hq
          have hr2' : rest0 = 0x3F :: r2 := hr2
          split at heq
          · cases heq
          · cases heq
          · rename_i name rest he'
            cases heq
            refine ⟨?_, rfl⟩
            show CC us st.input + st.groupCount = CC us rest + (st.groupCount + 1)
            rw [hinp, CC_paren, hr2']
            have : scanParen (0x3F :: r2) = .ok (true, some name, rest) := by
              simp only [scanParen, he']
            rw [this]
            simp only [if_true]
            omega
        · rename_i st2 hq
          cases heq
          have hnone : stripPrefix? [0x3F] rest0 = none := by
            unfold tryConsumeStr at hq
            split at hq
            · cases hq
            · assumption
          rw [tryConsumeStr_false hq]
          refine ⟨?_, rfl⟩
          show CC us st.input + st.groupCount = CC us rest0 + (st.groupCount + 1)
          rw [hinp, CC_paren, scanParen_plain hnone]
          simp only [if_true]
          omega
      refine closeParenA_KK ?_ h
      intro nd st4 qa hh
      split at hh
      · cases hh
      · rename_i contents st5 heq'
        cases hh
        exact h3.trans (hcd st3 _ (by rw [h3.2]; exact hu) heq')

theorem applyMods_unicodeSets (fl : Flags) (m : Mods) : (applyMods fl m).unicodeSets = fl.unicodeSets := by
  unfold applyMods
  simp only
  split <;> split <;> split <;> rfl

theorem atomParenA_KK {us : Bool} {cd : PState → Res (Node × PState)} {st : PState} (hcd : CDB us cd)
    (hu : st.flags.unicodeSets = us) {rest0 : List Nat} {result : List Node} {out : AtomOut}
    (hinp : st.input = 0x28 :: rest0) (h : atomParenA cd st result = .ok out) : KK us st out.st := by
  unfold atomParenA at h
  simp only at h
  split at h
  · rename_i st1 h1
    exact closeParenA_KK (lookA_KK hcd (tryConsumeStr_KK h1 (fun r => CC_lookahead us r)) hu) h
  · rename_i st1 h1
    rw [tryConsumeStr_false h1] at h
    split at h
    · rename_i st2 h2
      exact closeParenA_KK (lookA_KK hcd (tryConsumeStr_KK h2 (fun r => CC_neglookahead us r)) hu) h
    · rename_i st2 h2
      rw [tryConsumeStr_false h2] at h
      split at h
      · rename_i st3 h3
        have hk0 : KK us st st3 := tryConsumeStr_KK h3 (fun r => CC_lookbehind us r)
        have hk : KK us st { st3 with hasLookbehind := true } := ⟨hk0.1, hk0.2⟩
        exact closeParenA_KK (lookA_KK hcd hk hu) h
      · rename_i st3 h3
        rw [tryConsumeStr_false h3] at h
        split at h
        · rename_i st4 h4
          have hk0 : KK us st st4 := tryConsumeStr_KK h4 (fun r => CC_neglookbehind us r)
          have hk : KK us st { st4 with hasLookbehind := true } := ⟨hk0.1, hk0.2⟩
          exact closeParenA_KK (lookA_KK hcd hk hu) h
        · rename_i st4 h4
          rw [tryConsumeStr_false h4] at h
          split at h
          · rename_i st5 h5
            exact closeParenA_KK (cdA_KK hcd (tryConsumeStr_KK h5 (fun r => CC_noncapturing us r)) hu) h
          · rename_i st5 h5
            rw [tryConsumeStr_false h5] at h
            split at h
            · cases h
            · rename_i mods rest hm
              obtain ⟨cur, rest', hinp', hrr⟩ := modifierGroupHead_some hm
              have hcur : cur ≠ 0x3C := by
                intro hc
                subst hc
                simp [modifierGroupHead, hinp'] at hm
              have hcc : CC us st.input = CC us rest := by
                rw [hinp']; exact CC_modifiers us hcur hrr.symm
              refine closeParenA_KK ?_ h
              intro nd st7 qa hh
              split at hh
              · cases hh
              · rename_i nd' st6 heq'
                cases hh
                have h2 := hcd { st with input := rest, flags := applyMods st.flags mods } _
                  (by show (applyMods st.flags mods).unicodeSets = us
                      rw [applyMods_unicodeSets]; exact hu) heq'
                refine ⟨?_, rfl⟩
                have := h2.1
                show _ = CC us st6.input + st6.groupCount
                rw [← this, hcc]
            · exact atomCaptureA_KK hcd hu hinp h


theorem atomClassSetA_KK {st : PState} {rest0 : List Nat} {result : List Node} {out : AtomOut}
    (hinp : st.input = 0x5B :: rest0)
    (h : atomClassSetA st result = .ok out) : KK true st out.st := by
  unfold atomClassSetA at h
  rw [consume_eq hinp] at h
  simp only at h
  have hcases : (tryConsume 0x5E { st with input := rest0 }).2.input = rest0 ∨
      rest0 = 0x5E :: (tryConsume 0x5E { st with input := rest0 }).2.input := by
    cases hb : (tryConsume 0x5E { st with input := rest0 }).1 with
    | true =>
      obtain ⟨rest, h1, h2⟩ := tryConsume_true (st' := (tryConsume 0x5E { st with input := rest0 }).2)
        (by rw [← hb])
      rw [h2]; exact .inr h1
    | false =>
      have := tryConsume_false (st' := (tryConsume 0x5E { st with input := rest0 }).2) (by rw [← hb])
      rw [this]; exact .inl rfl
  have hg : (tryConsume 0x5E { st with input := rest0 }).2.groupCount = st.groupCount := by
    unfold tryConsume; split
    · split <;> rfl
    · rfl
  have hf : (tryConsume 0x5E { st with input := rest0 }).2.flags = st.flags := by
    unfold tryConsume; split
    · split <;> rfl
    · rfl
  generalize tryConsume 0x5E { st with input := rest0 } = tc at *
  obtain ⟨negateSet, st1⟩ := tc
  simp only at h hcases hg hf
  split at h
  · cases h
  · rename_i cs cst heq
    split at h
    · cases h
    · cases h
      have hstop := classSetExpression_stop heq
      simp only at hstop
      have hsk : skipBracketV rest0 1 = cst.inp := by
        rcases hcases with hc | hc
        · rw [← hc]; exact hstop
        · rw [hc, skipBracketV_other _ _ (by omega) (by omega) (by omega)]; exact hstop
      refine ⟨?_, hf⟩
      show CC true st.input + st.groupCount = CC true cst.inp + st1.groupCount
      rw [hg, hinp, CC_bracket, if_pos rfl, hsk]

theorem atomCharA_KK {us : Bool} {st : PState} {c : Nat} {rest0 : List Nat} {result : List Node}
    {out : AtomOut} (hinp : st.input = c :: rest0) (h1 : c ≠ 0x5C) (h2 : c ≠ 0x5B) (h3 : c ≠ 0x28)
    {c' : Nat} (h : atomCharA st result c' = .ok out) : KK us st out.st := by
  unfold atomCharA at h
  rw [consume_eq hinp] at h
  simp only at h
  split at h
  · cases h
  · cases h; exact KK.consume1 hinp h1 h2 h3

theorem atomBraceA_KK {us : Bool} {st : PState} {rest0 : List Nat} {result : List Node}
    {out : AtomOut} (hinp : st.input = 0x7B :: rest0) (h : atomBraceA st result = .ok out) :
    KK us st out.st := by
  unfold atomBraceA at h
  split at h
  · cases h
  · cases h
  · rw [consume_eq hinp] at h
    simp only at h
    split at h
    · cases h
    · cases h; exact KK.consume1 hinp (by omega) (by omega) (by omega)

theorem consumeAtomA_KK {us : Bool} {cd : PState → Res (Node × PState)} {st : PState} (hcd : CDB us cd)
    (hu : st.flags.unicodeSets = us) {c : Nat} {rest0 : List Nat} {result : List Node} {out : AtomOut}
    (hinp : st.input = c :: rest0) (h : consumeAtomA cd st result c = .ok out) : KK us st out.st := by
  unfold consumeAtomA at h
  simp only at h
  split at h
  · rename_i hc; simp at hc; subst hc
    rw [consume_eq hinp] at h; cases h
    exact KK.consume1 hinp (by omega) (by omega) (by omega)
  split at h
  · rename_i hc; simp at hc; subst hc
    rw [consume_eq hinp] at h; cases h
    exact KK.consume1 hinp (by omega) (by omega) (by omega)
  split at h
  · rename_i hc; simp at hc; subst hc
    exact atomBackslashA_KK hinp h
  split at h
  · rename_i hc; simp at hc; subst hc
    rw [consume_eq hinp] at h; cases h
    exact KK.consume1 hinp (by omega) (by omega) (by omega)
  split at h
  · rename_i hc; simp at hc; subst hc
    exact atomParenA_KK hcd hu hinp h
  split at h
  · rename_i hc; simp at hc
    obtain ⟨hc, hus⟩ := hc
    subst hc
    have : us = true := by rw [← hu, hus]
    subst this
    exact atomClassSetA_KK hinp h
  split at h
  · rename_i hnv hc; simp at hc; subst hc
    have hus : st.flags.unicodeSets = false := by simpa using hnv
    split at h
    · cases h
    · rename_i nd rest heq
      cases h
      rw [hinp] at heq
      have := consumeBracket_sb heq
      refine KK.of_input ?_
      rw [hinp, CC_bracket, ← hu, hus]
      simp only [Bool.false_eq_true, if_false]
      rw [this]
  split at h
  · rename_i hc; simp at hc
    obtain ⟨hc, _⟩ := hc
    subst hc
    exact atomBraceA_KK hinp h
  split at h
  · cases h
  split at h
  · cases h
  · rename_i n1 n2 n3 n4 n5 n6 n7 n8 n9 n10
    simp at n3 n5 n7
    have h5b : c ≠ 0x5B := by
      intro hc; subst hc
      cases hus : st.flags.unicodeSets
      · exact n7 rfl
      · exact n6 (by simp [hus])
    exact atomCharA_KK hinp n3 h5b n5 h


/-- The induction hypothesis / conclusion of the descent at a given amount of fuel. -/
structure DescB (us : Bool) (fuel : Nat) : Prop where
  disj : ∀ st p, st.flags.unicodeSets = us → consumeDisjunction fuel st = .ok p → KK us st p.2
  dloop : ∀ st terms p, st.flags.unicodeSets = us → disjLoop fuel st terms = .ok p → KK us st p.2
  tloop : ∀ st result p, st.flags.unicodeSets = us → termLoop fuel st result = .ok p → KK us st p.2
  atom : ∀ st result c rest out, st.flags.unicodeSets = us → st.input = c :: rest →
    consumeAtom fuel st result c = .ok out → KK us st out.st

theorem consumeDisjunction_stepB {us : Bool} (fuel : Nat) (ih : DescB us fuel) (st : PState)
    (p : Node × PState) (hu : st.flags.unicodeSets = us) (h : consumeDisjunction (fuel + 1) st = .ok p) :
    KK us st p.2 := by
  rw [consumeDisjunction] at h
  simp only at h
  split at h
  · cases h
  · split at h
    · cases h
    · rename_i terms st1 heq
      cases h
      have := ih.dloop { st with depth := st.depth + 1 } [] _ hu heq
      exact ⟨this.1, this.2⟩

theorem disjLoop_stepB {us : Bool} (fuel : Nat) (ih : DescB us fuel) (st : PState) (terms : List Node)
    (p : List Node × PState) (hu : st.flags.unicodeSets = us) (h : disjLoop (fuel + 1) st terms = .ok p) :
    KK us st p.2 := by
  rw [disjLoop] at h
  split at h
  · cases h
  · rename_i t st1 heq
    have h1 := ih.tloop st [] _ hu heq
    simp only at h
    split at h
    · rename_i st2 htc
      have h2 : KK us st1 st2 := tryConsume_KK (by omega) (by omega) (by omega) htc
      have h12 := h1.trans h2
      exact h12.trans (ih.dloop _ _ _ (by rw [h12.2]; exact hu) h)
    · rename_i st2 htc
      cases h
      exact h1.trans (tryConsume_KK (by omega) (by omega) (by omega) htc)

theorem termLoop_stepB {us : Bool} (fuel : Nat) (ih : DescB us fuel) (st : PState) (result : List Node)
    (p : Node × PState) (hu : st.flags.unicodeSets = us) :
    termLoop (fuel + 1) st result = .ok p → KK us st p.2 := by
  generalize hfu : fuel + 1 = f
  fun_cases termLoop f st result
  all_goals try simp only [*]
  all_goals try (simp [synErr, limErr, panicAt]; done)
  all_goals try (simp at hfu; done)
  all_goals try (cases hfu)
  · intro h; cases h; exact KK.refl _ _
  · intro h; cases h; exact KK.refl _ _
  · -- no quantifier
    rename_i head r _ out _ _ rest hq hinp hx
    intro h
    have hA := ih.atom st result _ _ out hu hinp hx
    have hqk : KK us out.st { out.st with input := rest } := KK.of_input ((quantifier_tr hq).cc us)
    have h12 := hA.trans hqk
    exact h12.trans (ih.tloop _ _ _ (by rw [h12.2]; exact hu) h)
  · -- a quantified atom
    rename_i head r _ out _ _ quant rest hq _ _ hqok hle _ _ hloops _ _ hinp hx
    intro h
    have hA := ih.atom st result _ _ out hu hinp hx
    have hqk : KK us out.st { out.st with input := rest, loopCount := out.st.loopCount + 1 } :=
      ⟨by show _ = CC us rest + out.st.groupCount; rw [(quantifier_tr hq).cc us], rfl⟩
    have h12 := hA.trans hqk
    exact h12.trans (ih.tloop _ _ _ (by rw [h12.2]; exact hu) h)

theorem consumeAtom_stepB {us : Bool} (fuel : Nat) (ih : DescB us fuel) (st : PState) (result : List Node)
    (c : Nat) (rest : List Nat) (out : AtomOut) (hu : st.flags.unicodeSets = us)
    (hinp : st.input = c :: rest) (h : consumeAtom (fuel + 1) st result c = .ok out) : KK us st out.st := by
  rw [consumeAtom_succ] at h
  exact consumeAtomA_KK (fun st' p hu' hp => ih.disj st' p hu' hp) hu hinp h

/-- The descent, for every amount of fuel. -/
theorem descB_all (us : Bool) (fuel : Nat) : DescB us fuel := by
  induction fuel with
  | zero =>
    exact
      { disj := fun st p _ h => by simp [consumeDisjunction, panicAt] at h
        dloop := fun st terms p _ h => by simp [disjLoop, panicAt] at h
        tloop := fun st result p _ h => by simp [termLoop, panicAt] at h
        atom := fun st result c rest out _ _ h => by simp [consumeAtom, panicAt] at h }
  | succ k ih =>
    exact
      { disj := consumeDisjunction_stepB k ih
        dloop := disjLoop_stepB k ih
        tloop := fun st result p hu h => termLoop_stepB k ih st result p hu h
        atom := consumeAtom_stepB k ih }

end Regress.Certs.P2

namespace Regress.Certs

open Regress Regress.IR Regress.Parse Regress.Closure Regress.E2E Regress.Certs.P Regress.Certs.P2

/-- **The capture-group pre-scan counts exactly the capture groups of the parsed tree**, for every
pattern the parser accepts. -/
theorem parse_prescan_eq {pat : List Nat} {fl : IR.Flags} {re : Regex} (hb : ∀ c ∈ pat, c ≤ 0x10FFFF)
    (hp : Parse.parse pat fl = .ok re) : preScanCount pat fl = numGroups re.node := by
  unfold parse at hp
  simp only at hp
  have hst : ({ input := pat, flags := if fl.unicodeSets = true then
    { icase := fl.icase, multiline := fl.multiline, dotAll := fl.dotAll, noOpt := fl.noOpt, unicode := true,
      unicodeSets := fl.unicodeSets } else fl } : PState) = initState pat fl := rfl
  rw [hst] at hp
  have hi0 : Parse.Inv (initState pat fl) :=
    ⟨by intro e he; simp [initState] at he, by simp [initState, Gen.MAX_NESTING_DEPTH],
      by simp [initState, Gen.MAX_CAPTURE_GROUPS], by simp [initState, Gen.MAX_LOOPS], hb⟩
  unfold tryParse at hp
  split at hp
  · cases hp
  · rename_i st1 hcg
    obtain ⟨h1, h2, h3, h4, h5⟩ := parseCaptureGroups_inv hi0.named hcg
    have hi1 : Parse.Inv st1 := ⟨h1, h3 ▸ hi0.depth, h4 ▸ hi0.groups, h5 ▸ hi0.loops, h2 ▸ hi0.bnd⟩
    have hfl : st1.flags = parseFlags fl := by
      unfold parseCaptureGroups at hcg
      split at hcg
      · cases hcg
      · split at hcg
        · cases hcg
        · cases hcg; rfl
    unfold parseBody at hp
    split at hp
    · cases hp
    · rename_i body st2 hcd
      have hk := (descB_all fl.unicodeSets _).disj _ _ (by rw [hfl, parseFlags_unicodeSets]) hcd
      have hinv := C07.parser_state_invariant _ _ _ _ hi1 (by unfold parseFuel; omega) hcd
      have hg0 : st1.groupCount = 0 := h4
      have hin1 : st1.input = pat := h2
      have hbody : preScanCount pat fl = numGroups body + CC fl.unicodeSets st2.input := by
        have : CC fl.unicodeSets st1.input + st1.groupCount =
            CC fl.unicodeSets st2.input + st2.groupCount := hk.1
        rw [hin1, hg0, hinv.2.2, hg0] at this
        show capCount _ _ _ = _
        rw [show capCount fl.unicodeSets (pat.length + 1) pat = CC fl.unicodeSets pat from rfl]
        omega
      split at hp
      · split at hp <;> cases hp
      · rename_i hemp
        rw [hemp, CC_nil, Nat.add_zero] at hbody
        -- `finalize` (`reverse_cats`) keeps `numGroups`
        unfold finalize at hp
        split at hp
        · split at hp
          · cases hp
          · rename_i n hrev
            cases hp
            have hs := E2E.reverseCats_same false _ _ hrev
            rw [hbody]
            show numGroups body = numGroups n
            rw [hs.2.2.2]
            show _ = numGroups (makeCat [body, Node.goal])
            simp [makeCat, numGroups, numGroupsList]
        · cases hp
          rw [hbody]
          show numGroups body = numGroups (makeCat [body, Node.goal])
          simp [makeCat, numGroups, numGroupsList]

/-- **All IR-level side conditions of the program certificates hold of the parser's output.** -/
theorem parse_irOK {pat : List Nat} {fl : IR.Flags} {re : Regex} (hb : ∀ c ∈ pat, c ≤ 0x10FFFF)
    (hp : Parse.parse pat fl = .ok re) : irOK re.node = true := by
  obtain ⟨h1, h2, h3, h4⟩ := parse_irok hb hp
  obtain ⟨gmax, st1, hg, _, _, hr⟩ := parse_refs_partial hb hp
  rw [hg, parse_prescan_eq hb hp] at hr
  simp only [irOK, h1, hr, h2, h3, h4, Bool.and_self]

/-- `irOK` together with `rangesExact`. -/
theorem parse_irOK2 {pat : List Nat} {fl : IR.Flags} {re : Regex} (hb : ∀ c ∈ pat, c ≤ 0x10FFFF)
    (hp : Parse.parse pat fl = .ok re) : irOK2 re.node = true := by
  simp only [irOK2, parse_irOK hb hp, parse_rangesExact hb hp, Bool.and_self]

/-- The parser's `group_count_max` is the number of capture groups of the parsed tree. -/
theorem parse_groupCountMax {pat : List Nat} {fl : IR.Flags} {re : Regex} (hb : ∀ c ∈ pat, c ≤ 0x10FFFF)
    (hp : Parse.parse pat fl = .ok re) :
    ∃ st1, Parse.parseCaptureGroups (initState pat fl) = .ok st1 ∧ st1.groupCountMax = numGroups re.node := by
  obtain ⟨gmax, st1, hg, h1, h2, _⟩ := parse_refs_partial hb hp
  refine ⟨st1, h1, ?_⟩
  rw [h2, hg, parse_prescan_eq hb hp]
  have := (E2E.parse_side hb hp).2.2
  simp only [Gen.MAX_CAPTURE_GROUPS]
  omega

/-! ## Non-vacuity -/

/- ASCII pattern literal: `pat! "a|b"` elaborates to the list literal `[97, 124, 98]`. -/
open Lean in
local macro "pat!" s:str : term => do
  let cs := s.getString.toList.map (fun c => Syntax.mkNumLit (toString c.toNat))
  `(([$(cs.toArray),*] : List Nat))

/-- Accepted patterns where the pre-scan has to skip `(` inside brackets, escapes and names (legacy,
and `v` mode with a nested class and a `\q{…}`): the hypotheses of the theorems hold, and the
conclusions, evaluated, are as stated. -/
example : (∀ c ∈ pat! "[(\\]](\\()(?<a\\u0062>x)\\k<ab>(?<=(y))\\3", c ≤ 0x10FFFF) ∧
    (match parse (pat! "[(\\]](\\()(?<a\\u0062>x)\\k<ab>(?<=(y))\\3") {} with
      | .ok re => irOK2 re.node && numGroups re.node == 3 &&
          preScanCount (pat! "[(\\]](\\()(?<a\\u0062>x)\\k<ab>(?<=(y))\\3") {} == 3
      | _ => false) = true := by
  constructor
  · decide
  · decide +kernel

example : (match parse (pat! "[[\\(\\]]--\\q{a\\(|b}](z)\\1") { unicodeSets := true } with
      | .ok re => irOK2 re.node && numGroups re.node == 1 &&
          preScanCount (pat! "[[\\(\\]]--\\q{a\\(|b}](z)\\1") { unicodeSets := true } == 1
      | _ => false) = true := by decide +kernel

#print axioms parse_prescan_eq
#print axioms parse_groupCountMax
#print axioms parse_irOK
#print axioms parse_irOK2

end Regress.Certs
