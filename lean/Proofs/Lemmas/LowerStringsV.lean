import Proofs.Lemmas.LowerStrings
/-!
# ES specification ⇒ IR semantics: `v`-mode class set expressions with `\q{…}` strings (without `i`)

The recursion of `Proofs/Lemmas/LowerClass.lean` again, now carrying the strings: the CharSet of
the specification `(chars, strs)` against the crate's `ClassSet (cps, alts)`:
`cps` denotes `chars`, `alts` and `strs` have the same members, no string has length one (a
one-character string is a character on both sides), and a set whose `mayContainStrings` flag is
clear has no strings (so a negated class, which the parser accepts only with the flag clear, is a
plain bracket).
-/
namespace Regress.Lower

open Regress Regress.IR Regress.VM Regress.Parse Regress.CPS

/-- code points of a `\q{…}` string that the theorem covers -/
def strOK (s : List Nat) : Bool := s.all Utf8.isScalar

mutual
/-- Operands covered: as `vopOK`, plus `\q{…}` of scalar values. -/
def vopOKS (us : Bool) : ES.VOp → Bool
  | .c cp => decide (cp ≤ 0x10FFFF)
  | .r lo hi => decide (lo ≤ hi) && decide (hi ≤ 0x10FFFF)
  | .esc _ => true
  | .prop _ kind name => propIsCharClass us kind name
  | .q strs => strs.all strOK
  | .cls _ _ ops => vopsOKS us ops
def vopsOKS (us : Bool) : List ES.VOp → Bool
  | [] => true
  | o :: os => vopOKS us o && vopsOKS us os
end

/-- CharSet with strings against `ClassSet`. -/
structure VSDen (A : ES.CharSet) (s : ClassSet) : Prop where
  den : Den A.chars s.cps
  srel : ∀ str, str ∈ A.strs ↔ str ∈ s.alts
  len1 : ∀ str ∈ s.alts, str.length ≠ 1
  scalar : ∀ str ∈ s.alts, Utf8.AllScalar str
  ns : s.mayContainStrings = false → s.alts = []

def OpSDen (A : ES.CharSet) : Operand → Prop
  | .char c => c ≤ 0x10FFFF ∧ (∀ x, A.chars x = (x == c)) ∧ A.strs = []
  | .esc cps => Den A.chars cps ∧ A.strs = []
  | .cls s => VSDen A s
  | .strs _ => False

theorem mem_union_strs (A B : ES.CharSet) (str : List Nat) :
    str ∈ (A.union B).strs ↔ str ∈ A.strs ∨ str ∈ B.strs := by
  simp only [ES.CharSet.union, List.mem_append, List.mem_filter, Bool.not_eq_true', List.contains_eq_mem,
    decide_eq_false_iff_not]
  constructor
  · rintro (h | ⟨h, _⟩)
    · exact Or.inl h
    · exact Or.inr h
  · rintro (h | h)
    · exact Or.inl h
    · by_cases ha : str ∈ A.strs
      · exact Or.inl ha
      · exact Or.inr ⟨h, ha⟩

theorem vsden_empty : VSDen ES.CharSet.empty ({} : ClassSet) :=
  ⟨den_empty, fun _ => by simp [ES.CharSet.empty], fun _ h => absurd h (by simp),
    fun _ h => absurd h (by simp), fun _ => rfl⟩

theorem opSDen_strs_of_not_cls {A : ES.CharSet} {op : Operand} (h : OpSDen A op) :
    (∀ s, op ≠ .cls s) → A.strs = [] := by
  intro hne
  cases op with
  | char _ => exact h.2.2
  | esc _ => exact h.2
  | cls s => exact absurd rfl (hne s)
  | strs _ => exact h.elim

theorem vsden_unionOperand {A B : ES.CharSet} {s : ClassSet} {op : Operand} (hs : VSDen A s) (ho : OpSDen B op) :
    VSDen (A.union B) (s.unionOperand op) := by
  cases op with
  | char c =>
    obtain ⟨hc, hb, hbs⟩ := ho
    exact ⟨(den_addOne hs.den hc).congr (fun x _ => by simp [ES.CharSet.union, hb]),
      fun str => by rw [mem_union_strs, hbs]; simpa [ClassSet.unionOperand] using hs.srel str, hs.len1, hs.scalar,
      hs.ns⟩
  | esc cps =>
    exact ⟨(den_addSet hs.den ho.1).congr (fun x _ => by simp [ES.CharSet.union]),
      fun str => by rw [mem_union_strs, ho.2]; simpa [ClassSet.unionOperand] using hs.srel str, hs.len1, hs.scalar,
      hs.ns⟩
  | cls c =>
    refine ⟨(den_addSet hs.den ho.den).congr (fun x _ => by simp [ES.CharSet.union]), fun str => ?_, ?_, ?_, ?_⟩
    · rw [mem_union_strs, hs.srel, ho.srel]; simp [ClassSet.unionOperand]
    · intro str h
      simp only [ClassSet.unionOperand, List.mem_append] at h
      rcases h with h | h
      · exact hs.len1 str h
      · exact ho.len1 str h
    · intro str h
      simp only [ClassSet.unionOperand, List.mem_append] at h
      rcases h with h | h
      · exact hs.scalar str h
      · exact ho.scalar str h
    · intro h
      simp only [ClassSet.unionOperand, Bool.or_eq_false_iff] at h
      simp [ClassSet.unionOperand, hs.ns h.1, ho.ns h.2]
  | strs _ => exact ho.elim

theorem single?_none_of_len {a : List Nat} (h : a.length ≠ 1) : single? a = none := by
  match a, h with
  | [], _ => rfl
  | [_], h => exact absurd rfl h
  | _ :: _ :: _, _ => rfl

theorem singleSat_false {p : Nat → Bool} {a : List Nat} (h : a.length ≠ 1) : singleSat p a = false := by
  simp [singleSat, single?_none_of_len h]

theorem collectSingles_no_singles (alts : List (List Nat)) (set : IvList) (h : ∀ a ∈ alts, a.length ≠ 1) :
    collectSingles alts set = [] := by
  unfold collectSingles
  have : ∀ (l : List (List Nat)) (acc : IvList), (∀ a ∈ l, a.length ≠ 1) →
      l.foldl (fun acc a => match single? a with
        | some c => if CPS.contains set c then CPS.addOne acc c else acc
        | none => acc) acc = acc := by
    intro l
    induction l with
    | nil => intro acc _; rfl
    | cons a t ih =>
      intro acc hl
      simp only [List.foldl_cons, single?_none_of_len (hl a (by simp))]
      exact ih acc (fun b hb => hl b (by simp [hb]))
  exact this alts [] h

theorem filter_singleSat_nil (alts : List (List Nat)) (p : Nat → Bool) (h : ∀ a ∈ alts, a.length ≠ 1) :
    alts.filter (singleSat p) = [] := by
  apply List.filter_eq_nil_iff.2
  intro a ha
  simp [singleSat_false (h a ha)]

theorem vsden_intersectOperand {A B : ES.CharSet} {s : ClassSet} {op : Operand} (hs : VSDen A s) (ho : OpSDen B op) :
    VSDen (A.inter B) (s.intersectOperand op) := by
  cases op with
  | char c =>
    obtain ⟨hc, hb, hbs⟩ := ho
    have hfound : s.alts.any (fun a => a == [c]) = false := by
      apply Bool.eq_false_iff.2
      intro h
      obtain ⟨a, ha, hac⟩ := List.any_eq_true.1 h
      have := eq_of_beq hac
      subst this
      exact hs.len1 _ ha rfl
    refine ⟨?_, fun str => by simp [ES.CharSet.inter, hbs, ClassSet.intersectOperand, hfound],
      fun str h => by simp [ClassSet.intersectOperand, hfound] at h,
      fun str h => by simp [ClassSet.intersectOperand, hfound] at h,
      fun _ => by simp [ClassSet.intersectOperand, hfound]⟩
    simp only [ClassSet.intersectOperand]
    by_cases hcon : CPS.contains s.cps c = true
    · simp only [hcon, if_true]
      have hm : A.chars c = true := (hs.den.2 c hc).2 ((C12.contains_iff _ _).1 hcon)
      refine (den_single hc).congr (fun x _ => ?_)
      simp only [ES.CharSet.inter, hb]
      by_cases hx : x = c
      · subst hx; simp [hm]
      · simp [hx]
    · simp only [hcon]
      have hm : A.chars c = false := by
        cases hac : A.chars c with
        | false => rfl
        | true => exact absurd ((C12.contains_iff _ _).2 ((hs.den.2 c hc).1 hac)) hcon
      refine den_empty.congr (fun x _ => ?_)
      simp only [ES.CharSet.inter, hb]
      by_cases hx : x = c
      · subst hx; simp [hm]
      · simp [hx]
  | esc cps =>
    refine ⟨(den_intersect hs.den ho.1).congr (fun x _ => by simp [ES.CharSet.inter]), fun str => ?_, ?_, ?_, ?_⟩
    · simp [ES.CharSet.inter, ho.2, ClassSet.intersectOperand, filter_singleSat_nil _ _ hs.len1]
    · intro str h
      simp [ClassSet.intersectOperand, filter_singleSat_nil _ _ hs.len1] at h
    · intro str h
      simp [ClassSet.intersectOperand, filter_singleSat_nil _ _ hs.len1] at h
    · intro _
      simp [ClassSet.intersectOperand, filter_singleSat_nil _ _ hs.len1]
  | cls c =>
    have h1 := collectSingles_no_singles c.alts s.cps ho.len1
    have h2 := filter_singleSat_nil s.alts (CPS.contains c.cps) hs.len1
    refine ⟨?_, fun str => ?_, ?_, ?_, ?_⟩
    · simp only [ClassSet.intersectOperand, h1]
      exact (den_addSet (den_intersect hs.den ho.den) den_empty).congr (fun x _ => by simp [ES.CharSet.inter])
    · simp only [ES.CharSet.inter, ClassSet.intersectOperand, h2, List.append_nil, List.mem_filter,
        List.contains_eq_mem, decide_eq_true_eq, hs.srel, ho.srel]
    · intro str h
      simp only [ClassSet.intersectOperand, h2, List.append_nil, List.mem_filter] at h
      exact hs.len1 str h.1
    · intro str h
      simp only [ClassSet.intersectOperand, h2, List.append_nil, List.mem_filter] at h
      exact hs.scalar str h.1
    · intro h
      simp only [ClassSet.intersectOperand, Bool.and_eq_false_iff] at h
      simp only [ClassSet.intersectOperand, h2, List.append_nil]
      rcases h with h | h
      · rw [hs.ns h]; rfl
      · rw [ho.ns h]; simp
  | strs _ => exact ho.elim

theorem vsden_subtractOperand {A B : ES.CharSet} {s : ClassSet} {op : Operand} (hs : VSDen A s) (ho : OpSDen B op) :
    VSDen (A.sub B) (s.subtractOperand op) := by
  cases op with
  | char c =>
    obtain ⟨hc, hb, hbs⟩ := ho
    refine ⟨(den_remove hs.den (den_single hc)).congr (fun x _ => by simp [ES.CharSet.sub, hb]), fun str => ?_,
      ?_, ?_, fun h => by rw [show (s.subtractOperand (.char c)).alts = s.alts.filter _ from rfl, hs.ns h]; rfl⟩
    · simp only [ES.CharSet.sub, hbs, ClassSet.subtractOperand, List.mem_filter, List.contains_nil,
        Bool.not_false, and_true, hs.srel, List.contains_cons, Bool.or_false, Bool.not_eq_true',
        beq_eq_false_iff_ne, ne_eq]
      constructor
      · intro h; exact ⟨h, fun heq => hs.len1 str h (by rw [heq]; rfl)⟩
      · exact fun h => h.1
    · intro str h
      simp only [ClassSet.subtractOperand, List.mem_filter] at h
      exact hs.len1 str h.1
    · intro str h
      simp only [ClassSet.subtractOperand, List.mem_filter] at h
      exact hs.scalar str h.1
  | esc cps =>
    have h2 := filter_singleSat_nil s.alts (CPS.contains cps) hs.len1
    refine ⟨(den_remove hs.den ho.1).congr (fun x _ => by simp [ES.CharSet.sub]), fun str => ?_, ?_, ?_,
      fun h => by rw [show (s.subtractOperand (.esc cps)).alts = s.alts.filter _ from rfl, hs.ns h]; rfl⟩
    · simp [ES.CharSet.sub, ho.2, ClassSet.subtractOperand, h2, hs.srel]
    · intro str h
      simp only [ClassSet.subtractOperand, h2, List.mem_filter] at h
      exact hs.len1 str h.1
    · intro str h
      simp only [ClassSet.subtractOperand, h2, List.mem_filter] at h
      exact hs.scalar str h.1
  | cls c =>
    have h1 := collectSingles_no_singles c.alts s.cps ho.len1
    have h2 := filter_singleSat_nil s.alts (CPS.contains c.cps) hs.len1
    refine ⟨?_, fun str => ?_, ?_, ?_, fun h => by
      rw [show (s.subtractOperand (.cls c)).alts = (s.alts.filter _).filter _ from rfl, hs.ns h]; rfl⟩
    · simp only [ClassSet.subtractOperand, h1]
      exact (den_remove (den_remove hs.den den_empty) ho.den).congr (fun x _ => by simp [ES.CharSet.sub])
    · simp only [ES.CharSet.sub, ClassSet.subtractOperand, h2, List.mem_filter, List.contains_nil,
        Bool.not_false, and_true, List.contains_eq_mem, Bool.not_eq_true', decide_eq_false_iff_not, hs.srel,
        ho.srel, List.not_mem_nil, not_false_eq_true]
    · intro str h
      simp only [ClassSet.subtractOperand, h2, List.mem_filter] at h
      exact hs.len1 str h.1.1
    · intro str h
      simp only [ClassSet.subtractOperand, h2, List.mem_filter] at h
      exact hs.scalar str h.1.1
  | strs _ => exact ho.elim

theorem vsden_first {B : ES.CharSet} {op : Operand} (ho : OpSDen B op) :
    VSDen B (({} : ClassSet).unionOperand op) := by
  have := vsden_unionOperand vsden_empty ho
  exact ⟨this.den.congr (fun x _ => by simp [ES.CharSet.union, ES.CharSet.empty]),
    fun str => by rw [← this.srel, mem_union_strs]; simp [ES.CharSet.empty], this.len1, this.scalar, this.ns⟩

theorem vsden_assoc {A B C : ES.CharSet} {r : ClassSet} (h : VSDen ((A.union B).union C) r) :
    VSDen (A.union (B.union C)) r :=
  ⟨h.den.congr (fun x _ => by simp [ES.CharSet.union, Bool.or_assoc]),
    fun str => by rw [← h.srel, mem_union_strs, mem_union_strs, mem_union_strs, mem_union_strs, or_assoc],
    h.len1, h.scalar, h.ns⟩


/-! ## `\q{…}` -/

theorem strOK_le {s : List Nat} (h : strOK s = true) {c : Nat} (hc : c ∈ s) : c ≤ 0x10FFFF :=
  isScalar_le' (List.all_eq_true.1 h c hc)

theorem strOK_scalar {s : List Nat} (h : strOK s = true) : Utf8.AllScalar s :=
  fun c hc => List.all_eq_true.1 h c hc

theorem ofString_long_chars {a : List Nat} (h : a.length ≠ 1) (x : Nat) :
    (ES.CharSet.ofString a).chars x = false := by
  match a, h with
  | [], _ => simp [ES.CharSet.ofString]
  | [_], h => exact absurd rfl h
  | _ :: _ :: _, _ => simp [ES.CharSet.ofString]

theorem ofString_long_strs {a : List Nat} (h : a.length ≠ 1) : (ES.CharSet.ofString a).strs = [a] := by
  match a, h with
  | [], _ => simp [ES.CharSet.ofString]
  | [_], h => exact absurd rfl h
  | _ :: _ :: _, _ => simp [ES.CharSet.ofString]

theorem classStringSet_den {rer : ES.RER} (hic : rer.ignoreCase = false) :
    ∀ (strs : List (List Nat)) (acc : ClassSet) (A : ES.CharSet), VSDen A acc →
      strs.all strOK = true →
      VSDen (A.union (ES.classStringsCharSet rer strs)) (classStringSet strs acc)
  | [], acc, A, ha, _ => by
    simp only [classStringSet]
    exact ⟨ha.den.congr (fun x _ => by simp [ES.CharSet.union, ES.classStringsCharSet, ES.CharSet.empty]),
      fun str => by rw [mem_union_strs, ← ha.srel]; simp [ES.classStringsCharSet, ES.CharSet.empty],
      ha.len1, ha.scalar, ha.ns⟩
  | a :: rest, acc, A, ha, hok => by
    simp only [List.all_cons, Bool.and_eq_true] at hok
    have hassoc : ∀ (B : ES.CharSet) (r : ClassSet),
        VSDen ((A.union B).union (ES.classStringsCharSet rer rest)) r →
        B = ES.maybeSimpleCaseFolding rer (ES.CharSet.ofString a) →
        VSDen (A.union (ES.classStringsCharSet rer (a :: rest))) r := by
      intro B r h hB
      subst hB
      simpa [ES.classStringsCharSet] using vsden_assoc h
    have hoka := hok.1
    -- a string that is not one character
    have hlong : a.length ≠ 1 →
        VSDen (A.union (ES.classStringsCharSet rer (a :: rest)))
          (if !acc.alts.contains a then
            classStringSet rest { acc with alts := acc.alts ++ [a], mayContainStrings := true }
          else classStringSet rest { acc with mayContainStrings := true }) := by
      intro hlen
      have hB : ∀ x, (ES.maybeSimpleCaseFolding rer (ES.CharSet.ofString a)).chars x = false := by
        intro x; rw [msf_noicase hic]; exact ofString_long_chars hlen x
      have hBs : (ES.maybeSimpleCaseFolding rer (ES.CharSet.ofString a)).strs = [a] := by
        rw [msf_noicase hic]; exact ofString_long_strs hlen
      by_cases hcon : acc.alts.contains a = true
      · simp only [hcon, Bool.not_true, Bool.false_eq_true, if_false]
        have hstep : VSDen (A.union (ES.maybeSimpleCaseFolding rer (ES.CharSet.ofString a)))
            { acc with mayContainStrings := true } :=
          ⟨ha.den.congr (fun x _ => by simp [ES.CharSet.union, hB]),
            fun str => by
              rw [mem_union_strs, hBs, ha.srel]
              simp only [List.mem_singleton]
              constructor
              · rintro (h | h)
                · exact h
                · subst h; simpa using hcon
              · exact Or.inl,
            ha.len1, ha.scalar, fun h => by cases h⟩
        exact hassoc _ _ (classStringSet_den hic rest _ _ hstep hok.2) rfl
      · simp only [hcon, Bool.not_false, if_true]
        have hstep : VSDen (A.union (ES.maybeSimpleCaseFolding rer (ES.CharSet.ofString a)))
            { acc with alts := acc.alts ++ [a], mayContainStrings := true } :=
          ⟨ha.den.congr (fun x _ => by simp [ES.CharSet.union, hB]),
            fun str => by rw [mem_union_strs, hBs, ha.srel]; simp,
            fun str h => by
              simp only [List.mem_append, List.mem_singleton] at h
              rcases h with h | h
              · exact ha.len1 str h
              · subst h; exact hlen,
            fun str h => by
              simp only [List.mem_append, List.mem_singleton] at h
              rcases h with h | h
              · exact ha.scalar str h
              · subst h; exact strOK_scalar hoka,
            fun h => by cases h⟩
        exact hassoc _ _ (classStringSet_den hic rest _ _ hstep hok.2) rfl
    cases a with
    | cons c t =>
     cases t with
     | nil =>
      simp only [classStringSet]
      have hc : c ≤ 0x10FFFF := strOK_le hoka (by simp)
      have hstep : VSDen (A.union (ES.maybeSimpleCaseFolding rer (ES.CharSet.ofString [c])))
          { acc with cps := addOne acc.cps c } :=
        ⟨(den_addOne ha.den hc).congr (fun x _ => by
            simp [ES.CharSet.union, msf_noicase hic, ES.CharSet.ofString, ES.CharSet.single]),
          fun str => by
            rw [mem_union_strs, ← ha.srel]
            simp [msf_noicase hic, ES.CharSet.ofString, ES.CharSet.single],
          ha.len1, ha.scalar, ha.ns⟩
      exact hassoc _ _ (classStringSet_den hic rest _ _ hstep hok.2) rfl
     | cons d r =>
      simp only [classStringSet]
      exact hlong (by simp)
    | nil =>
      simp only [classStringSet]
      exact hlong (by simp)


/-! ## The recursion -/

section
variable {rer : ES.RER} (hic : rer.ignoreCase = false) (fl : IR.Flags) (hfi : fl.icase = false)
include hic hfi

theorem vsden_strs_nil {A : ES.CharSet} {s : ClassSet} (h : VSDen A s) (ha : s.alts = []) : A.strs = [] := by
  cases hs : A.strs with
  | nil => rfl
  | cons a t =>
    have := (h.srel a).1 (by rw [hs]; simp)
    rw [ha] at this; cases this

theorem opSDen_nested {negateSet : Bool} {A : ES.CharSet} {result : ClassSet} (h : VSDen A result)
    (hflag : ¬ (negateSet && result.mayContainStrings) = true) :
    OpSDen (if negateSet then ES.characterComplement rer A else A)
      (.cls (if negateSet then
          { result with cps := inverted (if fl.icase then Fold.addIcaseCodePoints result.cps else result.cps) }
        else result)) := by
  cases negateSet with
  | false => simpa [OpSDen] using h
  | true =>
    have ha : result.alts = [] := h.ns (by simpa using hflag)
    simp only [if_true, hfi, Bool.false_eq_true, if_false, OpSDen]
    exact ⟨(den_inverted h.den).congr (fun x _ => by simp [ES.characterComplement, ES.allCharacters, hic]),
      fun str => by simp [ES.characterComplement, ha],
      fun str hs => by simp [ha] at hs, fun str hs => by simp [ha] at hs, fun _ => ha⟩

mutual
theorem den_vOperand_s : ∀ (o : ES.VOp) (op : Operand), vopOKS fl.unicodeSets o = true →
    lowerVOperand fl o = .ok op → OpSDen (ES.vOpCharSet rer o) op
  | .c cp, op, hok, hl => by
    simp only [lowerVOperand, Except.ok.injEq] at hl; subst hl
    simp only [vopOKS, decide_eq_true_eq] at hok
    exact ⟨hok, fun x => by simp [ES.vOpCharSet, msf_noicase hic, ES.CharSet.single],
      by simp [ES.vOpCharSet, msf_noicase hic, ES.CharSet.single]⟩
  | .r _ _, op, hok, hl => by simp [lowerVOperand] at hl
  | .esc e, op, hok, hl => by
    simp only [lowerVOperand, hfi, Except.ok.injEq] at hl; subst hl
    exact ⟨by simpa [ES.vOpCharSet] using den_classEscape hic e, by simp [ES.vOpCharSet, classEscape_strs hic]⟩
  | .prop pneg kind name, op, hok, hl => by
    simp only [lowerVOperand] at hl
    simp only [vopOKS, propIsCharClass] at hok
    cases hp : lowerProp fl.unicodeSets kind name with
    | error e => rw [hp] at hl; cases hl
    | ok k =>
      cases k with
      | stringSet strs => simp [hp] at hok
      | charClass ivs =>
        rw [hp] at hl
        obtain ⟨hpos, hneg, hstrs⟩ := den_propEscape (Or.inr hic) hp
        cases pneg with
        | false =>
          simp only [Bool.false_eq_true, if_false, Except.ok.injEq] at hl; subst hl
          exact ⟨by simpa [ES.vOpCharSet] using hpos, by simp [ES.vOpCharSet, hstrs]⟩
        | true =>
          simp only [if_true, hfi, Bool.false_eq_true, if_false, Except.ok.injEq] at hl; subst hl
          exact ⟨by simpa [ES.vOpCharSet] using hneg, by simp [ES.vOpCharSet, hstrs]⟩
  | .q strs, op, hok, hl => by
    simp only [vopOKS] at hok
    simp only [lowerVOperand] at hl
    split at hl
    · cases hl
    · simp only [Except.ok.injEq] at hl; subst hl
      have h1 := classStringSet_den hic strs {} ES.CharSet.empty vsden_empty hok
      simp only [OpSDen, ES.vOpCharSet]
      exact ⟨h1.den.congr (fun x _ => by simp [ES.CharSet.union, ES.CharSet.empty]),
        fun str => by rw [← h1.srel, mem_union_strs]; simp [ES.CharSet.empty], h1.len1, h1.scalar, h1.ns⟩
  | .cls negateSet vop ops, op, hok, hl => by
    simp only [vopOKS] at hok
    simp only [lowerVOperand] at hl
    cases vop with
    | union =>
      simp only at hl
      cases hr : lowerVUnion fl ops {} with
      | error e => rw [hr] at hl; cases hl
      | ok result =>
        rw [hr] at hl
        simp only at hl
        by_cases hflag : (negateSet && result.mayContainStrings) = true
        · rw [if_pos hflag] at hl; cases hl
        rw [if_neg hflag] at hl
        simp only [Except.ok.injEq] at hl; subst hl
        have h0 := den_vUnion_s ops {} result ES.CharSet.empty vsden_empty hok hr
        have h1 : VSDen (ES.vUnion rer ops) result :=
          ⟨h0.den.congr (fun x _ => by simp [ES.CharSet.union, ES.CharSet.empty]),
            fun str => by rw [← h0.srel, mem_union_strs]; simp [ES.CharSet.empty], h0.len1, h0.scalar, h0.ns⟩
        simp only [ES.vOpCharSet, absorb_id h1.len1]
        exact opSDen_nested hic fl hfi h1 hflag
    | inter =>
      simp only at hl
      cases hr : lowerVInterStart fl ops with
      | error e => rw [hr] at hl; cases hl
      | ok result =>
        rw [hr] at hl
        simp only at hl
        by_cases hflag : (negateSet && result.mayContainStrings) = true
        · rw [if_pos hflag] at hl; cases hl
        rw [if_neg hflag] at hl
        simp only [Except.ok.injEq] at hl; subst hl
        have h1 := den_vInterStart_s ops result hok hr
        simp only [ES.vOpCharSet, absorb_id h1.len1]
        exact opSDen_nested hic fl hfi h1 hflag
    | sub =>
      simp only at hl
      cases hr : lowerVSubStart fl ops with
      | error e => rw [hr] at hl; cases hl
      | ok result =>
        rw [hr] at hl
        simp only at hl
        by_cases hflag : (negateSet && result.mayContainStrings) = true
        · rw [if_pos hflag] at hl; cases hl
        rw [if_neg hflag] at hl
        simp only [Except.ok.injEq] at hl; subst hl
        have h1 := den_vSubStart_s ops result hok hr
        simp only [ES.vOpCharSet, absorb_id h1.len1]
        exact opSDen_nested hic fl hfi h1 hflag
theorem den_vInterStart_s : ∀ (ops : List ES.VOp) (result : ClassSet),
    vopsOKS fl.unicodeSets ops = true → lowerVInterStart fl ops = .ok result →
    VSDen (ES.vInter rer ops) result
  | [], result, hok, hl => by simp [lowerVInterStart] at hl
  | [_], result, hok, hl => by simp [lowerVInterStart] at hl
  | o :: o2 :: os, result, hok, hl => by
    simp only [vopsOKS, Bool.and_eq_true] at hok
    simp only [lowerVInterStart] at hl
    cases hf : lowerVOperand fl o with
    | error e => rw [hf] at hl; cases hl
    | ok first =>
      rw [hf] at hl
      simp only [hfi, closeClassSetOperand, Bool.not_false, if_true] at hl
      have h1 := den_vOperand_s o first hok.1 hf
      simp only [ES.vInter]
      exact den_vInter_s (o2 :: os) _ result _ (vsden_first h1) (by simp [vopsOKS, hok.2]) hl
theorem den_vSubStart_s : ∀ (ops : List ES.VOp) (result : ClassSet),
    vopsOKS fl.unicodeSets ops = true → lowerVSubStart fl ops = .ok result →
    VSDen (ES.vSub rer ops) result
  | [], result, hok, hl => by simp [lowerVSubStart] at hl
  | [_], result, hok, hl => by simp [lowerVSubStart] at hl
  | o :: o2 :: os, result, hok, hl => by
    simp only [vopsOKS, Bool.and_eq_true] at hok
    simp only [lowerVSubStart] at hl
    cases hf : lowerVOperand fl o with
    | error e => rw [hf] at hl; cases hl
    | ok first =>
      rw [hf] at hl
      simp only [hfi, closeClassSetOperand, Bool.not_false, if_true] at hl
      have h1 := den_vOperand_s o first hok.1 hf
      simp only [ES.vSub]
      exact den_vSub_s (o2 :: os) _ result _ (vsden_first h1) (by simp [vopsOKS, hok.2]) hl
theorem den_vUnion_s : ∀ (ops : List ES.VOp) (acc result : ClassSet) (A : ES.CharSet), VSDen A acc →
    vopsOKS fl.unicodeSets ops = true → lowerVUnion fl ops acc = .ok result →
    VSDen (A.union (ES.vUnion rer ops)) result
  | [], acc, result, A, ha, hok, hl => by
    simp only [lowerVUnion, Except.ok.injEq] at hl; subst hl
    exact ⟨ha.den.congr (fun x _ => by simp [ES.CharSet.union, ES.vUnion, ES.CharSet.empty]),
      fun str => by rw [mem_union_strs, ← ha.srel]; simp [ES.vUnion, ES.CharSet.empty], ha.len1, ha.scalar,
      ha.ns⟩
  | o :: os, acc, result, A, ha, hok, hl => by
    simp only [vopsOKS, Bool.and_eq_true] at hok
    by_cases hr : ∃ lo hi, o = .r lo hi
    · obtain ⟨lo, hi, rfl⟩ := hr
      simp only [vopOKS, Bool.and_eq_true, decide_eq_true_eq] at hok
      have : ¬ lo > hi := by omega
      simp only [lowerVUnion, this, if_false] at hl
      have hstep : VSDen (A.union (ES.vOpCharSet rer (.r lo hi))) { acc with cps := add acc.cps ⟨lo, hi⟩ } :=
        ⟨(den_add ha.den hok.1.1 hok.1.2).congr (fun x _ => by
            simp [ES.CharSet.union, ES.vOpCharSet, msf_noicase hic, ES.CharSet.range]),
          fun str => by
            rw [mem_union_strs, ← ha.srel]
            simp [ES.vOpCharSet, msf_noicase hic, ES.CharSet.range],
          ha.len1, ha.scalar, ha.ns⟩
      have h1 := den_vUnion_s os _ result _ hstep hok.2 hl
      simp only [ES.vUnion]
      exact vsden_assoc h1
    · have hne : ∀ lo hi, o ≠ .r lo hi := fun lo hi h => hr ⟨lo, hi, h⟩
      rw [lowerVUnion_cons hne] at hl
      cases hf : lowerVOperand fl o with
      | error e => rw [hf] at hl; cases hl
      | ok x =>
        rw [hf] at hl
        have h1 := den_vOperand_s o x hok.1 hf
        have hstep := vsden_unionOperand ha h1
        have h2 := den_vUnion_s os _ result _ hstep hok.2 hl
        simp only [ES.vUnion]
        exact vsden_assoc h2
theorem den_vInter_s : ∀ (ops : List ES.VOp) (acc result : ClassSet) (A : ES.CharSet), VSDen A acc →
    vopsOKS fl.unicodeSets ops = true → lowerVInter fl ops acc = .ok result →
    VSDen (ES.vInterFrom rer A ops) result
  | [], acc, result, A, ha, hok, hl => by
    simp only [lowerVInter, Except.ok.injEq] at hl; subst hl
    simpa [ES.vInterFrom] using ha
  | o :: os, acc, result, A, ha, hok, hl => by
    simp only [vopsOKS, Bool.and_eq_true] at hok
    simp only [lowerVInter] at hl
    cases hf : lowerVOperand fl o with
    | error e => rw [hf] at hl; cases hl
    | ok x =>
      rw [hf] at hl
      simp only [hfi, closeClassSetOperand, Bool.not_false, if_true] at hl
      have h1 := den_vOperand_s o x hok.1 hf
      simp only [ES.vInterFrom]
      exact den_vInter_s os _ result _ (vsden_intersectOperand ha h1) hok.2 hl
theorem den_vSub_s : ∀ (ops : List ES.VOp) (acc result : ClassSet) (A : ES.CharSet), VSDen A acc →
    vopsOKS fl.unicodeSets ops = true → lowerVSub fl ops acc = .ok result →
    VSDen (ES.vSubFrom rer A ops) result
  | [], acc, result, A, ha, hok, hl => by
    simp only [lowerVSub, Except.ok.injEq] at hl; subst hl
    simpa [ES.vSubFrom] using ha
  | o :: os, acc, result, A, ha, hok, hl => by
    simp only [vopsOKS, Bool.and_eq_true] at hok
    simp only [lowerVSub] at hl
    cases hf : lowerVOperand fl o with
    | error e => rw [hf] at hl; cases hl
    | ok x =>
      rw [hf] at hl
      simp only [hfi, closeClassSetOperand, Bool.not_false, if_true] at hl
      have h1 := den_vOperand_s o x hok.1 hf
      simp only [ES.vSubFrom]
      exact den_vSub_s os _ result _ (vsden_subtractOperand ha h1) hok.2 hl
end

end


/-! ## The node -/

/-- what `ClassSet::node` builds: brackets, string sets, `Empty`, and `Alt`s of these -/
inductive ClassNode : Node → Prop
  | bracket (bc : IR.Bracket) : ClassNode (.bracket bc)
  | strset (alts : List (List Nat)) (ic : Bool) : ClassNode (.stringSet alts ic)
  | empty : ClassNode .empty
  | alt {l r : Node} : ClassNode l → ClassNode r → ClassNode (.alt l r)

theorem ClassNode.facts {n : Node} (h : ClassNode n) (b : Bool) (lo hi : Nat) :
    Parse.reverseCats b n = .ok n ∧ numGroups n = 0 ∧ InRange lo hi n := by
  induction h with
  | bracket bc => simp [Parse.reverseCats, numGroups, InRange]
  | strset alts ic => simp [Parse.reverseCats, numGroups, InRange]
  | empty => simp [Parse.reverseCats, numGroups, InRange]
  | alt _ _ ih1 ih2 => simp [Parse.reverseCats, numGroups, InRange, ih1, ih2]

theorem classNode_node (s : ClassSet) (ic neg : Bool) : ClassNode (s.node ic neg) := by
  have h0 : ∀ t : ClassSet, ClassNode (t.nonemptyNode ic neg) := by
    intro t
    simp only [ClassSet.nonemptyNode, mkBracket, altsIntoNode, makeAlt_two]
    repeat' split
    all_goals first
      | exact .bracket _
      | exact .strset _ _
      | exact .alt (.strset _ _) (.bracket _)
  simp only [ClassSet.node]
  generalize s.absorbSingleCharacters = s'
  split
  · rw [makeAlt_two]; exact .alt (h0 _) .empty
  · exact h0 _

/-- `v`-mode classes with strings, without `i`. -/
def classSupportedS (fl : IR.Flags) : ES.Node → Bool
  | .vcls _ _ ops => !fl.icase && vopsOKS fl.unicodeSets ops
  | _ => false

theorem lower_class_node_s {inp : Input} {cs : List Nat} (ht : Utf8Text inp cs) (pattern : ES.Node) (total : Nat) :
    ∀ (n : ES.Node) (fl : IR.Flags) (rer : ES.RER) (pi : Nat) (back : Bool) (ir : Node),
      FlagsRel rer fl → classSupportedS fl n = true → lowerNode pattern total n fl pi = .ok ir →
      ∃ ir', Parse.reverseCats back ir = .ok ir' ∧ NodeSim inp cs total pattern n rer pi back ir ir' := by
  intro n fl rer pi back ir hfl hs hl
  cases n with
  | vcls neg op ops =>
    simp only [classSupportedS, Bool.and_eq_true, Bool.not_eq_true'] at hs
    have hic : rer.ignoreCase = false := by rw [hfl.icase]; exact hs.1
    simp only [lowerNode] at hl
    split at hl
    · cases hl
    · rename_i hus
      have hus' : rer.unicodeSets = true := by rw [hfl.unicodeSets]; simpa using hus
      simp only [lowerVClass] at hl
      have fin : ∀ r, VSDen (ES.vExprCharSet rer op ops) r → ¬ (neg && r.mayContainStrings) = true →
          ir = r.node fl.icase neg →
          ∃ ir', Parse.reverseCats back ir = .ok ir' ∧
            NodeSim inp cs total pattern (.vcls neg op ops) rer pi back ir ir' := by
        intro r hv hflag hir
        subst hir
        rw [hs.1]
        have hfacts := (classNode_node r false neg).facts back pi pi
        apply NodeSim.leaf hfacts.1 rfl hfacts.2.1 hfacts.2.2
        simp only [ES.compileNode]
        cases neg with
        | false =>
          have hcc : ES.compileVCharacterClass rer false op ops = (ES.vExprCharSet rer op ops, false) := by
            simp [ES.compileVCharacterClass]
          rw [hcc]
          exact sim_stringClass ht total rer hic hus' _ r hv.den hv.srel hv.len1 hv.scalar back _ _
        | true =>
          have halts : r.alts = [] := hv.ns (by simpa using hflag)
          have hcc : ES.compileVCharacterClass rer true op ops =
              (ES.characterComplement rer (ES.vExprCharSet rer op ops), false) := by
            simp [ES.compileVCharacterClass, hus']
          rw [hcc, node_noalts r true halts]
          apply sim_bracket ht total rer hic _ false true _ back _ _ (Or.inr rfl)
          intro ch hch
          rw [bracketTest_den hv.den true hch]
          simp [ES.characterComplement, ES.allCharacters, hic, hch]
      cases op with
      | union =>
        simp only at hl
        cases hr : lowerVUnion fl ops {} with
        | error e => rw [hr] at hl; cases hl
        | ok r =>
          rw [hr] at hl
          simp only at hl
          by_cases hflag : (neg && r.mayContainStrings) = true
          · rw [if_pos hflag] at hl; cases hl
          rw [if_neg hflag] at hl
          simp only [Except.ok.injEq] at hl
          have h0 := den_vUnion_s hic fl hs.1 ops {} r ES.CharSet.empty vsden_empty hs.2 hr
          exact fin r ⟨h0.den.congr (fun x _ => by simp [ES.vExprCharSet, ES.CharSet.union, ES.CharSet.empty]),
            fun str => by rw [← h0.srel, mem_union_strs]; simp [ES.vExprCharSet, ES.CharSet.empty],
            h0.len1, h0.scalar, h0.ns⟩ hflag hl.symm
      | inter =>
        simp only at hl
        cases hr : lowerVInterStart fl ops with
        | error e => rw [hr] at hl; cases hl
        | ok r =>
          rw [hr] at hl
          simp only at hl
          by_cases hflag : (neg && r.mayContainStrings) = true
          · rw [if_pos hflag] at hl; cases hl
          rw [if_neg hflag] at hl
          simp only [Except.ok.injEq] at hl
          exact fin r (den_vInterStart_s hic fl hs.1 ops r hs.2 hr) hflag hl.symm
      | sub =>
        simp only at hl
        cases hr : lowerVSubStart fl ops with
        | error e => rw [hr] at hl; cases hl
        | ok r =>
          rw [hr] at hl
          simp only at hl
          by_cases hflag : (neg && r.mayContainStrings) = true
          · rw [if_pos hflag] at hl; cases hl
          rw [if_neg hflag] at hl
          simp only [Except.ok.injEq] at hl
          exact fin r (den_vSubStart_s hic fl hs.1 ops r hs.2 hr) hflag hl.symm
  | _ => simp [classSupportedS] at hs

end Regress.Lower
