import RegressModel.IR.Walk
/-!
# `walkMut` (fuel) and `walkMutPost` (structural) agree in post-order

With at least `n.height` units of fuel, the general fuel-bounded walker run in post-order is the
structurally recursive post-order walker (which `optimizer::Pass::run_postorder` uses).
-/
namespace Regress.IR

variable {σ ε : Type}

/-- Embed the visitor's error type. -/
def liftErr {α : Type} : Except ε α → Except (WalkErr ε) α
  | .error e => .error (.visitor e)
  | .ok a => .ok a

theorem height_pos (n : Node) : 1 ≤ n.height := by
  cases n <;> simp [Node.height]

mutual
theorem process_eq_processPost (f : Visitor σ ε) :
    (n : Node) → (fuel : Nat) → n.height ≤ fuel → (w : Walk) → (s : σ) →
    process f true fuel n w s = liftErr (processPost f n w s)
  | n, 0, h, w, s => by have := height_pos n; omega
  | .cat ns, fuel + 1, h, w, s => by
    have ih := mapNodes_eq_processPostList f ns fuel (by simp [Node.height] at h; omega)
      { w with skipChildren := false, depth := w.depth + 1 } s
    simp only [process, processPost, postVisit, Walk.enter, Bool.not_true, Bool.false_eq_true,
      ↓reduceIte, Bool.not_false, ih]
    cases processPostList f ns { w with skipChildren := false, depth := w.depth + 1 } s with
    | error e => rfl
    | ok r => simp only [liftErr]; cases f (.cat r.1) _ r.2.2 <;> rfl
  | .alt l r, fuel + 1, h, w, s => by
    have hl : l.height ≤ fuel := by simp [Node.height] at h; omega
    have hr : r.height ≤ fuel := by simp [Node.height] at h; omega
    simp only [process, processPost, postVisit, Walk.enter, Bool.not_true, Bool.false_eq_true,
      ↓reduceIte, Bool.not_false, process_eq_processPost f l fuel hl]
    cases processPost f l { w with skipChildren := false, depth := w.depth + 1 } s with
    | error e => rfl
    | ok r1 =>
      simp only [liftErr, process_eq_processPost f r fuel hr]
      cases processPost f r r1.2.1 r1.2.2 with
      | error e => rfl
      | ok r2 => dsimp only; cases f (.alt r1.1 r2.1) _ r2.2.2 <;> rfl
  | .loop l q g0 g1, fuel + 1, h, w, s => by
    have hl : l.height ≤ fuel := by simp [Node.height] at h; omega
    simp only [process, processPost, postVisit, Walk.enter, Bool.not_true, Bool.false_eq_true,
      ↓reduceIte, Bool.not_false, process_eq_processPost f l fuel hl]
    cases processPost f l { w with skipChildren := false, depth := w.depth + 1 } s with
    | error e => rfl
    | ok r1 => simp only [liftErr]; cases f (.loop r1.1 q g0 g1) _ r1.2.2 <;> rfl
  | .loop1 l q, fuel + 1, h, w, s => by
    have hl : l.height ≤ fuel := by simp [Node.height] at h; omega
    simp only [process, processPost, postVisit, Walk.enter, Bool.not_true, Bool.false_eq_true,
      ↓reduceIte, Bool.not_false, process_eq_processPost f l fuel hl]
    cases processPost f l { w with skipChildren := false, depth := w.depth + 1 } s with
    | error e => rfl
    | ok r1 => simp only [liftErr]; cases f (.loop1 r1.1 q) _ r1.2.2 <;> rfl
  | .group id name c, fuel + 1, h, w, s => by
    have hl : c.height ≤ fuel := by simp [Node.height] at h; omega
    simp only [process, processPost, postVisit, Walk.enter, Bool.not_true, Bool.false_eq_true,
      ↓reduceIte, Bool.not_false, process_eq_processPost f c fuel hl]
    cases processPost f c { w with skipChildren := false, depth := w.depth + 1 } s with
    | error e => rfl
    | ok r1 => simp only [liftErr]; cases f (.group id name r1.1) _ r1.2.2 <;> rfl
  | .look ng bw sg eg c, fuel + 1, h, w, s => by
    have hl : c.height ≤ fuel := by simp [Node.height] at h; omega
    simp only [process, processPost, postVisit, Walk.enter, Bool.not_true, Bool.false_eq_true,
      ↓reduceIte, Bool.not_false, process_eq_processPost f c fuel hl]
    cases processPost f c ⟨false, w.depth + 1, bw, w.unicode⟩ s with
    | error e => rfl
    | ok r1 => simp only [liftErr]; cases f (.look ng bw sg eg r1.1) _ r1.2.2 <;> rfl
  | .empty, fuel + 1, h, w, s => by
    simp only [process, processPost, postVisit, Walk.enter, Bool.not_true, Bool.false_eq_true,
      ↓reduceIte, Bool.not_false, liftErr]
    cases f .empty _ s <;> rfl
  | .goal, fuel + 1, h, w, s => by
    simp only [process, processPost, postVisit, Walk.enter, Bool.not_true, Bool.false_eq_true,
      ↓reduceIte, Bool.not_false, liftErr]
    cases f .goal _ s <;> rfl
  | .char c, fuel + 1, h, w, s => by
    simp only [process, processPost, postVisit, Walk.enter, Bool.not_true, Bool.false_eq_true,
      ↓reduceIte, Bool.not_false, liftErr]
    cases f (.char c) _ s <;> rfl
  | .byteSeq c, fuel + 1, h, w, s => by
    simp only [process, processPost, postVisit, Walk.enter, Bool.not_true, Bool.false_eq_true,
      ↓reduceIte, Bool.not_false, liftErr]
    cases f (.byteSeq c) _ s <;> rfl
  | .byteSet c, fuel + 1, h, w, s => by
    simp only [process, processPost, postVisit, Walk.enter, Bool.not_true, Bool.false_eq_true,
      ↓reduceIte, Bool.not_false, liftErr]
    cases f (.byteSet c) _ s <;> rfl
  | .charSet c, fuel + 1, h, w, s => by
    simp only [process, processPost, postVisit, Walk.enter, Bool.not_true, Bool.false_eq_true,
      ↓reduceIte, Bool.not_false, liftErr]
    cases f (.charSet c) _ s <;> rfl
  | .matchAny, fuel + 1, h, w, s => by
    simp only [process, processPost, postVisit, Walk.enter, Bool.not_true, Bool.false_eq_true,
      ↓reduceIte, Bool.not_false, liftErr]
    cases f .matchAny _ s <;> rfl
  | .matchAnyExceptLT, fuel + 1, h, w, s => by
    simp only [process, processPost, postVisit, Walk.enter, Bool.not_true, Bool.false_eq_true,
      ↓reduceIte, Bool.not_false, liftErr]
    cases f .matchAnyExceptLT _ s <;> rfl
  | .anchor a b, fuel + 1, h, w, s => by
    simp only [process, processPost, postVisit, Walk.enter, Bool.not_true, Bool.false_eq_true,
      ↓reduceIte, Bool.not_false, liftErr]
    cases f (.anchor a b) _ s <;> rfl
  | .wordBoundary a b, fuel + 1, h, w, s => by
    simp only [process, processPost, postVisit, Walk.enter, Bool.not_true, Bool.false_eq_true,
      ↓reduceIte, Bool.not_false, liftErr]
    cases f (.wordBoundary a b) _ s <;> rfl
  | .backRef a b, fuel + 1, h, w, s => by
    simp only [process, processPost, postVisit, Walk.enter, Bool.not_true, Bool.false_eq_true,
      ↓reduceIte, Bool.not_false, liftErr]
    cases f (.backRef a b) _ s <;> rfl
  | .bracket a, fuel + 1, h, w, s => by
    simp only [process, processPost, postVisit, Walk.enter, Bool.not_true, Bool.false_eq_true,
      ↓reduceIte, Bool.not_false, liftErr]
    cases f (.bracket a) _ s <;> rfl
  | .stringSet a b, fuel + 1, h, w, s => by
    simp only [process, processPost, postVisit, Walk.enter, Bool.not_true, Bool.false_eq_true,
      ↓reduceIte, Bool.not_false, liftErr]
    cases f (.stringSet a b) _ s <;> rfl
theorem mapNodes_eq_processPostList (f : Visitor σ ε) :
    (ns : List Node) → (fuel : Nat) → heightList ns ≤ fuel → (w : Walk) → (s : σ) →
    mapNodesM (process f true fuel) ns w s = liftErr (processPostList f ns w s)
  | [], fuel, h, w, s => by simp [mapNodesM, processPostList, liftErr]
  | n :: ns, fuel, h, w, s => by
    have hn : n.height ≤ fuel := by simp [heightList] at h; omega
    have hns : heightList ns ≤ fuel := by simp [heightList] at h; omega
    simp only [mapNodesM, processPostList, process_eq_processPost f n fuel hn]
    cases processPost f n w s with
    | error e => rfl
    | ok r1 =>
      simp only [liftErr, mapNodes_eq_processPostList f ns fuel hns]
      cases processPostList f ns r1.2.1 r1.2.2 with
      | error e => rfl
      | ok r2 => rfl
end

/-- `walk_mut(true, …)` with `n.height` units of fuel is the structural post-order walk. -/
theorem walkMut_postorder_eq (f : Visitor σ ε) (unicode : Bool) (n : Node) (fuel : Nat)
    (h : n.height ≤ fuel) (s : σ) :
    walkMut f true unicode fuel n s = liftErr (walkMutPost f unicode n s) := by
  unfold walkMut walkMutPost
  rw [process_eq_processPost f n fuel h]
  cases processPost f n (Walk.new unicode) s <;> rfl

end Regress.IR
