import Proofs.Lemmas.SemUtf8
/-!
# The UTF-8 invariant of matcher states

On well-formed UTF-8 text, a well-formed IR tree started at a char boundary with all capture
offsets at char boundaries only reaches such states (`sem_good`).  `utf8Inv cs` packages this as a
`StInv`, the invariant under which `form_literal_bytes` preserves the semantics.
-/
namespace Regress.IR

open Regress.VM Regress

/-- Both offsets of a capture group (when set) are char boundaries. -/
def goodCap (cs : List Nat) (c : Cap) : Prop :=
  (∀ a, c.1 = some a → AtBoundary cs a) ∧ (∀ b, c.2 = some b → AtBoundary cs b)

/-- Every offset of the state is a char boundary. -/
def Good (cs : List Nat) (st : St) : Prop := AtBoundary cs st.pos ∧ ∀ c ∈ st.caps, goodCap cs c

theorem Good.withPos {cs : List Nat} {st : St} (h : Good cs st) {p : Nat} (hp : AtBoundary cs p) :
    Good cs { st with pos := p } := ⟨hp, h.2⟩

theorem mem_resetFrom {caps : List Cap} {i g0 g1 : Nat} {c : Cap} (h : c ∈ resetFrom caps i g0 g1) :
    c = (none, none) ∨ c ∈ caps := by
  induction caps generalizing i with
  | nil => simp [resetFrom] at h
  | cons x xs ih =>
    simp only [resetFrom, List.mem_cons] at h
    rcases h with h | h
    · split at h
      · left; exact h
      · right; simp [h]
    · rcases ih h with h | h
      · left; exact h
      · right; simp [h]

theorem mem_modify {caps : List Cap} {g : Nat} {f : Cap → Cap} {c : Cap} (h : c ∈ caps.modify g f) :
    c ∈ caps ∨ ∃ c0 ∈ caps, c = f c0 := by
  induction caps generalizing g with
  | nil => simp at h
  | cons x xs ih =>
    cases g with
    | zero =>
      simp only [List.modify_zero_cons, List.mem_cons] at h
      rcases h with h | h
      · right; exact ⟨x, by simp, h⟩
      · left; simp [h]
    | succ g =>
      simp only [List.modify_succ_cons, List.mem_cons] at h
      rcases h with h | h
      · left; simp [h]
      · rcases ih h with h | ⟨c0, hc0, rfl⟩
        · left; simp [h]
        · right; exact ⟨c0, by simp [hc0], rfl⟩

/-- The UTF-8 invariant as a `StInv`. -/
def utf8Inv (cs : List Nat) : StInv where
  G := Good cs
  reset := by
    intro st g0 g1 h
    refine ⟨h.1, fun c hc => ?_⟩
    rcases mem_resetFrom hc with rfl | hc
    · exact ⟨fun a ha => (by cases ha), fun b hb => (by cases hb)⟩
    · exact h.2 c hc
  setStart := by
    intro st id h
    refine ⟨h.1, fun c hc => ?_⟩
    rcases mem_modify hc with hc | ⟨c0, hc0, rfl⟩
    · exact h.2 c hc
    · exact ⟨fun a ha => by cases ha; exact h.1, (h.2 c0 hc0).2⟩
  setEnd := by
    intro st id h
    refine ⟨h.1, fun c hc => ?_⟩
    rcases mem_modify hc with hc | ⟨c0, hc0, rfl⟩
    · exact h.2 c hc
    · exact ⟨(h.2 c0 hc0).1, fun b hb => by cases hb; exact h.1⟩
  restore := fun st s h hs => ⟨h.1, hs.2⟩

/-! ## Steps between boundaries -/

theorem next_boundary {inp : Input} {cs : List Nat} (ht : Utf8Text inp cs) {fwd : Bool} {p c e : Nat}
    (hb : AtBoundary cs p) (h : Cursor.next inp fwd p = .ok (some (c, e))) : AtBoundary cs e := by
  have : charStep inp fwd p (fun _ => true) = some e := by simp [charStep, h]
  exact charStep_boundary ht hb this

/-- `match_bytes` of the encoding of scalar values, from a boundary, ends at a boundary. -/
theorem matchBytes_boundary' {inp : Input} {cs ds : List Nat} (ht : Utf8Text inp cs) (hds : Utf8.AllScalar ds)
    {fwd : Bool} {p e : Nat} (hb : AtBoundary cs p) (h : inp.matchBytes fwd p (Utf8.encodeAll ds) = some e) :
    AtBoundary cs e := by
  obtain ⟨k, hk, rfl⟩ := hb
  simp only [Input.matchBytes, ht.bytes] at h
  cases fwd
  · obtain ⟨_, rfl⟩ := (Utf8.matchBytes_back_iff_chars ht.scalar hds hk e).1 h
    exact ⟨k - ds.length, by omega, rfl⟩
  · obtain ⟨hpre, rfl⟩ := (Utf8.matchBytes_iff_chars ht.scalar hds k e).1 h
    have := hpre.length_le
    simp only [List.length_drop] at this
    by_cases hkl : k + ds.length ≤ cs.length
    · exact ⟨k + ds.length, hkl, rfl⟩
    · exact ⟨cs.length, Nat.le_refl _, by
        rw [Utf8.off_of_length_le (by omega), Utf8.off_length]⟩

theorem off_add (cs : List Nat) (i m : Nat) : Utf8.off cs (i + m) = Utf8.off cs i + Utf8.off (cs.drop i) m := by
  simp only [Utf8.off, List.take_add, Utf8.encodeAll_append, List.length_append]

/-- The bytes between two boundaries are the encoding of the scalars between them. -/
theorem slice_between (cs : List Nat) {i j : Nat} (hij : i ≤ j) :
    Utf8.slice (Utf8.text cs) (Utf8.off cs i) (Utf8.off cs j) = Utf8.encodeAll ((cs.drop i).take (j - i)) := by
  rw [Utf8.slice_eq]
  simp only [Utf8.text, List.toList_toArray, Utf8.drop_off]
  have : Utf8.off cs j = Utf8.off cs i + Utf8.off (cs.drop i) (j - i) := by
    rw [← off_add]; congr 1; omega
  rw [this, Nat.add_sub_cancel_left, Utf8.take_off]

theorem allScalar_sub {cs : List Nat} (h : Utf8.AllScalar cs) (i m : Nat) : Utf8.AllScalar ((cs.drop i).take m) :=
  (h.drop i).take m

theorem backrefIcaseLoop_boundary {inp ref : Input} {cs : List Nat} (ht : Utf8Text inp cs) {fwd : Bool} :
    ∀ (fuel refPos pos : Nat) {e : Nat}, AtBoundary cs pos →
      backrefIcaseLoop inp ref fwd fuel refPos pos = .ok (some e) → AtBoundary cs e := by
  intro fuel
  induction fuel with
  | zero => intro _ _ _ _ h; simp [backrefIcaseLoop] at h
  | succ k ih =>
    intro refPos pos e hb h
    unfold backrefIcaseLoop at h
    split at h
    · cases h
    · cases h; exact hb
    · split at h
      · cases h
      · cases h
      · rename_i c2 pos' heq
        split at h
        · exact ih _ _ (next_boundary ht hb heq) h
        · cases h

theorem backRefStep_boundary {inp : Input} {cs : List Nat} (ht : Utf8Text inp cs) {icase fwd : Bool}
    {rs re pos e : Nat} (hrs : AtBoundary cs rs) (hre : AtBoundary cs re) (hb : AtBoundary cs pos)
    (h : backRefStep inp icase fwd rs re pos = some e) : AtBoundary cs e := by
  unfold backRefStep at h
  split at h
  · split at h
    · rename_i r heq
      subst h
      unfold backrefIcase at heq
      split at heq
      · cases heq
      · exact backrefIcaseLoop_boundary ht _ _ _ hb heq
    · cases h
  · unfold backref Input.subrangeEq at h
    split at h
    · cases h
    · rename_i hle
      obtain ⟨i, hi, rfl⟩ := hrs
      obtain ⟨j, hj, rfl⟩ := hre
      have hij : i ≤ j := by
        apply Classical.byContradiction
        intro hcon
        have := Utf8.off_strict_mono (cs := cs) (k := j) (j := i) (by omega) hi
        omega
      unfold Utf8.subrangeEq at h
      have hsl := slice_between cs hij
      rw [← ht.bytes] at hsl
      rw [hsl] at h
      exact matchBytes_boundary' ht (allScalar_sub ht.scalar i (j - i)) hb h

theorem cpStep_boundary {inp : Input} {cs : List Nat} (ht : Utf8Text inp cs) {icase fwd : Bool} {pos cp e : Nat}
    (hb : AtBoundary cs pos) (h : cpStep inp icase fwd pos cp = some e) : AtBoundary cs e := by
  unfold cpStep at h
  split at h
  · rename_i c _
    split at h
    · rename_i hsc
      have : Utf8.encode c = Utf8.encodeAll [c] := by simp
      rw [this] at h
      exact matchBytes_boundary' ht (by intro x hx; simp at hx; subst hx; exact hsc) hb h
    · exact charStep_boundary ht hb h
  · split at h
    · rename_i hall
      rw [byteStep_eq_charStep ht fwd hb _ (by
        intro b hbm
        have hm : b ∈ Fold.expandCodePoint cp icase inp.unicode := by simpa using hbm
        have := List.all_eq_true.1 hall b hm
        simp at this; omega)] at h
      exact charStep_boundary ht hb h
    · exact charStep_boundary ht hb h

theorem stepSeq_boundary {cs : List Nat} {step : Nat → Nat → Option Nat}
    (hs : ∀ pos c e, AtBoundary cs pos → step pos c = some e → AtBoundary cs e) :
    ∀ (l : List Nat) (pos : Nat) {e : Nat}, AtBoundary cs pos → stepSeq step l pos = some e → AtBoundary cs e := by
  intro l
  induction l with
  | nil => intro pos e hb h; simp [stepSeq] at h; rw [← h]; exact hb
  | cons c l ih =>
    intro pos e hb h
    unfold stepSeq at h
    split at h
    · cases h
    · rename_i pos' heq
      exact ih _ (hs _ _ _ hb heq) h

/-! ## Loops -/

theorem loopIter_good {cs : List Nat} {body : St → List St} (q : Quant) (g0 g1 : Nat)
    (hb : ∀ s, Good cs s → ∀ s' ∈ body s, Good cs s') :
    ∀ k iter entry st s, Good cs st → s ∈ loopIter body q g0 g1 k iter entry st → Good cs s := by
  intro k
  induction k with
  | zero => intro _ _ _ _ _ h; simp [loopIter] at h
  | succ k ih =>
    intro iter entry st s hg h
    have taken : ∀ s, s ∈ (body (st.resetGroups g0 g1)).flatMap (loopIter body q g0 g1 k (iter + 1) st.pos) →
        Good cs s := by
      intro s hs
      obtain ⟨s1, h1, h2⟩ := List.mem_flatMap.1 hs
      exact ih _ _ _ _ (hb _ ((utf8Inv cs).reset st g0 g1 hg) _ h1) h2
    simp only [loopIter] at h
    split at h
    · simp at h
    · split at h
      · simp at h
      · simp at h; rw [h]; exact hg
      · exact taken s h
      · split at h
        · rcases List.mem_append.1 h with h | h
          · exact taken s h
          · simp at h; rw [h]; exact hg
        · rcases List.mem_cons.1 h with h | h
          · rw [h]; exact hg
          · exact taken s h

theorem loop1Iter_good {cs : List Nat} {body : St → List St} (q : Quant)
    (hb : ∀ s, Good cs s → ∀ s' ∈ body s, Good cs s') :
    ∀ k iter st s, Good cs st → s ∈ loop1Iter body q k iter st → Good cs s := by
  intro k
  induction k with
  | zero => intro _ _ _ _ h; simp [loop1Iter] at h
  | succ k ih =>
    intro iter st s hg h
    simp only [loop1Iter] at h
    split at h
    · simp at h
    · simp at h; rw [h]; exact hg
    · rename_i st' heq _
      have hm : st' ∈ body st := by
        split at heq
        · exact List.mem_of_mem_head? heq
        · cases heq
      exact ih _ _ _ (hb _ hg _ hm) h
    · rename_i st' heq _
      have hm : st' ∈ body st := by
        split at heq
        · exact List.mem_of_mem_head? heq
        · cases heq
      split at h
      · rcases List.mem_append.1 h with h | h
        · exact ih _ _ _ (hb _ hg _ hm) h
        · simp at h; rw [h]; exact hg
      · rcases List.mem_cons.1 h with h | h
        · rw [h]; exact hg
        · exact ih _ _ _ (hb _ hg _ hm) h

/-! ## Every well-formed node preserves the invariant -/

theorem optSt_good {cs : List Nat} {st s : St} {o : Option Nat} (hg : Good cs st)
    (ho : ∀ p, o = some p → AtBoundary cs p) (h : s ∈ optSt st o) : Good cs s := by
  obtain ⟨p, hp, rfl⟩ := mem_optSt h
  exact hg.withPos (ho p hp)

mutual
theorem sem_good {inp : Input} {cs : List Nat} (ht : Utf8Text inp cs) :
    ∀ (n : Node) (fwd : Bool) (st s : St), WF n → Good cs st → s ∈ sem inp n fwd st → Good cs s
  | .empty, fwd, st, s, _, hg, h => by simp [sem] at h; rw [h]; exact hg
  | .goal, fwd, st, s, _, hg, h => by simp [sem] at h; rw [h]; exact hg
  | .char c, fwd, st, s, _, hg, h => by
    simp only [sem] at h; exact optSt_good hg (fun p hp => charStep_boundary ht hg.1 hp) h
  | .byteSeq bs, fwd, st, s, hw, hg, h => by
    simp only [sem] at h
    simp only [WF] at hw
    obtain ⟨ds, hds, rfl⟩ := hw
    exact optSt_good hg (fun p hp => matchBytes_boundary' ht hds hg.1 hp) h
  | .byteSet bs, fwd, st, s, hw, hg, h => by
    simp only [sem] at h
    simp only [WF] at hw
    refine optSt_good hg (fun p hp => ?_) h
    rw [byteStep_eq_charStep ht fwd hg.1 _ (by intro b hb; exact hw b (by simpa using hb))] at hp
    exact charStep_boundary ht hg.1 hp
  | .charSet cs', fwd, st, s, _, hg, h => by
    simp only [sem] at h; exact optSt_good hg (fun p hp => charStep_boundary ht hg.1 hp) h
  | .cat ns, fwd, st, s, hw, hg, h => by
    simp only [sem] at h; simp only [WF] at hw; exact semCat_good ht ns fwd st s hw hg h
  | .alt l r, fwd, st, s, hw, hg, h => by
    simp only [sem] at h; simp only [WF] at hw
    rcases List.mem_append.1 h with h | h
    · exact sem_good ht l fwd st s hw.1 hg h
    · exact sem_good ht r fwd st s hw.2 hg h
  | .matchAny, fwd, st, s, _, hg, h => by
    simp only [sem] at h; exact optSt_good hg (fun p hp => charStep_boundary ht hg.1 hp) h
  | .matchAnyExceptLT, fwd, st, s, _, hg, h => by
    simp only [sem] at h; exact optSt_good hg (fun p hp => charStep_boundary ht hg.1 hp) h
  | .anchor _ _, fwd, st, s, _, hg, h => by
    simp only [sem] at h; rw [mem_guardSt h]; exact hg
  | .wordBoundary _ _, fwd, st, s, _, hg, h => by
    simp only [sem] at h; rw [mem_guardSt h]; exact hg
  | .group id _ c, fwd, st, s, hw, hg, h => by
    simp only [sem] at h; simp only [WF] at hw
    obtain ⟨s1, h1, rfl⟩ := List.mem_map.1 h
    cases fwd
    · have := sem_good ht c false _ s1 hw ((utf8Inv cs).setEnd st id hg) h1
      exact (utf8Inv cs).setStart s1 id this
    · have := sem_good ht c true _ s1 hw ((utf8Inv cs).setStart st id hg) h1
      exact (utf8Inv cs).setEnd s1 id this
  | .backRef g icase, fwd, st, s, _, hg, h => by
    simp only [sem] at h
    split at h
    · simp at h
    · split at h
      · simp at h
      · rename_i rs re hcap
        have hmem : (some rs, some re) ∈ st.caps := List.mem_of_getElem? hcap
        have hgc := hg.2 _ hmem
        exact optSt_good hg (fun p hp => backRefStep_boundary ht (hgc.1 rs rfl) (hgc.2 re rfl) hg.1 hp) h
      · simp at h; rw [h]; exact hg
  | .bracket bc, fwd, st, s, _, hg, h => by
    simp only [sem] at h; exact optSt_good hg (fun p hp => charStep_boundary ht hg.1 hp) h
  | .stringSet alts icase, fwd, st, s, _, hg, h => by
    simp only [sem] at h
    obtain ⟨a, _, h2⟩ := List.mem_flatMap.1 h
    exact optSt_good hg (fun p hp => stepSeq_boundary (fun _ _ _ hb hq => cpStep_boundary ht hb hq) _ _ hg.1 hp) h2
  | .look negate backwards _ _ c, fwd, st, s, hw, hg, h => by
    simp only [sem] at h; simp only [WF] at hw
    split at h
    · split at h <;> simp at h
      rw [h]; exact hg
    · rename_i s1 t heq
      split at h <;> simp at h
      rw [h]
      have : Good cs s1 := sem_good ht c (!backwards) st s1 hw hg (by rw [heq]; simp)
      exact (utf8Inv cs).restore st s1 hg this
  | .loop body q g0 g1, fwd, st, s, hw, hg, h => by
    simp only [sem] at h; simp only [WF] at hw
    exact loopIter_good q g0 g1 (fun s1 hg1 s2 h12 => sem_good ht body fwd s1 s2 hw.1 hg1 h12) _ _ _ _ _ hg h
  | .loop1 body q, fwd, st, s, hw, hg, h => by
    simp only [sem] at h; simp only [WF] at hw
    exact loop1Iter_good q (fun s1 hg1 s2 h12 => sem_good ht body fwd s1 s2 hw.1 hg1 h12) _ _ _ _ hg h
theorem semCat_good {inp : Input} {cs : List Nat} (ht : Utf8Text inp cs) :
    ∀ (ns : List Node) (fwd : Bool) (st s : St), WFList ns → Good cs st → s ∈ semCat inp ns fwd st → Good cs s
  | [], fwd, st, s, _, hg, h => by simp [semCat] at h; rw [h]; exact hg
  | n :: ns, fwd, st, s, hw, hg, h => by
    simp only [semCat] at h; simp only [WFList] at hw
    obtain ⟨s1, h1, h2⟩ := List.mem_flatMap.1 h
    exact semCat_good ht ns fwd s1 s hw.2 (sem_good ht n fwd st s1 hw.1 hg h1) h2
end

/-- Every well-formed node preserves the UTF-8 invariant. -/
theorem pres_utf8 {inp : Input} {cs : List Nat} (ht : Utf8Text inp cs) (fwd : Bool) (n : Node) (hw : WF n) :
    Pres (utf8Inv cs) inp fwd n := fun st hg s hs => sem_good ht n fwd st s hw hg hs

end Regress.IR
