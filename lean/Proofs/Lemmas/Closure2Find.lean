import Proofs.Lemmas.ClosureFind
import Proofs.C02Full
import Proofs.C05Full
/-!
# Closure 2, part 3 (C09): the running search of the backtracker, with `Loop1CharBody`

`Closure.findIter_eq_collect` relates the state-threading search `VM.findIter .bt` (ONE matcher reused
across all attempts, one global tick budget) to the pure iterator `collectK (searchEnvBt …)` under
`Sim.simpleProg` (no `Loop1CharBody`), because `C02.reused_matcher_attempt` is a lock-step argument.
Here the restriction is dropped, using the stuttering simulation of `Proofs/C02Full.lean`
(`C02_loop1_reused`, `C02_loop1_full`).

The stuttering simulation compares tick counts only by `≤` (the PikeVM ticks once per character of a
`loop1`, the backtracker once per `loop1`), so "reused matcher = fresh matcher" is obtained through
the PikeVM attempt, which has to come to an end: the statements carry the hypotheses
`Pk.lookLoopProg prog` (C05Full), and the environment's attempts get a budget `F ≥ Pk.lookBound prog
|haystack|` (the running search itself may have ANY budget `fuel ≤ F`: whatever attempt of it comes to
an end has, by fuel monotonicity, the outcome it has with budget `F`).

* `btAttempt_env2` — one attempt of the running search is the environment's attempt.
* `findIter_eq_collect_of` — the drain argument, generic in the attempt lemma (`BtAttemptOK`).
* `findIter_bt_eq_collect_partial` — `findIter .bt … = .ok ms → ms = collectK (searchEnvBt prog inp fuel) …`,
  for programs with `Loop1CharBody`, anchored or not.
-/
namespace Regress.Closure2
open Regress.Api Regress.VM Regress.VM.Safety Regress.C06 Regress.Closure Regress.Closure.Shift

/-- The hypotheses under which the threaded search is compared with the pure iterator: those of
`Closure.FindHyp` without `simpleProg`, plus C05Full's `lookLoopProg`. -/
structure FindHyp2 (prog : Prog) (inp : Input) (cs : List Nat) : Prop where
  wf : wfProgFull prog = true
  leads : IR.LeadsSP prog.startPred
  loops : Sim.loopsStructured prog = true
  looks : Sim.looksStructured prog = true
  lookLoop : Pk.lookLoopProg prog = true
  text : Utf8Text inp cs

/-- What the drain argument needs to know about one attempt of the running search (threaded state
`acc.st` with invariant `MInv`, global counters, total budget `L`), compared with the fresh-matcher
environment whose attempts have the budget `F`. -/
def BtAttemptOK (prog : Prog) (inp : Input) (L F : Nat) : Prop :=
  ∀ {pos : Nat}, VUtf8 inp pos → ∀ {acc : Acc}, MInv prog inp acc.st →
    match btAttempt prog inp L pos acc with
    | .matched e st _ _ =>
      (searchEnvBt prog inp F).attempt pos = some (e, Bt.capsOf st) ∧ Bt.StateOK prog (VUtf8 inp) st
    | .failed st _ _ => (searchEnvBt prog inp F).attempt pos = none ∧ MInv prog inp st
    | .outOfFuel => True
    | .error _ => False

/-- `Closure.btAttempt_env` in this form. -/
theorem btAttemptOK_simple {prog : Prog} {inp : Input} {cs : List Nat} (H : FindHyp prog inp cs) (L : Nat) :
    BtAttemptOK prog inp L L :=
  fun hp _ hinv => btAttempt_env H L hp hinv

/-- A PikeVM attempt with a budget of at least `Pk.lookBound` is `matched` or `failed`. -/
theorem pk_attempt_fine {prog : Prog} {inp : Input} {cs : List Nat} (H : FindHyp2 prog inp cs) {L : Nat}
    (hL : Pk.lookBound prog inp.len ≤ L) {pos : Nat} (hp : VUtf8 inp pos) :
    (∃ e st s k, Pk.attempt prog inp L pos = .matched e st s k) ∨
      (∃ s k, Pk.attempt prog inp L pos = .failed s k) := by
  have hw := (wfFull_parts H.wf).1
  have hterm := C05Full.pk_terminates_with_looks prog H.lookLoop (C05Full.loop1Scm_of_wfProg hw) inp L pos hL
  have herr := C02Full.pk_attempt_no_error H.wf (.utf8 cs H.text hp) L
  generalize Pk.attempt prog inp L pos = o at hterm herr
  cases o with
  | matched e st s k => exact .inl ⟨e, st, s, k, rfl⟩
  | failed s k => exact .inr ⟨s, k, rfl⟩
  | outOfFuel => exact hterm.elim
  | error e => exact absurd rfl (herr e)

/-- **One attempt of the running search is the environment's attempt — with `Loop1CharBody`.** -/
theorem btAttempt_env2 {prog : Prog} {inp : Input} {cs : List Nat} (H : FindHyp2 prog inp cs) {L F : Nat}
    (hLF : L ≤ F) (hL : Pk.lookBound prog inp.len ≤ F) : BtAttemptOK prog inp L F := by
  intro pos hp acc hinv
  obtain ⟨h1, h2, h3, h4⟩ := wfFull_parts H.wf
  rcases Nat.lt_or_ge L acc.steps with hgt | hle
  · have h0 : L - acc.steps = 0 := by omega
    unfold btAttempt
    rw [h0]
    simp [Bt.run_zero]
  have hsh := btAttempt_shift prog inp L pos acc hle
  have hv : C02Full.ValidAt inp pos := .utf8 cs H.text hp
  have hwu : wfProgUtf8 prog = true := by simp [wfProgUtf8, h1, h2]
  have hsafe := bt_safe_utf8_full h1 h2 h4 h3 H.text hp hinv.ok (minv_clean hinv) F F
  have hB1 : ∀ e, Bt.attemptWith prog inp F pos acc.st ≠ .error e := by
    intro e he
    have he' : Bt.run prog inp F F 0 pos true acc.st #[.exhausted] 0 0 = .error e := he
    rw [he'] at hsafe; exact hsafe
  -- the PikeVM attempt with budget `L` comes to an end; both backtracker attempts agree with it
  have hfine := pk_attempt_fine H hL hp
  have hfresh := C02Full.C02_loop1_full prog H.loops H.looks H.wf inp pos hv F F (Nat.le_refl _)
  have hre := C02Full.C02_loop1_reused prog H.loops H.looks hwu inp pos hv F F (Nat.le_refl _) acc.st
    hinv.clean hinv.ok.loops
  have hmono : Bt.attemptWith prog inp (L - acc.steps) pos acc.st ≠ .outOfFuel →
      Bt.attemptWith prog inp F pos acc.st = Bt.attemptWith prog inp (L - acc.steps) pos acc.st :=
    fun hne => Bt.tryAtPos_fuel_mono prog inp (Nat.le_trans (Nat.sub_le _ _) hLF) 0 pos true acc.st hne
  have henv : (searchEnvBt prog inp F).attempt pos =
      match Bt.attempt prog inp F pos with
      | .matched e st _ _ => some (e, Bt.capsOf st)
      | _ => none := rfl
  cases hb : btAttempt prog inp L pos acc with
  | matched e st s k =>
    rw [hb] at hsh
    cases ho : Bt.attemptWith prog inp (L - acc.steps) pos acc.st with
    | matched e1 st1 s1 k1 =>
      rw [ho] at hsh
      simp only [Shifted] at hsh
      obtain ⟨rfl, rfl, _⟩ := hsh
      have hfull := hmono (by rw [ho]; intro hc; cases hc)
      rw [ho] at hfull
      have hfull' : Bt.run prog inp F F 0 pos true acc.st #[.exhausted] 0 0 = .matched e st s1 k1 :=
        hfull
      rw [hfull'] at hsafe
      rw [hfull] at hre
      refine ⟨?_, hsafe.2.2.1⟩
      rw [henv]
      rcases hfine with ⟨e', st', s', k', hpk⟩ | ⟨s', k', hpk⟩
      · rw [hpk] at hre hfresh
        simp only [C02Full.AttemptSim] at hre
        cases hf : Bt.attempt prog inp F pos with
        | matched e2 st2 s2 k2 =>
          rw [hf] at hfresh
          simp only at hfresh
          simp only [hre.1, hre.2.1, hfresh.1, hfresh.2.1]
        | failed _ _ _ => rw [hf] at hfresh; exact hfresh.elim
        | outOfFuel => rw [hf] at hfresh; exact hfresh.elim
        | error _ => rw [hf] at hfresh; exact hfresh.elim
      · rw [hpk] at hre
        simp only [C02Full.AttemptSim] at hre
    | failed _ _ _ => rw [ho] at hsh; simp [Shifted] at hsh
    | outOfFuel => rw [ho] at hsh; simp [Shifted] at hsh
    | error _ => rw [ho] at hsh; simp [Shifted] at hsh
  | failed st s k =>
    rw [hb] at hsh
    cases ho : Bt.attemptWith prog inp (L - acc.steps) pos acc.st with
    | failed st1 s1 k1 =>
      rw [ho] at hsh
      simp only [Shifted] at hsh
      obtain ⟨rfl, _⟩ := hsh
      have hfull := hmono (by rw [ho]; intro hc; cases hc)
      rw [ho] at hfull
      have hfull' : Bt.run prog inp F F 0 pos true acc.st #[.exhausted] 0 0 = .failed st s1 k1 :=
        hfull
      rw [hfull'] at hsafe
      rw [hfull] at hre
      refine ⟨?_, ⟨hsafe.1, by rw [hsafe.2]; exact hinv.clean⟩⟩
      rw [henv]
      rcases hfine with ⟨e', st', s', k', hpk⟩ | ⟨s', k', hpk⟩
      · rw [hpk] at hre
        simp only [C02Full.AttemptSim] at hre
      · rw [hpk] at hfresh
        cases hf : Bt.attempt prog inp F pos with
        | matched e2 st2 s2 k2 => rw [hf] at hfresh; exact hfresh.elim
        | failed _ _ _ => rfl
        | outOfFuel => rfl
        | error _ => rfl
    | matched _ _ _ _ => rw [ho] at hsh; simp [Shifted] at hsh
    | outOfFuel => rw [ho] at hsh; simp [Shifted] at hsh
    | error _ => rw [ho] at hsh; simp [Shifted] at hsh
  | outOfFuel => trivial
  | error a =>
    rw [hb] at hsh
    cases ho : Bt.attemptWith prog inp (L - acc.steps) pos acc.st with
    | error b =>
      have hfull := hmono (by rw [ho]; intro hc; cases hc)
      rw [ho] at hfull
      exact hB1 b hfull
    | matched _ _ _ _ => rw [ho] at hsh; simp [Shifted] at hsh
    | outOfFuel => rw [ho] at hsh; simp [Shifted] at hsh
    | failed _ _ _ => rw [ho] at hsh; simp [Shifted] at hsh

/-- At a char boundary, a fresh backtracker attempt with a budget of at least `Pk.lookBound` comes to
an end; hence the environment's attempt does not depend on the budget beyond that bound. -/
theorem searchEnvBt_budget_irrelevant {prog : Prog} {inp : Input} {cs : List Nat} (H : FindHyp2 prog inp cs)
    {F F' : Nat} (hF : Pk.lookBound prog inp.len ≤ F) (hFF : F ≤ F') {p : Nat} (hp : VUtf8 inp p) :
    (searchEnvBt prog inp F').attempt p = (searchEnvBt prog inp F).attempt p := by
  have hfresh := C02Full.C02_loop1_full prog H.loops H.looks H.wf inp p (.utf8 cs H.text hp) F F (Nat.le_refl _)
  have hne : Bt.attempt prog inp F p ≠ .outOfFuel := by
    intro hc
    rw [hc] at hfresh
    rcases pk_attempt_fine H hF hp with ⟨e', st', s', k', hpk⟩ | ⟨s', k', hpk⟩ <;>
      (rw [hpk] at hfresh; exact hfresh.elim)
  have := Bt.attempt_fuel_mono prog inp hFF p hne
  simp only [searchEnvBt, this]

/-! ## The drain argument, generic in the attempt lemma -/

section Generic
variable {prog : Prog} {inp : Input} {cs : List Nat} {L F : Nat}
  (hw : wfProgFull prog = true) (hl : IR.LeadsSP prog.startPred) (ht : Utf8Text inp cs)
  (hatt : BtAttemptOK prog inp L F)
include hatt

theorem btNextMatchAnchored_ok' {pos : Nat} (hp : VUtf8 inp pos) {acc acc' : Acc}
    (hinv : MInv prog inp acc.st) {r : Option (MatchR × Option Nat)}
    (h : btNextMatchAnchored prog inp L pos acc = .ok (r, acc')) :
    r = nextMatchAnchored (searchEnvBt prog inp F) pos ∧ MInv prog inp acc'.st := by
  have hatt := hatt hp hinv
  unfold btNextMatchAnchored at h
  unfold nextMatchAnchored
  cases hb : btAttempt prog inp L pos acc with
  | error _ => rw [hb] at h; cases h
  | outOfFuel => rw [hb] at h; cases h
  | matched e st s k =>
    rw [hb] at h hatt
    simp only at h hatt
    obtain ⟨h1, h2⟩ := btSuccess_ok F h
    rw [hatt.1]
    exact ⟨h1, by rw [h2]; exact minv_clear hatt.2⟩
  | failed st s k =>
    rw [hb] at h hatt
    simp only [Except.ok.injEq, Prod.mk.injEq] at h hatt
    obtain ⟨rfl, rfl⟩ := h
    rw [hatt.1]
    exact ⟨rfl, hatt.2⟩

include hl ht

theorem btNextMatchPrefix_ok' : ∀ (n : Nat) {pos : Nat}, VUtf8 inp pos → ∀ {acc acc' : Acc},
    MInv prog inp acc.st → ∀ {r : Option (MatchR × Option Nat)},
    btNextMatchPrefix prog inp L n pos acc = .ok (r, acc') →
    r = nextMatchPrefixFuel (searchEnvBt prog inp F) n pos ∧ MInv prog inp acc'.st := by
  intro n
  induction n with
  | zero => intro pos _ acc acc' _ r h; simp [btNextMatchPrefix] at h
  | succ n ih =>
    intro pos hp acc acc' hinv r h
    simp only [btNextMatchPrefix] at h
    simp only [nextMatchPrefixFuel]
    split at h
    · cases h
    · have hfb : (searchEnvBt prog inp F).findBytes pos = findBytesPred prog.startPred inp.bytes pos := rfl
      rw [hfb]
      cases hq : findBytesPred prog.startPred inp.bytes pos with
      | none =>
        rw [hq] at h
        simp only [Except.ok.injEq, Prod.mk.injEq] at h
        obtain ⟨rfl, rfl⟩ := h
        exact ⟨rfl, hinv⟩
      | some q =>
        rw [hq] at h
        simp only at h ⊢
        have hvq := (findBytesPred_boundary hl inp hp hq).2
        have hatt := hatt hvq hinv
        cases hb : btAttempt prog inp L q acc with
        | error _ => rw [hb] at h; cases h
        | outOfFuel => rw [hb] at h; cases h
        | matched e st s k =>
          rw [hb] at h hatt
          simp only at h hatt
          obtain ⟨h1, h2⟩ := btSuccess_ok F h
          rw [hatt.1]
          exact ⟨h1, by rw [h2]; exact minv_clear hatt.2⟩
        | failed st s k =>
          rw [hb] at h hatt
          simp only at h hatt
          rw [hatt.1]
          simp only
          have hnr : (searchEnvBt prog inp F).nextRightPos q = nextRightPosOpt inp q := rfl
          rw [hnr]
          unfold nextRightPosOpt
          cases hr : inp.nextRightPos q with
          | error _ => rw [hr] at h; cases h
          | ok o =>
            rw [hr] at h
            cases o with
            | none =>
              simp only [Except.ok.injEq, Prod.mk.injEq] at h
              obtain ⟨rfl, rfl⟩ := h
              exact ⟨rfl, hatt.2⟩
            | some q' =>
              simp only at h ⊢
              have hq' : nextRightPosOpt inp q = some q' := by simp [nextRightPosOpt, hr]
              exact ih (nextRightPosOpt_utf8 ht hvq hq').2 (acc := ⟨st, s, k⟩) hatt.2 h

/-- One `next_match` of the running `BacktrackExecutor` is one `next_match` of the pure protocol. -/
theorem nextMatchX_bt_ok' {pos : Nat} (hp : VUtf8 inp pos) {acc acc' : Acc} (hinv : MInv prog inp acc.st)
    {r : Option (MatchR × Option Nat)} (h : nextMatchX .bt prog inp L pos acc = .ok (r, acc')) :
    r = nextMatch (searchEnvBt prog inp F) (kindOf prog .bt) pos ∧ MInv prog inp acc'.st := by
  simp only [nextMatchX] at h
  simp only [kindOf]
  split at h
  · next ha => simp only [ha, if_true]; exact btNextMatchAnchored_ok' hatt hp hinv h
  · next ha =>
    simp only [ha, Bool.false_eq_true, if_false]
    exact btNextMatchPrefix_ok' hl ht hatt _ hp hinv h

include hw

theorem drain_bt_ok' :
    ∀ (n : Nat) (position : Option Nat), (∀ c, position = some c → VUtf8 inp c) →
    ∀ (acc : Acc), MInv prog inp acc.st → ∀ (out ms : List MatchR) (acc' : Acc),
    drain .bt prog inp L n position acc out = .ok (ms, acc') →
    ms = out.reverse ++
      Matches.collectFuel (searchEnvBt prog inp F) (kindOf prog .bt) n ⟨position⟩ := by
  intro n
  induction n with
  | zero => intro position _ acc _ out ms acc' h; simp [drain] at h
  | succ n ih =>
    intro position hpos acc hinv out ms acc' h
    cases position with
    | none =>
      simp only [drain, Except.ok.injEq, Prod.mk.injEq] at h
      rw [C09.collectFuel_none]
      simp [h.1]
    | some pos =>
      simp only [drain] at h
      have hv := hpos pos rfl
      rw [C09.collectFuel_succ_some]
      cases hx : nextMatchX .bt prog inp L pos acc with
      | error _ => rw [hx] at h; cases h
      | ok ra =>
        obtain ⟨r, acc1⟩ := ra
        rw [hx] at h
        obtain ⟨hr, hinv1⟩ := nextMatchX_bt_ok' hl ht hatt hv hinv hx
        rw [← hr]
        cases r with
        | none =>
          simp only [Except.ok.injEq, Prod.mk.injEq] at h
          simp [h.1]
        | some mn =>
          obtain ⟨m, ns⟩ := mn
          simp only at h ⊢
          have hclosed : ∀ c, ns = some c → VUtf8 inp c := by
            intro c hc
            have := (nextMatch_closed (envOKOn_bt hw hl ht F) (kindOf prog .bt)
              (vb_iff.mpr hv) hr.symm).2.2.2.2.2.2.2 c hc
            exact vb_iff.mp this
          have := ih ns hclosed acc1 hinv1 (m :: out) ms acc' h
          rw [this]
          simp

/-- The drain argument: whenever each attempt of the running search is the environment's attempt,
`findIter .bt` returns the drained pure iterator. -/
theorem findIter_eq_collect_of {start : Nat} (hs : VUtf8 inp start ∨ inp.len < start) {ms : List MatchR}
    (h : findIter .bt prog inp start L = .ok ms) :
    ms = collectK (searchEnvBt prog inp F) (kindOf prog .bt) start := by
  unfold findIter findIterStats at h
  simp only at h
  cases hd : drain .bt prog inp L (inp.len + 3) (inp.tryMoveRight 0 start)
      { st := Bt.freshState prog 0, steps := 0, peak := 0 } [] with
  | error _ => rw [hd] at h; cases h
  | ok r =>
    obtain ⟨ms', acc'⟩ := r
    rw [hd] at h
    simp only [Except.ok.injEq] at h
    subst h
    have hOn := envOKOn_bt hw hl ht F
    have hpos : inp.tryMoveRight 0 start = if start ≤ inp.len then some start else none := by
      simp only [Input.tryMoveRight, Utf8.tryMoveRight, Input.len]
      by_cases hle : start ≤ inp.bytes.size
      · simp [hle]
      · simp [hle]
    have hvalid : ∀ c, inp.tryMoveRight 0 start = some c → VUtf8 inp c := by
      intro c hc
      rw [hpos] at hc
      split at hc
      · cases hc
        rcases hs with hs | hs
        · exact hs
        · omega
      · cases hc
    have := drain_bt_ok' hw hl ht hatt (inp.len + 3) _ hvalid _ (minv_fresh prog inp) [] ms' acc' hd
    rw [this]
    simp only [List.reverse_nil, List.nil_append]
    unfold collectK Matches.collect Matches.new
    rw [C09.initialPosition_eq, hpos]
    show Matches.collectFuel _ _ (inp.len + 3) ⟨if start ≤ inp.len then some start else none⟩ =
      Matches.collectFuel _ _ (inp.len + 2) ⟨if start ≤ inp.len then some start else none⟩
    split
    · next hle =>
      have hvs : vb inp start = true := by
        rcases hs with hs | hs
        · exact vb_iff.mpr hs
        · omega
      rw [← restrict_collectFuel hOn _ _ _ hvs, ← restrict_collectFuel hOn _ _ _ hvs]
      have hlen : (restrictEnv (vb inp) (searchEnvBt prog inp F)).len = inp.len := rfl
      rw [C09.collect_fuel_suffices (restrict_ok hOn) _ (c := start) (by rw [hlen]; exact hle)
        (by rw [hlen]; omega)]
      rfl
    · rw [C09.collectFuel_none, C09.collectFuel_none]

end Generic

/-- **`findIter_eq_collect` without `simpleProg`.**  For programs with `Loop1CharBody`, anchored or
not: if the state-threading search of the backtracking executor with ANY global tick budget `fuel`
returns a list of matches, that list is the drained pure iterator over the fresh-matcher environment
whose attempts have a budget `F ≥ fuel`, `F ≥ Pk.lookBound prog |haystack|` each (take `F = fuel` if
`fuel ≥ Pk.lookBound`; the attempts of that environment all come to an end, so `F` is immaterial:
`searchEnvBt_budget_irrelevant`).

`_partial`: the full statement is `Closure.findIter_eq_collect` with `FindHyp.simple` deleted, i.e.
```
(wf leads loops looks text) → ∀ fuel, findIter .bt prog inp start fuel = .ok ms →
  ms = collectK (searchEnvBt prog inp fuel) (kindOf prog .bt) start
```
with the SAME budget `fuel` on both sides, for every `fuel`, and without `Pk.lookLoopProg`.  What is missing for it is a
tick-exact comparison "attempt on a reused matcher = attempt on a fresh matcher" for programs with
`Loop1CharBody` (C02's lock-step simulation gives equal tick counts, C02Full's stuttering simulation only
`Bt ticks ≤ Pk ticks`): with a small budget the reused attempt might in principle finish where the
fresh one (`searchEnvBt`'s, same budget) runs out.  With `F ≥ Pk.lookBound` the fresh one cannot. -/
theorem findIter_bt_eq_collect_partial {prog : Prog} {inp : Input} {cs : List Nat} (H : FindHyp2 prog inp cs)
    {fuel F : Nat} (hF : fuel ≤ F) (hB : Pk.lookBound prog inp.len ≤ F) {start : Nat}
    (hs : VUtf8 inp start ∨ inp.len < start) {ms : List MatchR}
    (h : findIter .bt prog inp start fuel = .ok ms) :
    ms = collectK (searchEnvBt prog inp F) (kindOf prog .bt) start :=
  findIter_eq_collect_of H.wf H.leads H.text (btAttempt_env2 H hF hB) hs h

end Regress.Closure2
