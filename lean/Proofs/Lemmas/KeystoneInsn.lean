import Proofs.Lemmas.KeystoneRun
import Proofs.C03
/-!
# Keystone, part 2: the state correspondence and the "simple" instructions

* `Rel σ s`: the PikeVM state `s` represents the IR-semantics state `σ` (same position, same
  capture table, `loop1Iters = 0`; the loop slots are unconstrained).
* `insnOpt`: the effect of an instruction that neither branches nor touches the capture/loop
  tables, as an `Option Nat` (the new position, or `none` for "this thread dies"), expressed with
  the primitives that `IR.sem` uses.
* `tms_simple`: `Pk.tryMatchState` on such an instruction is `insnOpt` (an `.err` of the executor
  is allowed where `insnOpt` says `none`).
-/
namespace Regress.Keystone

open Regress.VM Regress.VM.Pk Regress.IR
open Regress.VM.Bt (LoopData GroupData)

/-- `GroupData` as the pair of the semantics. -/
def capOf (g : GroupData) : Cap := (g.start, g.end_)

/-- The capture table of a machine state, in the representation of `IR.St`. -/
def capsOfState (s : State) : List Cap := s.groups.toList.map capOf

/-- The machine state `s` represents `σ`. -/
structure Rel (σ : St) (s : State) : Prop where
  pos : s.pos = σ.pos
  caps : capsOfState s = σ.caps
  l1 : s.loop1Iters = 0

theorem capsOfState_get (s : State) (g : Nat) : (capsOfState s)[g]? = s.groups[g]?.map capOf := by
  simp [capsOfState]

theorem asRange_capOf (cg : GroupData) :
    cg.asRange = match capOf cg with
      | (some a, some b) => some (a, b)
      | _ => none := by
  cases cg with
  | mk st en => cases st <;> cases en <;> rfl

/-- A zero-width test. -/
def stepTest (b : Bool) (pos : Nat) : Option Nat := if b then some pos else none

theorem guardSt_eq (st : St) (b : Bool) : guardSt st b = optSt st (stepTest b st.pos) := by
  cases b <;> rfl

/-- The effect of a non-branching instruction on the position (`none`: not such an instruction). -/
def insnOpt (prog : Prog) (inp : Input) (fwd : Bool) (caps : List Cap) (pos : Nat) :
    Insn → Option (Option Nat)
  | .justFail => some none
  | .char c => some (charStep inp fwd pos (fun c2 => c2 == c))
  | .charSet v => some (charStep inp fwd pos (charsetContains v))
  | .byteSeq v => some (inp.matchBytes fwd pos v)
  | .startOfLine m => some (stepTest (startOfLine inp m pos) pos)
  | .endOfLine m => some (stepTest (endOfLine inp m pos) pos)
  | .matchAny => some (charStep inp fwd pos (fun _ => true))
  | .matchAnyExceptLineTerminator => some (charStep inp fwd pos (fun c => !isLineTerminator c))
  | .bracket idx =>
    match prog.brackets[idx]? with
    | some bc => some (charStep inp fwd pos (bracketTest bc))
    | none => some none
  | .asciiBracket bm => some (byteStep inp fwd pos (asciiBitmapContains bm))
  | .byteSet bs => some (byteStep inp fwd pos (byteArraySetContains bs))
  | .wordBoundary inv => some (stepTest (wordBoundary inp inv false pos) pos)
  | .wordBoundaryUnicodeICase inv => some (stepTest (wordBoundary inp inv true pos) pos)
  | .backRef g icase =>
    match caps[g]? with
    | none => some none
    | some (some rs, some re) => some (backRefStep inp icase fwd rs re pos)
    | some _ => some (some pos)
  | _ => none

/-- What `tryMatchState` answers on a simple instruction. -/
def SimpleOut (s : State) (steps peak : Nat) (sm : SM) : Option Nat → Prop
  | none => (∃ p', sm = .fail { s with pos := p' } steps peak) ∨ ∃ e, sm = .err e
  | some p => sm = .cont { s with pos := p, ip := s.ip + 1 } steps peak

theorem simpleOut_nextElem (inp : Input) (fwd : Bool) (s : State) (f : Nat → Bool) (site : String)
    (steps peak : Nat) :
    SimpleOut s steps peak (nextElemArm inp fwd s (fun c => .ok (f c)) site steps peak)
      (charStep inp fwd s.pos f) := by
  unfold nextElemArm charStep
  cases h : Cursor.next inp fwd s.pos with
  | error e => exact Or.inr ⟨_, rfl⟩
  | ok r =>
    cases r with
    | none => exact Or.inl ⟨s.pos, rfl⟩
    | some cp =>
      obtain ⟨c, p⟩ := cp
      simp only [nextOrFail]
      cases hf : f c with
      | false => exact Or.inl ⟨p, by simp⟩
      | true => simp [SimpleOut]

theorem simpleOut_scm (r : Except Unit (Option Nat)) (s : State) (site : String) (steps peak : Nat)
    (o : Option Nat) (h : ∀ x, r = .ok x → x = o) (h' : (∃ e, r = .error e) → o = none) :
    SimpleOut s steps peak (scmArm r s site steps peak) o := by
  unfold scmArm
  cases r with
  | error e => rw [h' ⟨e, rfl⟩]; exact Or.inr ⟨_, rfl⟩
  | ok x =>
    rw [← h x rfl]
    cases x with
    | none => exact Or.inl ⟨s.pos, rfl⟩
    | some p => simp [SimpleOut]

theorem simpleOut_test (b : Bool) (s : State) (steps peak : Nat) :
    SimpleOut s steps peak (nextOrFail b s steps peak) (stepTest b s.pos) := by
  cases b
  · exact Or.inl ⟨s.pos, rfl⟩
  · simp [SimpleOut, nextOrFail, stepTest]

theorem simpleOut_sol (inp : Input) (m : Bool) (s : State) (site : String) (steps peak : Nat) :
    SimpleOut s steps peak (lineArm (inp.peekLeft s.pos) m s site steps peak)
      (stepTest (startOfLine inp m s.pos) s.pos) := by
  unfold lineArm startOfLine
  cases inp.peekLeft s.pos with
  | error e => exact Or.inr ⟨_, rfl⟩
  | ok x =>
    cases x with
    | none => exact simpleOut_test true s steps peak
    | some c => exact simpleOut_test _ s steps peak

theorem simpleOut_eol (inp : Input) (m : Bool) (s : State) (site : String) (steps peak : Nat) :
    SimpleOut s steps peak (lineArm (inp.peekRight s.pos) m s site steps peak)
      (stepTest (endOfLine inp m s.pos) s.pos) := by
  unfold lineArm endOfLine
  cases inp.peekRight s.pos with
  | error e => exact Or.inr ⟨_, rfl⟩
  | ok x =>
    cases x with
    | none => exact simpleOut_test true s steps peak
    | some c => exact simpleOut_test _ s steps peak

theorem simpleOut_wb (inp : Input) (f : Nat → Bool) (inv ui : Bool) (s : State) (steps peak : Nat)
    (hf : f = if ui then isWordCharUnicodeIcase else isWordChar) :
    SimpleOut s steps peak (wordBoundaryArm inp f inv s steps peak)
      (stepTest (wordBoundary inp inv ui s.pos) s.pos) := by
  unfold wordBoundaryArm wordBoundary
  simp only [← hf]
  cases hl : inp.peekLeft s.pos with
  | error e => exact Or.inr ⟨_, rfl⟩
  | ok l =>
    cases hr : inp.peekRight s.pos with
    | error e =>
      cases l <;> exact Or.inr ⟨_, rfl⟩
    | ok r =>
      cases l <;> cases r <;> exact simpleOut_test _ s steps peak

theorem byteStep_eq_scm (inp : Input) (fwd : Bool) (pos : Nat) (t : Nat → Bool) :
    (∀ x, (match Cursor.nextByte inp fwd pos with
        | .error e => (.error e : Except Unit (Option Nat))
        | .ok none => .ok none
        | .ok (some (b, p)) => .ok (if t b then some p else none)) = .ok x → x = byteStep inp fwd pos t) ∧
    ((∃ e, (match Cursor.nextByte inp fwd pos with
        | .error e => (.error e : Except Unit (Option Nat))
        | .ok none => .ok none
        | .ok (some (b, p)) => .ok (if t b then some p else none)) = .error e) → byteStep inp fwd pos t = none) := by
  unfold byteStep
  cases h : Cursor.nextByte inp fwd pos with
  | error e => simp
  | ok r =>
    cases r with
    | none => simp
    | some bp => obtain ⟨b, p⟩ := bp; simp

/-- **The simple instructions.** -/
theorem tms_simple (prog : Prog) (inp : Input) (look : Runner) (d : Nat) (s : State) (fwd : Bool)
    (steps peak : Nat) {i : Insn} (hi : prog.insns[s.ip]? = some i) {o : Option Nat}
    (ho : insnOpt prog inp fwd (capsOfState s) s.pos i = some o) :
    SimpleOut s steps peak (tryMatchState prog inp look (d + 1) s fwd steps peak) o := by
  unfold tryMatchState
  rw [hi]
  cases i with
  | justFail => cases ho; exact Or.inl ⟨s.pos, rfl⟩
  | char c =>
    cases ho
    have := simpleOut_nextElem inp fwd s (fun c2 => c2 == c) "try_match_state: Char input read out of range" steps peak
    have e : (fun c2 => (Except.ok (c == c2) : Except String Bool)) = fun c2 => .ok (c2 == c) := by
      funext c2; rw [Bool.beq_comm]
    simpa [e] using this
  | charSet v => cases ho; exact simpleOut_nextElem inp fwd s _ _ steps peak
  | byteSeq v =>
    cases ho
    exact simpleOut_scm _ s _ steps peak _ (fun x hx => by cases hx; rfl) (fun ⟨e, he⟩ => by cases he)
  | startOfLine m =>
    cases ho
    exact simpleOut_sol inp m s _ steps peak
  | endOfLine m =>
    cases ho
    exact simpleOut_eol inp m s _ steps peak
  | matchAny => cases ho; exact simpleOut_nextElem inp fwd s _ _ steps peak
  | matchAnyExceptLineTerminator => cases ho; exact simpleOut_nextElem inp fwd s _ _ steps peak
  | bracket idx =>
    simp only [insnOpt] at ho
    dsimp only
    cases hb : prog.brackets[idx]? with
    | some bc =>
      rw [hb] at ho; cases ho
      exact simpleOut_nextElem inp fwd s _ _ steps peak
    | none =>
      rw [hb] at ho; cases ho
      simp only [nextElemArm]
      cases Cursor.next inp fwd s.pos with
      | error e => exact Or.inr ⟨_, rfl⟩
      | ok r =>
        cases r with
        | none => exact Or.inl ⟨s.pos, rfl⟩
        | some cp => exact Or.inr ⟨_, rfl⟩
  | asciiBracket bm =>
    cases ho
    have := byteStep_eq_scm inp fwd s.pos (asciiBitmapContains bm)
    exact simpleOut_scm _ s _ steps peak _ this.1 this.2
  | byteSet bs =>
    cases ho
    have := byteStep_eq_scm inp fwd s.pos (byteArraySetContains bs)
    exact simpleOut_scm _ s _ steps peak _ this.1 this.2
  | wordBoundary inv =>
    cases ho
    exact simpleOut_wb inp isWordChar inv false s steps peak rfl
  | wordBoundaryUnicodeICase inv =>
    cases ho
    exact simpleOut_wb inp isWordCharUnicodeIcase inv true s steps peak rfl
  | backRef g icase =>
    simp only [insnOpt, capsOfState_get] at ho
    dsimp only
    cases hg : s.groups[g]? with
    | none => rw [hg] at ho; cases ho; exact Or.inr ⟨_, rfl⟩
    | some cg =>
      rw [hg] at ho
      simp only [Option.map_some] at ho
      simp only [asRange_capOf]
      rcases hc : capOf cg with ⟨a, b⟩
      rw [hc] at ho
      cases a with
      | none => cases ho; exact simpleOut_test true s steps peak
      | some rs =>
        cases b with
        | none => cases ho; exact simpleOut_test true s steps peak
        | some re =>
          cases ho
          simp only [backRefStep]
          cases icase with
          | true =>
            simp only [if_true]
            refine simpleOut_scm _ s _ steps peak _ (fun x hx => by rw [hx]) (fun ⟨e, he⟩ => by rw [he])
          | false =>
            simp only [Bool.false_eq_true, if_false]
            exact simpleOut_scm _ s _ steps peak _ (fun x hx => by cases hx; rfl) (fun ⟨e, he⟩ => by cases he)
  | _ => cases ho

end Regress.Keystone
