import Proofs.Lemmas.C08FragNum
import Proofs.Lemmas.TotalParse4
/-!
# C08 fragment equivalence, part 2: the fragment, the limits, the invariants

* `fragCore`: the lexical fragment shared by both modes (no `\`, no `[`, every `(?` continues as one
  of `(?:`, `(?=`, `(?!`, `(?<=`, `(?<!` or as something that is an error for both recognizers).
* `md`, `opens`, `quants`: lexical measures bounding the crate's three resource counters.
* `PInv`: the parser-state invariant of the simulation; `EInv`: the grammar-state invariant.
* `termStep` / `quantStep`: one iteration of `consume_term`'s loop, cut out of `termLoop`.
-/
namespace Regress.C08Frag
open Regress Regress.IR Regress.Parse Regress.ESG

/-! ## The fragment -/

/-- What may follow a `(`. -/
def parenOk : List Nat → Bool
  | 0x3F :: 0x3C :: x :: _ => x == 0x3D || x == 0x21
  | 0x3F :: 0x3C :: [] => false
  | 0x3F :: x :: _ => !(x == 0x69 || x == 0x6D || x == 0x73 || x == 0x2D)
  | _ => true

/-- What may follow a `\` (where escapes are admitted at all): anything but `p`, `P` (property
escapes), `k` (named back-references) and `1`–`9` (decimal back-references). -/
def escOk (x : Nat) : Bool :=
  !(x == 0x70 || x == 0x50 || x == 0x6B || (decide (0x31 ≤ x) && decide (x ≤ 0x39)))

/-- The lexical fragment.  `e`: escapes admitted.  No `[`, no named group, no modifier group; a `\`
(only if `e`) makes the next character part of the escape. -/
def fragCore (e : Bool) : List Nat → Bool
  | [] => true
  | 0x5C :: x :: r => e && escOk x && fragCore e r
  | c :: r => (c != 0x5C || e) && c != 0x5B && (c != 0x28 || parenOk r) && fragCore e r

/-- Nesting depth: the largest excess of unescaped `(` over unescaped `)` in a prefix. -/
def md : List Nat → Nat
  | [] => 0
  | 0x5C :: _ :: r => md r
  | c :: r => if c == 0x28 then md r + 1 else if c == 0x29 then md r - 1 else md r

/-- Number of `(`. -/
def opens : List Nat → Nat
  | [] => 0
  | c :: r => if c == 0x28 then opens r + 1 else opens r

/-- Number of `*`, `+`, `?`, `{`. -/
def quants : List Nat → Nat
  | [] => 0
  | c :: r => if c == 0x2A || c == 0x2B || c == 0x3F || c == 0x7B then quants r + 1 else quants r

theorem fragCore_esc (e : Bool) (x : Nat) (r : List Nat) :
    fragCore e (0x5C :: x :: r) = (e && escOk x && fragCore e r) := by
  rw [fragCore]

theorem fragCore_cons (e : Bool) {c : Nat} (r : List Nat) (hc : c ≠ 0x5C) :
    fragCore e (c :: r) = (c != 0x5B && (c != 0x28 || parenOk r) && fragCore e r) := by
  rw [fragCore]
  · have hb : (c != 0x5C) = true := bne_iff_ne.2 hc
    rw [hb]; rfl
  · intro x r' h; exact absurd h hc

theorem md_esc (x : Nat) (r : List Nat) : md (0x5C :: x :: r) = md r := by
  rw [md]

theorem md_cons {c : Nat} (r : List Nat) (hc : c ≠ 0x5C) :
    md (c :: r) = if c == 0x28 then md r + 1 else if c == 0x29 then md r - 1 else md r := by
  rw [md]
  intro x r' h; exact absurd h hc

theorem fragCore_tail {e : Bool} {c : Nat} {r : List Nat} (hc : c ≠ 0x5C) (h : fragCore e (c :: r) = true) :
    fragCore e r = true := by
  rw [fragCore_cons e r hc] at h
  simp at h; exact h.2

theorem fragCore_head {e : Bool} {c : Nat} {r : List Nat} (hc : c ≠ 0x5C) (h : fragCore e (c :: r) = true) :
    c ≠ 0x5B ∧ (c = 0x28 → parenOk r = true) := by
  rw [fragCore_cons e r hc] at h
  simp at h
  refine ⟨h.1.1, fun hc => ?_⟩
  rcases h.1.2 with h' | h'
  · exact absurd hc h'
  · exact h'

theorem opens_append_le (p r : List Nat) : opens r ≤ opens (p ++ r) := by
  induction p with
  | nil => exact Nat.le_refl _
  | cons c p ih => simp only [List.cons_append, opens]; split <;> omega

theorem quants_append_le (p r : List Nat) : quants r ≤ quants (p ++ r) := by
  induction p with
  | nil => exact Nat.le_refl _
  | cons c p ih => simp only [List.cons_append, quants]; split <;> omega

/-- A prefix whose removal changes neither the nesting depth nor membership in the fragment: a
sequence of ordinary characters and complete two-character escapes. -/
def Neutral (e : Bool) (p : List Nat) : Prop :=
  ∀ r, md (p ++ r) = md r ∧ (fragCore e (p ++ r) = true → fragCore e r = true)

theorem neutral_nil (e : Bool) : Neutral e [] := fun _ => ⟨rfl, id⟩

theorem neutral_append {e : Bool} {p q : List Nat} (hp : Neutral e p) (hq : Neutral e q) :
    Neutral e (p ++ q) := by
  intro r
  rw [List.append_assoc]
  exact ⟨(hp (q ++ r)).1.trans (hq r).1, fun h => (hq r).2 ((hp (q ++ r)).2 h)⟩

/-- An ordinary character: not a parenthesis, not a backslash. -/
def Plain (c : Nat) : Prop := c ≠ 0x28 ∧ c ≠ 0x29 ∧ c ≠ 0x5C

theorem neutral_plain (e : Bool) {c : Nat} (h : Plain c) : Neutral e [c] := by
  intro r
  obtain ⟨h1, h2, h3⟩ := h
  refine ⟨?_, fun hf => fragCore_tail h3 hf⟩
  simp [md_cons r h3, h1, h2]

theorem neutral_esc (e : Bool) (x : Nat) : Neutral e [0x5C, x] := by
  intro r
  refine ⟨md_esc x r, fun hf => ?_⟩
  simp only [List.cons_append, List.nil_append, fragCore_esc, Bool.and_eq_true] at hf
  exact hf.2

theorem neutral_plains (e : Bool) {p : List Nat} (h : ∀ c ∈ p, Plain c) : Neutral e p := by
  induction p with
  | nil => exact neutral_nil e
  | cons c p ih =>
    exact neutral_append (p := [c]) (neutral_plain e (h c (by simp))) (ih (fun x hx => h x (by simp [hx])))

theorem quants_qdrop {r r2 : List Nat} (h : QDrop r r2) : quants r2 + 1 ≤ quants r := by
  obtain ⟨x, p, rfl, hx, _⟩ := h
  have := quants_append_le p r2
  have hq : (x == 0x2A || x == 0x2B || x == 0x3F || x == 0x7B) = true := by
    rcases hx with h | h | h | h <;> subst h <;> rfl
  simp only [quants, hq, if_true]
  omega

theorem QDrop.neutral (e : Bool) {r r2 : List Nat} (h : QDrop r r2) : ∃ p, r = p ++ r2 ∧ Neutral e p := by
  obtain ⟨x, p, rfl, hx, hp⟩ := h
  refine ⟨x :: p, rfl, neutral_plains e ?_⟩
  intro c hc
  rcases List.mem_cons.1 hc with rfl | h
  · rcases hx with h | h | h | h <;> subst h <;> (refine ⟨?_, ?_, ?_⟩ <;> decide)
  · exact ⟨(hp c h).1, (hp c h).2.1, (hp c h).2.2.1⟩

/-! ## Invariants -/

/-- The crate's limits, lexically: nesting depth at most 255 (`MAX_NESTING_DEPTH = 256` counts the
top-level disjunction), at most 65535 `(` (capture groups), at most 65535 quantifier characters
(loops). -/
def withinLimits (pat : List Nat) : Bool :=
  decide (md pat ≤ 255) && decide (opens pat ≤ 65535) && decide (quants pat ≤ 65535)

/-- Invariant of the parser state during the descent (for a state INSIDE a disjunction, i.e. after
`consume_disjunction` has incremented `depth`).  `e`: escapes admitted (then the input consists of
Unicode scalar values); `u`: the mode. -/
structure PInv (e u : Bool) (st : PState) : Prop where
  uni : st.flags.unicode = u
  frag : fragCore e st.input = true
  chars : e = true → ∀ c ∈ st.input, Parse.isChar c = true
  depth : st.depth + md st.input ≤ 256
  groups : st.groupCount + opens st.input ≤ 65535
  loops : st.loopCount + quants st.input ≤ 65535

/-- Invariant of the grammar recognizer's state on the fragment: no back-reference, no named group. -/
structure EInv (est : ESG.St) : Prop where
  maxDec : est.maxDec = 0
  refs : est.refs = []
  names : est.names = []

/-- A syntax error. -/
def IsSyn {α : Type} (r : Res α) : Prop := ∃ msg, r = .error (.syntax msg)

theorem isSyn_synErr {α : Type} (m : String) : IsSyn (synErr m : Res α) := ⟨m, rfl⟩

/-- Consuming a neutral prefix. -/
theorem PInv.drop {e u : Bool} {st : PState} (h : PInv e u st) {p r : List Nat} (hi : st.input = p ++ r)
    (hp : Neutral e p) : PInv e u { st with input := r } := by
  have h1 := h.depth; have h2 := h.groups; have h3 := h.loops; have h4 := h.frag
  have h5 := h.chars
  rw [hi] at h1 h2 h3 h4 h5
  rw [(hp r).1] at h1
  have := quants_append_le p r
  have := opens_append_le p r
  exact ⟨h.uni, (hp r).2 h4, fun he c hc => h5 he c (by simp [hc]), h1, by simp only; omega,
    by simp only; omega⟩

theorem PInv.tail {e u : Bool} {st : PState} (h : PInv e u st) {c : Nat} {r : List Nat}
    (hi : st.input = c :: r) (h1 : c ≠ 0x28) (h2 : c ≠ 0x29) (h3 : c ≠ 0x5C) :
    PInv e u { st with input := r } :=
  h.drop (p := [c]) hi (neutral_plain e ⟨h1, h2, h3⟩)

/-! ## One iteration of the term loop -/

/-- The part of `consume_term`'s loop body after the atom: the optional quantifier. -/
def quantStep (g : Nat) (out : AtomOut) : Res (PState × List Node) :=
  match quantifier out.st.flags.unicode out.st.input with
  | .error e => .error e
  | .ok (none, rest) => .ok ({ out.st with input := rest }, out.result)
  | .ok (some quant, rest) =>
    let st : PState := { out.st with input := rest }
    if !out.quantifierAllowed then synErr "Quantifier not allowed here"
    else if (match quant.max with | some mx => decide (quant.min > mx) | none => false) then
      synErr "Invalid quantifier"
    else if out.startOffset > out.result.length then panicAt "consume_term: result.split_off(start_offset)"
    else
      if st.loopCount ≥ Gen.MAX_LOOPS then limErr "Loop count limit exceeded"
      else
        let st := { st with loopCount := st.loopCount + 1 }
        .ok (st, out.result.take out.startOffset ++
          [.loop (makeCat (out.result.drop out.startOffset)) quant g st.groupCount])

/-- One iteration of `consume_term`'s loop on the peeked character `c`. -/
def termStep (fuel : Nat) (st : PState) (acc : List Node) (c : Nat) : Res (PState × List Node) :=
  match consumeAtom fuel st acc c with
  | .error e => .error e
  | .ok out => quantStep st.groupCount out

theorem termLoop_succ (fuel : Nat) (st : PState) (acc : List Node) :
    termLoop (fuel + 1) st acc =
      match st.input with
      | [] => .ok (makeCat acc, st)
      | c :: _ =>
        if c == 0x29 || c == 0x7C then .ok (makeCat acc, st)
        else
          match termStep fuel st acc c with
          | .error e => .error e
          | .ok (st', acc') => termLoop fuel st' acc' := by
  rw [termLoop]
  unfold termStep quantStep
  cases st.input with
  | nil => rfl
  | cons c rest =>
    simp only
    by_cases hc : (c == 0x29 || c == 0x7C) = true
    · simp only [hc, if_true]
    · simp only [hc, if_false]
      cases consumeAtom fuel st acc c with
      | error e => rfl
      | ok out =>
        simp only
        cases quantifier out.st.flags.unicode out.st.input with
        | error e => rfl
        | ok p =>
          obtain ⟨q, rest'⟩ := p
          cases q with
          | none => rfl
          | some quant =>
            simp only
            by_cases h1 : (!out.quantifierAllowed) = true
            · simp only [h1, if_true]; rfl
            · simp only [h1, if_false]
              cases hm : quant.max with
              | none =>
                simp only [Bool.false_eq_true, if_false]
                repeat (first | rfl | split)
              | some mx =>
                simp only
                repeat (first | rfl | split)

end Regress.C08Frag
